(* The property C20 as decidable predicates: [p_step] is the per-step
   predicate P that is (a) proved of the model for every history in
   Proofs.v and (b) evaluated on implementation traces by Corr.v. *)
From Coq Require Export String.
From VF Require Export LockSet.Model.
Open Scope N_scope.

Definition lock_eqb (a b : lock) : bool :=
  (lstart a =? lstart b) && (lend a =? lend b) && (lowner a =? lowner b)
  && ltype_eqb (ltyp a) (ltyp b).

Fixpoint list_eqb {A} (eqb : A -> A -> bool) (a b : list A) : bool :=
  match a, b with
  | [], [] => true
  | x :: a', y :: b' => eqb x y && list_eqb eqb a' b'
  | _, _ => false
  end.

Definition out_eqb (a b : out) : bool :=
  match a, b with
  | Granted d1, Granted d2 => Z.eqb d1 d2
  | Denied c1, Denied c2 => lock_eqb c1 c2
  | TestOk, TestOk => true
  | Panicked, Panicked => true
  | Inval, Inval => true
  | DeniedNfs o1 l1 x1 w1, DeniedNfs o2 l2 x2 w2 =>
    (o1 =? o2) && (l1 =? l2) && Bool.eqb x1 x2 && (w1 =? w2)
  | _, _ => false
  end.

(* ---- The property predicate P, on one observed step -------------------- *)

(* Which kind of lock owner [o] holds on byte [b] according to list [l]:
   the first entry of [o] covering [b]. *)
Definition covers (s : lock) (o b : N) : bool :=
  (lowner s =? o) && (lstart s <=? b) && (b <? lend s).

Fixpoint kind_at (l : list lock) (o b : N) : option ltype :=
  match l with
  | [] => None
  | s :: tl => if covers s o b then Some (ltyp s) else kind_at tl o b
  end.

Definition okind_eqb (a b : option ltype) : bool :=
  match a, b with
  | None, None => true
  | Some x, Some y => ltype_eqb x y
  | _, _ => false
  end.

Definition overlaps (a b : lock) : bool := (lstart a <? lend b) && (lstart b <? lend a).

Definition conflicts (a b : lock) : bool :=
  negb (lowner a =? lowner b) && overlaps a b
  && (ltype_eqb (ltyp a) Exclusive || ltype_eqb (ltyp b) Exclusive).

(* No two entries of different owners overlap unless both are shared. *)
Fixpoint compatible (l : list lock) : bool :=
  match l with
  | [] => true
  | s :: tl => forallb (fun t => negb (conflicts s t)) tl && compatible tl
  end.

(* Entries are non-empty, locked, sorted by start; entries of one owner
   are pairwise disjoint, and touching ones have different types. *)
Definition entry_ok (s : lock) : bool :=
  (lstart s <? lend s) && negb (ltype_eqb (ltyp s) Unlocked).

Definition apart (s t : lock) : bool :=   (* s before t in the list *)
  (lstart s <=? lstart t) &&
  (negb (lowner s =? lowner t) ||
   (lend s <? lstart t) || ((lend s =? lstart t) && negb (ltype_eqb (ltyp s) (ltyp t)))).

Fixpoint wf (l : list lock) : bool :=
  match l with
  | [] => true
  | s :: tl => entry_ok s && forallb (apart s) tl && wf tl
  end.

(* Sample points: every boundary of every entry and of the request, and
   the byte before it.  kind_at is piecewise constant between boundaries,
   so agreement on these points is agreement on all bytes (this is proved
   for the model in Proofs.v; here it is the monitor for the code). *)
Definition points_of (l : list lock) : list N :=
  flat_map (fun s => [lstart s; N.pred (lstart s); lend s; N.pred (lend s)]) l.

Fixpoint dedup (l : list N) : list N :=
  match l with
  | [] => []
  | x :: tl => if existsb (N.eqb x) tl then dedup tl else x :: dedup tl
  end.

Definition owners_of (l : list lock) : list N := dedup (map lowner l).

(* What a request of type [t] leaves on the bytes it covers. *)
Definition kreq (t : ltype) : option ltype :=
  match t with Unlocked => None | t => Some t end.

Definition expected_kind (pre : list lock) (q : lock) (o b : N) : option ltype :=
  if covers q o b then kreq (ltyp q) else kind_at pre o b.

Definition bytes_ok (pre post : list lock) (q : lock) : bool :=
  let pts := dedup (points_of (q :: pre ++ post)) in
  let ows := owners_of (q :: pre ++ post) in
  forallb (fun o => forallb (fun b =>
     okind_eqb (kind_at post o b) (expected_kind pre q o b)) pts) ows.

Definition unchanged (pre post : list lock) : bool := list_eqb lock_eqb pre post.

Definition p_set (pre post : list lock) (q : lock) (x : out) : string :=
  match x with
  | Granted d =>
    if negb (bytes_ok pre post q) then "bytes"
    else if negb (Z.eqb d (Z.of_nat (length post) - Z.of_nat (length pre))) then "delta"
    else if negb (wf post) then "wf"
    else ""
  | _ => "set-outcome"
  end%string.

Definition p_base (pre post : list lock) (o : op) (x : out) : string :=
  match o with
  | OLock ow ex s e =>
    let q := mkLock s e ow (ty_of ex) in
    match x with
    | Denied c =>
      if negb (existsb (lock_eqb c) pre && conflicts c q) then "denied-without-conflict"
      else if negb (unchanged pre post) then "denied-changed-state"
      else ""
    | Granted _ =>
      if existsb (fun c => conflicts c q) pre then "granted-despite-conflict"
      else let r := p_set pre post q x in
           if String.eqb r "" then (if negb (compatible pre) || compatible post then "" else "exclusion") else r
    | _ => "lock-outcome"
    end
  | OUnlock ow s e => p_set pre post (mkLock s e ow Unlocked) x
  | OTest ow ex s e =>
    let q := mkLock s e ow (ty_of ex) in
    if negb (unchanged pre post) then "test-changed-state" else
    match x with
    | Denied c =>
      if existsb (lock_eqb c) pre && conflicts c q then "" else "denied-without-conflict"
    | TestOk => if existsb (fun c => conflicts c q) pre then "test-missed-conflict" else ""
    | _ => "test-outcome"
    end
  | ORawSet ow t s e => p_set pre post (mkLock s e ow t) x
  | _ => "not-a-table-op"
  end%string.

(* Requests through OpenedFile carry (offset, length).  A rejected request
   must leave the table alone; an accepted one must denote a non-empty
   range and then behaves as the table request for [start, end).  A denial
   is reported as (offset, length, type, owner) of a conflicting entry. *)
Definition p_inval (pre post : list lock) (x : out) : string :=
  match x with
  | Inval => if unchanged pre post then "" else "inval-changed-state"
  | _ => "inval-expected"
  end%string.

Definition p_nfs (pre post : list lock) (off len : N) (mk : N -> N -> op) (x : out) : string :=
  match offset_length_to_start_end off len with
  | None => p_inval pre post x
  | Some (s, e) =>
    if (e <=? s)%N then
      match x with
      | Inval => p_inval pre post x
      | _ => "empty-range-accepted"
      end
    else
      match x with
      | Inval => "valid-range-rejected"
      | Denied _ => "nfs-outcome"
      | DeniedNfs _ _ _ _ =>
        match mk s e with
        | OLock ow ex _ _ | OTest ow ex _ _ =>
          let q := mkLock s e ow (ty_of ex) in
          if negb (existsb (fun c => conflicts c q && out_eqb (to_denied c) x) pre)
          then "denied-without-conflict"
          else if negb (unchanged pre post) then "denied-changed-state" else ""
        | _ => "nfs-outcome"
        end
      | _ => p_base pre post (mk s e) x
      end
  end%string.

Definition p_step (pre post : list lock) (o : op) (x : out) : string :=
  match o with
  | ONfsLock ow ex off len => p_nfs pre post off len (OLock ow ex) x
  | ONfsUnlock ow off len => p_nfs pre post off len (OUnlock ow) x
  | ONfsTest ow ex off len => p_nfs pre post off len (OTest ow ex) x
  | OUnlockAll ow => p_base pre post (OUnlock ow 0 max_u64) x
  | _ => p_base pre post o x
  end.


(* ---- P over a whole trace ------------------------------------------------ *)

(* The fold of [p_step] over the model's own run: pre-state, post-state,
   operation and output of every step.  Corr.v folds the same [p_step] over
   the implementation's recorded (pre, post, op, out). *)
Fixpoint trace_ok (l : list lock) (ops : list op) : bool :=
  match ops with
  | [] => true
  | o :: tl => let '(l', x) := step l o in
               String.eqb (p_step l l' o x) "" && trace_ok l' tl
  end.

(* Requests as the callers of the lock table produce them: non-empty
   ranges.  [offset_length_to_start_end] guarantees that for all uint64
   (offset, length) except (2^64-1, 2^64-1). *)
Definition valid_op (o : op) : Prop :=
  match o with
  | OLock _ _ s e | OUnlock _ s e | OTest _ _ s e | ORawSet _ _ s e => s < e
  | ONfsLock _ _ off len | ONfsUnlock _ off len | ONfsTest _ _ off len =>
    (* uint64 arguments, and not the one pair that denotes the empty range
       [2^64-1, 2^64-1) -- see offset_length_nonempty_refuted *)
    off <= max_u64 /\ len <= max_u64 /\ ~ (off = max_u64 /\ len = max_u64)
  | OUnlockAll _ => True
  end.
Definition valid_ops (ops : list op) : Prop := Forall valid_op ops.

(* Histories in which Set is only reached the way OpenedFile.Lock/Unlock
   reach it (Test first, or type Unlocked). *)
Definition is_raw (o : op) : bool := match o with ORawSet _ _ _ _ => true | _ => false end.
Definition no_raw (ops : list op) : Prop := Forall (fun o => is_raw o = false) ops.

(* Per byte: two different owners never both hold a byte unless both
   hold it shared. *)
Definition excl_bytes (l : list lock) : Prop :=
  forall o1 o2 b k1 k2, o1 <> o2 ->
    kind_at l o1 b = Some k1 -> kind_at l o2 b = Some k2 ->
    k1 = Shared /\ k2 = Shared.
