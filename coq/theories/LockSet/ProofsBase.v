(* Head-recursive reformulation of Set() and its link to the accumulator
   based transcription in Model.v.  All later proofs are done on [setl] /
   [fin_*]; [set_list_setl], [set_panic_setp] carry them back to [set]. *)
From Coq Require Import Lia ZifyBool ZifyN.
From VF Require Import LockSet.Model LockSet.Spec.
Open Scope N_scope.

(* ---- small reflection facts --------------------------------------------- *)

Lemma ltype_eqb_eq a b : ltype_eqb a b = true <-> a = b.
Proof. destruct a, b; cbn; split; congruence. Qed.

Lemma ltype_eqb_neq a b : ltype_eqb a b = false <-> a <> b.
Proof. destruct a, b; cbn; split; congruence. Qed.

Lemma ltype_eqb_refl a : ltype_eqb a a = true.
Proof. now destruct a. Qed.

Lemma ltype_eqb_sym a b : ltype_eqb a b = ltype_eqb b a.
Proof. now destruct a, b. Qed.

Definition ins (t : ltype) (n : lock) : list lock :=
  match t with Unlocked => [] | _ => [n] end.

Definition otl (tr : option lock) : list lock :=
  match tr with Some t => [t] | None => [] end.

(* ---- phase 2, head recursive -------------------------------------------- *)

Fixpoint fin_new (l : list lock) (nw : lock) : lock :=
  match l with
  | [] => nw
  | s :: tl =>
    if lend nw <? lstart s then nw
    else if lowner s =? lowner nw then
      if lend s <=? lend nw then fin_new tl nw
      else if ltype_eqb (ltyp nw) (ltyp s) then fin_new tl (with_end nw (lend s))
      else fin_new tl nw
    else fin_new tl nw
  end.

(* kept ++ trailing ++ rest *)
Fixpoint fin_post (l : list lock) (nw : lock) (tr : option lock) : list lock :=
  match l with
  | [] => otl tr
  | s :: tl =>
    if lend nw <? lstart s then otl tr ++ l
    else if lowner s =? lowner nw then
      if lend s <=? lend nw then fin_post tl nw tr
      else if ltype_eqb (ltyp nw) (ltyp s) then fin_post tl (with_end nw (lend s)) tr
      else fin_post tl nw (Some (with_start s (lend nw)))
    else s :: fin_post tl nw tr
  end.

Fixpoint fin_panic (l : list lock) (nw : lock) (tr : option lock) (pn : bool) : bool :=
  match l with
  | [] => pn
  | s :: tl =>
    if lend nw <? lstart s then pn
    else if lowner s =? lowner nw then
      if lend s <=? lend nw then fin_panic tl nw tr pn
      else if ltype_eqb (ltyp nw) (ltyp s) then fin_panic tl (with_end nw (lend s)) tr pn
      else fin_panic tl nw (Some (with_start s (lend nw)))
             (match tr with Some _ => true | None => pn end)
    else fin_panic tl nw tr pn
  end.

Lemma phase2_link l : forall nw tr pn acc rm,
  let r := phase2 l nw tr pn acc rm in
  p2_new r = fin_new l nw /\
  p2_kept r ++ otl (p2_trailing r) ++ p2_rest r = rev acc ++ fin_post l nw tr /\
  p2_panic r = fin_panic l nw tr pn.
Proof.
  induction l as [|s tl IH]; intros nw tr pn acc rm; cbn [phase2 fin_new fin_post fin_panic].
  - cbn. rewrite app_nil_r. auto.
  - destruct (lend nw <? lstart s) eqn:E1; [cbn; auto|].
    destruct (lowner s =? lowner nw) eqn:E2.
    + destruct (lend s <=? lend nw) eqn:E3; [apply IH|].
      destruct (ltype_eqb (ltyp nw) (ltyp s)) eqn:E4; apply IH.
    + specialize (IH nw tr pn (s :: acc) rm). cbn zeta in IH.
      destruct IH as (H1 & H2 & H3). repeat split; auto.
      rewrite H2. cbn [rev]. now rewrite <- app_assoc.
Qed.

(* ---- phase 1 + phase 2, head recursive ---------------------------------- *)

Definition done (l : list lock) (nw : lock) (tr : option lock) : list lock :=
  ins (ltyp nw) (fin_new l nw) ++ fin_post l nw tr.

Fixpoint setl (l : list lock) (nw : lock) (tr : option lock) : list lock :=
  match l with
  | [] => done [] nw tr
  | s :: tl =>
    if lstart nw <=? lstart s then done l nw tr
    else if lowner s =? lowner nw then
      if ltype_eqb (ltyp nw) (ltyp s) then
        if lstart nw <=? lend s then done l (with_start nw (lstart s)) tr
        else s :: setl tl nw tr
      else
        if lstart nw <? lend s then
          if lend nw <? lend s then
            with_end s (lstart nw)
              :: setl tl nw (Some (mkLock (lend nw) (lend s) (lowner s) (ltyp s)))
          else with_end s (lstart nw) :: setl tl nw tr
        else s :: setl tl nw tr
    else s :: setl tl nw tr
  end.

Fixpoint setp (l : list lock) (nw : lock) (tr : option lock) (pn : bool) : bool :=
  match l with
  | [] => pn
  | s :: tl =>
    if lstart nw <=? lstart s then fin_panic l nw tr pn
    else if lowner s =? lowner nw then
      if ltype_eqb (ltyp nw) (ltyp s) then
        if lstart nw <=? lend s then fin_panic l (with_start nw (lstart s)) tr pn
        else setp tl nw tr pn
      else
        if lstart nw <? lend s then
          if lend nw <? lend s then
            setp tl nw (Some (mkLock (lend nw) (lend s) (lowner s) (ltyp s)))
                 (match tr with Some _ => true | None => pn end)
          else setp tl nw tr pn
        else setp tl nw tr pn
    else setp tl nw tr pn
  end.

Definition assemble (r1 : p1res) (t : ltype) : list lock * bool :=
  let r2 := phase2 (p1_rest r1) (p1_new r1) (p1_trailing r1) (p1_panic r1) [] 0 in
  (p1_before r1 ++ ins t (p2_new r2) ++ p2_kept r2 ++ otl (p2_trailing r2) ++ p2_rest r2,
   p2_panic r2).

Lemma assemble_stop acc l nw tr pn :
  assemble (mkP1 (rev acc) l nw tr pn) (ltyp nw) = (rev acc ++ done l nw tr, fin_panic l nw tr pn).
Proof.
  unfold assemble, done. cbn [p1_before p1_rest p1_new p1_trailing p1_panic].
  pose proof (phase2_link l nw tr pn [] 0%nat) as H. cbn zeta in H.
  destruct H as (H1 & H2 & H3). rewrite H1, H2, H3. reflexivity.
Qed.

Lemma phase1_link l : forall nw tr pn acc,
  assemble (phase1 l nw tr pn acc) (ltyp nw) = (rev acc ++ setl l nw tr, setp l nw tr pn).
Proof.
  induction l as [|s tl IH]; intros nw tr pn acc; cbn [phase1 setl setp].
  - apply assemble_stop.
  - destruct (lstart nw <=? lstart s) eqn:E1; [apply assemble_stop|].
    assert (Hc : forall x, rev (x :: acc) ++ setl tl nw tr = rev acc ++ x :: setl tl nw tr).
    { intros x. cbn [rev]. now rewrite <- app_assoc. }
    destruct (lowner s =? lowner nw) eqn:E2.
    + destruct (ltype_eqb (ltyp nw) (ltyp s)) eqn:E3.
      * destruct (lstart nw <=? lend s) eqn:E4.
        -- change (ltyp nw) with (ltyp (with_start nw (lstart s))) at 1. apply assemble_stop.
        -- rewrite IH. now rewrite Hc.
      * destruct (lstart nw <? lend s) eqn:E4.
        -- destruct (lend nw <? lend s) eqn:E5; rewrite IH; cbn [rev]; now rewrite <- app_assoc.
        -- rewrite IH. now rewrite Hc.
    + rewrite IH. now rewrite Hc.
Qed.

Lemma set_list_setl l nw : set_list (set l nw) = setl l nw None.
Proof.
  pose proof (phase1_link l nw None false []) as H. unfold assemble in H.
  cbn [rev app] in H. injection H as H1 H2. unfold set. cbn [set_list]. exact H1.
Qed.

Lemma set_panic_setp l nw : set_panic (set l nw) = setp l nw None false.
Proof.
  pose proof (phase1_link l nw None false []) as H. unfold assemble in H.
  cbn [rev app] in H. injection H as H1 H2. unfold set. cbn [set_panic]. exact H2.
Qed.

(* ---- delta = length change (needs nothing about the table) -------------- *)

Lemma phase1_len l : forall nw tr pn acc,
  let r := phase1 l nw tr pn acc in
  (length (p1_before r) + length (p1_rest r) = length acc + length l)%nat.
Proof.
  induction l as [|s tl IH]; intros nw tr pn acc; cbn [phase1].
  - cbn. rewrite rev_length. lia.
  - repeat match goal with
    | |- context [if ?c then _ else _] => destruct c
    end; cbn zeta; cbn [p1_before p1_rest]; rewrite ?rev_length; cbn [length]; try lia;
    rewrite IH; cbn [length]; lia.
Qed.

Lemma phase2_len l : forall nw tr pn acc rm,
  let r := phase2 l nw tr pn acc rm in
  (length (p2_kept r) + p2_removed r + length (p2_rest r) = length acc + rm + length l)%nat.
Proof.
  induction l as [|s tl IH]; intros nw tr pn acc rm; cbn [phase2].
  - cbn. rewrite rev_length. lia.
  - repeat match goal with
    | |- context [if ?c then _ else _] => destruct c
    end; cbn zeta; cbn [p2_kept p2_rest p2_removed]; rewrite ?rev_length; cbn [length]; try lia;
    rewrite IH; cbn [length]; lia.
Qed.

Lemma set_delta_length l nw :
  set_delta (set l nw) = (Z.of_nat (length (set_list (set l nw))) - Z.of_nat (length l))%Z.
Proof.
  unfold set. cbn [set_delta set_list].
  pose proof (phase1_len l nw None false []) as H1. cbn zeta in H1.
  set (r1 := phase1 l nw None false []) in *.
  pose proof (phase2_len (p1_rest r1) (p1_new r1) (p1_trailing r1) (p1_panic r1) [] 0%nat) as H2.
  cbn zeta in H2.
  set (r2 := phase2 (p1_rest r1) (p1_new r1) (p1_trailing r1) (p1_panic r1) [] 0) in *.
  rewrite !app_length. cbn [length] in *. lia.
Qed.
