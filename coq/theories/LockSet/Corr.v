(* Correspondence evaluator for the lock set: model vs implementation and
   the property predicate P evaluated on implementation traces. *)
From VF Require Import Common.Verdict LockSet.Model LockSet.Spec.
Open Scope N_scope.

(* ---- One case ----------------------------------------------------------- *)

Record case := mkCase {
  c_ops : list op;
  c_outs : list out;             (* implementation outputs, one per op *)
  c_dumps : list (list lock) }.  (* implementation list after each op *)

Fixpoint viol_from (i : nat) (pre : list lock) (ops : list op) (outs : list out)
    (dumps : list (list lock)) : verdict :=
  match ops, outs, dumps with
  | o :: ops', x :: outs', d :: dumps' =>
    let k := p_step pre d o x in
    if String.eqb k "" then viol_from (S i) d ops' outs' dumps'
    else VViolation i k
  | [], [], [] => VOk
  | _, _, _ => VMismatch i "malformed case"
  end.

Fixpoint mism_from (i : nat) (m : list lock) (ops : list op) (outs : list out)
    (dumps : list (list lock)) : verdict :=
  match ops, outs, dumps with
  | o :: ops', x :: outs', d :: dumps' =>
    let '(m', y) := step m o in
    if negb (out_eqb x y) then VMismatch i "output"
    else if negb (list_eqb lock_eqb m' d) then VMismatch i "state"
    else mism_from (S i) m' ops' outs' dumps'
  | _, _, _ => VOk
  end.

Definition check_case (c : case) : verdict :=
  vcombine (viol_from 0 [] (c_ops c) (c_outs c) (c_dumps c))
          (mism_from 0 [] (c_ops c) (c_outs c) (c_dumps c)).
