(* Test(), compatibility and the lock table over whole histories: the
   invariants hold after every history and the monitor [p_step] (the one
   Corr.v evaluates on implementation traces) holds on every model step. *)
From Coq Require Import Lia ZifyBool ZifyN.
From VF Require Import LockSet.Model LockSet.Spec LockSet.Proofs LockSet.ProofsBase LockSet.ProofsSet.
Open Scope N_scope.


(* ---- Test ----------------------------------------------------------------- *)

Lemma wf_sorted l : wf l = true -> sorted l.
Proof.
  induction l as [|s tl IH]; intros Hwf i j a b Hij Ha Hb.
  - destruct i; discriminate.
  - pose proof Hwf as Hwf'. apply wf_cons in Hwf' as (Hs & Hap & Hwtl).
    destruct j as [|j]; [lia|]. cbn in Hb. destruct i as [|i].
    + cbn in Ha. injection Ha as <-. apply nth_error_In in Hb. eapply wf_hd_le; eauto.
    + cbn in Ha. apply (IH Hwtl i j a b); auto. lia.
Qed.

Lemma test_none_iff l q : wf l = true ->
  (test l q = None <-> forallb (fun c => negb (conflicts c q)) l = true).
Proof.
  intros Hwf. rewrite forallb_forall. split.
  - intros Ht c Hc. rewrite (test_none l q (wf_sorted l Hwf) Ht c Hc). reflexivity.
  - intros H. destruct (test l q) as [c|] eqn:Et; auto.
    apply test_some in Et as [Hin Hc]. specialize (H c Hin). rewrite Hc in H. discriminate.
Qed.

Lemma test_some_iff l q : wf l = true ->
  ((exists c, test l q = Some c) <-> existsb (fun c => conflicts c q) l = true).
Proof.
  intros Hwf. rewrite existsb_exists. split.
  - intros [c Hc]. apply test_some in Hc. exists c. exact Hc.
  - intros (c & Hin & Hc). destruct (test l q) as [d|] eqn:Et; [eauto|].
    rewrite (test_none l q (wf_sorted l Hwf) Et c Hin) in Hc. discriminate.
Qed.

(* ---- entries vs bytes -------------------------------------------------- *)

Lemma kind_at_some l o b k :
  kind_at l o b = Some k -> exists s, In s l /\ covers s o b = true /\ ltyp s = k.
Proof.
  induction l as [|x tl IH]; cbn [kind_at]; [discriminate|].
  destruct (covers x o b) eqn:E.
  - intros [= <-]. exists x. repeat split; auto. now left.
  - intros H. apply IH in H as (s & H1 & H2 & H3). exists s. repeat split; auto. now right.
Qed.

Lemma kind_at_unique l s o b :
  wf l = true -> In s l -> covers s o b = true -> kind_at l o b = Some (ltyp s).
Proof.
  induction l as [|x tl IH]; intros Hwf Hin Hc; [destruct Hin|].
  apply wf_cons in Hwf as (Hx & Hap & Hwtl). cbn [kind_at].
  destruct Hin as [->|Hin]; [now rewrite Hc|].
  destruct (covers x o b) eqn:E; [|auto].
  specialize (Hap s Hin). exfalso. nrm. lia.
Qed.

Lemma tn_le2 t : tn t <= 2.
Proof. destruct t; cbn; lia. Qed.

Definition pw (l : list lock) : Prop :=
  forall s t, In s l -> In t l -> conflicts s t = false.

Lemma conflicts_sym s t : conflicts s t = conflicts t s.
Proof. unfold conflicts, overlaps. lia. Qed.

Lemma compatible_pw l : compatible l = true <-> pw l.
Proof.
  induction l as [|x tl IH]; cbn [compatible].
  - split; auto. intros _ s t [].
  - rewrite andb_true_iff, forallb_forall, IH. split.
    + intros [H1 H2] s t Hs Ht. destruct Hs as [Hs|Hs], Ht as [Ht|Ht]; subst; auto.
      * unfold conflicts. lia.
      * specialize (H1 t Ht). destruct (conflicts s t); auto.
      * rewrite conflicts_sym. specialize (H1 s Hs). destruct (conflicts t s); auto.
    + intros H. split.
      * intros t Ht. rewrite (H x t); auto. now left. now right.
      * intros s t Hs Ht. apply H; now right.
Qed.

Lemma pw_excl l : wf l = true -> pw l -> excl_bytes l.
Proof.
  intros Hwf Hpw o1 o2 b k1 k2 Hne H1 H2.
  apply kind_at_some in H1 as (s1 & I1 & C1 & <-).
  apply kind_at_some in H2 as (s2 & I2 & C2 & <-).
  pose proof (Hpw s1 s2 I1 I2) as Hc.
  pose proof (wf_entry l s1 Hwf I1) as E1. pose proof (wf_entry l s2 Hwf I2) as E2.
  pose proof (tn_le2 (ltyp s1)). pose proof (tn_le2 (ltyp s2)).
  unfold conflicts, overlaps in Hc. nrm.
  split; apply tn_inj; cbn [tn]; lia.
Qed.

Lemma excl_pw l : wf l = true -> excl_bytes l -> pw l.
Proof.
  intros Hwf Hex s t Hs Ht. destruct (conflicts s t) eqn:Hc; auto. exfalso.
  pose proof (wf_entry l s Hwf Hs) as E1. pose proof (wf_entry l t Hwf Ht) as E2.
  set (b := N.max (lstart s) (lstart t)).
  assert (C1 : covers s (lowner s) b = true) by (unfold conflicts, overlaps in Hc; nrm; lia).
  assert (C2 : covers t (lowner t) b = true) by (unfold conflicts, overlaps in Hc; nrm; lia).
  assert (Hne : lowner s <> lowner t) by (unfold conflicts in Hc; lia).
  destruct (Hex _ _ b _ _ Hne (kind_at_unique l s _ b Hwf Hs C1) (kind_at_unique l t _ b Hwf Ht C2)) as [K1 K2].
  unfold conflicts in Hc. rewrite K1, K2 in Hc. cbn in Hc. lia.
Qed.

Lemma compatible_excl l : wf l = true -> (compatible l = true <-> excl_bytes l).
Proof.
  intros Hwf. rewrite compatible_pw. split; [apply pw_excl|apply excl_pw]; auto.
Qed.

(* ---- Set keeps owners apart when Test found no conflict --------------- *)

Lemma set_excl l q :
  wf l = true -> lstart q < lend q -> excl_bytes l ->
  (tn (ltyp q) <> 0 -> forall c, In c l -> conflicts c q = false) ->
  excl_bytes (set_list (set l q)).
Proof.
  intros Hwf Hne Hex Hnc o1 o2 b k1 k2 Ho. rewrite !set_bytes by auto. unfold expected_kind.
  assert (Hside : forall oa ob ka kb, oa <> ob -> covers q oa b = true -> kreq (ltyp q) = Some ka ->
            kind_at l ob b = Some kb -> ka = Shared /\ kb = Shared).
  { intros oa ob ka kb Hab Hc Hk Hb.
    apply kind_at_some in Hb as (c & Hin & Hcc & <-).
    assert (Hl : tn (ltyp q) <> 0) by (destruct (ltyp q); cbn in *; congruence).
    assert (ka = ltyp q) as -> by (destruct (ltyp q); cbn in *; congruence).
    specialize (Hnc Hl c Hin). pose proof (wf_entry l c Hwf Hin) as Ec.
    pose proof (tn_le2 (ltyp q)). pose proof (tn_le2 (ltyp c)).
    unfold conflicts, overlaps in Hnc. nrm. split; apply tn_inj; cbn [tn]; lia. }
  destruct (covers q o1 b) eqn:C1; destruct (covers q o2 b) eqn:C2.
  - exfalso. nrm. lia.
  - intros H1 H2. eapply Hside; eauto.
  - intros H1 H2. apply and_comm. eapply (Hside o2 o1); eauto.
  - apply Hex; auto.
Qed.


(* ---- offsetLengthToStartEnd ---------------------------------------------- *)

Lemma olse_spec off len : off <= max_u64 -> len <= max_u64 ->
  offset_length_to_start_end off len =
  if len =? 0 then None
  else if len =? max_u64 then Some (off, max_u64)
  else if off + len <=? max_u64 then Some (off, off + len) else None.
Proof.
  intros H1 H2. unfold offset_length_to_start_end.
  destruct (len =? 0); auto. destruct (len =? max_u64); auto.
  destruct (max_u64 - off <? len) eqn:E1; destruct (off + len <=? max_u64) eqn:E2; auto; lia.
Qed.

Lemma olse_range off len s e : off <= max_u64 -> len <= max_u64 ->
  offset_length_to_start_end off len = Some (s, e) ->
  s = off /\ s <= e /\ e <= max_u64 /\ (s < e \/ (off = max_u64 /\ len = max_u64)).
Proof.
  intros H1 H2. unfold offset_length_to_start_end.
  destruct (len =? 0) eqn:E0; [discriminate|].
  destruct (len =? max_u64) eqn:E1.
  - intros [= <- <-]. lia.
  - destruct (max_u64 - off <? len) eqn:E2; [discriminate|]. intros [= <- <-]. lia.
Qed.

Lemma olse_nonempty off len s e : off < max_u64 -> len <= max_u64 ->
  offset_length_to_start_end off len = Some (s, e) -> s < e.
Proof.
  intros H1 H2 H. apply olse_range in H; lia.
Qed.

(* The unrestricted statement is false: offset = length = 2^64-1 ("from the
   last offset to end of file") is accepted and yields the empty range. *)
Lemma olse_nonempty_refuted :
  exists off len s e, off <= max_u64 /\ len <= max_u64 /\
    offset_length_to_start_end off len = Some (s, e) /\ ~ s < e.
Proof.
  exists max_u64, max_u64, max_u64, max_u64. vm_compute. repeat split; congruence.
Qed.

Lemma olse_valid off len :
  off <= max_u64 -> len <= max_u64 -> ~ (off = max_u64 /\ len = max_u64) ->
  offset_length_to_start_end off len = None \/
  exists s e, offset_length_to_start_end off len = Some (s, e) /\ s < e /\ e <= max_u64.
Proof.
  intros H1 H2 H3. destruct (offset_length_to_start_end off len) as [[s e]|] eqn:E; auto.
  right. exists s, e. apply olse_range in E; auto. repeat split; auto; lia.
Qed.

Definition base_valid (o : op) : Prop :=
  match o with
  | OLock _ _ s e | OUnlock _ s e | OTest _ _ s e | ORawSet _ _ s e => s < e
  | _ => False
  end.



(* ---- one step ------------------------------------------------------------- *)

Lemma ty_of_locked ex : tn (ltyp (mkLock 0 0 0 (ty_of ex))) <> 0.
Proof. destruct ex; cbn; lia. Qed.

Lemma step_base_wf l o : wf l = true -> base_valid o -> wf (fst (step_base l o)) = true.
Proof.
  intros Hwf Hv. destruct o as [ow ex s e|ow s e|ow ex s e|ow t s e| | | |];
  cbn in Hv; try contradiction; cbn [step_base].
  - destruct (test l _); cbn [fst]; auto. apply set_wf; auto.
  - cbn [fst]. apply set_wf; auto.
  - destruct (test l _); auto.
  - cbn [fst]. apply set_wf; auto.
Qed.

Lemma fst_let (p : list lock * out) (f : out -> out) :
  fst (let '(l', x) := p in (l', f x)) = fst p.
Proof. now destruct p. Qed.

Lemma snd_let (p : list lock * out) (f : out -> out) :
  snd (let '(l', x) := p in (l', f x)) = f (snd p).
Proof. now destruct p. Qed.

(* How a step through OpenedFile reduces to a step of the table. *)
Inductive via_base (l : list lock) (o : op) : Prop :=
| VB_inval : step l o = (l, Inval) -> via_base l o
| VB_base (b : op) (f : out -> out) :
    base_valid b -> is_raw b = false ->
    fst (step l o) = fst (step_base l b) -> snd (step l o) = f (snd (step_base l b)) ->
    via_base l o.

Lemma step_via_base l o : valid_op o -> is_raw o = false -> via_base l o.
Proof.
  intros Hv Hr. destruct o as [ow ex s e|ow s e|ow ex s e|ow t s e|ow ex off len|ow off len|ow ex off len|ow];
  cbn in Hv; try discriminate.
  - apply (VB_base l _ (OLock ow ex s e) (fun x => x)); auto.
  - apply (VB_base l _ (OUnlock ow s e) (fun x => x)); auto.
  - apply (VB_base l _ (OTest ow ex s e) (fun x => x)); auto.
  - destruct Hv as (H1 & H2 & H3).
    destruct (olse_valid off len H1 H2 H3) as [E|(s & e & E & Hlt & _)].
    + apply VB_inval. cbn [step]. now rewrite E.
    + apply (VB_base l _ (OLock ow ex s e) nfs_out); auto; cbn [step]; rewrite E;
      [apply fst_let|apply snd_let].
  - destruct Hv as (H1 & H2 & H3).
    destruct (olse_valid off len H1 H2 H3) as [E|(s & e & E & Hlt & _)].
    + apply VB_inval. cbn [step]. now rewrite E.
    + apply (VB_base l _ (OUnlock ow s e) (fun x => x)); auto; cbn [step]; now rewrite E.
  - destruct Hv as (H1 & H2 & H3).
    destruct (olse_valid off len H1 H2 H3) as [E|(s & e & E & Hlt & _)].
    + apply VB_inval. cbn [step]. now rewrite E.
    + apply (VB_base l _ (OTest ow ex s e) nfs_out); auto; cbn [step]; rewrite E;
      [apply fst_let|apply snd_let].
  - apply (VB_base l _ (OUnlock ow 0 max_u64) (fun x => x)); auto. cbn. unfold max_u64. lia.
Qed.

Lemma step_wf l o : wf l = true -> valid_op o -> wf (fst (step l o)) = true.
Proof.
  intros Hwf Hv. destruct (is_raw o) eqn:Hr.
  - destruct o; try discriminate. apply (step_base_wf l (ORawSet owner t s e)); auto.
  - destruct (step_via_base l o Hv Hr) as [E|b f Hb _ E _]; [now rewrite E|].
    rewrite E. now apply step_base_wf.
Qed.

Lemma step_base_excl l o :
  wf l = true -> base_valid o -> is_raw o = false ->
  excl_bytes l -> excl_bytes (fst (step_base l o)).
Proof.
  intros Hwf Hv Hr Hex. destruct o as [ow ex s e|ow s e|ow ex s e|ow t s e| | | |];
  cbn in Hv; try contradiction; cbn [step_base]; try discriminate.
  - destruct (test l _) eqn:Et; cbn [fst]; auto. apply set_excl; auto.
    intros _ c Hc. eapply test_none; eauto. now apply wf_sorted.
  - cbn [fst]. apply set_excl; auto. cbn. lia.
  - destruct (test l _); auto.
Qed.

Lemma step_excl l o :
  wf l = true -> valid_op o -> is_raw o = false ->
  excl_bytes l -> excl_bytes (fst (step l o)).
Proof.
  intros Hwf Hv Hr Hex.
  destruct (step_via_base l o Hv Hr) as [E|b f Hb Hrb E _]; [now rewrite E|].
  rewrite E. now apply step_base_excl.
Qed.

Lemma run_cons l o ops :
  fst (run l (o :: ops)) = fst (run (fst (step l o)) ops).
Proof.
  cbn [run]. destruct (step l o) as [l1 x]. cbn [fst]. destruct (run l1 ops) as [l2 xs]. reflexivity.
Qed.

Lemma run_wf ops : forall l, wf l = true -> valid_ops ops -> wf (fst (run l ops)) = true.
Proof.
  induction ops as [|o tl IH]; intros l Hwf Hv; [exact Hwf|].
  rewrite run_cons. inversion Hv; subst. apply IH; auto. now apply step_wf.
Qed.

Lemma run_excl ops : forall l, wf l = true -> excl_bytes l -> valid_ops ops -> no_raw ops ->
  excl_bytes (fst (run l ops)).
Proof.
  induction ops as [|o tl IH]; intros l Hwf Hex Hv Hr; [exact Hex|].
  rewrite run_cons. inversion Hv; subst. inversion Hr; subst.
  apply IH; auto. now apply step_wf. now apply step_excl.
Qed.

Lemma excl_nil : excl_bytes [].
Proof. intros o1 o2 b k1 k2 _ H. discriminate. Qed.

Theorem history_wf ops : valid_ops ops -> wf (state_after ops) = true.
Proof. intros. apply run_wf; auto. Qed.

Theorem history_excl_bytes ops : valid_ops ops -> no_raw ops -> excl_bytes (state_after ops).
Proof. intros. apply run_excl; auto. apply excl_nil. Qed.

Theorem history_compatible ops : valid_ops ops -> no_raw ops -> compatible (state_after ops) = true.
Proof.
  intros. apply compatible_excl; [now apply history_wf|now apply history_excl_bytes].
Qed.

(* ---- the monitor holds on every model step ------------------------------- *)

Lemma lock_eqb_refl a : lock_eqb a a = true.
Proof. unfold lock_eqb. rewrite ltype_eqb_refl. lia. Qed.

Lemma list_eqb_refl l : list_eqb lock_eqb l l = true.
Proof. induction l as [|x tl IH]; cbn; auto. now rewrite lock_eqb_refl. Qed.

Lemma okind_eqb_refl a : okind_eqb a a = true.
Proof. destruct a as [t|]; cbn; auto. apply ltype_eqb_refl. Qed.

Lemma bytes_ok_set l q : wf l = true -> lstart q < lend q ->
  bytes_ok l (set_list (set l q)) q = true.
Proof.
  intros Hwf Hne. unfold bytes_ok. apply forallb_forall. intros o _.
  apply forallb_forall. intros b _. rewrite set_bytes by auto. apply okind_eqb_refl.
Qed.

Lemma p_set_ok l q : wf l = true -> lstart q < lend q ->
  p_set l (set_list (set l q)) q
    (if set_panic (set l q) then Panicked else Granted (set_delta (set l q))) = ""%string.
Proof.
  intros Hwf Hne. rewrite set_no_panic by auto. unfold p_set.
  rewrite bytes_ok_set by auto. cbn [negb].
  rewrite set_delta_length, Z.eqb_refl. cbn [negb].
  rewrite set_wf by auto. reflexivity.
Qed.

Lemma step_base_p l o : wf l = true -> base_valid o ->
  p_base l (fst (step_base l o)) o (snd (step_base l o)) = ""%string.
Proof.
  intros Hwf Hv. destruct o as [ow ex s e|ow s e|ow ex s e|ow t s e| | | |];
  cbn in Hv; try contradiction; cbn [step_base p_base].
  - destruct (test l _) as [c|] eqn:Et; cbn [fst snd].
    + apply test_some in Et as [Hin Hc]. rewrite Hc.
      assert (existsb (lock_eqb c) l = true) as ->.
      { apply existsb_exists. exists c. split; auto. apply lock_eqb_refl. }
      unfold unchanged. rewrite list_eqb_refl. reflexivity.
    + pose proof (p_set_ok l (mkLock s e ow (ty_of ex)) Hwf Hv) as Hp.
      rewrite set_no_panic in * by auto.
      assert (Hnc : forall c, In c l -> conflicts c (mkLock s e ow (ty_of ex)) = false).
      { intros c Hc. eapply test_none; eauto. now apply wf_sorted. }
      assert (existsb (fun c => conflicts c (mkLock s e ow (ty_of ex))) l = false) as ->.
      { destruct (existsb _ l) eqn:Ee; auto. apply existsb_exists in Ee as (c & Hin & Hc).
        rewrite Hnc in Hc; auto. }
      rewrite Hp. cbn [String.eqb].
      destruct (compatible l) eqn:Ec; cbn [negb orb]; auto.
      assert (compatible (set_list (set l (mkLock s e ow (ty_of ex)))) = true) as ->; auto.
      apply compatible_excl; [apply set_wf; auto|].
      apply set_excl; auto. now apply compatible_excl.
  - cbn [fst snd]. apply p_set_ok; auto.
  - destruct (test l _) as [c|] eqn:Et; cbn [fst snd];
    unfold unchanged; rewrite list_eqb_refl; cbn [negb].
    + apply test_some in Et as [Hin Hc]. rewrite Hc.
      assert (existsb (lock_eqb c) l = true) as ->; auto.
      apply existsb_exists. exists c. split; auto. apply lock_eqb_refl.
    + destruct (existsb _ l) eqn:Ee; auto. apply existsb_exists in Ee as (c & Hin & Hc).
      rewrite (test_none l _ (wf_sorted l Hwf) Et c Hin) in Hc. discriminate.
  - cbn [fst snd]. apply p_set_ok; auto.
Qed.

Lemma to_denied_eqb c : out_eqb (to_denied c) (to_denied c) = true.
Proof. unfold to_denied, out_eqb. rewrite !N.eqb_refl, Bool.eqb_reflx. reflexivity. Qed.

(* The two requests that can be denied, through OpenedFile. *)
Lemma p_nfs_lock_test l off len s e ow ex (mk : N -> N -> op) :
  wf l = true -> offset_length_to_start_end off len = Some (s, e) -> s < e ->
  (mk = OLock ow ex \/ mk = OTest ow ex) ->
  p_nfs l (fst (step_base l (mk s e))) off len mk (nfs_out (snd (step_base l (mk s e)))) = ""%string.
Proof.
  intros Hwf E Hlt Hmk. unfold p_nfs. rewrite E.
  assert ((e <=? s) = false) as -> by lia.
  pose proof (step_base_p l (mk s e) Hwf) as Hb.
  destruct Hmk as [-> | ->]; specialize (Hb Hlt); cbn [step_base] in *;
  destruct (test l _) as [c|] eqn:Et; cbn [fst snd nfs_out] in *.
  - unfold to_denied at 1. unfold unchanged. rewrite list_eqb_refl. cbn [negb].
    apply test_some in Et as [Hin Hc].
    assert (existsb (fun c0 => conflicts c0 (mkLock s e ow (ty_of ex)) &&
              out_eqb (to_denied c0) (to_denied c)) l = true) as Hex.
    { apply existsb_exists. exists c. rewrite Hc, to_denied_eqb. auto. }
    rewrite Hex. reflexivity.
  - rewrite set_no_panic in * by auto. cbn [nfs_out]. exact Hb.
  - unfold to_denied at 1. unfold unchanged. rewrite list_eqb_refl. cbn [negb].
    apply test_some in Et as [Hin Hc].
    assert (existsb (fun c0 => conflicts c0 (mkLock s e ow (ty_of ex)) &&
              out_eqb (to_denied c0) (to_denied c)) l = true) as Hex.
    { apply existsb_exists. exists c. rewrite Hc, to_denied_eqb. auto. }
    rewrite Hex. reflexivity.
  - exact Hb.
Qed.

Lemma step_p l o : wf l = true -> valid_op o ->
  p_step l (fst (step l o)) o (snd (step l o)) = ""%string.
Proof.
  intros Hwf Hv.
  destruct o as [ow ex s e|ow s e|ow ex s e|ow t s e|ow ex off len|ow off len|ow ex off len|ow];
  cbn in Hv.
  - apply (step_base_p l (OLock ow ex s e)); auto.
  - apply (step_base_p l (OUnlock ow s e)); auto.
  - apply (step_base_p l (OTest ow ex s e)); auto.
  - apply (step_base_p l (ORawSet ow t s e)); auto.
  - destruct Hv as (H1 & H2 & H3). cbn [step p_step].
    destruct (olse_valid off len H1 H2 H3) as [E|(s & e & E & Hlt & _)].
    + rewrite E. cbn [fst snd]. unfold p_nfs. rewrite E. cbn. unfold unchanged.
      now rewrite list_eqb_refl.
    + rewrite E, fst_let, snd_let. apply p_nfs_lock_test with (ow := ow) (ex := ex); auto.
  - destruct Hv as (H1 & H2 & H3). cbn [step p_step].
    destruct (olse_valid off len H1 H2 H3) as [E|(s & e & E & Hlt & _)].
    + rewrite E. cbn [fst snd]. unfold p_nfs. rewrite E. cbn. unfold unchanged.
      now rewrite list_eqb_refl.
    + rewrite E. unfold p_nfs. rewrite E. assert ((e <=? s) = false) as -> by lia.
      pose proof (step_base_p l (OUnlock ow s e) Hwf Hlt) as Hb. cbn [step_base fst snd] in *.
      rewrite set_no_panic in * by auto. exact Hb.
  - destruct Hv as (H1 & H2 & H3). cbn [step p_step].
    destruct (olse_valid off len H1 H2 H3) as [E|(s & e & E & Hlt & _)].
    + rewrite E. cbn [fst snd]. unfold p_nfs. rewrite E. cbn. unfold unchanged.
      now rewrite list_eqb_refl.
    + rewrite E, fst_let, snd_let. apply p_nfs_lock_test with (ow := ow) (ex := ex); auto.
  - cbn [step p_step]. apply (step_base_p l (OUnlock ow 0 max_u64)); auto. cbn. unfold max_u64. lia.
Qed.

Lemma trace_ok_from ops : forall l, wf l = true -> valid_ops ops -> trace_ok l ops = true.
Proof.
  induction ops as [|o tl IH]; intros l Hwf Hv; [reflexivity|].
  inversion Hv; subst. cbn [trace_ok].
  pose proof (step_p l o Hwf H1) as Hp. pose proof (step_wf l o Hwf H1) as Hw.
  destruct (step l o) as [l' x]. cbn [fst snd] in *. rewrite Hp. cbn. apply IH; auto.
Qed.

Theorem trace_ok_all ops : valid_ops ops -> trace_ok [] ops = true.
Proof. intros. apply trace_ok_from; auto. Qed.



(* ---- Test, per byte ------------------------------------------------------ *)

(* No conflict is reported exactly when no byte of the requested range is
   held by another owner in a way incompatible with the request. *)
Lemma test_none_bytes l q : wf l = true -> lstart q < lend q ->
  (test l q = None <->
   forall o b k, o <> lowner q -> covers q (lowner q) b = true -> kind_at l o b = Some k ->
     k <> Exclusive /\ ltyp q <> Exclusive).
Proof.
  intros Hwf Hne. rewrite test_none_iff, forallb_forall by auto. split.
  - intros H o b k Ho Hc Hk. apply kind_at_some in Hk as (c & Hin & Hcc & <-).
    specialize (H c Hin). unfold conflicts, overlaps in H.
    split; intros Hx; rewrite Hx in H; cbn in H; nrm; lia.
  - intros H c Hin. destruct (conflicts c q) eqn:Hc; auto. exfalso.
    pose proof (wf_entry l c Hwf Hin) as Ec.
    set (b := N.max (lstart c) (lstart q)).
    assert (C1 : covers c (lowner c) b = true) by (unfold conflicts, overlaps in Hc; nrm; lia).
    assert (C2 : covers q (lowner q) b = true) by (unfold conflicts, overlaps in Hc; nrm; lia).
    assert (Ho : lowner c <> lowner q) by (unfold conflicts in Hc; lia).
    destruct (H _ b _ Ho C2 (kind_at_unique l c _ b Hwf Hin C1)) as [K1 K2].
    unfold conflicts in Hc.
    destruct (ltyp c), (ltyp q); cbn in Hc; try congruence; lia.
Qed.

(* An owner's own locks never block it. *)
Lemma test_other_owner l q c : test l q = Some c -> lowner c <> lowner q.
Proof. intros H. apply test_some in H as [_ H]. unfold conflicts in H. lia. Qed.

Lemma test_own_only l q : (forall c, In c l -> lowner c = lowner q) -> test l q = None.
Proof.
  intros H. destruct (test l q) as [c|] eqn:Et; auto.
  pose proof (test_other_owner _ _ _ Et). apply test_some in Et as [Hin _].
  specialize (H c Hin). contradiction.
Qed.

(* LOCKT reports a conflict exactly when LOCK would be denied (and the
   same conflicting lock). *)
Lemma lockt_iff_lock l ow ex s e c :
  snd (step l (OTest ow ex s e)) = Denied c <-> snd (step l (OLock ow ex s e)) = Denied c.
Proof.
  cbn [step step_base]. destruct (test l _) as [d|]; cbn [snd]; [tauto|].
  destruct (set_panic _); split; discriminate.
Qed.

Lemma lockt_ok_iff_lock l ow ex s e : wf l = true -> s < e ->
  (snd (step l (OTest ow ex s e)) = TestOk <-> exists d, snd (step l (OLock ow ex s e)) = Granted d).
Proof.
  intros Hwf Hne. cbn [step step_base]. destruct (test l _) as [d|]; cbn [snd].
  - split; [discriminate|intros [? ?]; discriminate].
  - rewrite set_no_panic by auto. split; eauto.
Qed.

(* Unlock releases precisely the owner's bytes in the range. *)
Lemma unlock_bytes l ow s e o b : wf l = true -> s < e ->
  kind_at (fst (step l (OUnlock ow s e))) o b =
  if (o =? ow) && (s <=? b) && (b <? e) then None else kind_at l o b.
Proof.
  intros Hwf Hne. cbn [step step_base fst]. rewrite set_bytes by auto.
  unfold expected_kind, covers. cbn [lowner lstart lend ltyp kreq].
  rewrite (N.eqb_sym ow o). reflexivity.
Qed.

(* A granted lock gives the owner exactly the requested bytes, nothing else moves. *)
Lemma lock_bytes l ow ex s e d o b : wf l = true -> s < e ->
  snd (step l (OLock ow ex s e)) = Granted d ->
  kind_at (fst (step l (OLock ow ex s e))) o b =
  if (o =? ow) && (s <=? b) && (b <? e) then Some (ty_of ex) else kind_at l o b.
Proof.
  intros Hwf Hne. cbn [step step_base]. destruct (test l _); cbn [fst snd]; [discriminate|]. intros _.
  rewrite set_bytes by auto.
  unfold expected_kind, covers. cbn [lowner lstart lend ltyp].
  rewrite (N.eqb_sym ow o). destruct ex; reflexivity.
Qed.

(* ---- non-vacuity ---------------------------------------------------------- *)

Definition demo_ops : list op :=
  [ OLock 1 false 0 10;          (* [0,10) shared by 1 *)
    OLock 1 true 3 6;            (* punches a hole: split, delta +2 *)
    OLock 2 false 0 3;           (* shared with owner 1's shared part *)
    OLock 2 true 2 4;            (* denied by owner 1's [0,3) *)
    OTest 2 false 4 5;           (* denied by owner 1's exclusive [3,6) *)
    OUnlock 1 4 5;               (* splits the exclusive part *)
    OLock 1 false 3 6;           (* merges everything back: delta -3 *)
    OLock 3 true 12 18446744073709551615;   (* up to the maximum offset *)
    OUnlock 2 1 2;               (* splits owner 2's lock *)
    ONfsLock 4 true 20 5;        (* through OpenedFile: denied by owner 3 *)
    ONfsTest 4 false 5 0;        (* length 0: NFS4ERR_INVAL *)
    ONfsLock 4 false 18446744073709551614 18446744073709551615;  (* to EOF: denied *)
    OUnlockAll 3;
    ONfsLock 4 false 18446744073709551614 18446744073709551615 ].

(* ---- the one accepted (offset, length) pair that denotes no byte ------- *)

(* offset = length = 2^64-1 passes offsetLengthToStartEnd and reaches Set()
   as the empty range [2^64-1, 2^64-1): the monitor (and [wf]) fail on the
   model, which is faithful to the code here. *)
Definition empty_range_ops : list op :=
  [ ONfsLock 1 true max_u64 max_u64; ONfsLock 2 true max_u64 max_u64 ].

Lemma trace_ok_refuted_without_valid :
  exists ops, trace_ok [] ops = false /\
    snd (run [] ops) = [Granted 1; Granted 1] /\ wf (state_after ops) = false.
Proof. exists empty_range_ops. vm_compute. auto. Qed.
