(* Proofs about the lock-set model. *)
From Coq Require Import Lia ZifyBool ZifyN.
From VF Require Import LockSet.Model LockSet.Spec.
Open Scope N_scope.

(* ---- Test ---------------------------------------------------------------- *)

Definition sorted (l : list lock) : Prop :=
  forall i j a b, (i < j)%nat -> nth_error l i = Some a -> nth_error l j = Some b -> lstart a <= lstart b.

Lemma sorted_tl s l : sorted (s :: l) -> sorted l.
Proof. intros H i j a b Hij Ha Hb. apply (H (S i) (S j) a b); auto. lia. Qed.

Lemma sorted_hd s l c : sorted (s :: l) -> In c l -> lstart s <= lstart c.
Proof.
  intros H Hin. apply In_nth_error in Hin as [n Hn].
  apply (H 0%nat (S n) s c); auto. lia.
Qed.

Lemma test_some l q c : test l q = Some c -> In c l /\ conflicts c q = true.
Proof.
  induction l as [|s tl IH]; cbn [test]; [discriminate|].
  destruct (lend q <=? lstart s) eqn:E1; [discriminate|].
  destruct (negb (lowner s =? lowner q) && (lstart q <? lend s)
            && (ltype_eqb (ltyp s) Exclusive || ltype_eqb (ltyp q) Exclusive)) eqn:E2.
  - intros [= <-]. split; [now left|]. unfold conflicts, overlaps.
    lia.
  - intros H. apply IH in H as [H1 H2]. split; [now right|exact H2].
Qed.

Lemma test_none l q : sorted l -> test l q = None ->
  forall c, In c l -> conflicts c q = false.
Proof.
  induction l as [|s tl IH]; cbn [test]; intros Hs Ht c Hin; [destruct Hin|].
  destruct (lend q <=? lstart s) eqn:E1.
  - (* early exit: everything from here on starts at or after q's end *)
    assert (lstart s <= lstart c) as Hle.
    { destruct Hin as [<-|Hin]; [lia|]. eapply sorted_hd; eauto. }
    unfold conflicts, overlaps. apply N.leb_le in E1.
    assert (lstart c <? lend q = false) as -> by (apply N.ltb_ge; lia).
    now rewrite andb_false_r.
  - destruct (negb (lowner s =? lowner q) && (lstart q <? lend s)
              && (ltype_eqb (ltyp s) Exclusive || ltype_eqb (ltyp q) Exclusive)) eqn:E2; [discriminate|].
    destruct Hin as [<-|Hin].
    + unfold conflicts, overlaps. apply N.leb_gt in E1.
      assert (lstart s <? lend q = true) as -> by (apply N.ltb_lt; lia).
      rewrite andb_true_l. exact E2.
    + eapply IH; eauto using sorted_tl.
Qed.
