(* Model of pkg/filesystem/virtual/byte_range_lock_set.go (ByteRangeLockSet)
   and of offsetLengthToStartEnd in nfsv4/opened_files_pool.go.

   The Go code keeps a doubly linked list with a sentinel; the model keeps
   the same entries, in the same order, as a [list lock].  [set] is a
   transcription of the two loops of Set(): phase 1 walks to the insertion
   point (growing the new entry / truncating / splitting same-owner
   entries), phase 2 merges successors.  The two panics of the Go code are
   modelled by the [panicked] flag. *)
From Coq Require Export List NArith ZArith Bool.
Export ListNotations.
Open Scope N_scope.

Inductive ltype := Unlocked | Exclusive | Shared.

Definition ltype_eqb (a b : ltype) : bool :=
  match a, b with
  | Unlocked, Unlocked | Exclusive, Exclusive | Shared, Shared => true
  | _, _ => false
  end.

Record lock := mkLock { lstart : N; lend : N; lowner : N; ltyp : ltype }.

Definition with_start (l : lock) (s : N) := mkLock s (lend l) (lowner l) (ltyp l).
Definition with_end (l : lock) (e : N) := mkLock (lstart l) e (lowner l) (ltyp l).

(* Result of phase 1: entries before the insertion point (in order), the
   entries from the insertion point on, the (possibly grown) new entry,
   the trailing entry (if an existing entry was split) and the panic flag. *)
Record p1res := mkP1 {
  p1_before : list lock; p1_rest : list lock; p1_new : lock;
  p1_trailing : option lock; p1_panic : bool }.

Fixpoint phase1 (l : list lock) (nw : lock) (tr : option lock) (pn : bool)
    (acc : list lock) : p1res :=
  match l with
  | [] => mkP1 (rev acc) [] nw tr pn
  | s :: tl =>
    if lstart nw <=? lstart s then mkP1 (rev acc) l nw tr pn
    else if lowner s =? lowner nw then
      if ltype_eqb (ltyp nw) (ltyp s) then
        if lstart nw <=? lend s
        then mkP1 (rev acc) l (with_start nw (lstart s)) tr pn
        else phase1 tl nw tr pn (s :: acc)
      else
        if lstart nw <? lend s then
          if lend nw <? lend s then
            (* punch a hole: split *)
            let pn' := match tr with Some _ => true | None => pn end in
            let tr' := Some (mkLock (lend nw) (lend s) (lowner s) (ltyp s)) in
            phase1 tl nw tr' pn' (with_end s (lstart nw) :: acc)
          else phase1 tl nw tr pn (with_end s (lstart nw) :: acc)
        else phase1 tl nw tr pn (s :: acc)
    else phase1 tl nw tr pn (s :: acc)
  end.

(* Result of phase 2: entries walked and kept (in order), the entries not
   walked, the final new entry, trailing entry, number removed, panic. *)
Record p2res := mkP2 {
  p2_kept : list lock; p2_rest : list lock; p2_new : lock;
  p2_trailing : option lock; p2_removed : nat; p2_panic : bool }.

Fixpoint phase2 (l : list lock) (nw : lock) (tr : option lock) (pn : bool)
    (acc : list lock) (removed : nat) : p2res :=
  match l with
  | [] => mkP2 (rev acc) [] nw tr removed pn
  | s :: tl =>
    if lend nw <? lstart s then mkP2 (rev acc) l nw tr removed pn
    else if lowner s =? lowner nw then
      if lend s <=? lend nw then phase2 tl nw tr pn acc (S removed)
      else if ltype_eqb (ltyp nw) (ltyp s)
        then phase2 tl (with_end nw (lend s)) tr pn acc (S removed)
        else
          let pn' := match tr with Some _ => true | None => pn end in
          phase2 tl nw (Some (with_start s (lend nw))) pn' acc (S removed)
    else phase2 tl nw tr pn (s :: acc) removed
  end.

Record setres := mkSet { set_list : list lock; set_delta : Z; set_panic : bool }.

Definition set (l : list lock) (nw : lock) : setres :=
  let r1 := phase1 l nw None false [] in
  let r2 := phase2 (p1_rest r1) (p1_new r1) (p1_trailing r1) (p1_panic r1) [] 0 in
  let ins := match ltyp nw with Unlocked => [] | _ => [p2_new r2] end in
  let trl := match p2_trailing r2 with Some t => [t] | None => [] end in
  mkSet (p1_before r1 ++ ins ++ p2_kept r2 ++ trl ++ p2_rest r2)
        (Z.of_nat (length ins) - Z.of_nat (p2_removed r2) + Z.of_nat (length trl))
        (p2_panic r2).

Fixpoint test (l : list lock) (q : lock) : option lock :=
  match l with
  | [] => None
  | s :: tl =>
    if lend q <=? lstart s then None
    else if negb (lowner s =? lowner q) && (lstart q <? lend s)
            && (ltype_eqb (ltyp s) Exclusive || ltype_eqb (ltyp q) Exclusive)
         then Some s else test tl q
  end.

(* offsetLengthToStartEnd: None = NFS4ERR_INVAL. *)
Definition max_u64 : N := 18446744073709551615.
Definition offset_length_to_start_end (off len : N) : option (N * N) :=
  if len =? 0 then None
  else if len =? max_u64 then Some (off, max_u64)
  else if max_u64 - off <? len then None
  else Some (off, off + len).

(* The lock table as its users (OpenedFile.Lock/Unlock/TestLock) drive it:
   a lock request is Test followed by Set only when no conflict exists; an
   unlock is Set with type Unlocked. *)
Inductive op :=
| OLock (owner : N) (excl : bool) (s e : N)
| OUnlock (owner : N) (s e : N)
| OTest (owner : N) (excl : bool) (s e : N)
| ORawSet (owner : N) (t : ltype) (s e : N)    (* Set without preceding Test *)
(* The same table driven through OpenedFile / OpenedFilesPool
   (opened_files_pool.go): requests carry NFSv4 (offset, length). *)
| ONfsLock (owner : N) (excl : bool) (off len : N)     (* OpenedFile.Lock *)
| ONfsUnlock (owner : N) (off len : N)                 (* OpenedFile.Unlock *)
| ONfsTest (owner : N) (excl : bool) (off len : N)     (* OpenedFilesPool.TestLock *)
| OUnlockAll (owner : N).                              (* OpenedFile.UnlockAll *)

Inductive out :=
| Granted (delta : Z)
| Denied (c : lock)
| TestOk
| Panicked
| Inval                                           (* NFS4ERR_INVAL *)
| DeniedNfs (off len : N) (excl : bool) (owner : N).   (* Lock4denied *)

(* byteRangeLockToLock4Denied *)
Definition to_denied (c : lock) : out :=
  DeniedNfs (lstart c) (if lend c =? max_u64 then max_u64 else lend c - lstart c)
            (ltype_eqb (ltyp c) Exclusive) (lowner c).

Definition nfs_out (x : out) : out :=
  match x with Denied c => to_denied c | x => x end.

Definition ty_of (excl : bool) := if excl then Exclusive else Shared.

Definition step_base (l : list lock) (o : op) : list lock * out :=
  match o with
  | OLock ow ex s e =>
    let q := mkLock s e ow (ty_of ex) in
    match test l q with
    | Some c => (l, Denied c)
    | None => let r := set l q in
              (set_list r, if set_panic r then Panicked else Granted (set_delta r))
    end
  | OUnlock ow s e =>
    let r := set l (mkLock s e ow Unlocked) in
    (set_list r, if set_panic r then Panicked else Granted (set_delta r))
  | OTest ow ex s e =>
    match test l (mkLock s e ow (ty_of ex)) with
    | Some c => (l, Denied c)
    | None => (l, TestOk)
    end
  | ORawSet ow t s e =>
    let r := set l (mkLock s e ow t) in
    (set_list r, if set_panic r then Panicked else Granted (set_delta r))
  | _ => (l, Inval)
  end.

Definition step (l : list lock) (o : op) : list lock * out :=
  match o with
  | ONfsLock ow ex off len =>
    match offset_length_to_start_end off len with
    | None => (l, Inval)
    | Some (s, e) => let '(l', x) := step_base l (OLock ow ex s e) in (l', nfs_out x)
    end
  | ONfsUnlock ow off len =>
    match offset_length_to_start_end off len with
    | None => (l, Inval)
    | Some (s, e) => step_base l (OUnlock ow s e)
    end
  | ONfsTest ow ex off len =>
    match offset_length_to_start_end off len with
    | None => (l, Inval)
    | Some (s, e) => let '(l', x) := step_base l (OTest ow ex s e) in (l', nfs_out x)
    end
  | OUnlockAll ow => step_base l (OUnlock ow 0 max_u64)
  | _ => step_base l o
  end.

Fixpoint run (l : list lock) (ops : list op) : list lock * list out :=
  match ops with
  | [] => (l, [])
  | o :: tl => let '(l1, x) := step l o in
               let '(l2, xs) := run l1 tl in (l2, x :: xs)
  end.

Definition state_after (ops : list op) : list lock := fst (run [] ops).
