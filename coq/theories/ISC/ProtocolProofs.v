(* Direct statements about the learner state machine (in addition to the
   monitor theorem of Proofs.v): handle balance, dirty flag, retries,
   history bound, action timeout. *)
From Coq Require Import List ZArith NArith QArith Bool String Lia.
From VF Require Import ISC.Outcomes ISC.PageRank ISC.PageRankProofs ISC.StrategiesProofs
  ISC.Model ISC.Spec ISC.MapProofs ISC.Proofs.
Import ListNotations.
Local Open Scope Z_scope.

(* ---- linear handle ------------------------------------------------------------------ *)
(* 1 while the session holds the stats handle *)
Definition holds (c : cfg) (s : sess) : nat :=
  if uses_handle c then match ph s with PIdle => 0 | _ => 1 end else 0.

Lemma finish_balance c s0 s dirty o : ph s0 <> PIdle ->
  (r_gets (finish c s dirty o) + holds c s0 = List.length (r_rels (finish c s dirty o)) + holds c (r_sess (finish c s dirty o)))%nat.
Proof.
  intros H. unfold finish, holds, rel. cbn [r_gets r_rels r_sess ph].
  destruct (uses_handle c); [|reflexivity]. destruct (ph s0); [congruence| |]; reflexivity.
Qed.

Lemma step_balance c s o :
  (r_gets (step c s o) + holds c s = List.length (r_rels (step c s o)) + holds c (r_sess (step c s o)))%nat.
Proof.
  unfold step. destruct (ph s) as [|l|] eqn:Eph.
  - destruct o as [t scs now r script|t|d scs bgt|tout now|]; try reflexivity.
    + destruct (extract_timeout c t); [|reflexivity].
      destruct (c_fallback c) eqn:Ef.
      * unfold holds, uses_handle. rewrite Ef. reflexivity.
      * destruct (select_core _ _ _ _ _ _ _) as [[[[i e] t'] l] s'].
        unfold holds, uses_handle. rewrite Ef, Eph. reflexivity.
    + destruct (extract_timeout c t); [|reflexivity].
      unfold holds, rel. rewrite Eph. cbn [r_gets r_rels r_sess ph]. destruct (uses_handle c); reflexivity.
  - assert (Hne : ph s <> PIdle) by congruence.
    destruct o as [t scs now r script|t|d scs bgt|tout now|]; try reflexivity.
    + unfold succeeded. destruct l; try (apply finish_balance; exact Hne).
      destruct (if (last scs 0%N =? largest)%N then index_of smaller 0 scs else None);
        [|apply finish_balance; exact Hne].
      destruct (calc_bg _ _ _ _ _ _); unfold holds; rewrite Eph; cbn [r_gets r_rels r_sess ph];
        destruct (uses_handle c); reflexivity.
    + unfold failed. destruct l; try (apply finish_balance; exact Hne);
        unfold holds; rewrite Eph; cbn [r_gets r_rels r_sess ph]; destruct (uses_handle c); reflexivity.
    + unfold abandoned. destruct l; apply finish_balance; exact Hne.
  - destruct o; reflexivity.
Qed.

Definition sum_gets (tr : list (op * obs)) : nat := fold_right (fun x a => (o_gets (snd x) + a)%nat) 0%nat tr.
Definition sum_rels (tr : list (op * obs)) : nat :=
  fold_right (fun x a => (List.length (o_rels (snd x)) + a)%nat) 0%nat tr.

(* Over any call sequence: #Get = #Release + (1 if a learner is outstanding). *)
Lemma handle_balance c : forall ops s,
  (sum_gets (run c s ops) + holds c s = sum_rels (run c s ops) + holds c (final c s ops))%nat.
Proof.
  induction ops as [|o ops IH]; intros s; [cbn; lia|].
  cbn [run final sum_gets sum_rels fold_right snd o_gets o_rels].
  fold (sum_gets (run c (r_sess (step c s o)) ops)). fold (sum_rels (run c (r_sess (step c s o)) ops)).
  pose proof (IH (r_sess (step c s o))). pose proof (step_balance c s o). lia.
Qed.

Lemma step_at_most_one c s o : (r_gets (step c s o) <= 1)%nat /\ (List.length (r_rels (step c s o)) <= 1)%nat.
Proof.
  assert (Hf : forall st d ou, (r_gets (finish c st d ou) <= 1)%nat /\ (List.length (r_rels (finish c st d ou)) <= 1)%nat).
  { intros. unfold finish, rel. cbn [r_gets r_rels]. destruct (uses_handle c); cbn; lia. }
  unfold step. destruct (ph s) as [|l|]; destruct o as [t scs now r script|t|d scs bgt|tout now|];
    try (cbn [r_gets r_rels]; cbn; lia).
  - destruct (extract_timeout c t); [|cbn; lia]. destruct (c_fallback c); [cbn; lia|].
    destruct (select_core _ _ _ _ _ _ _) as [[[[i e] t'] l] s']. cbn. lia.
  - destruct (extract_timeout c t); [|cbn; lia]. unfold rel. cbn [r_gets r_rels].
    destruct (uses_handle c); cbn; lia.
  - unfold succeeded. destruct l; try apply Hf.
    destruct (if (last scs 0%N =? largest)%N then index_of smaller 0 scs else None); [|apply Hf].
    destruct (calc_bg _ _ _ _ _ _); cbn; lia.
  - unfold failed. destruct l; try apply Hf; cbn; lia.
  - unfold abandoned. destruct l; apply Hf.
Qed.

(* which (learner, call) pairs record something in the message *)
Definition records (l : learner) (o : op) : bool :=
  match o, l with
  | OpSucceeded _ _ _, (LFbSmaller _ | LFbLargest) => false
  | OpSucceeded _ _ _, _ => true
  | OpFailed _ _, (LLargestFg _ _ _ | LLargestBg _ _ _ | LLargest _ | LSmallerBg _ _) => true
  | _, _ => false
  end.

(* dirty <=> something was recorded since the handle was obtained *)
Lemma release_dirty_iff_recorded c s ms l o d :
  Inv c s ms -> ph s = PLearner l -> r_rels (step c s o) = [d] ->
  d = (recorded s || records l o).
Proof.
  intros (_ & Hinv) Eph. rewrite Eph in Hinv. destruct Hinv as (Hrel & _).
  unfold step. rewrite Eph.
  assert (Hfin : forall st dirty ou, r_rels (finish c st dirty ou) = [d] -> d = dirty).
  { intros st dirty ou. unfold finish, rel. cbn [r_rels]. destruct (uses_handle c); [|discriminate]. congruence. }
  destruct o as [t scs now r script|t|dd scs bgt|tout now|]; try discriminate.
  - unfold succeeded. destruct l; cbn [learner_rel records] in *;
      try (intros H; apply Hfin in H; subst d; now rewrite orb_true_r).
    + destruct (if (last scs 0%N =? largest)%N then index_of smaller 0 scs else None).
      * destruct (calc_bg _ _ _ _ _ _); discriminate.
      * intros H; apply Hfin in H; subst d; now rewrite orb_true_r.
    + destruct Hrel as (_ & _ & ->). intros H; apply Hfin in H. now subst d.
    + destruct Hrel as (_ & ->). intros H; apply Hfin in H. now subst d.
  - unfold failed. destruct l; cbn [learner_rel records] in *; try discriminate;
      try (intros H; apply Hfin in H; subst d; now rewrite orb_true_r).
    destruct Hrel as (_ & ->). intros H; apply Hfin in H. now subst d.
  - unfold abandoned. destruct l; cbn [learner_rel records] in *; intros H; apply Hfin in H; subst d;
      rewrite orb_false_r; symmetry; tauto.
Qed.

(* ---- retry once, on the largest ---------------------------------------------------------- *)
(* a learner returned by Failed never asks for another retry *)
Lemma retry_learner_is_final c s l tout now l' :
  ph (r_sess (failed c s l tout now)) = PLearner l' ->
  forall s' tout' now',
    ph (r_sess (failed c s' l' tout' now')) = PIdle /\ r_out (failed c s' l' tout' now') = OutRetry 0 0 false.
Proof.
  unfold failed. destruct l; cbn [r_sess ph finish]; intros H; try discriminate;
    injection H as <-; intros; cbn [r_sess ph finish r_out]; auto.
Qed.

(* The learner that Succeeded hands out for a background run (of any
   learner, in any state, for any message, size-class list and
   configuration) answers Failed without a successor and Succeeded without a
   further background learner. *)
Lemma background_learner_is_final c s l d scs bgt l' :
  ph (r_sess (succeeded c s l d scs bgt)) = PLearner l' ->
  forall s' tout now d' scs' bgt',
    (ph (r_sess (failed c s' l' tout now)) = PIdle /\ r_out (failed c s' l' tout now) = OutRetry 0 0 false) /\
    (ph (r_sess (succeeded c s' l' d' scs' bgt')) = PIdle /\
     r_out (succeeded c s' l' d' scs' bgt') = OutChoice 0 0 0 false).
Proof.
  unfold succeeded at 1. destruct l; cbn [r_sess ph finish]; intros H; try discriminate.
  destruct (if (last scs 0%N =? largest)%N then index_of smaller 0 scs else None); [|discriminate].
  destruct (calc_bg _ _ _ _ _ _); [|discriminate]. cbn [r_sess ph] in H. injection H as <-.
  intros. cbn. auto.
Qed.

(* a failure on a smaller size class (foreground) is retried, with the
   action's original timeout and the expected duration of the largest class *)
Lemma smaller_failure_is_retried c s sm smT lg lgT tout now :
  exists ex, r_sess (failed c s (LSmallerFg sm smT lg lgT) tout now)
             = mkSess (PLearner (LLargestFg sm ex lg)) (st s) (orig s) (recorded s) /\
             r_out (failed c s (LSmallerFg sm smT lg lgT) tout now)
             = OutRetry (expected (st_sc (st s)) lg lgT) lgT true /\
             r_rels (failed c s (LSmallerFg sm smT lg lgT) tout now) = [].
Proof. eexists. cbn. repeat split. Qed.

(* a failure on the largest size class is final *)
Lemma largest_failure_is_final c s l tout now :
  match l with LLargest _ | LLargestBg _ _ _ | LLargestFg _ _ _ | LFbLargest => True | _ => False end ->
  ph (r_sess (failed c s l tout now)) = PIdle /\ r_out (failed c s l tout now) = OutRetry 0 0 false.
Proof. destruct l; intros []; cbn; auto. Qed.

(* ---- history bounded ------------------------------------------------------------------------- *)
Lemma step_history_bounded c s o :
  hist_okP (c_hist c) (st_sc (st s)) (st_sc (st (r_sess (step c s o)))).
Proof.
  unfold step. destruct (ph s) as [|l|]; destruct o as [t scs now r script|t|d scs bgt|tout now|];
    try apply hist_okP_refl.
  - destruct (extract_timeout c t); [|apply hist_okP_refl]. destruct (c_fallback c); [apply hist_okP_refl|].
    destruct (select_core _ _ _ _ _ _ _) as [[[[i e] t'] l] s'] eqn:E. cbn [r_sess st].
    unfold select_core in E. destruct (lsf_expired _ _ _).
    + assert (pe_from (st_sc (st s)) (snd (calc_strategies c script (st_sc (st s)) scs z))) as Hp.
      { unfold calc_strategies. destruct (c_calc c); cbn [snd]; auto using pe_from_refl, get_strategies_pe_from. }
      destruct (calc_strategies _ _ _ _ _) as [ss m']. cbn [snd] in Hp.
      destruct (pick 0 r ss) as [[j sg]|]; [destruct (s_bg sg)|]; injection E as _ _ _ _ <-;
        apply hist_okP_of_pe_from, Hp.
    + injection E as _ _ _ _ <-. apply hist_okP_refl.
  - destruct (extract_timeout c t); apply hist_okP_refl.
  - unfold succeeded. destruct l; cbn [finish r_sess st with_sc st_sc];
      try apply hist_okP_add; try apply hist_okP_add; try apply hist_okP_refl.
    destruct (if (last scs 0%N =? largest)%N then index_of smaller 0 scs else None).
    + destruct (calc_bg _ _ _ _ _ _); cbn [r_sess st with_sc st_sc]; apply hist_okP_add, hist_okP_refl.
    + cbn [finish r_sess st with_sc st_sc]. apply hist_okP_add, hist_okP_refl.
  - unfold failed. destruct l; cbn [finish r_sess st with_sc st_sc];
      try apply hist_okP_add; apply hist_okP_refl.
  - unfold abandoned. destruct l; apply hist_okP_refl.
Qed.

(* the list an execution was just added to has at most historySize entries *)
Lemma add_exec_bounded h sc o m : (List.length (pe (m_get_d sc (add_exec h sc o m))) <= h)%nat.
Proof.
  unfold add_exec, m_get_d at 1. rewrite m_get_set_same. cbn [pe]. apply lastn_length.
Qed.

(* ---- action timeout extractor ------------------------------------------------------------------ *)
Lemma extract_timeout_range c t og : extract_timeout c t = Some og ->
  (t = TAbsent /\ og = c_deft c) \/ (t = TVal og /\ 0 <= og <= c_maxt c).
Proof.
  destruct t; cbn; intros H.
  - left. split; congruence.
  - discriminate.
  - destruct ((t <? 0) || (c_maxt c <? t)) eqn:E; [discriminate|]. injection H as <-.
    apply orb_false_elim in E. right. split; [reflexivity|lia].
Qed.
