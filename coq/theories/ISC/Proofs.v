(* The learner protocol: every trace of the model is accepted by the monitor
   of Spec.v (linear handle, retry once on the largest, choices in range,
   history bounded), for all call sequences. *)
From Coq Require Import List ZArith NArith QArith Bool String Lia.
From VF Require Import ISC.Outcomes ISC.PageRank ISC.PageRankProofs ISC.StrategiesProofs
  ISC.Model ISC.Spec ISC.MapProofs.
Import ListNotations.
Local Open Scope string_scope.
Local Open Scope list_scope.
Local Open Scope Z_scope.

(* ---- hypotheses ------------------------------------------------------------------ *)
(* configuration: non-negative default timeout and minimum timeout, history
   size at least 1 *)
Definition cfg_ok (c : cfg) : Prop :=
  0 <= c_deft c /\ (1 <= c_hist c)%nat /\
  match c_calc c with CPageRank p => 0 <= pr_min p | _ => True end.

(* what a scripted (arbitrary) strategy calculator must respect: at most one
   strategy per size class, timeouts between 0 and the action's.  NOTHING is
   assumed about its probabilities. *)
Definition script_ok (n : nat) (og : Z) (ss : list strategy) : Prop :=
  (List.length ss <= n)%nat /\ Forall (tmo_ok og) ss.

(* protocol: size-class lists are non-empty, reported durations are
   non-negative, a scripted calculator respects its contract *)
Definition op_ok (c : cfg) (s : sess) (o : op) : Prop :=
  match o with
  | OpSelect t scs _ _ script =>
    scs <> [] /\
    (c_calc c = CScript -> forall og, extract_timeout c t = Some og -> script_ok (List.length scs) og script)
  | OpSucceeded d scs bgt => scs <> [] /\ 0 <= d /\ (c_calc c = CScript -> 0 <= bgt <= orig s)
  | _ => True
  end.
Fixpoint ops_ok (c : cfg) (s : sess) (ops : list op) : Prop :=
  match ops with
  | [] => True
  | o :: r => op_ok c s o /\ ops_ok c (r_sess (step c s o)) r
  end.

(* ---- invariant --------------------------------------------------------------------- *)
Definition first_largest (p : mph) : Prop := exists n, (1 <= n)%nat /\ p = MFirst (n - 1) n.
Definition learner_rel (c : cfg) (s : sess) (l : learner) (p : mph) : Prop :=
  match l with
  | LSmallerFg _ _ _ lgT => is_first p = true /\ lgT = orig s /\ recorded s = false
  | LLargestFg _ ex _ => p = MRetry /\ recorded s = false /\ outcome_nonneg ex
  | LLargestBg _ lgT _ => first_largest p /\ lgT = orig s /\ recorded s = false /\ c_calc c <> CSmallest
  | LSmallerBg _ _ => p = MBg /\ recorded s = true
  | LLargest _ => first_largest p /\ recorded s = false
  | LFbSmaller t => is_first p = true /\ t = orig s /\ recorded s = false
  | LFbLargest => ((exists n, (n <= 1)%nat /\ p = MFirst 0 n) \/ p = MRetry) /\ recorded s = false
  end.
Definition Inv (c : cfg) (s : sess) (ms : mstate) : Prop :=
  smap_nonneg (st_sc (st s)) /\
  match ph s with
  | PIdle => mp ms = MIdle
  | PDead => False
  | PLearner l =>
    learner_rel c s l (mp ms) /\ m_orig ms = orig s /\ 0 <= orig s /\
    (recorded s = false ->
     rec_list (st_sc (m_base ms)) = rec_list (st_sc (st s)) /\ st_lsf (m_base ms) = st_lsf (st s))
  end.

(* ---- small lemmas --------------------------------------------------------------------- *)
Definition all_true (l : list (bool * string)) : Prop := Forall (fun bk => fst bk = true) l.

Lemma first_fail_ok l : all_true l -> first_fail l = "".
Proof. induction 1 as [|[b k] l Hb Hl IH]; [reflexivity|]. cbn in Hb. subst b. exact IH. Qed.

Lemma all_true_app a b : all_true a -> all_true b -> all_true (a ++ b).
Proof. intros. apply Forall_app. split; assumption. Qed.

Lemma all_true_cons b k l : b = true -> all_true l -> all_true ((b, k) :: l).
Proof. intros. constructor; assumption. Qed.

Lemma extract_nonneg c t og : cfg_ok c -> extract_timeout c t = Some og -> 0 <= og.
Proof.
  intros (Hd & _) H. destruct t; cbn in H.
  - injection H as <-. exact Hd.
  - discriminate.
  - destruct ((t <? 0) || (c_maxt c <? t)) eqn:E; [discriminate|]. injection H as <-.
    apply orb_false_elim in E. lia.
Qed.

Lemma pick_spec ss : forall i r j sg, pick i r ss = Some (j, sg) ->
  In sg ss /\ (i <= j < i + List.length ss)%nat.
Proof.
  induction ss as [|s ss IH]; intros i r j sg H; [discriminate|].
  cbn [pick] in H. destruct (qltb r (s_prob s)).
  - injection H as <- <-. split; [now left|cbn; lia].
  - apply IH in H as [H1 H2]. split; [now right|cbn [List.length]; lia].
Qed.

Lemma in_range_true lo x hi : lo <= x <= hi -> in_range lo x hi = true.
Proof. intros. unfold in_range. apply andb_true_intro. split; apply Z.leb_le; lia. Qed.

Lemma choice_checks_ok n og idx e t :
  (idx < n)%nat -> 0 <= t <= og -> 0 <= e <= t -> all_true (choice_checks n og idx e t).
Proof.
  intros H1 H2 H3. unfold choice_checks.
  repeat apply all_true_cons; try constructor.
  - apply Nat.ltb_lt, H1.
  - apply in_range_true, H2.
  - apply in_range_true, H3.
Qed.

Lemma cont_checks_ok : all_true (cont_checks 0 []).
Proof. repeat constructor. Qed.

Lemma term_checks_ok c base post dirty clean :
  (dirty = false -> changed base post = false) -> (clean = true -> dirty = false) ->
  all_true (term_checks c base post (rel c dirty) clean).
Proof.
  intros H1 H2. unfold term_checks, rel. destruct (uses_handle c); [|repeat constructor].
  cbn [is_nil negb List.length hd]. repeat apply all_true_cons; try constructor; try reflexivity.
  - destruct dirty; [now rewrite andb_false_r|]. now rewrite H1.
  - destruct clean; [|reflexivity]. now rewrite H2.
Qed.

Lemma common_ok c pre post o :
  is_panic o = false -> hist_okP (c_hist c) (st_sc pre) (st_sc post) ->
  all_true [ (negb (is_panic o), "C07:isc-panic");
             (hist_ok (c_hist c) (st_sc pre) (st_sc post), "C07:isc-history-unbounded") ].
Proof.
  intros H1 H2. repeat apply all_true_cons; try constructor.
  - now rewrite H1.
  - apply hist_ok_of_P, H2.
Qed.

(* what the configured strategy calculator returns *)
Lemma calc_strategies_ok c script m scs og :
  cfg_ok c -> 0 <= og ->
  (c_calc c = CScript -> script_ok (List.length scs) og script) ->
  script_ok (List.length scs) og (fst (calc_strategies c script m scs og)) /\
  rec_list (snd (calc_strategies c script m scs og)) = rec_list m /\
  pe_from m (snd (calc_strategies c script m scs og)) /\
  (c_calc c = CSmallest -> Forall (fun s => s_bg s = false) (fst (calc_strategies c script m scs og))).
Proof.
  intros (Hd & Hh & Hc) Ho Hs. unfold calc_strategies. destruct (c_calc c) as [| |p] eqn:E; cbn [fst snd].
  - repeat split; auto using pe_from_refl; try apply (Hs eq_refl). discriminate.
  - destruct (smallest_wf scs og Ho) as (W1 & _ & _ & W4).
    repeat split; auto using pe_from_refl. intros _. unfold smallest_strategies.
    destruct (_ <=? 1)%nat; repeat constructor.
  - destruct (get_strategies_wf p m scs og Ho Hc) as (W1 & _ & _ & W4).
    repeat split; auto using rec_list_get_strategies, get_strategies_pe_from. discriminate.
Qed.

Lemma last_length_pos {A} (l : list A) : l <> [] -> (1 <= List.length l)%nat.
Proof. destruct l; [congruence|cbn; lia]. Qed.

(* ---- Select ------------------------------------------------------------------------------ *)
Lemma select_core_ok c s scs og now r script i e t l s' :
  cfg_ok c -> 0 <= og -> scs <> [] -> smap_nonneg (st_sc s) ->
  (c_calc c = CScript -> script_ok (List.length scs) og script) ->
  select_core c s scs og now r script = (i, e, t, l, s') ->
  (i < List.length scs)%nat /\ 0 <= t <= og /\ 0 <= e <= t /\
  rec_list (st_sc s') = rec_list (st_sc s) /\ st_lsf s' = st_lsf s /\
  pe_from (st_sc s) (st_sc s') /\
  match l with
  | LLargest _ => i = (List.length scs - 1)%nat
  | LLargestBg _ lgT _ => i = (List.length scs - 1)%nat /\ lgT = og /\ c_calc c <> CSmallest
  | LSmallerFg _ _ _ lgT => lgT = og
  | _ => False
  end.
Proof.
  intros Hc Ho Hscs Hnn Hscript. pose proof (last_length_pos scs Hscs) as Hn.
  unfold select_core.
  destruct (calc_strategies_ok c script (st_sc s) scs og Hc Ho Hscript) as ((C1 & C2) & C3 & C4 & C5).
  destruct (lsf_expired c (st_lsf s) now).
  - destruct (calc_strategies c script (st_sc s) scs og) as [ss m'] eqn:Ecs. cbn [fst snd] in *.
    pose proof (smap_nonneg_pe_from _ _ C4 Hnn) as Hnn'.
    destruct (pick 0 r ss) as [[j sg]|] eqn:Ep.
    + apply pick_spec in Ep as [Hin Hj]. rewrite Forall_forall in C2. specialize (C2 sg Hin).
      destruct (s_bg sg) eqn:Ebg.
      * intros [= <- <- <- <- <-]. cbn [st_sc st_lsf]. repeat split; auto; try lia.
        -- apply expected_range; auto.
        -- apply expected_range; auto.
        -- intros Hsm. specialize (C5 Hsm). rewrite Forall_forall in C5. specialize (C5 sg Hin). congruence.
      * intros [= <- <- <- <- <-]. cbn [st_sc st_lsf]. unfold tmo_ok in C2. repeat split; auto; try lia.
        -- apply expected_range; auto; lia.
        -- apply expected_range; auto; lia.
    + intros [= <- <- <- <- <-]. cbn [st_sc st_lsf]. repeat split; auto; try lia.
      * apply expected_range; auto.
      * apply expected_range; auto.
  - intros [= <- <- <- <- <-]. cbn [st_sc st_lsf]. repeat split; auto using pe_from_refl; try lia.
    + apply expected_range; auto.
    + apply expected_range; auto.
Qed.

Definition obs_of (r : res) : obs := mkObs (r_out r) (r_gets r) (r_rels r) (st (r_sess r)).

(* ---- the monitor on the calls of an outstanding learner ---------------------------------- *)
Definition common (c : cfg) (pre post : stats) (o : out) : list (bool * string) :=
  [ (negb (is_panic o), "C07:isc-panic");
    (hist_ok (c_hist c) (st_sc pre) (st_sc post), "C07:isc-history-unbounded") ].

Lemma p_succ_final c ms pre d scs bgt post rels : active (mp ms) = true ->
  p_step c ms pre (OpSucceeded d scs bgt) (mkObs (OutChoice 0 0 0 false) 0 rels post)
  = (first_fail (common c pre post (OutChoice 0 0 0 false)
                 ++ (true, "C07:isc-handle-get-count") :: term_checks c (m_base ms) post rels false),
     mkMs MIdle post 0).
Proof. unfold p_step. destruct (mp ms); try discriminate; reflexivity. Qed.

Lemma p_succ_cont c ms pre d scs bgt post idx e t : active (mp ms) = true ->
  p_step c ms pre (OpSucceeded d scs bgt) (mkObs (OutChoice idx e t true) 0 [] post)
  = (first_fail (common c pre post (OutChoice idx e t true)
                 ++ [(is_first (mp ms), "C07:isc-second-background-or-retry-run")]
                 ++ choice_checks (List.length scs) (m_orig ms) idx e t ++ cont_checks 0 []),
     mkMs MBg (m_base ms) (m_orig ms)).
Proof. unfold p_step. destruct (mp ms); try discriminate; reflexivity. Qed.

Lemma p_fail_final c ms pre tout now post rels : active (mp ms) = true ->
  p_step c ms pre (OpFailed tout now) (mkObs (OutRetry 0 0 false) 0 rels post)
  = (first_fail (common c pre post (OutRetry 0 0 false)
                 ++ [(negb (smaller_first (mp ms)), "C07:isc-no-retry-after-smaller-failure")]
                 ++ (true, "C07:isc-handle-get-count") :: term_checks c (m_base ms) post rels false),
     mkMs MIdle post 0).
Proof. unfold p_step. destruct (mp ms); try discriminate; reflexivity. Qed.

Lemma p_fail_cont c ms pre tout now post e t : active (mp ms) = true ->
  p_step c ms pre (OpFailed tout now) (mkObs (OutRetry e t true) 0 [] post)
  = (first_fail (common c pre post (OutRetry e t true)
                 ++ [(is_first (mp ms), retry_kind (mp ms))]
                 ++ [ (in_range 0 t (m_orig ms), "C07:isc-timeout-out-of-range");
                      (in_range 0 e t, "C07:isc-expected-duration-out-of-range") ]
                 ++ cont_checks 0 []),
     mkMs MRetry (m_base ms) (m_orig ms)).
Proof. unfold p_step. destruct (mp ms); try discriminate; reflexivity. Qed.

Lemma p_abandon c ms pre post rels : active (mp ms) = true ->
  p_step c ms pre OpAbandoned (mkObs OutNone 0 rels post)
  = (first_fail (common c pre post OutNone
                 ++ (true, "C07:isc-handle-get-count") :: term_checks c (m_base ms) post rels (clean_phase (mp ms))),
     mkMs MIdle post 0).
Proof. unfold p_step. destruct (mp ms); try discriminate; reflexivity. Qed.

Lemma common_all_true c pre post o :
  is_panic o = false -> hist_okP (c_hist c) (st_sc pre) (st_sc post) -> all_true (common c pre post o).
Proof. apply common_ok. Qed.

(* a call that ends the session *)
Lemma finish_inv c s' ms' : smap_nonneg (st_sc (st s')) -> ph s' = PIdle -> mp ms' = MIdle -> Inv c s' ms'.
Proof. intros H1 H2 H3. split; [exact H1|]. rewrite H2. exact H3. Qed.

Lemma first_largest_props p : first_largest p -> is_first p = true /\ smaller_first p = false /\ active p = true /\ clean_phase p = true.
Proof.
  intros (n & Hn & ->). cbn [is_first smaller_first active clean_phase]. repeat split. apply Nat.ltb_ge. lia.
Qed.

Lemma is_first_props p : is_first p = true -> active p = true /\ clean_phase p = true.
Proof. destruct p; try discriminate. auto. Qed.

Lemma learner_rel_active c s l p : learner_rel c s l p -> active p = true.
Proof.
  destruct l; cbn [learner_rel]; intros H.
  - destruct H as (H & _). apply is_first_props in H. tauto.
  - destruct H as (-> & _). reflexivity.
  - destruct H as (H & _). apply first_largest_props in H. tauto.
  - destruct H as (-> & _). reflexivity.
  - destruct H as (H & _). apply first_largest_props in H. tauto.
  - destruct H as (H & _). apply is_first_props in H. tauto.
  - destruct H as ([(n & _ & ->)| ->] & _); reflexivity.
Qed.

Lemma step_ok c s ms o : cfg_ok c -> Inv c s ms -> op_ok c s o ->
  exists ms', p_step c ms (st s) o (obs_of (step c s o)) = ("", ms') /\ Inv c (r_sess (step c s o)) ms'.
Proof.
  intros Hc (Hnn & Hph) Hop.
  assert (Hrefl : forall x : stats, changed x x = false) by (intros; apply unchanged_of_eq; reflexivity).
  destruct (ph s) as [|l|] eqn:Eph; [| |destruct Hph].
  - (* idle *)
    unfold step. rewrite Eph. unfold p_step. rewrite Hph.
    destruct o as [t scs now r script|t|d scs bgt|to now|]; cbn [obs_of r_out r_gets r_rels r_sess o_out o_gets o_rels o_stats];
      try (eexists; split; [reflexivity|]; split; [exact Hnn|rewrite Eph; exact Hph]).
    + (* Select *)
      destruct Hop as [Hscs Hscript].
      destruct (extract_timeout c t) as [og|] eqn:Et.
      * pose proof (extract_nonneg c t og Hc Et) as Ho.
        destruct (c_fallback c) eqn:Efb.
        -- cbn [r_out r_gets r_rels r_sess st o_out o_gets o_rels o_stats].
           eexists. split.
           ++ f_equal. apply first_fail_ok. unfold uses_handle. rewrite Efb. cbn [negb].
              apply all_true_app; [apply common_ok; [reflexivity|apply hist_okP_refl]|].
              apply all_true_cons; [reflexivity|].
              apply all_true_app; [apply choice_checks_ok; [pose proof (last_length_pos scs Hscs)|..]; lia|].
              repeat apply all_true_cons; try constructor; try reflexivity. now rewrite Hrefl.
           ++ split; [exact Hnn|]. cbn [ph st orig recorded mp m_orig m_base].
              repeat split; auto.
              destruct (1 <? List.length scs)%nat eqn:El; cbn [learner_rel is_first orig recorded]; auto.
              split; [|reflexivity]. left. exists (List.length scs). apply Nat.ltb_ge in El. auto.
        -- destruct (select_core c (st s) scs og now r script) as [[[[i e] t'] l] s'] eqn:Esel.
           pose proof (select_core_ok c (st s) scs og now r script i e t' l s' Hc Ho Hscs Hnn
                         (fun H => Hscript H og eq_refl) Esel) as (S1 & S2 & S3 & S4 & S5 & S6 & S7).
           cbn [r_out r_gets r_rels r_sess st o_out o_gets o_rels o_stats].
           eexists. split.
           ++ f_equal. apply first_fail_ok. unfold uses_handle. rewrite Efb. cbn [negb].
              apply all_true_app; [apply common_ok; [reflexivity|apply hist_okP_of_pe_from, S6]|].
              apply all_true_cons; [reflexivity|].
              apply all_true_app; [apply choice_checks_ok; assumption|].
              repeat apply all_true_cons; try constructor; try reflexivity.
              rewrite unchanged_of_eq; auto.
           ++ split; [eapply smap_nonneg_pe_from; eassumption|]. cbn [ph st orig recorded mp m_orig m_base].
              repeat split; auto.
              pose proof (last_length_pos scs Hscs) as Hn.
              destruct l; cbn [learner_rel is_first orig recorded]; try tauto.
              ** destruct S7 as (-> & -> & Hcs). repeat split; auto. exists (List.length scs). auto.
              ** subst i. split; [|reflexivity]. exists (List.length scs). auto.
      * cbn [r_out r_gets r_rels r_sess st o_out o_gets o_rels o_stats].
        eexists. split.
        -- f_equal. apply first_fail_ok.
           apply all_true_app; [apply common_ok; [reflexivity|apply hist_okP_refl]|].
           apply all_true_app; [apply cont_checks_ok|]. apply all_true_cons; [now rewrite Hrefl|constructor].
        -- split; [exact Hnn|rewrite Eph; reflexivity].
    + (* selector abandoned *)
      destruct (extract_timeout c t) as [og|] eqn:Et;
        cbn [r_out r_gets r_rels r_sess st o_out o_gets o_rels o_stats].
      * eexists. split.
        -- f_equal. apply first_fail_ok.
           apply all_true_app; [apply common_ok; [reflexivity|apply hist_okP_refl]|].
           apply all_true_cons; [destruct (uses_handle c); reflexivity|].
           apply term_checks_ok; auto.
        -- split; [exact Hnn|reflexivity].
      * eexists. split.
        -- f_equal. apply first_fail_ok.
           apply all_true_app; [apply common_ok; [reflexivity|apply hist_okP_refl]|].
           apply all_true_app; [apply cont_checks_ok|]. apply all_true_cons; [now rewrite Hrefl|constructor].
        -- split; [exact Hnn|rewrite Eph; reflexivity].
  - (* a learner is outstanding *)
    destruct Hph as (Hrel & Hmo & Ho & Hbase).
    destruct Hc as (Hdeft & Hhist & Hcalc).
    assert (Hsame' : recorded s = false -> changed (m_base ms) (st s) = false).
    { intros Hr. apply unchanged_of_eq; apply (Hbase Hr). }
    unfold step. rewrite Eph.
    destruct o as [t scs now r script|t|d scs bgt|tout now|].
    + (* Select while a learner is outstanding: no-op *)
      pose proof (learner_rel_active _ _ _ _ Hrel) as Hact.
      exists ms. split.
      * unfold p_step. cbn [obs_of r_out r_gets r_rels r_sess o_out o_gets o_rels o_stats].
        destruct (mp ms); try discriminate Hact; reflexivity.
      * split; [exact Hnn|]. cbn [r_sess]. rewrite Eph. auto.
    + pose proof (learner_rel_active _ _ _ _ Hrel) as Hact.
      exists ms. split.
      * unfold p_step. cbn [obs_of r_out r_gets r_rels r_sess o_out o_gets o_rels o_stats].
        destruct (mp ms); try discriminate Hact; reflexivity.
      * split; [exact Hnn|]. cbn [r_sess]. rewrite Eph. auto.
    + (* Succeeded *)
      destruct Hop as (Hscs & Hd & Hbgt). pose proof (last_length_pos scs Hscs) as Hn.
      assert (Hsucc : forall sc m, smap_nonneg m -> smap_nonneg (add_exec (c_hist c) sc (OSucceeded d) m)).
      { intros. apply smap_nonneg_add; auto. }
      unfold succeeded.
      destruct l as [sm smT lg lgT|sm ex lg|lg lgT sm|sm smT|lg|tf|]; cbn [learner_rel] in Hrel.
      * destruct Hrel as (Hf & _ & _). apply is_first_props in Hf as [Ha _].
        eexists. split.
        -- unfold finish, obs_of. cbn [r_out r_gets r_rels r_sess st]. rewrite p_succ_final by exact Ha.
           f_equal. apply first_fail_ok.
           apply all_true_app; [apply common_all_true; [reflexivity|apply hist_okP_add, hist_okP_refl]|].
           apply all_true_cons; [reflexivity|]. apply term_checks_ok; intros; congruence.
        -- apply finish_inv; [apply Hsucc, Hnn|reflexivity|reflexivity].
      * destruct Hrel as (Hp & _ & Hex).
        eexists. split.
        -- unfold finish, obs_of. cbn [r_out r_gets r_rels r_sess st]. rewrite p_succ_final by (rewrite Hp; reflexivity).
           f_equal. apply first_fail_ok.
           apply all_true_app; [apply common_all_true; [reflexivity|apply hist_okP_add, hist_okP_add, hist_okP_refl]|].
           apply all_true_cons; [reflexivity|]. apply term_checks_ok; intros; congruence.
        -- apply finish_inv; [|reflexivity|reflexivity]. apply Hsucc. apply smap_nonneg_add; auto.
      * (* largestBackground *)
        destruct Hrel as (Hfl & -> & Hrec & Hns). apply first_largest_props in Hfl as (Hf & _ & Ha & _).
        set (m1 := add_exec (c_hist c) lg (OSucceeded d) (st_sc (st s))).
        assert (Hnn1 : smap_nonneg m1) by (apply Hsucc, Hnn).
        destruct (if (last scs 0%N =? lg)%N then index_of sm 0 scs else None) as [i|] eqn:Ei.
        -- destruct (last scs 0%N =? lg)%N eqn:Elast; [|discriminate]. apply N.eqb_eq in Elast.
           assert (Hi : (i < List.length scs)%nat).
           { clear - Ei. assert (forall l j, index_of sm j l = Some i -> (j <= i < j + List.length l)%nat) as H.
             { induction l as [|y l IH]; intros j H; [discriminate|]. cbn [index_of] in H.
               destruct (y =? sm)%N; [injection H as <-; cbn; lia|]. apply IH in H. cbn [List.length]. lia. }
             apply H in Ei. lia. }
           assert (Hbg : exists t, calc_bg c bgt m1 scs i (orig s) = Some t /\ 0 <= t <= orig s).
           { unfold calc_bg. destruct (c_calc c) as [| |p] eqn:Ec.
             - exists bgt. split; [reflexivity|apply Hbgt; reflexivity].
             - congruence.
             - unfold bg_timeout. rewrite Elast. unfold m1, add_exec. rewrite m_get_set_same. cbn [pe].
               destruct (median_after_success (c_hist c) (pe (m_get_d lg (st_sc (st s)))) d Hhist) as [med ->].
               eexists. split; [reflexivity|]. apply exec_params_tmo; assumption. }
           destruct Hbg as (t & -> & Ht).
           eexists. split.
           ++ unfold obs_of. cbn [r_out r_gets r_rels r_sess st]. rewrite p_succ_cont by exact Ha.
              f_equal. apply first_fail_ok.
              apply all_true_app; [apply common_all_true; [reflexivity|apply hist_okP_add, hist_okP_refl]|].
              apply all_true_app; [apply all_true_cons; [exact Hf|constructor]|].
              apply all_true_app; [|apply cont_checks_ok].
              apply choice_checks_ok; [exact Hi|rewrite Hmo; exact Ht|apply expected_range; [exact Hnn1|lia]].
           ++ split; [exact Hnn1|]. cbn [r_sess ph learner_rel mp m_orig m_base orig recorded].
              repeat split; auto; discriminate.
        -- eexists. split.
           ++ unfold finish, obs_of. cbn [r_out r_gets r_rels r_sess st]. rewrite p_succ_final by exact Ha.
              f_equal. apply first_fail_ok.
              apply all_true_app; [apply common_all_true; [reflexivity|apply hist_okP_add, hist_okP_refl]|].
              apply all_true_cons; [reflexivity|]. apply term_checks_ok; intros; congruence.
           ++ apply finish_inv; [exact Hnn1|reflexivity|reflexivity].
      * destruct Hrel as (Hrel & _). eexists. split.
        -- unfold finish, obs_of. cbn [r_out r_gets r_rels r_sess st]. rewrite p_succ_final by (rewrite Hrel; reflexivity).
           f_equal. apply first_fail_ok.
           apply all_true_app; [apply common_all_true; [reflexivity|apply hist_okP_add, hist_okP_refl]|].
           apply all_true_cons; [reflexivity|]. apply term_checks_ok; intros; congruence.
        -- apply finish_inv; [apply Hsucc, Hnn|reflexivity|reflexivity].
      * destruct Hrel as (Hfl & _). apply first_largest_props in Hfl as (_ & _ & Ha & _).
        eexists. split.
        -- unfold finish, obs_of. cbn [r_out r_gets r_rels r_sess st]. rewrite p_succ_final by exact Ha.
           f_equal. apply first_fail_ok.
           apply all_true_app; [apply common_all_true; [reflexivity|apply hist_okP_add, hist_okP_refl]|].
           apply all_true_cons; [reflexivity|]. apply term_checks_ok; intros; congruence.
        -- apply finish_inv; [apply Hsucc, Hnn|reflexivity|reflexivity].
      * destruct Hrel as (Hf & _ & Hrec). apply is_first_props in Hf as [Ha _].
        eexists. split.
        -- unfold finish, obs_of. cbn [r_out r_gets r_rels r_sess st]. rewrite p_succ_final by exact Ha.
           f_equal. apply first_fail_ok.
           apply all_true_app; [apply common_all_true; [reflexivity|apply hist_okP_refl]|].
           apply all_true_cons; [reflexivity|]. apply term_checks_ok; [intros _; apply Hsame', Hrec|discriminate].
        -- apply finish_inv; [exact Hnn|reflexivity|reflexivity].
      * destruct Hrel as (Hp & Hrec).
        assert (Ha : active (mp ms) = true) by (destruct Hp as [(n & _ & ->)| ->]; reflexivity).
        eexists. split.
        -- unfold finish, obs_of. cbn [r_out r_gets r_rels r_sess st]. rewrite p_succ_final by exact Ha.
           f_equal. apply first_fail_ok.
           apply all_true_app; [apply common_all_true; [reflexivity|apply hist_okP_refl]|].
           apply all_true_cons; [reflexivity|]. apply term_checks_ok; [intros _; apply Hsame', Hrec|discriminate].
        -- apply finish_inv; [exact Hnn|reflexivity|reflexivity].
    + (* Failed *)
      unfold failed.
      assert (Htouch : forall m, hist_okP (c_hist c) (st_sc (st s)) m -> True) by auto.
      destruct l as [sm smT lg lgT|sm ex lg|lg lgT sm|sm smT|lg|tf|]; cbn [learner_rel] in Hrel.
      * (* smallerForeground: retry on the largest *)
        destruct Hrel as (Hf & -> & Hrec). pose proof (is_first_props _ Hf) as [Ha _].
        eexists. split.
        -- unfold obs_of. cbn [r_out r_gets r_rels r_sess st]. rewrite p_fail_cont by exact Ha.
           f_equal. apply first_fail_ok.
           apply all_true_app; [apply common_all_true; [reflexivity|apply hist_okP_refl]|].
           apply all_true_app; [apply all_true_cons; [exact Hf|constructor]|].
           apply all_true_app; [|apply cont_checks_ok].
           repeat apply all_true_cons; try constructor.
           ++ apply in_range_true. lia.
           ++ apply in_range_true, expected_range; auto.
        -- split; [exact Hnn|]. cbn [r_sess ph learner_rel mp m_orig m_base orig recorded st].
           repeat split; auto; try apply Hbase; auto. destruct tout; exact I.
      * destruct Hrel as (Hp & Hrec & _).
        eexists. split.
        -- unfold finish, obs_of. cbn [r_out r_gets r_rels r_sess st]. rewrite p_fail_final by (rewrite Hp; reflexivity).
           f_equal. apply first_fail_ok.
           apply all_true_app; [apply common_all_true; [reflexivity|apply hist_okP_refl]|].
           apply all_true_app; [apply all_true_cons; [rewrite Hp; reflexivity|constructor]|].
           apply all_true_cons; [reflexivity|]. apply term_checks_ok; intros; congruence.
        -- apply finish_inv; [exact Hnn|reflexivity|reflexivity].
      * destruct Hrel as (Hfl & _ & Hrec & _). apply first_largest_props in Hfl as (_ & Hsf & Ha & _).
        eexists. split.
        -- unfold finish, obs_of. cbn [r_out r_gets r_rels r_sess st]. rewrite p_fail_final by exact Ha.
           f_equal. apply first_fail_ok.
           apply all_true_app; [apply common_all_true; [reflexivity|apply hist_okP_refl]|].
           apply all_true_app; [apply all_true_cons; [rewrite Hsf; reflexivity|constructor]|].
           apply all_true_cons; [reflexivity|]. apply term_checks_ok; intros; congruence.
        -- apply finish_inv; [exact Hnn|reflexivity|reflexivity].
      * destruct Hrel as (Hrel & _). eexists. split.
        -- unfold finish, obs_of. cbn [r_out r_gets r_rels r_sess st]. rewrite p_fail_final by (rewrite Hrel; reflexivity).
           f_equal. apply first_fail_ok.
           apply all_true_app; [apply common_all_true; [reflexivity|apply hist_okP_add, hist_okP_refl]|].
           apply all_true_app; [apply all_true_cons; [rewrite Hrel; reflexivity|constructor]|].
           apply all_true_cons; [reflexivity|]. apply term_checks_ok; intros; congruence.
        -- apply finish_inv; [|reflexivity|reflexivity]. apply smap_nonneg_add; auto. destruct tout; exact I.
      * destruct Hrel as (Hfl & Hrec). apply first_largest_props in Hfl as (_ & Hsf & Ha & _).
        eexists. split.
        -- unfold finish, obs_of. cbn [r_out r_gets r_rels r_sess st]. rewrite p_fail_final by exact Ha.
           f_equal. apply first_fail_ok.
           apply all_true_app; [apply common_all_true; [reflexivity|apply hist_okP_refl]|].
           apply all_true_app; [apply all_true_cons; [rewrite Hsf; reflexivity|constructor]|].
           apply all_true_cons; [reflexivity|]. apply term_checks_ok; intros; congruence.
        -- apply finish_inv; [exact Hnn|reflexivity|reflexivity].
      * (* smallerFallback: retry *)
        destruct Hrel as (Hf & -> & Hrec). pose proof (is_first_props _ Hf) as [Ha _].
        eexists. split.
        -- unfold obs_of. cbn [r_out r_gets r_rels r_sess st]. rewrite p_fail_cont by exact Ha.
           f_equal. apply first_fail_ok.
           apply all_true_app; [apply common_all_true; [reflexivity|apply hist_okP_refl]|].
           apply all_true_app; [apply all_true_cons; [exact Hf|constructor]|].
           apply all_true_app; [|apply cont_checks_ok].
           repeat apply all_true_cons; try constructor; apply in_range_true; lia.
        -- split; [exact Hnn|]. cbn [r_sess ph learner_rel mp m_orig m_base orig recorded st].
           repeat split; auto; apply Hbase; auto.
      * destruct Hrel as (Hp & Hrec).
        assert (Ha : active (mp ms) = true /\ smaller_first (mp ms) = false).
        { destruct Hp as [(n & Hn & ->)| ->]; cbn [active smaller_first]; split; auto. apply Nat.ltb_ge. lia. }
        destruct Ha as [Ha Hsf].
        eexists. split.
        -- unfold finish, obs_of. cbn [r_out r_gets r_rels r_sess st]. rewrite p_fail_final by exact Ha.
           f_equal. apply first_fail_ok.
           apply all_true_app; [apply common_all_true; [reflexivity|apply hist_okP_refl]|].
           apply all_true_app; [apply all_true_cons; [rewrite Hsf; reflexivity|constructor]|].
           apply all_true_cons; [reflexivity|]. apply term_checks_ok; [intros _; apply Hsame', Hrec|discriminate].
        -- apply finish_inv; [exact Hnn|reflexivity|reflexivity].
    + (* Abandoned *)
      unfold abandoned.
      assert (Hgen : forall dirty, active (mp ms) = true ->
                (dirty = false -> recorded s = false) -> (clean_phase (mp ms) = true -> dirty = false) ->
                exists ms', p_step c ms (st s) OpAbandoned (obs_of (finish c (st s) dirty OutNone)) = ("", ms')
                            /\ Inv c (r_sess (finish c (st s) dirty OutNone)) ms').
      { intros dirty Ha H1 H2. eexists. split.
        - unfold finish, obs_of. cbn [r_out r_gets r_rels r_sess st]. rewrite p_abandon by exact Ha.
          f_equal. apply first_fail_ok.
          apply all_true_app; [apply common_all_true; [reflexivity|apply hist_okP_refl]|].
          apply all_true_cons; [reflexivity|]. apply term_checks_ok; [intros Hd; apply Hsame', H1, Hd|exact H2].
        - apply finish_inv; [exact Hnn|reflexivity|reflexivity]. }
      destruct l as [sm smT lg lgT|sm ex lg|lg lgT sm|sm smT|lg|tf|]; cbn [learner_rel] in Hrel.
      * destruct Hrel as (Hf & _ & Hrec). apply is_first_props in Hf as [Ha _]. apply Hgen; auto.
      * destruct Hrel as (Hp & Hrec & _). apply Hgen; auto. rewrite Hp. reflexivity.
      * destruct Hrel as (Hfl & _ & Hrec & _). apply first_largest_props in Hfl as (_ & _ & Ha & _). apply Hgen; auto.
      * destruct Hrel as (Hrel & _). apply Hgen; [rewrite Hrel; reflexivity|discriminate|rewrite Hrel; discriminate].
      * destruct Hrel as (Hfl & Hrec). apply first_largest_props in Hfl as (_ & _ & Ha & _). apply Hgen; auto.
      * destruct Hrel as (Hf & _ & Hrec). apply is_first_props in Hf as [Ha _]. apply Hgen; auto.
      * destruct Hrel as (Hp & Hrec). apply Hgen; auto. destruct Hp as [(n & _ & ->)| ->]; reflexivity.
Qed.

(* ---- all call sequences --------------------------------------------------------------------- *)
Lemma run_ok c : cfg_ok c -> forall ops s ms, Inv c s ms -> ops_ok c s ops ->
  trace_ok c ms (st s) (run c s ops) = true.
Proof.
  intros Hc. induction ops as [|o ops IH]; intros s ms Hinv Hops; [reflexivity|].
  destruct Hops as [Hop Hops]. cbn [run trace_ok].
  destruct (step_ok c s ms o Hc Hinv Hop) as (ms' & Hp & Hinv').
  unfold obs_of in Hp. rewrite Hp. cbn [String.eqb andb o_stats]. apply IH; assumption.
Qed.

Theorem protocol_trace_ok c s0 ops :
  cfg_ok c -> smap_nonneg (st_sc s0) -> ops_ok c (init_sess s0) ops ->
  trace_ok c (init_ms s0) s0 (run c (init_sess s0) ops) = true.
Proof.
  intros Hc Hnn Hops. apply (run_ok c Hc ops (init_sess s0) (init_ms s0)); [|exact Hops].
  split; [exact Hnn|reflexivity].
Qed.
