(* Executable model of the analyzer / selector / learner protocol of
   pkg/scheduler/initialsizeclass: feedback_driven_analyzer.go,
   fallback_analyzer.go, action_timeout_extractor.go (strategy calculators:
   PageRank.v).

   One "session" = one Analyze call: the selector obtained from it receives
   Select or Abandoned; Select yields a learner; every learner receives one
   of Succeeded / Failed / Abandoned and may yield a successor.  The model
   is a state machine over the calls ([step]); it returns what the Go
   methods return, the number of store.Get calls and the list of
   handle.Release(isDirty) calls made, and the new contents of the
   PreviousExecutionStats message.  A call that the protocol does not permit
   in the current phase is a no-op (the scheduler never issues it).

   Calls on behalf of different sessions for the same message are run one
   session after the other here; concurrent sessions sharing a handle are
   the Store/Sched areas' business. *)
From Coq Require Import List ZArith NArith QArith Bool.
From VF Require Import ISC.Outcomes ISC.PageRank.
Import ListNotations.
Local Open Scope Z_scope.

(* iscc.PreviousExecutionStats; st_lsf = None: LastSeenFailure absent/invalid *)
Record stats := mkStats { st_sc : smap; st_lsf : option Z }.

Inductive learner :=
| LSmallerFg (smaller : N) (smallerT : Z) (largest : N) (largestT : Z)   (* smallerForegroundLearner *)
| LLargestFg (smaller : N) (ex : outcome) (largest : N)                   (* largestForegroundLearner *)
| LLargestBg (largest : N) (largestT : Z) (smaller : N)                   (* largestBackgroundLearner *)
| LSmallerBg (smaller : N) (smallerT : Z)                                 (* smallerBackgroundLearner *)
| LLargest (largest : N)                                                  (* largestLearner *)
| LFbSmaller (t : Z)                                                      (* smallerFallbackLearner *)
| LFbLargest.                                                             (* largestFallbackLearner *)

Inductive calc := CScript | CSmallest | CPageRank (p : prcfg).

Record cfg := mkCfg {
  c_fallback : bool;      (* NewFallbackAnalyzer instead of NewFeedbackDrivenAnalyzer *)
  c_calc : calc;
  c_hist : nat;           (* historySize *)
  c_fcd : Z;              (* failureCacheDuration *)
  c_deft : Z;             (* defaultExecutionTimeout *)
  c_maxt : Z }.           (* maximumExecutionTimeout *)

(* action.Timeout *)
Inductive atmo := TAbsent | TInvalid | TVal (t : Z).
(* ActionTimeoutExtractor.ExtractTimeout; None = InvalidArgument *)
Definition extract_timeout (c : cfg) (t : atmo) : option Z :=
  match t with
  | TAbsent => Some (c_deft c)
  | TInvalid => None
  | TVal t => if (t <? 0) || (c_maxt c <? t) then None else Some t
  end.

Inductive op :=
| OpSelect (t : atmo) (scs : list N) (now : Z) (r : Q) (script : list strategy)
| OpSelAbandon (t : atmo)
| OpSucceeded (d : Z) (scs : list N) (bgt : Z)
| OpFailed (timedOut : bool) (now : Z)
| OpAbandoned.

Inductive out :=
| OutErr                                          (* Analyze returned an error *)
| OutNone
| OutPanic                                        (* the Go code panics *)
| OutChoice (idx : nat) (exp tmo : Z) (lrn : bool)  (* Select / Succeeded *)
| OutRetry (exp tmo : Z) (lrn : bool).              (* Failed *)

Inductive phase := PIdle | PLearner (l : learner) | PDead.
Record sess := mkSess { ph : phase; st : stats; orig : Z; recorded : bool }.
Record res := mkRes { r_sess : sess; r_out : out; r_gets : nat; r_rels : list bool }.

(* ---- helpers --------------------------------------------------------------- *)
Definition lastn {A} (n : nat) (l : list A) : list A := skipn (length l - n) l.
(* baseLearner.addPreviousExecution *)
Definition add_exec (h : nat) (sc : N) (o : outcome) (m : smap) : smap :=
  let p := m_get_d sc m in
  m_set sc (mkPscs (lastn h (pe p ++ [o])) (iprp p)) m.
(* getExpectedExecutionDuration *)
Definition expected (m : smap) (sc : N) (tmo : Z) : Z :=
  match m_get sc m with
  | Some p =>
    match median (outcomes_of_prev (pe p)) with
    | Some med => if med <? tmo then med else tmo
    | None => tmo
    end
  | None => tmo
  end.
Definition lsf_expired (c : cfg) (lsf : option Z) (now : Z) : bool :=
  match lsf with None => true | Some t => t <? now - c_fcd c end.

Definition calc_strategies (c : cfg) (script : list strategy) (m : smap) (scs : list N) (orig : Z)
    : list strategy * smap :=
  match c_calc c with
  | CScript => (script, m)
  | CSmallest => (smallest_strategies scs orig, m)
  | CPageRank p => get_strategies p m scs orig
  end.
(* None: panic (smallest: "Background execution should not be performed") *)
Definition calc_bg (c : cfg) (bgt : Z) (m : smap) (scs : list N) (i : nat) (orig : Z) : option Z :=
  match c_calc c with
  | CScript => Some bgt
  | CSmallest => None
  | CPageRank p => bg_timeout p m scs i orig
  end.

(* "Randomly pick a size class according to the probabilities" *)
Fixpoint pick (i : nat) (r : Q) (ss : list strategy) : option (nat * strategy) :=
  match ss with
  | [] => None
  | s :: t => if qltb r (s_prob s) then Some (i, s) else pick (S i) (r - s_prob s)%Q t
  end.
Fixpoint index_of (x : N) (i : nat) (l : list N) : option nat :=
  match l with
  | [] => None
  | y :: r => if (y =? x)%N then Some i else index_of x (S i) r
  end.

(* feedbackDrivenSelector.Select: ((index, expected, timeout, learner), stats) *)
Definition select_core (c : cfg) (s : stats) (scs : list N) (orig now : Z) (r : Q)
    (script : list strategy) : (nat * Z * Z * learner) * stats :=
  let n := length scs in
  let largest := last scs 0%N in
  let to_largest (m : smap) :=
    ((n - 1)%nat, expected m largest orig, orig, LLargest largest, mkStats m (st_lsf s)) in
  if lsf_expired c (st_lsf s) now then
    let '(ss, m') := calc_strategies c script (st_sc s) scs orig in
    match pick 0 r ss with
    | Some (i, sg) =>
      let smaller := nth i scs 0%N in
      if s_bg sg then
        ((n - 1)%nat, expected m' largest orig, orig, LLargestBg largest orig smaller, mkStats m' (st_lsf s))
      else
        (i, expected m' smaller (s_tmo sg), s_tmo sg, LSmallerFg smaller (s_tmo sg) largest orig,
         mkStats m' (st_lsf s))
    | None => to_largest m'
    end
  else to_largest (st_sc s).

Definition uses_handle (c : cfg) : bool := negb (c_fallback c).
Definition rel (c : cfg) (dirty : bool) : list bool := if uses_handle c then [dirty] else [].

(* the learner is finished: handle released, session over *)
Definition finish (c : cfg) (s : stats) (dirty : bool) (o : out) : res :=
  mkRes (mkSess PIdle s 0 false) o 0 (rel c dirty).
Definition with_sc (s : stats) (m : smap) : stats := mkStats m (st_lsf s).

Definition succeeded (c : cfg) (s : sess) (l : learner) (d : Z) (scs : list N) (bgt : Z) : res :=
  let h := c_hist c in
  let m := st_sc (st s) in
  let nil_choice := OutChoice 0 0 0 false in
  match l with
  | LSmallerFg sm _ _ _ => finish c (with_sc (st s) (add_exec h sm (OSucceeded d) m)) true nil_choice
  | LLargestFg sm ex lg =>
    finish c (with_sc (st s) (add_exec h lg (OSucceeded d) (add_exec h sm ex m))) true nil_choice
  | LLargestBg lg lgT sm =>
    let m1 := add_exec h lg (OSucceeded d) m in
    (* background learning only if the smaller size class still exists and
       the largest size class of the list is still the one just run on *)
    match (if (last scs 0%N =? lg)%N then index_of sm 0 scs else None) with
    | Some i =>
      match calc_bg c bgt m1 scs i lgT with
      | Some t =>
        mkRes (mkSess (PLearner (LSmallerBg sm t)) (with_sc (st s) m1) (orig s) true)
              (OutChoice i (expected m1 sm t) t true) 0 []
      | None => mkRes (mkSess PDead (with_sc (st s) m1) (orig s) true) OutPanic 0 []
      end
    | None => finish c (with_sc (st s) m1) true nil_choice
    end
  | LSmallerBg sm _ => finish c (with_sc (st s) (add_exec h sm (OSucceeded d) m)) true nil_choice
  | LLargest lg => finish c (with_sc (st s) (add_exec h lg (OSucceeded d) m)) true nil_choice
  | LFbSmaller _ | LFbLargest => finish c (st s) false nil_choice
  end.

Definition failed (c : cfg) (s : sess) (l : learner) (timedOut : bool) (now : Z) : res :=
  let h := c_hist c in
  let m := st_sc (st s) in
  let nil_retry := OutRetry 0 0 false in
  let touch := mkStats m (Some now) in
  match l with
  | LSmallerFg sm smT lg lgT =>
    let ex := if timedOut then OTimedOut smT else OFailed in
    mkRes (mkSess (PLearner (LLargestFg sm ex lg)) (st s) (orig s) (recorded s))
          (OutRetry (expected m lg lgT) lgT true) 0 []
  | LLargestFg _ _ _ | LLargestBg _ _ _ | LLargest _ => finish c touch true nil_retry
  | LSmallerBg sm smT =>
    let ex := if timedOut then OTimedOut smT else OFailed in
    finish c (with_sc (st s) (add_exec h sm ex m)) true nil_retry
  | LFbSmaller t =>
    mkRes (mkSess (PLearner LFbLargest) (st s) (orig s) (recorded s)) (OutRetry t t true) 0 []
  | LFbLargest => finish c (st s) false nil_retry
  end.

Definition abandoned (c : cfg) (s : sess) (l : learner) : res :=
  match l with
  | LSmallerBg _ _ => finish c (st s) true OutNone
  | _ => finish c (st s) false OutNone
  end.

Definition step (c : cfg) (s : sess) (o : op) : res :=
  match ph s, o with
  | PIdle, OpSelect t scs now r script =>
    match extract_timeout c t with
    | None => mkRes s OutErr 0 []
    | Some og =>
      if c_fallback c then
        let l := if (1 <? length scs)%nat then LFbSmaller og else LFbLargest in
        mkRes (mkSess (PLearner l) (st s) og false) (OutChoice 0 og og true) 0 []
      else
        let '(i, e, t', l, s') := select_core c (st s) scs og now r script in
        mkRes (mkSess (PLearner l) s' og false) (OutChoice i e t' true) 1 []
    end
  | PIdle, OpSelAbandon t =>
    match extract_timeout c t with
    | None => mkRes s OutErr 0 []
    | Some _ => mkRes (mkSess PIdle (st s) 0 false) OutNone (if uses_handle c then 1 else 0) (rel c false)
    end
  | PLearner l, OpSucceeded d scs bgt => succeeded c s l d scs bgt
  | PLearner l, OpFailed timedOut now => failed c s l timedOut now
  | PLearner l, OpAbandoned => abandoned c s l
  | _, _ => mkRes s OutNone 0 []
  end.

Definition init_sess (s : stats) : sess := mkSess PIdle s 0 false.

(* The trace of a run: per call, the stats before, the call, and what
   happened. *)
Record obs := mkObs { o_out : out; o_gets : nat; o_rels : list bool; o_stats : stats }.
Fixpoint run (c : cfg) (s : sess) (ops : list op) : list (op * obs) :=
  match ops with
  | [] => []
  | o :: ops' =>
    let r := step c s o in
    (o, mkObs (r_out r) (r_gets r) (r_rels r) (st (r_sess r))) :: run c (r_sess r) ops'
  end.
Fixpoint final (c : cfg) (s : sess) (ops : list op) : sess :=
  match ops with
  | [] => s
  | o :: ops' => final c (r_sess (step c s o)) ops'
  end.
