(* What GetStrategies / GetBackgroundExecutionTimeout return is well formed
   (model: ISC/PageRank.v), and what they do to the stored message. *)
From Coq Require Import List ZArith NArith QArith Bool Lia.
From VF Require Import ISC.Outcomes ISC.OutcomesProofs ISC.PageRank ISC.PageRankProofs.
Import ListNotations.
Local Open Scope Z_scope.

Definition prob_ok (s : strategy) : Prop := (0 <= s_prob s <= 1)%Q.
Definition tmo_ok (og : Z) (s : strategy) : Prop := 0 <= s_tmo s <= og.
(* at most one strategy per size class; every probability in [0,1]; their sum
   at most 1; every timeout between 0 and the action's *)
Definition wf_strategies (n : nat) (og : Z) (ss : list strategy) : Prop :=
  (length ss <= n)%nat /\ Forall prob_ok ss /\ (qsum (map s_prob ss) <= 1)%Q /\ Forall (tmo_ok og) ss.

(* ---- Q sums --------------------------------------------------------------------- *)
Lemma qsum_app a b : (qsum (a ++ b) == qsum a + qsum b)%Q.
Proof.
  unfold qsum. induction a as [|x a IH]; cbn [app fold_right].
  - ring.
  - rewrite IH. ring.
Qed.

Lemma qsum_zero l : Forall (fun q => q = 0%Q) l -> (qsum l == 0)%Q.
Proof.
  unfold qsum. induction 1 as [|x l Hx Hl IH]; [reflexivity|].
  cbn [fold_right]. rewrite IH, Hx. ring.
Qed.

(* strategies whose probability is the literal 0 *)
Definition zero_ok (og : Z) (s : strategy) : Prop := s_prob s = 0%Q /\ tmo_ok og s.

Lemma forced_choice_wf n og pre last :
  (length pre < n)%nat -> Forall (zero_ok og) pre -> s_prob last = 1%Q -> tmo_ok og last ->
  wf_strategies n og (pre ++ [last]).
Proof.
  intros Hl Hpre Hp Ht. unfold wf_strategies. repeat split.
  - rewrite app_length. cbn. lia.
  - apply Forall_app. split.
    + eapply Forall_impl; [|exact Hpre]. intros s [Hs _]. unfold prob_ok. rewrite Hs. split; discriminate.
    + constructor; [|constructor]. unfold prob_ok. rewrite Hp. split; discriminate.
  - rewrite map_app, qsum_app. rewrite qsum_zero.
    + cbn. rewrite Hp. discriminate.
    + apply Forall_forall. intros q Hq. apply in_map_iff in Hq as [s [<- Hs]].
      rewrite Forall_forall in Hpre. apply Hpre, Hs.
  - apply Forall_app. split; [|constructor; [exact Ht|constructor]].
    eapply Forall_impl; [|exact Hpre]. intros s [_ Hs]. exact Hs.
Qed.

(* ---- timeouts ---------------------------------------------------------------------- *)
Lemma exec_params_tmo c smaller largest med og : 0 <= og -> 0 <= pr_min c ->
  0 <= sp_tmo (exec_params c smaller largest med og) <= og.
Proof.
  intros Ho Hm. unfold exec_params. cbn [sp_tmo].
  set (t0 := qtrunc _). destruct (t0 <? pr_min c) eqn:E1.
  - destruct (og <? pr_min c) eqn:E2; lia.
  - destruct (og <? t0) eqn:E2; lia.
Qed.

Lemma bg_timeout_range c m scs i og t : 0 <= og -> 0 <= pr_min c ->
  bg_timeout c m scs i og = Some t -> 0 <= t <= og.
Proof.
  intros Ho Hm. unfold bg_timeout. destruct (m_get _ m); [|discriminate].
  destruct (median _); [|discriminate]. intros [= <-]. apply exec_params_tmo; assumption.
Qed.

(* ---- the loop over the smaller size classes ----------------------------------------- *)
Lemma classify_fails p l : 0 <= snd (classify p l).
Proof.
  unfold classify.
  assert (H : forall acc, 0 <= snd acc -> 0 <= snd (fold_left (classify1 p) l acc)).
  { induction l as [|o l IH]; intros acc Ha; [exact Ha|].
    cbn [fold_left]. apply IH. destruct acc as [ts f]. cbn [snd] in Ha. unfold classify1.
    destruct o; cbn [snd]; try lia.
    - destruct (_ <=? _); cbn [snd]; lia.
    - destruct (_ <? _); cbn [snd]; lia. }
  apply H. cbn. lia.
Qed.

Lemma strat_loop_props c largest med og : 0 <= og -> 0 <= pr_min c ->
  forall scs lst rib ss os, Forall (zero_ok og) ss -> os_ok os ->
  match strat_loop c largest med og scs lst rib ss os with
  | LEarly ss' =>
    exists pre last, ss' = pre ++ [last] /\ (length pre < length ss + length scs)%nat /\
                     Forall (zero_ok og) pre /\ s_prob last = 1%Q /\ tmo_ok og last
  | LDone ss' os' => Forall (zero_ok og) ss' /\ os_ok os'
  end.
Proof.
  intros Ho Hm. induction scs as [|sc scs IH]; intros lst rib ss os Hss Hos; [cbn; auto|].
  destruct lst as [|p lst]; [cbn; auto|].
  cbn [strat_loop].
  pose proof (classify_fails (exec_params c sc largest med og) (pe p)) as Hf.
  destruct (classify _ (pe p)) as [ts f]. cbn [snd] in Hf.
  destruct ((f =? 0) && is_nil ts && rib) eqn:E.
  - exists ss, (mkStrat 1 true 0). cbn [length s_prob]. repeat split; auto; cbn [s_tmo]; try lia.
  - match goal with |- context [strat_loop _ _ _ _ _ _ ?r ?s ?o] => specialize (IH lst r s o) end.
    match type of IH with ?A -> ?B -> _ =>
      assert (HA : A); [|assert (HB : B); [|specialize (IH HA HB)]] end.
    + apply Forall_app. split; [exact Hss|]. constructor; [|constructor].
      destruct (if (f =? 0) && is_nil ts then rib else zlen ts <? f); split; unfold tmo_ok; cbn [s_prob s_tmo];
        try reflexivity; try lia.
      apply exec_params_tmo; assumption.
    + apply Forall_app. split; [exact Hos|]. constructor; [cbn; lia|constructor].
    + destruct (strat_loop _ _ _ _ _ _ _ _ _).
      * destruct IH as (pre & last & -> & Hl & Hr). exists pre, last. rewrite app_length in Hl.
        cbn [length] in *. split; [reflexivity|]. split; [lia|exact Hr].
      * exact IH.
Qed.

(* ---- the main branch ------------------------------------------------------------------- *)
Lemma probs_of_combine : forall (a : list strategy) (b : list Q),
  map s_prob (map (fun sq => mkStrat (snd sq) (s_bg (fst sq)) (s_tmo (fst sq))) (combine a b))
  = firstn (length a) b.
Proof.
  induction a as [|x a IH]; intros b; [reflexivity|].
  destruct b as [|y b]; [reflexivity|]. cbn [combine map length firstn fst snd s_prob]. f_equal. apply IH.
Qed.

Lemma tmo_of_combine og : forall (a : list strategy) (b : list Q), Forall (tmo_ok og) a ->
  Forall (tmo_ok og) (map (fun sq => mkStrat (snd sq) (s_bg (fst sq)) (s_tmo (fst sq))) (combine a b)).
Proof.
  induction a as [|x a IH]; intros b Ha; [constructor|].
  destruct b as [|y b]; [constructor|]. inversion Ha; subst.
  cbn [combine map fst snd]. constructor; [assumption|apply IH; assumption].
Qed.

Lemma Forall_firstn {A} (P : A -> Prop) k l : Forall P l -> Forall P (firstn k l).
Proof.
  intros H. rewrite <- (firstn_skipn k l) in H. apply Forall_app in H. tauto.
Qed.

Lemma main_branch_wf n og a v dv k :
  simplex n (v, dv) -> Forall (tmo_ok og) a ->
  wf_strategies k og
    (firstn k (map (fun sq => mkStrat (snd sq) (s_bg (fst sq)) (s_tmo (fst sq)))
                   (combine a (map (to_prob dv) v)))).
Proof.
  intros (Hn & Hs & Hl & Hp) Ha. cbn [fst snd] in *.
  set (res := firstn k _).
  assert (Hprobs : map s_prob res = map (to_prob dv) (firstn (Nat.min k (length a)) v)).
  { unfold res. rewrite <- firstn_map, probs_of_combine, firstn_firstn, firstn_map. reflexivity. }
  assert (Hpre : Forall (fun x => 0 <= x <= dv) (firstn (Nat.min k (length a)) v)).
  { apply Forall_firstn. apply Forall_forall. intros x Hx. rewrite Forall_forall in Hn.
    split; [apply Hn, Hx|]. rewrite <- Hs. apply le_zsum_of_in; [apply Forall_forall; exact Hn|exact Hx]. }
  unfold wf_strategies. repeat split.
  - unfold res. rewrite firstn_length. lia.
  - assert (Forall (fun q => (0 <= q <= 1)%Q) (map s_prob res)) as H.
    { rewrite Hprobs. apply Forall_forall. intros q Hq. apply in_map_iff in Hq as [x [<- Hx]].
      rewrite Forall_forall in Hpre. apply to_prob_range; [exact Hp|apply Hpre, Hx]. }
    apply Forall_forall. intros s Hsn. rewrite Forall_forall in H. apply H. apply in_map, Hsn.
  - rewrite Hprobs, qsum_to_prob by exact Hp. apply to_prob_le1; [exact Hp|].
    rewrite <- Hs. apply zsum_firstn_le, Hn.
  - unfold res. apply Forall_firstn, tmo_of_combine, Ha.
Qed.

Lemma first_empty_bound l : forall i j, first_empty i l = Some j -> (i <= j < i + length l)%nat.
Proof.
  induction l as [|p l IH]; intros i j H; [discriminate|].
  cbn [first_empty] in H. destruct (is_nil (pe p)).
  - injection H as <-. cbn. lia.
  - apply IH in H. cbn [length]. lia.
Qed.

Lemma repeat_zero_ok og k : 0 <= og -> Forall (zero_ok og) (repeat zero_strat k).
Proof.
  intros Ho. apply Forall_forall. intros s Hs. apply repeat_spec in Hs. subst s.
  split; [reflexivity|]. unfold tmo_ok. cbn. lia.
Qed.

Lemma removelast_length {A} (l : list A) : length (removelast l) = (length l - 1)%nat.
Proof.
  induction l as [|x l IH]; [reflexivity|]. destruct l as [|y l]; [reflexivity|].
  cbn [removelast length] in *. rewrite IH. lia.
Qed.

(* probabilities_in_range + timeout_in_range + at most n strategies, for
   every stored message, size-class list and configuration with a
   non-negative minimum timeout *)
Theorem get_strategies_wf c m scs og : 0 <= og -> 0 <= pr_min c ->
  wf_strategies (length scs) og (fst (get_strategies c m scs og)).
Proof.
  intros Ho Hm. unfold get_strategies.
  set (n := length scs). destruct (n <=? 1)%nat eqn:En.
  - cbn [fst]. unfold wf_strategies. cbn. repeat split; try lia; try constructor. discriminate.
  - apply Nat.leb_gt in En.
    set (m1 := ensure scs m). set (lst := map (fun sc => m_get_d sc m1) scs).
    assert (Hlst : length lst = n) by (unfold lst; now rewrite map_length).
    destruct (median _) as [med|].
    + pose proof (strat_loop_props c (last scs 0%N) med og Ho Hm (removelast scs) lst true [] []
                    ltac:(constructor) ltac:(constructor)) as Hloop.
      destruct (strat_loop _ _ _ _ _ _ _ _ _) as [ss|ss os].
      * cbn [fst]. destruct Hloop as (pre & last & -> & Hl & Hr). destruct Hr as (H1 & H2 & H3).
        apply forced_choice_wf; auto. rewrite removelast_length in Hl. cbn [length] in Hl. fold n in Hl. lia.
      * destruct Hloop as [Hss Hos].
        set (os' := os ++ [outcomes_of_prev _]).
        assert (Hos' : os_ok os').
        { apply Forall_app. split; [exact Hos|]. constructor; [cbn; lia|constructor]. }
        set (ps := map (fun p => restore (iprp p)) (tl lst)).
        assert (Hps : probs_nonneg ps).
        { apply Forall_forall. intros q Hq. apply in_map_iff in Hq as [p [<- _]]. apply restore_nonneg. }
        assert (Hpl : S (length ps) = n).
        { unfold ps. rewrite map_length. destruct lst; cbn [tl length] in *; lia. }
        pose proof (start_vector_simplex ps Hps) as Hst. rewrite Hpl in Hst.
        destruct (start_vector ps) as [v0 dv0].
        pose proof (power_iter_simplex (matrix os' n) (mden os' n) n (pr_err c)
                      (matrix_rows_ok os' n Hos') (matrix_length os' n) (mden_pos os' n Hos' ltac:(lia))
                      pr_fuel v0 dv0 Hst) as Hfin.
        destruct (power_iter _ _ _ _ _ _ _) as [v dv]. cbn [fst].
        assert (wf_strategies (n - 1) og
                  (firstn (n - 1) (map (fun sq => mkStrat (snd sq) (s_bg (fst sq)) (s_tmo (fst sq)))
                     (combine (ss ++ [zero_strat]) (map (to_prob dv) v))))) as (W1 & W2 & W3 & W4).
        { eapply main_branch_wf; [exact Hfin|]. apply Forall_app. split.
          - eapply Forall_impl; [|exact Hss]. intros s [_ Hs]. exact Hs.
          - constructor; [unfold tmo_ok; cbn; lia|constructor]. }
        unfold wf_strategies. repeat split; auto. lia.
    + destruct (first_empty 0 (removelast lst)) as [i|] eqn:Ef; cbn [fst].
      * apply first_empty_bound in Ef. rewrite removelast_length, Hlst in Ef.
        apply forced_choice_wf; [rewrite repeat_length; lia|apply repeat_zero_ok, Ho|reflexivity|].
        unfold tmo_ok. cbn [s_tmo]. lia.
      * apply forced_choice_wf; [rewrite repeat_length; lia|apply repeat_zero_ok, Ho|reflexivity|].
        unfold tmo_ok. cbn [s_tmo]. lia.
Qed.

Lemma smallest_wf scs og : 0 <= og -> wf_strategies (length scs) og (smallest_strategies scs og).
Proof.
  intros Ho. unfold smallest_strategies. destruct (length scs <=? 1)%nat eqn:E.
  - unfold wf_strategies. cbn. repeat split; try lia; try constructor. discriminate.
  - apply Nat.leb_gt in E. apply (forced_choice_wf (length scs) og [] (mkStrat 1 false og));
      [cbn; lia|constructor|reflexivity|unfold tmo_ok; cbn; lia].
Qed.

(* ---- what GetStrategies does to the message --------------------------------------------- *)
(* every entry afterwards is empty or has the executions of an entry with the
   same key before *)
Definition pe_from (pre post : smap) : Prop :=
  forall k p, In (k, p) post -> pe p = [] \/ exists p0, In (k, p0) pre /\ pe p = pe p0.

Lemma pe_from_refl m : pe_from m m.
Proof. intros k p H. right. exists p. auto. Qed.

Lemma pe_from_trans a b c : pe_from a b -> pe_from b c -> pe_from a c.
Proof.
  intros H1 H2 k p H. destruct (H2 k p H) as [He|(p0 & Hin & He)]; [now left|].
  destruct (H1 k p0 Hin) as [He0|(p1 & Hin1 & He1)]; [left; congruence|].
  right. exists p1. split; [assumption|congruence].
Qed.

Lemma m_get_in k m p : m_get k m = Some p -> In (k, p) m.
Proof.
  induction m as [|[k' v] m IH]; [discriminate|]. cbn [m_get].
  destruct (k =? k')%N eqn:E.
  - intros [= ->]. apply N.eqb_eq in E. subst. now left.
  - intros H. right. apply IH, H.
Qed.

Lemma in_m_replace k v m k' p' : In (k', p') (m_replace k v m) -> (k', p') = (k, v) \/ In (k', p') m.
Proof.
  induction m as [|[k0 v0] m IH]; [intros []|]. cbn [m_replace].
  destruct (k =? k0)%N.
  - intros [H|H]; [left; congruence|right; now right].
  - intros [H|H]; [right; now left|]. destruct (IH H); [now left|right; now right].
Qed.

Lemma in_m_insert k v m k' p' : In (k', p') (m_insert k v m) -> (k', p') = (k, v) \/ In (k', p') m.
Proof.
  induction m as [|[k0 v0] m IH]; [intros [H|[]]; left; congruence|]. cbn [m_insert].
  destruct (k <? k0)%N.
  - intros [H|H]; [left; congruence|now right].
  - intros [H|H]; [right; now left|]. destruct (IH H); [now left|right; now right].
Qed.

Lemma in_m_set k v m k' p' : In (k', p') (m_set k v m) -> (k', p') = (k, v) \/ In (k', p') m.
Proof. unfold m_set. destruct (m_get k m); [apply in_m_replace|apply in_m_insert]. Qed.

Lemma ensure_pe_from scs : forall m, pe_from m (ensure scs m).
Proof.
  unfold ensure. induction scs as [|sc scs IH]; intros m; [apply pe_from_refl|].
  cbn [fold_left]. destruct (m_get sc m) eqn:E; [apply IH|].
  eapply pe_from_trans; [|apply IH]. intros k p H. apply in_m_set in H as [[= -> ->]|H].
  - now left.
  - right. exists p. auto.
Qed.

Lemma set_iprp_pe_from scs ps m : pe_from m (set_iprp scs ps m).
Proof.
  unfold set_iprp.
  set (m0 := map _ m).
  assert (H0 : pe_from m m0).
  { intros k p H. unfold m0 in H. apply in_map_iff in H as [[k0 p0] [[= <- <-] Hin]].
    right. exists p0. cbn. auto. }
  eapply pe_from_trans; [exact H0|]. clear H0. generalize (combine scs ps) m0. clear.
  induction l as [|[sc q] l IH]; intros m; [apply pe_from_refl|].
  cbn [fold_left fst snd]. destruct (m_get sc m) as [p|] eqn:E; [|apply IH].
  eapply pe_from_trans; [|apply IH]. intros k p' H. apply in_m_set in H as [[= -> ->]|H].
  - right. exists p. split; [apply m_get_in, E|reflexivity].
  - right. exists p'. auto.
Qed.

Lemma get_strategies_pe_from c m scs og : pe_from m (snd (get_strategies c m scs og)).
Proof.
  unfold get_strategies. destruct (_ <=? 1)%nat; [apply pe_from_refl|].
  destruct (median _).
  - destruct (strat_loop _ _ _ _ _ _ _ _ _); [apply ensure_pe_from|].
    destruct (start_vector _). destruct (power_iter _ _ _ _ _ _ _). cbn [snd].
    eapply pe_from_trans; [apply ensure_pe_from|apply set_iprp_pe_from].
  - destruct (first_empty _ _); apply ensure_pe_from.
Qed.
