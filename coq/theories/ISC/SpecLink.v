(* The decidable predicates of Spec.v that Corr.v evaluates on the
   implementation's outputs hold of the model's outputs (for every
   tolerance eps >= 0), plus witnesses: the unrepaired start vector leaves the
   simplex, non-vacuity examples. *)
From Coq Require Import List ZArith NArith QArith Bool String Lia.
From VF Require Import ISC.Outcomes ISC.OutcomesProofs ISC.PageRank ISC.PageRankProofs
  ISC.StrategiesProofs ISC.Model ISC.Spec ISC.MapProofs ISC.Proofs.
Import ListNotations.
Local Open Scope Z_scope.

Lemma strategies_ok_of_wf eps n og ss : (0 <= eps)%Q -> wf_strategies n og ss ->
  strategies_ok eps n og ss = EmptyString.
Proof.
  intros He (W1 & W2 & W3 & W4). unfold strategies_ok. apply first_fail_ok.
  repeat apply all_true_cons; try constructor; cbn [fst].
  - apply Nat.leb_le, W1.
  - apply forallb_forall. intros s Hs. rewrite Forall_forall in W2. destruct (W2 s Hs) as [H0 H1].
    apply andb_true_intro. split; apply Qle_bool_iff.
    + apply Qle_trans with 0%Q; [|exact H0]. apply (Qopp_le_compat 0 eps) in He. exact He.
    + apply Qle_trans with 1%Q; [exact H1|]. rewrite <- (Qplus_0_r 1) at 1. apply Qplus_le_r, He.
  - apply Qle_bool_iff. change (Spec.qsum (map s_prob ss)) with (PageRankProofs.qsum (map s_prob ss)).
    apply Qle_trans with 1%Q; [exact W3|]. rewrite <- (Qplus_0_r 1) at 1. apply Qplus_le_r, He.
  - apply forallb_forall. intros s Hs. rewrite Forall_forall in W4. apply in_range_true, W4, Hs.
Qed.

Lemma bg_ok_of_range og t : 0 <= t <= og -> bg_ok og (Some t) = EmptyString.
Proof. intros H. unfold bg_ok. now rewrite in_range_true. Qed.

(* IsFaster as a rational *)
Definition is_faster_q (a b : outcomes) : Q := Qmake (is_faster_score a b) (Z.to_pos (is_faster_den a b)).

Lemma faster_ok_model eps a b : (0 <= eps)%Q -> 0 <= fails a -> 0 <= fails b ->
  faster_ok eps (is_faster_q a b) (is_faster_q b a) = EmptyString.
Proof.
  intros He Ha Hb.
  pose proof (is_faster_open_l a b Ha Hb) as Hab. pose proof (is_faster_open_l b a Hb Ha) as Hba.
  pose proof (is_faster_antisym_l a b) as Hsum. pose proof (den_sym a b) as Hden.
  unfold faster_ok, is_faster_q. apply first_fail_ok.
  assert (Hlt : forall s d, 0 < s < d -> qltb 0 (Qmake s (Z.to_pos d)) = true /\ qltb (Qmake s (Z.to_pos d)) 1 = true).
  { intros s d H. unfold qltb, Qle_bool. cbn [Qnum Qden]. rewrite Z2Pos.id by lia.
    split; apply negb_true_iff, Z.leb_gt; lia. }
  destruct (Hlt _ _ Hab) as [A1 A2]. destruct (Hlt _ _ Hba) as [B1 B2].
  assert (Hone : (Qmake (is_faster_score a b) (Z.to_pos (is_faster_den a b))
                  + Qmake (is_faster_score b a) (Z.to_pos (is_faster_den b a)) == 1)%Q).
  { rewrite <- Hden. rewrite Qinv_plus_distr. unfold Qeq. cbn [Qnum Qden]. rewrite Z2Pos.id by lia. lia. }
  repeat apply all_true_cons; try constructor; cbn [fst].
  - now rewrite A1, A2, B1, B2.
  - apply andb_true_intro. split; apply Qle_bool_iff; rewrite Hone.
    + rewrite <- (Qplus_0_r 1) at 2. unfold Qminus. apply Qplus_le_r.
      apply (Qopp_le_compat 0 eps) in He. exact He.
    + rewrite <- (Qplus_0_r 1) at 1. apply Qplus_le_r, He.
Qed.

(* ---- the unrepaired start vector (DESIGN §6 F10) ----------------------------------------------- *)
(* stored probabilities 9/10 and 9/10 for classes 1 and 2 of three: the first
   entry of the start vector is negative *)
Lemma start_unclamped_refuted :
  exists ps, probs_nonneg ps /\ Forall (fun q => (0 < q)%Q /\ (q < 1)%Q) ps /\
             ~ simplex (S (List.length ps)) (start_vector_unclamped ps).
Proof.
  exists [(9 # 10)%Q; (9 # 10)%Q]. split; [|split].
  - repeat constructor; cbn; lia.
  - repeat constructor.
  - intros (H & _). cbn in H. inversion H; subst. lia.
Qed.

(* ---- non-vacuity --------------------------------------------------------------------------------- *)
Definition ex_cfg : cfg :=
  mkCfg false (CPageRank (mkPr 1 (3 # 2)%Q (1 # 100)%Q [(1%N, 8%N, 4%Q)])) 3 0 10 100.
Definition ex_stats : stats :=
  mkStats [(1%N, mkPscs [OSucceeded 4; OFailed] 0%Q); (8%N, mkPscs [OSucceeded 2] 0%Q)] None.
Definition ex_ops : list op :=
  [ OpSelect (TVal 50) [1%N; 8%N] 1000 (1 # 10)%Q [];
    OpFailed true 1001;
    OpSucceeded 3 [1%N; 8%N] 0 ].

(* a session that picks the smaller class, fails there, is retried on the
   largest and releases the handle dirty *)
Example ex_run :
  map (fun x => (o_out (snd x), o_rels (snd x))) (run ex_cfg (init_sess ex_stats) ex_ops)
  = [ (OutChoice 0 4 12 true, []); (OutRetry 2 50 true, []); (OutChoice 0 0 0 false, [true]) ].
Proof. vm_compute. reflexivity. Qed.

Example ex_hypotheses : cfg_ok ex_cfg /\ smap_nonneg (st_sc ex_stats) /\ ops_ok ex_cfg (init_sess ex_stats) ex_ops.
Proof.
  split; [|split].
  - repeat split; cbn; lia.
  - intros k p [H|[H|[]]]; injection H as <- <-; repeat constructor; cbn; lia.
  - cbn. repeat split; try discriminate; try lia.
Qed.

(* the power iteration is reached and returns a proper probability *)
Example ex_strategies :
  map (fun s => (Qred (s_prob s), s_bg s, s_tmo s))
      (fst (get_strategies (mkPr 1 (3 # 2)%Q (1 # 100)%Q [(1%N, 8%N, 4%Q)]) (st_sc ex_stats) [1%N; 8%N] 50))
  = [ ((4 # 9)%Q, false, 12) ].
Proof. vm_compute. reflexivity. Qed.

(* ---- projections of get_strategies_wf, stated separately ------------------------------------------- *)
Lemma probabilities_in_range_l c m scs og : 0 <= og -> 0 <= pr_min c ->
  Forall (fun s => (0 <= s_prob s <= 1)%Q) (fst (get_strategies c m scs og)) /\
  (PageRankProofs.qsum (map s_prob (fst (get_strategies c m scs og))) <= 1)%Q.
Proof. intros Ho Hm. destruct (get_strategies_wf c m scs og Ho Hm) as (_ & W2 & W3 & _). split; assumption. Qed.

Lemma timeout_in_range_l c m scs og : 0 <= og -> 0 <= pr_min c ->
  Forall (fun s => 0 <= s_tmo s <= og) (fst (get_strategies c m scs og)) /\
  (forall m' scs' i t, bg_timeout c m' scs' i og = Some t -> 0 <= t <= og).
Proof.
  intros Ho Hm. destruct (get_strategies_wf c m scs og Ho Hm) as (_ & _ & _ & W4). split; [exact W4|].
  intros. eapply bg_timeout_range; eassumption.
Qed.

Lemma strategies_monitor_l eps c m scs og : (0 <= eps)%Q -> 0 <= og -> 0 <= pr_min c ->
  strategies_ok eps (List.length scs) og (fst (get_strategies c m scs og)) = EmptyString.
Proof. intros He Ho Hm. apply strategies_ok_of_wf; [exact He|apply get_strategies_wf; assumption]. Qed.
