(* Proofs about Outcomes.IsFaster (model: ISC/Outcomes.v). *)
From Coq Require Import List ZArith Bool Lia.
From VF Require Import ISC.Outcomes.
Import ListNotations.
Local Open Scope Z_scope.

Lemma take_eq_length c l k r : take_eq c l = (k, r) -> length l = (k + length r)%nat.
Proof.
  revert k r. induction l as [|x l IH]; cbn [take_eq]; intros k r H.
  - injection H as <- <-. reflexivity.
  - destruct (x =? c).
    + destruct (take_eq c l) as [k' r'] eqn:E. injection H as <- <-.
      cbn [length]. rewrite (IH _ _ eq_refl). lia.
    + injection H as <- <-. reflexivity.
Qed.

Lemma take_eq_head a l k r : take_eq a (a :: l) = (k, r) -> (1 <= k)%nat.
Proof.
  cbn [take_eq]. rewrite Z.eqb_refl. destruct (take_eq a l). intros H. injection H as <- _. lia.
Qed.

(* ---- the two mirrored runs proceed in lockstep ---------------------------- *)
Definition mirrored (s1 s2 : mstate) : Prop :=
  m_sa s2 = m_sb s1 /\ m_sb s2 = m_sa s1 /\ m_ra s2 = m_rb s1 /\ m_rb s2 = m_ra s1.
Definition total (s1 s2 : mstate) : Z := m_score s1 + m_score s2 + 2 * m_ra s1 * m_rb s1.

Lemma loop_sym fuel : forall s1 s2, mirrored s1 s2 ->
  mirrored (merge_loop fuel s1) (merge_loop fuel s2) /\
  total (merge_loop fuel s1) (merge_loop fuel s2) = total s1 s2.
Proof.
  induction fuel as [|f IH]; intros s1 s2 Hm; [split; auto|].
  destruct s1 as [sc1 sa sb ra rb]. destruct s2 as [sc2 sa2 sb2 ra2 rb2].
  destruct Hm as (H1 & H2 & H3 & H4). cbn in H1, H2, H3, H4. subst sa2 sb2 ra2 rb2.
  cbn [merge_loop m_sa m_sb m_ra m_rb m_score].
  destruct sa as [|a ra']; destruct sb as [|b rb'].
  - split; [repeat split|reflexivity].
  - split; [repeat split|reflexivity].
  - split; [repeat split|reflexivity].
  - destruct (a <? b) eqn:Eab.
    + assert (b <? a = false) as -> by lia.
      match goal with |- context [merge_loop f ?x] =>
        match goal with |- context [total _ (merge_loop f ?y)] =>
          destruct (IH x y) as [Hm' Ht]; [repeat split|] end end.
      split; [exact Hm'|]. rewrite Ht. unfold total. cbn [m_score m_ra m_rb]. ring.
    + destruct (b <? a) eqn:Eba.
      * match goal with |- context [merge_loop f ?x] =>
          match goal with |- context [total _ (merge_loop f ?y)] =>
            destruct (IH x y) as [Hm' Ht]; [repeat split|] end end.
        split; [exact Hm'|]. rewrite Ht. unfold total. cbn [m_score m_ra m_rb]. ring.
      * assert (a = b) as -> by lia.
        destruct (take_eq b (b :: ra')) as [ea xa] eqn:Ea.
        destruct (take_eq b (b :: rb')) as [eb xb] eqn:Eb.
        match goal with |- context [merge_loop f ?x] =>
          match goal with |- context [total _ (merge_loop f ?y)] =>
            destruct (IH x y) as [Hm' Ht]; [repeat split|] end end.
        split; [exact Hm'|]. rewrite Ht. unfold total. cbn [m_score m_ra m_rb]. ring.
Qed.

(* ---- invariants of one run -------------------------------------------------- *)
Lemma loop_inv fa fb fuel : forall s,
  m_ra s = zlen (m_sa s) + fa -> m_rb s = zlen (m_sb s) + fb ->
  (length (m_sa s) + length (m_sb s) <= fuel)%nat ->
  let t := merge_loop fuel s in
  m_ra t = zlen (m_sa t) + fa /\ m_rb t = zlen (m_sb t) + fb /\ (m_sa t = [] \/ m_sb t = []).
Proof.
  induction fuel as [|f IH]; intros s Ha Hb Hf.
  - cbn. split; [exact Ha|split; [exact Hb|]].
    destruct (m_sa s); [now left|]. cbn in Hf. lia.
  - destruct s as [sc sa sb ra rb]. cbn [m_sa m_sb m_ra m_rb] in *.
    cbn [merge_loop m_sa m_sb m_ra m_rb m_score].
    destruct sa as [|a ra']; [cbn; auto|]. destruct sb as [|b rb']; [cbn; auto|].
    unfold zlen in *. cbn [length] in *.
    destruct (a <? b).
    + apply IH; cbn [m_sa m_sb m_ra m_rb length]; lia.
    + destruct (b <? a).
      * apply IH; cbn [m_sa m_sb m_ra m_rb length]; lia.
      * destruct (take_eq a (a :: ra')) as [ea xa] eqn:Ea.
        destruct (take_eq a (b :: rb')) as [eb xb] eqn:Eb.
        pose proof (take_eq_length _ _ _ _ Ea) as La. pose proof (take_eq_head _ _ _ _ Ea) as Ha1.
        pose proof (take_eq_length _ _ _ _ Eb) as Lb. cbn [length] in La, Lb.
        apply IH; cbn [m_sa m_sb m_ra m_rb]; lia.
Qed.

Lemma loop_mono fa fb fuel : forall s, 0 <= fb ->
  m_ra s = zlen (m_sa s) + fa -> m_rb s = zlen (m_sb s) + fb ->
  m_score s <= m_score (merge_loop fuel s).
Proof.
  induction fuel as [|f IH]; intros s Hfb Ha Hb; [cbn; lia|].
  destruct s as [sc sa sb ra rb]. cbn [m_sa m_sb m_ra m_rb m_score] in *.
  cbn [merge_loop m_sa m_sb m_ra m_rb m_score].
  destruct sa as [|a ra']; [cbn; lia|]. destruct sb as [|b rb']; [cbn; lia|].
  unfold zlen in *. cbn [length] in *.
  destruct (a <? b).
  - etransitivity; [|apply IH; cbn [m_sa m_sb m_ra m_rb length]; lia]. cbn [m_score]. lia.
  - destruct (b <? a).
    + etransitivity; [|apply IH; cbn [m_sa m_sb m_ra m_rb length]; lia]. cbn [m_score]. lia.
    + destruct (take_eq a (a :: ra')) as [ea xa] eqn:Ea.
      destruct (take_eq a (b :: rb')) as [eb xb] eqn:Eb.
      pose proof (take_eq_length _ _ _ _ Ea) as La.
      pose proof (take_eq_length _ _ _ _ Eb) as Lb. cbn [length] in La, Lb.
      etransitivity; [|apply IH; cbn [m_sa m_sb m_ra m_rb]; lia]. cbn [m_score].
      assert (0 <= Z.of_nat ea * (2 * rb - Z.of_nat eb)) by (apply Z.mul_nonneg_nonneg; lia).
      lia.
Qed.

(* ---- the theorems ----------------------------------------------------------- *)
Lemma den_sym a b : is_faster_den a b = is_faster_den b a.
Proof. unfold is_faster_den. ring. Qed.

Lemma is_faster_antisym_l a b :
  is_faster_score a b + is_faster_score b a = is_faster_den a b.
Proof.
  unfold is_faster_score, is_faster_den.
  set (s1 := mkM (1 + count b) (succs a) (succs b) (count a) (count b)).
  set (s2 := mkM (1 + count a) (succs b) (succs a) (count b) (count a)).
  assert (Hm : mirrored s1 s2) by (repeat split).
  replace (length (succs b) + length (succs a))%nat with (length (succs a) + length (succs b))%nat by lia.
  set (fuel := (length (succs a) + length (succs b))%nat).
  destruct (loop_sym fuel s1 s2 Hm) as [(M1 & M2 & M3 & M4) Ht].
  destruct (loop_inv (fails a) (fails b) fuel s1) as (I1 & I2 & I3);
    [reflexivity|reflexivity|subst fuel s1; cbn; lia|].
  rewrite M1, M4. unfold total in Ht.
  set (t1 := merge_loop fuel s1) in *. set (t2 := merge_loop fuel s2) in *.
  cbn [m_score m_ra m_rb s1 s2] in Ht.
  change (m_score s1) with (1 + count b) in Ht. change (m_score s2) with (1 + count a) in Ht.
  change (m_ra s1) with (count a) in Ht. change (m_rb s1) with (count b) in Ht.
  assert (Hz : zlen (m_sa t1) * zlen (m_sb t1) = 0).
  { destruct I3 as [-> | ->]; unfold zlen; cbn; lia. }
  rewrite I1, I2 in Ht. rewrite I1, I2.
  set (la := zlen (m_sa t1)) in *. set (lb := zlen (m_sb t1)) in *.
  assert (2 * (la + fails a) * (lb + fails b)
          = 2 * (la * lb) + 2 * la * fails b + 2 * fails a * lb + 2 * fails a * fails b) as E by ring.
  rewrite E, Hz in Ht.
  assert (2 * la * (lb + fails b) = 2 * (la * lb) + 2 * la * fails b) as -> by ring.
  assert (2 * lb * (la + fails a) = 2 * (la * lb) + 2 * lb * fails a) as -> by ring.
  rewrite Hz. lia.
Qed.

Lemma count_nonneg o : 0 <= fails o -> 0 <= count o.
Proof. unfold count, zlen. lia. Qed.

Lemma is_faster_score_pos a b : 0 <= fails a -> 0 <= fails b -> 1 + count b <= is_faster_score a b.
Proof.
  intros Ha Hb. unfold is_faster_score.
  set (s1 := mkM (1 + count b) (succs a) (succs b) (count a) (count b)).
  set (fuel := (length (succs a) + length (succs b))%nat).
  pose proof (loop_mono (fails a) (fails b) fuel s1 Hb eq_refl eq_refl) as Hm.
  destruct (loop_inv (fails a) (fails b) fuel s1) as (I1 & I2 & I3);
    [reflexivity|reflexivity|subst fuel s1; cbn; lia|].
  cbn [m_score] in Hm. rewrite I2.
  assert (0 <= 2 * zlen (m_sa (merge_loop fuel s1)) * (zlen (m_sb (merge_loop fuel s1)) + fails b)).
  { apply Z.mul_nonneg_nonneg; unfold zlen; lia. }
  assert (0 <= fails a * fails b) by (apply Z.mul_nonneg_nonneg; lia).
  subst s1. cbn [m_score] in Hm. lia.
Qed.

Lemma is_faster_open_l a b : 0 <= fails a -> 0 <= fails b ->
  0 < is_faster_score a b < is_faster_den a b.
Proof.
  intros Ha Hb.
  pose proof (is_faster_score_pos a b Ha Hb). pose proof (is_faster_score_pos b a Hb Ha).
  pose proof (is_faster_antisym_l a b). pose proof (count_nonneg a Ha). pose proof (count_nonneg b Hb).
  lia.
Qed.

Lemma is_faster_den_pos a b : 0 <= fails a -> 0 <= fails b -> 0 < is_faster_den a b.
Proof. intros Ha Hb. pose proof (is_faster_open_l a b Ha Hb). lia. Qed.
