(* C07 (ISC part: size-class analyzers, strategy calculators, Outcomes) —
   the property theorems, and nothing else.  Models: Outcomes.v, PageRank.v,
   Model.v; predicates evaluated on the implementation: Spec.v. *)
From Coq Require Import List ZArith NArith QArith Bool String.
From VF Require Import ISC.Outcomes ISC.OutcomesProofs ISC.PageRank ISC.PageRankProofs
  ISC.StrategiesProofs ISC.Model ISC.Spec ISC.MapProofs ISC.Proofs ISC.ProtocolProofs ISC.SpecLink.
Import ListNotations.
Local Open Scope Z_scope.

(* ================= Outcomes.IsFaster (score / denominator) ================= *)

(* strictly inside (0,1) for all outcome sets (any lists, sorted or not) *)
Theorem is_faster_open : forall a b, 0 <= fails a -> 0 <= fails b ->
  0 < is_faster_score a b < is_faster_den a b.
Proof. exact is_faster_open_l. Qed.
Print Assumptions is_faster_open.

(* x.IsFaster(y) + y.IsFaster(x) = 1: the scores add up to the (symmetric) denominator *)
Theorem is_faster_antisym : forall a b,
  is_faster_score a b + is_faster_score b a = is_faster_den a b.
Proof. exact is_faster_antisym_l. Qed.
Print Assumptions is_faster_antisym.

Theorem is_faster_den_symmetric : forall a b, is_faster_den a b = is_faster_den b a.
Proof. exact den_sym. Qed.
Print Assumptions is_faster_den_symmetric.

(* the predicate Corr.v evaluates on the two float results holds of the model, for every tolerance *)
Theorem is_faster_monitor : forall eps a b, (0 <= eps)%Q -> 0 <= fails a -> 0 <= fails b ->
  faster_ok eps (is_faster_q a b) (is_faster_q b a) = EmptyString.
Proof. exact faster_ok_model. Qed.
Print Assumptions is_faster_monitor.

(* ================= page-rank strategy calculator (exact arithmetic) ================= *)

(* The code builds m[i] (i = 0..n-1) and its power iteration ranges over them
   as "column": new[j] += p[i] * m[i][j].  Every m[i] has non-negative entries
   that sum to one (numerators over the common denominator mden) and length
   n — i.e. the matrix whose COLUMNS are the m[i] is left (column) stochastic,
   for all outcome sets with non-negative failure counts and every n. *)
Theorem matrix_column_stochastic : forall os n, os_ok os ->
  Forall (row_ok (mden os n) n) (matrix os n).
Proof. exact matrix_rows_ok. Qed.
Print Assumptions matrix_column_stochastic.

(* One multiplication, and hence ANY number k of iterations, keeps every entry
   non-negative and the sum equal to the denominator (entries in [0,1], sum 1):
   independent of the float convergence test. *)
Theorem iterate_preserves_simplex : forall m d n,
  Forall (row_ok d n) m -> List.length m = n -> 0 < d ->
  forall k v dv, simplex n (v, dv) -> simplex n (iterate k m d n v dv).
Proof. exact iterate_simplex. Qed.
Print Assumptions iterate_preserves_simplex.

(* The loop with its convergence test returns one of these iterates ... *)
Theorem power_iteration_returns_an_iterate : forall m d n err fuel v dv,
  exists k, power_iter fuel m d n err v dv = iterate k m d n v dv.
Proof. exact power_iter_is_iterate. Qed.
Print Assumptions power_iteration_returns_an_iterate.

(* ... so whatever the test decides, its result is in the simplex. *)
Theorem power_iteration_in_simplex : forall m d n err,
  Forall (row_ok d n) m -> List.length m = n -> 0 < d ->
  forall fuel v dv, simplex n (v, dv) -> simplex n (power_iter fuel m d n err v dv).
Proof. exact power_iter_simplex. Qed.
Print Assumptions power_iteration_in_simplex.

(* Start vector.  As the code computed it before the fix
   (strategies[0].Probability = 1 - sum, DESIGN §6 F10) it is in the simplex
   exactly if the (non-negative) probabilities of classes 1..n-1 sum to at most
   1 — in scaled form: sum of numerators <= common denominator ... *)
Theorem unrepaired_start_vector_in_simplex_iff : forall ps, probs_nonneg ps ->
  (simplex (S (List.length ps)) (start_vector_unclamped ps)
   <-> zsum (fst (scaled ps)) <= snd (scaled ps)).
Proof. exact start_unclamped_simplex_iff. Qed.
Print Assumptions unrepaired_start_vector_in_simplex_iff.

(* (the scaled inequality is "the probabilities sum to at most 1" in Q) *)
Theorem scaled_hypothesis_is_sum_le_1 : forall ps,
  zsum (fst (scaled ps)) <= snd (scaled ps) <-> (PageRankProofs.qsum ps <= 1)%Q.
Proof. exact scaled_le_iff_qsum_le_1. Qed.
Print Assumptions scaled_hypothesis_is_sum_le_1.

(* ... and stored values strictly inside (0,1) (which the code restores) can
   violate that: witness 9/10, 9/10. *)
Theorem unrepaired_start_vector_refuted :
  exists ps, probs_nonneg ps /\ Forall (fun q => (0 < q)%Q /\ (q < 1)%Q) ps /\
             ~ simplex (S (List.length ps)) (start_vector_unclamped ps).
Proof. exact start_unclamped_refuted. Qed.
Print Assumptions unrepaired_start_vector_refuted.

(* The start vector of the current code is in the simplex for ALL stored
   probabilities. *)
Theorem start_vector_in_simplex : forall ps, probs_nonneg ps ->
  simplex (S (List.length ps)) (start_vector ps).
Proof. exact start_vector_simplex. Qed.
Print Assumptions start_vector_in_simplex.

Theorem restored_probability_nonneg : forall q, 0 <= Qnum (restore q).
Proof. exact restore_nonneg. Qed.
Print Assumptions restored_probability_nonneg.

(* GetStrategies, for every stored message, size-class list, original timeout
   >= 0 and configuration with minimum timeout >= 0: each probability in
   [0,1], their sum <= 1 ... *)
Theorem probabilities_in_range : forall c m scs og, 0 <= og -> 0 <= pr_min c ->
  Forall (fun s => (0 <= s_prob s <= 1)%Q) (fst (get_strategies c m scs og)) /\
  (PageRankProofs.qsum (map s_prob (fst (get_strategies c m scs og))) <= 1)%Q.
Proof. exact probabilities_in_range_l. Qed.
Print Assumptions probabilities_in_range.

(* ... every foreground timeout and every background timeout between 0 and
   the original ... *)
Theorem timeout_in_range : forall c m scs og, 0 <= og -> 0 <= pr_min c ->
  Forall (fun s => 0 <= s_tmo s <= og) (fst (get_strategies c m scs og)) /\
  (forall m' scs' i t, bg_timeout c m' scs' i og = Some t -> 0 <= t <= og).
Proof. exact timeout_in_range_l. Qed.
Print Assumptions timeout_in_range.

(* ... at most one strategy per size class (with the other two: wf_strategies). *)
Theorem strategies_well_formed : forall c m scs og, 0 <= og -> 0 <= pr_min c ->
  wf_strategies (List.length scs) og (fst (get_strategies c m scs og)).
Proof. exact get_strategies_wf. Qed.
Print Assumptions strategies_well_formed.

(* the predicate Corr.v evaluates on the real GetStrategies output *)
Theorem strategies_monitor : forall eps c m scs og, (0 <= eps)%Q -> 0 <= og -> 0 <= pr_min c ->
  strategies_ok eps (List.length scs) og (fst (get_strategies c m scs og)) = EmptyString.
Proof. exact strategies_monitor_l. Qed.
Print Assumptions strategies_monitor.

(* GetStrategies only touches the cached probabilities and creates empty entries *)
Theorem get_strategies_records_nothing : forall c m scs og,
  rec_list (snd (get_strategies c m scs og)) = rec_list m.
Proof. exact rec_list_get_strategies. Qed.
Print Assumptions get_strategies_records_nothing.

Theorem smallest_calculator_well_formed : forall scs og, 0 <= og ->
  wf_strategies (List.length scs) og (smallest_strategies scs og).
Proof. exact smallest_wf. Qed.
Print Assumptions smallest_calculator_well_formed.

(* ================= analyzer / selector / learner protocol ================= *)

(* For every configuration (feedback-driven with scripted, smallest or
   page-rank calculator; fallback), every stored message with non-negative
   durations and EVERY sequence of calls (calls the protocol does not permit
   are no-ops), the monitor p_step of Spec.v — the one Corr.v runs on the
   implementation's trace — accepts the model's trace: no panic; Select
   returns a learner, an index < number of size classes, 0 <= timeout <=
   original, 0 <= expected <= timeout; the handle is obtained once per
   Analyze, released exactly once by the call that ends the session and by no
   other; anything recorded is released dirty, an abandonment before
   anything was recorded is released clean; a failure on a smaller size class
   is retried, a retried or background run never is; at most one background
   run; history lists bounded. *)
Theorem protocol_trace_ok : forall c s0 ops,
  cfg_ok c -> smap_nonneg (st_sc s0) -> ops_ok c (init_sess s0) ops ->
  trace_ok c (init_ms s0) s0 (run c (init_sess s0) ops) = true.
Proof. exact Proofs.protocol_trace_ok. Qed.
Print Assumptions protocol_trace_ok.

(* linear_handle: over any call sequence #Get = #Release + (1 while a learner
   or a dead session holds the handle); per call at most one of each. *)
Theorem linear_handle : forall c ops s,
  (sum_gets (run c s ops) + holds c s = sum_rels (run c s ops) + holds c (final c s ops))%nat.
Proof. exact handle_balance. Qed.
Print Assumptions linear_handle.

Theorem at_most_one_get_and_release_per_call : forall c s o,
  (r_gets (step c s o) <= 1)%nat /\ (List.length (r_rels (step c s o)) <= 1)%nat.
Proof. exact step_at_most_one. Qed.
Print Assumptions at_most_one_get_and_release_per_call.

(* dirty <=> something was recorded since Get (ghost flag / recording calls) *)
Theorem dirty_iff_recorded : forall c s ms l o d,
  Inv c s ms -> ph s = PLearner l -> r_rels (step c s o) = [d] ->
  d = (recorded s || records l o).
Proof. exact release_dirty_iff_recorded. Qed.
Print Assumptions dirty_iff_recorded.

(* retry_once_largest *)
Theorem retry_learner_never_retries : forall c s l tout now l',
  ph (r_sess (failed c s l tout now)) = PLearner l' ->
  forall s' tout' now',
    ph (r_sess (failed c s' l' tout' now')) = PIdle /\ r_out (failed c s' l' tout' now') = OutRetry 0 0 false.
Proof. exact retry_learner_is_final. Qed.
Print Assumptions retry_learner_never_retries.

(* Discharges the scheduler-side hypothesis bg_scripts_ok of
   Sched.background_bounded for the real analyzers: the learner returned
   inside a Succeeded answer (smallerBackgroundLearner; the fallback analyzer
   never returns one) returns no successor from Failed and no further
   background learner from Succeeded.  No hypothesis on configuration,
   message or size-class list is needed. *)
Theorem background_learner_never_retries : forall c s l d scs bgt l',
  ph (r_sess (succeeded c s l d scs bgt)) = PLearner l' ->
  forall s' tout now d' scs' bgt',
    (ph (r_sess (failed c s' l' tout now)) = PIdle /\ r_out (failed c s' l' tout now) = OutRetry 0 0 false) /\
    (ph (r_sess (succeeded c s' l' d' scs' bgt')) = PIdle /\
     r_out (succeeded c s' l' d' scs' bgt') = OutChoice 0 0 0 false).
Proof. exact background_learner_is_final. Qed.
Print Assumptions background_learner_never_retries.

Theorem smaller_failure_retried_on_largest : forall c s sm smT lg lgT tout now,
  exists ex, r_sess (failed c s (LSmallerFg sm smT lg lgT) tout now)
             = mkSess (PLearner (LLargestFg sm ex lg)) (st s) (orig s) (recorded s) /\
             r_out (failed c s (LSmallerFg sm smT lg lgT) tout now)
             = OutRetry (expected (st_sc (st s)) lg lgT) lgT true /\
             r_rels (failed c s (LSmallerFg sm smT lg lgT) tout now) = [].
Proof. exact smaller_failure_is_retried. Qed.
Print Assumptions smaller_failure_retried_on_largest.

Theorem largest_failure_not_retried : forall c s l tout now,
  match l with LLargest _ | LLargestBg _ _ _ | LLargestFg _ _ _ | LFbLargest => True | _ => False end ->
  ph (r_sess (failed c s l tout now)) = PIdle /\ r_out (failed c s l tout now) = OutRetry 0 0 false.
Proof. exact largest_failure_is_final. Qed.
Print Assumptions largest_failure_not_retried.

(* choice_in_range for Select (the scripted calculator is only assumed to
   return at most n strategies with timeouts in [0, original]) *)
Theorem choice_in_range : forall c s scs og now r script i e t l s',
  cfg_ok c -> 0 <= og -> scs <> [] -> smap_nonneg (st_sc s) ->
  (c_calc c = CScript -> script_ok (List.length scs) og script) ->
  select_core c s scs og now r script = (i, e, t, l, s') ->
  (i < List.length scs)%nat /\ 0 <= t <= og /\ 0 <= e <= t /\
  rec_list (st_sc s') = rec_list (st_sc s) /\ st_lsf s' = st_lsf s /\
  pe_from (st_sc s) (st_sc s') /\
  match l with
  | LLargest _ => i = (List.length scs - 1)%nat
  | LLargestBg _ lgT _ => i = (List.length scs - 1)%nat /\ lgT = og /\ c_calc c <> CSmallest
  | LSmallerFg _ _ _ lgT => lgT = og
  | _ => False
  end.
Proof. exact select_core_ok. Qed.
Print Assumptions choice_in_range.

(* history_bounded, for every call in every state *)
Theorem history_bounded : forall c s o,
  hist_okP (c_hist c) (st_sc (st s)) (st_sc (st (r_sess (step c s o)))).
Proof. exact step_history_bounded. Qed.
Print Assumptions history_bounded.

Theorem recorded_list_at_most_history_size : forall h sc o m,
  (List.length (pe (m_get_d sc (add_exec h sc o m))) <= h)%nat.
Proof. exact add_exec_bounded. Qed.
Print Assumptions recorded_list_at_most_history_size.

(* ActionTimeoutExtractor: the default, or the action's own value in [0, maximum] *)
Theorem action_timeout_in_range : forall c t og, extract_timeout c t = Some og ->
  (t = TAbsent /\ og = c_deft c) \/ (t = TVal og /\ 0 <= og <= c_maxt c).
Proof. exact extract_timeout_range. Qed.
Print Assumptions action_timeout_in_range.

(* ================= non-vacuity ================= *)
Theorem example_session_retry_and_dirty_release :
  map (fun x => (o_out (snd x), o_rels (snd x))) (run ex_cfg (init_sess ex_stats) ex_ops)
  = [ (OutChoice 0 4 12 true, []); (OutRetry 2 50 true, []); (OutChoice 0 0 0 false, [true]) ].
Proof. exact ex_run. Qed.
Print Assumptions example_session_retry_and_dirty_release.

Theorem example_hypotheses_satisfiable :
  cfg_ok ex_cfg /\ smap_nonneg (st_sc ex_stats) /\ ops_ok ex_cfg (init_sess ex_stats) ex_ops.
Proof. exact ex_hypotheses. Qed.
Print Assumptions example_hypotheses_satisfiable.
