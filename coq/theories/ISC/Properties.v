(* C07 (ISC part) — the property theorems, and nothing else. *)
From VF Require Import ISC.Outcomes ISC.PageRank ISC.Model ISC.Spec.
