(* Lemmas about the stored message: map operations, the recorded part,
   history bounds, non-negative durations, medians. *)
From Coq Require Import List ZArith NArith QArith Bool Lia.
From VF Require Import ISC.Outcomes ISC.PageRank ISC.PageRankProofs ISC.StrategiesProofs ISC.Model ISC.Spec.
Import ListNotations.
Local Open Scope Z_scope.

(* ---- m_get / m_set ------------------------------------------------------------ *)
Lemma m_get_replace_same k v m p : m_get k m = Some p -> m_get k (m_replace k v m) = Some v.
Proof.
  induction m as [|[k' v'] m IH]; [discriminate|]. cbn [m_get m_replace].
  destruct (k =? k')%N eqn:E.
  - intros _. cbn [m_get]. now rewrite N.eqb_refl.
  - intros H. cbn [m_get]. rewrite E. apply IH, H.
Qed.

Lemma m_get_insert_same k v m : m_get k m = None -> m_get k (m_insert k v m) = Some v.
Proof.
  induction m as [|[k' v'] m IH]; intros H.
  - cbn. now rewrite N.eqb_refl.
  - cbn [m_get] in H. destruct (k =? k')%N eqn:E; [discriminate|].
    cbn [m_insert]. destruct (k <? k')%N; cbn [m_get].
    + now rewrite N.eqb_refl.
    + rewrite E. apply IH, H.
Qed.

Lemma m_get_set_same k v m : m_get k (m_set k v m) = Some v.
Proof.
  unfold m_set. destruct (m_get k m) eqn:E.
  - eapply m_get_replace_same, E.
  - apply m_get_insert_same, E.
Qed.

(* ---- the recorded part ----------------------------------------------------------- *)
Lemma rec_list_cons k p m :
  rec_list ((k, p) :: m) = if is_nil (pe p) then rec_list m else (k, pe p) :: rec_list m.
Proof. unfold rec_list. cbn [map filter fst snd]. destruct (is_nil (pe p)); reflexivity. Qed.

Lemma rec_list_insert_empty k v m : pe v = [] -> rec_list (m_insert k v m) = rec_list m.
Proof.
  intros Hv. induction m as [|[k' v'] m IH]; cbn [m_insert].
  - rewrite rec_list_cons, Hv. reflexivity.
  - destruct (k <? k')%N.
    + rewrite rec_list_cons, Hv. reflexivity.
    + rewrite !rec_list_cons, IH. reflexivity.
Qed.

Lemma rec_list_replace_same k v m p : m_get k m = Some p -> pe v = pe p ->
  rec_list (m_replace k v m) = rec_list m.
Proof.
  intros Hg Hv. induction m as [|[k' v'] m IH]; [reflexivity|].
  cbn [m_get] in Hg. cbn [m_replace]. destruct (k =? k')%N eqn:E.
  - injection Hg as ->. apply N.eqb_eq in E. subst k'. rewrite !rec_list_cons, Hv. reflexivity.
  - rewrite !rec_list_cons, (IH Hg). reflexivity.
Qed.

Lemma rec_list_ensure scs : forall m, rec_list (ensure scs m) = rec_list m.
Proof.
  unfold ensure. induction scs as [|sc scs IH]; intros m; [reflexivity|].
  cbn [fold_left]. destruct (m_get sc m) eqn:E; [apply IH|].
  rewrite IH. unfold m_set. rewrite E. apply rec_list_insert_empty. reflexivity.
Qed.

Lemma rec_list_set_iprp scs ps m : rec_list (set_iprp scs ps m) = rec_list m.
Proof.
  unfold set_iprp. set (m0 := map _ m).
  assert (H0 : rec_list m0 = rec_list m).
  { unfold m0. clear. induction m as [|[k p] m IH]; [reflexivity|].
    cbn [map fst snd]. rewrite !rec_list_cons. cbn [pe]. now rewrite IH. }
  rewrite <- H0. generalize (combine scs ps) m0. clear.
  induction l as [|[sc q] l IH]; intros m; [reflexivity|].
  cbn [fold_left fst snd]. destruct (m_get sc m) as [p|] eqn:E; [|apply IH].
  rewrite IH. unfold m_set. rewrite E. eapply rec_list_replace_same; [exact E|reflexivity].
Qed.

Lemma rec_list_get_strategies c m scs og : rec_list (snd (get_strategies c m scs og)) = rec_list m.
Proof.
  unfold get_strategies. destruct (_ <=? 1)%nat; [reflexivity|].
  destruct (median _).
  - destruct (strat_loop _ _ _ _ _ _ _ _ _); [apply rec_list_ensure|].
    destruct (start_vector _). destruct (power_iter _ _ _ _ _ _ _). cbn [snd].
    now rewrite rec_list_set_iprp, rec_list_ensure.
  - destruct (first_empty _ _); apply rec_list_ensure.
Qed.

Lemma list_eqb_refl {A} (e : A -> A -> bool) l : (forall x, e x x = true) -> list_eqb e l l = true.
Proof. intros H. induction l; cbn; [reflexivity|]. now rewrite H, IHl. Qed.

Lemma outcome_eqb_refl o : outcome_eqb o o = true.
Proof. destruct o; cbn; auto using Z.eqb_refl. Qed.

Lemma rec_eqb_of_eq a b : rec_list (st_sc a) = rec_list (st_sc b) -> st_lsf a = st_lsf b -> rec_eqb a b = true.
Proof.
  intros H1 H2. unfold rec_eqb. rewrite H1, H2. apply andb_true_intro. split.
  - apply list_eqb_refl. intros [k l]. cbn [fst snd]. rewrite N.eqb_refl. cbn.
    apply list_eqb_refl, outcome_eqb_refl.
  - destruct (st_lsf b); cbn; auto using Z.eqb_refl.
Qed.

Lemma unchanged_of_eq a b : rec_list (st_sc a) = rec_list (st_sc b) -> st_lsf a = st_lsf b -> changed a b = false.
Proof. intros. unfold changed. now rewrite rec_eqb_of_eq. Qed.

(* ---- history bound ------------------------------------------------------------------ *)
Definition hist_okP (h : nat) (pre post : smap) : Prop :=
  forall k p, In (k, p) post ->
    (length (pe p) <= h)%nat \/ exists p0, In (k, p0) pre /\ (length (pe p) <= length (pe p0))%nat.

Lemma hist_ok_of_P h pre post : hist_okP h pre post -> hist_ok h pre post = true.
Proof.
  intros H. unfold hist_ok. apply forallb_forall. intros [k p] Hin. cbn [fst snd].
  destruct (H k p Hin) as [Hl|(p0 & Hin0 & Hl)].
  - apply orb_true_intro. left. apply Nat.leb_le, Hl.
  - apply orb_true_intro. right. apply existsb_exists. exists (k, p0). split; [exact Hin0|].
    cbn [fst snd]. rewrite N.eqb_refl. cbn. apply Nat.leb_le, Hl.
Qed.

Lemma hist_okP_refl h m : hist_okP h m m.
Proof. intros k p H. right. exists p. auto. Qed.

Lemma hist_okP_of_pe_from h pre post : pe_from pre post -> hist_okP h pre post.
Proof.
  intros H k p Hin. destruct (H k p Hin) as [He|(p0 & Hin0 & He)].
  - left. rewrite He. cbn. lia.
  - right. exists p0. rewrite He. auto.
Qed.

Lemma lastn_length {A} h (l : list A) : (length (lastn h l) <= h)%nat.
Proof. unfold lastn. rewrite skipn_length. lia. Qed.

Lemma hist_okP_set h pre m k v : hist_okP h pre m -> (length (pe v) <= h)%nat -> hist_okP h pre (m_set k v m).
Proof.
  intros H Hv k' p' Hin. apply in_m_set in Hin as [[= -> ->]|Hin]; [now left|apply H, Hin].
Qed.

Lemma hist_okP_add h pre m sc o : hist_okP h pre m -> hist_okP h pre (add_exec h sc o m).
Proof. intros H. unfold add_exec. apply hist_okP_set; [exact H|]. cbn [pe]. apply lastn_length. Qed.

(* ---- non-negative durations ---------------------------------------------------------- *)
Definition outcome_nonneg (o : outcome) : Prop := match o with OSucceeded d => 0 <= d | _ => True end.
Definition smap_nonneg (m : smap) : Prop := forall k p, In (k, p) m -> Forall outcome_nonneg (pe p).

Lemma smap_nonneg_pe_from pre post : pe_from pre post -> smap_nonneg pre -> smap_nonneg post.
Proof.
  intros H Hpre k p Hin. destruct (H k p Hin) as [He|(p0 & Hin0 & He)]; rewrite He; [constructor|].
  eapply Hpre, Hin0.
Qed.

Lemma m_get_d_nonneg m k : smap_nonneg m -> Forall outcome_nonneg (pe (m_get_d k m)).
Proof.
  intros H. unfold m_get_d. destruct (m_get k m) eqn:E; [|constructor].
  eapply H, m_get_in, E.
Qed.

Lemma smap_nonneg_add h sc o m : smap_nonneg m -> outcome_nonneg o -> smap_nonneg (add_exec h sc o m).
Proof.
  intros H Ho k p Hin. unfold add_exec in Hin. apply in_m_set in Hin as [[= -> ->]|Hin]; [|eapply H, Hin].
  cbn [pe]. unfold lastn.
  assert (Hall : Forall outcome_nonneg (pe (m_get_d sc m) ++ [o])).
  { apply Forall_app. split; [apply m_get_d_nonneg, H|constructor; [exact Ho|constructor]]. }
  rewrite <- (firstn_skipn (length (pe (m_get_d sc m) ++ [o]) - h) _) in Hall.
  apply Forall_app in Hall. tauto.
Qed.

(* ---- medians --------------------------------------------------------------------------- *)
Lemma in_insert x y l : In x (insert y l) -> x = y \/ In x l.
Proof.
  induction l as [|z l IH]; cbn [insert]; [intros [H|[]]; auto|].
  destruct (y <=? z); [intros [H|H]; auto|].
  intros [H|H]; [right; now left|]. destruct (IH H); auto. right. now right.
Qed.

Lemma in_sortz x l : In x (sortz l) -> In x l.
Proof.
  induction l as [|y l IH]; [intros []|]. unfold sortz. cbn [fold_right]. fold (sortz l).
  intros H. apply in_insert in H as [->|H]; [now left|right; apply IH, H].
Qed.

Lemma insert_length y l : length (insert y l) = S (length l).
Proof. induction l as [|z l IH]; cbn [insert]; [reflexivity|]. destruct (y <=? z); cbn [length]; lia. Qed.

Lemma sortz_length l : length (sortz l) = length l.
Proof. induction l as [|y l IH]; [reflexivity|]. unfold sortz. cbn [fold_right]. fold (sortz l). rewrite insert_length, IH. reflexivity. Qed.

Lemma in_succ_times d l : In d (succ_times l) -> In (OSucceeded d) l.
Proof.
  unfold succ_times. intros H. apply in_flat_map in H as [o [Ho Hd]].
  destruct o; cbn in Hd; try tauto. destruct Hd as [->|[]]. exact Ho.
Qed.

Lemma nth_nonneg l i : Forall (fun x => 0 <= x) l -> 0 <= nth i l 0.
Proof.
  intros H. destruct (nth_in_or_default i l 0) as [Hin| ->]; [|lia].
  rewrite Forall_forall in H. apply H, Hin.
Qed.

Lemma median_nonneg l med : Forall outcome_nonneg l -> median (outcomes_of_prev l) = Some med -> 0 <= med.
Proof.
  intros Hl. unfold median, outcomes_of_prev, new_outcomes. cbn [succs].
  assert (Hs : Forall (fun x => 0 <= x) (sortz (succ_times l))).
  { apply Forall_forall. intros x Hx. apply in_sortz, in_succ_times in Hx.
    rewrite Forall_forall in Hl. apply (Hl _ Hx). }
  destruct (sortz (succ_times l)) as [|a s] eqn:E; [discriminate|]. rewrite <- E in *.
  intros [= <-]. destruct (Nat.even _).
  - apply Z.quot_pos; [|lia]. apply Z.add_nonneg_nonneg; apply nth_nonneg, Hs.
  - apply nth_nonneg, Hs.
Qed.

Lemma expected_range m sc tmo : smap_nonneg m -> 0 <= tmo -> 0 <= expected m sc tmo <= tmo.
Proof.
  intros Hm Ht. unfold expected. destruct (m_get sc m) as [p|] eqn:E; [|lia].
  destruct (median _) as [med|] eqn:Em; [|lia].
  destruct (med <? tmo) eqn:El; [|lia].
  pose proof (median_nonneg (pe p) med (Hm _ _ (m_get_in _ _ _ E)) Em). lia.
Qed.

(* a success that has just been recorded gives the size class a median *)
Lemma lastn_snoc {A} h (l : list A) x : (1 <= h)%nat -> exists l', lastn h (l ++ [x]) = l' ++ [x].
Proof.
  intros Hh. unfold lastn. rewrite app_length. cbn [length].
  rewrite skipn_app. replace (length l + 1 - h - length l)%nat with 0%nat by lia.
  cbn [skipn]. eexists. reflexivity.
Qed.

Lemma median_after_success h l d : (1 <= h)%nat ->
  exists med, median (outcomes_of_prev (lastn h (l ++ [OSucceeded d]))) = Some med.
Proof.
  intros Hh. destruct (lastn_snoc h l (OSucceeded d) Hh) as [l' ->].
  unfold median, outcomes_of_prev, new_outcomes. cbn [succs].
  destruct (sortz (succ_times (l' ++ [OSucceeded d]))) eqn:E; [|eexists; reflexivity].
  apply (f_equal (@length Z)) in E. rewrite sortz_length in E. unfold succ_times in E.
  rewrite flat_map_app, app_length in E. cbn in E. lia.
Qed.
