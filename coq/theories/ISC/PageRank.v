(* Executable model of page_rank_strategy_calculator.go (and of
   smallest_size_class_strategy_calculator.go), in exact arithmetic.

   Representation.  float64 values of the Go code are rationals here.  The
   stochastic matrix and the probability vector of the power iteration are
   kept as INTEGER NUMERATORS OVER ONE COMMON DENOMINATOR (matrix: [mden];
   vector: a denominator that is multiplied by [mden] on every iteration), so
   that no gcd is ever computed and the numbers grow only linearly with the
   iteration count.  The rational value of an entry is numerator/denominator;
   the returned probabilities are [Qmake numerator denominator].

   Modelled, NOT verified (see docs/areas/ISC.md): IEEE rounding of every
   float operation (the correspondence check allows 1e-9 / 1 ns), math.Pow
   (the factor (largest/smaller)^exponent is an input table computed by the
   harness with the same math.Pow), time.Duration(float64) as truncation,
   and termination of the convergence loop ([pr_fuel] iterations at most). *)
From Coq Require Import List ZArith NArith QArith Bool.
From VF Require Import ISC.Outcomes.
Import ListNotations.
Local Open Scope Z_scope.

(* ---- iscc.PreviousExecutionStats ----------------------------------------- *)
Inductive outcome := OFailed | OTimedOut (d : Z) | OSucceeded (d : Z).
Record pscs := mkPscs { pe : list outcome; iprp : Q }.       (* PerSizeClassStats *)
Definition smap := list (N * pscs).                          (* map, kept sorted by key *)

Fixpoint m_get (k : N) (m : smap) : option pscs :=
  match m with
  | [] => None
  | (k', v) :: r => if (k =? k')%N then Some v else m_get k r
  end.
(* map assignment: replace the entry if the key is present, else insert it
   before the first larger key (dumps of the Go map are sorted by key) *)
Fixpoint m_replace (k : N) (v : pscs) (m : smap) : smap :=
  match m with
  | [] => []
  | (k', v') :: r => if (k =? k')%N then (k, v) :: r else (k', v') :: m_replace k v r
  end.
Fixpoint m_insert (k : N) (v : pscs) (m : smap) : smap :=
  match m with
  | [] => [(k, v)]
  | (k', v') :: r => if (k <? k')%N then (k, v) :: m else (k', v') :: m_insert k v r
  end.
Definition m_set (k : N) (v : pscs) (m : smap) : smap :=
  match m_get k m with
  | Some _ => m_replace k v m
  | None => m_insert k v m
  end.
Definition empty_pscs := mkPscs [] 0%Q.
Definition m_get_d (k : N) (m : smap) : pscs :=
  match m_get k m with Some p => p | None => empty_pscs end.

Record strategy := mkStrat { s_prob : Q; s_bg : bool; s_tmo : Z }.
Definition zero_strat := mkStrat 0%Q false 0.

Record prcfg := mkPr {
  pr_min : Z;                       (* minimumExecutionTimeout *)
  pr_mult : Q;                      (* timeoutMultiplier *)
  pr_err : Q;                       (* maximumConvergenceError *)
  pr_factors : list (N * N * Q) }.  (* (smaller, largest) |-> math.Pow(largest/smaller, exponent) *)

Definition pr_fuel : nat := 2000.

(* ---- helpers ------------------------------------------------------------- *)
Definition qltb (a b : Q) : bool := negb (Qle_bool b a).
(* time.Duration(float64): truncation toward zero *)
Definition qtrunc (q : Q) : Z := Z.quot (Qnum q) (Zpos (Qden q)).
Definition zsum (l : list Z) : Z := fold_right Z.add 0 l.
Definition zprod (l : list Z) : Z := fold_right Z.mul 1 l.

Definition succ_times (l : list outcome) : list Z :=
  flat_map (fun o => match o with OSucceeded d => [d] | _ => [] end) l.
(* getOutcomesFromPreviousExecutions *)
Definition outcomes_of_prev (l : list outcome) : outcomes := new_outcomes (succ_times l) 0.

Fixpoint factor_of (tbl : list (N * N * Q)) (smaller largest : N) : Q :=
  match tbl with
  | [] => 1%Q
  | (a, b, q) :: r => if ((a =? smaller) && (b =? largest))%N then q else factor_of r smaller largest
  end.

(* ---- getSmallerSizeClassExecutionParameters ------------------------------ *)
Record sparams := mkSP { sp_factor : Q; sp_maxacc : Z; sp_tmo : Z }.
Definition exec_params (c : prcfg) (smaller largest : N) (med orig : Z) : sparams :=
  let f := factor_of (pr_factors c) smaller largest in
  let maxacc := qtrunc (inject_Z med * f) in
  let t0 := qtrunc (inject_Z maxacc * pr_mult c) in
  let t1 := if t0 <? pr_min c then pr_min c else t0 in
  let t2 := if orig <? t1 then orig else t1 in
  let ceiling := qtrunc (inject_Z t2 / pr_mult c) in
  mkSP f (if ceiling <? maxacc then ceiling else maxacc) t2.

(* The switch over the previous executions on a smaller size class:
   (normalizedExecutionTimes, failuresOrTimeouts). *)
Definition classify1 (p : sparams) (acc : list Z * Z) (o : outcome) : list Z * Z :=
  let '(ts, f) := acc in
  match o with
  | OFailed => (ts, f + 1)
  | OTimedOut d => if sp_maxacc p <=? d then (ts, f + 1) else (ts, f)
  | OSucceeded d =>
    if d <? sp_maxacc p then (ts ++ [qtrunc (inject_Z d / sp_factor p)], f) else (ts, f + 1)
  end.
Definition classify (p : sparams) (l : list outcome) : list Z * Z :=
  fold_left (classify1 p) l ([], 0).

(* The loop over sizeClasses[:n-1]; may return early with a forced
   background run. *)
Inductive loop_res := LEarly (ss : list strategy) | LDone (ss : list strategy) (os : list outcomes).

Definition is_nil {A} (l : list A) : bool := match l with [] => true | _ => false end.

Fixpoint strat_loop (c : prcfg) (largest : N) (med orig : Z) (scs : list N) (lst : list pscs)
    (rib : bool) (ss : list strategy) (os : list outcomes) : loop_res :=
  match scs, lst with
  | sc :: scs', p :: lst' =>
    let sp := exec_params c sc largest med orig in
    let '(ts, f) := classify sp (pe p) in
    let o := new_outcomes ts f in
    let empty := (f =? 0) && is_nil ts in
    if empty && rib then LEarly (ss ++ [mkStrat 1%Q true 0])
    else
      let rib' := if empty then rib else (zlen ts <? f) in
      let s := if rib' then mkStrat 0%Q true 0 else mkStrat 0%Q false (sp_tmo sp) in
      strat_loop c largest med orig scs' lst' rib' (ss ++ [s]) (os ++ [o])
  | _, _ => LDone ss os
  end.

(* ---- the matrix ---------------------------------------------------------- *)
(* Pairs (i, j), j < i, in the order of the two nested Go loops. *)
Definition pairs (n : nat) : list (nat * nat) :=
  flat_map (fun i => map (fun j => (i, j)) (seq 0 i)) (seq 1 (n - 1)).
Definition oc (os : list outcomes) (i : nat) : outcomes := nth i os (mkOutcomes [] 0).
Definition pden (os : list outcomes) (i j : nat) : Z := is_faster_den (oc os i) (oc os j).
Definition pscore (os : list outcomes) (i j : nat) : Z := is_faster_score (oc os i) (oc os j).
(* Product of the denominators of all IsFaster calls. *)
Definition dprod (os : list outcomes) (n : nat) : Z :=
  zprod (map (fun ij => pden os (fst ij) (snd ij)) (pairs n)).
(* Common denominator of the matrix: every probability is divided by n-1. *)
Definition mden (os : list outcomes) (n : nat) : Z := Z.of_nat (n - 1) * dprod os n.
(* Off-diagonal entry m[r][c], as numerator over [mden]:
   for i > j:  m[j][i] = p1 = IsFaster(i,j)/(n-1),  m[i][j] = p2 = (1-IsFaster(i,j))/(n-1). *)
Definition weight (os : list outcomes) (n r c : nat) : Z :=
  if (r <? c)%nat then pscore os c r * (dprod os n / pden os c r)
  else (pden os r c - pscore os r c) * (dprod os n / pden os r c).
Definition offsum (os : list outcomes) (n r : nat) : Z :=
  zsum (map (fun c => if (c =? r)%nat then 0 else weight os n r c) (seq 0 n)).
(* m[r]: the diagonal starts at 1.0 and every p1/p2 stored in the row is
   subtracted from it. *)
Definition mrow (os : list outcomes) (n r : nat) : list Z :=
  map (fun c => if (c =? r)%nat then mden os n - offsum os n r else weight os n r c) (seq 0 n).
Definition matrix (os : list outcomes) (n : nat) : list (list Z) := map (mrow os n) (seq 0 n).

(* ---- start vector --------------------------------------------------------- *)
Definition default_prob : Q := (1 # 2)%Q.
(* "Only restore probabilities that are in range." *)
Definition restore (q : Q) : Q := if qltb 0 q && qltb q 1 then q else default_prob.

(* ps: the probabilities of classes 1..n-1.  Numerators over the common
   denominator sd = product of their denominators; entry 0 is inferred. *)
Definition scaled (ps : list Q) : list Z * Z :=
  let sd := zprod (map (fun q => Zpos (Qden q)) ps) in
  (map (fun q => Qnum q * (sd / Zpos (Qden q))) ps, sd).
(* The start vector as the unrepaired code computed it:
   strategies[0].Probability = 1.0 - probabilitiesSum, whatever the sum. *)
Definition start_vector_unclamped (ps : list Q) : list Z * Z :=
  let '(vs, sd) := scaled ps in ((sd - zsum vs) :: vs, sd).
(* The start vector of the current code (fix for DESIGN §6 F10): if the
   restored probabilities sum to more than 1 they are divided by their sum
   and entry 0 becomes 0. *)
Definition start_vector (ps : list Q) : list Z * Z :=
  let '(vs, sd) := scaled ps in
  let t := zsum vs in
  if sd <? t then (0 :: vs, t) else ((sd - t) :: vs, sd).

(* ---- power iteration ------------------------------------------------------ *)
Definition vadd (a b : list Z) : list Z := map (fun xy => fst xy + snd xy) (combine a b).
(* for i, column := range m { for j, v := range column { new[j] += p[i]*v } } *)
Definition vstep (m : list (list Z)) (n : nat) (v : list Z) : list Z :=
  fold_left (fun acc vr => vadd acc (map (Z.mul (fst vr)) (snd vr))) (combine v m) (repeat 0 n).
(* sum_i |p[i] - new[i]|, as numerator over the new denominator dv*d *)
Definition conv_err (d : Z) (v v' : list Z) : Z :=
  zsum (map (fun xy => Z.abs (fst xy * d - snd xy)) (combine v v')).
Fixpoint power_iter (fuel : nat) (m : list (list Z)) (d : Z) (n : nat) (err : Q)
    (v : list Z) (dv : Z) : list Z * Z :=
  match fuel with
  | O => (v, dv)
  | S f =>
    let v' := vstep m n v in
    let dv' := dv * d in
    if conv_err d v v' * Zpos (Qden err) <? Qnum err * dv' then (v', dv')
    else power_iter f m d n err v' dv'
  end.
(* exactly k iterations, for the "any number of iterations" theorem *)
Fixpoint iterate (k : nat) (m : list (list Z)) (d : Z) (n : nat) (v : list Z) (dv : Z) : list Z * Z :=
  match k with
  | O => (v, dv)
  | S k' => iterate k' m d n (vstep m n v) (dv * d)
  end.

(* ---- GetStrategies --------------------------------------------------------- *)
Definition ensure (scs : list N) (m : smap) : smap :=
  fold_left (fun m sc => match m_get sc m with Some _ => m | None => m_set sc empty_pscs m end) scs m.
Definition set_iprp (scs : list N) (ps : list Q) (m : smap) : smap :=
  let m0 := map (fun kp => (fst kp, mkPscs (pe (snd kp)) 0%Q)) m in
  fold_left (fun m sq => match m_get (fst sq) m with
                         | Some p => m_set (fst sq) (mkPscs (pe p) (snd sq)) m
                         | None => m end) (combine scs ps) m0.
Fixpoint first_empty (i : nat) (l : list pscs) : option nat :=
  match l with
  | [] => None
  | p :: r => if is_nil (pe p) then Some i else first_empty (S i) r
  end.
Definition to_prob (dv : Z) (x : Z) : Q := Qmake x (Z.to_pos dv).

Definition get_strategies (c : prcfg) (m : smap) (scs : list N) (orig : Z) : list strategy * smap :=
  let n := length scs in
  if (n <=? 1)%nat then ([], m) else
  let m1 := ensure scs m in
  let lst := map (fun sc => m_get_d sc m1) scs in
  let largest := last scs 0%N in
  let ol := outcomes_of_prev (pe (last lst empty_pscs)) in
  match median ol with
  | None =>
    (* never succeeded on the largest size class *)
    match first_empty 0 (removelast lst) with
    | Some i => (repeat zero_strat i ++ [mkStrat 1%Q false (Z.min orig (pr_min c))], m1)
    | None => (repeat zero_strat (n - 1) ++ [mkStrat 1%Q false orig], m1)
    end
  | Some med =>
    match strat_loop c largest med orig (removelast scs) lst true [] [] with
    | LEarly ss => (ss, m1)
    | LDone ss os =>
      let os := os ++ [ol] in
      let ps := map (fun p => restore (iprp p)) (tl lst) in
      let '(v0, dv0) := start_vector ps in
      let '(v, dv) := power_iter pr_fuel (matrix os n) (mden os n) n (pr_err c) v0 dv0 in
      let probs := map (to_prob dv) v in
      let ss' := map (fun sq => mkStrat (snd sq) (s_bg (fst sq)) (s_tmo (fst sq)))
                     (combine (ss ++ [zero_strat]) probs) in
      (firstn (n - 1) ss', set_iprp scs probs m1)
    end
  end.

(* GetBackgroundExecutionTimeout.  None = the Go code dereferences nil (no
   entry / no successful execution for the largest size class of the list
   it is given). *)
Definition bg_timeout (c : prcfg) (m : smap) (scs : list N) (i : nat) (orig : Z) : option Z :=
  let largest := last scs 0%N in
  match m_get largest m with
  | None => None
  | Some p =>
    match median (outcomes_of_prev (pe p)) with
    | None => None
    | Some med => Some (sp_tmo (exec_params c (nth i scs 0%N) largest med orig))
    end
  end.

(* ---- smallestSizeClassStrategyCalculator ---------------------------------- *)
Definition smallest_strategies (scs : list N) (orig : Z) : list strategy :=
  if (length scs <=? 1)%nat then [] else [mkStrat 1%Q false orig].
