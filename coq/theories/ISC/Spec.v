(* The ISC part of property C07 as decidable predicates.

   [p_step] is a monitor over the observable trace of one message's
   sessions: (call, returned values, store.Get count, handle.Release(dirty)
   calls, message contents after the call).  It is evaluated by Corr.v on the
   IMPLEMENTATION's trace and proved (Proofs.v) to accept every trace of the
   model.  [strategies_ok], [bg_ok], [faster_ok] are the well-formedness
   predicates for direct calls of the strategy calculator and of
   Outcomes.IsFaster; they take a tolerance eps (0 in the theorems about the
   exact model, 1e-9 on float outputs of the code). *)
From Coq Require Import List ZArith NArith QArith Bool String.
From VF Require Import ISC.Outcomes ISC.PageRank ISC.Model.
Import ListNotations.
Local Open Scope string_scope.
Local Open Scope list_scope.
Local Open Scope Z_scope.

(* ---- equality on the recorded part of a message ---------------------------- *)
Definition outcome_eqb (a b : outcome) : bool :=
  match a, b with
  | OFailed, OFailed => true
  | OTimedOut x, OTimedOut y => x =? y
  | OSucceeded x, OSucceeded y => x =? y
  | _, _ => false
  end.
Fixpoint list_eqb {A} (e : A -> A -> bool) (l1 l2 : list A) : bool :=
  match l1, l2 with
  | [], [] => true
  | x :: r1, y :: r2 => e x y && list_eqb e r1 r2
  | _, _ => false
  end.
Definition optz_eqb (a b : option Z) : bool :=
  match a, b with
  | None, None => true
  | Some x, Some y => x =? y
  | _, _ => false
  end.
(* What learners record: previous executions (entries without any are
   indistinguishable from absent ones) and LastSeenFailure.  The stored
   page-rank probabilities are a cache, not a record. *)
Definition rec_list (m : smap) : list (N * list outcome) :=
  filter (fun kp => negb (is_nil (snd kp))) (map (fun kp => (fst kp, pe (snd kp))) m).
Definition rec_eqb (a b : stats) : bool :=
  list_eqb (fun x y => (fst x =? fst y)%N && list_eqb outcome_eqb (snd x) (snd y))
           (rec_list (st_sc a)) (rec_list (st_sc b))
  && optz_eqb (st_lsf a) (st_lsf b).
Definition changed (a b : stats) : bool := negb (rec_eqb a b).

(* ---- the monitor ------------------------------------------------------------ *)
Fixpoint first_fail (l : list (bool * string)) : string :=
  match l with
  | [] => ""
  | (b, k) :: r => if b then first_fail r else k
  end.
Definition in_range (lo x hi : Z) : bool := (lo <=? x) && (x <=? hi).

(* history_bounded: every list of the message after the call has at most
   historySize entries, or is no longer than a list the message had for that
   size class before the call *)
Definition hist_ok (h : nat) (pre post : smap) : bool :=
  forallb (fun kp =>
    (List.length (pe (snd kp)) <=? h)%nat
    || existsb (fun kp0 => (fst kp0 =? fst kp)%N
                           && (List.length (pe (snd kp)) <=? List.length (pe (snd kp0)))%nat) pre) post.

Inductive mph :=
| MIdle
| MFirst (idx n : nat)   (* learner returned by Select for index idx of n size classes *)
| MRetry                 (* learner returned by Failed *)
| MBg                    (* learner returned by Succeeded (background run) *)
| MDead.
Record mstate := mkMs { mp : mph; m_base : stats; m_orig : Z }.

Definition choice_checks (n : nat) (og : Z) (idx : nat) (exp tmo : Z) : list (bool * string) :=
  [ ((idx <? n)%nat, "C07:isc-index-out-of-range");
    (in_range 0 tmo og, "C07:isc-timeout-out-of-range");
    (in_range 0 exp tmo, "C07:isc-expected-duration-out-of-range") ].
(* a call that ends the session: the handle is released exactly once, dirty
   if anything recorded differs from what Get returned, clean if the call
   is an abandonment before anything could have been recorded *)
Definition term_checks (c : cfg) (base post : stats) (rels : list bool) (clean : bool)
    : list (bool * string) :=
  if uses_handle c then
    [ (negb (is_nil rels), "C07:isc-handle-not-released");
      ((List.length rels <=? 1)%nat, "C07:isc-double-release");
      (negb (changed base post && negb (hd false rels)), "C07:isc-recorded-but-clean-release");
      (negb (clean && hd false rels), "C07:isc-clean-abandon-dirty-release") ]
  else [ (is_nil rels, "C07:isc-fallback-release") ].
Definition cont_checks (gets : nat) (rels : list bool) : list (bool * string) :=
  [ (Nat.eqb gets 0, "C07:isc-handle-get-count"); (is_nil rels, "C07:isc-early-release") ].
Definition is_panic (o : out) : bool := match o with OutPanic => true | _ => false end.
Definition is_first (p : mph) : bool := match p with MFirst _ _ => true | _ => false end.
Definition smaller_first (p : mph) : bool :=
  match p with MFirst idx n => (S idx <? n)%nat | _ => false end.
(* a learner handed out for a background run (returned by Succeeded) that
   asks for a retry gets its own kind: the scheduler would move the task to
   the largest size class without the backlog check *)
Definition retry_kind (p : mph) : string :=
  match p with
  | MBg => "C07:isc-background-learner-retries"
  | _ => "C07:isc-retry-after-retry"
  end.
Definition clean_phase (p : mph) : bool :=
  match p with MFirst _ _ | MRetry => true | _ => false end.
Definition active (p : mph) : bool :=
  match p with MFirst _ _ | MRetry | MBg => true | _ => false end.

Definition p_step (c : cfg) (ms : mstate) (pre : stats) (o : op) (ob : obs) : string * mstate :=
  let post := o_stats ob in
  let gets := o_gets ob in
  let rels := o_rels ob in
  let common := [ (negb (is_panic (o_out ob)), "C07:isc-panic");
                  (hist_ok (c_hist c) (st_sc pre) (st_sc post), "C07:isc-history-unbounded") ] in
  let idle := mkMs MIdle post 0 in
  let dead := mkMs MDead post 0 in
  match mp ms, o with
  | MIdle, OpSelect t scs _ _ _ =>
    match extract_timeout c t, o_out ob with
    | None, OutErr =>
      (first_fail (common ++ cont_checks gets rels ++ [(negb (changed pre post), "C07:isc-select-recorded")]), idle)
    | None, _ => ("C07:isc-invalid-timeout-accepted", dead)
    | Some og, OutChoice idx exp tmo lrn =>
      (first_fail (common ++ [(lrn, "C07:isc-select-no-learner")]
                   ++ choice_checks (List.length scs) og idx exp tmo
                   ++ [ (Nat.eqb gets (if uses_handle c then 1 else 0), "C07:isc-handle-get-count");
                        (is_nil rels, "C07:isc-early-release");
                        (negb (changed pre post), "C07:isc-select-recorded") ]),
       mkMs (MFirst idx (List.length scs)) pre og)
    | Some _, OutPanic => ("C07:isc-panic", dead)
    | Some _, _ => ("C07:isc-valid-action-rejected", dead)
    end
  | MIdle, OpSelAbandon t =>
    match extract_timeout c t, o_out ob with
    | None, OutErr =>
      (first_fail (common ++ cont_checks gets rels ++ [(negb (changed pre post), "C07:isc-select-recorded")]), idle)
    | None, _ => ("C07:isc-invalid-timeout-accepted", dead)
    | Some _, OutNone =>
      (first_fail (common ++ (Nat.eqb gets (if uses_handle c then 1 else 0), "C07:isc-handle-get-count")
                   :: term_checks c pre post rels true), idle)
    | Some _, OutPanic => ("C07:isc-panic", dead)
    | Some _, _ => ("C07:isc-valid-action-rejected", dead)
    end
  | MIdle, _ => ("", ms)
  | MDead, _ => ("", ms)
  | p, OpSucceeded _ scs _ =>
    match o_out ob with
    | OutChoice idx exp tmo true =>
      (first_fail (common ++ [(is_first p, "C07:isc-second-background-or-retry-run")]
                   ++ choice_checks (List.length scs) (m_orig ms) idx exp tmo ++ cont_checks gets rels),
       mkMs MBg (m_base ms) (m_orig ms))
    | OutChoice _ _ _ false =>
      (first_fail (common ++ (Nat.eqb gets 0, "C07:isc-handle-get-count")
                   :: term_checks c (m_base ms) post rels false), idle)
    | OutPanic => ("C07:isc-panic", dead)
    | _ => ("C07:isc-malformed-output", dead)
    end
  | p, OpFailed _ _ =>
    match o_out ob with
    | OutRetry exp tmo true =>
      (first_fail (common ++ [(is_first p, retry_kind p)]
                   ++ [ (in_range 0 tmo (m_orig ms), "C07:isc-timeout-out-of-range");
                        (in_range 0 exp tmo, "C07:isc-expected-duration-out-of-range") ]
                   ++ cont_checks gets rels),
       mkMs MRetry (m_base ms) (m_orig ms))
    | OutRetry _ _ false =>
      (first_fail (common ++ [(negb (smaller_first p), "C07:isc-no-retry-after-smaller-failure")]
                   ++ (Nat.eqb gets 0, "C07:isc-handle-get-count")
                   :: term_checks c (m_base ms) post rels false), idle)
    | OutPanic => ("C07:isc-panic", dead)
    | _ => ("C07:isc-malformed-output", dead)
    end
  | p, OpAbandoned =>
    match o_out ob with
    | OutNone => (first_fail (common ++ (Nat.eqb gets 0, "C07:isc-handle-get-count")
                              :: term_checks c (m_base ms) post rels (clean_phase p)), idle)
    | OutPanic => ("C07:isc-panic", dead)
    | _ => ("C07:isc-malformed-output", dead)
    end
  | _, _ => ("", ms)
  end.

(* the whole trace is accepted *)
Fixpoint trace_ok (c : cfg) (ms : mstate) (pre : stats) (tr : list (op * obs)) : bool :=
  match tr with
  | [] => true
  | (o, ob) :: tr' =>
    let '(k, ms') := p_step c ms pre o ob in
    String.eqb k "" && trace_ok c ms' (o_stats ob) tr'
  end.
Definition init_ms (s : stats) : mstate := mkMs MIdle s 0.

(* ---- direct calls ------------------------------------------------------------ *)
Definition qsum (l : list Q) : Q := fold_right Qplus 0%Q l.
(* "probabilities that are each in [0,1] and sum to at most one",
   "a timeout between zero and the action's own"; at most one strategy per
   size class *)
Definition strategies_ok (eps : Q) (n : nat) (og : Z) (ss : list strategy) : string :=
  first_fail
    [ ((List.length ss <=? n)%nat, "C07:isc-too-many-strategies");
      (forallb (fun s => Qle_bool (- eps) (s_prob s) && Qle_bool (s_prob s) (1 + eps)) ss,
       "C07:isc-probability-out-of-range");
      (Qle_bool (qsum (map s_prob ss)) (1 + eps), "C07:isc-probability-sum-above-one");
      (forallb (fun s => in_range 0 (s_tmo s) og) ss, "C07:isc-strategy-timeout-out-of-range") ].
(* GetBackgroundExecutionTimeout: no panic, value in range *)
Definition bg_ok (og : Z) (t : option Z) : string :=
  match t with
  | None => "C07:isc-panic-background-timeout"
  | Some t => if in_range 0 t og then "" else "C07:isc-background-timeout-out-of-range"
  end.
(* IsFaster: strictly inside (0,1); x.IsFaster(y) + y.IsFaster(x) = 1 *)
Definition faster_ok (eps : Q) (pab pba : Q) : string :=
  first_fail
    [ (qltb 0 pab && qltb pab 1 && qltb 0 pba && qltb pba 1, "C07:isc-isfaster-not-in-open-interval");
      (Qle_bool (1 - eps) (pab + pba) && Qle_bool (pab + pba) (1 + eps), "C07:isc-isfaster-not-antisymmetric") ].
