(* Correspondence evaluator for the ISC area.  Three kinds of cases:
   - CaseSession: calls on the real NewFeedbackDrivenAnalyzer /
     NewFallbackAnalyzer (selector + learners) over a fake stats store;
   - CasePR: direct calls of the real page-rank GetStrategies and
     GetBackgroundExecutionTimeout on a stored statistics message;
   - CaseFaster: direct calls of Outcomes.IsFaster in both directions.
   [viol] evaluates the property predicates of Spec.v on the implementation's
   outputs only; [mism] compares with the model.  Floats computed by the Go
   code arrive as exact rationals and are compared with tolerance 1e-9
   (durations derived through float arithmetic: 1 ns + 1e-9 relative).  After
   every step the model continues from the OBSERVED message (which it has
   just been compared with), so float noise does not accumulate. *)
From Coq Require Import List ZArith NArith QArith Qabs Bool String.
From VF Require Import Common.Verdict ISC.Outcomes ISC.PageRank ISC.Model ISC.Spec.
Import ListNotations.
Local Open Scope string_scope.
Local Open Scope list_scope.
Local Open Scope Z_scope.

Definition eps : Q := (1 # 1000000000)%Q.

Inductive case :=
| CaseSession (c : cfg) (init : stats) (steps : list (op * obs))
| CasePR (p : prcfg) (m : smap) (scs : list N) (og : Z)
         (oss : option (list strategy)) (om : smap) (obg : list (option Z))
| CaseFaster (sa : list Z) (fa : Z) (sb : list Z) (fb : Z) (pab pba : Q).

(* ---- approximate equality ---------------------------------------------------- *)
Definition q_close (a b : Q) : bool := Qle_bool (Qabs (a - b)) eps.
Definition z_close (a b : Z) : bool :=
  Qle_bool (inject_Z (Z.abs (a - b))) (1 + inject_Z (Z.abs b) * eps)%Q.
Definition pscs_approx (a b : N * pscs) : bool :=
  (fst a =? fst b)%N && list_eqb outcome_eqb (pe (snd a)) (pe (snd b))
  && q_close (iprp (snd a)) (iprp (snd b)).
Definition stats_approx (a b : stats) : bool :=
  list_eqb pscs_approx (st_sc a) (st_sc b) && optz_eqb (st_lsf a) (st_lsf b).
Definition out_eqb (a b : out) : bool :=
  match a, b with
  | OutErr, OutErr | OutNone, OutNone | OutPanic, OutPanic => true
  | OutChoice i e t l, OutChoice i' e' t' l' => Nat.eqb i i' && (e =? e') && (t =? t') && Bool.eqb l l'
  | OutRetry e t l, OutRetry e' t' l' => (e =? e') && (t =? t') && Bool.eqb l l'
  | _, _ => false
  end.

(* ---- sessions ------------------------------------------------------------------ *)
Fixpoint sess_viol (c : cfg) (ms : mstate) (pre : stats) (steps : list (op * obs)) (i : nat) : verdict :=
  match steps with
  | [] => VOk
  | (o, ob) :: r =>
    let '(k, ms') := p_step c ms pre o ob in
    if String.eqb k "" then sess_viol c ms' (o_stats ob) r (S i) else VViolation i k
  end.

Fixpoint sess_mism (c : cfg) (s : sess) (steps : list (op * obs)) (i : nat) : verdict :=
  match steps with
  | [] => VOk
  | (o, ob) :: r =>
    let res := step c s o in
    let s' := r_sess res in
    if negb (out_eqb (r_out res) (o_out ob)) then VMismatch i "output"
    else if negb (Nat.eqb (r_gets res) (o_gets ob)) then VMismatch i "store-get-count"
    else if negb (list_eqb Bool.eqb (r_rels res) (o_rels ob)) then VMismatch i "releases"
    else if negb (stats_approx (st s') (o_stats ob)) then VMismatch i "stats"
    else sess_mism c (mkSess (ph s') (o_stats ob) (orig s') (recorded s')) r (S i)
  end.

(* ---- direct page-rank calls ------------------------------------------------------ *)
Definition largest_has_success (m : smap) (scs : list N) : bool :=
  match median (outcomes_of_prev (pe (m_get_d (last scs 0%N) m))) with Some _ => true | None => false end.

Definition pr_viol (scs : list N) (og : Z) (oss : option (list strategy)) (obg : list (option Z)) : verdict :=
  match oss with
  | None => VViolation 0 "C07:isc-get-strategies-panic-or-hang"
  | Some ss =>
    let k := strategies_ok eps (List.length scs) og ss in
    if negb (String.eqb k "") then VViolation 0 k
    else
      match filter (fun k => negb (String.eqb k "")) (map (bg_ok og) obg) with
      | k :: _ => VViolation 1 k
      | [] => VOk
      end
  end.

Definition strat_approx (a b : strategy) : bool :=
  q_close (s_prob a) (s_prob b) && Bool.eqb (s_bg a) (s_bg b) && z_close (s_tmo a) (s_tmo b).
Definition optz_close (a b : option Z) : bool :=
  match a, b with
  | None, None => true
  | Some x, Some y => z_close x y
  | _, _ => false
  end.

Definition pr_mism (p : prcfg) (m : smap) (scs : list N) (og : Z)
    (oss : option (list strategy)) (om : smap) (obg : list (option Z)) : verdict :=
  match oss with
  | None => VMismatch 0 "panic"
  | Some ss =>
    let '(mss, mm) := get_strategies p m scs og in
    if negb (list_eqb strat_approx mss ss) then VMismatch 0 "strategies"
    else if negb (list_eqb pscs_approx mm om) then VMismatch 0 "stats"
    else
      let mbg := if is_nil obg then []
                 else map (fun i => bg_timeout p om scs i og) (seq 0 (List.length scs - 1)) in
      if negb (list_eqb optz_close mbg obg) then VMismatch 1 "background-timeout" else VOk
  end.

(* ---- IsFaster ----------------------------------------------------------------------- *)
Definition faster_mism (sa : list Z) (fa : Z) (sb : list Z) (fb : Z) (pab pba : Q) : verdict :=
  let a := new_outcomes sa fa in
  let b := new_outcomes sb fb in
  let qab := Qmake (is_faster_score a b) (Z.to_pos (is_faster_den a b)) in
  let qba := Qmake (is_faster_score b a) (Z.to_pos (is_faster_den b a)) in
  if q_close qab pab && q_close qba pba then VOk else VMismatch 0 "is-faster".

Definition check_case (c : case) : verdict :=
  match c with
  | CaseSession cf init steps =>
    vcombine (sess_viol cf (init_ms init) init steps 0) (sess_mism cf (init_sess init) steps 0)
  | CasePR p m scs og oss om obg =>
    vcombine (pr_viol scs og oss obg) (pr_mism p m scs og oss om obg)
  | CaseFaster sa fa sb fb pab pba =>
    vcombine (match faster_ok eps pab pba with "" => VOk | k => VViolation 0 k end)
             (faster_mism sa fa sb fb pab pba)
  end.
