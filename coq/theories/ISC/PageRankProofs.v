(* Proofs about the page-rank strategy calculator model (ISC/PageRank.v). *)
From Coq Require Import List ZArith NArith QArith Bool Lia.
From VF Require Import ISC.Outcomes ISC.OutcomesProofs ISC.PageRank.
Import ListNotations.
Local Open Scope Z_scope.

(* ---- sums and products ------------------------------------------------------- *)
Lemma zsum_cons x l : zsum (x :: l) = x + zsum l.
Proof. reflexivity. Qed.

Lemma zsum_app a b : zsum (a ++ b) = zsum a + zsum b.
Proof.
  induction a as [|x a IH]; [reflexivity|].
  cbn [app]. rewrite !zsum_cons, IH. lia.
Qed.

Lemma zsum_nonneg l : Forall (fun x => 0 <= x) l -> 0 <= zsum l.
Proof. induction 1; [cbn; lia|rewrite zsum_cons; lia]. Qed.

Lemma zsum_map_le {A} (f : A -> Z) b l :
  (forall x, In x l -> f x <= b) -> zsum (map f l) <= Z.of_nat (length l) * b.
Proof.
  induction l as [|x l IH]; intros H; [cbn; lia|].
  cbn [map length]. rewrite zsum_cons.
  assert (f x <= b) by (apply H; now left).
  assert (zsum (map f l) <= Z.of_nat (length l) * b) by (apply IH; intros; apply H; now right).
  lia.
Qed.

Lemma zsum_firstn_le k l : Forall (fun x => 0 <= x) l -> zsum (firstn k l) <= zsum l.
Proof.
  intros H. rewrite <- (firstn_skipn k l) at 2. rewrite zsum_app.
  assert (0 <= zsum (skipn k l)).
  { apply zsum_nonneg. rewrite <- (firstn_skipn k l) in H. apply Forall_app in H. tauto. }
  lia.
Qed.

Lemma le_zsum_of_in x l : Forall (fun x => 0 <= x) l -> In x l -> x <= zsum l.
Proof.
  induction 1 as [|y l Hy Hl IH]; intros Hin; [destruct Hin|].
  rewrite zsum_cons. pose proof (zsum_nonneg l Hl). destruct Hin as [->|Hin]; [lia|].
  specialize (IH Hin). lia.
Qed.

Lemma zprod_pos l : Forall (fun x => 0 < x) l -> 0 < zprod l.
Proof. induction 1; cbn [zprod fold_right]; [lia|]. fold (zprod l). lia. Qed.

Lemma zprod_divide x l : In x l -> (x | zprod l).
Proof.
  induction l as [|y l IH]; intros H; [destruct H|].
  cbn [zprod fold_right]. fold (zprod l). destruct H as [->|H].
  - apply Z.divide_mul_l, Z.divide_refl.
  - apply Z.divide_mul_r, IH, H.
Qed.

Lemma div_mul_exact d x : 0 < x -> (x | d) -> x * (d / x) = d.
Proof. intros Hx [k ->]. rewrite Z.div_mul by lia. ring. Qed.

Lemma div_nonneg_of d x : 0 < x -> 0 <= d -> 0 <= d / x.
Proof. intros. apply Z.div_pos; lia. Qed.

(* ---- the matrix ------------------------------------------------------------------ *)
Definition os_ok (os : list outcomes) : Prop := Forall (fun o => 0 <= fails o) os.

Lemma oc_fails os i : os_ok os -> 0 <= fails (oc os i).
Proof.
  intros H. unfold oc. destruct (nth_in_or_default i os (mkOutcomes [] 0)) as [Hin| ->]; [|cbn; lia].
  unfold os_ok in H. rewrite Forall_forall in H. apply H, Hin.
Qed.

Lemma in_pairs n i j : (1 <= i < n)%nat -> (j < i)%nat -> In (i, j) (pairs n).
Proof.
  intros Hi Hj. unfold pairs. apply in_flat_map. exists i. split.
  - apply in_seq. lia.
  - apply in_map_iff. exists j. split; [reflexivity|apply in_seq; lia].
Qed.

Lemma dprod_pos os n : os_ok os -> 0 < dprod os n.
Proof.
  intros H. unfold dprod. apply zprod_pos. apply Forall_forall. intros x Hx.
  apply in_map_iff in Hx as [[i j] [<- _]]. cbn [fst snd]. unfold pden.
  apply is_faster_den_pos; apply oc_fails, H.
Qed.

Lemma pden_divides os n i j : (1 <= i < n)%nat -> (j < i)%nat -> (pden os i j | dprod os n).
Proof.
  intros Hi Hj. unfold dprod. apply zprod_divide.
  apply in_map_iff. exists (i, j). split; [reflexivity|apply in_pairs; assumption].
Qed.

Lemma weight_bounds os n r c : os_ok os -> (r < n)%nat -> (c < n)%nat -> r <> c ->
  0 <= weight os n r c <= dprod os n.
Proof.
  intros Hos Hr Hc Hne. unfold weight.
  pose proof (dprod_pos os n Hos) as Hd.
  destruct (r <? c)%nat eqn:E.
  - apply Nat.ltb_lt in E.
    pose proof (is_faster_open_l (oc os c) (oc os r) (oc_fails os c Hos) (oc_fails os r Hos)) as Ho.
    fold (pscore os c r) in Ho. fold (pden os c r) in Ho.
    pose proof (pden_divides os n c r ltac:(lia) E) as Hdiv.
    pose proof (div_mul_exact (dprod os n) (pden os c r) ltac:(lia) Hdiv) as Hex.
    pose proof (div_nonneg_of (dprod os n) (pden os c r) ltac:(lia) ltac:(lia)) as Hq.
    split; [apply Z.mul_nonneg_nonneg; lia|].
    rewrite <- Hex at 2. apply Z.mul_le_mono_nonneg_r; lia.
  - apply Nat.ltb_ge in E. assert (c < r)%nat as Hlt by lia.
    pose proof (is_faster_open_l (oc os r) (oc os c) (oc_fails os r Hos) (oc_fails os c Hos)) as Ho.
    fold (pscore os r c) in Ho. fold (pden os r c) in Ho.
    pose proof (pden_divides os n r c ltac:(lia) Hlt) as Hdiv.
    pose proof (div_mul_exact (dprod os n) (pden os r c) ltac:(lia) Hdiv) as Hex.
    pose proof (div_nonneg_of (dprod os n) (pden os r c) ltac:(lia) ltac:(lia)) as Hq.
    split; [apply Z.mul_nonneg_nonneg; lia|].
    rewrite <- Hex at 2. apply Z.mul_le_mono_nonneg_r; lia.
Qed.

Lemma seq_split_at r n : (r < n)%nat -> seq 0 n = seq 0 r ++ r :: seq (S r) (n - S r).
Proof.
  intros H. replace n with (r + S (n - S r))%nat at 1 by lia.
  rewrite seq_app. cbn [seq plus]. reflexivity.
Qed.

(* a row with the diagonal replaced by x *)
Lemma row_sum_split os n r x : (r < n)%nat ->
  zsum (map (fun c => if (c =? r)%nat then x else weight os n r c) (seq 0 n))
  = x + zsum (map (weight os n r) (seq 0 r)) + zsum (map (weight os n r) (seq (S r) (n - S r))).
Proof.
  intros H. rewrite (seq_split_at r n H). rewrite map_app, zsum_app. cbn [map]. rewrite zsum_cons.
  rewrite Nat.eqb_refl.
  rewrite (map_ext_in _ (weight os n r) (seq 0 r)).
  2:{ intros c Hc. apply in_seq in Hc. destruct (c =? r)%nat eqn:E; [apply Nat.eqb_eq in E; lia|reflexivity]. }
  rewrite (map_ext_in _ (weight os n r) (seq (S r) (n - S r))).
  2:{ intros c Hc. apply in_seq in Hc. destruct (c =? r)%nat eqn:E; [apply Nat.eqb_eq in E; lia|reflexivity]. }
  lia.
Qed.

Lemma offsum_bound os n r : os_ok os -> (r < n)%nat -> 0 <= offsum os n r <= mden os n.
Proof.
  intros Hos Hr. unfold offsum, mden. rewrite (row_sum_split os n r 0 Hr).
  assert (H1 : 0 <= zsum (map (weight os n r) (seq 0 r)) <= Z.of_nat r * dprod os n).
  { split.
    - apply zsum_nonneg, Forall_forall. intros x Hx. apply in_map_iff in Hx as [c [<- Hc]].
      apply in_seq in Hc. apply weight_bounds; auto; lia.
    - pose proof (zsum_map_le (weight os n r) (dprod os n) (seq 0 r)) as X.
      rewrite seq_length in X. apply X. intros c Hc. apply in_seq in Hc.
      apply weight_bounds; auto; lia. }
  assert (H2 : 0 <= zsum (map (weight os n r) (seq (S r) (n - S r))) <= Z.of_nat (n - S r) * dprod os n).
  { split.
    - apply zsum_nonneg, Forall_forall. intros x Hx. apply in_map_iff in Hx as [c [<- Hc]].
      apply in_seq in Hc. apply weight_bounds; auto; lia.
    - pose proof (zsum_map_le (weight os n r) (dprod os n) (seq (S r) (n - S r))) as X.
      rewrite seq_length in X. apply X. intros c Hc. apply in_seq in Hc.
      apply weight_bounds; auto; lia. }
  pose proof (dprod_pos os n Hos).
  replace (Z.of_nat (n - 1)) with (Z.of_nat r + Z.of_nat (n - S r)) by lia. nia.
Qed.

Definition row_ok (d : Z) (n : nat) (row : list Z) : Prop :=
  Forall (fun x => 0 <= x) row /\ zsum row = d /\ length row = n.

(* Every m[i] of the Go code (what its power iteration ranges over as
   "column") has non-negative entries that sum to one. *)
Lemma mrow_ok os n r : os_ok os -> (r < n)%nat -> row_ok (mden os n) n (mrow os n r).
Proof.
  intros Hos Hr. unfold row_ok, mrow. split; [|split].
  - apply Forall_forall. intros x Hx. apply in_map_iff in Hx as [c [<- Hc]]. apply in_seq in Hc.
    destruct (c =? r)%nat eqn:E.
    + pose proof (offsum_bound os n r Hos Hr). lia.
    + apply Nat.eqb_neq in E. apply weight_bounds; auto; lia.
  - rewrite (row_sum_split os n r _ Hr). unfold offsum. rewrite (row_sum_split os n r 0 Hr). lia.
  - now rewrite map_length, seq_length.
Qed.

Lemma matrix_rows_ok os n : os_ok os -> Forall (row_ok (mden os n) n) (matrix os n).
Proof.
  intros Hos. unfold matrix. apply Forall_forall. intros row Hrow.
  apply in_map_iff in Hrow as [r [<- Hr]]. apply in_seq in Hr. apply mrow_ok; auto; lia.
Qed.

Lemma matrix_length os n : length (matrix os n) = n.
Proof. unfold matrix. now rewrite map_length, seq_length. Qed.

Lemma mden_pos os n : os_ok os -> (2 <= n)%nat -> 0 < mden os n.
Proof. intros Hos Hn. unfold mden. pose proof (dprod_pos os n Hos). nia. Qed.

(* ---- one multiplication ---------------------------------------------------------------- *)
Lemma vadd_length a b : length a = length b -> length (vadd a b) = length a.
Proof. intros H. unfold vadd. rewrite map_length, combine_length. lia. Qed.

Lemma vadd_sum : forall a b, length a = length b -> zsum (vadd a b) = zsum a + zsum b.
Proof.
  induction a as [|x a IH]; destruct b as [|y b]; intros H; try discriminate; [reflexivity|].
  unfold vadd. cbn [combine map fst snd]. fold (vadd a b). rewrite !zsum_cons.
  rewrite IH by (cbn in H; lia). lia.
Qed.

Lemma vadd_nonneg : forall a b, Forall (fun x => 0 <= x) a -> Forall (fun x => 0 <= x) b ->
  Forall (fun x => 0 <= x) (vadd a b).
Proof.
  induction a as [|x a IH]; intros b Ha Hb; [constructor|].
  destruct b as [|y b]; [constructor|].
  unfold vadd. cbn [combine map fst snd]. fold (vadd a b).
  inversion Ha; inversion Hb; subst. constructor; [lia|apply IH; assumption].
Qed.

Lemma zsum_map_mul k l : zsum (map (Z.mul k) l) = k * zsum l.
Proof. induction l; [cbn; lia|]. cbn [map]. rewrite !zsum_cons. lia. Qed.

Lemma vstep_fold d n : forall (ps : list (Z * list Z)) acc,
  length acc = n -> Forall (fun x => 0 <= x) acc ->
  Forall (fun vr => 0 <= fst vr /\ row_ok d n (snd vr)) ps ->
  let r := fold_left (fun acc vr => vadd acc (map (Z.mul (fst vr)) (snd vr))) ps acc in
  length r = n /\ Forall (fun x => 0 <= x) r /\ zsum r = zsum acc + d * zsum (map fst ps).
Proof.
  induction ps as [|[vi row] ps IH]; intros acc Hl Hn Hps.
  - cbn [fold_left map]. repeat split; auto. change (zsum []) with 0. lia.
  - apply Forall_cons_iff in Hps as [[Hvi (Hrn & Hrs & Hrl)] Hps']. cbn [fst snd] in *.
    cbn [fold_left fst snd].
    set (acc' := vadd acc (map (Z.mul vi) row)).
    assert (Hl' : length acc' = length acc).
    { apply vadd_length. rewrite map_length. congruence. }
    assert (Hn' : Forall (fun x => 0 <= x) acc').
    { apply vadd_nonneg; [assumption|]. apply Forall_forall. intros x Hx.
      apply in_map_iff in Hx as [y [<- Hy]]. rewrite Forall_forall in Hrn. specialize (Hrn y Hy). nia. }
    destruct (IH acc' ltac:(lia) Hn' Hps') as (R1 & R2 & R3).
    repeat split; auto. rewrite R3. unfold acc'. rewrite vadd_sum by (rewrite map_length; lia).
    rewrite zsum_map_mul. cbn [map fst]. rewrite zsum_cons. rewrite Hrs. ring.
Qed.

Lemma map_fst_combine {A B} : forall (a : list A) (b : list B), length a = length b ->
  map fst (combine a b) = a.
Proof.
  induction a as [|x a IH]; destruct b as [|y b]; intros H; try discriminate; [reflexivity|].
  cbn [combine map fst]. f_equal. apply IH. cbn in H. lia.
Qed.

Definition simplex (n : nat) (vd : list Z * Z) : Prop :=
  Forall (fun x => 0 <= x) (fst vd) /\ zsum (fst vd) = snd vd /\ length (fst vd) = n /\ 0 < snd vd.

Lemma repeat_nonneg n : Forall (fun x => 0 <= x) (repeat 0 n).
Proof. apply Forall_forall. intros x Hx. apply repeat_spec in Hx. lia. Qed.

Lemma zsum_repeat0 n : zsum (repeat 0 n) = 0.
Proof. induction n; [reflexivity|]. cbn [repeat]. rewrite zsum_cons. lia. Qed.

Lemma vstep_simplex m d n v dv :
  Forall (row_ok d n) m -> length m = n -> 0 < d ->
  simplex n (v, dv) -> simplex n (vstep m n v, dv * d).
Proof.
  intros Hm Hml Hd (Hn & Hs & Hl & Hp). cbn [fst snd] in *.
  unfold vstep.
  destruct (vstep_fold d n (combine v m) (repeat 0 n)) as (R1 & R2 & R3).
  - apply repeat_length.
  - apply repeat_nonneg.
  - apply Forall_forall. intros [vi row] Hin. cbn [fst snd].
    pose proof (in_combine_l _ _ _ _ Hin) as H1. pose proof (in_combine_r _ _ _ _ Hin) as H2.
    rewrite Forall_forall in Hn, Hm. split; [apply Hn, H1|apply Hm, H2].
  - unfold simplex. cbn [fst snd]. repeat split; auto.
    + rewrite R3, zsum_repeat0, map_fst_combine by lia. lia.
    + nia.
Qed.

(* iterate_preserves_simplex: any number of iterations *)
Lemma iterate_simplex m d n : Forall (row_ok d n) m -> length m = n -> 0 < d ->
  forall k v dv, simplex n (v, dv) -> simplex n (iterate k m d n v dv).
Proof.
  intros Hm Hml Hd. induction k as [|k IH]; intros v dv H; [exact H|].
  cbn [iterate]. apply IH. apply vstep_simplex; assumption.
Qed.

(* the Go loop with its convergence test: whatever the test says, and
   wherever the fuel ends, the result is one of the iterates *)
Lemma power_iter_simplex m d n err : Forall (row_ok d n) m -> length m = n -> 0 < d ->
  forall fuel v dv, simplex n (v, dv) -> simplex n (power_iter fuel m d n err v dv).
Proof.
  intros Hm Hml Hd. induction fuel as [|f IH]; intros v dv H; [exact H|].
  cbn [power_iter].
  pose proof (vstep_simplex m d n v dv Hm Hml Hd H) as H'.
  destruct (_ <? _); [exact H'|apply IH, H'].
Qed.

Lemma power_iter_is_iterate m d n err : forall fuel v dv,
  exists k, power_iter fuel m d n err v dv = iterate k m d n v dv.
Proof.
  induction fuel as [|f IH]; intros v dv; [exists 0%nat; reflexivity|].
  cbn [power_iter]. destruct (_ <? _).
  - exists 1%nat. reflexivity.
  - destruct (IH (vstep m n v) (dv * d)) as [k Hk]. exists (S k). exact Hk.
Qed.

(* ---- start vector --------------------------------------------------------------------------- *)
Definition probs_nonneg (ps : list Q) : Prop := Forall (fun q => 0 <= Qnum q) ps.

Lemma scaled_props ps : probs_nonneg ps ->
  let '(vs, sd) := scaled ps in
  Forall (fun x => 0 <= x) vs /\ length vs = length ps /\ 0 < sd.
Proof.
  intros H. unfold scaled.
  set (sd := zprod (map (fun q => Z.pos (Qden q)) ps)).
  assert (Hsd : 0 < sd).
  { apply zprod_pos, Forall_forall. intros x Hx. apply in_map_iff in Hx as [q [<- _]]. lia. }
  split; [|split; [now rewrite map_length|exact Hsd]].
  apply Forall_forall. intros x Hx. apply in_map_iff in Hx as [q [<- Hq]].
  unfold probs_nonneg in H. rewrite Forall_forall in H. specialize (H q Hq).
  apply Z.mul_nonneg_nonneg; [exact H|]. apply Z.div_pos; lia.
Qed.

(* The start vector of the current code is always in the simplex. *)
Lemma start_vector_simplex ps : probs_nonneg ps -> simplex (S (length ps)) (start_vector ps).
Proof.
  intros H. pose proof (scaled_props ps H) as Hs. unfold start_vector.
  destruct (scaled ps) as [vs sd]. destruct Hs as (Hn & Hl & Hp).
  pose proof (zsum_nonneg vs Hn) as Hz.
  destruct (sd <? zsum vs) eqn:E; unfold simplex; cbn [fst snd length]; rewrite zsum_cons.
  - repeat split; try lia. constructor; [lia|exact Hn].
  - repeat split; try lia. constructor; [lia|exact Hn].
Qed.

(* The start vector as the unrepaired code computed it is in the simplex
   exactly if the probabilities of classes 1..n-1 are non-negative and sum to
   at most 1 (in scaled form: zsum vs <= sd). *)
Lemma start_unclamped_simplex_iff ps : probs_nonneg ps ->
  (simplex (S (length ps)) (start_vector_unclamped ps)
   <-> zsum (fst (scaled ps)) <= snd (scaled ps)).
Proof.
  intros H. pose proof (scaled_props ps H) as Hs. unfold start_vector_unclamped.
  destruct (scaled ps) as [vs sd]. destruct Hs as (Hn & Hl & Hp). cbn [fst snd].
  unfold simplex. cbn [fst snd length]. rewrite zsum_cons. split.
  - intros (Hf & _). inversion Hf; subst. lia.
  - intros Hle. repeat split; try lia. constructor; [lia|exact Hn].
Qed.

Lemma qltb_pos q : qltb 0 q = true -> 0 < Qnum q.
Proof.
  unfold qltb, Qle_bool. cbn. intros H. apply negb_true_iff in H. apply Z.leb_gt in H. lia.
Qed.

Lemma restore_nonneg q : 0 <= Qnum (restore q).
Proof.
  unfold restore. destruct (qltb 0 q) eqn:E; cbn [andb].
  - destruct (qltb q 1); [apply qltb_pos in E; lia|cbn; lia].
  - cbn. lia.
Qed.

(* ---- Q views -------------------------------------------------------------------------------------- *)
Definition qsum (l : list Q) : Q := fold_right Qplus 0%Q l.

Lemma qsum_to_prob dv l : 0 < dv -> (qsum (map (to_prob dv) l) == to_prob dv (zsum l))%Q.
Proof.
  intros Hd. induction l as [|x l IH]; [cbn; reflexivity|].
  cbn [map qsum fold_right]. fold (qsum (map (to_prob dv) l)). rewrite IH.
  unfold to_prob. rewrite Qinv_plus_distr. rewrite zsum_cons. reflexivity.
Qed.

Lemma to_prob_range dv x : 0 < dv -> 0 <= x <= dv -> (0 <= to_prob dv x <= 1)%Q.
Proof.
  intros Hd Hx. unfold to_prob, Qle. cbn [Qnum Qden]. rewrite Z2Pos.id by lia. lia.
Qed.

Lemma to_prob_le1 dv x : 0 < dv -> x <= dv -> (to_prob dv x <= 1)%Q.
Proof. intros Hd Hx. unfold to_prob, Qle. cbn [Qnum Qden]. rewrite Z2Pos.id by lia. lia. Qed.

(* ---- the scaled hypothesis of the start-vector theorems, in Q ------------------------------------- *)
Lemma qsum_scaled_gen D ps : 0 < D -> Forall (fun q => (Z.pos (Qden q) | D)) ps ->
  Qeq (qsum ps) (Qmake (zsum (map (fun q => Qnum q * (D / Z.pos (Qden q))) ps)) (Z.to_pos D)).
Proof.
  intros HD. induction 1 as [|q ps Hq Hps IH].
  - cbn. unfold Qeq. cbn. lia.
  - cbn [qsum fold_right map]. fold (qsum ps). rewrite IH, zsum_cons.
    assert (Hqe : Qeq q (Qmake (Qnum q * (D / Z.pos (Qden q))) (Z.to_pos D))).
    { unfold Qeq. cbn [Qnum Qden]. rewrite Z2Pos.id by lia.
      pose proof (div_mul_exact D (Z.pos (Qden q)) ltac:(lia) Hq). nia. }
    rewrite Hqe at 1. rewrite Qinv_plus_distr. reflexivity.
Qed.

(* the scaled hypothesis of the start-vector theorems is "sum <= 1" *)
Lemma scaled_le_iff_qsum_le_1 ps :
  zsum (fst (scaled ps)) <= snd (scaled ps) <-> (qsum ps <= 1)%Q.
Proof.
  unfold scaled. cbn [fst snd].
  set (D := zprod (map (fun q => Z.pos (Qden q)) ps)).
  assert (HD : 0 < D).
  { apply zprod_pos, Forall_forall. intros x Hx. apply in_map_iff in Hx as [q [<- _]]. lia. }
  assert (Hdiv : Forall (fun q => (Z.pos (Qden q) | D)) ps).
  { apply Forall_forall. intros q Hq. apply zprod_divide. apply in_map_iff. exists q. auto. }
  rewrite (qsum_scaled_gen D ps HD Hdiv). unfold Qle. cbn [Qnum Qden]. rewrite Z2Pos.id by lia. lia.
Qed.
