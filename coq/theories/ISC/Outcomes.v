(* Executable model of pkg/scheduler/initialsizeclass/outcomes.go.

   Durations are integers of nanoseconds (Z).  Outcomes = ascending list of
   successful execution times + a failure count.  IsFaster is modelled by
   its integer numerator ("score") and denominator; the Go code returns
   float64(score)/float64(denominator).

   The merge loop of IsFaster is transcribed branch by branch, including the
   never-read variable remainingA (it is what makes the mirrored run of
   the antisymmetry proof line up). *)
From Coq Require Import List ZArith Bool.
Import ListNotations.
Local Open Scope Z_scope.

(* ---- sort.Sort(durationsList) : only the resulting order is observable -- *)
Fixpoint insert (x : Z) (l : list Z) : list Z :=
  match l with
  | [] => [x]
  | y :: r => if x <=? y then x :: l else y :: insert x r
  end.
Definition sortz (l : list Z) : list Z := fold_right insert [] l.

Record outcomes := mkOutcomes { succs : list Z; fails : Z }.

(* NewOutcomes(successes, failures) *)
Definition new_outcomes (s : list Z) (f : Z) : outcomes := mkOutcomes (sortz s) f.

Definition zlen {A} (l : list A) : Z := Z.of_nat (length l).

(* GetMedianExecutionTime: nil (None) without successes; Go's integer
   division truncates toward zero (Z.quot). *)
Definition median (o : outcomes) : option Z :=
  match succs o with
  | [] => None
  | s =>
    let len := length s in
    let mid := Nat.div len 2 in
    let m := nth mid s 0 in
    Some (if Nat.even len then Z.quot (nth (mid - 1) s 0 + m) 2 else m)
  end.

(* Number of leading elements equal to c, and the rest.  The Go code
   consumes the first element unconditionally (it is equal to current) and
   then every following equal one. *)
Fixpoint take_eq (c : Z) (l : list Z) : nat * list Z :=
  match l with
  | x :: r => if x =? c then let '(k, r') := take_eq c r in (S k, r') else (O, l)
  | [] => (O, [])
  end.

Record mstate := mkM { m_score : Z; m_sa : list Z; m_sb : list Z; m_ra : Z; m_rb : Z }.

(* for len(successesA) > 0 && len(successesB) > 0 { ... } *)
Fixpoint merge_loop (fuel : nat) (s : mstate) : mstate :=
  match fuel with
  | O => s
  | S f =>
    match m_sa s, m_sb s with
    | a :: ra, b :: rb =>
      if a <? b then
        merge_loop f (mkM (m_score s + 2 * m_rb s) ra (m_sb s) (m_ra s - 1) (m_rb s))
      else if b <? a then
        merge_loop f (mkM (m_score s) (m_sa s) rb (m_ra s) (m_rb s - 1))
      else
        let '(ea, ra') := take_eq a (m_sa s) in
        let '(eb, rb') := take_eq a (m_sb s) in
        let ea := Z.of_nat ea in let eb := Z.of_nat eb in
        merge_loop f (mkM (m_score s + ea * (2 * m_rb s - eb)) ra' rb' (m_ra s - ea) (m_rb s - eb))
    | _, _ => s
    end
  end.

Definition count (o : outcomes) : Z := zlen (succs o) + fails o.

Definition is_faster_score (a b : outcomes) : Z :=
  let s := merge_loop (length (succs a) + length (succs b))
             (mkM (1 + count b) (succs a) (succs b) (count a) (count b)) in
  m_score s + 2 * zlen (m_sa s) * m_rb s + fails a * fails b.

Definition is_faster_den (a b : outcomes) : Z :=
  2 + count a + count b + 2 * count a * count b.
