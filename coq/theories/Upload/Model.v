(* Executable model of the worker's upload pipeline (C09):

     pkg/blobstore/batched_store_blob_access.go      Put / flushLocked / flush
     pkg/builder/storage_flushing_build_executor.go  flush, attach error, prune
     pkg/builder/caching_build_executor.go           AC write or historical response
     pkg/builder/build_executor.go                   attachErrorToExecuteResponse,
                                                     executeResponseIsSuccessful
     cmd/bb_worker/main.go                           decorator order local -> flushing -> caching

   Results of the storage calls (FindMissing, Put of each blob, the final
   AC / CAS write) are oracles: the theorems quantify over all of them,
   i.e. over every failure position; which Puts of a batch are still issued
   after one of them failed is decided by the Go runtime (semaphore vs.
   context cancellation) and is therefore part of the oracle as well.
   Status codes are gRPC codes, 0 = OK.  Blobs are identified by their
   digest (a number); a buffer by its position in the action's uploads. *)
From Coq Require Export List NArith Bool Arith.
Export ListNotations.
Open Scope N_scope.

Inductive role := RFile | RTree | RStdout | RStderr | ROther.
Record blob := mkBlob { bl_dig : N; bl_role : role }.

(* What the innermost (local) executor does for one action: uploads, in this
   order, through the batching layer; exit code and own status; the
   action's do_not_cache flag. *)
Record action := mkAction { a_blobs : list blob; a_exit : N; a_status : N; a_dnc : bool }.

(* One call into the batching layer as seen from outside: its return code,
   the FindMissing it issued (digests asked, sorted; result code) and the
   Puts that reached the CAS (digest, result code). *)
Record ocall := mkOC { oc_ret : N; oc_fm : option (list N * N); oc_puts : list (N * N) }.

Record resp := mkResp {
  r_code : N; r_exit : N;
  r_files : list N; r_trees : list N; r_stdout : option N; r_stderr : option N;
  r_msg : N }.   (* 0 no link, 1 "cached result", 2 "uncached result" *)

(* Everything observable about one action. *)
Record oaction := mkOA {
  oa_puts : list ocall;              (* one per upload *)
  oa_flush : ocall;                  (* the flush of the flushing executor *)
  oa_final : option (bool * N);      (* true = AC Put, false = historical response Put; result *)
  oa_resp : resp;
  oa_ac : option (list N);           (* digests referenced by the AC entry of this action *)
  oa_cas : list N;                   (* CAS contents afterwards, sorted *)
  oa_closes : list nat }.            (* how often each upload's buffer was consumed *)

(* ---- oracles ---------------------------------------------------------------- *)

(* o_err: the error group.Wait returned for the batch, when it returned one.
   Several goroutines of the errgroup can fail (Puts with different codes,
   AcquireSemaphore on a cancelled context); the first one to report wins,
   which the Go scheduler decides. *)
Record oracle := mkO { o_fm : N; o_puts : list (N * N); o_err : N }.
Record aoracle := mkAO { ao_puts : list (option oracle); ao_flush : oracle; ao_final : N }.

(* ---- helpers ------------------------------------------------------------------ *)

Definition memN (d : N) (l : list N) : bool := existsb (N.eqb d) l.

Fixpoint insertN (x : N) (l : list N) : list N :=
  match l with
  | [] => [x]
  | y :: t => if x <=? y then x :: l else y :: insertN x t
  end.
Definition sortN (l : list N) : list N := fold_right insertN [] l.

Fixpoint addN (x : N) (l : list N) : list N :=   (* sorted set insert *)
  match l with
  | [] => [x]
  | y :: t => if x =? y then l else if x <? y then x :: l else y :: addN x t
  end.

(* ---- batched store -------------------------------------------------------------- *)

Record bstore := mkB {
  b_pending : list (N * nat);   (* pendingPutOperations: digest, buffer; insertion order *)
  b_ferr : N }.                 (* flushError, 0 = nil *)

Definition binit := mkB [] 0.

Definition keys (b : bstore) : list N := map fst (b_pending b).

(* blobs of the batch that FindMissing reports missing (the CAS is truthful) *)
Definition expected (b : bstore) (cas : list N) : list N :=
  filter (fun d => negb (memN d cas)) (keys b).

Definition first_failure (puts : list (N * N)) : N :=
  match filter (fun p => negb (snd p =? 0)) puts with
  | [] => 0
  | p :: _ => snd p
  end.

Definition was_put (puts : list (N * N)) (d : N) : bool := existsb (fun p => fst p =? d) puts.

(* The Puts of the oracle that can have happened: FindMissing succeeded and
   the blob is a missing blob of the batch. *)
Definition eff (exp : list N) (o : oracle) : list (N * N) :=
  if o_fm o =? 0 then filter (fun p => memN (fst p) exp) (o_puts o) else [].

(* Some failed Put of the batch returned code [e]. *)
Definition failed_code (ps : list (N * N)) (e : N) : bool :=
  existsb (fun p => negb (snd p =? 0) && (snd p =? e)) ps.

(* util.StatusFromContext of a done context: CANCELLED or DEADLINE_EXCEEDED *)
Definition ctx_code (e : N) : bool := (e =? 1) || (e =? 4).

(* The errors group.Wait can return: the code of a failed Put, or, if a Put
   was not issued (AcquireSemaphore saw a done context: the errgroup's after
   a failure, or the caller's), the context's code. *)
Definition admissible (ps : list (N * N)) (all_issued : bool) (e : N) : bool :=
  negb (e =? 0) && (failed_code ps e || (negb all_issued && ctx_code e)).

Definition flush_error (ferr : N) (exp : list N) (o : oracle) : N :=
  if negb (o_fm o =? 0) then o_fm o
  else match exp with
       | [] => ferr
       | _ =>
         let ps := eff exp o in
         let ff := first_failure ps in
         let all_issued := forallb (was_put ps) exp in
         if (ff =? 0) && all_issued then ferr
         else if admissible ps all_issued (o_err o) then o_err o
         else if negb (ff =? 0) then ff
         else 1   (* a Put was not issued: AcquireSemaphore saw a cancelled context *)
       end.

Definition stored (exp : list N) (o : oracle) : list N :=
  map fst (filter (fun p => snd p =? 0) (eff exp o)).

(* Are the Puts the oracle claims possible at all: only missing blobs of the
   batch, each at most once.  (Used by the correspondence check only.) *)
Fixpoint nodupN (l : list N) : bool :=
  match l with [] => true | x :: t => negb (memN x t) && nodupN t end.
Definition err_possible (exp : list N) (o : oracle) : bool :=
  if negb (o_fm o =? 0) then true
  else match exp with
       | [] => true
       | _ =>
         let ps := eff exp o in
         let all_issued := forallb (was_put ps) exp in
         if (first_failure ps =? 0) && all_issued then true else admissible ps all_issued (o_err o)
       end.
Definition puts_possible (exp : list N) (o : oracle) : bool :=
  (if negb (o_fm o =? 0) then match o_puts o with [] => true | _ => false end
   else forallb (fun p => memN (fst p) exp) (o_puts o) && nodupN (map fst (o_puts o)))
  && err_possible exp o.

(* flushLocked: every pending buffer is consumed (handed to the CAS or
   discarded by the deferred function), the batch is emptied. *)
Definition flush_locked (b : bstore) (cas : list N) (o : oracle)
    : bstore * list N * list nat :=
  let exp := expected b cas in
  (mkB [] (flush_error (b_ferr b) exp o),
   fold_right addN cas (stored exp o),
   map snd (b_pending b)).

Definition flush_call (b : bstore) (cas : list N) (o : oracle) (ret : N) : ocall :=
  mkOC ret (Some (sortN (keys b), o_fm o)) (eff (expected b cas) o).

Definition no_oracle := mkO 0 [] 0.

(* batchedStoreBlobAccess.Put.  Returns the new store and CAS, the call as
   observed, the buffers consumed during the call, and whether the oracle
   was used consistently. *)
Definition bput (batch : nat) (b : bstore) (cas : list N) (d : N) (buf : nat) (o : option oracle)
    : bstore * list N * ocall * list nat * bool :=
  if memN d (keys b) then (b, cas, mkOC 0 None [], [buf], match o with None => true | _ => false end)
  else if (batch <=? length (b_pending b))%nat then
    let oo := match o with Some x => x | None => no_oracle end in
    let '(b1, cas1, used) := flush_locked b cas oo in
    let okc := match o with Some x => puts_possible (expected b cas) x | None => false end in
    if negb (b_ferr b1 =? 0) then (b1, cas1, flush_call b cas oo (b_ferr b1), used ++ [buf], okc)
    else (mkB (b_pending b1 ++ [(d, buf)]) (b_ferr b1), cas1, flush_call b cas oo 0, used, okc)
  else
    if negb (b_ferr b =? 0) then (b, cas, mkOC (b_ferr b) None [], [buf], match o with None => true | _ => false end)
    else (mkB (b_pending b ++ [(d, buf)]) (b_ferr b), cas, mkOC 0 None [], [], match o with None => true | _ => false end).

(* the flush function returned by NewBatchedStoreBlobAccess *)
Definition bflush (b : bstore) (cas : list N) (o : oracle) : bstore * list N * ocall * list nat * bool :=
  let '(b1, cas1, used) := flush_locked b cas o in
  (mkB [] 0, cas1, flush_call b cas o (b_ferr b1), used, puts_possible (expected b cas) o).

(* ---- executors -------------------------------------------------------------------- *)

(* attachErrorToExecuteResponse: the first error wins *)
Definition attach (r : resp) (c : N) : resp :=
  if r_code r =? 0 then mkResp c (r_exit r) (r_files r) (r_trees r) (r_stdout r) (r_stderr r) (r_msg r) else r.

Definition prune (r : resp) : resp := mkResp (r_code r) (r_exit r) [] [] None None (r_msg r).
Definition set_msg (r : resp) (m : N) : resp :=
  mkResp (r_code r) (r_exit r) (r_files r) (r_trees r) (r_stdout r) (r_stderr r) m.

Definition successful (r : resp) : bool := (r_code r =? 0) && (r_exit r =? 0).

Definition opt_list (o : option N) : list N := match o with Some x => [x] | None => [] end.
Definition refs (r : resp) : list N := r_files r ++ r_trees r ++ opt_list (r_stdout r) ++ opt_list (r_stderr r).

Definition is_role (k : role) (b : blob) : bool :=
  match k, bl_role b with
  | RFile, RFile | RTree, RTree | RStdout, RStdout | RStderr, RStderr | ROther, ROther => true
  | _, _ => false
  end.
Definition digs_of (k : role) (bs : list blob) : list N := map bl_dig (filter (is_role k) bs).

(* The innermost executor: uploads through the batching layer; an upload
   error is attached to the response (first error wins); the result names
   the uploaded blobs by role. *)
Fixpoint local_uploads (batch : nat) (b : bstore) (cas : list N) (bs : list blob) (i : nat)
    (os : list (option oracle)) (code : N)
    : bstore * list N * list ocall * list nat * bool * N :=
  match bs with
  | [] => (b, cas, [], [], match os with [] => true | _ => false end, code)
  | x :: bs' =>
    let '(b1, cas1, c, used, ok1) := bput batch b cas (bl_dig x) i (hd None os) in
    let code1 := if (code =? 0) then oc_ret c else code in
    let '(b2, cas2, cs, used2, ok2, code2) := local_uploads batch b1 cas1 bs' (S i) (tl os) code1 in
    (b2, cas2, c :: cs, used ++ used2, ok1 && ok2, code2)
  end.

Definition local_resp (a : action) (code : N) : resp :=
  mkResp code (a_exit a) (digs_of RFile (a_blobs a)) (digs_of RTree (a_blobs a))
         (hd_error (digs_of RStdout (a_blobs a))) (hd_error (digs_of RStderr (a_blobs a))) 0.

Definition count_nat (x : nat) (l : list nat) : nat := length (filter (Nat.eqb x) l).

(* caching(flushing(local)) on one action.  Returns store, CAS, what is
   observable, and whether the oracle fitted. *)
Definition run_action (batch : nat) (b : bstore) (cas : list N) (a : action) (ao : aoracle)
    : bstore * list N * oaction * bool :=
  (* local *)
  let '(b1, cas1, calls, used1, ok1, code1) :=
    local_uploads batch b cas (a_blobs a) 0 (ao_puts ao) (a_status a) in
  let r1 := local_resp a code1 in
  (* storage flushing executor *)
  let '(b2, cas2, fcall, used2, ok2) := bflush b1 cas1 (ao_flush ao) in
  let r2 := if negb (oc_ret fcall =? 0) then prune (attach r1 (oc_ret fcall)) else r1 in
  (* caching executor *)
  let cacheable := negb (a_dnc a) && successful r2 in
  let r3 := if ao_final ao =? 0 then set_msg r2 (if cacheable then 1 else 2) else attach r2 (ao_final ao) in
  let ac := if cacheable && (ao_final ao =? 0) then Some (refs r2) else None in
  let used := used1 ++ used2 in
  (b2, cas2,
   mkOA calls fcall (Some (cacheable, ao_final ao)) r3 ac cas2
        (map (fun i => count_nat i used) (seq 0 (length (a_blobs a)))),
   ok1 && ok2).

Fixpoint run_actions (batch : nat) (b : bstore) (cas : list N) (l : list (action * aoracle))
    : list (action * oaction) :=
  match l with
  | [] => []
  | (a, ao) :: t =>
    let '(b', cas', o, _) := run_action batch b cas a ao in
    (a, o) :: run_actions batch b' cas' t
  end.
