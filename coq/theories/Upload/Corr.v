(* Correspondence evaluator for the upload pipeline. *)
From VF Require Import Common.Verdict Upload.Model Upload.Spec.
Open Scope N_scope.

Record case := mkCase {
  c_batch : nat;
  c_cas0 : list N;                         (* CAS before the first action, sorted *)
  c_actions : list (action * oaction) }.   (* script and what the implementation did *)

(* ---- violations: P on the implementation's observations --------------------- *)

Fixpoint viol_from (i : nat) (l : list (action * oaction)) : verdict :=
  match l with
  | [] => VOk
  | (a, o) :: t =>
    let k := p_action a o in
    if String.eqb k "" then viol_from (S i) t else VViolation i k
  end.

(* ---- mismatches -------------------------------------------------------------- *)

Fixpoint listN_eqb (a b : list N) : bool :=
  match a, b with
  | [], [] => true
  | x :: a', y :: b' => (x =? y) && listN_eqb a' b'
  | _, _ => false
  end.

Definition optN_eqb (a b : option N) : bool :=
  match a, b with Some x, Some y => x =? y | None, None => true | _, _ => false end.

Fixpoint pairs_eqb (a b : list (N * N)) : bool :=
  match a, b with
  | [], [] => true
  | (x1, x2) :: a', (y1, y2) :: b' => (x1 =? y1) && (x2 =? y2) && pairs_eqb a' b'
  | _, _ => false
  end.

Definition ocall_eqb (a b : ocall) : bool :=
  (oc_ret a =? oc_ret b) &&
  match oc_fm a, oc_fm b with
  | Some (l1, r1), Some (l2, r2) => listN_eqb l1 l2 && (r1 =? r2)
  | None, None => true
  | _, _ => false
  end && pairs_eqb (oc_puts a) (oc_puts b).

Fixpoint ocalls_eqb (a b : list ocall) : bool :=
  match a, b with
  | [], [] => true
  | x :: a', y :: b' => ocall_eqb x y && ocalls_eqb a' b'
  | _, _ => false
  end.

Definition resp_eqb (a b : resp) : bool :=
  (r_code a =? r_code b) && (r_exit a =? r_exit b) && listN_eqb (r_files a) (r_files b)
  && listN_eqb (r_trees a) (r_trees b) && optN_eqb (r_stdout a) (r_stdout b)
  && optN_eqb (r_stderr a) (r_stderr b) && (r_msg a =? r_msg b).

Fixpoint nats_eqb (a b : list nat) : bool :=
  match a, b with
  | [], [] => true
  | x :: a', y :: b' => Nat.eqb x y && nats_eqb a' b'
  | _, _ => false
  end.

(* The oracle is read off the observation: results of the calls that were
   made, and the error the call returned (the errgroup's pick).  The model then has to reproduce everything else. *)
Definition oracle_of (c : ocall) : option oracle :=
  match oc_fm c with
  | Some (_, r) => Some (mkO r (oc_puts c) (oc_ret c))
  | None => None
  end.

Definition aoracle_of (o : oaction) : aoracle :=
  mkAO (map oracle_of (oa_puts o))
       (match oracle_of (oa_flush o) with Some x => x | None => no_oracle end)
       (match oa_final o with Some (_, r) => r | None => 0 end).

Definition compare (m o : oaction) : string :=
  if negb (ocalls_eqb (oa_puts m) (oa_puts o)) then "uploads"
  else if negb (ocall_eqb (oa_flush m) (oa_flush o)) then "flush"
  else if negb (match oa_final m, oa_final o with
                | Some (k1, r1), Some (k2, r2) => Bool.eqb k1 k2 && (r1 =? r2)
                | None, None => true | _, _ => false end) then "final write"
  else if negb (resp_eqb (oa_resp m) (oa_resp o)) then "response"
  else if negb (match oa_ac m, oa_ac o with
                | Some x, Some y => listN_eqb x y | None, None => true | _, _ => false end) then "action cache"
  else if negb (listN_eqb (oa_cas m) (oa_cas o)) then "CAS contents"
  else if negb (nats_eqb (oa_closes m) (oa_closes o)) then "buffer consumption"
  else "".

Fixpoint mism_from (batch : nat) (i : nat) (b : bstore) (cas : list N) (l : list (action * oaction)) : verdict :=
  match l with
  | [] => VOk
  | (a, o) :: t =>
    let '(b', cas', m, fits) := run_action batch b cas a (aoracle_of o) in
    let k := compare m o in
    if negb (String.eqb k "") then VMismatch i k
    else if negb fits then VMismatch i "storage calls the model cannot explain"
    else mism_from batch (S i) b' cas' t
  end.

Definition check_case (c : case) : verdict :=
  vcombine (viol_from 0 (c_actions c))
           (mism_from (c_batch c) 0 binit (c_cas0 c) (c_actions c)).
