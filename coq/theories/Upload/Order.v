(* The decorator order and storage wiring that VF.Upload.Model.run_action
   assumes; harness/cmd/uploadorder regenerates the actual order from
   cmd/bb_worker/main.go on every run and checks/C09.py compares the two
   by reflexivity (generated theorems order_matches, wiring_matches, ...). *)
From Coq Require Import String List Bool.
Import ListNotations.
Open Scope string_scope.

(* run_action composes: the local executor (uploads through the batching
   layer), then the storage flushing executor, then the caching executor. *)
Definition assumed_order : list string := ["Local"; "StorageFlushing"; "Caching"].

Definition touches_storage (d : string) : bool :=
  existsb (String.eqb d) assumed_order.

Definition storage_decorators (l : list string) : list string := filter touches_storage l.

(* Decorators of pkg/builder that were read and found not to write to the
   CAS or the AC nor to change Status / Result digests between the three
   above.  A decorator not listed here makes the obligation fail: the
   composition theorem then no longer covers the worker's stack. *)
Definition known_decorator (d : string) : bool :=
  existsb (String.eqb d)
    ["Local"; "Prefetching"; "StorageFlushing"; "Timestamped"; "FilePoolStats"; "Metrics";
     "CostComputing"; "TestInfrastructureFailureDetecting"; "Caching"; "CompletedActionLogging";
     "Logging"; "Tracing"; "NoopBuildExecutor"].

Record wiring := mkWiring {
  w_local_uploads_to_batched_writer : bool;   (* NewLocalBuildExecutor's CAS is the writer of NewBatchedStoreBlobAccess *)
  w_flusher_is_batched_flusher : bool;        (* NewStorageFlushingBuildExecutor gets the flusher of the same call *)
  w_caching_cas_is_unbatched : bool;          (* NewCachingBuildExecutor writes to the store the batching layer wraps *)
  w_caching_ac_is_separate : bool }.          (* ... and to an Action Cache that is a different object *)

Definition assumed_wiring := mkWiring true true true true.
