(* Proofs for the upload pipeline model: for every batch size, upload list
   (with duplicates), action outcome and every result of every storage call. *)
From Coq Require Import Lia.
From VF Require Import Upload.Model Upload.Spec.
Open Scope N_scope.

(* ---- sets as lists ------------------------------------------------------------ *)

Lemma memN_In : forall d l, memN d l = true <-> In d l.
Proof.
  intros d l. unfold memN. rewrite existsb_exists. split.
  - intros (x & Hin & He). apply N.eqb_eq in He. subst. exact Hin.
  - intros H. exists d. split; [exact H | apply N.eqb_refl].
Qed.

Lemma memN_addN : forall d x l, memN d (addN x l) = (d =? x) || memN d l.
Proof.
  intros d x l. induction l as [|y t IH]; cbn.
  - reflexivity.
  - destruct (x =? y) eqn:Exy.
    + apply N.eqb_eq in Exy. subst y. cbn.
      destruct (d =? x); reflexivity.
    + destruct (x <? y); cbn.
      * reflexivity.
      * fold (memN d (addN x t)). rewrite IH. fold (memN d t).
        destruct (d =? y), (d =? x); reflexivity.
Qed.

Lemma memN_fold_addN : forall d l cas,
  memN d (fold_right addN cas l) = memN d l || memN d cas.
Proof.
  intros d l cas. induction l as [|x t IH]; cbn [fold_right].
  - reflexivity.
  - rewrite memN_addN, IH. cbn. fold (memN d t). destruct (d =? x); reflexivity.
Qed.

(* ---- one flush ------------------------------------------------------------------ *)

Lemma first_failure_zero : forall ps, first_failure ps = 0 -> forall p, In p ps -> snd p = 0.
Proof.
  intros ps H p Hin. unfold first_failure in H.
  destruct (filter (fun p => negb (snd p =? 0)) ps) as [|q t] eqn:E.
  - destruct (snd p =? 0) eqn:Ep; [apply N.eqb_eq in Ep; exact Ep|].
    assert (In p (filter (fun p => negb (snd p =? 0)) ps)) as Hf
      by (apply filter_In; split; [exact Hin | rewrite Ep; reflexivity]).
    rewrite E in Hf. destruct Hf.
  - assert (In q (filter (fun p => negb (snd p =? 0)) ps)) as Hf by (rewrite E; left; reflexivity).
    apply filter_In in Hf. destruct Hf as (_ & Hq). rewrite H in Hq. discriminate.
Qed.

Lemma first_failure_nonzero : forall ps,
  existsb (fun p => negb (snd p =? 0)) ps = true -> first_failure ps <> 0.
Proof.
  intros ps H Hz. apply existsb_exists in H. destruct H as (p & Hin & Hp).
  rewrite (first_failure_zero ps Hz p Hin) in Hp. discriminate.
Qed.

Lemma eff_nil : forall o, eff [] o = [].
Proof.
  intros o. unfold eff. destruct (o_fm o =? 0); [|reflexivity].
  induction (o_puts o) as [|p t IH]; cbn; [reflexivity | exact IH].
Qed.

Lemma admissible_nonzero : forall ps a e, admissible ps a e = true -> e <> 0.
Proof.
  intros ps a e H. unfold admissible in H. apply andb_true_iff in H. destruct H as (H & _).
  apply negb_true_iff, N.eqb_neq in H. exact H.
Qed.

Lemma flush_error_sticky : forall ferr exp o, ferr <> 0 -> flush_error ferr exp o <> 0.
Proof.
  intros ferr exp o H. unfold flush_error.
  destruct (o_fm o =? 0) eqn:Efm; cbn.
  - destruct exp as [|e t]; [exact H|].
    destruct ((first_failure (eff (e :: t) o) =? 0) && forallb (was_put (eff (e :: t) o)) (e :: t)); [exact H|].
    destruct (admissible _ _ (o_err o)) eqn:Ea; [apply admissible_nonzero in Ea; exact Ea|].
    destruct (first_failure (eff (e :: t) o) =? 0) eqn:Eff; cbn [negb]; [discriminate|].
    apply N.eqb_neq in Eff. exact Eff.
  - apply N.eqb_neq in Efm. exact Efm.
Qed.

Lemma flush_error_zero : forall ferr exp o,
  flush_error ferr exp o = 0 ->
  ferr = 0 /\ forall d, In d exp -> In d (stored exp o).
Proof.
  intros ferr exp o H. unfold flush_error in H.
  destruct (o_fm o =? 0) eqn:Efm; cbn in H.
  2:{ apply N.eqb_neq in Efm. contradiction. }
  destruct exp as [|e t]; [split; [exact H | intros d []]|].
  destruct ((first_failure (eff (e :: t) o) =? 0) && forallb (was_put (eff (e :: t) o)) (e :: t)) eqn:Eok.
  2:{ exfalso. destruct (admissible _ _ (o_err o)) eqn:Ea; [apply admissible_nonzero in Ea; contradiction|].
      destruct (first_failure (eff (e :: t) o) =? 0) eqn:Eff; cbn [negb] in H; [discriminate|].
      apply N.eqb_neq in Eff. contradiction. }
  apply andb_true_iff in Eok. destruct Eok as (Eff & Eall). apply N.eqb_eq in Eff.
  split; [exact H|].
  intros d Hd. rewrite forallb_forall in Eall. specialize (Eall d Hd).
  unfold was_put in Eall. apply existsb_exists in Eall. destruct Eall as (p & Hp & Hpd).
  apply N.eqb_eq in Hpd. unfold stored. apply in_map_iff. exists p. split; [exact Hpd|].
  apply filter_In. split; [exact Hp|].
  rewrite (first_failure_zero _ Eff p Hp). reflexivity.
Qed.

Definition safe (b : bstore) (cas : list N) (d : N) : Prop :=
  memN d cas = true \/ memN d (keys b) = true \/ b_ferr b <> 0.

Lemma flush_locked_spec : forall b cas o b' cas' used,
  flush_locked b cas o = (b', cas', used) ->
  b_pending b' = [] /\
  used = map snd (b_pending b) /\
  (b_ferr b <> 0 -> b_ferr b' <> 0) /\
  (forall d, memN d cas = true -> memN d cas' = true) /\
  (b_ferr b' = 0 -> forall d, safe b cas d -> memN d cas' = true) /\
  (forall ret, call_failed (flush_call b cas o ret) = true -> b_ferr b' <> 0).
Proof.
  intros b cas o b' cas' used H. unfold flush_locked in H. inversion H; subst; clear H. cbn.
  split; [reflexivity|]. split; [reflexivity|]. split; [apply flush_error_sticky|].
  split.
  { intros d Hd. rewrite memN_fold_addN, Hd. apply orb_true_r. }
  split.
  { intros Hz d Hs. apply flush_error_zero in Hz. destruct Hz as (Hf & Hst).
    rewrite memN_fold_addN. destruct Hs as [Hc | [Hk | Hf']]; [rewrite Hc; apply orb_true_r | | contradiction].
    destruct (memN d cas) eqn:Ec; [apply orb_true_r|]. rewrite orb_false_r.
    apply memN_In. apply Hst. unfold expected. apply filter_In. split.
    - apply memN_In. exact Hk.
    - rewrite Ec. reflexivity. }
  intros ret Hcf. unfold call_failed, flush_call in Hcf. cbn in Hcf.
  unfold flush_error. destruct (o_fm o =? 0) eqn:Efm; cbn in *.
  - destruct (expected b cas) as [|e t] eqn:Eexp.
    + rewrite eff_nil in Hcf. discriminate.
    + apply first_failure_nonzero in Hcf.
      destruct (first_failure (eff (e :: t) o) =? 0) eqn:Eff; cbn [negb andb].
      * apply N.eqb_eq in Eff. contradiction.
      * destruct (admissible _ _ (o_err o)) eqn:Ea; [apply admissible_nonzero in Ea; exact Ea | exact Hcf].
  - apply N.eqb_neq in Efm. exact Efm.
Qed.

(* ---- the batching layer's Put and flush ------------------------------------------ *)

Lemma memN_app : forall d l1 l2, memN d (l1 ++ l2) = memN d l1 || memN d l2.
Proof. intros. unfold memN. apply existsb_app. Qed.

Lemma keys_snoc : forall l d buf f, keys (mkB (l ++ [(d, buf)]) f) = keys (mkB l f) ++ [d].
Proof. intros. unfold keys. cbn. rewrite map_app. reflexivity. Qed.

Lemma bput_spec : forall batch b cas d buf o b1 cas1 c used ok,
  bput batch b cas d buf o = (b1, cas1, c, used, ok) ->
  (b_ferr b <> 0 -> b_ferr b1 <> 0) /\
  (forall x, safe b cas x -> safe b1 cas1 x) /\
  (oc_ret c = 0 -> safe b1 cas1 d) /\
  (oc_ret c <> 0 -> b_ferr b1 <> 0) /\
  (call_failed c = true -> b_ferr b1 <> 0).
Proof.
  intros batch b cas d buf o b1 cas1 c used ok H. unfold bput in H.
  destruct (memN d (keys b)) eqn:Ek.
  { inversion H; subst; clear H. cbn.
    repeat split; try tauto; try discriminate.
    intros _. right. left. exact Ek. }
  destruct (batch <=? length (b_pending b))%nat eqn:Efull.
  - destruct (flush_locked b cas (match o with Some x => x | None => no_oracle end))
      as [[b' cas'] used'] eqn:Efl.
    destruct (flush_locked_spec _ _ _ _ _ _ Efl) as (Hp & _ & Hst & Hmono & Hsafe & Hcf).
    destruct (b_ferr b' =? 0) eqn:Ez; cbn [negb] in H; inversion H; subst; clear H.
    + apply N.eqb_eq in Ez. cbn.
      split; [intros Hb; apply Hst in Hb; contradiction|].
      split; [intros x Hx; left; apply Hsafe; assumption|].
      split; [intros _; right; left; rewrite Hp; cbn; rewrite N.eqb_refl; reflexivity|].
      split; [intros Hn; contradiction|].
      intros Hc. apply Hcf in Hc. contradiction.
    + apply N.eqb_neq in Ez. cbn.
      split; [intros _; exact Ez|].
      split; [intros x _; right; right; exact Ez|].
      split; [intros Hr; contradiction|].
      split; intros _; exact Ez.
  - destruct (b_ferr b =? 0) eqn:Ez; cbn [negb] in H; inversion H; subst; clear H.
    + apply N.eqb_eq in Ez. cbn.
      split; [intros Hb; contradiction|].
      split.
      { intros x [Hx | [Hx | Hx]]; [left; exact Hx | | contradiction].
        right. left. rewrite keys_snoc, memN_app.
        replace (keys (mkB (b_pending b) (b_ferr b))) with (keys b) by reflexivity.
        rewrite Hx. reflexivity. }
      split.
      { intros _. right. left. rewrite keys_snoc, memN_app. cbn. rewrite N.eqb_refl. apply orb_true_r. }
      split; [intros Hn; contradiction | discriminate].
    + apply N.eqb_neq in Ez. cbn.
      split; [intros _; exact Ez|].
      split; [intros x Hx; exact Hx|].
      split; [intros Hr; contradiction|].
      split; [intros _; exact Ez | discriminate].
Qed.

Lemma bflush_spec : forall b cas o b1 cas1 c used ok,
  bflush b cas o = (b1, cas1, c, used, ok) ->
  b1 = binit /\
  used = map snd (b_pending b) /\
  (b_ferr b <> 0 -> oc_ret c <> 0) /\
  (call_failed c = true -> oc_ret c <> 0) /\
  (forall x, memN x cas = true -> memN x cas1 = true) /\
  (oc_ret c = 0 -> forall x, safe b cas x -> memN x cas1 = true).
Proof.
  intros b cas o b1 cas1 c used ok H. unfold bflush in H.
  destruct (flush_locked b cas o) as [[b' cas'] used'] eqn:Efl.
  destruct (flush_locked_spec _ _ _ _ _ _ Efl) as (Hp & Hu & Hst & Hmono & Hsafe & Hcf).
  inversion H; subst; clear H. cbn.
  split; [reflexivity|]. split; [reflexivity|].
  split; [exact Hst|]. split; [apply Hcf|]. split; [exact Hmono | exact Hsafe].
Qed.

(* ---- the innermost executor's uploads --------------------------------------------- *)

Lemma local_uploads_spec : forall batch bs b cas i os code b2 cas2 cs used ok code2,
  local_uploads batch b cas bs i os code = (b2, cas2, cs, used, ok, code2) ->
  length cs = length bs /\
  (b_ferr b <> 0 -> b_ferr b2 <> 0) /\
  (forall x, safe b cas x -> safe b2 cas2 x) /\
  (forall x, In x (acked bs cs) -> safe b2 cas2 x) /\
  (existsb call_failed cs = true -> b_ferr b2 <> 0) /\
  (code <> 0 -> code2 <> 0) /\
  (code2 = 0 -> code = 0 /\ acked bs cs = map bl_dig bs).
Proof.
  intros batch bs. induction bs as [|x bs IH]; intros b cas i os code b2 cas2 cs used ok code2 H.
  - cbn in H. inversion H; subst; clear H. cbn.
    repeat split; try tauto; try discriminate.
  - cbn [local_uploads] in H.
    destruct (bput batch b cas (bl_dig x) i (hd None os)) as [[[[b1 cas1] c] u1] ok1] eqn:Ep.
    destruct (local_uploads batch b1 cas1 bs (S i) (tl os) (if code =? 0 then oc_ret c else code))
      as [[[[[b2' cas2'] cs'] u2] ok2] code2'] eqn:El.
    inversion H; subst; clear H.
    destruct (bput_spec _ _ _ _ _ _ _ _ _ _ _ Ep) as (P1 & P2 & P3 & P4 & P5).
    destruct (IH _ _ _ _ _ _ _ _ _ _ _ El) as (L0 & L1 & L2 & L3 & L4 & L5 & L6).
    split; [cbn; rewrite L0; reflexivity|].
    split; [intros Hb; apply L1, P1, Hb|].
    split; [intros y Hy; apply L2, P2, Hy|].
    split.
    { intros y Hy. cbn [acked] in Hy. destruct (oc_ret c =? 0) eqn:Er.
      - destruct Hy as [Hy | Hy]; [subst y; apply L2, P3; apply N.eqb_eq; exact Er | apply L3; exact Hy].
      - apply L3; exact Hy. }
    split.
    { intros Hc. cbn [existsb] in Hc. apply orb_true_iff in Hc. destruct Hc as [Hc | Hc].
      - apply L1, P5, Hc.
      - apply L4, Hc. }
    split.
    { intros Hc. apply L5. destruct (code =? 0) eqn:Ec; [apply N.eqb_eq in Ec; contradiction | exact Hc]. }
    intros Hz. destruct (L6 Hz) as (Hc1 & Hack).
    destruct (code =? 0) eqn:Ec.
    + apply N.eqb_eq in Ec. split; [exact Ec|].
      cbn [acked map]. rewrite Hc1, N.eqb_refl, Hack. reflexivity.
    + apply N.eqb_neq in Ec. contradiction.
Qed.

(* ---- responses ------------------------------------------------------------------------ *)

Lemma attach_code_nonzero : forall r c, c <> 0 -> r_code (attach r c) <> 0.
Proof.
  intros r c Hc. unfold attach. destruct (r_code r =? 0) eqn:E; cbn.
  - exact Hc.
  - apply N.eqb_neq in E. exact E.
Qed.

Lemma attach_keeps_error : forall r c, r_code r <> 0 -> attach r c = r.
Proof.
  intros r c H. unfold attach. apply N.eqb_neq in H. rewrite H. reflexivity.
Qed.

Lemma digs_of_incl : forall k bs d, In d (digs_of k bs) -> In d (map bl_dig bs).
Proof.
  intros k bs d H. unfold digs_of in H. apply in_map_iff in H. destruct H as (x & Hx & Hin).
  apply filter_In in Hin. apply in_map_iff. exists x. tauto.
Qed.

Lemma hd_error_incl : forall (l : list N) d, In d (opt_list (hd_error l)) -> In d l.
Proof. intros [|x t] d H; cbn in H; [destruct H | destruct H as [H | []]; left; exact H]. Qed.

Lemma refs_local_incl : forall a code d, In d (refs (local_resp a code)) -> In d (map bl_dig (a_blobs a)).
Proof.
  intros a code d H. unfold refs, local_resp in H. cbn in H.
  repeat (apply in_app_or in H; destruct H as [H | H]);
    eauto using digs_of_incl, hd_error_incl.
Qed.

(* ---- one action through caching(flushing(local)) ------------------------------------------ *)

Section Action.
  Variables (batch : nat) (b : bstore) (cas : list N) (a : action) (ao : aoracle).
  Variables (b2 : bstore) (cas2 : list N) (o : oaction) (fits : bool).
  Hypothesis Hrun : run_action batch b cas a ao = (b2, cas2, o, fits).

  (* the pieces of run_action *)
  Lemma run_action_inv :
    exists b1 cas1 calls used1 ok1 code1 fcall used2 ok2,
      local_uploads batch b cas (a_blobs a) 0 (ao_puts ao) (a_status a) = (b1, cas1, calls, used1, ok1, code1) /\
      bflush b1 cas1 (ao_flush ao) = (b2, cas2, fcall, used2, ok2) /\
      let r1 := local_resp a code1 in
      let r2 := if negb (oc_ret fcall =? 0) then prune (attach r1 (oc_ret fcall)) else r1 in
      let cacheable := negb (a_dnc a) && successful r2 in
      oa_puts o = calls /\ oa_flush o = fcall /\ oa_cas o = cas2 /\
      oa_final o = Some (cacheable, ao_final ao) /\
      oa_resp o = (if ao_final ao =? 0 then set_msg r2 (if cacheable then 1 else 2) else attach r2 (ao_final ao)) /\
      oa_ac o = (if cacheable && (ao_final ao =? 0) then Some (refs r2) else None) /\
      oa_closes o = map (fun i => count_nat i (used1 ++ used2)) (seq 0 (length (a_blobs a))).
  Proof.
    unfold run_action in Hrun.
    destruct (local_uploads batch b cas (a_blobs a) 0 (ao_puts ao) (a_status a))
      as [[[[[b1 cas1] calls] used1] ok1] code1] eqn:El.
    destruct (bflush b1 cas1 (ao_flush ao)) as [[[[b2' cas2'] fcall] used2] ok2] eqn:Ef.
    inversion Hrun; subst; clear Hrun.
    exists b1, cas1, calls, used1, ok1, code1, fcall, used2, ok2. cbv zeta.
    split; [reflexivity|]. split; [exact Ef|]. cbn [oa_puts oa_flush oa_cas oa_final oa_resp oa_ac oa_closes].
    repeat split; reflexivity.
  Qed.

  (* A write acknowledged by the batching layer is stored by the time the
     flush reports success (otherwise that flush reports an error). *)
  Lemma ack_stored_or_reported_l :
    oc_ret (oa_flush o) = 0 ->
    forall d, In d (acked (a_blobs a) (oa_puts o)) -> memN d (oa_cas o) = true.
  Proof.
    destruct run_action_inv as (b1 & cas1 & calls & used1 & ok1 & code1 & fcall & used2 & ok2 & El & Ef & Hp & Hfl & Hcas & _).
    rewrite Hp, Hfl, Hcas. intros Hz d Hd.
    destruct (local_uploads_spec _ _ _ _ _ _ _ _ _ _ _ _ _ El) as (_ & _ & _ & L3 & _).
    destruct (bflush_spec _ _ _ _ _ _ _ _ Ef) as (_ & _ & _ & _ & _ & F).
    apply F; [exact Hz | apply L3; exact Hd].
  Qed.

  Lemma upload_failure_flush_fails :
    upload_failed o = true -> oc_ret (oa_flush o) <> 0.
  Proof.
    destruct run_action_inv as (b1 & cas1 & calls & used1 & ok1 & code1 & fcall & used2 & ok2 & El & Ef & Hp & Hfl & _).
    unfold upload_failed. rewrite Hp, Hfl. intros H.
    destruct (local_uploads_spec _ _ _ _ _ _ _ _ _ _ _ _ _ El) as (_ & _ & _ & _ & L4 & _).
    destruct (bflush_spec _ _ _ _ _ _ _ _ Ef) as (_ & _ & F1 & F2 & _).
    apply orb_true_iff in H. destruct H as [H | H].
    - apply orb_true_iff in H. destruct H as [H | H].
      + apply F1, L4, H.
      + apply F2, H.
    - apply negb_true_iff, N.eqb_neq in H. exact H.
  Qed.

  (* Any failed storage call of the upload phase, or a failed flush: the
     response carries an error, nothing is cached, no digests advertised. *)
  Lemma failure_pruned_l :
    upload_failed o = true ->
    r_code (oa_resp o) <> 0 /\ oa_ac o = None /\ advertises_nothing (oa_resp o) = true.
  Proof.
    intros Hf. pose proof (upload_failure_flush_fails Hf) as Hret.
    destruct run_action_inv as (b1 & cas1 & calls & used1 & ok1 & code1 & fcall & used2 & ok2 & El & Ef & Hp & Hfl & _ & _ & Hresp & Hac & _).
    rewrite Hfl in Hret. apply N.eqb_neq in Hret. rewrite Hret in Hresp, Hac. cbn [negb] in Hresp, Hac.
    apply N.eqb_neq in Hret.
    set (r2 := prune (attach (local_resp a code1) (oc_ret fcall))) in *.
    assert (Hc : r_code r2 <> 0) by (unfold r2, prune; cbn; apply attach_code_nonzero; exact Hret).
    assert (Hs : successful r2 = false).
    { unfold successful. apply N.eqb_neq in Hc. rewrite Hc. reflexivity. }
    rewrite Hs, andb_false_r in Hresp, Hac. cbn in Hac.
    rewrite Hresp, Hac. split; [|split; [reflexivity|]].
    - destruct (ao_final ao =? 0); [cbn; exact Hc | rewrite attach_keeps_error; exact Hc].
    - destruct (ao_final ao =? 0); [reflexivity | rewrite attach_keeps_error; [reflexivity | exact Hc]].
  Qed.

  Lemma final_failure_l :
    final_failed o = true -> r_code (oa_resp o) <> 0 /\ oa_ac o = None.
  Proof.
    destruct run_action_inv as (b1 & cas1 & calls & used1 & ok1 & code1 & fcall & used2 & ok2 & El & Ef & _ & _ & _ & Hfin & Hresp & Hac & _).
    unfold final_failed. rewrite Hfin. intros H. apply negb_true_iff in H.
    rewrite H in Hresp, Hac. rewrite andb_false_r in Hac. split; [|exact Hac].
    rewrite Hresp. apply attach_code_nonzero. apply N.eqb_neq. exact H.
  Qed.

  (* An AC entry is written only for a cacheable, successful action, and
     everything the stored result references is in the CAS. *)
  Lemma ac_only_complete_l : forall rs,
    oa_ac o = Some rs ->
    a_dnc a = false /\ r_code (oa_resp o) = 0 /\ r_exit (oa_resp o) = 0 /\
    forall d, In d rs -> memN d (oa_cas o) = true.
  Proof.
    intros rs Hsome.
    pose proof ack_stored_or_reported_l as Hack.
    destruct run_action_inv as (b1 & cas1 & calls & used1 & ok1 & code1 & fcall & used2 & ok2 & El & Ef & Hp & Hfl & Hcas & _ & Hresp & Hac & _).
    rewrite Hac in Hsome.
    destruct (negb (a_dnc a)) eqn:Ednc; [|discriminate].
    destruct (oc_ret fcall =? 0) eqn:Eret; cbn [negb] in *.
    2:{ (* flush failed: not successful *)
      apply N.eqb_neq in Eret.
      assert (Hc : r_code (prune (attach (local_resp a code1) (oc_ret fcall))) <> 0)
        by (unfold prune; cbn; apply attach_code_nonzero; exact Eret).
      unfold successful in Hsome. apply N.eqb_neq in Hc. rewrite Hc in Hsome. discriminate. }
    destruct (successful (local_resp a code1)) eqn:Es; [|discriminate].
    destruct (ao_final ao =? 0) eqn:Efin; [|discriminate].
    cbn in Hsome. inversion Hsome; subst rs; clear Hsome.
    unfold successful in Es. apply andb_true_iff in Es. destruct Es as (Ec & Ee).
    apply N.eqb_eq in Ec, Ee. cbn in Ec, Ee.
    split; [apply negb_true_iff; exact Ednc|].
    rewrite Hresp. cbn. split; [exact Ec | split; [exact Ee|]].
    intros d Hd. apply refs_local_incl in Hd.
    destruct (local_uploads_spec _ _ _ _ _ _ _ _ _ _ _ _ _ El) as (_ & _ & _ & _ & _ & _ & L6).
    destruct (L6 Ec) as (_ & Hall).
    apply Hack.
    - rewrite Hfl. apply N.eqb_eq. exact Eret.
    - rewrite Hp, Hall. exact Hd.
    - exact 0.
  Qed.
End Action.

(* ---- every buffer is consumed exactly once ------------------------------------------------ *)

Definition bufs (b : bstore) : list nat := map snd (b_pending b).
Definition ind (c : bool) : nat := if c then 1%nat else 0%nat.

Lemma count_app : forall k l1 l2, count_nat k (l1 ++ l2) = (count_nat k l1 + count_nat k l2)%nat.
Proof. intros. unfold count_nat. rewrite filter_app, app_length. reflexivity. Qed.

Lemma count_one : forall k x, count_nat k [x] = ind (Nat.eqb k x).
Proof. intros. unfold count_nat. cbn. destruct (Nat.eqb k x); reflexivity. Qed.

Lemma bufs_snoc : forall l d buf f, bufs (mkB (l ++ [(d, buf)]) f) = bufs (mkB l f) ++ [buf].
Proof. intros. unfold bufs. cbn. rewrite map_app. reflexivity. Qed.

Lemma count_nil : forall k, count_nat k [] = 0%nat.
Proof. reflexivity. Qed.

Lemma bput_buffers : forall batch b cas d buf o b1 cas1 c used ok k,
  bput batch b cas d buf o = (b1, cas1, c, used, ok) ->
  (count_nat k used + count_nat k (bufs b1) = count_nat k (bufs b) + ind (Nat.eqb k buf))%nat.
Proof.
  intros batch b cas d buf o b1 cas1 c used ok k H. unfold bput in H.
  destruct (memN d (keys b)).
  { inversion H; subst; clear H. rewrite count_one. lia. }
  destruct (batch <=? length (b_pending b))%nat.
  - destruct (flush_locked b cas (match o with Some x => x | None => no_oracle end))
      as [[b' cas'] used'] eqn:Efl.
    destruct (flush_locked_spec _ _ _ _ _ _ Efl) as (Hp & Hu & _).
    destruct (b_ferr b' =? 0); cbn [negb] in H; inversion H; subst; clear H;
      unfold bufs; cbn [b_pending]; rewrite ?Hp; cbn [app];
      rewrite ?map_app, ?count_app; cbn [map snd]; rewrite ?count_one, ?count_nil; lia.
  - destruct (b_ferr b =? 0); cbn [negb] in H; inversion H; subst; clear H;
      unfold bufs; cbn [b_pending];
      rewrite ?map_app, ?count_app; cbn [map snd]; rewrite ?count_one, ?count_nil; lia.
Qed.

Lemma local_uploads_buffers : forall batch bs b cas i os code b2 cas2 cs used ok code2 k,
  local_uploads batch b cas bs i os code = (b2, cas2, cs, used, ok, code2) ->
  (count_nat k used + count_nat k (bufs b2)
   = count_nat k (bufs b) + ind (Nat.leb i k && Nat.ltb k (i + length bs)))%nat.
Proof.
  intros batch bs. induction bs as [|x bs IH]; intros b cas i os code b2 cas2 cs used ok code2 k H.
  - cbn in H. inversion H; subst; clear H. cbn [length].
    replace (Nat.leb i k && Nat.ltb k (i + 0))%bool with false.
    + unfold count_nat at 1. cbn. lia.
    + destruct (Nat.leb i k) eqn:E1; [|reflexivity]. destruct (Nat.ltb k (i + 0)) eqn:E2; [|reflexivity].
      apply Nat.leb_le in E1. apply Nat.ltb_lt in E2. lia.
  - cbn [local_uploads] in H.
    destruct (bput batch b cas (bl_dig x) i (hd None os)) as [[[[b1 cas1] c] u1] ok1] eqn:Ep.
    destruct (local_uploads batch b1 cas1 bs (S i) (tl os) (if code =? 0 then oc_ret c else code))
      as [[[[[b2' cas2'] cs'] u2] ok2] code2'] eqn:El.
    inversion H; subst; clear H.
    pose proof (bput_buffers _ _ _ _ _ _ _ _ _ _ _ k Ep) as P.
    pose proof (IH _ _ _ _ _ _ _ _ _ _ _ k El) as Q.
    rewrite count_app. cbn [length].
    assert (ind (Nat.leb i k && Nat.ltb k (i + S (length bs)))
            = (ind (Nat.eqb k i) + ind (Nat.leb (S i) k && Nat.ltb k (S i + length bs)))%nat) as E.
    { destruct (Nat.eqb_spec k i), (Nat.leb_spec0 i k), (Nat.ltb_spec0 k (i + S (length bs))),
        (Nat.leb_spec0 (S i) k), (Nat.ltb_spec0 k (S i + length bs)); cbn; try reflexivity; exfalso; lia. }
    rewrite E. lia.
Qed.

Lemma buffers_consumed_once_l : forall batch b cas a ao b2 cas2 o fits,
  run_action batch b cas a ao = (b2, cas2, o, fits) ->
  b_pending b = [] ->
  oa_closes o = repeat 1%nat (length (a_blobs a)).
Proof.
  intros batch b cas a ao b2 cas2 o fits Hrun Hb.
  destruct (run_action_inv _ _ _ _ _ _ _ _ _ Hrun)
    as (b1 & cas1 & calls & used1 & ok1 & code1 & fcall & used2 & ok2 & El & Ef & _ & _ & _ & _ & _ & _ & Hcl).
  rewrite Hcl. destruct (bflush_spec _ _ _ _ _ _ _ _ Ef) as (_ & Hu2 & _).
  assert (forall k, (k < length (a_blobs a))%nat -> count_nat k (used1 ++ used2) = 1%nat) as Hone.
  { intros k Hk. pose proof (local_uploads_buffers _ _ _ _ _ _ _ _ _ _ _ _ _ k El) as Q.
    rewrite count_app, Hu2. fold (bufs b1). rewrite Q. unfold bufs. rewrite Hb.
    change (count_nat k (map snd [])) with 0%nat.
    destruct (Nat.leb_spec0 0 k), (Nat.ltb_spec0 k (0 + length (a_blobs a))); cbn [ind andb]; lia. }
  clear - Hone. generalize (used1 ++ used2) Hone. intros u.
  generalize (length (a_blobs a)). intros n. 
  assert (forall s, (forall k, (s <= k < s + n)%nat -> count_nat k u = 1%nat) ->
          map (fun i => count_nat i u) (seq s n) = repeat 1%nat n) as G.
  { induction n as [|n IH]; intros s Hs; cbn; [reflexivity|].
    rewrite Hs by lia. f_equal. apply IH. intros k Hk. apply Hs. lia. }
  intros H. apply (G 0%nat). intros k Hk. apply H. lia.
Qed.

(* ---- the monitor holds of the model ----------------------------------------------------------- *)

Lemma run_action_clean : forall batch b cas a ao b2 cas2 o fits,
  run_action batch b cas a ao = (b2, cas2, o, fits) -> b2 = binit.
Proof.
  intros batch b cas a ao b2 cas2 o fits Hrun.
  destruct (run_action_inv _ _ _ _ _ _ _ _ _ Hrun)
    as (b1 & cas1 & calls & used1 & ok1 & code1 & fcall & used2 & ok2 & _ & Ef & _).
  destruct (bflush_spec _ _ _ _ _ _ _ _ Ef) as (H & _). exact H.
Qed.

Lemma repeat_one_ok : forall n,
  existsb (fun n => Nat.ltb 1 n) (repeat 1%nat n) = false /\ existsb (Nat.eqb 0) (repeat 1%nat n) = false.
Proof. induction n as [|n [IH1 IH2]]; cbn [repeat existsb]; [split; reflexivity | rewrite IH1, IH2; split; reflexivity]. Qed.

Lemma p_action_model : forall batch b cas a ao b2 cas2 o fits,
  run_action batch b cas a ao = (b2, cas2, o, fits) ->
  b_pending b = [] ->
  p_action a o = ""%string.
Proof.
  intros batch b cas a ao b2 cas2 o fits Hrun Hb. unfold p_action.
  (* ac_only_complete *)
  assert (match oa_ac o with
          | Some rs =>
            if a_dnc a then "C09:ac-written-do-not-cache"%string
            else if negb (r_code (oa_resp o) =? 0) then "C09:ac-written-status-not-ok"%string
            else if negb (r_exit (oa_resp o) =? 0) then "C09:ac-written-nonzero-exit"%string
            else if negb (forallb (fun d => memN d (oa_cas o)) rs) then "C09:ac-references-missing-blob"%string
            else ""%string
          | None => ""%string
          end = ""%string) as E1.
  { destruct (oa_ac o) as [rs|] eqn:Eac; [|reflexivity].
    destruct (ac_only_complete_l _ _ _ _ _ _ _ _ _ Hrun rs Eac) as (H1 & H2 & H3 & H4).
    rewrite H1, H2, H3. cbn.
    replace (forallb (fun d => memN d (oa_cas o)) rs) with true; [reflexivity|].
    symmetry. apply forallb_forall. exact H4. }
  rewrite E1. clear E1.
  (* failure_pruned *)
  assert ((if upload_failed o then
     if r_code (oa_resp o) =? 0 then "C09:upload-failure-status-ok"%string
     else if match oa_ac o with Some _ => true | None => false end then "C09:upload-failure-cached"%string
     else if negb (advertises_nothing (oa_resp o)) then "C09:upload-failure-not-pruned"%string
     else ""%string
   else ""%string) = ""%string) as E2.
  { destruct (upload_failed o) eqn:Euf; [|reflexivity].
    destruct (failure_pruned_l _ _ _ _ _ _ _ _ _ Hrun Euf) as (H1 & H2 & H3).
    apply N.eqb_neq in H1. rewrite H1, H2, H3. reflexivity. }
  rewrite E2. clear E2.
  assert ((if final_failed o then
     if r_code (oa_resp o) =? 0 then "C09:final-write-failure-status-ok"%string
     else if match oa_ac o with Some _ => true | None => false end then "C09:final-write-failure-cached"%string
     else ""%string
   else ""%string) = ""%string) as E3.
  { destruct (final_failed o) eqn:Eff; [|reflexivity].
    destruct (final_failure_l _ _ _ _ _ _ _ _ _ Hrun Eff) as (H1 & H2).
    apply N.eqb_neq in H1. rewrite H1, H2. reflexivity. }
  rewrite E3. clear E3.
  (* ack_stored_or_reported *)
  assert ((if (oc_ret (oa_flush o) =? 0) && negb (forallb (fun d => memN d (oa_cas o)) (acked (a_blobs a) (oa_puts o)))
   then "C09:acked-blob-lost"%string else ""%string) = ""%string) as E4.
  { destruct (oc_ret (oa_flush o) =? 0) eqn:Ez; [|reflexivity].
    apply N.eqb_eq in Ez.
    replace (forallb (fun d => memN d (oa_cas o)) (acked (a_blobs a) (oa_puts o))) with true; [reflexivity|].
    symmetry. apply forallb_forall. exact (ack_stored_or_reported_l _ _ _ _ _ _ _ _ _ Hrun Ez). }
  rewrite E4. clear E4.
  (* buffers_consumed_once *)
  rewrite (buffers_consumed_once_l _ _ _ _ _ _ _ _ _ Hrun Hb).
  rewrite repeat_length, Nat.eqb_refl.
  destruct (repeat_one_ok (length (a_blobs a))) as (R1 & R2). rewrite R1, R2. reflexivity.
Qed.

(* the monitor never fires on a trace of the model, whatever the scripts and oracles *)
Lemma trace_ok_l : forall batch l cas,
  Forall (fun ao => p_action (fst ao) (snd ao) = ""%string) (run_actions batch binit cas l).
Proof.
  intros batch l. induction l as [|[a ao] t IH]; intros cas; cbn [run_actions].
  - constructor.
  - destruct (run_action batch binit cas a ao) as [[[b' cas'] o] fits] eqn:Er.
    constructor.
    + cbn. exact (p_action_model _ _ _ _ _ _ _ _ _ Er eq_refl).
    + rewrite (run_action_clean _ _ _ _ _ _ _ _ _ Er). apply IH.
Qed.

(* ---- cancellation: a Put that was not issued ------------------------------------------------ *)

(* FindMissing succeeded but some missing blob of the batch was never handed
   to the CAS (AcquireSemaphore saw a done context): the flush records an
   error. *)
Lemma unissued_put_reported_l : forall b cas o b' cas' used,
  flush_locked b cas o = (b', cas', used) ->
  (exists d, In d (expected b cas) /\ was_put (eff (expected b cas) o) d = false) ->
  b_ferr b' <> 0.
Proof.
  intros b cas o b' cas' used H (d & Hd & Hw). unfold flush_locked in H. inversion H; subst; clear H. cbn.
  intros Hz. apply flush_error_zero in Hz. destruct Hz as (_ & Hst).
  specialize (Hst d Hd). unfold stored in Hst. apply in_map_iff in Hst. destruct Hst as (p & Hpd & Hp).
  apply filter_In in Hp. destruct Hp as (Hp & _).
  assert (was_put (eff (expected b cas) o) d = true).
  { unfold was_put. apply existsb_exists. exists p. split; [exact Hp | apply N.eqb_eq; exact Hpd]. }
  congruence.
Qed.

Lemma first_failure_failed : forall ps, first_failure ps <> 0 -> failed_code ps (first_failure ps) = true.
Proof.
  intros ps H. unfold first_failure in *.
  destruct (filter (fun p => negb (snd p =? 0)) ps) as [|q t] eqn:E; [contradiction|].
  assert (In q (filter (fun p => negb (snd p =? 0)) ps)) as Hq by (rewrite E; left; reflexivity).
  apply filter_In in Hq. destruct Hq as (Hin & Hnz).
  unfold failed_code. apply existsb_exists. exists q. split; [exact Hin|]. rewrite Hnz, N.eqb_refl. reflexivity.
Qed.

(* What a failed batch reports: the FindMissing error; or the code of one of
   the failed Puts; or, if some Put was not issued, CANCELLED /
   DEADLINE_EXCEEDED (the done context's status). *)
Lemma flush_error_source : forall ferr exp o,
  let e := flush_error ferr exp o in
  e = ferr \/ (o_fm o <> 0 /\ e = o_fm o) \/
  failed_code (eff exp o) e = true \/
  (forallb (was_put (eff exp o)) exp = false /\ ctx_code e = true).
Proof.
  intros ferr exp o. cbn zeta. unfold flush_error.
  destruct (o_fm o =? 0) eqn:Efm; cbn [negb].
  2:{ right. left. split; [apply N.eqb_neq; exact Efm | reflexivity]. }
  destruct exp as [|x t]; [left; reflexivity|].
  destruct (first_failure (eff (x :: t) o) =? 0) eqn:Eff; cbn [andb negb].
  - destruct (forallb (was_put (eff (x :: t) o)) (x :: t)) eqn:Eall; [left; reflexivity|].
    destruct (admissible (eff (x :: t) o) false (o_err o)) eqn:Ea.
    + unfold admissible in Ea. apply andb_true_iff in Ea. destruct Ea as (_ & Ea).
      apply orb_true_iff in Ea. destruct Ea as [Ea | Ea]; [right; right; left; exact Ea|].
      right. right. right. split; [reflexivity | exact Ea].
    + right. right. right. split; reflexivity.
  - apply N.eqb_neq in Eff.
    destruct (admissible (eff (x :: t) o) _ (o_err o)) eqn:Ea.
    + unfold admissible in Ea. apply andb_true_iff in Ea. destruct Ea as (_ & Ea).
      apply orb_true_iff in Ea. destruct Ea as [Ea | Ea]; [right; right; left; exact Ea|].
      apply andb_true_iff in Ea. destruct Ea as (Ea1 & Ea2). apply negb_true_iff in Ea1.
      right. right. right. split; assumption.
    + right. right. left. apply first_failure_failed. exact Eff.
Qed.

Section Cancelled.
  Variables (batch : nat) (b : bstore) (cas : list N) (a : action) (ao : aoracle).
  Variables (b2 : bstore) (cas2 : list N) (o : oaction) (fits : bool).
  Hypothesis Hrun : run_action batch b cas a ao = (b2, cas2, o, fits).

  (* An upload the batching layer acknowledged did not reach the CAS (its
     batch was cancelled or failed): the action's response carries an error,
     advertises nothing, and nothing is cached. *)
  Lemma lost_ack_not_cached_l :
    (exists d, In d (acked (a_blobs a) (oa_puts o)) /\ memN d (oa_cas o) = false) ->
    r_code (oa_resp o) <> 0 /\ oa_ac o = None /\ advertises_nothing (oa_resp o) = true.
  Proof.
    intros (d & Hd & Hm). apply (failure_pruned_l batch b cas a ao b2 cas2 o fits Hrun).
    unfold upload_failed. apply orb_true_iff. right. apply negb_true_iff, N.eqb_neq. intros Hz.
    pose proof (ack_stored_or_reported_l batch b cas a ao b2 cas2 o fits Hrun Hz d Hd). congruence.
  Qed.
End Cancelled.
