(* Proofs for the upload pipeline model. *)
From Coq Require Import Lia.
From VF Require Import Upload.Model Upload.Spec.
Open Scope N_scope.

Lemma attach_code_nonzero : forall r c, c <> 0 -> r_code (attach r c) <> 0.
Proof.
  intros r c Hc. unfold attach. destruct (r_code r =? 0) eqn:E; cbn.
  - exact Hc.
  - apply N.eqb_neq in E. exact E.
Qed.
