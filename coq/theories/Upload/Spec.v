(* C09 as a decidable predicate on what is observable about one action
   (script of the innermost executor, storage calls and their results,
   response, AC entry, CAS contents, buffer consumption).  [p_action] is
   evaluated by Corr.v on the implementation's observations and proved of
   the model for all scripts and oracles in Proofs.v. *)
From Coq Require Export String.
From VF Require Export Upload.Model.
Open Scope N_scope.

Definition call_failed (c : ocall) : bool :=
  match oc_fm c with Some (_, r) => negb (r =? 0) | None => false end
  || existsb (fun p => negb (snd p =? 0)) (oc_puts c).

(* some FindMissing / Put issued by the batching layer failed, or the flush
   reported an error *)
Definition upload_failed (o : oaction) : bool :=
  existsb call_failed (oa_puts o) || call_failed (oa_flush o) || negb (oc_ret (oa_flush o) =? 0).

Definition final_failed (o : oaction) : bool :=
  match oa_final o with Some (_, r) => negb (r =? 0) | None => false end.

Definition advertises_nothing (r : resp) : bool :=
  match r_files r, r_trees r, r_stdout r, r_stderr r with
  | [], [], None, None => true
  | _, _, _, _ => false
  end.

(* digests of the uploads the batching layer acknowledged *)
Fixpoint acked (bs : list blob) (cs : list ocall) : list N :=
  match bs, cs with
  | b :: bs', c :: cs' => if oc_ret c =? 0 then bl_dig b :: acked bs' cs' else acked bs' cs'
  | _, _ => []
  end.

(* first non-empty kind *)
Definition orelse (a b : string) : string := if String.eqb a "" then b else a.
Infix "<|>" := orelse (at level 61, right associativity).

Definition p_action (a : action) (o : oaction) : string :=
  (* ac_only_complete *)
  match oa_ac o with
  | Some rs =>
    if a_dnc a then "C09:ac-written-do-not-cache"
    else if negb (r_code (oa_resp o) =? 0) then "C09:ac-written-status-not-ok"
    else if negb (r_exit (oa_resp o) =? 0) then "C09:ac-written-nonzero-exit"
    else if negb (forallb (fun d => memN d (oa_cas o)) rs) then "C09:ac-references-missing-blob"
    else ""
  | None => ""
  end <|>
  (* failure_pruned *)
  (if upload_failed o then
     if r_code (oa_resp o) =? 0 then "C09:upload-failure-status-ok"
     else if match oa_ac o with Some _ => true | None => false end then "C09:upload-failure-cached"
     else if negb (advertises_nothing (oa_resp o)) then "C09:upload-failure-not-pruned"
     else ""
   else "") <|>
  (if final_failed o then
     if r_code (oa_resp o) =? 0 then "C09:final-write-failure-status-ok"
     else if match oa_ac o with Some _ => true | None => false end then "C09:final-write-failure-cached"
     else ""
   else "") <|>
  (* ack_stored_or_reported *)
  (if (oc_ret (oa_flush o) =? 0) && negb (forallb (fun d => memN d (oa_cas o)) (acked (a_blobs a) (oa_puts o)))
   then "C09:acked-blob-lost" else "") <|>
  (* buffers_consumed_once *)
  (if negb (Nat.eqb (length (oa_closes o)) (length (a_blobs a))) then "C09:buffer-count"
   else if existsb (fun n => Nat.ltb 1 n) (oa_closes o) then "C09:buffer-consumed-twice"
   else if existsb (Nat.eqb 0) (oa_closes o) then "C09:buffer-not-consumed"
   else "").
