(* C09 — the property theorems, and nothing else.

   Setting: [run_action batch b cas a ao] is caching(flushing(local)) on one
   action [a] over a batched store in state [b] and a CAS holding [cas];
   [ao] gives the result of every storage call (FindMissing, each Put, which
   Puts are still issued after a failure, the final AC / CAS write).  The
   theorems hold for every batch size (0 included), every upload list (with
   duplicates), every exit code / status / do_not_cache and every [ao]. *)
From VF Require Import Upload.Model Upload.Spec Upload.Proofs.
Open Scope N_scope.

(* A Put acknowledged by the batching layer is in the CAS when the flush
   reports success; otherwise that flush reports an error. *)
Theorem ack_stored_or_reported : forall batch b cas a ao b2 cas2 o fits,
  run_action batch b cas a ao = (b2, cas2, o, fits) ->
  oc_ret (oa_flush o) = 0 ->
  forall d, In d (acked (a_blobs a) (oa_puts o)) -> memN d (oa_cas o) = true.
Proof. exact ack_stored_or_reported_l. Qed.
Print Assumptions ack_stored_or_reported.

(* AC written => not do_not_cache, status OK, exit code 0, and every blob
   the stored ActionResult references is in the CAS. *)
Theorem ac_only_complete : forall batch b cas a ao b2 cas2 o fits,
  run_action batch b cas a ao = (b2, cas2, o, fits) ->
  forall rs, oa_ac o = Some rs ->
  a_dnc a = false /\ r_code (oa_resp o) = 0 /\ r_exit (oa_resp o) = 0 /\
  forall d, In d rs -> memN d (oa_cas o) = true.
Proof. exact ac_only_complete_l. Qed.
Print Assumptions ac_only_complete.

(* Any failed FindMissing / Put of the upload phase or a failed flush =>
   status not OK, no AC entry, no output / stdout / stderr digests. *)
Theorem failure_pruned : forall batch b cas a ao b2 cas2 o fits,
  run_action batch b cas a ao = (b2, cas2, o, fits) ->
  upload_failed o = true ->
  r_code (oa_resp o) <> 0 /\ oa_ac o = None /\ advertises_nothing (oa_resp o) = true.
Proof. exact failure_pruned_l. Qed.
Print Assumptions failure_pruned.

(* A failed AC write (or historical-response write) => status not OK, no AC entry. *)
Theorem final_write_failure_reported : forall batch b cas a ao b2 cas2 o fits,
  run_action batch b cas a ao = (b2, cas2, o, fits) ->
  final_failed o = true ->
  r_code (oa_resp o) <> 0 /\ oa_ac o = None.
Proof. exact final_failure_l. Qed.
Print Assumptions final_write_failure_reported.

(* Every buffer handed to the batching layer during an action is consumed
   (passed to the CAS or discarded) exactly once by the end of the action. *)
Theorem buffers_consumed_once : forall batch b cas a ao b2 cas2 o fits,
  run_action batch b cas a ao = (b2, cas2, o, fits) ->
  b_pending b = [] ->
  oa_closes o = repeat 1%nat (length (a_blobs a)).
Proof. exact buffers_consumed_once_l. Qed.
Print Assumptions buffers_consumed_once.

(* The monitor Corr.v evaluates on the implementation never fires on the
   model: for every sequence of actions and oracles over one batched store. *)
Theorem trace_ok : forall batch l cas,
  Forall (fun ao => p_action (fst ao) (snd ao) = ""%string) (run_actions batch binit cas l).
Proof. exact trace_ok_l. Qed.
Print Assumptions trace_ok.

(* The error of an earlier decorator is never overwritten. *)
Theorem first_error_wins : forall r c, r_code r <> 0 -> attach r c = r.
Proof. exact attach_keeps_error. Qed.
Print Assumptions first_error_wins.

(* ---- cancellation of the caller's context ---------------------------------------- *)

(* The oracle covers cancellation: a FindMissing / Put entered with a done
   context fails (any code), and a missing blob of a batch may simply not be
   handed to the CAS (AcquireSemaphore refuses on a done context).  The
   theorems above hold for all oracles, hence under every cancellation
   point.  Explicitly: *)

(* a batch one of whose missing blobs was not handed to the CAS leaves an
   error behind (returned by the Put that triggered the flush, or by the
   flusher) ... *)
Theorem unissued_put_reported : forall b cas o b' cas' used,
  flush_locked b cas o = (b', cas', used) ->
  (exists d, In d (expected b cas) /\ was_put (eff (expected b cas) o) d = false) ->
  b_ferr b' <> 0.
Proof. exact unissued_put_reported_l. Qed.
Print Assumptions unissued_put_reported.

(* ... which is the FindMissing error, the code of a failed Put of the batch,
   or the done context's code when a Put was not issued (or the error of an
   earlier batch that is still pending) ... *)
Theorem flush_error_source : forall ferr exp o,
  let e := flush_error ferr exp o in
  e = ferr \/ (o_fm o <> 0 /\ e = o_fm o) \/
  failed_code (eff exp o) e = true \/
  (forallb (was_put (eff exp o)) exp = false /\ ctx_code e = true).
Proof. exact flush_error_source. Qed.
Print Assumptions flush_error_source.

(* ... and an action one of whose acknowledged uploads did not reach the CAS
   reports an error, advertises no digests and is not cached. *)
Theorem lost_ack_not_cached : forall batch b cas a ao b2 cas2 o fits,
  run_action batch b cas a ao = (b2, cas2, o, fits) ->
  (exists d, In d (acked (a_blobs a) (oa_puts o)) /\ memN d (oa_cas o) = false) ->
  r_code (oa_resp o) <> 0 /\ oa_ac o = None /\ advertises_nothing (oa_resp o) = true.
Proof. exact lost_ack_not_cached_l. Qed.
Print Assumptions lost_ack_not_cached.

(* ---- non-vacuity --------------------------------------------------------------- *)

(* A cacheable action whose three uploads (one duplicate) all succeed with a
   batch size of 1 reaches the AC with its references in the CAS ... *)
Example reaches_ac :
  let a := mkAction [mkBlob 1 RFile; mkBlob 2 RStdout; mkBlob 1 RTree] 0 0 false in
  let ao := mkAO [None; Some (mkO 0 [(1, 0)] 0); Some (mkO 0 [(2, 0)] 0)] (mkO 0 [] 0) 0 in
  let '(_, _, o, fits) := run_action 1 binit [] a ao in
  fits = true /\ oa_ac o = Some [1; 1; 2] /\ oa_cas o = [1; 2] /\ r_msg (oa_resp o) = 1.
Proof. vm_compute. repeat split; reflexivity. Qed.

(* ... and the same action with a failing Put during the final flush is
   reported, pruned and not cached. *)
Example failure_is_pruned :
  let a := mkAction [mkBlob 1 RFile; mkBlob 2 RStdout; mkBlob 3 RTree] 0 0 false in
  let ao := mkAO [None; Some (mkO 0 [(1, 0)] 0); Some (mkO 0 [(2, 0)] 0)] (mkO 0 [(3, 13)] 13) 0 in
  let '(_, _, o, fits) := run_action 1 binit [] a ao in
  fits = true /\ upload_failed o = true /\ oa_ac o = None /\ r_code (oa_resp o) = 13 /\ r_msg (oa_resp o) = 2.
Proof. vm_compute. repeat split; reflexivity. Qed.

(* The context is cancelled while the FindMissing of the final flush is in
   progress (FindMissing still succeeds): no Put is issued, the flush reports
   CANCELLED, the response is pruned and nothing is cached -- although every
   upload was acknowledged.  (Recorded from the implementation: corpus/C09.) *)
Example cancelled_flush_is_reported :
  let a := mkAction [mkBlob 1 RFile; mkBlob 2 RStdout] 0 0 false in
  let ao := mkAO [None; None] (mkO 0 [] 1) 1 in
  let '(_, _, o, fits) := run_action 5 binit [] a ao in
  fits = true /\ acked (a_blobs a) (oa_puts o) = [1; 2] /\ oa_cas o = [] /\
  oc_ret (oa_flush o) = 1 /\ r_code (oa_resp o) = 1 /\ oa_ac o = None /\
  advertises_nothing (oa_resp o) = true.
Proof. vm_compute. repeat split; reflexivity. Qed.

(* A Put fails with INTERNAL while the caller cancels: the errgroup may
   report either error; both are explained by the model, nothing else is. *)
Example errgroup_pick :
  let b := mkB [(1, 0%nat); (2, 1%nat)] 0 in
  puts_possible (expected b []) (mkO 0 [(1, 13)] 13) = true /\
  puts_possible (expected b []) (mkO 0 [(1, 13)] 1) = true /\
  puts_possible (expected b []) (mkO 0 [(1, 13)] 14) = false /\
  puts_possible (expected b []) (mkO 0 [(1, 13)] 0) = false.
Proof. vm_compute. repeat split; reflexivity. Qed.
