(* C09 — the property theorems, and nothing else.

   Setting: [run_action batch b cas a ao] is caching(flushing(local)) on one
   action [a] over a batched store in state [b] and a CAS holding [cas];
   [ao] gives the result of every storage call (FindMissing, each Put, which
   Puts are still issued after a failure, the final AC / CAS write).  The
   theorems hold for every batch size (0 included), every upload list (with
   duplicates), every exit code / status / do_not_cache and every [ao]. *)
From VF Require Import Upload.Model Upload.Spec Upload.Proofs.
Open Scope N_scope.

(* A Put acknowledged by the batching layer is in the CAS when the flush
   reports success; otherwise that flush reports an error. *)
Theorem ack_stored_or_reported : forall batch b cas a ao b2 cas2 o fits,
  run_action batch b cas a ao = (b2, cas2, o, fits) ->
  oc_ret (oa_flush o) = 0 ->
  forall d, In d (acked (a_blobs a) (oa_puts o)) -> memN d (oa_cas o) = true.
Proof. exact ack_stored_or_reported_l. Qed.
Print Assumptions ack_stored_or_reported.

(* AC written => not do_not_cache, status OK, exit code 0, and every blob
   the stored ActionResult references is in the CAS. *)
Theorem ac_only_complete : forall batch b cas a ao b2 cas2 o fits,
  run_action batch b cas a ao = (b2, cas2, o, fits) ->
  forall rs, oa_ac o = Some rs ->
  a_dnc a = false /\ r_code (oa_resp o) = 0 /\ r_exit (oa_resp o) = 0 /\
  forall d, In d rs -> memN d (oa_cas o) = true.
Proof. exact ac_only_complete_l. Qed.
Print Assumptions ac_only_complete.

(* Any failed FindMissing / Put of the upload phase or a failed flush =>
   status not OK, no AC entry, no output / stdout / stderr digests. *)
Theorem failure_pruned : forall batch b cas a ao b2 cas2 o fits,
  run_action batch b cas a ao = (b2, cas2, o, fits) ->
  upload_failed o = true ->
  r_code (oa_resp o) <> 0 /\ oa_ac o = None /\ advertises_nothing (oa_resp o) = true.
Proof. exact failure_pruned_l. Qed.
Print Assumptions failure_pruned.

(* A failed AC write (or historical-response write) => status not OK, no AC entry. *)
Theorem final_write_failure_reported : forall batch b cas a ao b2 cas2 o fits,
  run_action batch b cas a ao = (b2, cas2, o, fits) ->
  final_failed o = true ->
  r_code (oa_resp o) <> 0 /\ oa_ac o = None.
Proof. exact final_failure_l. Qed.
Print Assumptions final_write_failure_reported.

(* Every buffer handed to the batching layer during an action is consumed
   (passed to the CAS or discarded) exactly once by the end of the action. *)
Theorem buffers_consumed_once : forall batch b cas a ao b2 cas2 o fits,
  run_action batch b cas a ao = (b2, cas2, o, fits) ->
  b_pending b = [] ->
  oa_closes o = repeat 1%nat (length (a_blobs a)).
Proof. exact buffers_consumed_once_l. Qed.
Print Assumptions buffers_consumed_once.

(* The monitor Corr.v evaluates on the implementation never fires on the
   model: for every sequence of actions and oracles over one batched store. *)
Theorem trace_ok : forall batch l cas,
  Forall (fun ao => p_action (fst ao) (snd ao) = ""%string) (run_actions batch binit cas l).
Proof. exact trace_ok_l. Qed.
Print Assumptions trace_ok.

(* The error of an earlier decorator is never overwritten. *)
Theorem first_error_wins : forall r c, r_code r <> 0 -> attach r c = r.
Proof. exact attach_keeps_error. Qed.
Print Assumptions first_error_wins.

(* ---- non-vacuity --------------------------------------------------------------- *)

(* A cacheable action whose three uploads (one duplicate) all succeed with a
   batch size of 1 reaches the AC with its references in the CAS ... *)
Example reaches_ac :
  let a := mkAction [mkBlob 1 RFile; mkBlob 2 RStdout; mkBlob 1 RTree] 0 0 false in
  let ao := mkAO [None; Some (mkO 0 [(1, 0)]); Some (mkO 0 [(2, 0)])] (mkO 0 []) 0 in
  let '(_, _, o, fits) := run_action 1 binit [] a ao in
  fits = true /\ oa_ac o = Some [1; 1; 2] /\ oa_cas o = [1; 2] /\ r_msg (oa_resp o) = 1.
Proof. vm_compute. repeat split; reflexivity. Qed.

(* ... and the same action with a failing Put during the final flush is
   reported, pruned and not cached. *)
Example failure_is_pruned :
  let a := mkAction [mkBlob 1 RFile; mkBlob 2 RStdout; mkBlob 3 RTree] 0 0 false in
  let ao := mkAO [None; Some (mkO 0 [(1, 0)]); Some (mkO 0 [(2, 0)])] (mkO 0 [(3, 13)]) 0 in
  let '(_, _, o, fits) := run_action 1 binit [] a ao in
  fits = true /\ upload_failed o = true /\ oa_ac o = None /\ r_code (oa_resp o) = 13 /\ r_msg (oa_resp o) = 2.
Proof. vm_compute. repeat split; reflexivity. Qed.
