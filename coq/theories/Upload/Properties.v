(* C09 — the property theorems, and nothing else. *)
From VF Require Import Upload.Model Upload.Spec Upload.Proofs.

Theorem first_error_wins : forall r c, c <> 0%N -> r_code (attach r c) <> 0%N.
Proof. exact attach_code_nonzero. Qed.
Print Assumptions first_error_wins.
