(* The observer monitor of Spec.v (what the scheduler may think, derived from
   the Synchronize traffic) never fires on a trace of the model: its bound
   and its next-synchronization time coincide with the client's own
   schedulerMayThinkExecutingUntil / nextSynchronizationAt after every step. *)
From Coq Require Import List ZArith NArith Bool String Lia.
From VF Require Import Client.Model Client.Spec Client.Proofs.
Import ListNotations.
Open Scope Z_scope.

(* Outputs the observer ignores. *)
Definition inert (o : out) : bool :=
  match o with OX _ _ | OExit _ | OCancel _ | OStart _ _ _ => true | _ => false end.

Lemma inert_outs c l : forall b, forallb inert l = true ->
  obm_outs c b l = b /\ ochk_outs c b l = ""%string.
Proof.
  induction l as [|o r IH]; intros b H; cbn [obm_outs ochk_outs]; [auto|].
  cbn [forallb] in H. apply andb_true_iff in H as [Ho Hr].
  assert (Hn : obm_next c b o = b) by (destruct o; try discriminate; reflexivity).
  assert (Hc : ochk_all c b o = ""%string) by (destruct o; try discriminate; reflexivity).
  rewrite Hn, Hc. cbn [cat2 is_empty]. apply IH, Hr.
Qed.

Lemma xstep_inert x e x' o : xstep x e = (x', o) -> forallb inert o = true.
Proof.
  unfold xstep. destruct e as [k|ok tag|].
  - destruct (x_finished x || is_some (x_pending x)); [intros [= _ <-]; reflexivity|].
    destruct (enqueue x (x_dig x, StUpd k)). intros [= _ <-]. reflexivity.
  - destruct (x_finished x || is_some (x_pending x)); [intros [= _ <-]; reflexivity|].
    destruct (enqueue (set_finished x) (x_dig x, StDone ok tag)). intros [= _ <-]. reflexivity.
  - destruct (x_finished x && negb (is_some (x_pending x)) && negb (x_closed x)); intros [= _ <-]; reflexivity.
Qed.

Lemma xsteps_inert es : forall x x' o, xsteps x es = (x', o) -> forallb inert o = true.
Proof.
  induction es as [|e r IH]; intros x x' o H; cbn [xsteps] in H.
  - injection H as _ <-. reflexivity.
  - destruct (xstep x e) as [x1 o1] eqn:E1. destruct (xsteps x1 r) as [x2 o2] eqn:E2.
    injection H as _ <-. rewrite forallb_app, (xstep_inert _ _ _ _ E1), (IH _ _ _ E2). reflexivity.
Qed.

Lemma stop_outs_inert sl : forallb inert (stop_outs sl) = true.
Proof. destruct sl as [x|]; cbn; [destruct (x_finished x)|]; reflexivity. Qed.

Lemma obm_outs_app c b l1 l2 : obm_outs c b (l1 ++ l2) = obm_outs c (obm_outs c b l1) l2.
Proof. revert b. induction l1 as [|o r IH]; intros b; cbn; [reflexivity|apply IH]. Qed.

Lemma ochk_outs_app c b l1 l2 :
  ochk_outs c b l1 = ""%string -> ochk_outs c (obm_outs c b l1) l2 = ""%string ->
  ochk_outs c b (l1 ++ l2) = ""%string.
Proof.
  revert b. induction l1 as [|o r IH]; intros b H1 H2; cbn [app ochk_outs obm_outs] in *; [exact H2|].
  apply cat2_nil in H1 as [Ha Hb]. rewrite Ha. cbn [cat2 is_empty]. apply IH; assumption.
Qed.

(* What phase_updates shows to the observer. *)
Lemma phase_updates_obs rep next now sl sel rep' next' sl' o :
  phase_updates rep next now sl sel = (rep', next', sl', o) ->
  (o = [] /\ next' = next)
  \/ (exists fired o2, o = OTimer (next - now) fired :: o2 /\ forallb inert o2 = true
                       /\ next' = if fired then next else Z.min next now).
Proof.
  unfold phase_updates. destruct sl as [x|]; [|intros [= _ <- _ <-]; left; auto].
  destruct (if avail x then (x, []) else xsteps x sel) as [x1 o2] eqn:Ex.
  assert (H2 : forallb inert o2 = true).
  { destruct (avail x); [injection Ex as _ <-; reflexivity|eapply xsteps_inert; exact Ex]. }
  right. destruct (recv x1) as [[| |[d st]] x2].
  - injection H as _ <- _ <-. exists true, o2. auto.
  - injection H as _ <- _ <-. exists false, o2. auto.
  - destruct (consume (consume_fuel x2) (RExec d st) x2). injection H as _ <- _ <-. exists false, o2. auto.
Qed.

Definition agree (s : state) (b : obm) : Prop := b_next b = s_next s /\ b_bound b = s_until s.

Lemma prefer_exec rep until : snd (prefer_of rep until) = is_executing rep.
Proof. destruct rep as [|d [| |ok t]]; reflexivity. Qed.

Lemma prefer_idle until : fst (prefer_of RIdle until) = is_some until.
Proof. reflexivity. Qed.

(* One Run as seen by the observer. *)
Lemma run_step_obs s b r s' o ob :
  agree s b -> run_step s r = (s', o) -> o_until ob = s_until s' ->
  let c := mkCtx (ERun r) ob in
  ochk_outs c (obm_begin b) o = ""%string
  /\ agree s' (obm_outs c (obm_begin b) o)
  /\ ochk_end c (obm_outs c (obm_begin b) o) = ""%string.
Proof.
  intros [Hn Hb] Hr Hob c.
  assert (Hend : forall b', b_bound b' = s_until s' -> ochk_end c b' = ""%string).
  { intros b' Hb'. unfold ochk_end. rewrite Hb'. cbn [k_obs c]. rewrite Hob.
    destruct (s_until s'); [|reflexivity]. rewrite Z.ltb_irrefl. reflexivity. }
  set (b0 := obm_begin b).
  assert (Hn0 : b_next b0 = s_next s) by exact Hn.
  assert (Hb0 : b_bound b0 = s_until s) by exact Hb.
  assert (Hy0 : b_synced b0 = false) by reflexivity.
  assert (Hr0 : b_ready b0 = false) by reflexivity.
  clearbody b0. clear Hn Hb b.
  unfold run_step in Hr.
  destruct (sd_top s r && match s_until s with None => true | Some u => u <? r_now r end) eqn:E0.
  { injection Hr as <- <-. apply andb_true_iff in E0 as [E0a E0b].
    cbn [set_cancelled s_until] in Hend.
    assert (Hnx : obm_next c b0 (ORet true ENone) = b0) by (cbn [obm_next]; rewrite Hy0; reflexivity).
    cbn [ochk_outs obm_outs]. rewrite Hnx. split; [|split; [split; assumption|apply Hend; exact Hb0]].
    unfold ochk_all, ochk_terminate. rewrite Hnx, Hb0.
    change (ctx_now c) with (r_now r). destruct (ctx_shutdown c); [|reflexivity].
    destruct (s_until s); [rewrite E0b|]; reflexivity. }
  destruct (negb (is_some (s_until s)) && negb (r_ready r)) eqn:E1.
  { injection Hr as <- <-. apply andb_true_iff in E1 as [E1a E1b].
    apply negb_true_iff in E1a, E1b. apply is_some_false in E1a.
    cbn [set_cancelled s_until] in Hend.
    cbn [ochk_outs obm_outs]. set (b1 := obm_next c b0 OReady).
    assert (Hnx : obm_next c b1 (ORet true EReady) = b1) by (cbn [obm_next b1 b_synced]; rewrite Hy0; reflexivity).
    rewrite Hnx. split; [|split; [split; assumption|apply Hend; exact Hb0]].
    change (ochk_all c b0 OReady) with ""%string. cbn [cat2 is_empty].
    unfold ochk_all, ochk_terminate. rewrite Hnx. cbn [b1 obm_next b_bound]. rewrite Hb0, E1a.
    destruct (ctx_shutdown c); reflexivity. }
  set (o1 := if negb (is_some (s_until s)) then [OReady] else []) in Hr.
  destruct (phase_updates (s_rep s) (s_next s) (r_now r) (s_slot s) (r_sel r)) as [[[rep next] sl] o2] eqn:Ep.
  destruct (prefer_of rep (s_until s)) as [p cur_exec] eqn:Epf.
  set (prefer := if sd_sync s r then true else p) in Hr.
  destruct (match sl with
            | Some x => let '(x', o) := xsteps x (r_sync r) in (Some x', o)
            | None => (None, [])
            end) as [sl4 o4] eqn:Es.
  set (until := match s_until s with None => touch next | Some u => Some u end) in Hr.
  (* o1 *)
  set (b1 := obm_outs c b0 o1).
  assert (H1 : ochk_outs c b0 o1 = ""%string /\ b_next b1 = s_next s /\ b_bound b1 = s_until s
               /\ b_synced b1 = false /\ (is_some (s_until s) = false -> b_ready b1 = true)).
  { subst b1 o1. destruct (is_some (s_until s)) eqn:U; cbn [negb].
    - cbn. repeat split; try assumption. discriminate.
    - cbn [negb andb] in E1. apply negb_false_iff in E1. cbn. repeat split; try assumption.
      intros _. exact E1. }
  destruct H1 as (Hc1 & Hn1 & Hb1 & Hy1 & Hrd1).
  (* o2 *)
  set (b2 := obm_outs c b1 o2).
  assert (H2 : ochk_outs c b1 o2 = ""%string /\ b_next b2 = next /\ b_bound b2 = s_until s
               /\ b_synced b2 = false /\ b_ready b2 = b_ready b1).
  { subst b2. destruct (phase_updates_obs _ _ _ _ _ _ _ _ _ Ep) as [[-> ->]|(fired & o2' & -> & Hin & ->)].
    - cbn. auto.
    - cbn [ochk_outs obm_outs]. change (ochk_all c b1 (OTimer (s_next s - r_now r) fired)) with ""%string.
      cbn [cat2 is_empty]. destruct (inert_outs c o2' (obm_next c b1 (OTimer (s_next s - r_now r) fired)) Hin) as [He Hc].
      rewrite He, Hc. split; [reflexivity|]. cbn [obm_next]. change (ctx_now c) with (r_now r).
      destruct fired; cbn; rewrite ?Hn1; auto. }
  destruct H2 as (Hc2 & Hn2 & Hb2 & Hy2 & Hrd2).
  (* OSync *)
  set (b3 := obm_next c b2 (OSync rep prefer true)).
  assert (Hc3 : ochk_all c b2 (OSync rep prefer true) = ""%string).
  { unfold ochk_all. change (ochk_terminate c b2 (OSync rep prefer true)) with ""%string. cbn [cat2 is_empty].
    unfold ochk_solicit. destruct rep as [|d st]; [|reflexivity].
    destruct prefer eqn:P; [reflexivity|]. subst prefer. destruct (sd_sync s r); [discriminate|].
    cbn in Epf. injection Epf as <- _. rewrite Hb2, P. cbn. rewrite Hrd2, (Hrd1 P). reflexivity. }
  assert (H3 : b_next b3 = next /\ b_bound b3 = until /\ b_synced b3 = true /\ b_exec b3 = cur_exec).
  { subst b3. cbn [obm_next b_next b_bound b_synced b_exec]. rewrite Hb2, Hn2. subst until.
    pose proof (prefer_exec rep (s_until s)) as Hx. rewrite Epf in Hx. cbn in Hx.
    split; [reflexivity|]. split; [destruct (s_until s); reflexivity|]. split; [reflexivity|]. symmetry. exact Hx. }
  destruct H3 as (Hn3 & Hb3 & Hy3 & Hx3).
  (* o4 *)
  assert (Hin4 : forallb inert o4 = true).
  { destruct sl as [x|]; [|injection Es as _ <-; reflexivity].
    destruct (xsteps x (r_sync r)) as [x' o'] eqn:Ex. injection Es as _ <-. eapply xsteps_inert; exact Ex. }
  destruct (inert_outs c o4 b3 Hin4) as [He4 Hc4].
  set (pre := o1 ++ o2 ++ [OSync rep prefer true] ++ o4) in Hr.
  assert (Hpre : ochk_outs c b0 pre = ""%string /\ obm_outs c b0 pre = b3).
  { subst pre. split.
    - apply ochk_outs_app; [exact Hc1|]. fold b1. apply ochk_outs_app; [exact Hc2|]. fold b2.
      cbn [app ochk_outs]. rewrite Hc3. cbn [cat2 is_empty]. fold b3. exact Hc4.
    - rewrite !obm_outs_app. fold b1 b2. cbn [app obm_outs]. fold b3. exact He4. }
  destruct Hpre as [Hcpre Hepre].
  assert (Htail : forall s1 tl,
            (ochk_outs c b3 tl = ""%string /\ agree s1 (obm_outs c b3 tl)) ->
            s1 = s' -> pre ++ tl = o ->
            ochk_outs c b0 o = ""%string /\ agree s' (obm_outs c b0 o) /\ ochk_end c (obm_outs c b0 o) = ""%string).
  { intros s1 tl [Ha Hg] <- <-. rewrite obm_outs_app, Hepre. split; [|split; [exact Hg|apply Hend; apply Hg]].
    apply ochk_outs_app; [exact Hcpre|]. rewrite Hepre. exact Ha. }
  assert (Hcr : ctx_reply c = Some (r_reply r)) by reflexivity.
  (* a tail that consists of inert outputs followed by ORet *)
  assert (Hfin : forall s1 mid may e,
            forallb inert mid = true ->
            agree s1 (obm_next c b3 (ORet may e)) ->
            (may = true -> ctx_shutdown c = true ->
               match s_until s1 with None => True | Some u => (u <? r_now r) = true end) ->
            s1 = s' -> pre ++ mid ++ [ORet may e] = o ->
            ochk_outs c b0 o = ""%string /\ agree s' (obm_outs c b0 o) /\ ochk_end c (obm_outs c b0 o) = ""%string).
  { intros s1 mid may e Hmid Hag Hterm Hs1 Ho. apply (Htail s1 (mid ++ [ORet may e])); [|exact Hs1|exact Ho].
    destruct (inert_outs c mid b3 Hmid) as [Hem Hcm]. rewrite obm_outs_app, Hem. split; [|exact Hag].
    apply ochk_outs_app; [exact Hcm|]. rewrite Hem. cbn [ochk_outs]. 
    assert (Hk : ochk_all c b3 (ORet may e) = ""%string).
    { unfold ochk_all. change (ochk_solicit c b3 (ORet may e)) with ""%string.
      unfold ochk_terminate. destruct may; [|reflexivity].
      destruct (ctx_shutdown c) eqn:Sd; [|reflexivity]. specialize (Hterm eq_refl eq_refl).
      destruct Hag as [_ Hgb]. rewrite Hgb. change (ctx_now c) with (r_now r).
      destruct (s_until s1); [rewrite Hterm|]; reflexivity. }
    rewrite Hk. reflexivity. }
  destruct (r_reply r) as [|[ts|] ds] eqn:Erep.
  - (* RPC error *)
    injection Hr as Hs' Ho. apply (Hfin _ [] false ESync) with (1 := eq_refl) (4 := Hs') (5 := Ho).
    + cbn [obm_next]. rewrite Hy3, Hcr. split; cbn; assumption.
    + discriminate.
  - destruct ds as [| |d| |].
    + (* no change *)
      destruct cur_exec; injection Hr as Hs' Ho.
      * apply (Hfin _ [] false ENone) with (1 := eq_refl) (4 := Hs') (5 := Ho); [|discriminate].
        cbn [obm_next]. rewrite Hy3, Hcr, Hx3. split; reflexivity.
      * apply (Hfin _ [] true ENone) with (1 := eq_refl) (4 := Hs') (5 := Ho); [|intros _ _; exact I].
        cbn [obm_next]. rewrite Hy3, Hcr, Hx3. split; reflexivity.
    + (* idle *)
      injection Hr as Hs' Ho. apply (Hfin _ (stop_outs sl4) true ENone) with (4 := Hs') (5 := Ho).
      * apply stop_outs_inert.
      * cbn [obm_next]. rewrite Hy3, Hcr. split; reflexivity.
      * intros _ _. exact I.
    + (* execute *)
      injection Hr as Hs' Ho.
      apply (Hfin _ (stop_outs sl4 ++ [OStart (s_nextid s) d false]) false ENone) with (4 := Hs').
      * rewrite forallb_app, stop_outs_inert. reflexivity.
      * cbn [obm_next]. rewrite Hy3, Hcr. split; reflexivity.
      * discriminate.
      * rewrite <- Ho, <- !app_assoc. reflexivity.
    + injection Hr as Hs' Ho. apply (Hfin _ [] false EStart) with (1 := eq_refl) (4 := Hs') (5 := Ho); [|discriminate].
      cbn [obm_next]. rewrite Hy3, Hcr. split; cbn; [reflexivity|assumption].
    + injection Hr as Hs' Ho. apply (Hfin _ [] false EUnknown) with (1 := eq_refl) (4 := Hs') (5 := Ho); [|discriminate].
      cbn [obm_next]. rewrite Hy3, Hcr. split; cbn; [reflexivity|assumption].
  - (* invalid timestamp *)
    injection Hr as Hs' Ho. apply (Hfin _ [] false ETs) with (1 := eq_refl) (4 := Hs') (5 := Ho).
    + cbn [obm_next]. rewrite Hy3, Hcr. split; cbn; assumption.
    + discriminate.
Qed.

Lemma step_obs s b e s' o :
  agree s b -> step s e = (s', o) ->
  let c := mkCtx e (observe s') in
  ochk_outs c (obm_begin b) o = ""%string
  /\ agree s' (obm_outs c (obm_begin b) o)
  /\ ochk_end c (obm_outs c (obm_begin b) o) = ""%string.
Proof.
  intros Hag Hs. destruct e as [r|x]; cbn [step] in Hs.
  - eapply run_step_obs; [exact Hag|exact Hs|reflexivity].
  - assert (Hin : forallb inert o = true /\ s_next s' = s_next s /\ s_until s' = s_until s).
    { destruct (s_slot s) as [sl|].
      - destruct (xstep sl x) as [sl' o'] eqn:Ex. injection Hs as <- <-. split; [eapply xstep_inert; exact Ex|auto].
      - injection Hs as <- <-. auto. }
    destruct Hin as (Hin & Hn & Hu). cbn zeta.
    destruct (inert_outs (mkCtx (EExec x) (observe s')) o (obm_begin b) Hin) as [He Hc].
    rewrite He, Hc. destruct Hag as [Ha Hb]. split; [reflexivity|]. split.
    + split; cbn [obm_begin b_next b_bound]; congruence.
    + unfold ochk_end. cbn [obm_begin b_bound k_obs observe o_until]. rewrite Hb, Hu.
      destruct (s_until s); [rewrite Z.ltb_irrefl|]; reflexivity.
Qed.

Lemma ochk_trace_gen evs : forall s b, agree s b -> ochk_trace b (trace s evs) = ""%string.
Proof.
  induction evs as [|e r IH]; intros s b Hag; cbn [trace ochk_trace]; [reflexivity|].
  destruct (step s e) as [s' o] eqn:Es. cbn [ochk_trace ctx_of i_ev i_outs i_obs].
  destruct (step_obs _ _ _ _ _ Hag Es) as (Hc & Hg & He).
  change (ctx_of (mkItem e o (observe s'))) with (mkCtx e (observe s')).
  cbn zeta in Hc, Hg, He. rewrite Hc, He. cbn [cat2 is_empty]. apply IH. exact Hg.
Qed.

Lemma observer_ok_holds t0 evs : observer_ok t0 (trace (init t0) evs) = true.
Proof.
  unfold observer_ok. apply is_empty_true. apply ochk_trace_gen. split; reflexivity.
Qed.

(* ---- safe shutdown, stated directly -------------------------------------------------------- *)

Lemma inert_syncs_idle l : forallb inert l = true -> syncs_idle l = true.
Proof.
  induction l as [|o r IH]; cbn [forallb syncs_idle]; [reflexivity|]. intros H.
  apply andb_true_iff in H as [Ho Hr]. fold (syncs_idle r). rewrite (IH Hr).
  destruct o; try discriminate; reflexivity.
Qed.

Lemma syncs_idle_app a b : syncs_idle (a ++ b) = syncs_idle a && syncs_idle b.
Proof. apply forallb_app. Qed.

(* A Run whose second reading of ctx.Err() sees the cancelled context - because
   it was cancelled before the Run, or during it (late) - sends its request
   with PreferBeingIdle, on a live context.  For every state, reachable or not. *)
Lemma run_step_syncs_idle s r : sd_sync s r = true -> syncs_idle (snd (run_step s r)) = true.
Proof.
  intros Hc. unfold run_step. rewrite Hc.
  destruct (sd_top s r && match s_until s with None => true | Some u => u <? r_now r end); [reflexivity|].
  destruct (negb (is_some (s_until s)) && negb (r_ready r)); [reflexivity|].
  destruct (phase_updates (s_rep s) (s_next s) (r_now r) (s_slot s) (r_sel r)) as [[[rep next] sl] o2] eqn:Ep.
  destruct (prefer_of rep (s_until s)) as [p ce].
  destruct (match sl with
            | Some x => let '(x', o) := xsteps x (r_sync r) in (Some x', o)
            | None => (None, [])
            end) as [sl4 o4] eqn:Es.
  assert (H2 : syncs_idle o2 = true).
  { destruct (phase_updates_obs _ _ _ _ _ _ _ _ _ Ep) as [[-> _]|(fired & o2' & -> & Hin & _)]; [reflexivity|].
    cbn [syncs_idle forallb sync_idle andb]. apply inert_syncs_idle, Hin. }
  assert (H4 : syncs_idle o4 = true).
  { apply inert_syncs_idle. destruct sl as [x|]; [|injection Es as _ <-; reflexivity].
    destruct (xsteps x (r_sync r)) as [x' o'] eqn:Ex. injection Es as _ <-. eapply xsteps_inert; exact Ex. }
  assert (Hfin : forall tl, syncs_idle tl = true ->
            syncs_idle (((if negb (is_some (s_until s)) then [OReady] else [])
                         ++ o2 ++ [OSync rep (if true then true else p) true] ++ o4) ++ tl) = true).
  { intros tl Ht. rewrite !syncs_idle_app, H2, H4, Ht. destruct (negb (is_some (s_until s))); reflexivity. }
  assert (Hstop : forall tl, syncs_idle tl = true -> syncs_idle (stop_outs sl4 ++ tl) = true).
  { intros tl Ht. rewrite syncs_idle_app, Ht, (inert_syncs_idle _ (stop_outs_inert sl4)). reflexivity. }
  destruct (r_reply r) as [|[ts|] ds]; cbn [snd]; try (apply Hfin; reflexivity).
  destruct ds; cbn [snd]; try (apply Hfin; try apply Hstop; reflexivity).
  destruct ce; cbn [snd]; apply Hfin; reflexivity.
Qed.

(* Once the context is cancelled it stays cancelled, and every request from
   then on asks to be left idle. *)
Lemma trace_after_cancel evs : forall s, s_cancelled s = true -> all_syncs_idle (trace s evs) = true.
Proof.
  induction evs as [|e rest IH]; intros s Hc; cbn [trace]; [reflexivity|].
  destruct (step s e) as [s' o] eqn:Es. cbn [all_syncs_idle forallb i_outs]. fold (all_syncs_idle (trace s' rest)).
  assert (H : syncs_idle o = true /\ s_cancelled s' = true).
  { destruct e as [r|x]; cbn [step] in Es.
    - assert (Hs : sd_sync s r = true) by (unfold sd_sync, sd_top; rewrite Hc; reflexivity).
      pose proof (run_step_syncs_idle s r Hs) as H1. destruct (run_step_ret_cancelled s r) as [_ H2].
      rewrite Es in H1, H2. cbn [fst snd] in H1, H2. rewrite H2. auto.
    - destruct (s_slot s) as [sl|].
      + destruct (xstep sl x) as [sl' o'] eqn:Ex. injection Es as <- <-. cbn [s_cancelled].
        split; [apply inert_syncs_idle; eapply xstep_inert; exact Ex|exact Hc].
      + injection Es as <- <-. auto. }
  destruct H as [H1 H2]. rewrite H1, (IH _ H2). reflexivity.
Qed.

Lemma trace_app a : forall s b, trace s (a ++ b) = trace s a ++ trace (run s a) b.
Proof.
  induction a as [|e r IH]; intros s b; cbn [app trace run]; [reflexivity|].
  destruct (step s e) as [s' o]. cbn [fst app]. rewrite IH. reflexivity.
Qed.

Lemma trace_length evs : forall s, List.length (trace s evs) = List.length evs.
Proof.
  induction evs as [|e r IH]; intros s; cbn [trace List.length]; [reflexivity|].
  destruct (step s e) as [s' o]. cbn [List.length]. rewrite IH. reflexivity.
Qed.

(* From the Run in which shutdown began (the context was cancelled before it,
   or during it before the request was built) onwards, every request of the
   history asks to be left idle and is sent on a live context - whatever the
   later events claim about the context. *)
Lemma safe_shutdown_holds t0 pre r post :
  r_shutdown r || r_late r = true ->
  all_syncs_idle (skipn (List.length pre) (trace (init t0) (pre ++ ERun r :: post))) = true.
Proof.
  intros Hr. rewrite trace_app, <- (trace_length pre (init t0)), skipn_app, skipn_all, Nat.sub_diag.
  cbn [app skipn trace]. set (s := run (init t0) pre).
  destruct (step s (ERun r)) as [s' o] eqn:Es. cbn [step] in Es.
  assert (Hs : sd_sync s r = true).
  { unfold sd_sync, sd_top. rewrite <- orb_assoc, Hr. apply orb_true_r. }
  pose proof (run_step_syncs_idle s r Hs) as H1. destruct (run_step_ret_cancelled s r) as [_ H2].
  rewrite Es in H1, H2. cbn [fst snd] in H1, H2. rewrite Hs in H2.
  cbn [all_syncs_idle forallb i_outs]. rewrite H1. apply (trace_after_cancel post s' H2).
Qed.
