(* Executable model of pkg/builder/build_client.go (BuildClient.Run and the
   executor goroutine spawned by startExecution).  No proofs here.

   One [ERun] event is one call of BuildClient.Run; the executor goroutine
   (buildExecutor.Execute followed by "updates <- Completed; close(updates)")
   is a second thread whose steps are the [xev] events.  They occur either
   between two Run calls ([EExec]) or at one of the two points at which Run
   can be overtaken by the executor: while it sleeps in the select on
   timer/updates ([r_sel]) and while the Synchronize RPC is in flight
   ([r_sync]).  stopExecution (cancel, then receive until the channel is
   closed) is a single step of Run because Run does not proceed until the
   executor goroutine has closed the channel.

   The context handed to Run is a sticky flag of the state; each Run says
   whether it got cancelled before the Run began ([r_shutdown]) or during
   the Run between its two readings of ctx.Err() ([r_late]).

   Times are integer milliseconds (Z).  The two constants are read back
   from the source on every run of the check (harness extractor) and
   compared with the values below by Corr.v. *)
From Coq Require Import List ZArith NArith Bool.
Import ListNotations.
Open Scope Z_scope.

Definition chan_cap : nat := 10.      (* make(chan ..., 10) in startExecution *)
Definition grace_ms : Z := 60000.     (* time.Minute in touchSchedulerMayThinkExecuting *)

(* ---- vocabulary ---------------------------------------------------------- *)

Inductive stage :=
| StStarted                               (* written by startExecution itself *)
| StUpd (k : N)                           (* progress update emitted by the executor *)
| StDone (ok : bool) (tag : N).           (* Completed: status OK?, identity of the response *)

Inductive rstate := RIdle | RExec (d : N) (st : stage).

Definition upd := (N * stage)%type.       (* CurrentState_Executing: action digest, state *)

(* What the client holds while executionCancellation/executionUpdates are
   non-nil, together with the state of the goroutine feeding the channel. *)
Record slot := mkSlot {
  x_id : N;                               (* ordinal of the executor *)
  x_dig : N;                              (* ActionDigest of its request *)
  x_queue : list upd;                     (* buffered channel contents, oldest first *)
  x_pending : option upd;                 (* sender blocked on a full channel *)
  x_finished : bool;                      (* Execute() has returned *)
  x_closed : bool }.                      (* close(updates) has happened *)

Record state := mkState {
  s_rep : rstate;                         (* request.CurrentState *)
  s_prefer : bool;                        (* request.PreferBeingIdle *)
  s_until : option Z;                     (* schedulerMayThinkExecutingUntil *)
  s_next : Z;                             (* nextSynchronizationAt *)
  s_slot : option slot;
  s_nextid : N;
  s_cancelled : bool }.                   (* ctx.Err() != nil has been true: a cancelled context stays cancelled *)

Definition init (t0 : Z) : state := mkState RIdle false None t0 None 0%N false.

(* Executor thread events. *)
Inductive xev :=
| XUpdate (k : N)                         (* executionStateUpdates <- update *)
| XFinish (ok : bool) (tag : N)           (* Execute returns; goroutine sends Completed *)
| XClose.                                 (* close(updates) *)

Inductive xres := XSent | XBlocked | XIgnored | XClosed.

Inductive errc := ENone | EReady | ESync | ETs | EStart | EUnknown | EPanic | EHang | EOther.

Inductive desired := DNone | DIdle | DExec (d : N) | DExecBad | DUnknown.
Inductive reply :=
| RpcErr
| Reply (ts : option Z) (ds : desired).   (* ts = None: invalid timestamp *)

(* Run reads ctx.Err() twice: in the termination test at the top and again
   right before the request is sent ("If we need to shut down, we should
   never be performing blocking Synchronize() calls").  The context can be
   cancelled in between: while CheckReadiness runs, or while Run sleeps in
   the select on timer/updates.  (A cancellation while the RPC is in flight
   has no effect on this Run's request.)  The context itself is modelled as
   the sticky flag [s_cancelled]; the two inputs say when it got cancelled. *)
Record rin := mkRin {
  r_shutdown : bool;                      (* the context was cancelled before this Run began (ctx.Err() != nil at the top) *)
  r_late : bool;                          (* it got cancelled during this Run, after the first test and before the second *)
  r_now : Z;                              (* clock reading during this Run *)
  r_ready : bool;                         (* CheckReadiness succeeds *)
  r_sel : list xev;                       (* executor steps while Run sleeps in select *)
  r_sync : list xev;                      (* executor steps while Synchronize is in flight *)
  r_reply : reply }.

Inductive event := ERun (r : rin) | EExec (x : xev).

Inductive out :=
| OReady                                  (* CheckReadiness was called *)
| OTimer (d : Z) (fired : bool)           (* clock.NewTimer(d); did the timer (not an update) end the select *)
| OX (e : xev) (r : xres)                 (* executor step and what became of it *)
| OExit (id : N)                          (* Execute() of executor id returned *)
| OCancel (id : N)                        (* executor id saw ctx.Done() while running *)
| OStart (id d : N) (overlap : bool)      (* Execute() entered; overlap: another Execute still running *)
| OSync (st : rstate) (prefer : bool) (ctxlive : bool)   (* SynchronizeRequest as received *)
| ORet (may : bool) (e : errc).           (* Run's return values *)

(* Snapshot of the client's private fields (verif hook VerifState). *)
Record obs := mkObs { o_until : option Z; o_next : Z; o_exec : bool; o_prefer : bool }.

Definition is_some {A} (o : option A) : bool := match o with Some _ => true | None => false end.
Definition opt_list {A} (o : option A) : list A := match o with Some a => [a] | None => [] end.

Definition observe (s : state) : obs :=
  mkObs (s_until s) (s_next s) (is_some (s_slot s)) (s_prefer s).

(* ---- the executor goroutine ---------------------------------------------- *)

Definition enqueue (x : slot) (u : upd) : slot * xres :=
  if Nat.ltb (length (x_queue x)) chan_cap
  then (mkSlot (x_id x) (x_dig x) (x_queue x ++ [u]) (x_pending x) (x_finished x) (x_closed x), XSent)
  else (mkSlot (x_id x) (x_dig x) (x_queue x) (Some u) (x_finished x) (x_closed x), XBlocked).

Definition set_finished (x : slot) : slot :=
  mkSlot (x_id x) (x_dig x) (x_queue x) (x_pending x) true (x_closed x).
Definition set_closed (x : slot) : slot :=
  mkSlot (x_id x) (x_dig x) (x_queue x) (x_pending x) (x_finished x) true.

Definition xstep (x : slot) (e : xev) : slot * list out :=
  match e with
  | XUpdate k =>
    if x_finished x || is_some (x_pending x) then (x, [OX e XIgnored])
    else let '(x', r) := enqueue x (x_dig x, StUpd k) in (x', [OX e r])
  | XFinish ok tag =>
    if x_finished x || is_some (x_pending x) then (x, [OX e XIgnored])
    else let '(x', r) := enqueue (set_finished x) (x_dig x, StDone ok tag) in
         (x', [OExit (x_id x); OX e r])
  | XClose =>
    if x_finished x && negb (is_some (x_pending x)) && negb (x_closed x)
    then (set_closed x, [OX e XClosed])
    else (x, [OX e XIgnored])
  end.

Fixpoint xsteps (x : slot) (es : list xev) : slot * list out :=
  match es with
  | [] => (x, [])
  | e :: r => let '(x1, o1) := xstep x e in
              let '(x2, o2) := xsteps x1 r in (x2, o1 ++ o2)
  end.

(* ---- the client side of the channel -------------------------------------- *)

Inductive rcv := RcvBlock | RcvNil | RcvUpd (u : upd).

(* A receive.  When the buffer was full and a sender is parked, the Go
   runtime moves the parked value into the buffer in the same operation. *)
Definition recv (x : slot) : rcv * slot :=
  match x_queue x with
  | u :: q => (RcvUpd u, mkSlot (x_id x) (x_dig x) (q ++ opt_list (x_pending x)) None (x_finished x) (x_closed x))
  | [] => if x_closed x then (RcvNil, x) else (RcvBlock, x)
  end.

(* applyExecutionUpdate + consumeExecutionUpdatesNonBlocking *)
Fixpoint consume (fuel : nat) (rep : rstate) (x : slot) : rstate * option slot :=
  match fuel with
  | O => (rep, Some x)
  | S f =>
    match recv x with
    | (RcvUpd (d, st), x') => consume f (RExec d st) x'
    | (RcvNil, _) => (rep, None)
    | (RcvBlock, _) => (rep, Some x)
    end
  end.

Definition consume_fuel (x : slot) : nat := S (S (S (length (x_queue x)))).

Definition avail (x : slot) : bool :=
  match x_queue x with [] => x_closed x | _ => true end.

(* "When executing an action, see if there are any updates" *)
Definition phase_updates (rep : rstate) (next now : Z) (sl : option slot) (sel : list xev)
    : rstate * Z * option slot * list out :=
  match sl with
  | None => (rep, next, None, [])
  | Some x =>
    let '(x1, o2) := if avail x then (x, []) else xsteps x sel in
    let fired := match recv x1 with (RcvBlock, _) => true | _ => false end in
    let o := OTimer (next - now) fired :: o2 in
    match recv x1 with
    | (RcvBlock, _) => (rep, next, Some x1, o)                     (* timer fires *)
    | (RcvNil, _) => (rep, Z.min next now, None, o)
    | (RcvUpd (d, st), x2) =>
      let '(rep', sl') := consume (consume_fuel x2) (RExec d st) x2 in
      (rep', Z.min next now, sl', o)
    end
  end.

(* PreferBeingIdle and currentStateIsExecuting *)
Definition prefer_of (rep : rstate) (until : option Z) : bool * bool :=
  match rep with
  | RIdle => (is_some until, false)
  | RExec _ (StDone ok _) => (negb ok, false)
  | RExec _ _ => (false, true)
  end.

(* stopExecution: what the executor goroutine shows while being stopped *)
Definition stop_outs (sl : option slot) : list out :=
  match sl with
  | None => []
  | Some x => if x_finished x then [] else [OCancel (x_id x); OExit (x_id x)]
  end.

Definition touch (next : Z) : option Z := Some (next + grace_ms).

(* ctx.Err() != nil at the two places where Run reads it *)
Definition sd_top (s : state) (r : rin) : bool := s_cancelled s || r_shutdown r.
Definition sd_sync (s : state) (r : rin) : bool := sd_top s r || r_late r.

Definition set_cancelled (s : state) (b : bool) : state :=
  mkState (s_rep s) (s_prefer s) (s_until s) (s_next s) (s_slot s) (s_nextid s) b.

Definition run_step (s : state) (r : rin) : state * list out :=
  let now := r_now r in
  (* termination test *)
  if sd_top s r && match s_until s with None => true | Some u => u <? now end
  then (set_cancelled s (sd_sync s r), [ORet true ENone])
  else
  (* readiness *)
  let need_ready := negb (is_some (s_until s)) in
  if need_ready && negb (r_ready r) then (set_cancelled s (sd_sync s r), [OReady; ORet true EReady])
  else
  let o1 := if need_ready then [OReady] else [] in
  let '(rep, next, sl, o2) := phase_updates (s_rep s) (s_next s) now (s_slot s) (r_sel r) in
  let '(p, cur_exec) := prefer_of rep (s_until s) in
  (* "if ctx.Err() != nil { PreferBeingIdle = true; ctx = context.Background() }":
     the second reading of the context; the RPC always goes out on a live one *)
  let cn := sd_sync s r in
  let prefer := if cn then true else p in
  let o3 := [OSync rep prefer true] in
  let '(sl, o4) := match sl with
                   | Some x => let '(x', o) := xsteps x (r_sync r) in (Some x', o)
                   | None => (None, [])
                   end in
  let until := match s_until s with None => touch next | Some u => Some u end in
  let pre := o1 ++ o2 ++ o3 ++ o4 in
  match r_reply r with
  | RpcErr =>
    (mkState rep prefer until next sl (s_nextid s) cn, pre ++ [ORet false ESync])
  | Reply None _ =>
    (mkState rep prefer until next sl (s_nextid s) cn, pre ++ [ORet false ETs])
  | Reply (Some ts) ds =>
    match ds with
    | DExec d =>
      let id := s_nextid s in
      (mkState (RExec d StStarted) prefer (touch ts) ts
               (Some (mkSlot id d [] None false false)) (N.succ id) cn,
       pre ++ stop_outs sl ++ [OStart id d false; ORet false ENone])
    | DExecBad =>
      (mkState rep prefer until ts sl (s_nextid s) cn, pre ++ [ORet false EStart])
    | DIdle =>
      (mkState RIdle prefer None ts None (s_nextid s) cn, pre ++ stop_outs sl ++ [ORet true ENone])
    | DUnknown =>
      (mkState rep prefer until ts sl (s_nextid s) cn, pre ++ [ORet false EUnknown])
    | DNone =>
      if cur_exec
      then (mkState rep prefer (touch ts) ts sl (s_nextid s) cn, pre ++ [ORet false ENone])
      else (mkState rep prefer None ts sl (s_nextid s) cn, pre ++ [ORet true ENone])
    end
  end.

Definition step (s : state) (e : event) : state * list out :=
  match e with
  | ERun r => run_step s r
  | EExec x =>
    match s_slot s with
    | None => (s, [OX x XIgnored])
    | Some sl => let '(sl', o) := xstep sl x in
                 (mkState (s_rep s) (s_prefer s) (s_until s) (s_next s) (Some sl') (s_nextid s) (s_cancelled s), o)
    end
  end.

Record item := mkItem { i_ev : event; i_outs : list out; i_obs : obs }.

Fixpoint trace (s : state) (evs : list event) : list item :=
  match evs with
  | [] => []
  | e :: r => let '(s', o) := step s e in mkItem e o (observe s') :: trace s' r
  end.

Fixpoint run (s : state) (evs : list event) : state :=
  match evs with
  | [] => s
  | e :: r => run (fst (step s e)) r
  end.
