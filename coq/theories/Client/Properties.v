(* C08 — the property theorems, and nothing else.

   [trace (init t0) evs] is what the model of BuildClient.Run and of its
   executor goroutine produces for an arbitrary clock reading t0 at
   construction and an ARBITRARY list of events: Run calls with any
   shutdown flag (context cancelled before the Run) and late-cancellation
   flag (context cancelled during the Run, between its two readings of
   ctx.Err()), clock reading, readiness result, scheduler reply (execute /
   idle / no change / RPC error / invalid timestamp / invalid execute request
   / unknown desired state), and executor steps (progress update, finish,
   close) between Runs, while Run sleeps in its select, and while the
   Synchronize RPC is in flight.  [trace_ok chk tr] runs the monitor of
   Spec.v over a trace; Corr.v evaluates the very same checks on the traces
   recorded from the Go implementation. *)
From Coq Require Import List ZArith NArith Bool String.
From VF Require Import Client.Model Client.Spec Client.Proofs Client.ProofsObs.
Import ListNotations.
Open Scope Z_scope.

(* A new executor is started only after the previous one returned and its
   update channel was drained to closed; executors exit once; after the
   scheduler said "idle" none is left running. *)
Theorem one_executor : forall t0 evs,
  trace_ok chk_one_executor (trace (init t0) evs) = true.
Proof. exact one_executor_holds. Qed.
Print Assumptions one_executor.

(* Every SynchronizeRequest reports Idle (and then no executor is running),
   or the digest of the executor most recently started together with a
   state that this executor emitted; a Completed report carries that
   executor's own response. *)
Theorem report_honest : forall t0 evs,
  trace_ok chk_report_honest (trace (init t0) evs) = true.
Proof. exact report_honest_holds. Qed.
Print Assumptions report_honest.

(* "The completion of an action is reported with that action's own response":
   if the executor's update channel was closed before this Run built its request
   (in an earlier step, or while the Run slept in its select) and the select
   was ended by an update and not by the timer, the request reports that
   executor's Completed (with report_honest: its own response); and a client
   that held no execution slot when the previous Run returned never reports a
   non-completed executing state. *)
Theorem completion_reported : forall t0 evs,
  trace_ok chk_completion (trace (init t0) evs) = true.
Proof. exact completion_reported_holds. Qed.
Print Assumptions completion_reported.

(* A non-OK completion is reported with PreferBeingIdle, and PreferBeingIdle
   stays set on every later request until readiness was re-checked
   successfully (or the scheduler forced a new action onto the worker); an
   idle worker asks for work (PreferBeingIdle = false) only in a Run whose
   readiness check has just succeeded. *)
Theorem idle_after_failure : forall t0 evs,
  trace_ok chk_idle_after_failure (trace (init t0) evs) = true.
Proof. exact idle_after_failure_holds. Qed.
Print Assumptions idle_after_failure.

(* From the moment shutdown began every request has PreferBeingIdle and is
   sent on a live context: the request of a Run that saw the cancelled context
   at the top, the request of a Run during which the context got cancelled
   before the request was built (while CheckReadiness ran, or while Run slept
   in its select: late cancellation), and every request of every later Run,
   whatever the later events say about the context (the monitor remembers
   that shutdown began; the model's context stays cancelled). *)
Theorem shutdown_never_solicits : forall t0 evs,
  trace_ok chk_shutdown (trace (init t0) evs) = true.
Proof. exact shutdown_holds. Qed.
Print Assumptions shutdown_never_solicits.

(* LaunchWorkerThread's termination rule: whenever Run returns mayTerminate
   after shutdown began (in this Run, late cancellation included, or earlier),
   schedulerMayThinkExecutingUntil is nil or in the past. *)
Theorem terminate_only_when_safe : forall t0 evs,
  trace_ok chk_terminate (trace (init t0) evs) = true.
Proof. exact terminate_holds. Qed.
Print Assumptions terminate_only_when_safe.

(* All six at once: the predicate Corr.v evaluates on implementation traces. *)
Theorem client_trace_ok : forall t0 evs,
  trace_ok chk_all (trace (init t0) evs) = true.
Proof. exact client_trace_ok_holds. Qed.
Print Assumptions client_trace_ok.

(* Safe shutdown without the monitor: take any history and any Run in it for
   which the context was cancelled by the time the request was built (before
   the Run: r_shutdown; or during it: r_late).  In that Run and in every later
   step, every SynchronizeRequest has PreferBeingIdle = true and goes out on a
   live context - also if the later events no longer say "cancelled". *)
Theorem safe_shutdown : forall t0 pre r post,
  r_shutdown r || r_late r = true ->
  all_syncs_idle (skipn (List.length pre) (trace (init t0) (pre ++ ERun r :: post))) = true.
Proof. exact safe_shutdown_holds. Qed.
Print Assumptions safe_shutdown.

(* The same for one Run from an arbitrary (not necessarily reachable) state:
   if the second reading of ctx.Err() sees the cancelled context, the request
   asks to be left idle and is sent on a live context. *)
Theorem late_cancel_prefers_idle : forall s r,
  sd_sync s r = true -> syncs_idle (snd (run_step s r)) = true.
Proof. exact run_step_syncs_idle. Qed.
Print Assumptions late_cancel_prefers_idle.

(* The observer: a second monitor that ignores the client's private fields and
   derives "the scheduler may think this worker is executing until T" from the
   Synchronize traffic alone (Spec.obm).  On every model trace
   (a) Run returns mayTerminate during shutdown only once that bound is gone or
       has passed,
   (b) an idle worker sends PreferBeingIdle = false only while the bound is
       gone and right after a successful readiness check,
   (c) after every step the client's schedulerMayThinkExecutingUntil is not
       nil and not earlier than the observed bound whenever there is one
       (in the model the two coincide). *)
Theorem observer_ok_all : forall t0 evs, observer_ok t0 (trace (init t0) evs) = true.
Proof. exact observer_ok_holds. Qed.
Print Assumptions observer_ok_all.

(* The same on traces (evaluated on the implementation by Corr.v): whenever
   the snapshot after a step has until = nil, the monitor knows of no running
   executor. *)
Theorem until_nil_means_idle : forall t0 evs, end_ok (trace (init t0) evs) = true.
Proof. exact until_nil_means_idle_holds. Qed.
Print Assumptions until_nil_means_idle.

(* In every reachable state: if the scheduler cannot think the worker is
   executing (until = nil), no action is executing — the slot is empty or its
   Execute() has returned.  Terminating on until = nil abandons nothing. *)
Theorem until_none_nothing_running : forall t0 evs,
  let s := run (init t0) evs in
  s_until s = None -> match s_slot s with Some x => x_finished x = true | None => True end.
Proof. exact until_none_nothing_running_holds. Qed.
Print Assumptions until_none_nothing_running.

(* "On shutdown it keeps synchronizing until the scheduler cannot believe it
   is still executing": while until has not passed, Run does not return
   early, whatever its inputs; it performs a Synchronize. *)
Theorem shutdown_keeps_synchronizing : forall s r u,
  s_until s = Some u -> r_now r <= u -> has_sync (snd (run_step s r)) = true.
Proof. exact shutdown_keeps_synchronizing_holds. Qed.
Print Assumptions shutdown_keeps_synchronizing.

(* The update channel never holds more than its capacity, and the executor
   is parked in a send only when the buffer is full. *)
Theorem channel_bounded : forall t0 evs, chan_ok_opt (s_slot (run (init t0) evs)).
Proof. exact channel_bounded_holds. Qed.
Print Assumptions channel_bounded.

(* ---- non-vacuity ------------------------------------------------------------------ *)

Definition rn (sd : bool) (now : Z) (rp : reply) : event := ERun (mkRin sd false now true [] [] rp).
(* a Run during which the context is cancelled after the termination test *)
Definition rn_late (now : Z) (rp : reply) : event := ERun (mkRin false true now true [] [] rp).

(* A history in which an executor is started, reports progress, fails, the
   failure is reported with PreferBeingIdle, the scheduler hands out a second
   action while the first Completed is still being reported, the second
   executor is cancelled by "idle", and the worker terminates on shutdown. *)
Definition demo : list event :=
  [ rn false 0 (Reply (Some 10) (DExec 1));
    EExec (XUpdate 1);
    rn false 5 (Reply (Some 20) DNone);
    EExec (XFinish false 7); EExec XClose;
    rn false 20 (Reply (Some 30) DNone);
    rn false 30 (Reply (Some 40) (DExec 2));
    rn false 40 (Reply (Some 50) DIdle);
    rn true 50 (Reply (Some 60) DNone);
    rn true 60 RpcErr ].

Example demo_outputs :
  map i_outs (trace (init 0) demo) =
  [ [OReady; OSync RIdle false true; OStart 0 1 false; ORet false ENone];
    [OX (XUpdate 1) XSent];
    [OTimer 5 false; OSync (RExec 1 (StUpd 1)) false true; ORet false ENone];
    [OExit 0; OX (XFinish false 7) XSent]; [OX XClose XClosed];
    [OTimer 0 false; OSync (RExec 1 (StDone false 7)) true true; ORet true ENone];
    [OReady; OSync (RExec 1 (StDone false 7)) true true; OStart 1 2 false; ORet false ENone];
    [OTimer 0 true; OSync (RExec 2 StStarted) false true; OCancel 1; OExit 1; ORet true ENone];
    [ORet true ENone];
    [ORet true ENone] ]%N.
Proof. vm_compute. reflexivity. Qed.

(* The channel really fills up: the 11th update parks the executor. *)
Example demo_blocked :
  let evs := rn false 0 (Reply (Some 10) (DExec 1)) :: repeat (EExec (XUpdate 0)) 11 in
  last (map i_outs (trace (init 0) evs)) [] = [OX (XUpdate 0) XBlocked].
Proof. vm_compute. reflexivity. Qed.

(* The monitor has teeth: traces that break a property are rejected. *)
Definition bad_item (e : event) (o : list out) : item := mkItem e o (mkObs (Some 100) 0 true false).

Example two_executors_rejected :
  chk_trace chk_all mon_init
    [ bad_item (rn false 0 (Reply (Some 10) (DExec 1))) [OReady; OSync RIdle false true; OStart 0 1 false; ORet false ENone];
      bad_item (rn false 5 (Reply (Some 10) (DExec 2))) [OTimer 5 true; OSync (RExec 1 StStarted) false true; OStart 1 2 false; ORet false ENone] ]
  = "start-before-previous-exit"%string.
Proof. vm_compute. reflexivity. Qed.

Example foreign_response_rejected :
  chk_trace chk_all mon_init
    [ bad_item (rn false 0 (Reply (Some 10) (DExec 1))) [OReady; OSync RIdle false true; OStart 0 1 false; ORet false ENone];
      bad_item (EExec (XFinish true 3)) [OExit 0; OX (XFinish true 3) XSent];
      bad_item (rn false 5 (Reply (Some 10) DNone)) [OTimer 5 true; OSync (RExec 1 (StDone true 4)) false true; ORet true ENone] ]
  = "reports-foreign-response"%string.
Proof. vm_compute. reflexivity. Qed.

Example early_termination_rejected :
  chk_trace chk_all mon_init [ bad_item (rn true 50 RpcErr) [ORet true ENone] ]
  = "terminates-while-scheduler-may-think-executing"%string.
Proof. vm_compute. reflexivity. Qed.

Example soliciting_in_shutdown_rejected :
  chk_trace chk_all mon_init [ bad_item (rn true 50 RpcErr) [OReady; OSync RIdle false true; ORet false ESync] ]
  = "solicits-work-during-shutdown"%string.
Proof. vm_compute. reflexivity. Qed.

Example until_nil_while_executing_rejected :
  end_trace mon_init
    [ mkItem (rn false 0 (Reply (Some 10) (DExec 1))) [OReady; OSync RIdle false true; OStart 0 1 false; ORet false ENone]
             (mkObs None 10 true false) ]
  = "until-nil-while-executing"%string.
Proof. vm_compute. reflexivity. Qed.

Example soliciting_without_readiness_rejected :
  chk_trace chk_all mon_init [ bad_item (rn false 50 RpcErr) [OTimer 0 true; OSync RIdle false true; ORet false ESync] ]
  = "solicits-work-without-readiness-check"%string.
Proof. vm_compute. reflexivity. Qed.

Example no_idle_after_failure_rejected :
  chk_trace chk_all mon_init
    [ bad_item (rn false 0 (Reply (Some 10) (DExec 1))) [OReady; OSync RIdle false true; OStart 0 1 false; ORet false ENone];
      bad_item (EExec (XFinish false 3)) [OExit 0; OX (XFinish false 3) XSent];
      bad_item (rn false 5 (Reply (Some 10) DNone)) [OTimer 5 true; OSync (RExec 1 (StDone false 3)) false true; ORet true ENone] ]
  = "failure-reported-without-prefer-idle"%string.
Proof. vm_compute. reflexivity. Qed.

(* The seeded slip "touch only when the RPC failed": the RPC succeeds but the
   reply is rejected locally, the field stays nil, and the observer objects. *)
Example rejected_reply_not_extending_rejected :
  ochk_trace (obm_init 0)
    [ mkItem (rn false 5 (Reply (Some 10) DUnknown)) [OReady; OSync RIdle false true; ORet false EUnknown]
             (mkObs None 10 false false) ]
  = "until-not-extended-after-rejected-reply"%string.
Proof. vm_compute. reflexivity. Qed.

Example early_termination_observed :
  ochk_trace (obm_init 0)
    [ mkItem (rn false 5 (Reply None DNone)) [OReady; OSync RIdle false true; ORet false ETs]
             (mkObs (Some 60000) 0 false false);
      mkItem (rn true 6 RpcErr) [ORet true ENone] (mkObs (Some 60000) 0 false false) ]
  = "terminates-before-observed-bound-has-passed"%string.
Proof. vm_compute. reflexivity. Qed.

Example soliciting_while_maybe_executing_rejected :
  ochk_trace (obm_init 0)
    [ mkItem (rn false 5 RpcErr) [OReady; OSync RIdle false true; ORet false ESync]
             (mkObs (Some 60000) 0 false false);
      mkItem (rn false 6 RpcErr) [OReady; OSync RIdle false true; ORet false ESync]
             (mkObs (Some 60000) 0 false false) ]
  = "solicits-work-while-scheduler-may-think-executing"%string.
Proof. vm_compute. reflexivity. Qed.

(* Late cancellation.  The context is cancelled while an idle worker's
   CheckReadiness runs (first Run: the request still goes out, asking to be
   left idle, although the termination test at the top saw a live context and
   readiness succeeded); the scheduler nevertheless hands out an action; the
   next Run's events do not repeat the flag, yet the request (now executing)
   asks to be left idle because the context stays cancelled.  A second
   history: cancelled while an executing worker sleeps in the select. *)
Example demo_late_cancel_idle :
  map i_outs (trace (init 0)
    [ rn_late 0 (Reply (Some 10) (DExec 1));
      rn false 10 (Reply (Some 20) DIdle);
      rn false 20 RpcErr ]) =
  [ [OReady; OSync RIdle true true; OStart 0 1 false; ORet false ENone];
    [OTimer 0 true; OSync (RExec 1 StStarted) true true; OCancel 0; OExit 0; ORet true ENone];
    [ORet true ENone] ]%N.
Proof. vm_compute. reflexivity. Qed.

Example demo_late_cancel_executing :
  map i_outs (trace (init 0)
    [ rn false 0 (Reply (Some 10) (DExec 1));
      ERun (mkRin false true 5 true [XUpdate 2] [] (Reply (Some 20) DNone)) ]) =
  [ [OReady; OSync RIdle false true; OStart 0 1 false; ORet false ENone];
    [OTimer 5 false; OX (XUpdate 2) XSent; OSync (RExec 1 (StUpd 2)) true true; ORet false ENone] ]%N.
Proof. vm_compute. reflexivity. Qed.

(* The hypothesis of safe_shutdown is satisfiable, and without it the
   conclusion fails (so it says something). *)
Example safe_shutdown_nonvacuous :
  all_syncs_idle (trace (init 0) [rn_late 0 (Reply (Some 10) DNone); rn false 10 RpcErr]) = true
  /\ all_syncs_idle (trace (init 0) [rn false 0 (Reply (Some 10) DNone)]) = false.
Proof. vm_compute. split; reflexivity. Qed.

(* What "sample ctx.Err() once at the top of Run" would produce: the request
   of the Run during which the context got cancelled is computed as in normal
   operation.  Rejected - idle and executing, and also in the NEXT event if that
   one does not repeat the flag (once begun, shutdown stays begun). *)
Example late_cancel_soliciting_rejected :
  chk_trace chk_all mon_init
    [ bad_item (rn_late 50 RpcErr) [OReady; OSync RIdle false false; ORet false ESync] ]
  = "blocking-synchronize-after-shutdown-began"%string.
Proof. vm_compute. reflexivity. Qed.

Example late_cancel_blocking_while_executing_rejected :
  chk_trace chk_all mon_init
    [ bad_item (rn false 0 (Reply (Some 10) (DExec 1))) [OReady; OSync RIdle false true; OStart 0 1 false; ORet false ENone];
      bad_item (rn_late 5 (Reply (Some 20) DNone)) [OTimer 5 true; OSync (RExec 1 StStarted) false true; ORet false ENone] ]
  = "blocking-synchronize-after-shutdown-began"%string.
Proof. vm_compute. reflexivity. Qed.

Example shutdown_stays_begun :
  chk_trace chk_all mon_init
    [ bad_item (rn_late 50 RpcErr) [OReady; OSync RIdle true true; ORet false ESync];
      bad_item (rn false 60 RpcErr) [OReady; OSync RIdle false true; ORet false ESync] ]
  = "blocking-synchronize-after-shutdown-began"%string.
Proof. vm_compute. reflexivity. Qed.

Example late_cancel_on_cancelled_context_rejected :
  chk_trace chk_all mon_init
    [ bad_item (rn_late 50 RpcErr) [OReady; OSync RIdle true false; ORet false ESync] ]
  = "synchronize-with-cancelled-context"%string.
Proof. vm_compute. reflexivity. Qed.

(* Completion.  A progress update, the end of Execute (Completed is sent) and
   the close of the channel all happen between two Runs; the next Run's select
   is ended by the update, the client drains the channel to the close and
   reports the Completed with the executor's own response, and gives up its
   slot. *)
Definition burst : list event :=
  [ rn false 0 (Reply (Some 10) (DExec 1));
    EExec (XUpdate 1); EExec (XFinish true 7); EExec XClose;
    rn false 5 (Reply (Some 20) DNone) ].

Example demo_burst :
  map (fun it => (i_outs it, o_exec (i_obs it))) (trace (init 0) burst) =
  [ ([OReady; OSync RIdle false true; OStart 0 1 false; ORet false ENone], true);
    ([OX (XUpdate 1) XSent], true); ([OExit 0; OX (XFinish true 7) XSent], true); ([OX XClose XClosed], true);
    ([OTimer 5 false; OSync (RExec 1 (StDone true 7)) false true; ORet true ENone], false) ]%N.
Proof. vm_compute. reflexivity. Qed.

(* What "keep only the latest pending update and forget it at end-of-stream"
   produces on that history: the first update is reported, the Completed is
   dropped.  Rejected; and so is every later request that still reports the
   action as executing although the client gave up its slot. *)
Definition burst_items (last_outs : list out) : list item :=
  [ mkItem (rn false 0 (Reply (Some 10) (DExec 1))) [OReady; OSync RIdle false true; OStart 0 1 false; ORet false ENone]
           (mkObs (Some 60010) 10 true false);
    mkItem (EExec (XUpdate 1)) [OX (XUpdate 1) XSent] (mkObs (Some 60010) 10 true false);
    mkItem (EExec (XFinish true 7)) [OExit 0; OX (XFinish true 7) XSent] (mkObs (Some 60010) 10 true false);
    mkItem (EExec XClose) [OX XClose XClosed] (mkObs (Some 60010) 10 true false);
    mkItem (rn false 5 (Reply (Some 20) DNone)) last_outs (mkObs (Some 60020) 20 false false) ].

Example burst_accepted :
  chk_trace chk_all mon_init
    (burst_items [OTimer 5 false; OSync (RExec 1 (StDone true 7)) false true; ORet true ENone]) = ""%string.
Proof. vm_compute. reflexivity. Qed.

Example completion_dropped_rejected :
  chk_trace chk_all mon_init
    (burst_items [OTimer 5 false; OSync (RExec 1 (StUpd 1)) false true; ORet false ENone])
  = "completion-not-reported"%string.
Proof. vm_compute. reflexivity. Qed.

(* ... but re-sending the last state when the TIMER ended the select is fine
   (Go's select may pick the timer although updates are ready). *)
Example timer_resend_accepted :
  chk_trace chk_all mon_init
    (burst_items [OTimer 5 true; OSync (RExec 1 StStarted) false true; ORet false ENone]) = ""%string.
Proof. vm_compute. reflexivity. Qed.

Example executing_without_slot_rejected :
  chk_trace chk_all mon_init
    (burst_items [OTimer 5 true; OSync (RExec 1 StStarted) false true; ORet false ENone]
     ++ [ mkItem (rn false 20 (Reply (Some 30) DNone)) [OSync (RExec 1 (StUpd 1)) false true; ORet false ENone]
                 (mkObs (Some 60030) 30 false false) ])
  = "reports-executing-after-executor-closed"%string.
Proof. vm_compute. reflexivity. Qed.
