(* Proofs about the build-client model: an invariant relating the model
   state to the ghost state of the monitor of Spec.v, preserved by every
   step, under which none of the five checks ever fires. *)
From Coq Require Import List ZArith NArith Bool String Lia.
From VF Require Import Client.Model Client.Spec.
Import ListNotations.
Open Scope Z_scope.

(* ---- generic facts about the monitor runner --------------------------------- *)

Lemma cat2_nil a b : cat2 a b = ""%string -> a = ""%string /\ b = ""%string.
Proof. unfold cat2. destruct a; cbn; intros H; [split; [reflexivity|exact H]|discriminate]. Qed.

Lemma cat2_nil_intro a b : a = ""%string -> b = ""%string -> cat2 a b = ""%string.
Proof. intros -> ->. reflexivity. Qed.

Lemma mon_outs_app c m a b : mon_outs c m (a ++ b) = mon_outs c (mon_outs c m a) b.
Proof. revert m. induction a as [|o a IH]; intros m; cbn; [reflexivity|apply IH]. Qed.

Lemma chk_outs_app k c m a b :
  chk_outs k c m (a ++ b) = cat2 (chk_outs k c m a) (chk_outs k c (mon_outs c m a) b).
Proof.
  revert m. induction a as [|o a IH]; intros m; cbn; [reflexivity|].
  rewrite IH. unfold cat2. destruct (k c m o); cbn; [|reflexivity].
  destruct (chk_outs k c (mon_next c m o) a); reflexivity.
Qed.

Lemma chk_outs_app_nil k c m a b :
  chk_outs k c m a = ""%string -> chk_outs k c (mon_outs c m a) b = ""%string ->
  chk_outs k c m (a ++ b) = ""%string.
Proof. intros Ha Hb. rewrite chk_outs_app, Ha, Hb. reflexivity. Qed.

(* A check that is implied by another one (pointwise) holds wherever the
   other one holds. *)
Lemma chk_outs_weaken (k k' : chk) :
  (forall c m o, k c m o = ""%string -> k' c m o = ""%string) ->
  forall c m outs, chk_outs k c m outs = ""%string -> chk_outs k' c m outs = ""%string.
Proof.
  intros Hw c m outs. revert m. induction outs as [|o r IH]; intros m; cbn; [reflexivity|].
  intros H. apply cat2_nil in H as [H1 H2]. apply cat2_nil_intro; auto.
Qed.

Lemma chk_trace_weaken (k k' : chk) :
  (forall c m o, k c m o = ""%string -> k' c m o = ""%string) ->
  forall tr m, chk_trace k m tr = ""%string -> chk_trace k' m tr = ""%string.
Proof.
  intros Hw tr. induction tr as [|it r IH]; intros m; cbn; [reflexivity|].
  intros H. apply cat2_nil in H as [H1 H2]. apply cat2_nil_intro.
  - eapply chk_outs_weaken; eauto.
  - apply IH. exact H2.
Qed.

(* ---- the invariant ------------------------------------------------------------- *)

Definition qs (x : slot) : list upd := x_queue x ++ opt_list (x_pending x).

Definition is_done (st : stage) : bool := match st with StDone _ _ => true | _ => false end.

(* In the sequence "state currently reported, then everything still in the
   channel", Completed can only be the last element, and only once Execute
   has returned. *)
Fixpoint seq_ok (fin : bool) (l : list stage) : bool :=
  match l with
  | [] => true
  | s :: r => match r with
              | [] => implb (is_done s) fin
              | _ => negb (is_done s) && seq_ok fin r
              end
  end.

(* Once Execute has returned, its Completed is the last element of that
   sequence (it is sent before anything else can be, and nothing follows). *)
Fixpoint last_done (l : list stage) : bool :=
  match l with
  | [] => false
  | s :: r => match r with [] => is_done s | _ => last_done r end
  end.

Definition rep_stage (rep : rstate) : list stage :=
  match rep with RIdle => [] | RExec _ st => [st] end.

Definition hon (cu : cur) (d : N) (st : stage) : bool :=
  N.eqb d (c_dig cu) && (stage_eqb st StStarted || mem_stage st (c_em cu)).

Definition slot_inv (rep : rstate) (x : slot) (m : mon) : Prop :=
  m_live m = (if x_finished x then None else Some (x_id x))
  /\ (exists cu, m_cur m = Some cu /\ c_dig cu = x_dig x
        /\ (exists st, rep = RExec (x_dig x) st /\ hon cu (x_dig x) st = true)
        /\ Forall (fun u => hon cu (fst u) (snd u) = true) (qs x))
  /\ seq_ok (x_finished x) (rep_stage rep ++ map snd (qs x)) = true
  /\ (x_closed x = true -> x_finished x = true /\ x_pending x = None)
  /\ (x_finished x = true -> last_done (rep_stage rep ++ map snd (qs x)) = true)
  /\ m_closed m = x_closed x.

(* Without a slot the client was told to go idle, or it has drained its
   executor's channel to the close: what it reports is Idle or a Completed. *)
Definition noslot_inv (rep : rstate) (m : mon) : Prop :=
  m_live m = None
  /\ (rep = RIdle \/ exists cu d st, m_cur m = Some cu /\ rep = RExec d st /\ hon cu d st = true
                                    /\ is_done st = true).

Definition Inv (rep : rstate) (sl : option slot) (m : mon) : Prop :=
  match sl with Some x => slot_inv rep x m | None => noslot_inv rep m end
  /\ (m_owes m = true -> rep = RIdle \/ is_failed rep = true).

(* ---- small facts ----------------------------------------------------------------- *)

Lemma stage_eqb_refl s : stage_eqb s s = true.
Proof. destruct s; cbn; auto using N.eqb_refl. rewrite N.eqb_refl, Bool.eqb_reflx. reflexivity. Qed.

Lemma hon_add cu d st s' :
  hon cu d st = true -> hon (mkCur (c_id cu) (c_dig cu) (s' :: c_em cu)) d st = true.
Proof.
  unfold hon. cbn. intros H. apply andb_true_iff in H as [H1 H2]. rewrite H1. cbn.
  apply orb_true_iff in H2 as [H2|H2]; rewrite H2; cbn; auto using orb_true_r.
  rewrite !orb_true_r. reflexivity.
Qed.

Lemma hon_new cu st : hon (mkCur (c_id cu) (c_dig cu) (st :: c_em cu)) (c_dig cu) st = true.
Proof. unfold hon. cbn. rewrite N.eqb_refl, stage_eqb_refl. cbn. apply orb_true_r. Qed.

Lemma seq_ok_tl fin s l : seq_ok fin (s :: l) = true -> seq_ok fin l = true.
Proof. cbn. destruct l; [reflexivity|]. intros H. apply andb_true_iff in H as [_ H]. exact H. Qed.

Lemma seq_ok_false_all l : seq_ok false l = true -> forallb (fun s => negb (is_done s)) l = true.
Proof.
  induction l as [|s r IH]; cbn [seq_ok forallb]; [reflexivity|].
  destruct r.
  - destruct (is_done s); cbn; [discriminate|reflexivity].
  - intros H. apply andb_true_iff in H as [H1 H2]. rewrite H1. cbn [andb]. apply IH. exact H2.
Qed.

Lemma seq_ok_snoc fin l s :
  forallb (fun s => negb (is_done s)) l = true -> implb (is_done s) fin = true ->
  seq_ok fin (l ++ [s]) = true.
Proof.
  intros Hl Hs. induction l as [|a r IH]; cbn [app seq_ok]; [exact Hs|].
  cbn [forallb] in Hl. apply andb_true_iff in Hl as [Ha Hr].
  destruct (r ++ [s]) eqn:E; [destruct r; discriminate|].
  rewrite Ha. cbn [andb]. apply IH. exact Hr.
Qed.

(* Completed being reported means the channel is empty and Execute returned. *)
Lemma seq_ok_done_head fin s l :
  is_done s = true -> seq_ok fin (s :: l) = true -> l = [] /\ fin = true.
Proof.
  intros Hd. cbn. destruct l.
  - rewrite Hd. cbn. intros ->. auto.
  - rewrite Hd. cbn. discriminate.
Qed.

Lemma last_done_snoc l s : last_done (l ++ [s]) = is_done s.
Proof.
  induction l as [|a r IH]; cbn [app last_done]; [reflexivity|].
  destruct (r ++ [s]) eqn:E; [destruct r; discriminate|]. exact IH.
Qed.

Lemma last_done_tl a b l : last_done (a :: b :: l) = last_done (b :: l).
Proof. reflexivity. Qed.

Lemma is_failed_done d st : is_failed (RExec d st) = true -> is_done st = true.
Proof. destruct st as [| |[] ?]; cbn; congruence. Qed.

(* ---- the monitor over executor outputs ---------------------------------------------- *)

(* Outputs of executor steps never touch owes/synced. *)
Lemma xstep_frame c x e x' o m :
  xstep x e = (x', o) ->
  m_owes (mon_outs c m o) = m_owes m /\ m_synced (mon_outs c m o) = m_synced m
  /\ m_upd (mon_outs c m o) = m_upd m /\ m_slot (mon_outs c m o) = m_slot m.
Proof.
  unfold xstep. destruct e as [k|ok tag|].
  - destruct (x_finished x || is_some (x_pending x)).
    + intros [= <- <-]. cbn. auto.
    + destruct (enqueue x (x_dig x, StUpd k)) as [x1 r]. intros [= <- <-]. cbn.
      destruct r; cbn; auto.
  - destruct (x_finished x || is_some (x_pending x)).
    + intros [= <- <-]. cbn. auto.
    + destruct (enqueue (set_finished x) (x_dig x, StDone ok tag)) as [x1 r]. intros [= <- <-]. cbn.
      destruct r; cbn; auto.
  - destruct (x_finished x && negb (is_some (x_pending x)) && negb (x_closed x)); intros [= <- <-]; cbn; auto.
Qed.

Lemma enqueue_qs x u x' r :
  x_pending x = None -> enqueue x u = (x', r) ->
  qs x' = qs x ++ [u] /\ x_id x' = x_id x /\ x_dig x' = x_dig x /\ x_finished x' = x_finished x
  /\ x_closed x' = x_closed x /\ (r = XSent \/ r = XBlocked)
  /\ (x_closed x = true -> x_pending x' = None -> True).
Proof.
  intros Hp. unfold enqueue, qs. rewrite Hp.
  destruct (Nat.ltb (List.length (x_queue x)) chan_cap); intros [= <- <-]; cbn; rewrite ?app_nil_r; auto 10.
Qed.

Lemma or_false_split a b : a || b = false -> a = false /\ b = false.
Proof. destruct a, b; cbn; auto; discriminate. Qed.

Lemma is_some_false {A} (o : option A) : is_some o = false -> o = None.
Proof. destruct o; cbn; [discriminate|reflexivity]. Qed.

Lemma chk_all_OX c m e r : chk_all c m (OX e r) = ""%string.
Proof. reflexivity. Qed.

Lemma optN_eqb_refl a : optN_eqb a a = true.
Proof. destruct a; cbn; auto using N.eqb_refl. Qed.

Lemma slot_inv_ext rep x m m' :
  m_live m' = m_live m -> m_cur m' = m_cur m -> m_closed m' = m_closed m ->
  slot_inv rep x m -> slot_inv rep x m'.
Proof. unfold slot_inv. intros -> -> ->. auto. Qed.

(* One executor step keeps the invariant and raises no alarm. *)
Lemma xstep_ok c rep x m e x' o :
  slot_inv rep x m -> xstep x e = (x', o) ->
  chk_outs chk_all c m o = ""%string /\ slot_inv rep x' (mon_outs c m o).
Proof.
  intros Hinv Hx. pose proof Hinv as (Hlive & (cu & Hcur & Hdig & (st & Hrep & Hhon) & Hall) & Hseq & Hcl & Hld & Hmc).
  assert (Hign : forall e', chk_outs chk_all c m [OX e' XIgnored] = ""%string
                            /\ slot_inv rep x (mon_outs c m [OX e' XIgnored])).
  { intros e'. split; [reflexivity|]. eapply slot_inv_ext; [| | |exact Hinv]; cbn; rewrite ?orb_false_r; reflexivity. }
  unfold xstep in Hx. destruct e as [k|ok tag|].
  - (* update *)
    destruct (x_finished x || is_some (x_pending x)) eqn:E.
    { injection Hx as <- <-. apply Hign. }
    apply or_false_split in E as [Hfin Hpend]. apply is_some_false in Hpend.
    destruct (enqueue x (x_dig x, StUpd k)) as [x1 r] eqn:En. injection Hx as <- <-.
    destruct (enqueue_qs _ _ _ _ Hpend En) as (Hq & Hid & Hd & Hf & Hc & Hr & _).
    assert (Hem : emitted (XUpdate k) r = Some (StUpd k)) by (destruct Hr as [-> | ->]; reflexivity).
    assert (Hxc : is_xclosed r = false) by (destruct Hr as [-> | ->]; reflexivity).
    cbn [chk_outs mon_outs mon_next]. rewrite Hem, Hxc, orb_false_r. split; [reflexivity|].
    unfold slot_inv. cbn [m_live m_cur m_closed]. rewrite Hid, Hd, Hf, Hc, Hq, Hcur. cbn [add_em].
    split; [exact Hlive|]. split.
    + eexists. split; [reflexivity|]. cbn [c_dig]. split; [exact Hdig|]. split.
      * exists st. split; [exact Hrep|]. apply hon_add. exact Hhon.
      * apply Forall_app. split.
        -- eapply Forall_impl; [|exact Hall]. intros u Hu. apply hon_add. exact Hu.
        -- constructor; [|constructor]. cbn [fst snd]. rewrite <- Hdig. apply hon_new.
    + split; [|split; [|split]].
      * rewrite map_app, app_assoc. cbn [map snd]. rewrite Hfin in *.
        apply seq_ok_snoc; [apply seq_ok_false_all; exact Hseq|reflexivity].
      * intros Hc'. destruct (Hcl Hc') as [Hf' _]. congruence.
      * intros Hf'. congruence.
      * exact Hmc.
  - (* finish *)
    destruct (x_finished x || is_some (x_pending x)) eqn:E.
    { injection Hx as <- <-. apply Hign. }
    apply or_false_split in E as [Hfin Hpend]. apply is_some_false in Hpend.
    destruct (enqueue (set_finished x) (x_dig x, StDone ok tag)) as [x1 r] eqn:En. injection Hx as <- <-.
    destruct (enqueue_qs (set_finished x) _ _ _ Hpend En) as (Hq & Hid & Hd & Hf & Hc & Hr & _).
    cbn [set_finished x_id x_dig x_finished x_closed] in Hid, Hd, Hf, Hc.
    assert (Hem : emitted (XFinish ok tag) r = Some (StDone ok tag)) by (destruct Hr as [-> | ->]; reflexivity).
    assert (Hxc : is_xclosed r = false) by (destruct Hr as [-> | ->]; reflexivity).
    cbn [chk_outs mon_outs mon_next]. rewrite Hem, Hxc, orb_false_r.
    rewrite Hfin in Hlive.
    split.
    { unfold chk_all at 1. cbn [chk_one_executor chk_report_honest chk_completion chk_idle_after_failure chk_shutdown chk_terminate].
      rewrite Hlive, optN_eqb_refl. reflexivity. }
    unfold slot_inv. cbn [m_live m_cur m_closed]. rewrite Hid, Hd, Hf, Hc, Hq, Hcur, Hlive, optN_eqb_refl. cbn [add_em].
    split; [reflexivity|]. split.
    + eexists. split; [reflexivity|]. cbn [c_dig]. split; [exact Hdig|]. split.
      * exists st. split; [exact Hrep|]. apply hon_add. exact Hhon.
      * change (qs (set_finished x)) with (qs x). apply Forall_app. split.
        -- eapply Forall_impl; [|exact Hall]. intros u Hu. apply hon_add. exact Hu.
        -- constructor; [|constructor]. cbn [fst snd]. rewrite <- Hdig. apply hon_new.
    + change (qs (set_finished x)) with (qs x). split; [|split; [|split]].
      * rewrite map_app, app_assoc. cbn [map snd]. rewrite Hfin in Hseq.
        apply seq_ok_snoc; [apply seq_ok_false_all; exact Hseq|reflexivity].
      * intros Hc'. destruct (Hcl Hc') as [Hf' _]. congruence.
      * intros _. rewrite map_app, app_assoc. cbn [map snd]. apply last_done_snoc.
      * exact Hmc.
  - (* close *)
    destruct (x_finished x && negb (is_some (x_pending x)) && negb (x_closed x)) eqn:E.
    + injection Hx as <- <-. split; [reflexivity|].
      apply andb_true_iff in E as [E Hc]. apply andb_true_iff in E as [Hf Hp].
      apply negb_true_iff in Hp. apply is_some_false in Hp.
      unfold slot_inv. cbn [mon_outs mon_next emitted m_live m_cur m_closed is_xclosed set_closed x_id x_dig x_finished x_closed x_pending].
      change (qs (set_closed x)) with (qs x).
      split; [exact Hlive|]. split; [exists cu; split; [exact Hcur|]; split; [exact Hdig|]; split; [exists st; auto|exact Hall]|].
      split; [exact Hseq|]. split; [intros _; split; [exact Hf|exact Hp]|]. split; [exact Hld|apply orb_true_r].
    + injection Hx as <- <-. apply Hign.
Qed.

Lemma xsteps_ok c rep es : forall x m x' o,
  slot_inv rep x m -> xsteps x es = (x', o) ->
  chk_outs chk_all c m o = ""%string /\ slot_inv rep x' (mon_outs c m o)
  /\ m_owes (mon_outs c m o) = m_owes m /\ m_synced (mon_outs c m o) = m_synced m
  /\ m_upd (mon_outs c m o) = m_upd m /\ m_slot (mon_outs c m o) = m_slot m.
Proof.
  induction es as [|e r IH]; intros x m x' o Hinv Hx; cbn [xsteps] in Hx.
  - injection Hx as <- <-. cbn. auto 10.
  - destruct (xstep x e) as [x1 o1] eqn:E1. destruct (xsteps x1 r) as [x2 o2] eqn:E2.
    injection Hx as <- <-.
    destruct (xstep_ok c _ _ _ _ _ _ Hinv E1) as [Hc1 Hi1].
    destruct (xstep_frame c _ _ _ _ m E1) as (Ho1 & Hs1 & Hu1 & Hk1).
    destruct (IH _ _ _ _ Hi1 E2) as (Hc2 & Hi2 & Ho2 & Hs2 & Hu2 & Hk2).
    rewrite mon_outs_app. split; [apply chk_outs_app_nil; assumption|].
    split; [exact Hi2|]. split; [congruence|]. split; [congruence|]. split; congruence.
Qed.

(* ---- the client side: receiving --------------------------------------------------- *)

Lemma Inv_ext rep sl m m' :
  m_live m' = m_live m -> m_cur m' = m_cur m -> m_closed m' = m_closed m ->
  (m_owes m' = true -> m_owes m = true) ->
  Inv rep sl m -> Inv rep sl m'.
Proof.
  intros Hl Hc Hk Ho [H1 H2]. split.
  - destruct sl as [x|]; [eapply slot_inv_ext; eassumption|unfold noslot_inv in *; rewrite Hl, Hc; exact H1].
  - intros H. apply H2, Ho, H.
Qed.

(* Taking the oldest queued update: it becomes the reported state. *)
Lemma slot_inv_pop rep x m d st' q :
  slot_inv rep x m -> x_queue x = (d, st') :: q ->
  slot_inv (RExec d st')
    (mkSlot (x_id x) (x_dig x) (q ++ opt_list (x_pending x)) None (x_finished x) (x_closed x)) m
  /\ d = x_dig x.
Proof.
  intros (Hlive & (cu & Hcur & Hdig & (st & Hrep & Hhon) & Hall) & Hseq & Hcl & Hld & Hmc) Q.
  assert (Hq : qs x = (d, st') :: (q ++ opt_list (x_pending x))) by (unfold qs; rewrite Q; reflexivity).
  rewrite Hq in Hall, Hseq, Hld. inversion Hall as [|u l Hu Hl]; subst u l. cbn [fst snd] in Hu.
  assert (Hd : d = x_dig x).
  { unfold hon in Hu. apply andb_true_iff in Hu as [Hu _]. apply N.eqb_eq in Hu. congruence. }
  split; [|exact Hd]. subst d. rewrite Hrep in Hseq, Hld. cbn [rep_stage app map snd] in Hseq, Hld.
  unfold slot_inv. cbn [x_id x_dig x_queue x_pending x_finished x_closed].
  split; [exact Hlive|]. split.
  - exists cu. split; [exact Hcur|]. split; [exact Hdig|]. split; [exists st'; auto|].
    unfold qs. cbn [x_queue x_pending opt_list]. rewrite app_nil_r. exact Hl.
  - unfold qs. cbn [x_queue x_pending opt_list rep_stage app]. rewrite app_nil_r.
    split; [apply seq_ok_tl in Hseq; exact Hseq|].
    split; [intros C; destruct (Hcl C) as [Hf _]; auto|].
    split; [intros F; rewrite <- last_done_tl with (a := st); exact (Hld F)|exact Hmc].
Qed.

Lemma consume_ok fuel : forall rep x m rep' sl',
  slot_inv rep x m -> (m_owes m = true -> rep = RIdle \/ is_failed rep = true) ->
  consume fuel rep x = (rep', sl') -> Inv rep' sl' m.
Proof.
  induction fuel as [|f IH]; intros rep x m rep' sl' Hinv Howes Hc; cbn [consume] in Hc.
  { injection Hc as <- <-. split; assumption. }
  pose proof Hinv as (Hlive & (cu & Hcur & Hdig & (st & Hrep & Hhon) & Hall) & Hseq & Hcl & Hld & Hmc).
  unfold recv in Hc. destruct (x_queue x) as [|[d st'] q] eqn:Q.
  - destruct (x_closed x) eqn:C.
    + injection Hc as <- <-. destruct (Hcl eq_refl) as [Hf Hp]. rewrite Hf in Hlive.
      split; [|exact Howes]. split; [exact Hlive|]. right. exists cu, (x_dig x), st.
      split; [exact Hcur|]. split; [exact Hrep|]. split; [exact Hhon|].
      specialize (Hld Hf). unfold qs in Hld. rewrite Q, Hp, Hrep in Hld. exact Hld.
    + injection Hc as <- <-. split; assumption.
  - destruct (slot_inv_pop _ _ _ _ _ _ Hinv Q) as [Hpop Hd].
    assert (Hno : m_owes m = false).
    { destruct (m_owes m) eqn:O; [|reflexivity]. destruct (Howes eq_refl) as [Hi|Hf]; [congruence|].
      rewrite Hrep in Hf. apply is_failed_done in Hf.
      unfold qs in Hseq. rewrite Q, Hrep in Hseq. cbn [rep_stage app map snd] in Hseq.
      destruct (seq_ok_done_head _ _ _ Hf Hseq) as [Hnil _]. discriminate. }
    eapply IH; [exact Hpop|intros H; congruence|exact Hc].
Qed.

(* Draining a closed channel with enough fuel ends at the close, and what is
   then reported is the Completed. *)
Lemma consume_closed_done fuel : forall rep x m rep' sl',
  slot_inv rep x m -> x_closed x = true -> (List.length (x_queue x) < fuel)%nat ->
  consume fuel rep x = (rep', sl') -> is_done_rep rep' = true /\ sl' = None.
Proof.
  induction fuel as [|f IH]; intros rep x m rep' sl' Hinv C Hlen Hc; [inversion Hlen|].
  cbn [consume] in Hc.
  pose proof Hinv as (Hlive & (cu & Hcur & Hdig & (st & Hrep & Hhon) & Hall) & Hseq & Hcl & Hld & Hmc).
  unfold recv in Hc. destruct (x_queue x) as [|[d st'] q] eqn:Q.
  - rewrite C in Hc. injection Hc as <- <-. split; [|reflexivity].
    destruct (Hcl C) as [Hf Hp]. specialize (Hld Hf). unfold qs in Hld. rewrite Q, Hp, Hrep in Hld.
    rewrite Hrep. cbn in Hld |- *. destruct st; try discriminate; reflexivity.
  - destruct (slot_inv_pop _ _ _ _ _ _ Hinv Q) as [Hpop _].
    destruct (Hcl C) as [_ Hp].
    eapply IH; [exact Hpop|exact C| |exact Hc].
    cbn [x_queue]. rewrite Hp, app_nil_r. cbn [List.length] in Hlen. apply Nat.succ_lt_mono. exact Hlen.
Qed.

Lemma chk_all_OTimer c m d f : chk_all c m (OTimer d f) = ""%string.
Proof. reflexivity. Qed.

Lemma phase_updates_ok c rep next now sl sel m rep' next' sl' o :
  Inv rep sl m -> m_upd m = false -> phase_updates rep next now sl sel = (rep', next', sl', o) ->
  chk_outs chk_all c m o = ""%string /\ Inv rep' sl' (mon_outs c m o)
  /\ m_owes (mon_outs c m o) = m_owes m /\ m_synced (mon_outs c m o) = m_synced m
  /\ (m_closed (mon_outs c m o) = true -> m_upd (mon_outs c m o) = true -> is_done_rep rep' = true)
  /\ m_slot (mon_outs c m o) = m_slot m.
Proof.
  intros [Hinv Howes] Hup Hp. unfold phase_updates in Hp. destruct sl as [x|].
  2:{ injection Hp as <- <- <- <-. cbn [chk_outs mon_outs]. split; [reflexivity|]. split; [split; assumption|].
      split; [reflexivity|]. split; [reflexivity|]. split; [intros _ H; congruence|reflexivity]. }
  destruct (if avail x then (x, []) else xsteps x sel) as [x1 o2] eqn:Ex.
  set (fired := match recv x1 with (RcvBlock, _) => true | _ => false end) in Hp.
  set (mT := mon_next c m (OTimer (next - now) fired)).
  assert (HiT : slot_inv rep x mT) by (eapply slot_inv_ext; [| | |exact Hinv]; reflexivity).
  assert (Hx : chk_outs chk_all c mT o2 = ""%string /\ slot_inv rep x1 (mon_outs c mT o2)
               /\ m_owes (mon_outs c mT o2) = m_owes m /\ m_synced (mon_outs c mT o2) = m_synced m
               /\ m_upd (mon_outs c mT o2) = negb fired /\ m_slot (mon_outs c mT o2) = m_slot m).
  { destruct (avail x).
    - injection Ex as <- <-. cbn [chk_outs mon_outs]. auto 10.
    - destruct (xsteps_ok c _ _ _ _ _ _ HiT Ex) as (A & B & C & D & E & F). auto 10. }
  destruct Hx as (Hc2 & Hi2 & Ho2 & Hs2 & Hu2 & Hk2).
  assert (Hcons : exists n, consume n rep x1 = (rep', sl') /\ o = OTimer (next - now) fired :: o2
            /\ (x_closed x1 = true -> fired = false -> is_done_rep rep' = true)).
  { pose proof Hi2 as (_ & (cu & _ & _ & (st0 & Hrep0 & _) & _) & _ & Hcl & Hld & _).
    clearbody mT. subst fired. destruct (recv x1) as [[| |[d st]] x2] eqn:Er.
    - injection Hp as <- <- <- <-. exists 1%nat. cbn [consume]. rewrite Er.
      split; [reflexivity|]. split; [reflexivity|]. intros _ H. discriminate.
    - injection Hp as <- <- <- <-. exists 1%nat. cbn [consume]. rewrite Er.
      split; [reflexivity|]. split; [reflexivity|]. intros C _.
      unfold recv in Er. destruct (x_queue x1) as [|u q] eqn:Q; [|discriminate].
      destruct (Hcl C) as [Hf Hpn]. specialize (Hld Hf). unfold qs in Hld. rewrite Q, Hpn, Hrep0 in Hld.
      rewrite Hrep0. cbn in Hld |- *. destruct st0; try discriminate; reflexivity.
    - destruct (consume (consume_fuel x2) (RExec d st) x2) as [r' s'] eqn:Ec.
      injection Hp as <- <- <- <-. exists (S (consume_fuel x2)). cbn [consume]. rewrite Er.
      split; [exact Ec|]. split; [reflexivity|]. intros C _.
      unfold recv in Er. destruct (x_queue x1) as [|[d' st'] q] eqn:Q.
      { destruct (x_closed x1); discriminate. }
      injection Er as <- <- <-. destruct (slot_inv_pop _ _ _ _ _ _ Hi2 Q) as [Hpop _].
      eapply (consume_closed_done _ _ _ _ _ _ Hpop); [exact C| |exact Ec].
      unfold consume_fuel, lt. cbn [x_queue]. apply le_S, le_S, le_n. }
  destruct Hcons as (n & Hn & -> & Hdone).
  cbn [chk_outs mon_outs]. rewrite chk_all_OTimer. cbn [cat2 is_empty]. fold mT.
  split; [exact Hc2|]. split; [eapply consume_ok; [exact Hi2| |exact Hn]; rewrite Ho2; exact Howes|].
  split; [exact Ho2|]. split; [exact Hs2|]. split; [|exact Hk2].
  intros Hc Hu. apply Hdone.
  - destruct Hi2 as (_ & _ & _ & _ & _ & Hmc). rewrite <- Hmc. exact Hc.
  - rewrite Hu2 in Hu. destruct fired; [discriminate|reflexivity].
Qed.

(* Outputs other than OReady never touch the "readiness checked" flag. *)
Definition no_ready (o : list out) : bool :=
  forallb (fun x => match x with OReady => false | _ => true end) o.

Lemma mon_outs_ready c o : forall m, no_ready o = true -> m_ready (mon_outs c m o) = m_ready m.
Proof.
  induction o as [|x r IH]; intros m H; cbn [mon_outs]; [reflexivity|].
  cbn [no_ready forallb] in H. apply andb_true_iff in H as [Hx Hr]. rewrite (IH _ Hr).
  destruct x; try discriminate; cbn [mon_next]; reflexivity.
Qed.

(* ---- the sticky "shutdown began" flag of the monitor ------------------------------------- *)

Definition has_ret (o : list out) : bool :=
  existsb (fun x => match x with ORet _ _ => true | _ => false end) o.

Lemma has_ret_app a b : has_ret (a ++ b) = has_ret a || has_ret b.
Proof. apply existsb_app. Qed.

Lemma mon_next_shut c m o :
  m_shut (mon_next c m o) = match o with ORet _ _ => began c m | _ => m_shut m end.
Proof. destruct o; cbn [mon_next m_shut]; reflexivity. Qed.

(* Only the end of a Run (ORet) raises the flag, and then to [began]. *)
Lemma mon_outs_shut c outs : forall m,
  m_shut (mon_outs c m outs) = if has_ret outs then began c m else m_shut m.
Proof.
  induction outs as [|o r IH]; intros m; cbn [mon_outs]; [reflexivity|].
  rewrite IH. unfold began. rewrite mon_next_shut.
  change (has_ret (o :: r)) with ((match o with ORet _ _ => true | _ => false end) || has_ret r).
  destruct o; cbn [orb]; unfold began; destruct (has_ret r), (m_shut m), (ctx_shutdown c); reflexivity.
Qed.

Lemma mon_outs_slot c outs : forall m,
  m_slot (mon_outs c m outs) = if has_ret outs then o_exec (k_obs c) else m_slot m.
Proof.
  induction outs as [|o r IH]; intros m; cbn [mon_outs]; [reflexivity|].
  rewrite IH.
  change (has_ret (o :: r)) with ((match o with ORet _ _ => true | _ => false end) || has_ret r).
  destruct o; cbn [orb mon_next m_slot]; destruct (has_ret r); reflexivity.
Qed.

Lemma mon_outs_began c outs m : began c (mon_outs c m outs) = began c m.
Proof.
  unfold began. rewrite mon_outs_shut. unfold began.
  destruct (has_ret outs), (m_shut m), (ctx_shutdown c); reflexivity.
Qed.

Lemma xstep_no_ready x e x' o : xstep x e = (x', o) -> no_ready o = true.
Proof.
  unfold xstep. destruct e as [k|ok tag|].
  - destruct (x_finished x || is_some (x_pending x)); [intros [= _ <-]; reflexivity|].
    destruct (enqueue x (x_dig x, StUpd k)). intros [= _ <-]. reflexivity.
  - destruct (x_finished x || is_some (x_pending x)); [intros [= _ <-]; reflexivity|].
    destruct (enqueue (set_finished x) (x_dig x, StDone ok tag)). intros [= _ <-]. reflexivity.
  - destruct (x_finished x && negb (is_some (x_pending x)) && negb (x_closed x)); intros [= _ <-]; reflexivity.
Qed.

Lemma no_ready_app a b : no_ready (a ++ b) = no_ready a && no_ready b.
Proof. apply forallb_app. Qed.

Lemma xsteps_no_ready es : forall x x' o, xsteps x es = (x', o) -> no_ready o = true.
Proof.
  induction es as [|e r IH]; intros x x' o H; cbn [xsteps] in H.
  - injection H as _ <-. reflexivity.
  - destruct (xstep x e) as [x1 o1] eqn:E1. destruct (xsteps x1 r) as [x2 o2] eqn:E2.
    injection H as _ <-. rewrite no_ready_app, (xstep_no_ready _ _ _ _ E1), (IH _ _ _ E2). reflexivity.
Qed.

Lemma phase_updates_no_ready rep next now sl sel rep' next' sl' o :
  phase_updates rep next now sl sel = (rep', next', sl', o) -> no_ready o = true.
Proof.
  unfold phase_updates. destruct sl as [x|]; [|intros [= _ _ _ <-]; reflexivity].
  destruct (if avail x then (x, []) else xsteps x sel) as [x1 o2] eqn:Ex.
  assert (H2 : no_ready o2 = true).
  { destruct (avail x); [injection Ex as _ <-; reflexivity|eapply xsteps_no_ready; exact Ex]. }
  destruct (recv x1) as [[| |[d st]] x2].
  - intros [= _ _ _ <-]. exact H2.
  - intros [= _ _ _ <-]. exact H2.
  - destruct (consume (consume_fuel x2) (RExec d st) x2). intros [= _ _ _ <-]. exact H2.
Qed.

(* ---- single outputs of Run --------------------------------------------------------- *)

Lemma chk_all_OReady c m : chk_all c m OReady = ""%string.
Proof. reflexivity. Qed.

Lemma chk_all_ORet c m may e :
  (e = ENone -> ctx_told_idle c && m_synced m && is_some (m_live m) = false) ->
  (may = true -> began c m = true ->
     match o_until (k_obs c) with None => True | Some u => (u <? ctx_now c) = true end) ->
  chk_all c m (ORet may e) = ""%string.
Proof.
  intros H1 H2. unfold chk_all.
  assert (Ht : chk_terminate c m (ORet may e) = ""%string).
  { unfold chk_terminate. destruct may; [|reflexivity]. destruct (began c m); [|reflexivity].
    specialize (H2 eq_refl eq_refl). destruct (o_until (k_obs c)); [|reflexivity]. rewrite H2. reflexivity. }
  rewrite Ht. destruct e; cbn; try reflexivity. rewrite (H1 eq_refl). reflexivity.
Qed.

Lemma mon_next_ORet_cur c m may e :
  (e = ENone -> ctx_told_idle c && m_synced m = false) -> m_cur (mon_next c m (ORet may e)) = m_cur m.
Proof. intros H. destruct e; cbn; try reflexivity. rewrite (H eq_refl). reflexivity. Qed.

Lemma Inv_cur rep sl m :
  Inv rep sl m -> rep = RIdle /\ m_live m = None
                  \/ exists cu d st, rep = RExec d st /\ m_cur m = Some cu /\ hon cu d st = true.
Proof.
  intros [H _]. destruct sl as [x|].
  - destruct H as (_ & (cu & Hcur & _ & (st & Hrep & Hhon) & _) & _). right. exists cu, (x_dig x), st. auto.
  - destruct H as (Hl & [Hr|(cu & d & st & Hc & Hr & Hh & _)]); [left; auto|right; exists cu, d, st; auto].
Qed.

Lemma Inv_noslot_not_executing rep m : Inv rep None m -> is_executing rep = false.
Proof.
  intros [(_ & [->|(cu & d & st & _ & -> & _ & Hd)]) _]; [reflexivity|].
  destruct st; try discriminate; reflexivity.
Qed.

Lemma chk_all_OSync c rep sl m until prefer :
  Inv rep sl m ->
  (m_owes m = true -> rep = RIdle -> is_some until = true) ->
  (is_some until = false -> m_ready m = true) ->
  prefer = (if began c m then true else fst (prefer_of rep until)) ->
  (m_closed m = true -> m_upd m = true -> is_done_rep rep = true) ->
  (m_slot m = false -> is_executing rep = false) ->
  chk_all c m (OSync rep prefer true) = ""%string.
Proof.
  intros Hinv Ho Hrd Hp Hdone Hnos. pose proof (proj2 Hinv) as Howes.
  unfold chk_all. cbn [chk_one_executor].
  assert (H2 : chk_report_honest c m (OSync rep prefer true) = ""%string).
  { destruct (Inv_cur _ _ _ Hinv) as [[-> Hl]|(cu & d & st & -> & Hc & Hh)].
    - cbn. rewrite Hl. reflexivity.
    - cbn. rewrite Hc. unfold hon in Hh. apply andb_true_iff in Hh as [Hd Hs].
      rewrite Hd, Hs. reflexivity. }
  assert (H3 : chk_idle_after_failure c m (OSync rep prefer true) = ""%string).
  { unfold chk_idle_after_failure. subst prefer. destruct (began c m).
    - cbn. rewrite !andb_false_r. destruct rep; reflexivity.
    - destruct (is_failed rep) eqn:F.
      + destruct rep as [|d [| |[] t]]; cbn in F; try discriminate. cbn. rewrite !andb_false_r. reflexivity.
      + cbn [andb negb].
        assert (Hidle : rep = RIdle -> negb (fst (prefer_of rep until)) && negb (m_ready m) = false).
        { intros ->. cbn. destruct (is_some until) eqn:U; [reflexivity|]. rewrite (Hrd eq_refl). reflexivity. }
        destruct (m_owes m) eqn:O.
        * destruct (Howes eq_refl) as [->|F']; [|congruence].
          cbn. rewrite (Ho eq_refl eq_refl). reflexivity.
        * cbn [andb]. destruct rep as [|d st]; [rewrite (Hidle eq_refl); reflexivity|reflexivity]. }
  assert (H4 : chk_shutdown c m (OSync rep prefer true) = ""%string).
  { unfold chk_shutdown. subst prefer. destruct (began c m); reflexivity. }
  assert (H5 : chk_completion c m (OSync rep prefer true) = ""%string).
  { unfold chk_completion. destruct (m_closed m) eqn:C; cbn [andb].
    - destruct (m_upd m) eqn:U; cbn [andb].
      + rewrite (Hdone eq_refl eq_refl). cbn [negb]. destruct (m_slot m); cbn [negb andb]; [reflexivity|].
        rewrite (Hnos eq_refl). reflexivity.
      + destruct (m_slot m); cbn [negb andb]; [reflexivity|]. rewrite (Hnos eq_refl). reflexivity.
    - destruct (m_slot m); cbn [negb andb]; [reflexivity|]. rewrite (Hnos eq_refl). reflexivity. }
  rewrite H2, H3, H4, H5. reflexivity.
Qed.

Lemma stop_outs_ok c rep sl m :
  Inv rep sl m ->
  chk_outs chk_all c m (stop_outs sl) = ""%string
  /\ m_live (mon_outs c m (stop_outs sl)) = None
  /\ m_cur (mon_outs c m (stop_outs sl)) = m_cur m
  /\ m_owes (mon_outs c m (stop_outs sl)) = m_owes m
  /\ m_synced (mon_outs c m (stop_outs sl)) = m_synced m.
Proof.
  intros [H _]. destruct sl as [x|]; cbn [stop_outs].
  - destruct H as (Hl & _). destruct (x_finished x).
    + cbn. auto.
    + cbn [chk_outs mon_outs]. unfold chk_all at 1. cbn [chk_one_executor chk_report_honest chk_completion chk_idle_after_failure chk_shutdown chk_terminate].
      rewrite Hl, optN_eqb_refl. cbn [cat2 is_empty mon_next].
      unfold chk_all at 1. cbn [chk_one_executor chk_report_honest chk_completion chk_idle_after_failure chk_shutdown chk_terminate].
      rewrite Hl, optN_eqb_refl. cbn. rewrite ?N.eqb_refl. auto.
  - destruct H as [Hl _]. cbn. auto.
Qed.

(* ---- one Run ------------------------------------------------------------------------ *)

Lemma Inv_item_begin rep sl m : Inv rep sl m -> Inv rep sl (item_begin m).
Proof. apply Inv_ext; auto. Qed.

Lemma Inv_ORet c rep sl m may e :
  (e = ENone -> ctx_told_idle c && m_synced m = false) ->
  Inv rep sl m -> Inv rep sl (mon_next c m (ORet may e)).
Proof.
  intros H. apply Inv_ext; [reflexivity|apply mon_next_ORet_cur; exact H|reflexivity|auto].
Qed.

Lemma Inv_sync c rep sl m p l :
  Inv rep sl m -> Inv rep sl (mon_next c m (OSync rep p l)) /\ m_synced (mon_next c m (OSync rep p l)) = true.
Proof.
  intros [H1 H2]. split; [|reflexivity]. split.
  - destruct sl as [x|]; exact H1.
  - cbn [mon_next m_owes]. destruct (is_failed rep) eqn:F; [auto|exact H2].
Qed.

Lemma sync_evs_ok c rep sl es m sl4 o4 :
  Inv rep sl m ->
  match sl with
  | Some x => let '(x', o) := xsteps x es in (Some x', o)
  | None => (None, [])
  end = (sl4, o4) ->
  chk_outs chk_all c m o4 = ""%string /\ Inv rep sl4 (mon_outs c m o4)
  /\ m_synced (mon_outs c m o4) = m_synced m.
Proof.
  intros [H1 H2] He. destruct sl as [x|].
  - destruct (xsteps x es) as [x' o] eqn:Ex. injection He as <- <-.
    destruct (xsteps_ok c _ _ _ _ _ _ H1 Ex) as (Hc & Hi & Ho & Hs & _).
    split; [exact Hc|]. split; [|exact Hs]. split; [exact Hi|]. rewrite Ho. exact H2.
  - injection He as <- <-. cbn. split; [reflexivity|]. split; [split; assumption|reflexivity].
Qed.

Lemma tail_err c rep sl m e : e <> ENone -> Inv rep sl m ->
  chk_outs chk_all c m [ORet false e] = ""%string /\ Inv rep sl (mon_outs c m [ORet false e]).
Proof.
  intros He Hi. cbn [chk_outs mon_outs]. rewrite chk_all_ORet; try (intros; congruence).
  split; [reflexivity|]. apply Inv_ORet; [intros; congruence|exact Hi].
Qed.

Lemma run_step_ok s m r s' o ob :
  Inv (s_rep s) (s_slot s) m -> m_shut m = s_cancelled s -> m_slot m = is_some (s_slot s) ->
  run_step s r = (s', o) -> o_until ob = s_until s' ->
  chk_outs chk_all (mkCtx (ERun r) ob) (item_begin m) o = ""%string
  /\ Inv (s_rep s') (s_slot s') (mon_outs (mkCtx (ERun r) ob) (item_begin m) o).
Proof.
  intros Hinv Hshut Hslot Hr Hob. set (c := mkCtx (ERun r) ob). set (m0 := item_begin m).
  assert (Hup0 : m_upd m0 = false) by reflexivity.
  assert (Hsl0 : m_slot m0 = is_some (s_slot s)) by exact Hslot.
  assert (Hinv0 : Inv (s_rep s) (s_slot s) m0) by (apply Inv_item_begin; exact Hinv).
  assert (Hs0 : m_synced m0 = false) by reflexivity.
  assert (Hr0 : m_ready m0 = false) by reflexivity.
  assert (Hbg0 : began c m0 = sd_sync s r).
  { unfold began, sd_sync, sd_top. change (m_shut m0) with (m_shut m). rewrite Hshut.
    change (ctx_shutdown c) with (r_shutdown r || r_late r). apply orb_assoc. }
  assert (Hnow : ctx_now c = r_now r) by reflexivity.
  assert (Hobs : k_obs c = ob) by reflexivity.
  clearbody m0. clear Hinv Hshut Hslot m.
  unfold run_step in Hr.
  destruct (sd_top s r && match s_until s with None => true | Some u => u <? r_now r end) eqn:E0.
  { (* may terminate at once *)
    injection Hr as <- <-. apply andb_true_iff in E0 as [E0a E0b].
    cbn [set_cancelled s_until] in Hob. cbn [set_cancelled s_rep s_slot].
    cbn [chk_outs mon_outs]. rewrite chk_all_ORet.
    - split; [reflexivity|]. apply Inv_ORet; [|exact Hinv0]. intros _. rewrite Hs0. apply andb_false_r.
    - intros _. rewrite Hs0, andb_false_r. reflexivity.
    - intros _ _. rewrite Hobs, Hob, Hnow. destruct (s_until s); [exact E0b|exact I]. }
  destruct (negb (is_some (s_until s)) && negb (r_ready r)) eqn:E1.
  { (* readiness check failed *)
    injection Hr as <- <-. apply andb_true_iff in E1 as [E1a E1b].
    apply negb_true_iff in E1a, E1b.
    assert (Hm1 : mon_next c m0 OReady = m0).
    { cbn [mon_next]. change (ctx_ready c) with (r_ready r). rewrite E1b.
      destruct m0; cbn in Hr0; rewrite Hr0; reflexivity. }
    cbn [set_cancelled s_until] in Hob. cbn [set_cancelled s_rep s_slot].
    cbn [chk_outs mon_outs]. rewrite chk_all_OReady, Hm1. cbn [cat2 is_empty].
    rewrite chk_all_ORet; try (intros; congruence).
    - split; [reflexivity|]. apply Inv_ORet; [intros; congruence|exact Hinv0].
    - intros _ _. rewrite Hobs, Hob. apply is_some_false in E1a. rewrite E1a. exact I. }
  (* the main path *)
  set (o1 := if negb (is_some (s_until s)) then [OReady] else []) in Hr.
  destruct (phase_updates (s_rep s) (s_next s) (r_now r) (s_slot s) (r_sel r)) as [[[rep next] sl] o2] eqn:Ep.
  destruct (prefer_of rep (s_until s)) as [p cur_exec] eqn:Epf.
  set (prefer := if sd_sync s r then true else p) in Hr.
  destruct (match sl with
            | Some x => let '(x', o) := xsteps x (r_sync r) in (Some x', o)
            | None => (None, [])
            end) as [sl4 o4] eqn:Es.
  set (until := match s_until s with None => touch next | Some u => Some u end) in Hr.
  set (pre := o1 ++ o2 ++ [OSync rep prefer true] ++ o4) in Hr.
  (* o1 *)
  assert (H1 : chk_outs chk_all c m0 o1 = ""%string
               /\ Inv (s_rep s) (s_slot s) (mon_outs c m0 o1)
               /\ m_synced (mon_outs c m0 o1) = false
               /\ (m_owes (mon_outs c m0 o1) = true -> is_some (s_until s) = true)
               /\ (is_some (s_until s) = false -> m_ready (mon_outs c m0 o1) = true)
               /\ m_upd (mon_outs c m0 o1) = false /\ m_slot (mon_outs c m0 o1) = m_slot m0).
  { subst o1. destruct (is_some (s_until s)) eqn:U; cbn [negb].
    - cbn. split; [reflexivity|]. split; [exact Hinv0|]. split; [exact Hs0|]. split; [reflexivity|].
      split; [discriminate|]. split; [exact Hup0|reflexivity].
    - cbn [negb andb] in E1. apply negb_false_iff in E1.
      cbn [chk_outs mon_outs]. rewrite chk_all_OReady. split; [reflexivity|].
      split; [eapply Inv_ext; [| | | |exact Hinv0]; cbn; auto|].
      + change (ctx_ready c) with (r_ready r). rewrite E1. discriminate.
      + split; [exact Hs0|]. cbn. change (ctx_ready c) with (r_ready r). rewrite E1.
        split; [discriminate|]. split; [reflexivity|]. split; [exact Hup0|reflexivity]. }
  destruct H1 as (Hc1 & Hi1 & Hs1 & Hu1 & Hrd1 & Hup1 & Hsl1). set (m1 := mon_outs c m0 o1) in *.
  (* o2 *)
  destruct (phase_updates_ok c _ _ _ _ _ _ _ _ _ _ Hi1 Hup1 Ep) as (Hc2 & Hi2 & Ho2 & Hs2 & Hdone2 & Hsl2).
  set (m2 := mon_outs c m1 o2) in *.
  (* OSync *)
  assert (Hc3 : chk_all c m2 (OSync rep prefer true) = ""%string).
  { eapply chk_all_OSync; [exact Hi2| | | |exact Hdone2|].
    - intros Ho _. apply Hu1. rewrite <- Ho2. exact Ho.
    - intros U. unfold m2. rewrite (mon_outs_ready c o2 m1 (phase_updates_no_ready _ _ _ _ _ _ _ _ _ Ep)).
      apply Hrd1. exact U.
    - subst prefer. unfold m2, m1. rewrite !mon_outs_began, Hbg0, Epf. reflexivity.
    - (* no slot when the Run began: nothing was received, and what is reported is Idle or a Completed *)
      rewrite Hsl2, Hsl1, Hsl0. intros Hnone.
      destruct (s_slot s) as [x|] eqn:Esl; [discriminate|].
      cbn [phase_updates] in Ep. injection Ep as <- _ _ _.
      eapply Inv_noslot_not_executing. exact Hi1. }
  destruct (Inv_sync c _ _ _ prefer true Hi2) as [Hi3 Hs3].
  set (m3 := mon_next c m2 (OSync rep prefer true)) in *.
  (* o4 *)
  destruct (sync_evs_ok c _ _ _ _ _ _ Hi3 Es) as (Hc4 & Hi4 & Hs4).
  set (m4 := mon_outs c m3 o4) in *.
  assert (Hpre : chk_outs chk_all c m0 pre = ""%string /\ mon_outs c m0 pre = m4).
  { subst pre. split.
    - apply chk_outs_app_nil; [exact Hc1|]. apply chk_outs_app_nil; [exact Hc2|].
      cbn [app chk_outs]. fold m1 m2. rewrite Hc3. cbn [cat2 is_empty]. exact Hc4.
    - rewrite !mon_outs_app. reflexivity. }
  destruct Hpre as [Hcpre Hmpre]. rewrite Hs3 in Hs4.
  assert (Htail : forall s1 tl,
            (chk_outs chk_all c m4 tl = ""%string /\ Inv (s_rep s1) (s_slot s1) (mon_outs c m4 tl)) ->
            (s1, pre ++ tl) = (s', o) ->
            chk_outs chk_all c m0 o = ""%string /\ Inv (s_rep s') (s_slot s') (mon_outs c m0 o)).
  { intros s1 tl [Ha Hb] [= <- <-]. rewrite mon_outs_app, Hmpre. split; [|exact Hb].
    apply chk_outs_app_nil; [exact Hcpre|]. rewrite Hmpre. exact Ha. }
  assert (Herr : forall s1 e, e <> ENone -> s_rep s1 = rep -> s_slot s1 = sl4 ->
            (s1, pre ++ [ORet false e]) = (s', o) ->
            chk_outs chk_all c m0 o = ""%string /\ Inv (s_rep s') (s_slot s') (mon_outs c m0 o)).
  { intros s1 e He Hr1 Hs1' Heq. apply (Htail s1 [ORet false e]); [|exact Heq].
    rewrite Hr1, Hs1'. apply tail_err; [exact He|exact Hi4]. }
  destruct (r_reply r) as [|[ts|] ds] eqn:Erep.
  { eapply Herr in Hr; [exact Hr|discriminate|reflexivity|reflexivity]. }
  2:{ eapply Herr in Hr; [exact Hr|discriminate|reflexivity|reflexivity]. }
  assert (Htold : ctx_told_idle c = match ds with DIdle => true | _ => false end).
  { unfold ctx_told_idle. cbn [k_ev c]. rewrite Erep. reflexivity. }
  destruct ds as [| |d| |].
  - (* no change *)
    destruct cur_exec.
    + apply (Htail _ [ORet false ENone]) in Hr; [exact Hr|]. cbn [chk_outs mon_outs s_rep s_slot].
      rewrite chk_all_ORet; [|intros _; rewrite Htold; reflexivity|discriminate].
      split; [reflexivity|]. apply Inv_ORet; [intros _; rewrite Htold; reflexivity|exact Hi4].
    + apply (Htail _ [ORet true ENone]) in Hr; [exact Hr|]. cbn [chk_outs mon_outs s_rep s_slot].
      rewrite chk_all_ORet; [|intros _; rewrite Htold; reflexivity|].
      * split; [reflexivity|]. apply Inv_ORet; [intros _; rewrite Htold; reflexivity|exact Hi4].
      * intros _ _. rewrite Hobs, Hob. injection Hr as <- _. exact I.
  - (* told to go idle *)
    apply (Htail _ (stop_outs sl4 ++ [ORet true ENone])) in Hr; [exact Hr|].
    destruct (stop_outs_ok c _ _ _ Hi4) as (Hcs & Hls & Hcu & Hos & Hss).
    set (m5 := mon_outs c m4 (stop_outs sl4)) in *.
    cbn [s_rep s_slot]. rewrite mon_outs_app. fold m5. split.
    + apply chk_outs_app_nil; [exact Hcs|]. fold m5. cbn [chk_outs]. rewrite chk_all_ORet; [reflexivity| |].
      * intros _. rewrite Hls. cbn. apply andb_false_r.
      * intros _ _. rewrite Hobs, Hob. injection Hr as <- _. exact I.
    + cbn [mon_outs mon_next]. rewrite Htold, Hss, Hs4. cbn [andb].
      split; [split; [exact Hls|left; reflexivity]|]. intros _. left. reflexivity.
  - (* execute *)
    apply (Htail _ (stop_outs sl4 ++ [OStart (s_nextid s) d false; ORet false ENone])) in Hr; [exact Hr|].
    destruct (stop_outs_ok c _ _ _ Hi4) as (Hcs & Hls & Hcu & Hos & Hss).
    set (m5 := mon_outs c m4 (stop_outs sl4)) in *.
    cbn [s_rep s_slot]. rewrite mon_outs_app. fold m5. split.
    + apply chk_outs_app_nil; [exact Hcs|]. fold m5. cbn [chk_outs].
      assert (Hst : chk_all c m5 (OStart (s_nextid s) d false) = ""%string).
      { unfold chk_all. cbn [chk_one_executor chk_report_honest chk_completion chk_idle_after_failure chk_shutdown chk_terminate].
        rewrite Hls. reflexivity. }
      rewrite Hst. cbn [cat2 is_empty]. rewrite chk_all_ORet; [reflexivity| |discriminate].
      intros _. rewrite Htold. reflexivity.
    + cbn [mon_outs]. apply Inv_ORet; [intros _; rewrite Htold; reflexivity|].
      cbn [mon_next]. split; [|cbn; discriminate].
      unfold slot_inv. cbn [m_live m_cur x_id x_dig x_finished x_closed x_pending x_queue].
      split; [reflexivity|]. split.
      * eexists. split; [reflexivity|]. cbn [c_dig]. split; [reflexivity|]. split.
        -- exists StStarted. split; [reflexivity|]. unfold hon. cbn. rewrite N.eqb_refl. reflexivity.
        -- constructor.
      * split; [reflexivity|]. split; [discriminate|]. split; [discriminate|reflexivity].
  - eapply Herr in Hr; [exact Hr|discriminate|reflexivity|reflexivity].
  - eapply Herr in Hr; [exact Hr|discriminate|reflexivity|reflexivity].
Qed.

(* ---- the context stays cancelled: model flag = monitor flag -------------------------------- *)

(* Every Run ends with its return values, and afterwards the model's context
   flag is what the second reading of ctx.Err() saw. *)
Lemma run_step_ret_cancelled s r :
  has_ret (snd (run_step s r)) = true /\ s_cancelled (fst (run_step s r)) = sd_sync s r.
Proof.
  unfold run_step.
  destruct (sd_top s r && match s_until s with None => true | Some u => u <? r_now r end); [split; reflexivity|].
  destruct (negb (is_some (s_until s)) && negb (r_ready r)); [split; reflexivity|].
  destruct (phase_updates (s_rep s) (s_next s) (r_now r) (s_slot s) (r_sel r)) as [[[rep next] sl] o2].
  destruct (prefer_of rep (s_until s)) as [p ce].
  destruct (match sl with
            | Some x => let '(x', o) := xsteps x (r_sync r) in (Some x', o)
            | None => (None, [])
            end) as [sl4 o4].
  assert (H : forall a b, has_ret b = true -> has_ret (a ++ b) = true).
  { intros a b Hb. rewrite has_ret_app, Hb. apply orb_true_r. }
  destruct (r_reply r) as [|[ts|] ds]; cbn [fst snd s_cancelled];
    try (split; [apply H; reflexivity|reflexivity]).
  destruct ds; cbn [fst snd s_cancelled];
    try (split; [apply H; try apply H; reflexivity|reflexivity]).
  destruct ce; cbn [fst snd s_cancelled]; (split; [apply H; reflexivity|reflexivity]).
Qed.

(* The monitor's two snapshots of the client: "shutdown began" and "held an
   execution slot when the previous Run returned". *)
Definition Shut (s : state) (m : mon) : Prop :=
  m_shut m = s_cancelled s /\ m_slot m = is_some (s_slot s).

Lemma step_shut s m e s' o :
  Shut s m -> step s e = (s', o) -> Shut s' (mon_outs (mkCtx e (observe s')) (item_begin m) o).
Proof.
  unfold Shut. intros [Hsh Hsl] Hs. rewrite mon_outs_shut, mon_outs_slot. unfold began.
  change (m_shut (item_begin m)) with (m_shut m). change (m_slot (item_begin m)) with (m_slot m).
  rewrite Hsh, Hsl. cbn [k_obs observe o_exec].
  destruct e as [r|x]; cbn [step] in Hs.
  - destruct (run_step_ret_cancelled s r) as [Hret Hc]. rewrite Hs in Hret, Hc. cbn [fst snd] in Hret, Hc.
    rewrite Hret, Hc. change (ctx_shutdown (mkCtx (ERun r) (observe s'))) with (r_shutdown r || r_late r).
    split; [|reflexivity]. unfold sd_sync, sd_top. apply orb_assoc.
  - change (ctx_shutdown (mkCtx (EExec x) (observe s'))) with false. rewrite orb_false_r.
    assert (Hc : s_cancelled s' = s_cancelled s /\ is_some (s_slot s') = is_some (s_slot s)).
    { destruct (s_slot s) as [sl|] eqn:E; [destruct (xstep sl x) as [sl' o']|]; injection Hs as <- _; cbn; rewrite ?E; auto. }
    destruct Hc as [-> ->]. destruct (has_ret o); auto.
Qed.

(* ---- every step, every trace ---------------------------------------------------------- *)

Lemma step_ok s m e s' o :
  Inv (s_rep s) (s_slot s) m -> Shut s m -> step s e = (s', o) ->
  chk_outs chk_all (mkCtx e (observe s')) (item_begin m) o = ""%string
  /\ Inv (s_rep s') (s_slot s') (mon_outs (mkCtx e (observe s')) (item_begin m) o).
Proof.
  intros Hinv [Hshut Hslot] Hs. destruct e as [r|x]; cbn [step] in Hs.
  - eapply run_step_ok; [exact Hinv|exact Hshut|exact Hslot|exact Hs|reflexivity].
  - apply Inv_item_begin in Hinv. set (m0 := item_begin m) in *. clearbody m0.
    destruct (s_slot s) as [sl|] eqn:Esl.
    + destruct (xstep sl x) as [sl' o'] eqn:Ex. injection Hs as <- <-. cbn [s_rep s_slot].
      destruct Hinv as [H1 H2].
      destruct (xstep_ok (mkCtx (EExec x) (observe (mkState (s_rep s) (s_prefer s) (s_until s) (s_next s) (Some sl') (s_nextid s) (s_cancelled s))))
                  _ _ _ _ _ _ H1 Ex) as [Hc Hi].
      split; [exact Hc|]. split; [exact Hi|].
      destruct (xstep_frame (mkCtx (EExec x) (observe (mkState (s_rep s) (s_prefer s) (s_until s) (s_next s) (Some sl') (s_nextid s) (s_cancelled s))))
                  _ _ _ _ m0 Ex) as [Ho _].
      rewrite Ho. exact H2.
    + injection Hs as <- <-. cbn [chk_outs mon_outs mon_next emitted]. rewrite Esl.
      split; [reflexivity|exact Hinv].
Qed.

Lemma trace_ok_gen evs : forall s m,
  Inv (s_rep s) (s_slot s) m -> Shut s m -> chk_trace chk_all m (trace s evs) = ""%string.
Proof.
  induction evs as [|e r IH]; intros s m Hinv Hshut; cbn [trace chk_trace]; [reflexivity|].
  destruct (step s e) as [s' o] eqn:Es. cbn [chk_trace ctx_of i_ev i_outs i_obs].
  destruct (step_ok _ _ _ _ _ Hinv Hshut Es) as [Hc Hi].
  change (ctx_of (mkItem e o (observe s'))) with (mkCtx e (observe s')).
  rewrite Hc. cbn [cat2 is_empty]. apply IH; [exact Hi|]. eapply step_shut; eassumption.
Qed.

Lemma Inv_init t0 : Inv (s_rep (init t0)) (s_slot (init t0)) mon_init.
Proof. split; [split; [reflexivity|left; reflexivity]|discriminate]. Qed.

Lemma all_checks_hold t0 evs : chk_trace chk_all mon_init (trace (init t0) evs) = ""%string.
Proof. apply trace_ok_gen; [apply Inv_init|split; reflexivity]. Qed.

(* chk_all is the conjunction of the six checks. *)
Lemma chk_all_split c m o : chk_all c m o = ""%string ->
  chk_one_executor c m o = ""%string /\ chk_report_honest c m o = ""%string
  /\ chk_idle_after_failure c m o = ""%string /\ chk_shutdown c m o = ""%string
  /\ chk_terminate c m o = ""%string /\ chk_completion c m o = ""%string.
Proof.
  unfold chk_all. intros H.
  apply cat2_nil in H as [H1 H]. apply cat2_nil in H as [H2 H]. apply cat2_nil in H as [H6 H].
  apply cat2_nil in H as [H3 H]. apply cat2_nil in H as [H4 H5]. auto 10.
Qed.

Lemma is_empty_true s : s = ""%string -> is_empty s = true.
Proof. intros ->. reflexivity. Qed.

Lemma holds_component (k : chk) t0 evs :
  (forall c m o, chk_all c m o = ""%string -> k c m o = ""%string) ->
  trace_ok k (trace (init t0) evs) = true.
Proof.
  intros Hk. unfold trace_ok. apply is_empty_true.
  eapply chk_trace_weaken; [exact Hk|]. apply all_checks_hold.
Qed.

Lemma one_executor_holds t0 evs : trace_ok chk_one_executor (trace (init t0) evs) = true.
Proof. apply holds_component. intros c m o H. apply chk_all_split in H. tauto. Qed.

Lemma report_honest_holds t0 evs : trace_ok chk_report_honest (trace (init t0) evs) = true.
Proof. apply holds_component. intros c m o H. apply chk_all_split in H. tauto. Qed.

Lemma idle_after_failure_holds t0 evs : trace_ok chk_idle_after_failure (trace (init t0) evs) = true.
Proof. apply holds_component. intros c m o H. apply chk_all_split in H. tauto. Qed.

Lemma shutdown_holds t0 evs : trace_ok chk_shutdown (trace (init t0) evs) = true.
Proof. apply holds_component. intros c m o H. apply chk_all_split in H. tauto. Qed.

Lemma terminate_holds t0 evs : trace_ok chk_terminate (trace (init t0) evs) = true.
Proof. apply holds_component. intros c m o H. apply chk_all_split in H. tauto. Qed.

Lemma completion_reported_holds t0 evs : trace_ok chk_completion (trace (init t0) evs) = true.
Proof. apply holds_component. intros c m o H. apply chk_all_split in H. tauto. Qed.

Lemma client_trace_ok_holds t0 evs : trace_ok chk_all (trace (init t0) evs) = true.
Proof. unfold trace_ok. apply is_empty_true, all_checks_hold. Qed.

(* ---- shutdown keeps synchronizing ------------------------------------------------- *)

Definition has_sync (o : list out) : bool :=
  existsb (fun x => match x with OSync _ _ _ => true | _ => false end) o.

Lemma has_sync_app a b : has_sync (a ++ b) = has_sync a || has_sync b.
Proof. apply existsb_app. Qed.

(* While the scheduler may still think the worker is executing, a Run during
   shutdown does not return early: it performs a Synchronize. *)
Lemma shutdown_keeps_synchronizing_holds s r u :
  s_until s = Some u -> r_now r <= u -> has_sync (snd (run_step s r)) = true.
Proof.
  intros Hu Hn. unfold run_step. rewrite Hu. cbn [is_some negb andb].
  assert (E : (u <? r_now r) = false) by (apply Z.ltb_ge; exact Hn). rewrite E, andb_false_r.
  destruct (phase_updates (s_rep s) (s_next s) (r_now r) (s_slot s) (r_sel r)) as [[[rep next] sl] o2].
  destruct (prefer_of rep (Some u)) as [p ce].
  destruct (match sl with
            | Some x => let '(x', o) := xsteps x (r_sync r) in (Some x', o)
            | None => (None, [])
            end) as [sl4 o4].
  assert (H : forall tl, has_sync (([] ++ o2 ++ [OSync rep (if sd_sync s r then true else p) true] ++ o4) ++ tl) = true).
  { intros tl. rewrite !has_sync_app. cbn. rewrite !orb_true_r. reflexivity. }
  destruct (r_reply r) as [|[ts|] ds]; cbn [snd]; try apply H.
  destruct ds; cbn [snd]; try apply H. destruct ce; cbn [snd]; apply H.
Qed.

(* ---- "scheduler cannot think we execute" implies nothing is executing --------------- *)

Definition quiet (s : state) : Prop :=
  s_until s = None -> match s_slot s with Some x => x_finished x = true | None => True end.

Lemma xstep_fin_mono x e x' o : xstep x e = (x', o) -> x_finished x = true -> x_finished x' = true.
Proof.
  unfold xstep. intros H F. destruct e as [k|ok tag|].
  - rewrite F in H. cbn in H. injection H as <- _. exact F.
  - rewrite F in H. cbn in H. injection H as <- _. exact F.
  - destruct (x_finished x && negb (is_some (x_pending x)) && negb (x_closed x)); injection H as <- _; exact F.
Qed.

Lemma xsteps_fin_mono es : forall x x' o, xsteps x es = (x', o) -> x_finished x = true -> x_finished x' = true.
Proof.
  induction es as [|e r IH]; intros x x' o H F; cbn [xsteps] in H.
  - injection H as <- _. exact F.
  - destruct (xstep x e) as [x1 o1] eqn:E1. destruct (xsteps x1 r) as [x2 o2] eqn:E2.
    injection H as <- _. eapply IH; [exact E2|]. eapply xstep_fin_mono; eassumption.
Qed.

Lemma step_quiet s m e :
  Inv (s_rep s) (s_slot s) m -> quiet s -> quiet (fst (step s e)).
Proof.
  intros Hinv Hq. destruct e as [r|x]; cbn [step].
  2:{ destruct (s_slot s) as [sl|] eqn:Esl; [|exact Hq].
      destruct (xstep sl x) as [sl' o] eqn:Ex. cbn [fst]. intros Hu. cbn [s_until s_slot] in *.
      eapply xstep_fin_mono; [exact Ex|]. specialize (Hq Hu). rewrite Esl in Hq. exact Hq. }
  unfold run_step.
  destruct (sd_top s r && match s_until s with None => true | Some u => u <? r_now r end); [exact Hq|].
  destruct (negb (is_some (s_until s)) && negb (r_ready r)); [exact Hq|].
  destruct (phase_updates (s_rep s) (s_next s) (r_now r) (s_slot s) (r_sel r)) as [[[rep next] sl] o2] eqn:Ep.
  destruct (prefer_of rep (s_until s)) as [p ce] eqn:Epf.
  destruct (match sl with
            | Some x => let '(x', o) := xsteps x (r_sync r) in (Some x', o)
            | None => (None, [])
            end) as [sl4 o4] eqn:Es.
  assert (Hunt : match s_until s with None => touch next | Some u => Some u end <> None).
  { destruct (s_until s); discriminate. }
  destruct (r_reply r) as [|[ts|] ds]; cbn [fst]; try (intros Hu; cbn [s_until] in Hu; contradiction).
  destruct ds as [| |d| |]; cbn [fst].
  3:{ intros Hu. cbn [s_until] in Hu. discriminate. }
  3:{ intros Hu. cbn [s_until] in Hu. contradiction. }
  3:{ intros Hu. cbn [s_until] in Hu. contradiction. }
  - (* no change *)
    destruct ce; cbn [fst]; intros Hu; cbn [s_until s_slot] in *; [discriminate|].
    destruct (phase_updates_ok (mkCtx (ERun r) (observe s)) _ _ _ _ _ _ _ _ _ _ (Inv_item_begin _ _ _ Hinv) eq_refl Ep) as (_ & Hi2 & _).
    destruct sl as [x|]; [|injection Es as <- _; exact I].
    destruct (xsteps x (r_sync r)) as [x' o'] eqn:Ex. injection Es as <- _.
    eapply xsteps_fin_mono; [exact Ex|].
    destruct Hi2 as [(_ & (cu & _ & _ & (st & Hrep & _) & _) & Hseq & _) _].
    rewrite Hrep in Epf, Hseq. cbn [rep_stage app] in Hseq.
    destruct st as [|k|ok tag]; cbn in Epf; try discriminate.
    eapply (seq_ok_done_head _ (StDone ok tag)); [reflexivity|exact Hseq].
  - (* idle *) intros _. exact I.
Qed.

Lemma run_quiet evs : forall s m, Inv (s_rep s) (s_slot s) m -> Shut s m -> quiet s -> quiet (run s evs).
Proof.
  induction evs as [|e r IH]; intros s m Hinv Hshut Hq; cbn [run]; [exact Hq|].
  destruct (step s e) as [s' o] eqn:Es.
  destruct (step_ok _ _ _ _ _ Hinv Hshut Es) as [_ Hi]. cbn [fst].
  eapply IH; [exact Hi|eapply step_shut; eassumption|].
  pose proof (step_quiet s m e Hinv Hq) as H. rewrite Es in H. exact H.
Qed.

Lemma until_none_nothing_running_holds t0 evs :
  let s := run (init t0) evs in
  s_until s = None -> match s_slot s with Some x => x_finished x = true | None => True end.
Proof. apply (run_quiet evs (init t0) mon_init); [apply Inv_init|split; reflexivity|]. intros _. exact I. Qed.

(* ---- the channel never holds more than its capacity -------------------------------- *)

Definition chan_ok (x : slot) : Prop :=
  (List.length (x_queue x) <= chan_cap)%nat
  /\ (x_pending x <> None -> List.length (x_queue x) = chan_cap).

Definition chan_ok_opt (o : option slot) : Prop :=
  match o with Some x => chan_ok x | None => True end.

Lemma enqueue_chan_ok x u x' r :
  x_pending x = None -> chan_ok x -> enqueue x u = (x', r) -> chan_ok x'.
Proof.
  intros Hp [H1 H2]. unfold enqueue. destruct (Nat.ltb (List.length (x_queue x)) chan_cap) eqn:E.
  - intros [= <- _]. apply Nat.ltb_lt in E. split; cbn [x_queue x_pending].
    + rewrite app_length. cbn. lia.
    + rewrite Hp. congruence.
  - intros [= <- _]. apply Nat.ltb_ge in E. split; cbn [x_queue x_pending]; [exact H1|]. intros _. lia.
Qed.

Lemma xstep_chan_ok x e x' o : chan_ok x -> xstep x e = (x', o) -> chan_ok x'.
Proof.
  intros H. unfold xstep. destruct e as [k|ok tag|].
  - destruct (x_finished x || is_some (x_pending x)) eqn:E; [intros [= <- _]; exact H|].
    apply or_false_split in E as [_ E]. apply is_some_false in E.
    destruct (enqueue x (x_dig x, StUpd k)) as [x1 r] eqn:En. intros [= <- _].
    eapply enqueue_chan_ok; eassumption.
  - destruct (x_finished x || is_some (x_pending x)) eqn:E; [intros [= <- _]; exact H|].
    apply or_false_split in E as [_ E]. apply is_some_false in E.
    destruct (enqueue (set_finished x) (x_dig x, StDone ok tag)) as [x1 r] eqn:En. intros [= <- _].
    eapply enqueue_chan_ok; [| |exact En]; [exact E|exact H].
  - destruct (x_finished x && negb (is_some (x_pending x)) && negb (x_closed x)); intros [= <- _]; exact H.
Qed.

Lemma xsteps_chan_ok es : forall x x' o, chan_ok x -> xsteps x es = (x', o) -> chan_ok x'.
Proof.
  induction es as [|e r IH]; intros x x' o H Hx; cbn [xsteps] in Hx.
  - injection Hx as <- _. exact H.
  - destruct (xstep x e) as [x1 o1] eqn:E1. destruct (xsteps x1 r) as [x2 o2] eqn:E2.
    injection Hx as <- _. eapply IH; [|exact E2]. eapply xstep_chan_ok; eassumption.
Qed.

Lemma recv_chan_ok x r x' : chan_ok x -> recv x = (r, x') -> chan_ok x'.
Proof.
  intros [H1 H2]. unfold recv. destruct (x_queue x) as [|u q] eqn:Q.
  - destruct (x_closed x); intros [= _ <-]; split; rewrite ?Q; auto.
  - intros [= _ <-]. split; cbn [x_queue x_pending]; [|congruence].
    rewrite app_length. cbn [List.length] in H1, H2. destruct (x_pending x); cbn.
    + specialize (H2 ltac:(discriminate)). lia.
    + lia.
Qed.

Lemma consume_chan_ok fuel : forall rep x rep' sl',
  chan_ok x -> consume fuel rep x = (rep', sl') -> chan_ok_opt sl'.
Proof.
  induction fuel as [|f IH]; intros rep x rep' sl' H Hc; cbn [consume] in Hc.
  - injection Hc as _ <-. exact H.
  - destruct (recv x) as [[| |[d st]] x1] eqn:Er.
    + injection Hc as _ <-. exact H.
    + injection Hc as _ <-. exact I.
    + eapply IH; [|exact Hc]. eapply recv_chan_ok; eassumption.
Qed.

Lemma phase_updates_chan_ok rep next now sl sel rep' next' sl' o :
  chan_ok_opt sl -> phase_updates rep next now sl sel = (rep', next', sl', o) -> chan_ok_opt sl'.
Proof.
  intros H. unfold phase_updates. destruct sl as [x|]; [|intros [= _ _ <- _]; exact I].
  destruct (if avail x then (x, []) else xsteps x sel) as [x1 o2] eqn:Ex.
  assert (H1 : chan_ok x1).
  { destruct (avail x); [injection Ex as <- _; exact H|eapply xsteps_chan_ok; eassumption]. }
  destruct (recv x1) as [[| |[d st]] x2] eqn:Er.
  - intros [= _ _ <- _]. exact H1.
  - intros [= _ _ <- _]. exact I.
  - destruct (consume (consume_fuel x2) (RExec d st) x2) as [r' s'] eqn:Ec. intros [= _ _ <- _].
    eapply consume_chan_ok; [|exact Ec]. eapply recv_chan_ok; eassumption.
Qed.

Lemma step_chan_ok s e : chan_ok_opt (s_slot s) -> chan_ok_opt (s_slot (fst (step s e))).
Proof.
  intros H. destruct e as [r|x]; cbn [step].
  2:{ destruct (s_slot s) as [sl|] eqn:Esl; [|cbn; rewrite Esl; exact I].
      destruct (xstep sl x) as [sl' o] eqn:Ex. cbn. eapply xstep_chan_ok; eassumption. }
  unfold run_step.
  destruct (sd_top s r && match s_until s with None => true | Some u => u <? r_now r end); [exact H|].
  destruct (negb (is_some (s_until s)) && negb (r_ready r)); [exact H|].
  destruct (phase_updates (s_rep s) (s_next s) (r_now r) (s_slot s) (r_sel r)) as [[[rep next] sl] o2] eqn:Ep.
  destruct (prefer_of rep (s_until s)) as [p ce].
  destruct (match sl with
            | Some x => let '(x', o) := xsteps x (r_sync r) in (Some x', o)
            | None => (None, [])
            end) as [sl4 o4] eqn:Es.
  assert (H4 : chan_ok_opt sl4).
  { pose proof (phase_updates_chan_ok _ _ _ _ _ _ _ _ _ H Ep) as H2.
    destruct sl as [x|]; [|injection Es as <- _; exact I].
    destruct (xsteps x (r_sync r)) as [x' o'] eqn:Ex. injection Es as <- _.
    eapply xsteps_chan_ok; eassumption. }
  assert (Hnew : forall id d, chan_ok (mkSlot id d [] None false false)).
  { intros id d. split; cbn; [unfold chan_cap; lia|congruence]. }
  destruct (r_reply r) as [|[ts|] ds]; cbn [fst s_slot]; try exact H4.
  destruct ds; cbn [fst s_slot]; try exact H4; try exact I; [|apply Hnew].
  destruct ce; cbn [fst s_slot]; exact H4.
Qed.

Lemma channel_bounded_holds t0 evs : chan_ok_opt (s_slot (run (init t0) evs)).
Proof.
  assert (G : forall evs s, chan_ok_opt (s_slot s) -> chan_ok_opt (s_slot (run s evs))).
  { induction evs0 as [|e r IH]; intros s H; cbn [run]; [exact H|]. apply IH, step_chan_ok, H. }
  apply G. exact I.
Qed.

(* ---- the end-of-item check ------------------------------------------------------------ *)

Lemma end_trace_gen evs : forall s m,
  Inv (s_rep s) (s_slot s) m -> Shut s m -> quiet s -> end_trace m (trace s evs) = ""%string.
Proof.
  induction evs as [|e r IH]; intros s m Hinv Hshut Hq; cbn [trace end_trace]; [reflexivity|].
  destruct (step s e) as [s' o] eqn:Es. cbn [end_trace ctx_of i_ev i_outs i_obs].
  destruct (step_ok _ _ _ _ _ Hinv Hshut Es) as [_ Hi].
  pose proof (step_shut _ _ _ _ _ Hshut Es) as Hshut'.
  pose proof (step_quiet s m e Hinv Hq) as Hq'. rewrite Es in Hq'. cbn [fst] in Hq'.
  change (ctx_of (mkItem e o (observe s'))) with (mkCtx e (observe s')).
  set (m' := mon_outs (mkCtx e (observe s')) (item_begin m) o) in *.
  assert (Hend : chk_end (mkCtx e (observe s')) m' = ""%string).
  { unfold chk_end. cbn [k_obs observe o_until]. destruct (s_until s') eqn:U; [reflexivity|].
    specialize (Hq' U). destruct Hi as [Hi _]. destruct (s_slot s') as [x|].
    - destruct Hi as (Hl & _). rewrite Hq' in Hl. rewrite Hl. reflexivity.
    - destruct Hi as (Hl & _). rewrite Hl. reflexivity. }
  rewrite Hend. cbn [cat2 is_empty]. apply IH; assumption.
Qed.

Lemma until_nil_means_idle_holds t0 evs : end_ok (trace (init t0) evs) = true.
Proof.
  unfold end_ok. apply is_empty_true. apply end_trace_gen; [apply Inv_init|split; reflexivity|]. intros _. exact I.
Qed.
