(* C08 as decidable predicates over observable traces.

   A trace is a list of [item]s: the event (one Run with its inputs, or one
   step of the executor goroutine), what the scripted scheduler / the
   instrumented executor / the fake clock saw in that step, and the
   client's private fields afterwards (verif hook).  The monitor below
   walks the outputs in order with a small ghost state of its own; the six
   checks are evaluated at every output.  The same functions are (a) proved
   to return "" on every trace of the model (Proofs.v) and (b) evaluated by
   Corr.v on the traces recorded from the Go implementation. *)
From Coq Require Import List ZArith NArith Bool String.
From VF Require Import Client.Model.
Import ListNotations.
Open Scope Z_scope.

(* ---- decidable equalities ------------------------------------------------- *)

Definition stage_eqb (a b : stage) : bool :=
  match a, b with
  | StStarted, StStarted => true
  | StUpd k, StUpd k' => N.eqb k k'
  | StDone ok t, StDone ok' t' => Bool.eqb ok ok' && N.eqb t t'
  | _, _ => false
  end.

Fixpoint mem_stage (a : stage) (l : list stage) : bool :=
  match l with [] => false | b :: r => stage_eqb a b || mem_stage a r end.

Definition optN_eqb (a b : option N) : bool :=
  match a, b with
  | Some x, Some y => N.eqb x y
  | None, None => true
  | _, _ => false
  end.

(* ---- ghost state of the monitor ------------------------------------------- *)

Record cur := mkCur {
  c_id : N;                    (* the executor most recently started ... *)
  c_dig : N;                   (* ... the digest it was asked to execute ... *)
  c_em : list stage }.         (* ... and every state it has emitted *)

Record mon := mkMon {
  m_live : option N;           (* executor whose Execute() has not returned *)
  m_cur : option cur;          (* executor the client may legitimately talk about *)
  m_owes : bool;               (* a non-OK completion was reported; readiness not re-checked since *)
  m_synced : bool;             (* this Run has reached Synchronize *)
  m_ready : bool;              (* this Run has checked readiness successfully *)
  m_shut : bool;               (* shutdown began in an earlier event (a cancelled context stays cancelled) *)
  m_closed : bool;             (* the update channel of the executor in m_cur has been closed (after its Completed) *)
  m_upd : bool;                (* this Run's select was ended by an update (or the close), not by the timer *)
  m_slot : bool }.             (* the client held an execution slot when the previous Run returned (snapshot) *)

Definition mon_init : mon := mkMon None None false false false false false false false.

Definition item_begin (m : mon) : mon :=
  mkMon (m_live m) (m_cur m) (m_owes m) false false (m_shut m) (m_closed m) false (m_slot m).

(* Context of an output: the event it belongs to and the snapshot after it. *)
Record ctx := mkCtx { k_ev : event; k_obs : obs }.

(* The context was cancelled by the time this Run built its request: before
   the Run began, or during it (while CheckReadiness ran / while it slept in
   the select), i.e. before the second reading of ctx.Err(). *)
Definition ctx_shutdown (c : ctx) : bool :=
  match k_ev c with ERun r => r_shutdown r || r_late r | EExec _ => false end.
(* ... already before the Run began *)
Definition ctx_seen (c : ctx) : bool :=
  match k_ev c with ERun r => r_shutdown r | EExec _ => false end.
(* Shutdown has begun: in this Run (up to the point where the request is
   built) or in any earlier event. *)
Definition began (c : ctx) (m : mon) : bool := m_shut m || ctx_shutdown c.
Definition ctx_ready (c : ctx) : bool :=
  match k_ev c with ERun r => r_ready r | EExec _ => false end.
Definition ctx_now (c : ctx) : Z :=
  match k_ev c with ERun r => r_now r | EExec _ => 0 end.
Definition ctx_told_idle (c : ctx) : bool :=
  match k_ev c with
  | ERun r => match r_reply r with Reply (Some _) DIdle => true | _ => false end
  | EExec _ => false
  end.

Definition emitted (e : xev) (r : xres) : option stage :=
  match r with
  | XSent | XBlocked =>
    match e with
    | XUpdate k => Some (StUpd k)
    | XFinish ok tag => Some (StDone ok tag)
    | XClose => None
    end
  | _ => None
  end.

Definition add_em (oc : option cur) (st : stage) : option cur :=
  match oc with
  | Some c => Some (mkCur (c_id c) (c_dig c) (st :: c_em c))
  | None => None
  end.

Definition is_failed (st : rstate) : bool :=
  match st with RExec _ (StDone false _) => true | _ => false end.

Definition is_done_rep (st : rstate) : bool :=
  match st with RExec _ (StDone _ _) => true | _ => false end.

(* executing and not completed *)
Definition is_executing (st : rstate) : bool :=
  match st with
  | RExec _ (StDone _ _) => false
  | RExec _ _ => true
  | RIdle => false
  end.

Definition is_xclosed (r : xres) : bool := match r with XClosed => true | _ => false end.

Definition mon_next (c : ctx) (m : mon) (o : out) : mon :=
  match o with
  | OReady => mkMon (m_live m) (m_cur m) (if ctx_ready c then false else m_owes m) (m_synced m) (ctx_ready c) (m_shut m)
                    (m_closed m) (m_upd m) (m_slot m)
  | OTimer _ fired => mkMon (m_live m) (m_cur m) (m_owes m) (m_synced m) (m_ready m) (m_shut m)
                            (m_closed m) (negb fired) (m_slot m)
  | OX e r =>
    mkMon (m_live m) (match emitted e r with Some st => add_em (m_cur m) st | None => m_cur m end)
          (m_owes m) (m_synced m) (m_ready m) (m_shut m)
          (m_closed m || is_xclosed r) (m_upd m) (m_slot m)
  | OExit id => mkMon (if optN_eqb (m_live m) (Some id) then None else m_live m) (m_cur m) (m_owes m) (m_synced m) (m_ready m) (m_shut m)
                      (m_closed m) (m_upd m) (m_slot m)
  | OCancel _ => m
  | OStart id d _ => mkMon (Some id) (Some (mkCur id d [])) false (m_synced m) (m_ready m) (m_shut m)
                           false (m_upd m) (m_slot m)
  | OSync st _ _ => mkMon (m_live m) (m_cur m) (if is_failed st then true else m_owes m) true (m_ready m) (m_shut m)
                          (m_closed m) (m_upd m) (m_slot m)
  | ORet _ e =>
    (* the Run is over: if shutdown began in it, it has begun for good *)
    let cu := match e with
              | ENone => if ctx_told_idle c && m_synced m then None else m_cur m
              | _ => m_cur m
              end in
    mkMon (m_live m) cu (m_owes m) (m_synced m) (m_ready m) (began c m)
          (m_closed m) (m_upd m) (o_exec (k_obs c))
  end.

(* ---- the five checks -------------------------------------------------------- *)

Definition chk := ctx -> mon -> out -> string.

(* one_executor: Execute is entered only when no other Execute is running
   (the previous executor returned and its channel was drained to closed
   before startExecution went on); an executor exits only once; and after
   the scheduler said "idle" no executor is left running. *)
Definition chk_one_executor : chk := fun c m o =>
  match o with
  | OStart _ _ ov =>
    if ov then "two-executors-overlap"
    else if is_some (m_live m) then "start-before-previous-exit"
    else ""
  | OExit id => if optN_eqb (m_live m) (Some id) then "" else "exit-of-non-running-executor"
  | OCancel id => if optN_eqb (m_live m) (Some id) then "" else "cancel-of-non-running-executor"
  | ORet _ ENone =>
    if ctx_told_idle c && m_synced m && is_some (m_live m) then "still-executing-after-told-idle" else ""
  | _ => ""
  end%string.

(* report_honest *)
Definition chk_report_honest : chk := fun c m o =>
  match o with
  | OSync RIdle _ _ => if is_some (m_live m) then "reports-idle-while-executing" else ""
  | OSync (RExec d st) _ _ =>
    match m_cur m with
    | None => "reports-executing-without-executor"
    | Some cu =>
      if negb (N.eqb d (c_dig cu)) then "reports-foreign-digest"
      else if stage_eqb st StStarted || mem_stage st (c_em cu) then ""
      else match st with
           | StDone _ _ => "reports-foreign-response"
           | _ => "reports-state-not-emitted"
           end
    end
  | _ => ""
  end%string.

(* completion_reported: "the completion of an action is reported with that
   action's own response".  (a) If the executor's channel was closed before
   the request of this Run was built - in an earlier event or while this Run
   slept in its select, i.e. before this OSync in trace order - and the select
   was ended by an update rather than by the timer (when the timer ends it the
   code legitimately re-sends the last state), then the client has drained the
   channel up to the close, so what it reports is that executor's Completed
   (that it is this executor's own response is chk_report_honest).  (b) A
   client that held no execution slot when the previous Run returned has
   either been told to go idle or has drained its executor's channel to the
   close: it never reports a non-completed executing state. *)
Definition chk_completion : chk := fun c m o =>
  match o with
  | OSync st _ _ =>
    if m_closed m && m_upd m && negb (is_done_rep st) then "completion-not-reported"
    else if negb (m_slot m) && is_executing st then "reports-executing-after-executor-closed"
    else ""
  | _ => ""
  end%string.

(* idle_after_failure: a failed action is reported with PreferBeingIdle and
   the worker keeps asking to be left idle until readiness was re-checked;
   more generally an idle worker asks for work only in a Run in which the
   readiness check has just succeeded. *)
Definition chk_idle_after_failure : chk := fun c m o =>
  match o with
  | OSync st p _ =>
    if is_failed st && negb p then "failure-reported-without-prefer-idle"
    else if m_owes m && negb (is_failed st) && negb p then "solicits-work-before-readiness-recheck"
    else match st with
         | RIdle => if negb p && negb (m_ready m) then "solicits-work-without-readiness-check" else ""
         | _ => ""
         end
  | _ => ""
  end%string.

(* shutdown_never_solicits: from the moment shutdown began every request asks
   to be left idle - also the request of the Run during which the context got
   cancelled (late cancellation: after the termination test at the top, before
   the request was built), and every request after that, whatever the later
   events say.  And the RPC must still go through: never on the cancelled
   context. *)
Definition chk_shutdown : chk := fun c m o =>
  match o with
  | OSync _ p live =>
    if began c m && negb p
    then (if ctx_seen c then "solicits-work-during-shutdown"
          else "blocking-synchronize-after-shutdown-began")
    else if negb live then "synchronize-with-cancelled-context"
    else ""
  | _ => ""
  end%string.

(* terminate_only_when_safe *)
Definition chk_terminate : chk := fun c m o =>
  match o with
  | ORet true _ =>
    if began c m
    then match o_until (k_obs c) with
         | None => ""
         | Some u => if (u <? ctx_now c)%Z then "" else "terminates-while-scheduler-may-think-executing"
         end
    else ""
  | _ => ""
  end%string.

Definition is_empty (s : string) : bool := match s with EmptyString => true | _ => false end.
Definition cat2 (a b : string) : string := if is_empty a then b else a.

Definition chk_all : chk := fun c m o =>
  cat2 (chk_one_executor c m o)
  (cat2 (chk_report_honest c m o)
  (cat2 (chk_completion c m o)
  (cat2 (chk_idle_after_failure c m o)
  (cat2 (chk_shutdown c m o) (chk_terminate c m o))))).

(* ---- running a check over a trace ------------------------------------------ *)

Fixpoint mon_outs (c : ctx) (m : mon) (outs : list out) : mon :=
  match outs with [] => m | o :: r => mon_outs c (mon_next c m o) r end.

Fixpoint chk_outs (k : chk) (c : ctx) (m : mon) (outs : list out) : string :=
  match outs with
  | [] => ""
  | o :: r => cat2 (k c m o) (chk_outs k c (mon_next c m o) r)
  end.

Definition ctx_of (it : item) : ctx := mkCtx (i_ev it) (i_obs it).

Fixpoint chk_trace (k : chk) (m : mon) (tr : list item) : string :=
  match tr with
  | [] => ""
  | it :: r =>
    let c := ctx_of it in
    let m0 := item_begin m in
    cat2 (chk_outs k c m0 (i_outs it)) (chk_trace k (mon_outs c m0 (i_outs it)) r)
  end.

Definition trace_ok (k : chk) (tr : list item) : bool := is_empty (chk_trace k mon_init tr).

(* A check on the monitor state at the end of every item, against the
   snapshot: if the client holds that the scheduler cannot think it is
   executing (until = nil), then no executor is running. *)
Definition chk_end (c : ctx) (m : mon) : string :=
  match o_until (k_obs c) with
  | None => if is_some (m_live m) then "until-nil-while-executing" else ""
  | Some _ => ""
  end%string.

Fixpoint end_trace (m : mon) (tr : list item) : string :=
  match tr with
  | [] => ""
  | it :: r =>
    let c := ctx_of it in
    let m' := mon_outs c (item_begin m) (i_outs it) in
    cat2 (chk_end c m') (end_trace m' r)
  end.

Definition end_ok (tr : list item) : bool := is_empty (end_trace mon_init tr).

(* ---- the observer: what the scheduler may think, derived from the traffic ------------ *)

(* A second monitor that never looks at the client's private fields.  From
   the Synchronize traffic alone (requests as received by the scheduler,
   replies as sent by it, the clock, and whether the client's timer or an
   update ended its select) it keeps
     b_next  : the time at which the scheduler expects the next Synchronize
               (last valid next_synchronization_at it sent; the client may
               only bring it forward to "now" when it has an update to send);
     b_bound : until when the scheduler may think this worker is executing:
               any Synchronize that went out may have handed out an action
               (the reply can be lost in transit or be rejected locally), so
               it sets the bound to b_next + grace unless one is already
               running; a reply that was accepted as "execute", or as "no
               change" to a request that said executing, renews it from the
               new next_synchronization_at; only an accepted "idle", or an
               accepted "no change" to a request that did not say executing,
               ends it. *)
Record obm := mkObm {
  b_next : Z;
  b_bound : option Z;
  b_exec : bool;               (* the request of this Run said executing (not completed) *)
  b_synced : bool;
  b_ready : bool }.

Definition obm_init (t0 : Z) : obm := mkObm t0 None false false false.
Definition obm_begin (b : obm) : obm := mkObm (b_next b) (b_bound b) false false false.

Definition ctx_reply (c : ctx) : option reply :=
  match k_ev c with ERun r => Some (r_reply r) | EExec _ => None end.

Definition obm_next (c : ctx) (b : obm) (o : out) : obm :=
  match o with
  | OReady => mkObm (b_next b) (b_bound b) (b_exec b) (b_synced b) (ctx_ready c)
  | OTimer _ fired =>
    if fired then b
    else mkObm (Z.min (b_next b) (ctx_now c)) (b_bound b) (b_exec b) (b_synced b) (b_ready b)
  | OSync st _ _ =>
    mkObm (b_next b)
          (match b_bound b with None => Some (b_next b + grace_ms) | Some u => Some u end)
          (is_executing st) true (b_ready b)
  | ORet _ _ =>
    if b_synced b then
      match ctx_reply c with
      | Some (Reply (Some ts) ds) =>
        match ds with
        | DExec _ => mkObm ts (Some (ts + grace_ms)) (b_exec b) (b_synced b) (b_ready b)
        | DIdle => mkObm ts None (b_exec b) (b_synced b) (b_ready b)
        | DNone => mkObm ts (if b_exec b then Some (ts + grace_ms) else None) (b_exec b) (b_synced b) (b_ready b)
        | DExecBad | DUnknown => mkObm ts (b_bound b) (b_exec b) (b_synced b) (b_ready b)
        end
      | _ => b
      end
    else b
  | _ => b
  end.

Definition ochk := ctx -> obm -> out -> string.

(* (a) mayTerminate during shutdown only once the observed bound is gone or past *)
Definition ochk_terminate : ochk := fun c b o =>
  match o with
  | ORet true _ =>
    if ctx_shutdown c
    then match b_bound (obm_next c b o) with
         | None => ""
         | Some u => if (u <? ctx_now c)%Z then "" else "terminates-before-observed-bound-has-passed"
         end
    else ""
  | _ => ""
  end%string.

(* (b) an idle worker solicits work only when the scheduler cannot think it is
   executing and readiness was just checked *)
Definition ochk_solicit : ochk := fun c b o =>
  match o with
  | OSync RIdle false _ =>
    if is_some (b_bound b) then "solicits-work-while-scheduler-may-think-executing"
    else if negb (b_ready b) then "solicits-work-without-readiness-check"
    else ""
  | _ => ""
  end%string.

Definition ochk_all : ochk := fun c b o => cat2 (ochk_terminate c b o) (ochk_solicit c b o).

(* (c) the client's own field never promises less than the observed bound *)
Definition rejected_reply (c : ctx) : bool :=
  match ctx_reply c with
  | Some (Reply None _) | Some (Reply _ DExecBad) | Some (Reply _ DUnknown) => true
  | _ => false
  end.

Definition ochk_end (c : ctx) (b : obm) : string :=
  match b_bound b with
  | None => ""
  | Some u =>
    match o_until (k_obs c) with
    | None => if rejected_reply c then "until-not-extended-after-rejected-reply"
              else "until-nil-while-scheduler-may-think-executing"
    | Some v => if (v <? u)%Z then "until-earlier-than-observed-bound" else ""
    end
  end%string.

Fixpoint obm_outs (c : ctx) (b : obm) (outs : list out) : obm :=
  match outs with [] => b | o :: r => obm_outs c (obm_next c b o) r end.

Fixpoint ochk_outs (c : ctx) (b : obm) (outs : list out) : string :=
  match outs with
  | [] => ""
  | o :: r => cat2 (ochk_all c b o) (ochk_outs c (obm_next c b o) r)
  end.

Fixpoint ochk_trace (b : obm) (tr : list item) : string :=
  match tr with
  | [] => ""
  | it :: r =>
    let c := ctx_of it in
    let b0 := obm_begin b in
    let b' := obm_outs c b0 (i_outs it) in
    cat2 (ochk_outs c b0 (i_outs it)) (cat2 (ochk_end c b') (ochk_trace b' r))
  end.

Definition observer_ok (t0 : Z) (tr : list item) : bool := is_empty (ochk_trace (obm_init t0) tr).

(* ---- safe shutdown, stated directly ------------------------------------------------------ *)

(* Every SynchronizeRequest in these outputs asks to be left idle and went
   out on a live context. *)
Definition sync_idle (o : out) : bool :=
  match o with OSync _ p live => p && live | _ => true end.
Definition syncs_idle (outs : list out) : bool := forallb sync_idle outs.
Definition all_syncs_idle (tr : list item) : bool := forallb (fun it => syncs_idle (i_outs it)) tr.
