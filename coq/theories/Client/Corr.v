(* Correspondence evaluator for the build client: the model against the
   recorded behaviour of the real BuildClient, and the checks of Spec.v on
   the recorded trace alone. *)
From Coq Require Import List ZArith NArith Bool String.
From VF Require Import Common.Verdict Client.Model Client.Spec.
Import ListNotations.
Open Scope Z_scope.

Record case := mkCase {
  c_t0 : Z;                    (* clock reading at NewBuildClient *)
  c_grace : Z;                 (* grace in ms, extracted from the source of this run *)
  c_cap_src : nat;             (* channel capacity, extracted from the source *)
  c_cap_rt : nat;              (* cap(updates) seen by the executor at run time (0 if none started) *)
  c_items : list item }.       (* events with the implementation's outputs and snapshots *)

(* ---- equality of observables ----------------------------------------------- *)

Definition xev_eqb (a b : xev) : bool :=
  match a, b with
  | XUpdate k, XUpdate k' => N.eqb k k'
  | XFinish ok t, XFinish ok' t' => Bool.eqb ok ok' && N.eqb t t'
  | XClose, XClose => true
  | _, _ => false
  end.
Definition xres_eqb (a b : xres) : bool :=
  match a, b with
  | XSent, XSent | XBlocked, XBlocked | XIgnored, XIgnored | XClosed, XClosed => true
  | _, _ => false
  end.
Definition errc_eqb (a b : errc) : bool :=
  match a, b with
  | ENone, ENone | EReady, EReady | ESync, ESync | ETs, ETs | EStart, EStart
  | EUnknown, EUnknown | EPanic, EPanic | EHang, EHang | EOther, EOther => true
  | _, _ => false
  end.
Definition rstate_eqb (a b : rstate) : bool :=
  match a, b with
  | RIdle, RIdle => true
  | RExec d s, RExec d' s' => N.eqb d d' && stage_eqb s s'
  | _, _ => false
  end.
Definition out_eqb (a b : out) : bool :=
  match a, b with
  | OReady, OReady => true
  | OTimer d f, OTimer d' f' => Z.eqb d d' && Bool.eqb f f'
  | OX e r, OX e' r' => xev_eqb e e' && xres_eqb r r'
  | OExit i, OExit i' => N.eqb i i'
  | OCancel i, OCancel i' => N.eqb i i'
  | OStart i d v, OStart i' d' v' => N.eqb i i' && N.eqb d d' && Bool.eqb v v'
  | OSync s p l, OSync s' p' l' => rstate_eqb s s' && Bool.eqb p p' && Bool.eqb l l'
  | ORet m e, ORet m' e' => Bool.eqb m m' && errc_eqb e e'
  | _, _ => false
  end.
Fixpoint outs_eqb (a b : list out) : bool :=
  match a, b with
  | [], [] => true
  | x :: a', y :: b' => out_eqb x y && outs_eqb a' b'
  | _, _ => false
  end.
Definition optZ_eqb (a b : option Z) : bool :=
  match a, b with
  | Some x, Some y => Z.eqb x y
  | None, None => true
  | _, _ => false
  end.
Definition obs_eqb (a b : obs) : bool :=
  optZ_eqb (o_until a) (o_until b) && Z.eqb (o_next a) (o_next b)
  && Bool.eqb (o_exec a) (o_exec b) && Bool.eqb (o_prefer a) (o_prefer b).

(* ---- P on the implementation trace ------------------------------------------ *)

(* The events carry, per Run, whether the harness had cancelled the context
   before the Run (r_shutdown) and whether it cancelled it during the Run
   before Synchronize was called (r_late, recorded as it happened); the
   monitor's m_shut remembers across items that shutdown began. *)

Fixpoint viol_from (i : nat) (m : mon) (b : obm) (its : list item) : verdict :=
  match its with
  | [] => VOk
  | it :: r =>
    let c := ctx_of it in
    let m0 := item_begin m in
    let b0 := obm_begin b in
    let m' := mon_outs c m0 (i_outs it) in
    let b' := obm_outs c b0 (i_outs it) in
    let k := cat2 (chk_outs chk_all c m0 (i_outs it))
            (cat2 (chk_end c m')
            (cat2 (ochk_outs c b0 (i_outs it)) (ochk_end c b'))) in
    if is_empty k then viol_from (S i) m' b' r else VViolation i k
  end.

(* ---- model against implementation ------------------------------------------- *)

Fixpoint mism_from (i : nat) (s : state) (its : list item) : verdict :=
  match its with
  | [] => VOk
  | it :: r =>
    let '(s', o) := step s (i_ev it) in
    if negb (outs_eqb o (i_outs it)) then VMismatch i "outputs"
    else if negb (obs_eqb (observe s') (i_obs it)) then VMismatch i "state"
    else mism_from (S i) s' r
  end.

Definition mism (c : case) : verdict :=
  if negb (Z.eqb (c_grace c) grace_ms) then VMismatch 0 "constant-grace"
  else if negb (Nat.eqb (c_cap_src c) chan_cap) then VMismatch 0 "constant-channel-capacity"
  else if negb (Nat.eqb (c_cap_rt c) chan_cap || Nat.eqb (c_cap_rt c) 0) then VMismatch 0 "runtime-channel-capacity"
  else mism_from 0 (init (c_t0 c)) (c_items c).

Definition check_case (c : case) : verdict :=
  vcombine (viol_from 0 mon_init (obm_init (c_t0 c)) (c_items c)) (mism c).
