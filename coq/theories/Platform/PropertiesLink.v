(* C05, Platform area — link to the scheduler model (Sched files are only
   imported).  The scheduler model's queue selection [longest_prefix_pq]
   (Sched/Steps.v, used by exec_start) computes exactly this area's
   reference function — the one platform.Trie is proved to implement
   (Properties.trie_refines_map) — on the registered platform queues. *)
From Coq Require Import List NArith.
From VF Require Import Platform.Spec Platform.Link.
From VF Require Import Sched.Types Sched.Model Sched.Steps.

Theorem longest_prefix_pq_is_reference : forall s plat inst,
  longest_prefix_pq s plat inst =
  Platform.Spec.ref_longest N.eqb N.eqb
    (map (fun p => ((pk_prefix (p_key p), pk_plat (p_key p)), p)) (s_pqs s)) (inst, plat).
Proof. exact longest_prefix_pq_is_ref. Qed.
Print Assumptions longest_prefix_pq_is_reference.

(* non-vacuity: two nested queues of one platform and one of another *)
Example ex_link :
  let q (pre : list N) (pl : N) := mkPq (mkPK pre pl) [] 0 0%Z [0%N] in
  let l := [q [1%N] 7%N; q [1%N; 2%N] 7%N; q [1%N; 2%N; 3%N] 8%N] in
  ref_pq l 7%N [1%N; 2%N; 3%N] = Some (q [1%N; 2%N] 7%N) /\
  ref_pq l 8%N [1%N; 2%N] = None.
Proof. vm_compute. split; reflexivity. Qed.
