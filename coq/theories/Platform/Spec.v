(* Platform — the property, written independently of the trie.

   Reference: a finite map from (instance name prefix, platform) to a
   value; "the longest registered prefix of the instance name among the
   entries with an equal platform".  The reference is generic in the type
   of name components and platforms, so that the scheduler model
   (components and platform ids are numbers there) and this area
   (strings, property lists) use the same definition (Link.v).

   P per operation ([p_step]) is evaluated by Corr.v on the
   implementation's own trace, and proved of every model trace
   (Properties.monitor_holds_on_model). *)
From Coq Require Import String Ascii List ZArith Bool Sorting.Sorted.
From VF Require Import Platform.Model.
Import ListNotations.
Open Scope string_scope.

(* ---- reference finite map ------------------------------------------------- *)
Section Ref.
  Context {C P V : Type} (ceqb : C -> C -> bool) (peqb : P -> P -> bool).

  Definition rkey : Type := (list C * P)%type.
  Definition rkey_eqb (a b : rkey) : bool := list_eqb ceqb (fst a) (fst b) && peqb (snd a) (snd b).
  Definition rmap : Type := list (rkey * V).

  Fixpoint ref_get (k : rkey) (m : rmap) : option V :=
    match m with
    | [] => None
    | (k', v) :: r => if rkey_eqb k k' then Some v else ref_get k r
    end.
  Definition ref_set (k : rkey) (v : V) (m : rmap) : rmap := (k, v) :: m.
  Fixpoint ref_del (k : rkey) (m : rmap) : rmap :=
    match m with
    | [] => []
    | (k', v) :: r => if rkey_eqb k k' then ref_del k r else (k', v) :: ref_del k r
    end.

  Fixpoint is_prefix (a b : list C) : bool :=
    match a, b with
    | [], _ => true
    | x :: a', y :: b' => ceqb x y && is_prefix a' b'
    | _, _ => false
    end.

  (* the value registered (in f) for the longest prefix of p that is registered:
     try the longer prefixes first *)
  Fixpoint longest (f : list C -> option V) (p : list C) : option V :=
    match p with
    | [] => f []
    | c :: r => match longest (fun q => f (c :: q)) r with
                | Some v => Some v
                | None => f []
                end
    end.

  (* longest registered prefix of the instance name among entries with equal platform *)
  Definition ref_longest (m : rmap) (k : rkey) : option V :=
    longest (fun q => ref_get (q, snd k) m) (fst k).
End Ref.

(* ---- keys ------------------------------------------------------------------ *)
Definition slt (a b : string) : Prop := String.compare a b = Lt.
Definition sltb (a b : string) : bool := match String.compare a b with Lt => true | _ => false end.

(* REv2: properties sorted by name, then by value; no two equal (name, value) pairs *)
Definition prop_lt (a b : prop) : Prop :=
  slt (fst a) (fst b) \/ (fst a = fst b /\ slt (snd a) (snd b)).
Definition prop_ltb (a b : prop) : bool :=
  sltb (fst a) (fst b) || (String.eqb (fst a) (fst b) && sltb (snd a) (snd b)).

Fixpoint sorted_b (ps : list prop) : bool :=
  match ps with
  | [] => true
  | a :: r => match r with [] => true | b :: _ => prop_ltb a b end && sorted_b r
  end.

(* instance names: '/'-separated non-empty components, none a reserved keyword *)
Fixpoint spec_split (s : string) : list string :=
  match s with
  | EmptyString => [""]
  | String a r =>
    if Ascii.eqb a "/"%char then "" :: spec_split r
    else match spec_split r with
         | h :: t => String a h :: t
         | [] => [String a ""]
         end
  end.
Definition spec_reserved : list string :=
  ["blobs"; "uploads"; "actions"; "actionResults"; "operations"; "capabilities"; "compressed-blobs"].
Definition comp_ok (c : string) : bool := negb (String.eqb c "") && negb (existsb (String.eqb c) spec_reserved).
Definition spec_components (s : string) : option (list string) :=
  if String.eqb s "" then Some []
  else let cs := spec_split s in if forallb comp_ok cs then Some cs else None.

Inductive spec_class := SBad | SUnsorted | SOk (k : @rkey string (list prop)).
Definition spec_key (a : karg) : spec_class :=
  match spec_components (ka_inst a) with
  | None => SBad
  | Some cs => if sorted_b (ka_props a) then SOk (cs, ka_props a) else SUnsorted
  end.

(* ---- the monitor ------------------------------------------------------------ *)
Definition skey := @rkey string (list prop).
Definition smap := @rmap string (list prop) Z.
Definition sget : skey -> smap -> option Z := ref_get String.eqb plat_eqb.
Definition sset : skey -> Z -> smap -> smap := ref_set.
Definition sdel : skey -> smap -> smap := ref_del String.eqb plat_eqb.
Definition slongest : smap -> skey -> option Z := ref_longest String.eqb plat_eqb.
Definition skey_eqb : skey -> skey -> bool := rkey_eqb String.eqb plat_eqb.

Definition dflt (o : option Z) : Z := match o with Some v => v | None => (-1)%Z end.
Definition is_some {A} (o : option A) : bool := match o with Some _ => true | None => false end.

(* m_trie: what Set/Remove have registered; m_router: registered backends
   (backend ids 1, 2, ... in order of successful registration; 0 = default);
   m_n: next backend id *)
Record mon := mkMon { m_trie : smap; m_router : smap; m_n : Z }.
Definition mon_init : mon := mkMon [] [] 1.

Definition p_step (m : mon) (o : op) (x : out) : string * mon :=
  match o with
  | ONewKey a =>
    (match spec_key a, x with
     | SBad, XKeyBadInstance => ""
     | SBad, _ => "C05:platform-instance-name-invalid-accepted"
     | _, XKeyBadInstance => "C05:platform-instance-name-valid-rejected"
     | SUnsorted, XKeyUnsorted => ""
     | SUnsorted, _ => "C05:platform-key-unsorted-accepted"
     | SOk _, XKeyUnsorted => "C05:platform-key-sorted-rejected"
     | SOk _, XKeyOk i ps js =>
       if String.eqb i (ka_inst a) && plat_eqb ps (ka_props a) then
         if negb (plain_props (ka_props a)) || String.eqb js (marshal_platform (ka_props a)) then ""
         else "C05:platform-key-canonical-string"
       else "C05:platform-key-roundtrip"
     | SOk _, _ => "C05:platform-key-sorted-rejected"
     end, m)
  | OKeyEq a b =>
    (match spec_key a, spec_key b with
     | SOk ka, SOk kb =>
       match x with
       | XBool r => if Bool.eqb r (skey_eqb ka kb) then "" else "C05:platform-key-equality"
       | _ => "C05:platform-key-sorted-rejected"
       end
     | _, _ => match x with XNone => "" | _ => "C05:platform-key-unsorted-accepted" end
     end, m)
  | OSet a v =>
    match spec_key a with
    | SOk k => (match x with XDone => "" | XPanic => "C05:platform-trie-set-panic" | _ => "C05:platform-key-sorted-rejected" end,
                mkMon (sset k v (m_trie m)) (m_router m) (m_n m))
    | _ => (match x with XNone => "" | _ => "C05:platform-key-unsorted-accepted" end, m)
    end
  | ORemove a =>
    match spec_key a with
    | SOk k => (match x with
                | XDone => ""
                | XPanic => if is_some (sget k (m_trie m)) then "C05:platform-trie-remove-panic" else ""
                | _ => "C05:platform-key-sorted-rejected"
                end,
                mkMon (sdel k (m_trie m)) (m_router m) (m_n m))
    | _ => (match x with XNone => "" | _ => "C05:platform-key-unsorted-accepted" end, m)
    end
  | OContains a =>
    (match spec_key a with
     | SOk k => match x with
                | XBool b => if Bool.eqb b (is_some (sget k (m_trie m))) then "" else "C05:platform-trie-contains-exact"
                | _ => "C05:platform-key-sorted-rejected"
                end
     | _ => match x with XNone => "" | _ => "C05:platform-key-unsorted-accepted" end
     end, m)
  | OGetExact a =>
    (match spec_key a with
     | SOk k => match x with
                | XInt v => if Z.eqb v (dflt (sget k (m_trie m))) then "" else "C05:platform-trie-get-exact"
                | _ => "C05:platform-key-sorted-rejected"
                end
     | _ => match x with XNone => "" | _ => "C05:platform-key-unsorted-accepted" end
     end, m)
  | OGetLongest a =>
    (match spec_key a with
     | SOk k => match x with
                | XInt v => if Z.eqb v (dflt (slongest (m_trie m) k)) then "" else "C05:platform-trie-longest-prefix"
                | _ => "C05:platform-key-sorted-rejected"
                end
     | _ => match x with XNone => "" | _ => "C05:platform-key-unsorted-accepted" end
     end, m)
  | ORegister a =>
    match spec_components (ka_inst a) with
    | None => (match x with XNone => "" | _ => "C05:platform-instance-name-invalid-accepted" end, m)
    | Some cs =>
      if sorted_b (ka_props a) then
        let k : skey := (cs, ka_props a) in
        match sget k (m_router m) with
        | Some _ => (match x with XReg RegExists => "" | _ => "C05:platform-demux-duplicate-accepted" end, m)
        | None => (match x with XReg RegOk => "" | _ => "C05:platform-demux-register-rejected" end,
                   mkMon (m_trie m) (sset k (m_n m) (m_router m)) (m_n m + 1)%Z)
        end
      else (match x with XReg RegInvalid => "" | _ => "C05:platform-demux-register-unsorted-accepted" end, m)
    end
  | ORoute a =>
    (match spec_key a with
     | SOk k => match x with
                | XRoute b => if Z.eqb b (match slongest (m_router m) k with Some v => v | None => 0%Z end)
                              then "" else "C05:platform-demux-route"
                | _ => "C05:platform-demux-route-failed"
                end
     | _ => match x with XRouteErr => "" | _ => "C05:platform-demux-route-invalid-key" end
     end, m)
  end.

Fixpoint trace_ok_from (m : mon) (ops : list op) (outs : list out) : bool :=
  match ops, outs with
  | o :: ops', x :: outs' =>
    let '(k, m') := p_step m o x in
    String.eqb k "" && trace_ok_from m' ops' outs'
  | [], [] => true
  | _, _ => false
  end.
Definition trace_ok (ops : list op) (outs : list out) : bool := trace_ok_from mon_init ops outs.

(* hypothesis of the history theorems: values handed to Set are indices (>= 0) *)
Definition op_ok (o : op) : Prop := match o with OSet _ v => (0 <= v)%Z | _ => True end.
Definition ops_ok (ops : list op) : Prop := Forall op_ok ops.
