(* Platform — keys: string order, sortedness test of NewKey, instance
   names, injectivity of the key representation. *)
From Coq Require Import String Ascii List ZArith NArith Bool Lia Sorting.Sorted.
From VF Require Import Platform.Model Platform.Spec.
Import ListNotations.
Open Scope string_scope.

(* ---- String.compare is a strict total order ---------------------------------- *)
Lemma ascii_compare_refl : forall a, Ascii.compare a a = Eq.
Proof. intro a. unfold Ascii.compare. apply N.compare_refl. Qed.

Lemma scompare_refl : forall s, String.compare s s = Eq.
Proof. induction s as [|a s IH]; cbn; [reflexivity|]. rewrite ascii_compare_refl. exact IH. Qed.

Lemma scompare_eq : forall a b, String.compare a b = Eq <-> a = b.
Proof.
  intros a b. split; [apply String.compare_eq_iff|]. intros ->. apply scompare_refl.
Qed.

Lemma ascii_compare_lt_trans : forall a b c,
  Ascii.compare a b = Lt -> Ascii.compare b c = Lt -> Ascii.compare a c = Lt.
Proof.
  unfold Ascii.compare. intros a b c H1 H2. rewrite N.compare_lt_iff in *. lia.
Qed.

Lemma slt_trans : forall a b c, slt a b -> slt b c -> slt a c.
Proof.
  unfold slt. induction a as [|x a IH]; intros b c H1 H2.
  - destruct b as [|y b]; [discriminate|]. destruct c as [|z c]; [discriminate|]. reflexivity.
  - destruct b as [|y b]; [discriminate|]. destruct c as [|z c]; [discriminate|].
    cbn in *.
    destruct (Ascii.compare x y) eqn:Exy; try discriminate;
    destruct (Ascii.compare y z) eqn:Eyz; try discriminate.
    + apply Ascii.compare_eq_iff in Exy, Eyz. subst. rewrite ascii_compare_refl. eapply IH; eassumption.
    + apply Ascii.compare_eq_iff in Exy. subst. rewrite Eyz. reflexivity.
    + apply Ascii.compare_eq_iff in Eyz. subst. rewrite Exy. reflexivity.
    + rewrite (ascii_compare_lt_trans _ _ _ Exy Eyz). reflexivity.
Qed.

Lemma slt_irrefl : forall a, ~ slt a a.
Proof. unfold slt. intros a H. rewrite scompare_refl in H. discriminate. Qed.

Lemma sltb_slt : forall a b, sltb a b = true <-> slt a b.
Proof. unfold sltb, slt. intros a b. destruct (String.compare a b); split; congruence. Qed.

(* ---- prop_lt ---------------------------------------------------------------------- *)
Lemma prop_ltb_lt : forall a b, prop_ltb a b = true <-> prop_lt a b.
Proof.
  intros [n1 v1] [n2 v2]. unfold prop_ltb, prop_lt. cbn [fst snd].
  rewrite orb_true_iff, andb_true_iff, !sltb_slt, String.eqb_eq. tauto.
Qed.

Lemma prop_lt_trans : forall a b c, prop_lt a b -> prop_lt b c -> prop_lt a c.
Proof.
  intros [n1 v1] [n2 v2] [n3 v3]. unfold prop_lt. cbn [fst snd].
  intros [H1|[E1 H1]] [H2|[E2 H2]]; subst.
  - left. eapply slt_trans; eassumption.
  - left. assumption.
  - left. assumption.
  - right. split; [reflexivity|]. eapply slt_trans; eassumption.
Qed.

Lemma prop_lt_irrefl : forall a, ~ prop_lt a a.
Proof. intros [n v] [H|[_ H]]; exact (slt_irrefl _ H). Qed.

(* the test of NewKey's loop is the negation of "strictly less" *)
Lemma out_of_order_ltb : forall a b, out_of_order a b = negb (prop_ltb a b).
Proof.
  intros [n1 v1] [n2 v2]. unfold out_of_order, prop_ltb, sgt, sge, sltb. cbn [fst snd].
  destruct (String.compare n1 n2) eqn:En.
  - apply scompare_eq in En. subst. rewrite String.eqb_refl. cbn.
    destruct (String.compare v1 v2); reflexivity.
  - cbn. destruct (String.eqb n1 n2) eqn:Ee; [|reflexivity].
    apply String.eqb_eq in Ee. subst. rewrite scompare_refl in En. discriminate.
  - cbn. destruct (String.eqb n1 n2) eqn:Ee; [|reflexivity].
    apply String.eqb_eq in Ee. subst. rewrite scompare_refl in En. discriminate.
Qed.

Lemma props_in_order_sorted_b : forall ps, props_in_order ps = sorted_b ps.
Proof.
  induction ps as [|a ps IH]; [reflexivity|].
  destruct ps as [|b ps]; [reflexivity|].
  change (props_in_order (a :: b :: ps)) with (negb (out_of_order a b) && props_in_order (b :: ps)).
  change (sorted_b (a :: b :: ps)) with (prop_ltb a b && sorted_b (b :: ps)).
  rewrite IH, out_of_order_ltb, negb_involutive. reflexivity.
Qed.

Lemma sorted_b_Sorted : forall ps, sorted_b ps = true <-> Sorted prop_lt ps.
Proof.
  induction ps as [|a ps IH]; [split; [constructor|reflexivity]|].
  destruct ps as [|b ps].
  - split; [intros _; constructor; constructor|reflexivity].
  - change (sorted_b (a :: b :: ps)) with (prop_ltb a b && sorted_b (b :: ps)).
    rewrite andb_true_iff, prop_ltb_lt, IH. split.
    + intros [H1 H2]. constructor; [assumption|constructor; assumption].
    + intros H. inversion H as [|? ? Hs Hh]; subst. inversion Hh; subst. split; assumption.
Qed.

Lemma Sorted_StronglySorted_prop : forall ps, Sorted prop_lt ps <-> StronglySorted prop_lt ps.
Proof.
  intro ps. split.
  - apply Sorted_StronglySorted. intros a b c. apply prop_lt_trans.
  - apply StronglySorted_Sorted.
Qed.

Lemma StronglySorted_NoDup : forall ps, StronglySorted prop_lt ps -> NoDup ps.
Proof.
  induction 1 as [|a ps Hs IH Hf]; constructor; [|assumption].
  intro Hin. rewrite Forall_forall in Hf. exact (prop_lt_irrefl a (Hf a Hin)).
Qed.

Lemma new_key_accepts_iff_sorted : forall inst ps,
  ((exists k, new_key inst ps = Some k) <-> StronglySorted prop_lt ps) /\
  (forall k, new_key inst ps = Some k -> k = mkKey inst ps).
Proof.
  intros inst ps. unfold new_key. rewrite props_in_order_sorted_b.
  rewrite <- Sorted_StronglySorted_prop, <- sorted_b_Sorted.
  destruct (sorted_b ps); split.
  - split; [reflexivity|]. intros _. eexists. reflexivity.
  - intros k [= <-]. reflexivity.
  - split; [intros [k H]; discriminate|discriminate].
  - intros k H. discriminate.
Qed.

Lemma new_key_spec : forall inst ps,
  new_key inst ps = if sorted_b ps then Some (mkKey inst ps) else None.
Proof. intros. unfold new_key. rewrite props_in_order_sorted_b. reflexivity. Qed.

(* ---- equality tests ------------------------------------------------------------------- *)
Lemma list_eqb_eq : forall A (e : A -> A -> bool), (forall x y, e x y = true <-> x = y) ->
  forall a b, list_eqb e a b = true <-> a = b.
Proof.
  intros A e He. induction a as [|x a IH]; intros [|y b]; cbn; try (split; congruence).
  rewrite andb_true_iff, He, IH. split; [intros [-> ->]; reflexivity|intros [= -> ->]; auto].
Qed.

Lemma prop_eqb_eq : forall a b, prop_eqb a b = true <-> a = b.
Proof.
  intros [n1 v1] [n2 v2]. unfold prop_eqb. cbn. rewrite andb_true_iff, !String.eqb_eq.
  split; [intros [-> ->]; reflexivity|intros [= -> ->]; auto].
Qed.

Lemma plat_eqb_eq : forall a b, plat_eqb a b = true <-> a = b.
Proof. apply list_eqb_eq. apply prop_eqb_eq. Qed.
Lemma inst_eqb_eq : forall a b, inst_eqb a b = true <-> a = b.
Proof. apply list_eqb_eq. apply String.eqb_eq. Qed.
Lemma plat_eqb_refl : forall a, plat_eqb a a = true.
Proof. intro a. apply plat_eqb_eq. reflexivity. Qed.
Lemma plat_eqb_neq : forall a b, a <> b -> plat_eqb a b = false.
Proof. intros a b H. destruct (plat_eqb a b) eqn:E; [|reflexivity]. apply plat_eqb_eq in E. contradiction. Qed.

Lemma key_eqb_eq : forall a b, key_eqb a b = true <-> a = b.
Proof.
  intros [i1 p1] [i2 p2]. unfold key_eqb. cbn. rewrite andb_true_iff, inst_eqb_eq, plat_eqb_eq.
  split; [intros [-> ->]; reflexivity|intros [= -> ->]; auto].
Qed.

(* ---- instance names ----------------------------------------------------------------------- *)
Lemma spec_split_nonempty : forall s, spec_split s <> [].
Proof.
  induction s as [|a s IH]; cbn; [discriminate|].
  destruct (Ascii.eqb a "/"); [discriminate|]. destruct (spec_split s); discriminate.
Qed.

Lemma split_slash_acc_spec : forall s acc,
  split_slash_acc acc s = match spec_split s with h :: t => acc h :: t | [] => [] end.
Proof.
  induction s as [|a s IH]; intro acc; cbn; [reflexivity|].
  unfold slash. destruct (Ascii.eqb a "/") eqn:Ea.
  - rewrite IH. destruct (spec_split s) eqn:Es; [exfalso; exact (spec_split_nonempty s Es)|reflexivity].
  - rewrite IH. destruct (spec_split s) eqn:Es; [exfalso; exact (spec_split_nonempty s Es)|reflexivity].
Qed.

Lemma split_slash_spec : forall s, split_slash s = spec_split s.
Proof.
  intro s. unfold split_slash. rewrite split_slash_acc_spec.
  destruct (spec_split s) eqn:Es; [exfalso; exact (spec_split_nonempty s Es)|reflexivity].
Qed.

Lemma concat_spec_split : forall s, String.concat "/" (spec_split s) = s.
Proof.
  induction s as [|a s IH]; [reflexivity|]. cbn [spec_split].
  destruct (Ascii.eqb a "/") eqn:Ea.
  - apply Ascii.eqb_eq in Ea. subst a.
    destruct (spec_split s) as [|h t] eqn:Es; [exfalso; exact (spec_split_nonempty s Es)|].
    change (String.concat "/" ("" :: h :: t)) with ("" ++ "/" ++ String.concat "/" (h :: t)).
    rewrite IH. reflexivity.
  - destruct (spec_split s) as [|h t] eqn:Es; [exfalso; exact (spec_split_nonempty s Es)|].
    destruct t as [|h2 t].
    + cbn in *. subst. reflexivity.
    + change (String.concat "/" (String a h :: h2 :: t)) with (String a h ++ "/" ++ String.concat "/" (h2 :: t)).
      change (String.concat "/" (h :: h2 :: t)) with (h ++ "/" ++ String.concat "/" (h2 :: t)) in IH.
      rewrite <- IH. reflexivity.
Qed.

Definition has_empty (cs : list string) : bool := existsb (fun c => String.eqb c "") cs.

(* HasPrefix "/" || HasSuffix "/" || Contains "//"  <->  some component is empty *)
Lemma redundant_slashes_iff_empty_component : forall n s, String.length s <= n -> s <> "" ->
  has_empty (spec_split s) = starts_with_slash s || ends_with_slash s || contains_double_slash s.
Proof.
  induction n as [|n IH]; intros s Hl Hne.
  - destruct s; [contradiction|cbn in Hl; lia].
  - destruct s as [|a r]; [contradiction|]. cbn [spec_split].
    unfold starts_with_slash, slash.
    destruct (Ascii.eqb a "/") eqn:Ea.
    + reflexivity.
    + cbn [orb].
      destruct r as [|b r'].
      * cbn [spec_split has_empty existsb String.eqb ends_with_slash contains_double_slash orb]. unfold slash. rewrite Ea. reflexivity.
      * assert (Hlr : String.length (String b r') <= n) by (cbn in *; lia).
        assert (Hends : ends_with_slash (String a (String b r')) = ends_with_slash (String b r')) by reflexivity.
        assert (Hdbl : contains_double_slash (String a (String b r')) = contains_double_slash (String b r')).
        { cbn [contains_double_slash]. unfold slash. rewrite Ea. reflexivity. }
        rewrite Hends, Hdbl.
        pose proof (IH (String b r') Hlr ltac:(discriminate)) as IHr.
        destruct (spec_split (String b r')) as [|h t] eqn:Es; [exfalso; exact (spec_split_nonempty _ Es)|].
        unfold has_empty in *. cbn [existsb] in *. cbn [String.eqb].
        cbn [orb].
        unfold starts_with_slash, slash in IHr.
        cbn [spec_split] in Es.
        destruct (Ascii.eqb b "/") eqn:Eb.
        -- injection Es as <- <-.
           destruct r' as [|c r''].
           ++ cbn [spec_split existsb String.eqb ends_with_slash contains_double_slash orb]. unfold slash. rewrite Eb. reflexivity.
           ++ assert (Hlr' : String.length (String c r'') <= n) by (cbn in *; lia).
              pose proof (IH (String c r'') Hlr' ltac:(discriminate)) as IHr'.
              rewrite IHr'.
              apply Ascii.eqb_eq in Eb. subst b.
              change (ends_with_slash (String "/" (String c r''))) with (ends_with_slash (String c r'')).
              change (contains_double_slash (String "/" (String c r'')))
                with ((Ascii.eqb "/" slash && Ascii.eqb c slash) || contains_double_slash (String c r'')).
              unfold starts_with_slash, slash.
              rewrite (Ascii.eqb_refl "/"). cbn [andb].
              destruct (Ascii.eqb c "/"), (ends_with_slash (String c r'')), (contains_double_slash (String c r'')); reflexivity.
        -- destruct (spec_split r') as [|h' t'] eqn:Es'; [exfalso; exact (spec_split_nonempty _ Es')|].
           injection Es as <- <-. cbn [String.eqb] in IHr. cbn [orb] in IHr. exact IHr.
Qed.

Lemma filter_nonempty_id : forall cs, has_empty cs = false ->
  filter (fun c => negb (String.eqb c "")) cs = cs.
Proof.
  induction cs as [|c cs IH]; [reflexivity|]. unfold has_empty. cbn. intro H.
  apply orb_false_iff in H. destruct H as [H1 H2]. rewrite H1. cbn. f_equal. apply IH. exact H2.
Qed.

Lemma forallb_comp_ok : forall cs,
  forallb comp_ok cs = negb (has_empty cs) && negb (existsb is_reserved cs).
Proof.
  induction cs as [|c cs IH]; [reflexivity|]. unfold has_empty in *. cbn [forallb existsb]. rewrite IH.
  unfold comp_ok, is_reserved, spec_reserved, reserved_keywords.
  destruct (String.eqb c ""); cbn [negb andb orb]; [reflexivity|].
  destruct (existsb (String.eqb c) _); cbn [negb andb orb]; [|reflexivity].
  rewrite andb_false_r. reflexivity.
Qed.

Lemma new_instance_name_spec : forall s, new_instance_name s = spec_components s.
Proof.
  intro s. unfold new_instance_name, spec_components, fields_slash. rewrite split_slash_spec.
  destruct (String.eqb s "") eqn:Es.
  - apply String.eqb_eq in Es. subst. reflexivity.
  - assert (Hne : s <> "") by (intro H; subst; discriminate).
    rewrite <- (redundant_slashes_iff_empty_component (String.length s) s (le_n _) Hne).
    rewrite forallb_comp_ok.
    destruct (has_empty (spec_split s)) eqn:Eh; [reflexivity|].
    rewrite (filter_nonempty_id _ Eh). cbn [negb andb].
    destruct (existsb is_reserved (spec_split s)); reflexivity.
Qed.

(* the components determine the string: joining them gives it back *)
Lemma spec_components_join : forall s cs, spec_components s = Some cs -> join_slash cs = s.
Proof.
  intros s cs. unfold spec_components, join_slash.
  destruct (String.eqb s "") eqn:Es.
  - apply String.eqb_eq in Es. intros [= <-]. subst. reflexivity.
  - destruct (forallb comp_ok (spec_split s)); [|discriminate]. intros [= <-]. apply concat_spec_split.
Qed.

Lemma spec_components_valid : forall s cs, spec_components s = Some cs ->
  Forall (fun c => c <> "" /\ ~ In c spec_reserved) cs.
Proof.
  intros s cs. unfold spec_components.
  destruct (String.eqb s ""); [intros [= <-]; constructor|].
  destruct (forallb comp_ok (spec_split s)) eqn:Ef; [|discriminate]. intros [= <-].
  rewrite forallb_forall in Ef. apply Forall_forall. intros c Hc. specialize (Ef c Hc).
  unfold comp_ok in Ef. apply andb_true_iff in Ef. destruct Ef as [E1 E2]. split.
  - intros ->. discriminate.
  - intro Hin. apply negb_true_iff in E2.
    assert (existsb (String.eqb c) spec_reserved = true).
    { apply existsb_exists. exists c. split; [assumption|apply String.eqb_refl]. }
    congruence.
Qed.

(* ---- model key classes = spec key classes ----------------------------------------------- *)
Lemma build_key_spec : forall a,
  build_key a = match spec_key a with
                | SBad => KBadInstance
                | SUnsorted => KUnsorted
                | SOk k => KOk (mkKey (fst k) (snd k))
                end.
Proof.
  intro a. unfold build_key, spec_key. rewrite new_instance_name_spec.
  destruct (spec_components (ka_inst a)) as [cs|]; [|reflexivity].
  rewrite new_key_spec. destruct (sorted_b (ka_props a)); reflexivity.
Qed.

Lemma build_key_ok_inv : forall a k, build_key a = KOk k ->
  spec_components (ka_inst a) = Some (k_inst k) /\ k_plat k = ka_props a /\ sorted_b (ka_props a) = true.
Proof.
  intros a k. rewrite build_key_spec. unfold spec_key.
  destruct (spec_components (ka_inst a)) as [cs|]; [|discriminate].
  destruct (sorted_b (ka_props a)); [|discriminate]. intros [= <-]. cbn. auto.
Qed.

(* The Go key is the pair (instance name string, marshalled platform).
   Given a marshaller that is injective on a set D of property lists, two
   accepted inputs in D give equal Go keys exactly when instance name and
   property list are equal; and the model's key equality decides the same. *)
Lemma key_equal_iff_on : forall (marshal : list prop -> string) (D : list prop -> Prop),
  (forall x y, D x -> D y -> marshal x = marshal y -> x = y) ->
  forall a b ka kb, build_key a = KOk ka -> build_key b = KOk kb -> D (ka_props a) -> D (ka_props b) ->
    ((join_slash (k_inst ka), marshal (k_plat ka)) = (join_slash (k_inst kb), marshal (k_plat kb))
       <-> (ka_inst a = ka_inst b /\ ka_props a = ka_props b)) /\
    (key_eqb ka kb = true <-> (ka_inst a = ka_inst b /\ ka_props a = ka_props b)).
Proof.
  intros marshal D Hinj a b ka kb Ha Hb Da Db.
  destruct (build_key_ok_inv _ _ Ha) as [Ha1 [Ha2 _]].
  destruct (build_key_ok_inv _ _ Hb) as [Hb1 [Hb2 _]].
  pose proof (spec_components_join _ _ Ha1) as Ja. pose proof (spec_components_join _ _ Hb1) as Jb.
  split.
  - rewrite Ja, Jb, Ha2, Hb2. split.
    + intros [= E1 E2]. split; [assumption|apply Hinj; assumption].
    + intros [-> ->]. reflexivity.
  - rewrite key_eqb_eq. split.
    + intros ->. split; congruence.
    + intros [E1 E2]. destruct ka, kb. cbn in *. f_equal; congruence.
Qed.

Lemma key_equal_iff : forall (marshal : list prop -> string),
  (forall x y, marshal x = marshal y -> x = y) ->
  forall a b ka kb, build_key a = KOk ka -> build_key b = KOk kb ->
    ((join_slash (k_inst ka), marshal (k_plat ka)) = (join_slash (k_inst kb), marshal (k_plat kb))
       <-> (ka_inst a = ka_inst b /\ ka_props a = ka_props b)) /\
    (key_eqb ka kb = true <-> (ka_inst a = ka_inst b /\ ka_props a = ka_props b)).
Proof.
  intros marshal Hinj a b ka kb Ha Hb.
  apply (key_equal_iff_on marshal (fun _ => True)); auto.
Qed.

(* ---- the canonical string is injective on quote-free strings ------------------------------ *)
Definition dquote : ascii := """"%char.
Fixpoint quote_free (s : string) : Prop :=
  match s with EmptyString => True | String c r => c <> dquote /\ quote_free r end.
Definition quote_free_props (ps : list prop) : Prop :=
  Forall (fun p => quote_free (fst p) /\ quote_free (snd p)) ps.

Lemma plain_char_not_quote : forall c, plain_char c = true -> c <> dquote.
Proof. intros c H ->. vm_compute in H. discriminate. Qed.

Lemma plain_string_quote_free : forall s, plain_string s = true -> quote_free s.
Proof.
  induction s as [|c r IH]; cbn; [trivial|]. intro H. apply andb_true_iff in H. destruct H as [H1 H2].
  split; [apply plain_char_not_quote; assumption|apply IH; assumption].
Qed.

Lemma plain_props_quote_free : forall ps, plain_props ps = true -> quote_free_props ps.
Proof.
  intros ps H. unfold plain_props in H. rewrite forallb_forall in H. apply Forall_forall. intros p Hp.
  specialize (H p Hp). apply andb_true_iff in H. destruct H. split; apply plain_string_quote_free; assumption.
Qed.

(* a quote-free string is delimited by the first quote *)
Lemma quote_split : forall n1 n2 k1 k2, quote_free n1 -> quote_free n2 ->
  n1 ++ String dquote k1 = n2 ++ String dquote k2 -> n1 = n2 /\ k1 = k2.
Proof.
  induction n1 as [|c n1 IH]; intros [|d n2] k1 k2 Q1 Q2 H; cbn in *.
  - injection H as ->. auto.
  - injection H as E _. exfalso. destruct Q2 as [Q2 _]. congruence.
  - injection H as E _. exfalso. destruct Q1 as [Q1 _]. congruence.
  - injection H as -> H. destruct Q1 as [_ Q1]. destruct Q2 as [_ Q2].
    destruct (IH _ _ _ Q1 Q2 H) as [-> ->]. auto.
Qed.
