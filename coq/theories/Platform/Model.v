(* Platform — executable model of the routing building blocks C05 names:

     pkg/scheduler/platform/key.go        NewKey, GetPlatformQueueName
     pkg/scheduler/platform/trie.go       Trie (Set/Remove/ContainsExact/GetExact/GetLongestPrefix)
     bb-storage pkg/digest/instance_name_trie.go   InstanceNameTrie (what Trie delegates to)
     bb-storage pkg/digest/instance_name.go        NewInstanceName (validation only)
     pkg/scheduler/routing/demultiplexing_action_router.go   RegisterActionRouter / RouteAction

   Written from the code.  The trie is a tree of nodes, each with an
   integer value (-1 = none) and a map of children (here: association
   list; a Go map has no order and no observable depends on one).  Remove
   is transcribed with its "edge to cut" bookkeeping (mapDelete /
   componentDelete), not as "delete the key".  A nil dereference in the Go
   code is a panic; here the operation returns None and the state is
   unchanged (the Go code panics before it mutates anything).

   No proofs in this file. *)
From Coq Require Import String Ascii List ZArith Bool.
Import ListNotations.
Open Scope string_scope.

(* ---- Go's comparison operators on strings (bytewise) --------------------- *)
Definition sgt (a b : string) : bool := match String.compare a b with Gt => true | _ => false end.
Definition sge (a b : string) : bool := match String.compare a b with Lt => false | _ => true end.

(* ---- instance names (bb-storage digest.NewInstanceName) ------------------- *)
Definition slash : ascii := "/"%char.

(* strings.Split(s, "/") : components, empty ones included *)
Fixpoint split_slash_acc (acc : string -> string) (s : string) : list string :=
  match s with
  | EmptyString => [acc EmptyString]
  | String a r => if Ascii.eqb a slash then acc EmptyString :: split_slash_acc (fun x => x) r
                  else split_slash_acc (fun x => acc (String a x)) r
  end.
Definition split_slash (s : string) : list string := split_slash_acc (fun x => x) s.

Definition starts_with_slash (s : string) : bool :=
  match s with String a _ => Ascii.eqb a slash | EmptyString => false end.
Fixpoint ends_with_slash (s : string) : bool :=
  match s with
  | EmptyString => false
  | String a EmptyString => Ascii.eqb a slash
  | String _ r => ends_with_slash r
  end.
Fixpoint contains_double_slash (s : string) : bool :=
  match s with
  | String a ((String b _) as r) => (Ascii.eqb a slash && Ascii.eqb b slash) || contains_double_slash r
  | _ => false
  end.

(* strings.FieldsFunc(value, r == '/') : the non-empty components *)
Definition fields_slash (s : string) : list string :=
  filter (fun c => negb (String.eqb c "")) (split_slash s).

Definition reserved_keywords : list string :=
  ["blobs"; "uploads"; "actions"; "actionResults"; "operations"; "capabilities"; "compressed-blobs"].
Definition is_reserved (c : string) : bool := existsb (String.eqb c) reserved_keywords.

(* NewInstanceName: None = InvalidArgument *)
Definition new_instance_name (s : string) : option (list string) :=
  if starts_with_slash s || ends_with_slash s || contains_double_slash s then None
  else let cs := fields_slash s in
       if existsb is_reserved cs then None else Some cs.

(* ---- platform keys (key.go) ----------------------------------------------- *)
Definition prop := (string * string)%type.   (* (name, value) *)

(* The loop of NewKey: reject when for some i
     properties[i-1].Name > properties[i].Name ||
     (properties[i-1].Name == properties[i].Name && properties[i-1].Value >= properties[i].Value) *)
Definition out_of_order (a b : prop) : bool :=
  sgt (fst a) (fst b) || (String.eqb (fst a) (fst b) && sge (snd a) (snd b)).

Fixpoint props_in_order (ps : list prop) : bool :=
  match ps with
  | a :: ((b :: _) as r) => negb (out_of_order a b) && props_in_order r
  | _ => true
  end.

(* Key{instanceNamePrefix, platform}.  The Go key holds two strings: the
   instance name and the JSON form of the Platform message.  The model
   keeps the component list and the property list; that the two strings
   determine them is Proofs.go_key_injective (instance name: proved; JSON:
   assumption on the marshaller, trusted base). *)
Record key := mkKey { k_inst : list string; k_plat : list prop }.

Definition new_key (inst : list string) (ps : list prop) : option key :=
  if props_in_order ps then Some (mkKey inst ps) else None.

Definition prop_eqb (a b : prop) : bool := String.eqb (fst a) (fst b) && String.eqb (snd a) (snd b).
Fixpoint list_eqb {A} (e : A -> A -> bool) (a b : list A) : bool :=
  match a, b with
  | [], [] => true
  | x :: a', y :: b' => e x y && list_eqb e a' b'
  | _, _ => false
  end.
Definition plat_eqb : list prop -> list prop -> bool := list_eqb prop_eqb.
Definition inst_eqb : list string -> list string -> bool := list_eqb String.eqb.
Definition key_eqb (a b : key) : bool := inst_eqb (k_inst a) (k_inst b) && plat_eqb (k_plat a) (k_plat b).

(* ---- the canonical platform string (jsonpb.Marshaler.MarshalToString) ----------
   Model of the library's output for strings that need no escaping ("plain":
   ASCII 0x20..0x7f other than the quote, the backslash and the characters
   encoding/json escapes for HTML: < > &).  Empty fields are omitted, an empty
   property list gives "{}".  Compared with GetPlatformString() only when
   every name and value is plain. *)
Definition plain_char (c : ascii) : bool :=
  let n := nat_of_ascii c in
  Nat.leb 32 n && Nat.ltb n 128 &&
  negb (Nat.eqb n 34 || Nat.eqb n 92 || Nat.eqb n 60 || Nat.eqb n 62 || Nat.eqb n 38).
Fixpoint plain_string (s : string) : bool :=
  match s with EmptyString => true | String c r => plain_char c && plain_string r end.
Definition plain_props (ps : list prop) : bool :=
  forallb (fun p => plain_string (fst p) && plain_string (snd p)) ps.

Definition marshal_property (p : prop) : string :=
  match fst p, snd p with
  | EmptyString, EmptyString => "{}"
  | n, EmptyString => "{""name"":""" ++ n ++ """}"
  | EmptyString, v => "{""value"":""" ++ v ++ """}"
  | n, v => "{""name"":""" ++ n ++ """,""value"":""" ++ v ++ """}"
  end.
Fixpoint marshal_properties (ps : list prop) : string :=
  match ps with
  | [] => ""
  | p :: r => match r with
              | [] => marshal_property p
              | _ => marshal_property p ++ "," ++ marshal_properties r
              end
  end.
Definition marshal_platform (ps : list prop) : string :=
  match ps with
  | [] => "{}"
  | _ => "{""properties"":[" ++ marshal_properties ps ++ "]}"
  end.

(* ---- InstanceNameTrie ------------------------------------------------------ *)
Inductive node := Node (value : Z) (children : clist)
with clist := CNil | CCons (c : string) (n : node) (rest : clist).

Definition n_value (n : node) : Z := match n with Node v _ => v end.
Definition n_children (n : node) : clist := match n with Node _ cs => cs end.
Definition empty_node : node := Node (-1) CNil.

Fixpoint c_find (c : string) (cs : clist) : option node :=
  match cs with
  | CNil => None
  | CCons c' n r => if String.eqb c c' then Some n else c_find c r
  end.
Fixpoint c_len (cs : clist) : nat :=
  match cs with CNil => O | CCons _ _ r => S (c_len r) end.
Fixpoint c_del (c : string) (cs : clist) : clist :=
  match cs with
  | CNil => CNil
  | CCons c' n r => if String.eqb c c' then c_del c r else CCons c' n (c_del c r)
  end.
(* m[c] = n *)
Fixpoint c_put (c : string) (n : node) (cs : clist) : clist :=
  match cs with
  | CNil => CCons c n CNil
  | CCons c' n' r => if String.eqb c c' then CCons c' n r else CCons c' n' (c_put c n r)
  end.

(* Set *)
Fixpoint n_set (p : list string) (v : Z) (n : node) : node :=
  match p with
  | [] => Node v (n_children n)
  | c :: r =>
    let nx := match c_find c (n_children n) with Some m => m | None => empty_node end in
    Node (n_value n) (c_put c (n_set r v nx) (n_children n))
  end.

(* GetExact *)
Fixpoint n_get_exact_loop (p : list string) (n : node) : Z :=
  match p with
  | [] => (-1)%Z    (* not reached: the loop is entered with a non-empty name *)
  | c :: r =>
    match r with
    | [] => match c_find c (n_children n) with
            | Some f => if (0 <=? n_value f)%Z then n_value f else (-1)%Z
            | None => (-1)%Z
            end
    | _ => match c_find c (n_children n) with
           | None => (-1)%Z
           | Some nx => n_get_exact_loop r nx
           end
    end
  end.
Definition n_get_exact (p : list string) (n : node) : Z :=
  match p with [] => n_value n | _ => n_get_exact_loop p n end.

(* GetLongestPrefix *)
Fixpoint n_glp_loop (p : list string) (n : node) (last : Z) : Z :=
  match p with
  | [] => last
  | c :: r =>
    match r with
    | [] => match c_find c (n_children n) with
            | Some f => if (0 <=? n_value f)%Z then n_value f else last
            | None => last
            end
    | _ => match c_find c (n_children n) with
           | None => last
           | Some nx => n_glp_loop r nx (if (0 <=? n_value nx)%Z then n_value nx else last)
           end
    end
  end.
Definition n_get_longest_prefix (p : list string) (n : node) : Z :=
  match p with [] => n_value n | _ => n_glp_loop p n (n_value n) end.

(* Remove.  The walk: at depth i, at node n, about to follow component c:
     if n.value >= 0 || len(n.children) > 1 || mapDelete == nil { mapDelete = n.children; componentDelete = c }
   mapDelete == nil holds in the first iteration only.  [cut] is the depth
   of the node whose children map is mapDelete.  Result: None = nil
   dereference; Some (cut, b) = depth of the edge to cut, and whether the
   final node has children. *)
Fixpoint n_remove_walk (p : list string) (n : node) (i cut : nat) : option (nat * bool) :=
  match p with
  | [] => None
  | c :: r =>
    let cut' := if (0 <=? n_value n)%Z || Nat.ltb 1 (c_len (n_children n)) || Nat.eqb i 0 then i else cut in
    match c_find c (n_children n) with
    | None => None
    | Some nx =>
      match r with
      | [] => Some (cut', negb (Nat.eqb (c_len (n_children nx)) 0))
      | _ => n_remove_walk r nx (S i) cut'
      end
    end
  end.

(* delete(mapDelete, componentDelete) with mapDelete the children of the node at depth d *)
Fixpoint n_cut (p : list string) (d : nat) (n : node) : node :=
  match p with
  | [] => n
  | c :: r =>
    match d with
    | O => Node (n_value n) (c_del c (n_children n))
    | S d' => match c_find c (n_children n) with
              | Some nx => Node (n_value n) (c_put c (n_cut r d' nx) (n_children n))
              | None => n
              end
    end
  end.

(* n.value = -1 at the node reached by p *)
Fixpoint n_clear (p : list string) (n : node) : node :=
  match p with
  | [] => Node (-1) (n_children n)
  | c :: r => match c_find c (n_children n) with
              | Some nx => Node (n_value n) (c_put c (n_clear r nx) (n_children n))
              | None => n
              end
  end.

(* Some (trie after, "the trie is now empty") *)
Definition n_remove (p : list string) (n : node) : option (node * bool) :=
  match p with
  | [] => Some (Node (-1) (n_children n), Nat.eqb (c_len (n_children n)) 0)
  | _ =>
    match n_remove_walk p n 0 0 with
    | None => None
    | Some (d, has_children) =>
      let n' := if has_children then n_clear p n else n_cut p d n in
      Some (n', (n_value n' <? 0)%Z && Nat.eqb (c_len (n_children n')) 0)
    end
  end.

(* ---- platform.Trie: map[platform string]*InstanceNameTrie ------------------- *)
Definition trie := list (list prop * node).

Fixpoint p_find (pl : list prop) (t : trie) : option node :=
  match t with
  | [] => None
  | (pl', n) :: r => if plat_eqb pl pl' then Some n else p_find pl r
  end.
Fixpoint p_del (pl : list prop) (t : trie) : trie :=
  match t with
  | [] => []
  | (pl', n) :: r => if plat_eqb pl pl' then p_del pl r else (pl', n) :: p_del pl r
  end.
Fixpoint p_put (pl : list prop) (n : node) (t : trie) : trie :=
  match t with
  | [] => [(pl, n)]
  | (pl', n') :: r => if plat_eqb pl pl' then (pl', n) :: r else (pl', n') :: p_put pl n r
  end.

Definition t_get_exact (k : key) (t : trie) : Z :=
  match p_find (k_plat k) t with Some n => n_get_exact (k_inst k) n | None => (-1)%Z end.
Definition t_contains_exact (k : key) (t : trie) : bool :=
  match p_find (k_plat k) t with Some n => (0 <=? n_get_exact (k_inst k) n)%Z | None => false end.
Definition t_get_longest_prefix (k : key) (t : trie) : Z :=
  match p_find (k_plat k) t with Some n => n_get_longest_prefix (k_inst k) n | None => (-1)%Z end.
Definition t_set (k : key) (v : Z) (t : trie) : trie :=
  let n := match p_find (k_plat k) t with Some n => n | None => empty_node end in
  p_put (k_plat k) (n_set (k_inst k) v n) t.
(* None = panic (t.platforms[key.platform] is nil, or a nil node below) *)
Definition t_remove (k : key) (t : trie) : option trie :=
  match p_find (k_plat k) t with
  | None => None
  | Some n =>
    match n_remove (k_inst k) n with
    | None => None
    | Some (n', empty) => Some (if empty then p_del (k_plat k) t else p_put (k_plat k) n' t)
    end
  end.

(* ---- DemultiplexingActionRouter ------------------------------------------- *)
(* entries[0] is the default router; r_n = len(entries).  Backends are
   identified by their index in entries. *)
Record router := mkRouter { r_trie : trie; r_n : nat }.
Definition router_init : router := mkRouter [] 1.

Inductive reg_out := RegOk | RegInvalid | RegExists.

Definition r_register (inst : list string) (ps : list prop) (r : router) : router * reg_out :=
  match new_key inst ps with
  | None => (r, RegInvalid)
  | Some k =>
    if t_contains_exact k (r_trie r) then (r, RegExists)
    else (mkRouter (t_set k (Z.of_nat (r_n r) - 1) (r_trie r)) (S (r_n r)), RegOk)
  end.

(* index into entries: GetLongestPrefix(key) + 1 *)
Definition r_route_index (k : key) (r : router) : Z := (t_get_longest_prefix k (r_trie r) + 1)%Z.

(* ---- histories ---------------------------------------------------------------- *)
(* A key argument as the harness supplies it: instance name string and
   property list.  Ops whose key cannot be built are no-ops (the harness
   does not call the trie then); the router ops report the error. *)
Record karg := mkKA { ka_inst : string; ka_props : list prop }.

Inductive key_class := KBadInstance | KUnsorted | KOk (k : key).
Definition build_key (a : karg) : key_class :=
  match new_instance_name (ka_inst a) with
  | None => KBadInstance
  | Some cs => match new_key cs (ka_props a) with None => KUnsorted | Some k => KOk k end
  end.

Inductive op :=
| ONewKey (a : karg)
| OKeyEq (a b : karg)
| OSet (a : karg) (v : Z)
| ORemove (a : karg)
| OContains (a : karg)
| OGetExact (a : karg)
| OGetLongest (a : karg)
| ORegister (a : karg)
| ORoute (a : karg).

Inductive out :=
| XNone                                   (* key could not be built / no output *)
| XKeyBadInstance
| XKeyUnsorted
| XKeyOk (inst : string) (ps : list prop) (js : string) (* GetPlatformQueueName round trip, GetPlatformString *)
| XBool (b : bool)
| XInt (v : Z)
| XPanic
| XDone
| XReg (r : reg_out)
| XRouteErr                               (* the key extractor failed *)
| XRoute (backend : Z).

Record state := mkState { s_trie : trie; s_router : router }.
Definition init : state := mkState [] router_init.

Definition join_slash (cs : list string) : string := String.concat "/" cs.

Definition step (s : state) (o : op) : state * out :=
  match o with
  | ONewKey a =>
    (s, match build_key a with
        | KBadInstance => XKeyBadInstance
        | KUnsorted => XKeyUnsorted
        | KOk k => XKeyOk (join_slash (k_inst k)) (k_plat k) (marshal_platform (k_plat k))
        end)
  | OKeyEq a b =>
    (s, match build_key a, build_key b with
        | KOk ka, KOk kb => XBool (key_eqb ka kb)
        | _, _ => XNone
        end)
  | OSet a v =>
    match build_key a with
    | KOk k => (mkState (t_set k v (s_trie s)) (s_router s), XDone)
    | _ => (s, XNone)
    end
  | ORemove a =>
    match build_key a with
    | KOk k => match t_remove k (s_trie s) with
               | Some t' => (mkState t' (s_router s), XDone)
               | None => (s, XPanic)
               end
    | _ => (s, XNone)
    end
  | OContains a =>
    (s, match build_key a with KOk k => XBool (t_contains_exact k (s_trie s)) | _ => XNone end)
  | OGetExact a =>
    (s, match build_key a with KOk k => XInt (t_get_exact k (s_trie s)) | _ => XNone end)
  | OGetLongest a =>
    (s, match build_key a with KOk k => XInt (t_get_longest_prefix k (s_trie s)) | _ => XNone end)
  | ORegister a =>
    match new_instance_name (ka_inst a) with
    | None => (s, XNone)
    | Some cs => let '(r', x) := r_register cs (ka_props a) (s_router s) in
                 (mkState (s_trie s) r', XReg x)
    end
  | ORoute a =>
    (s, match build_key a with
        | KOk k => XRoute (r_route_index k (s_router s))
        | _ => XRouteErr
        end)
  end.

Fixpoint run (s : state) (ops : list op) : state :=
  match ops with [] => s | o :: r => run (fst (step s o)) r end.

Fixpoint trace (s : state) (ops : list op) : list out :=
  match ops with [] => [] | o :: r => snd (step s o) :: trace (fst (step s o)) r end.

(* output equality (for Corr) *)
Definition reg_out_eqb (a b : reg_out) : bool :=
  match a, b with RegOk, RegOk | RegInvalid, RegInvalid | RegExists, RegExists => true | _, _ => false end.
Definition out_eqb (a b : out) : bool :=
  match a, b with
  | XNone, XNone | XKeyBadInstance, XKeyBadInstance | XKeyUnsorted, XKeyUnsorted
  | XPanic, XPanic | XDone, XDone | XRouteErr, XRouteErr => true
  (* b is the model's output; the platform string is determined for plain strings only *)
  | XKeyOk i p js, XKeyOk i' p' js' =>
    String.eqb i i' && plat_eqb p p' && (negb (plain_props p') || String.eqb js js')
  | XBool x, XBool y => Bool.eqb x y
  | XInt x, XInt y => Z.eqb x y
  | XReg x, XReg y => reg_out_eqb x y
  | XRoute x, XRoute y => Z.eqb x y
  | _, _ => false
  end.
