(* C05, Platform area — the property theorems, and nothing else.
   Model.v: NewKey, platform.Trie over InstanceNameTrie, DemultiplexingActionRouter.
   Spec.v: reference finite map, [longest], [p_step]/[trace_ok], [ops_ok]. *)
From Coq Require Import String List ZArith Bool Sorting.Sorted.
From VF Require Import Platform.Model Platform.Spec Platform.Proofs Platform.ProofsRef
  Platform.ProofsTrie Platform.ProofsHist Platform.ProofsJson.
Import ListNotations.
Open Scope string_scope.

(* ---- keys ------------------------------------------------------------------------- *)

(* NewKey accepts a property list exactly when it is strictly sorted by
   (name, value) — in particular it has no duplicate pair — and the key it
   returns holds the instance name and the properties it was given. *)
Theorem new_key_accepts_iff_sorted : forall inst ps,
  ((exists k, new_key inst ps = Some k) <-> StronglySorted prop_lt ps) /\
  (forall k, new_key inst ps = Some k -> k = mkKey inst ps).
Proof. exact Proofs.new_key_accepts_iff_sorted. Qed.
Print Assumptions new_key_accepts_iff_sorted.

Theorem sorted_properties_have_no_duplicates : forall ps, StronglySorted prop_lt ps -> NoDup ps.
Proof. exact StronglySorted_NoDup. Qed.
Print Assumptions sorted_properties_have_no_duplicates.

(* The Go key is (instance name string, marshalled platform).  For every
   injective marshaller (trusted base: jsonpb.Marshaler on Platform
   messages), two accepted inputs yield equal Go keys iff they have the same
   instance name and the same property list; the model's key equality
   decides exactly that. *)
Theorem key_equal_iff_same_prefix_and_properties : forall (marshal : list prop -> string),
  (forall x y, marshal x = marshal y -> x = y) ->
  forall a b ka kb, build_key a = KOk ka -> build_key b = KOk kb ->
    ((join_slash (k_inst ka), marshal (k_plat ka)) = (join_slash (k_inst kb), marshal (k_plat kb))
       <-> (ka_inst a = ka_inst b /\ ka_props a = ka_props b)) /\
    (key_eqb ka kb = true <-> (ka_inst a = ka_inst b /\ ka_props a = ka_props b)).
Proof. exact key_equal_iff. Qed.
Print Assumptions key_equal_iff_same_prefix_and_properties.

(* The canonical string the model attributes to jsonpb (compared with
   GetPlatformString() by the correspondence run whenever every name and
   value is plain) is injective on property lists without double quotes,
   so for those the assumption above is discharged: *)
Theorem canonical_string_injective : forall ps1 ps2,
  quote_free_props ps1 -> quote_free_props ps2 ->
  marshal_platform ps1 = marshal_platform ps2 -> ps1 = ps2.
Proof. exact marshal_platform_inj. Qed.
Print Assumptions canonical_string_injective.

Theorem plain_is_quote_free : forall ps, plain_props ps = true -> quote_free_props ps.
Proof. exact plain_props_quote_free. Qed.
Print Assumptions plain_is_quote_free.

Theorem key_equal_canonical_string : forall a b ka kb, build_key a = KOk ka -> build_key b = KOk kb ->
  quote_free_props (ka_props a) -> quote_free_props (ka_props b) ->
  ((join_slash (k_inst ka), marshal_platform (k_plat ka)) = (join_slash (k_inst kb), marshal_platform (k_plat kb))
     <-> (ka_inst a = ka_inst b /\ ka_props a = ka_props b)).
Proof. exact key_equal_canonical. Qed.
Print Assumptions key_equal_canonical_string.

(* NewInstanceName (prefix / suffix / double slash test, FieldsFunc,
   reserved keywords) accepts exactly the '/'-joined lists of non-empty,
   non-reserved components, and joining the components gives the name back
   (GetPlatformQueueName round trip). *)
Theorem instance_name_components : forall s,
  new_instance_name s = spec_components s /\
  forall cs, spec_components s = Some cs ->
    join_slash cs = s /\ Forall (fun c => c <> "" /\ ~ In c spec_reserved) cs.
Proof.
  intro s. split; [apply new_instance_name_spec|].
  intros cs H. split; [apply spec_components_join|apply spec_components_valid with s]; exact H.
Qed.
Print Assumptions instance_name_components.

(* ---- the reference: longest registered prefix -------------------------------------- *)

(* [slongest m (inst, pl)] is the value registered for a prefix q of inst
   under platform pl such that no longer prefix of inst is registered
   under pl; such a q is unique; and it is None exactly when no prefix of
   inst is registered under pl. *)
Theorem longest_prefix_unique_and_maximal : forall (m : smap) inst pl,
  (forall v, slongest m (inst, pl) = Some v <->
     exists q, is_prefix String.eqb q inst = true /\ sget (q, pl) m = Some v /\
       forall q', is_prefix String.eqb q' inst = true -> sget (q', pl) m <> None ->
         List.length q' <= List.length q) /\
  (slongest m (inst, pl) = None <->
     forall q, is_prefix String.eqb q inst = true -> sget (q, pl) m = None) /\
  (forall q1 q2,
     is_prefix String.eqb q1 inst = true -> sget (q1, pl) m <> None ->
     is_prefix String.eqb q2 inst = true -> sget (q2, pl) m <> None ->
     List.length q1 = List.length q2 -> q1 = q2).
Proof.
  intros m inst pl. split; [|split].
  - intro v. apply (longest_iff String.eqb String.eqb_eq inst (fun q => sget (q, pl) m) v).
  - apply (longest_none_iff String.eqb String.eqb_eq inst (fun q => sget (q, pl) m)).
  - intros q1 q2 H1 _ H2 _ Hl. exact (is_prefix_same_length String.eqb String.eqb_eq _ _ _ H1 H2 Hl).
Qed.
Print Assumptions longest_prefix_unique_and_maximal.

(* ---- the trie ------------------------------------------------------------------------- *)

(* After any history of Set (values >= 0) and Remove — including Removes
   of keys that are not there, which panic in the Go code and leave the
   trie as it was — GetExact, ContainsExact and GetLongestPrefix answer as
   the reference finite map does, and Remove of a registered key does not
   panic. *)
Theorem trie_refines_map : forall ops, Forall top_ok ops ->
  let t := fold_left t_apply ops [] in
  let m := fold_left m_apply ops [] in
  forall k,
    t_get_exact k t = dflt (sget (skey_of k) m) /\
    t_contains_exact k t = is_some (sget (skey_of k) m) /\
    t_get_longest_prefix k t = dflt (slongest m (skey_of k)) /\
    (sget (skey_of k) m <> None -> t_remove k t <> None).
Proof. exact ProofsHist.trie_refines_map. Qed.
Print Assumptions trie_refines_map.

(* Set followed by Remove of a key that was not registered: no panic, and
   every lookup of every key answers as before. *)
Theorem remove_restores : forall ops k v, Forall top_ok ops -> (0 <= v)%Z ->
  let t := fold_left t_apply ops [] in
  t_contains_exact k t = false ->
  exists t', t_remove k (t_set k v t) = Some t' /\
    forall q, t_get_exact q t' = t_get_exact q t /\
              t_contains_exact q t' = t_contains_exact q t /\
              t_get_longest_prefix q t' = t_get_longest_prefix q t.
Proof. exact ProofsHist.remove_restores. Qed.
Print Assumptions remove_restores.

(* ---- the demultiplexing router ----------------------------------------------------------- *)

(* After any history of registrations, RouteAction indexes entries[] at the
   backend registered for the longest registered instance name prefix with
   equal platform (0 = the default backend when there is none), and the
   index is in range. *)
Theorem demux_routes_to_longest_prefix : forall ops k,
  let r := fold_left r_apply ops router_init in
  let st := fold_left rr_apply ops ([], 1%Z) in
  r_route_index k r = route_ref (fst st) (skey_of k) /\
  (0 <= r_route_index k r < Z.of_nat (r_n r))%Z.
Proof. exact ProofsHist.demux_routes_to_longest_prefix. Qed.
Print Assumptions demux_routes_to_longest_prefix.

(* RegisterActionRouter: InvalidArgument iff the properties are not
   strictly sorted, AlreadyExists iff the same (prefix, platform) was
   registered before, else accepted. *)
Theorem demux_register_result : forall ops i ps,
  let r := fold_left r_apply ops router_init in
  let st := fold_left rr_apply ops ([], 1%Z) in
  snd (r_register i ps r) =
    if sorted_b ps then match sget (i, ps) (fst st) with Some _ => RegExists | None => RegOk end
    else RegInvalid.
Proof. exact ProofsHist.demux_register_result. Qed.
Print Assumptions demux_register_result.

(* ---- the monitor is the proved predicate ---------------------------------------------------- *)

(* Corr.v evaluates Spec.p_step on the implementation's trace; every trace
   of the model satisfies it. *)
Theorem monitor_holds_on_model : forall ops, ops_ok ops -> trace_ok ops (trace init ops) = true.
Proof. exact ProofsHist.monitor_holds_on_model. Qed.
Print Assumptions monitor_holds_on_model.

(* ---- non-vacuity ---------------------------------------------------------------------------- *)
Definition ex_lin : list prop := [("arch", "arm"); ("os", "linux")].
Definition ex_ops : list op :=
  [ OSet (mkKA "a" ex_lin) 0; OSet (mkKA "a/b/c" ex_lin) 1; OSet (mkKA "" []) 2;
    OGetLongest (mkKA "a/b" ex_lin); OGetLongest (mkKA "a/b/c/d" ex_lin); OGetLongest (mkKA "x" ex_lin);
    OGetLongest (mkKA "x" []); ORemove (mkKA "a/b/c" ex_lin); OGetLongest (mkKA "a/b/c/d" ex_lin);
    ORemove (mkKA "a/b/c" ex_lin); ORemove (mkKA "a" ex_lin); OContains (mkKA "a" ex_lin);
    ONewKey (mkKA "a//b" []); ONewKey (mkKA "a" [("os", "linux"); ("arch", "arm")]);
    ONewKey (mkKA "a" [("os", "linux"); ("os", "linux")]); ONewKey (mkKA "a/b" [("", "x"); ("arch", ""); ("os", "linux")]);
    ORegister (mkKA "a" ex_lin); ORegister (mkKA "a/b" ex_lin); ORegister (mkKA "a" ex_lin);
    ORoute (mkKA "a/b/c" ex_lin); ORoute (mkKA "a" ex_lin); ORoute (mkKA "b" ex_lin); ORoute (mkKA "a/b" []) ].

Example ex_trace : trace init ex_ops =
  [ XDone; XDone; XDone; XInt 0; XInt 1; XInt (-1); XInt 2; XDone; XInt 0; XPanic; XDone; XBool false;
    XKeyBadInstance; XKeyUnsorted; XKeyUnsorted;
    XKeyOk "a/b" [("", "x"); ("arch", ""); ("os", "linux")]
      "{""properties"":[{""value"":""x""},{""name"":""arch""},{""name"":""os"",""value"":""linux""}]}";
    XReg RegOk; XReg RegOk; XReg RegExists; XRoute 2; XRoute 1; XRoute 0; XRoute 0 ].
Proof. vm_compute. reflexivity. Qed.

Example ex_ops_ok : ops_ok ex_ops.
Proof. repeat constructor; cbn; discriminate. Qed.

(* Remove really cuts the trie back: after the history above the
   per-platform trie of ex_lin is gone and only "" under [] is left *)
Example ex_final_trie : s_trie (run init ex_ops) = [([], Node 2 CNil)].
Proof. vm_compute. reflexivity. Qed.

(* the monitor rejects a trace with a wrong longest-prefix answer *)
Example ex_monitor_rejects :
  trace_ok [OSet (mkKA "a" []) 0; OSet (mkKA "a/b" []) 1; OGetLongest (mkKA "a/b/c" [])] [XDone; XDone; XInt 0] = false.
Proof. vm_compute. reflexivity. Qed.
