(* Platform — the canonical platform string (Model.marshal_platform: the
   jsonpb output for strings that need no escaping) is injective on
   property lists whose strings contain no double quote. *)
From Coq Require Import String Ascii List Bool.
From VF Require Import Platform.Model Platform.Spec Platform.Proofs.
Import ListNotations.
Open Scope string_scope.

Lemma sapp_assoc : forall a b c : string, (a ++ b) ++ c = a ++ (b ++ c).
Proof. induction a as [|x a IH]; intros b c; cbn; [reflexivity|]. rewrite IH. reflexivity. Qed.

Lemma sapp_cancel_l : forall p x y : string, p ++ x = p ++ y -> x = y.
Proof. induction p as [|c p IH]; intros x y H; cbn in H; [assumption|]. injection H as H. apply IH. assumption. Qed.

(* marshal_property p ++ s in a form where every field is followed by its closing quote *)
Definition F1 (n K : string) : string := "{""name"":""" ++ (n ++ String dquote K).
Definition F2 (v K : string) : string := "{""value"":""" ++ (v ++ String dquote K).
Definition FV (v K : string) : string := ",""value"":""" ++ (v ++ String dquote K).

Lemma mp_form : forall n v s,
  marshal_property (n, v) ++ s =
  match n, v with
  | EmptyString, EmptyString => "{}" ++ s
  | String _ _, EmptyString => F1 n ("}" ++ s)
  | EmptyString, String _ _ => F2 v ("}" ++ s)
  | String _ _, String _ _ => F1 n (FV v ("}" ++ s))
  end.
Proof.
  intros n v s. unfold marshal_property, F1, F2, FV, dquote. cbn [fst snd].
  destruct n as [|a n]; destruct v as [|b v]; rewrite ?sapp_assoc; reflexivity.
Qed.

Lemma F1_inj : forall n1 n2 K1 K2, quote_free n1 -> quote_free n2 -> F1 n1 K1 = F1 n2 K2 -> n1 = n2 /\ K1 = K2.
Proof. intros n1 n2 K1 K2 Q1 Q2 H. unfold F1 in H. apply sapp_cancel_l in H. apply quote_split; assumption. Qed.
Lemma F2_inj : forall n1 n2 K1 K2, quote_free n1 -> quote_free n2 -> F2 n1 K1 = F2 n2 K2 -> n1 = n2 /\ K1 = K2.
Proof. intros n1 n2 K1 K2 Q1 Q2 H. unfold F2 in H. apply sapp_cancel_l in H. apply quote_split; assumption. Qed.
Lemma FV_inj : forall n1 n2 K1 K2, quote_free n1 -> quote_free n2 -> FV n1 K1 = FV n2 K2 -> n1 = n2 /\ K1 = K2.
Proof. intros n1 n2 K1 K2 Q1 Q2 H. unfold FV in H. apply sapp_cancel_l in H. apply quote_split; assumption. Qed.

Lemma marshal_property_inj : forall p1 p2 s1 s2,
  quote_free (fst p1) -> quote_free (snd p1) -> quote_free (fst p2) -> quote_free (snd p2) ->
  marshal_property p1 ++ s1 = marshal_property p2 ++ s2 -> p1 = p2 /\ s1 = s2.
Proof.
  intros [n1 v1] [n2 v2] s1 s2 Qn1 Qv1 Qn2 Qv2 H. cbn [fst snd] in *.
  rewrite !mp_form in H.
  destruct n1 as [|a1 n1]; destruct v1 as [|b1 v1]; destruct n2 as [|a2 n2]; destruct v2 as [|b2 v2];
    try (unfold F1, F2, FV in H; cbn in H; discriminate H).
  - apply sapp_cancel_l in H. subst. auto.
  - destruct (F2_inj _ _ _ _ Qv1 Qv2 H) as [E1 E2]. apply (sapp_cancel_l "}") in E2. subst. rewrite E1. auto.
  - destruct (F1_inj _ _ _ _ Qn1 Qn2 H) as [E1 E2]. apply (sapp_cancel_l "}") in E2. subst. rewrite E1. auto.
  - destruct (F1_inj _ _ _ _ Qn1 Qn2 H) as [E1 E2]. unfold FV in E2. cbn in E2. discriminate E2.
  - destruct (F1_inj _ _ _ _ Qn1 Qn2 H) as [E1 E2]. unfold FV in E2. cbn in E2. discriminate E2.
  - destruct (F1_inj _ _ _ _ Qn1 Qn2 H) as [E1 E2].
    destruct (FV_inj _ _ _ _ Qv1 Qv2 E2) as [E3 E4]. apply (sapp_cancel_l "}") in E4. subst. rewrite E1, E3. auto.
Qed.

Lemma mps_form : forall p r t,
  marshal_properties (p :: r) ++ t =
  marshal_property p ++ match r with [] => t | _ => "," ++ (marshal_properties r ++ t) end.
Proof.
  intros p r t. destruct r as [|q r]; [reflexivity|].
  change (marshal_properties (p :: q :: r)) with (marshal_property p ++ "," ++ marshal_properties (q :: r)).
  rewrite !sapp_assoc. reflexivity.
Qed.

Lemma marshal_properties_inj : forall ps1 ps2 t1 t2,
  ps1 <> [] -> ps2 <> [] -> quote_free_props ps1 -> quote_free_props ps2 ->
  marshal_properties ps1 ++ String "]" t1 = marshal_properties ps2 ++ String "]" t2 ->
  ps1 = ps2 /\ t1 = t2.
Proof.
  induction ps1 as [|p1 r1 IH]; intros [|p2 r2] t1 t2 N1 N2 Q1 Q2 H; try contradiction.
  rewrite !mps_form in H.
  inversion Q1 as [|? ? [Qa Qb] Q1']; subst. inversion Q2 as [|? ? [Qc Qd] Q2']; subst.
  destruct (marshal_property_inj _ _ _ _ Qa Qb Qc Qd H) as [-> Hr].
  destruct r1 as [|q1 r1]; destruct r2 as [|q2 r2].
  - injection Hr as ->. auto.
  - cbn in Hr. discriminate Hr.
  - cbn in Hr. discriminate Hr.
  - apply (sapp_cancel_l ",") in Hr.
    assert (M1 : q1 :: r1 <> []) by discriminate. assert (M2 : q2 :: r2 <> []) by discriminate.
    destruct (IH (q2 :: r2) t1 t2 M1 M2 Q1' Q2' Hr) as [E ->]. rewrite E. auto.
Qed.

Lemma marshal_platform_inj : forall ps1 ps2, quote_free_props ps1 -> quote_free_props ps2 ->
  marshal_platform ps1 = marshal_platform ps2 -> ps1 = ps2.
Proof.
  intros ps1 ps2 Q1 Q2 H. unfold marshal_platform in H.
  destruct ps1 as [|p1 r1]; destruct ps2 as [|p2 r2]; try reflexivity; try (cbn in H; discriminate H).
  apply sapp_cancel_l in H.
  change "]}" with (String "]" "}") in H.
  assert (M1 : p1 :: r1 <> []) by discriminate. assert (M2 : p2 :: r2 <> []) by discriminate.
  destruct (marshal_properties_inj _ _ _ _ M1 M2 Q1 Q2 H) as [E _]. exact E.
Qed.

(* with the modelled marshaller, on quote-free (in particular: plain) property lists *)
Lemma key_equal_canonical : forall a b ka kb, build_key a = KOk ka -> build_key b = KOk kb ->
  quote_free_props (ka_props a) -> quote_free_props (ka_props b) ->
  ((join_slash (k_inst ka), marshal_platform (k_plat ka)) = (join_slash (k_inst kb), marshal_platform (k_plat kb))
     <-> (ka_inst a = ka_inst b /\ ka_props a = ka_props b)).
Proof.
  intros a b ka kb Ha Hb Qa Qb.
  apply (key_equal_iff_on marshal_platform quote_free_props marshal_platform_inj a b ka kb Ha Hb Qa Qb).
Qed.
