(* Platform — platform.Trie refines the reference map over all Set/Remove
   histories; the demultiplexing router; the monitor holds on every model
   trace. *)
From Coq Require Import String List ZArith Bool Lia.
From VF Require Import Platform.Model Platform.Spec Platform.Proofs Platform.ProofsRef Platform.ProofsTrie.
Import ListNotations.
Open Scope string_scope.

(* ---- the reference map at strings / property lists ---------------------------------- *)
Definition skey_of (k : key) : skey := (k_inst k, k_plat k).

Lemma sget_set_same : forall k v m, sget k (sset k v m) = Some v.
Proof. apply (ref_get_set_same String.eqb plat_eqb String.eqb_eq plat_eqb_eq). Qed.
Lemma sget_set_other : forall k k' v m, k' <> k -> sget k' (sset k v m) = sget k' m.
Proof. apply (ref_get_set_other String.eqb plat_eqb String.eqb_eq plat_eqb_eq). Qed.
Lemma sget_del_same : forall k m, sget k (sdel k m) = None.
Proof. apply (ref_get_del_same String.eqb plat_eqb). Qed.
Lemma sget_del_other : forall k k' m, k' <> k -> sget k' (sdel k m) = sget k' m.
Proof. apply (ref_get_del_other String.eqb plat_eqb String.eqb_eq plat_eqb_eq). Qed.

(* ---- the platforms map ----------------------------------------------------------------- *)
Lemma p_find_put_same : forall pl n t, p_find pl (p_put pl n t) = Some n.
Proof.
  intros pl n. induction t as [|[pl' n'] r IH]; cbn.
  - rewrite plat_eqb_refl. reflexivity.
  - destruct (plat_eqb pl pl') eqn:E; cbn; rewrite E; [reflexivity|exact IH].
Qed.

Lemma p_find_put_other : forall pl pl' n t, pl' <> pl -> p_find pl' (p_put pl n t) = p_find pl' t.
Proof.
  intros pl pl' n t Hne. induction t as [|[pl2 n2] r IH]; cbn.
  - rewrite (plat_eqb_neq pl' pl Hne). reflexivity.
  - destruct (plat_eqb pl pl2) eqn:E; cbn.
    + apply plat_eqb_eq in E. subst pl2. rewrite (plat_eqb_neq pl' pl Hne). reflexivity.
    + rewrite IH. reflexivity.
Qed.

Lemma p_find_del_same : forall pl t, p_find pl (p_del pl t) = None.
Proof.
  intros pl. induction t as [|[pl' n'] r IH]; cbn; [reflexivity|].
  destruct (plat_eqb pl pl') eqn:E; [exact IH|]. cbn. rewrite E. exact IH.
Qed.

Lemma p_find_del_other : forall pl pl' t, pl' <> pl -> p_find pl' (p_del pl t) = p_find pl' t.
Proof.
  intros pl pl' t Hne. induction t as [|[pl2 n2] r IH]; cbn; [reflexivity|].
  destruct (plat_eqb pl pl2) eqn:E.
  - apply plat_eqb_eq in E. subst pl2. rewrite (plat_eqb_neq pl' pl Hne). exact IH.
  - cbn. rewrite IH. reflexivity.
Qed.

(* ---- value stored per key ------------------------------------------------------------------ *)
Definition t_val (k : key) (t : trie) : option Z :=
  match p_find (k_plat k) t with Some n => n_val (k_inst k) n | None => None end.

(* every per-platform root holds -1 or an index *)
Definition t_inv (t : trie) : Prop := forall pl n, p_find pl t = Some n -> (-1 <= n_value n)%Z.

Lemma t_inv_nil : t_inv [].
Proof. intros pl n H. discriminate. Qed.

Lemma n_val_nonneg : forall p n v, n_val p n = Some v -> (0 <= v)%Z.
Proof.
  induction p as [|c r IH]; intros n v H; cbn in H.
  - destruct (0 <=? n_value n)%Z eqn:E; [|discriminate]. injection H as <-. apply Z.leb_le. assumption.
  - destruct (c_find c (n_children n)); [eapply IH; eassumption|discriminate].
Qed.

Lemma key_neq_cases : forall q k : key, q <> k ->
  k_plat q <> k_plat k \/ (k_plat q = k_plat k /\ k_inst q <> k_inst k).
Proof.
  intros [qi qp] [ki kp] H. cbn.
  destruct (plat_eqb qp kp) eqn:E.
  - apply plat_eqb_eq in E. subst. right. split; [reflexivity|]. congruence.
  - left. intros ->. rewrite plat_eqb_refl in E. discriminate.
Qed.

(* Set *)
Lemma t_val_set_same : forall k v t, (0 <= v)%Z -> t_val k (t_set k v t) = Some v.
Proof. intros. unfold t_val, t_set. rewrite p_find_put_same. apply n_val_set_same. assumption. Qed.

Lemma t_val_set_other : forall k q v t, q <> k -> t_val q (t_set k v t) = t_val q t.
Proof.
  intros k q v t Hne. unfold t_val, t_set.
  destruct (key_neq_cases q k Hne) as [Hp|[Hp Hi]].
  - rewrite p_find_put_other by assumption. reflexivity.
  - rewrite Hp, p_find_put_same, n_val_set_other by assumption.
    destruct (p_find (k_plat k) t); [reflexivity|apply n_val_empty].
Qed.

Lemma t_inv_set : forall k v t, (0 <= v)%Z -> t_inv t -> t_inv (t_set k v t).
Proof.
  intros k v t Hv Hinv pl n. unfold t_set.
  destruct (plat_eqb pl (k_plat k)) eqn:E.
  - apply plat_eqb_eq in E. subst pl. rewrite p_find_put_same. intros [= <-].
    apply n_value_set; [assumption|].
    destruct (p_find (k_plat k) t) as [m|] eqn:Ef; [exact (Hinv _ _ Ef)|cbn; lia].
  - rewrite p_find_put_other; [apply Hinv|]. intros ->. rewrite plat_eqb_refl in E. discriminate.
Qed.

(* Remove *)
Lemma t_remove_vals : forall k t t', t_remove k t = Some t' ->
  t_val k t' = None /\ (forall q, q <> k -> t_val q t' = t_val q t) /\ (t_inv t -> t_inv t').
Proof.
  intros k t t' H. unfold t_remove in H.
  destruct (p_find (k_plat k) t) as [n|] eqn:Ef; [|discriminate].
  destruct (n_remove (k_inst k) n) as [[n' e]|] eqn:Er; [|discriminate].
  destruct (n_remove_vals _ _ _ _ Er) as [H1 [H2 [H3 H4]]].
  injection H as <-. destruct e.
  - split; [unfold t_val; rewrite p_find_del_same; reflexivity|]. split.
    + intros q Hne. unfold t_val. destruct (key_neq_cases q k Hne) as [Hp|[Hp Hi]].
      * rewrite p_find_del_other by assumption. reflexivity.
      * rewrite Hp, p_find_del_same, Ef. rewrite <- (H2 _ Hi). symmetry. apply H3. reflexivity.
    + intros Hinv pl m. destruct (plat_eqb pl (k_plat k)) eqn:E.
      * apply plat_eqb_eq in E. subst pl. rewrite p_find_del_same. discriminate.
      * rewrite p_find_del_other; [apply Hinv|]. intros ->. rewrite plat_eqb_refl in E. discriminate.
  - split; [unfold t_val; rewrite p_find_put_same; assumption|]. split.
    + intros q Hne. unfold t_val. destruct (key_neq_cases q k Hne) as [Hp|[Hp Hi]].
      * rewrite p_find_put_other by assumption. reflexivity.
      * rewrite Hp, p_find_put_same, Ef. apply H2. assumption.
    + intros Hinv pl m. destruct (plat_eqb pl (k_plat k)) eqn:E.
      * apply plat_eqb_eq in E. subst pl. rewrite p_find_put_same. intros [= <-]. apply H4. exact (Hinv _ _ Ef).
      * rewrite p_find_put_other; [apply Hinv|]. intros ->. rewrite plat_eqb_refl in E. discriminate.
Qed.

Lemma t_remove_no_panic : forall k t, t_val k t <> None -> t_remove k t <> None.
Proof.
  intros k t Hv. unfold t_val in Hv. unfold t_remove.
  destruct (p_find (k_plat k) t) as [n|]; [|contradiction].
  pose proof (n_remove_no_panic _ _ Hv) as Hn.
  destruct (n_remove (k_inst k) n) as [[n' e]|]; [discriminate|contradiction].
Qed.

(* lookups *)
Lemma t_get_exact_val : forall k t, t_inv t -> t_get_exact k t = dflt (t_val k t).
Proof.
  intros k t Hinv. unfold t_get_exact, t_val.
  destruct (p_find (k_plat k) t) as [n|] eqn:Ef; [|reflexivity].
  apply n_get_exact_val. exact (Hinv _ _ Ef).
Qed.

Lemma t_contains_exact_val : forall k t, t_inv t -> t_contains_exact k t = is_some (t_val k t).
Proof.
  intros k t Hinv. unfold t_contains_exact, t_val.
  destruct (p_find (k_plat k) t) as [n|] eqn:Ef; [|reflexivity].
  rewrite n_get_exact_val by exact (Hinv _ _ Ef).
  destruct (n_val (k_inst k) n) as [v|] eqn:Ev; cbn; [|reflexivity].
  apply Z.leb_le. eapply n_val_nonneg. eassumption.
Qed.

Lemma t_get_longest_prefix_val : forall k t, t_inv t ->
  t_get_longest_prefix k t =
  dflt (longest (fun q => t_val (mkKey q (k_plat k)) t) (k_inst k)).
Proof.
  intros k t Hinv. unfold t_get_longest_prefix, t_val. cbn [k_plat k_inst].
  destruct (p_find (k_plat k) t) as [n|] eqn:Ef.
  - apply n_get_longest_prefix_val. exact (Hinv _ _ Ef).
  - rewrite longest_none_const. reflexivity.
Qed.

(* ---- refinement relation ------------------------------------------------------------------------- *)
Definition refines (t : trie) (m : smap) : Prop :=
  forall i pl, t_val (mkKey i pl) t = sget (i, pl) m.

Lemma refines_key : forall t m k, refines t m -> t_val k t = sget (skey_of k) m.
Proof. intros t m [i pl] H. apply H. Qed.

Lemma refines_nil : refines [] [].
Proof. intros i pl. reflexivity. Qed.

Lemma skey_of_inj : forall a b, skey_of a = skey_of b -> a = b.
Proof. intros [i1 p1] [i2 p2]. unfold skey_of. cbn. intros [= -> ->]. reflexivity. Qed.

Lemma refines_set : forall t m k v, (0 <= v)%Z -> refines t m -> refines (t_set k v t) (sset (skey_of k) v m).
Proof.
  intros t m k v Hv H i pl.
  destruct (key_eqb (mkKey i pl) k) eqn:E.
  - apply key_eqb_eq in E. subst k. rewrite t_val_set_same by assumption.
    symmetry. apply sget_set_same.
  - assert (Hne : mkKey i pl <> k) by (intros <-; rewrite (proj2 (key_eqb_eq _ _) eq_refl) in E; discriminate).
    rewrite t_val_set_other by assumption.
    rewrite sget_set_other; [apply H|]. intro Heq. apply Hne. apply skey_of_inj. exact Heq.
Qed.

Lemma refines_remove : forall t t' m k, t_remove k t = Some t' -> refines t m -> refines t' (sdel (skey_of k) m).
Proof.
  intros t t' m k Hr H i pl. destruct (t_remove_vals _ _ _ Hr) as [H1 [H2 _]].
  destruct (key_eqb (mkKey i pl) k) eqn:E.
  - apply key_eqb_eq in E. subst k. rewrite H1. symmetry. apply sget_del_same.
  - assert (Hne : mkKey i pl <> k) by (intros <-; rewrite (proj2 (key_eqb_eq _ _) eq_refl) in E; discriminate).
    rewrite H2 by assumption.
    rewrite sget_del_other; [apply H|]. intro Heq. apply Hne. apply skey_of_inj. exact Heq.
Qed.

(* a Remove that panics removed nothing, and nothing was registered *)
Lemma refines_remove_panic : forall t m k, t_remove k t = None -> refines t m -> refines t (sdel (skey_of k) m).
Proof.
  intros t m k Hr H i pl.
  assert (Hk : t_val k t = None).
  { destruct (t_val k t) eqn:Ev; [|reflexivity]. exfalso. apply (t_remove_no_panic k t); [congruence|assumption]. }
  destruct (key_eqb (mkKey i pl) k) eqn:E.
  - apply key_eqb_eq in E. subst k. rewrite Hk. symmetry. apply sget_del_same.
  - assert (Hne : mkKey i pl <> k) by (intros <-; rewrite (proj2 (key_eqb_eq _ _) eq_refl) in E; discriminate).
    rewrite sget_del_other; [apply H|]. intro Heq. apply Hne. apply skey_of_inj. exact Heq.
Qed.

Lemma refines_lookups : forall t m k, t_inv t -> refines t m ->
  t_get_exact k t = dflt (sget (skey_of k) m) /\
  t_contains_exact k t = is_some (sget (skey_of k) m) /\
  t_get_longest_prefix k t = dflt (slongest m (skey_of k)).
Proof.
  intros t m k Hinv H.
  rewrite t_get_exact_val, t_contains_exact_val, t_get_longest_prefix_val by assumption.
  rewrite (refines_key _ _ _ H). split; [reflexivity|]. split; [reflexivity|].
  unfold slongest, ref_longest. cbn [fst snd skey_of]. f_equal.
  apply (longest_ext String.eqb String.eqb_eq). intros q _. apply H.
Qed.

(* ---- trie histories ----------------------------------------------------------------------------------- *)
Inductive top := TSet (k : key) (v : Z) | TRemove (k : key).
Definition top_ok (o : top) : Prop := match o with TSet _ v => (0 <= v)%Z | TRemove _ => True end.

(* a panicking Remove leaves the trie as it was *)
Definition t_apply (t : trie) (o : top) : trie :=
  match o with
  | TSet k v => t_set k v t
  | TRemove k => match t_remove k t with Some t' => t' | None => t end
  end.
Definition m_apply (m : smap) (o : top) : smap :=
  match o with
  | TSet k v => sset (skey_of k) v m
  | TRemove k => sdel (skey_of k) m
  end.

Lemma apply_refines : forall t m o, top_ok o -> t_inv t -> refines t m ->
  t_inv (t_apply t o) /\ refines (t_apply t o) (m_apply m o).
Proof.
  intros t m [k v|k] Hok Hinv H; cbn.
  - split; [apply t_inv_set; assumption|apply refines_set; assumption].
  - destruct (t_remove k t) as [t'|] eqn:Er.
    + split; [apply (t_remove_vals _ _ _ Er); assumption|eapply refines_remove; eassumption].
    + split; [assumption|apply refines_remove_panic; assumption].
Qed.

Lemma history_refines : forall ops t m, Forall top_ok ops -> t_inv t -> refines t m ->
  t_inv (fold_left t_apply ops t) /\ refines (fold_left t_apply ops t) (fold_left m_apply ops m).
Proof.
  induction ops as [|o ops IH]; intros t m Hok Hinv H; cbn; [split; assumption|].
  inversion Hok as [|? ? Ho Hops]; subst.
  destruct (apply_refines t m o Ho Hinv H) as [Hinv' H']. apply IH; assumption.
Qed.

Lemma trie_refines_map : forall ops, Forall top_ok ops ->
  let t := fold_left t_apply ops [] in
  let m := fold_left m_apply ops [] in
  forall k,
    t_get_exact k t = dflt (sget (skey_of k) m) /\
    t_contains_exact k t = is_some (sget (skey_of k) m) /\
    t_get_longest_prefix k t = dflt (slongest m (skey_of k)) /\
    (sget (skey_of k) m <> None -> t_remove k t <> None).
Proof.
  intros ops Hok t m k.
  destruct (history_refines ops [] [] Hok t_inv_nil refines_nil) as [Hinv H].
  destruct (refines_lookups _ _ k Hinv H) as [H1 [H2 H3]].
  repeat split; try assumption.
  intro Hs. apply t_remove_no_panic. rewrite (refines_key _ _ _ H). assumption.
Qed.

(* Set then Remove of a key that was not registered: no panic, and every lookup answers as before *)
Lemma remove_restores : forall ops k v, Forall top_ok ops -> (0 <= v)%Z ->
  let t := fold_left t_apply ops [] in
  t_contains_exact k t = false ->
  exists t', t_remove k (t_set k v t) = Some t' /\
    forall q, t_get_exact q t' = t_get_exact q t /\
              t_contains_exact q t' = t_contains_exact q t /\
              t_get_longest_prefix q t' = t_get_longest_prefix q t.
Proof.
  intros ops k v Hok Hv t Hc.
  destruct (history_refines ops [] [] Hok t_inv_nil refines_nil) as [Hinv H].
  fold t in Hinv, H.
  assert (Hk : t_val k t = None).
  { rewrite t_contains_exact_val in Hc by assumption. destruct (t_val k t); [discriminate|reflexivity]. }
  destruct (t_remove k (t_set k v t)) as [t'|] eqn:Er.
  2:{ exfalso. apply (t_remove_no_panic k (t_set k v t)); [|assumption].
      rewrite t_val_set_same by assumption. discriminate. }
  exists t'. split; [reflexivity|].
  destruct (t_remove_vals _ _ _ Er) as [H1 [H2 H3]].
  assert (Hinv' : t_inv t') by (apply H3; apply t_inv_set; assumption).
  assert (Hvals : forall q, t_val q t' = t_val q t).
  { intro q. destruct (key_eqb q k) eqn:E.
    - apply key_eqb_eq in E. subst q. congruence.
    - assert (Hne : q <> k) by (intros ->; rewrite (proj2 (key_eqb_eq _ _) eq_refl) in E; discriminate).
      rewrite H2 by assumption. apply t_val_set_other. assumption. }
  intro q.
  rewrite !t_get_exact_val, !t_contains_exact_val, !t_get_longest_prefix_val by assumption.
  rewrite Hvals. split; [reflexivity|]. split; [reflexivity|]. f_equal.
  apply (longest_ext String.eqb String.eqb_eq). intros p _. apply Hvals.
Qed.

(* ---- the demultiplexing router --------------------------------------------------------------------------- *)
(* mr: registered (key -> backend id), ids 1.. in order of registration; mn: next id = len(entries) *)
Definition r_rel (r : router) (mr : smap) (mn : Z) : Prop :=
  (forall i pl, t_val (mkKey i pl) (r_trie r) = option_map (fun id => id - 1)%Z (sget (i, pl) mr)) /\
  t_inv (r_trie r) /\
  Z.of_nat (r_n r) = mn /\ (1 <= mn)%Z /\
  (forall k id, sget k mr = Some id -> (1 <= id < mn)%Z).

Lemma r_rel_init : r_rel router_init [] 1.
Proof.
  split; [intros; reflexivity|]. split; [apply t_inv_nil|]. split; [reflexivity|]. split; [lia|].
  intros k id H. discriminate.
Qed.

Lemma r_contains : forall r mr mn k, r_rel r mr mn ->
  t_contains_exact k (r_trie r) = is_some (sget (skey_of k) mr).
Proof.
  intros r mr mn [i pl] [H1 [H2 _]]. rewrite t_contains_exact_val by assumption.
  rewrite H1. unfold skey_of. cbn. destruct (sget (i, pl) mr); reflexivity.
Qed.

Lemma r_register_rel : forall r mr mn k, r_rel r mr mn -> sget (skey_of k) mr = None ->
  r_rel (mkRouter (t_set k (Z.of_nat (r_n r) - 1) (r_trie r)) (S (r_n r))) (sset (skey_of k) mn mr) (mn + 1).
Proof.
  intros r mr mn k [H1 [H2 [H3 [H5 H4]]]] Hnone.
  assert (Hv : (0 <= Z.of_nat (r_n r) - 1)%Z) by lia.
  split; [|split; [|split; [|split]]]; cbn [r_trie r_n].
  - intros i pl. destruct (key_eqb (mkKey i pl) k) eqn:E.
    + apply key_eqb_eq in E. subst k. rewrite t_val_set_same by assumption.
      unfold skey_of. cbn [k_inst k_plat]. rewrite sget_set_same. cbn. f_equal. lia.
    + assert (Hne : mkKey i pl <> k) by (intros <-; rewrite (proj2 (key_eqb_eq _ _) eq_refl) in E; discriminate).
      rewrite t_val_set_other by assumption.
      rewrite sget_set_other; [apply H1|]. intro Heq. apply Hne. apply skey_of_inj. exact Heq.
  - apply t_inv_set; assumption.
  - lia.
  - lia.
  - intros k' id Hg. destruct (skey_eqb k' (skey_of k)) eqn:E.
    + apply (rkey_eqb_eq String.eqb plat_eqb String.eqb_eq plat_eqb_eq) in E. subst k'.
      rewrite sget_set_same in Hg. injection Hg as <-. lia.
    + assert (Hne : k' <> skey_of k).
      { intros ->. unfold skey_eqb in E. rewrite (rkey_eqb_refl String.eqb plat_eqb String.eqb_eq plat_eqb_eq) in E. discriminate. }
      rewrite sget_set_other in Hg by assumption. specialize (H4 _ _ Hg). lia.
Qed.

Definition route_ref (mr : smap) (k : skey) : Z := match slongest mr k with Some id => id | None => 0%Z end.

Lemma r_route_rel : forall r mr mn k, r_rel r mr mn ->
  r_route_index k r = route_ref mr (skey_of k) /\ (0 <= r_route_index k r < Z.of_nat (r_n r))%Z.
Proof.
  intros r mr mn k [H1 [H2 [H3 [H5 H4]]]]. unfold r_route_index, route_ref.
  rewrite t_get_longest_prefix_val by assumption.
  rewrite (longest_ext String.eqb String.eqb_eq (k_inst k) _
             (fun q => option_map (fun id => (id - 1)%Z) (sget (q, k_plat k) mr))) by (intros q _; apply H1).
  rewrite longest_map. unfold slongest, ref_longest, skey_of, sget. cbn [fst snd].
  destruct (longest (fun q => ref_get String.eqb plat_eqb (q, k_plat k) mr) (k_inst k)) as [id|] eqn:El; cbn.
  - split; [lia|].
    destruct (longest_some String.eqb String.eqb_eq _ _ _ El) as [q [_ [Hq _]]].
    specialize (H4 _ _ Hq). lia.
  - split; [reflexivity|lia].
Qed.

(* ---- router histories -------------------------------------------------------------------------------------- *)
Inductive rop := RRegister (inst : list string) (ps : list prop) | RRoute (k : key).

(* the model: outputs are the registration result / the index into entries *)
Definition r_apply (r : router) (o : rop) : router :=
  match o with RRegister i ps => fst (r_register i ps r) | RRoute _ => r end.

(* the reference: the accepted registrations in order, backend ids 1, 2, ... *)
Definition rr_apply (st : smap * Z) (o : rop) : smap * Z :=
  match o with
  | RRegister i ps =>
    if sorted_b ps then
      match sget (i, ps) (fst st) with
      | Some _ => st
      | None => (sset (i, ps) (snd st) (fst st), (snd st + 1)%Z)
      end
    else st
  | RRoute _ => st
  end.

Lemma r_apply_rel : forall r st o, r_rel r (fst st) (snd st) ->
  r_rel (r_apply r o) (fst (rr_apply st o)) (snd (rr_apply st o)).
Proof.
  intros r [mr mn] [i ps|k] H; cbn [fst snd] in H; cbn [r_apply rr_apply fst snd]; [|assumption].
  unfold r_register. rewrite new_key_spec. destruct (sorted_b ps); [|assumption].
  rewrite (r_contains _ _ _ (mkKey i ps) H). unfold skey_of. cbn [k_inst k_plat].
  destruct (sget (i, ps) mr) eqn:Eg; cbn [is_some fst snd]; [assumption|].
  apply (r_register_rel r mr mn (mkKey i ps) H). exact Eg.
Qed.

Lemma r_history_rel : forall ops r st, r_rel r (fst st) (snd st) ->
  r_rel (fold_left r_apply ops r) (fst (fold_left rr_apply ops st)) (snd (fold_left rr_apply ops st)).
Proof.
  induction ops as [|o ops IH]; intros r st H; cbn; [assumption|]. apply IH. apply r_apply_rel. assumption.
Qed.

Lemma demux_routes_to_longest_prefix : forall ops k,
  let r := fold_left r_apply ops router_init in
  let st := fold_left rr_apply ops ([], 1%Z) in
  r_route_index k r = route_ref (fst st) (skey_of k) /\
  (0 <= r_route_index k r < Z.of_nat (r_n r))%Z.
Proof.
  intros ops k r st. apply (r_route_rel r (fst st) (snd st)).
  apply (r_history_rel ops router_init ([], 1%Z)). exact r_rel_init.
Qed.

Lemma demux_register_result : forall ops i ps,
  let r := fold_left r_apply ops router_init in
  let st := fold_left rr_apply ops ([], 1%Z) in
  snd (r_register i ps r) =
    if sorted_b ps then match sget (i, ps) (fst st) with Some _ => RegExists | None => RegOk end
    else RegInvalid.
Proof.
  intros ops i ps r st.
  assert (H : r_rel r (fst st) (snd st)) by (apply (r_history_rel ops router_init ([], 1%Z)); exact r_rel_init).
  unfold r_register. rewrite new_key_spec. destruct (sorted_b ps); [|reflexivity].
  rewrite (r_contains _ _ _ (mkKey i ps) H). unfold skey_of. cbn [k_inst k_plat].
  destruct (sget (i, ps) (fst st)); reflexivity.
Qed.

(* ---- the monitor holds on every model trace ------------------------------------------------------------------ *)
Definition rel (s : state) (m : mon) : Prop :=
  refines (s_trie s) (m_trie m) /\ t_inv (s_trie s) /\ r_rel (s_router s) (m_router m) (m_n m).

Lemma rel_init : rel init mon_init.
Proof. split; [apply refines_nil|]. split; [apply t_inv_nil|apply r_rel_init]. Qed.

Ltac same_rel := split; [reflexivity|split; [assumption|split; assumption]].

Lemma step_monitor : forall s m o, rel s m -> op_ok o ->
  fst (p_step m o (snd (step s o))) = "" /\ rel (fst (step s o)) (snd (p_step m o (snd (step s o)))).
Proof.
  intros s m o [Hr [Hinv Hrr]] Hok.
  destruct o as [a|a b|a v|a|a|a|a|a|a]; cbn [step p_step].
  - (* NewKey *)
    rewrite build_key_spec. unfold spec_key.
    destruct (spec_components (ka_inst a)) as [cs|] eqn:Ec; cbn; [|same_rel].
    destruct (sorted_b (ka_props a)) eqn:Es; cbn [fst snd k_inst k_plat].
    + rewrite (spec_components_join _ _ Ec), String.eqb_refl, plat_eqb_refl, String.eqb_refl, orb_true_r. cbn.
      same_rel.
    + same_rel.
  - (* KeyEq *)
    rewrite !build_key_spec.
    destruct (spec_key a) as [| |ka]; destruct (spec_key b) as [| |kb]; cbn [fst snd];
      try (same_rel).
    assert (E : key_eqb (mkKey (fst ka) (snd ka)) (mkKey (fst kb) (snd kb)) = skey_eqb ka kb) by reflexivity.
    rewrite E. destruct (skey_eqb ka kb); cbn; (same_rel).
  - (* Set *)
    rewrite build_key_spec. destruct (spec_key a) as [| |k]; cbn [fst snd];
      try (same_rel).
    split; [reflexivity|]. cbn in Hok. split; [|split]; cbn [s_trie s_router m_trie m_router m_n].
    + apply (refines_set _ _ (mkKey (fst k) (snd k)) v Hok) in Hr. destruct k. exact Hr.
    + apply t_inv_set; assumption.
    + assumption.
  - (* Remove *)
    rewrite build_key_spec. destruct (spec_key a) as [| |k]; cbn [fst snd];
      try (same_rel).
    destruct (t_remove (mkKey (fst k) (snd k)) (s_trie s)) as [t'|] eqn:Er; cbn [fst snd].
    + split; [reflexivity|]. split; [|split]; cbn [s_trie s_router m_trie m_router m_n].
      * apply (refines_remove _ _ _ _ Er) in Hr. destruct k. exact Hr.
      * apply (t_remove_vals _ _ _ Er). assumption.
      * assumption.
    + assert (Hk : sget k (m_trie m) = None).
      { destruct (sget k (m_trie m)) eqn:Eg; [|reflexivity]. exfalso.
        apply (t_remove_no_panic (mkKey (fst k) (snd k)) (s_trie s)); [|assumption].
        rewrite (refines_key _ _ _ Hr). unfold skey_of. cbn. destruct k. cbn. congruence. }
      rewrite Hk. cbn. split; [reflexivity|]. split; [|split]; cbn [s_trie s_router m_trie m_router m_n]; try assumption.
      apply (refines_remove_panic _ _ _ Er) in Hr. destruct k. exact Hr.
  - (* ContainsExact *)
    rewrite build_key_spec. destruct (spec_key a) as [| |k]; cbn [fst snd];
      try (same_rel).
    destruct (refines_lookups _ _ (mkKey (fst k) (snd k)) Hinv Hr) as [_ [H2 _]].
    rewrite H2. unfold skey_of. cbn [k_inst k_plat]. destruct k as [i pl]. cbn [fst snd].
    rewrite Bool.eqb_reflx. same_rel.
  - (* GetExact *)
    rewrite build_key_spec. destruct (spec_key a) as [| |k]; cbn [fst snd];
      try (same_rel).
    destruct (refines_lookups _ _ (mkKey (fst k) (snd k)) Hinv Hr) as [H1 _].
    rewrite H1. unfold skey_of. cbn [k_inst k_plat]. destruct k as [i pl]. cbn [fst snd].
    rewrite Z.eqb_refl. same_rel.
  - (* GetLongestPrefix *)
    rewrite build_key_spec. destruct (spec_key a) as [| |k]; cbn [fst snd];
      try (same_rel).
    destruct (refines_lookups _ _ (mkKey (fst k) (snd k)) Hinv Hr) as [_ [_ H3]].
    rewrite H3. unfold skey_of. cbn [k_inst k_plat]. destruct k as [i pl]. cbn [fst snd].
    rewrite Z.eqb_refl. same_rel.
  - (* Register *)
    rewrite new_instance_name_spec.
    destruct (spec_components (ka_inst a)) as [cs|] eqn:Ec; cbn [fst snd];
      [|same_rel].
    unfold r_register. rewrite new_key_spec.
    destruct (sorted_b (ka_props a)) eqn:Es; cbn [fst snd]; [|same_rel].
    rewrite (r_contains _ _ _ (mkKey cs (ka_props a)) Hrr). unfold skey_of. cbn [k_inst k_plat].
    destruct (sget (cs, ka_props a) (m_router m)) eqn:Eg; cbn [is_some fst snd];
      [same_rel|].
    split; [reflexivity|]. split; [|split]; cbn [s_trie s_router m_trie m_router m_n]; try assumption.
    apply (r_register_rel _ _ _ (mkKey cs (ka_props a)) Hrr). exact Eg.
  - (* Route *)
    rewrite build_key_spec. destruct (spec_key a) as [| |k]; cbn [fst snd];
      try (same_rel).
    destruct (r_route_rel _ _ _ (mkKey (fst k) (snd k)) Hrr) as [H1 _].
    rewrite H1. unfold route_ref, skey_of. cbn [k_inst k_plat]. destruct k as [i pl]. cbn [fst snd].
    rewrite Z.eqb_refl. same_rel.
Qed.

Lemma monitor_from : forall ops s m, rel s m -> ops_ok ops -> trace_ok_from m ops (trace s ops) = true.
Proof.
  induction ops as [|o ops IH]; intros s m Hrel Hok; [reflexivity|].
  inversion Hok as [|? ? Ho Hops]; subst.
  destruct (step_monitor s m o Hrel Ho) as [Hk Hrel'].
  cbn [trace trace_ok_from].
  destruct (p_step m o (snd (step s o))) as [k m'] eqn:Ep. cbn [fst snd] in *.
  subst k. cbn. apply IH; assumption.
Qed.

Lemma monitor_holds_on_model : forall ops, ops_ok ops -> trace_ok ops (trace init ops) = true.
Proof. intros ops Hok. apply monitor_from; [apply rel_init|assumption]. Qed.
