(* Platform — the reference map and [longest], generically. *)
From Coq Require Import List Bool Lia.
From VF Require Import Platform.Model Platform.Spec.
Import ListNotations.

Section RefProofs.
  Context {C P V : Type} (ceqb : C -> C -> bool) (peqb : P -> P -> bool).
  Hypothesis ceqb_eq : forall x y, ceqb x y = true <-> x = y.
  Hypothesis peqb_eq : forall x y, peqb x y = true <-> x = y.

  Notation rkey := (@rkey C P).
  Notation rmap := (@rmap C P V).
  Notation rkey_eqb := (rkey_eqb ceqb peqb).
  Notation ref_get := (@ref_get C P V ceqb peqb).
  Notation ref_del := (@ref_del C P V ceqb peqb).
  Notation is_prefix := (is_prefix ceqb).

  Lemma clist_eqb_eq : forall a b : list C, list_eqb ceqb a b = true <-> a = b.
  Proof.
    induction a as [|x a IH]; intros [|y b]; cbn; try (split; congruence).
    rewrite andb_true_iff, ceqb_eq, IH. split; [intros [-> ->]; reflexivity|intros [= -> ->]; auto].
  Qed.

  Lemma rkey_eqb_eq : forall a b : rkey, rkey_eqb a b = true <-> a = b.
  Proof.
    intros [i1 p1] [i2 p2]. unfold Spec.rkey_eqb. cbn. rewrite andb_true_iff, clist_eqb_eq, peqb_eq.
    split; [intros [-> ->]; reflexivity|intros [= -> ->]; auto].
  Qed.

  Lemma rkey_eqb_refl : forall a : rkey, rkey_eqb a a = true.
  Proof. intro a. apply rkey_eqb_eq. reflexivity. Qed.

  Lemma rkey_eqb_neq : forall a b : rkey, a <> b -> rkey_eqb a b = false.
  Proof. intros a b H. destruct (rkey_eqb a b) eqn:E; [|reflexivity]. apply rkey_eqb_eq in E. contradiction. Qed.

  (* ---- get / set / del ------------------------------------------------------- *)
  Lemma ref_get_set_same : forall k v (m : rmap), ref_get k (ref_set k v m) = Some v.
  Proof. intros. unfold ref_set. cbn. rewrite rkey_eqb_refl. reflexivity. Qed.

  Lemma ref_get_set_other : forall k k' v (m : rmap), k' <> k -> ref_get k' (ref_set k v m) = ref_get k' m.
  Proof. intros. unfold ref_set. cbn. rewrite rkey_eqb_neq by assumption. reflexivity. Qed.

  Lemma ref_get_del_same : forall k (m : rmap), ref_get k (ref_del k m) = None.
  Proof.
    intros k. induction m as [|[k' v] m IH]; [reflexivity|]. cbn.
    destruct (rkey_eqb k k') eqn:E; [exact IH|]. cbn. rewrite E. exact IH.
  Qed.

  Lemma ref_get_del_other : forall k k' (m : rmap), k' <> k -> ref_get k' (ref_del k m) = ref_get k' m.
  Proof.
    intros k k' m Hne. induction m as [|[k2 v] m IH]; [reflexivity|]. cbn.
    destruct (rkey_eqb k k2) eqn:E.
    - apply rkey_eqb_eq in E. subst k2. rewrite (rkey_eqb_neq k' k Hne). exact IH.
    - cbn. rewrite IH. reflexivity.
  Qed.

  Lemma ref_get_app_one : forall k k' v (m : rmap),
    ref_get k' (m ++ [(k, v)]) =
    match ref_get k' m with Some x => Some x | None => if rkey_eqb k' k then Some v else None end.
  Proof.
    intros k k' v. induction m as [|[k2 v2] m IH]; [reflexivity|]. cbn.
    destruct (rkey_eqb k' k2); [reflexivity|exact IH].
  Qed.

  (* ---- prefixes ----------------------------------------------------------------- *)
  Lemma is_prefix_refl : forall a, is_prefix a a = true.
  Proof. induction a as [|x a IH]; [reflexivity|]. cbn. rewrite IH, (proj2 (ceqb_eq x x) eq_refl). reflexivity. Qed.

  Lemma is_prefix_iff : forall a b, is_prefix a b = true <-> exists r, b = a ++ r.
  Proof.
    induction a as [|x a IH]; intros b.
    - split; [intros _; exists b; reflexivity|reflexivity].
    - destruct b as [|y b]; cbn.
      + split; [discriminate|intros [r H]; discriminate].
      + rewrite andb_true_iff, ceqb_eq, IH. split.
        * intros [-> [r ->]]. exists r. reflexivity.
        * intros [r [= -> ->]]. split; [reflexivity|exists r; reflexivity].
  Qed.

  Lemma is_prefix_length : forall a b, is_prefix a b = true -> length a <= length b.
  Proof. intros a b H. apply is_prefix_iff in H. destruct H as [r ->]. rewrite app_length. lia. Qed.

  (* two prefixes of one list of the same length are equal *)
  Lemma is_prefix_same_length : forall a b l,
    is_prefix a l = true -> is_prefix b l = true -> length a = length b -> a = b.
  Proof.
    induction a as [|x a IH]; intros [|y b] l Ha Hb Hl; cbn in Hl; try discriminate; [reflexivity|].
    destruct l as [|z l]; [discriminate|]. cbn in Ha, Hb.
    apply andb_true_iff in Ha. apply andb_true_iff in Hb. destruct Ha as [Ea Ha]. destruct Hb as [Eb Hb].
    apply ceqb_eq in Ea. apply ceqb_eq in Eb. subst. f_equal. eapply IH; eauto.
  Qed.

  (* ---- longest --------------------------------------------------------------------- *)
  Lemma longest_ext : forall p (f g : list C -> option V),
    (forall q, is_prefix q p = true -> f q = g q) -> longest f p = longest g p.
  Proof.
    induction p as [|c p IH]; intros f g H; cbn.
    - apply H. reflexivity.
    - rewrite (IH (fun q => f (c :: q)) (fun q => g (c :: q))).
      + rewrite (H []) by reflexivity. reflexivity.
      + intros q Hq. apply H. cbn. rewrite Hq, (proj2 (ceqb_eq c c) eq_refl). reflexivity.
  Qed.

  Lemma longest_none_const : forall p, longest (fun _ : list C => @None V) p = None.
  Proof. induction p as [|c p IH]; [reflexivity|]. cbn. rewrite IH. reflexivity. Qed.

  Lemma longest_map : forall (W : Type) (h : V -> W) p (f : list C -> option V),
    longest (fun q => option_map h (f q)) p = option_map h (longest f p).
  Proof.
    intros W h. induction p as [|c p IH]; intro f; cbn; [reflexivity|].
    rewrite (IH (fun q => f (c :: q))). destruct (longest (fun q => f (c :: q)) p); reflexivity.
  Qed.

  (* what [longest] returns: registered for a prefix, and no longer prefix is registered *)
  Definition is_longest (f : list C -> option V) (p q : list C) (v : V) : Prop :=
    is_prefix q p = true /\ f q = Some v /\
    forall q', is_prefix q' p = true -> f q' <> None -> length q' <= length q.

  Lemma longest_none : forall p (f : list C -> option V), longest f p = None -> forall q, is_prefix q p = true -> f q = None.
  Proof.
    induction p as [|c p IH]; intros f H q Hq; cbn in H.
    - destruct q; [assumption|discriminate].
    - destruct (longest (fun q => f (c :: q)) p) eqn:El; [discriminate|].
      destruct q as [|x q]; [assumption|].
      cbn in Hq. apply andb_true_iff in Hq. destruct Hq as [Ex Hq]. apply ceqb_eq in Ex. subst x.
      exact (IH _ El q Hq).
  Qed.

  Lemma longest_some : forall p f v, longest f p = Some v -> exists q, is_longest f p q v.
  Proof.
    induction p as [|c p IH]; intros f v H; cbn in H.
    - exists []. split; [reflexivity|]. split; [assumption|].
      intros [|x q'] Hq _; [cbn; lia|discriminate].
    - destruct (longest (fun q => f (c :: q)) p) as [w|] eqn:El.
      + injection H as ->. destruct (IH _ _ El) as [q [H1 [H2 H3]]].
        exists (c :: q). split; [cbn; rewrite H1, (proj2 (ceqb_eq c c) eq_refl); reflexivity|].
        split; [assumption|].
        intros [|x q'] Hq Hf; [cbn; lia|]. cbn in Hq. apply andb_true_iff in Hq. destruct Hq as [Ex Hq].
        apply ceqb_eq in Ex. subst x. cbn. apply le_n_S. apply H3; assumption.
      + exists []. split; [reflexivity|]. split; [assumption|].
        intros [|x q'] Hq Hf; [cbn; lia|]. exfalso.
        cbn in Hq. apply andb_true_iff in Hq. destruct Hq as [Ex Hq]. apply ceqb_eq in Ex. subst x.
        exact (Hf (longest_none _ _ El q' Hq)).
  Qed.

  Lemma is_longest_unique : forall f p q1 v1 q2 v2,
    is_longest f p q1 v1 -> is_longest f p q2 v2 -> q1 = q2 /\ v1 = v2.
  Proof.
    intros f p q1 v1 q2 v2 [A1 [A2 A3]] [B1 [B2 B3]].
    assert (Hl : length q1 = length q2).
    { apply PeanoNat.Nat.le_antisymm; [apply B3|apply A3]; try assumption; congruence. }
    pose proof (is_prefix_same_length _ _ _ A1 B1 Hl) as E. subst q2. split; [reflexivity|congruence].
  Qed.

  Lemma longest_iff : forall p f v, longest f p = Some v <-> exists q, is_longest f p q v.
  Proof.
    intros p f v. split; [apply longest_some|].
    intros [q Hq]. destruct (longest f p) as [w|] eqn:El.
    - destruct (longest_some _ _ _ El) as [q' Hq']. destruct (is_longest_unique _ _ _ _ _ _ Hq Hq') as [_ ->]. reflexivity.
    - destruct Hq as [H1 [H2 _]]. rewrite (longest_none _ _ El q H1) in H2. discriminate.
  Qed.

  Lemma longest_none_iff : forall p (f : list C -> option V), longest f p = None <-> forall q, is_prefix q p = true -> f q = None.
  Proof.
    intros p f. split; [apply longest_none|].
    intro H. destruct (longest f p) as [w|] eqn:El; [|reflexivity].
    destruct (longest_some _ _ _ El) as [q [H1 [H2 _]]]. rewrite (H q H1) in H2. discriminate.
  Qed.
End RefProofs.
