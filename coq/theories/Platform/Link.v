(* Platform — link to the scheduler model.  Sched/Steps.v abstracts
   platformQueuesTrie.GetLongestPrefix as [longest_prefix_pq]: a fold over
   the list of platform queues that keeps the matching queue with the
   longest instance name prefix.  This file shows that it computes exactly
   the reference function of this area ([Spec.ref_longest], the function
   the trie model is proved to implement) on the registered platform
   queues.  Sched files are only imported. *)
From Coq Require Import List NArith Bool Lia.
From VF Require Import Platform.Spec Platform.ProofsRef.
From VF Require Import Sched.Types Sched.Model Sched.Steps.
Import ListNotations.
Open Scope nat_scope.

Definition pq_rkey (p : pq) : @Platform.Spec.rkey N N := (pk_prefix (p_key p), pk_plat (p_key p)).
(* the registered platform queues as a finite map: key of the queue -> the queue *)
Definition pq_map (l : list pq) : @Platform.Spec.rmap N N pq := map (fun p => (pq_rkey p, p)) l.

Definition ref_pq (l : list pq) (plat : N) (inst : list N) : option pq :=
  Platform.Spec.ref_longest N.eqb N.eqb (pq_map l) (inst, plat).

Notation rget := (Platform.Spec.ref_get N.eqb N.eqb).
Notation rpre := (Platform.Spec.is_prefix N.eqb).

Lemma is_prefix_same : forall a b, Sched.Model.is_prefix a b = rpre a b.
Proof.
  induction a as [|x a IH]; intros [|y b]; cbn; reflexivity.
Qed.

Lemma pq_map_get_key : forall l k b, rget k (pq_map l) = Some b -> pq_rkey b = k.
Proof.
  induction l as [|p l IH]; intros k b H; [discriminate|]. cbn in H.
  destruct (Platform.Spec.rkey_eqb N.eqb N.eqb k (pq_rkey p)) eqn:E.
  - injection H as <-. symmetry. apply (rkey_eqb_eq N.eqb N.eqb N.eqb_eq N.eqb_eq). exact E.
  - apply IH. exact H.
Qed.

Definition lp_body (plat : N) (inst : list N) (best : option pq) (p : pq) : option pq :=
  if (pk_plat (p_key p) =? plat)%N && Sched.Model.is_prefix (pk_prefix (p_key p)) inst then
    match best with
    | Some b => if Nat.ltb (List.length (pk_prefix (p_key b))) (List.length (pk_prefix (p_key p))) then Some p else best
    | None => Some p
    end
  else best.

Lemma get_snoc : forall l p q plat,
  rget (q, plat) (pq_map (l ++ [p])) =
  match rget (q, plat) (pq_map l) with
  | Some x => Some x
  | None => if Platform.Spec.rkey_eqb N.eqb N.eqb (q, plat) (pq_rkey p) then Some p else None
  end.
Proof.
  intros. unfold pq_map. rewrite map_app. cbn [map]. apply ref_get_app_one.
Qed.

Lemma rkey_match : forall q plat p,
  Platform.Spec.rkey_eqb N.eqb N.eqb (q, plat) (pq_rkey p) = true <->
  q = pk_prefix (p_key p) /\ plat = pk_plat (p_key p).
Proof.
  intros. rewrite (rkey_eqb_eq N.eqb N.eqb N.eqb_eq N.eqb_eq). unfold pq_rkey.
  split; [intros [= -> ->]; auto|intros [-> ->]; reflexivity].
Qed.

Lemma lp_body_inv : forall plat inst seen best p,
  best = ref_pq seen plat inst -> lp_body plat inst best p = ref_pq (seen ++ [p]) plat inst.
Proof.
  intros plat inst seen best p Hb. unfold ref_pq, Platform.Spec.ref_longest in *. cbn [fst snd] in *.
  set (f := fun q => rget (q, plat) (pq_map seen)) in *.
  set (f' := fun q => rget (q, plat) (pq_map (seen ++ [p]))).
  assert (Hf' : forall q, f' q = match f q with
                                 | Some x => Some x
                                 | None => if Platform.Spec.rkey_eqb N.eqb N.eqb (q, plat) (pq_rkey p) then Some p else None
                                 end) by (intro q; apply get_snoc).
  unfold lp_body. rewrite is_prefix_same.
  destruct ((pk_plat (p_key p) =? plat)%N && rpre (pk_prefix (p_key p)) inst) eqn:Em.
  - apply andb_true_iff in Em. destruct Em as [Ep Epre]. apply N.eqb_eq in Ep.
    set (q0 := pk_prefix (p_key p)) in *.
    assert (Hq0 : Platform.Spec.rkey_eqb N.eqb N.eqb (q0, plat) (pq_rkey p) = true)
      by (apply rkey_match; auto).
    assert (Honly : forall q', f q' = None -> f' q' <> None -> q' = q0).
    { intros q' Hn Hs. rewrite Hf', Hn in Hs.
      destruct (Platform.Spec.rkey_eqb N.eqb N.eqb (q', plat) (pq_rkey p)) eqn:E; [|contradiction].
      apply rkey_match in E. tauto. }
    destruct best as [b|].
    + symmetry in Hb. destruct (longest_some N.eqb N.eqb_eq _ _ _ Hb) as [qb [B1 [B2 B3]]].
      pose proof (pq_map_get_key _ _ _ B2) as Hkb. unfold pq_rkey in Hkb. injection Hkb as Hkb _.
      rewrite Hkb.
      destruct (Nat.ltb (List.length qb) (List.length q0)) eqn:El.
      * apply PeanoNat.Nat.ltb_lt in El. symmetry.
        apply (longest_iff N.eqb N.eqb_eq). exists q0.
        assert (Hfq0 : f q0 = None).
        { destruct (f q0) eqn:E; [|reflexivity]. exfalso.
          assert (List.length q0 <= List.length qb) by (apply B3; [assumption|congruence]). lia. }
        split; [assumption|]. split; [rewrite Hf', Hfq0, Hq0; reflexivity|].
        intros q' Hp' Hs. destruct (f q') eqn:E.
        -- assert (List.length q' <= List.length qb) by (apply B3; [assumption|congruence]). lia.
        -- rewrite (Honly q' E Hs). lia.
      * apply PeanoNat.Nat.ltb_ge in El. symmetry.
        apply (longest_iff N.eqb N.eqb_eq). exists qb.
        split; [assumption|]. split; [rewrite Hf', B2; reflexivity|].
        intros q' Hp' Hs. destruct (f q') eqn:E.
        -- apply B3; [assumption|congruence].
        -- rewrite (Honly q' E Hs). assumption.
    + symmetry in Hb. pose proof (longest_none N.eqb N.eqb_eq _ _ Hb) as Hnone.
      symmetry. apply (longest_iff N.eqb N.eqb_eq). exists q0.
      split; [assumption|]. split; [rewrite Hf', (Hnone q0 Epre), Hq0; reflexivity|].
      intros q' Hp' Hs. rewrite (Honly q' (Hnone q' Hp') Hs). lia.
  - rewrite Hb. apply (longest_ext N.eqb N.eqb_eq). intros q Hq. fold (f q). fold (f' q). rewrite Hf'.
    destruct (f q); [reflexivity|].
    destruct (Platform.Spec.rkey_eqb N.eqb N.eqb (q, plat) (pq_rkey p)) eqn:E; [|reflexivity].
    apply rkey_match in E. destruct E as [-> ->]. rewrite N.eqb_refl, Hq in Em. discriminate.
Qed.

Lemma lp_fold_inv : forall plat inst l seen best,
  best = ref_pq seen plat inst ->
  fold_left (lp_body plat inst) l best = ref_pq (seen ++ l) plat inst.
Proof.
  induction l as [|p l IH]; intros seen best H; cbn.
  - rewrite app_nil_r. exact H.
  - replace (seen ++ p :: l) with ((seen ++ [p]) ++ l) by (rewrite <- app_assoc; reflexivity).
    apply IH. apply lp_body_inv. exact H.
Qed.

(* the scheduler model's queue selection is the reference function on the registered queues *)
Lemma longest_prefix_pq_is_ref : forall s plat inst,
  longest_prefix_pq s plat inst = ref_pq (s_pqs s) plat inst.
Proof.
  intros s plat inst. unfold longest_prefix_pq.
  change (fold_left (lp_body plat inst) (s_pqs s) None = ref_pq ([] ++ s_pqs s) plat inst).
  apply lp_fold_inv. unfold ref_pq, Platform.Spec.ref_longest. cbn [fst snd pq_map map].
  symmetry. apply (longest_none_iff N.eqb N.eqb_eq). intros q _. reflexivity.
Qed.
