(* Platform — the InstanceNameTrie model refines "value stored per path":
   [n_val p n] is the value (>= 0) stored at the node reached by path p.
   Set / Remove (with its edge-cut bookkeeping) / the three lookups are
   characterised through n_val. *)
From Coq Require Import String List ZArith Bool Lia.
From VF Require Import Platform.Model Platform.Spec Platform.ProofsRef.
Import ListNotations.
Open Scope string_scope.

Fixpoint n_val (p : list string) (n : node) : option Z :=
  match p with
  | [] => if (0 <=? n_value n)%Z then Some (n_value n) else None
  | c :: r => match c_find c (n_children n) with Some nx => n_val r nx | None => None end
  end.

(* ---- children maps ---------------------------------------------------------- *)
Lemma seqb_neq : forall a b : string, a <> b -> String.eqb a b = false.
Proof. intros a b H. destruct (String.eqb a b) eqn:E; [|reflexivity]. apply String.eqb_eq in E. contradiction. Qed.

Lemma c_find_put_same : forall c n cs, c_find c (c_put c n cs) = Some n.
Proof.
  intros c n. induction cs as [|c' n' r IH]; cbn.
  - rewrite String.eqb_refl. reflexivity.
  - destruct (String.eqb c c') eqn:E; cbn; rewrite E; [reflexivity|exact IH].
Qed.

Lemma c_find_put_other : forall c c' n cs, c' <> c -> c_find c' (c_put c n cs) = c_find c' cs.
Proof.
  intros c c' n cs Hne. induction cs as [|c2 n2 r IH]; cbn.
  - rewrite (seqb_neq c' c Hne). reflexivity.
  - destruct (String.eqb c c2) eqn:E; cbn.
    + apply String.eqb_eq in E. subst c2. rewrite (seqb_neq c' c Hne). reflexivity.
    + rewrite IH. reflexivity.
Qed.

Lemma c_find_del_same : forall c cs, c_find c (c_del c cs) = None.
Proof.
  intros c. induction cs as [|c' n' r IH]; cbn; [reflexivity|].
  destruct (String.eqb c c') eqn:E; [exact IH|]. cbn. rewrite E. exact IH.
Qed.

Lemma c_find_del_other : forall c c' cs, c' <> c -> c_find c' (c_del c cs) = c_find c' cs.
Proof.
  intros c c' cs Hne. induction cs as [|c2 n2 r IH]; cbn; [reflexivity|].
  destruct (String.eqb c c2) eqn:E.
  - apply String.eqb_eq in E. subst c2. rewrite (seqb_neq c' c Hne). exact IH.
  - cbn. rewrite IH. reflexivity.
Qed.

Lemma c_len_0 : forall cs, c_len cs = 0 -> cs = CNil.
Proof. destruct cs; [reflexivity|discriminate]. Qed.

(* a map with at most one entry: any two keys found in it are equal *)
Lemma c_len_le_1_find : forall cs c1 n1 c2 n2, c_len cs <= 1 ->
  c_find c1 cs = Some n1 -> c_find c2 cs = Some n2 -> c1 = c2.
Proof.
  intros [|c n r] c1 n1 c2 n2 Hl H1 H2; [discriminate|].
  destruct r; [|cbn in Hl; lia]. cbn in H1, H2.
  destruct (String.eqb c1 c) eqn:E1; [|discriminate]. destruct (String.eqb c2 c) eqn:E2; [|discriminate].
  apply String.eqb_eq in E1, E2. congruence.
Qed.

(* ---- the empty node ------------------------------------------------------------- *)
Lemma n_val_empty : forall p, n_val p empty_node = None.
Proof. destruct p; reflexivity. Qed.

Lemma n_val_no_children : forall p n, n_children n = CNil -> p <> [] -> n_val p n = None.
Proof. intros [|c r] n H Hp; [contradiction|]. cbn. rewrite H. reflexivity. Qed.

(* ---- Set ------------------------------------------------------------------------ *)
Lemma n_val_set_same : forall p v n, (0 <= v)%Z -> n_val p (n_set p v n) = Some v.
Proof.
  induction p as [|c r IH]; intros v n Hv; cbn.
  - destruct (0 <=? v)%Z eqn:E; [reflexivity|]. apply Z.leb_gt in E. lia.
  - rewrite c_find_put_same. apply IH. assumption.
Qed.

Lemma n_val_set_other : forall p q v n, q <> p -> n_val q (n_set p v n) = n_val q n.
Proof.
  induction p as [|c r IH]; intros q v n Hne.
  - destruct q as [|c' q]; [contradiction|]. reflexivity.
  - destruct q as [|c' q]; [reflexivity|]. cbn.
    destruct (String.eqb c' c) eqn:E.
    + apply String.eqb_eq in E. subst c'. rewrite c_find_put_same.
      assert (Hq : q <> r) by congruence. rewrite IH by assumption.
      destruct (c_find c (n_children n)); [reflexivity|apply n_val_empty].
    + rewrite c_find_put_other; [reflexivity|]. intros ->. rewrite String.eqb_refl in E. discriminate.
Qed.

Lemma n_value_set : forall p v n, (0 <= v)%Z -> (-1 <= n_value n)%Z -> (-1 <= n_value (n_set p v n))%Z.
Proof. intros [|c r] v n Hv Hn; cbn; lia. Qed.

(* ---- GetExact ----------------------------------------------------------------------- *)
Lemma n_get_exact_loop_val : forall r c n, n_get_exact_loop (c :: r) n = dflt (n_val (c :: r) n).
Proof.
  induction r as [|c2 r IH]; intros c n.
  - cbn. destruct (c_find c (n_children n)) as [f|]; [|reflexivity].
    destruct (0 <=? n_value f)%Z; reflexivity.
  - change (n_get_exact_loop (c :: c2 :: r) n)
      with (match c_find c (n_children n) with None => (-1)%Z | Some nx => n_get_exact_loop (c2 :: r) nx end).
    change (n_val (c :: c2 :: r) n)
      with (match c_find c (n_children n) with Some nx => n_val (c2 :: r) nx | None => None end).
    destruct (c_find c (n_children n)) as [nx|]; [apply IH|reflexivity].
Qed.

Lemma n_val_root : forall n, (-1 <= n_value n)%Z -> dflt (n_val [] n) = n_value n.
Proof.
  intros n H. cbn. destruct (0 <=? n_value n)%Z eqn:E; [reflexivity|]. apply Z.leb_gt in E. cbn. lia.
Qed.

Lemma n_get_exact_val : forall p n, (-1 <= n_value n)%Z -> n_get_exact p n = dflt (n_val p n).
Proof.
  intros [|c r] n H.
  - symmetry. apply n_val_root. assumption.
  - apply n_get_exact_loop_val.
Qed.

(* ---- GetLongestPrefix ------------------------------------------------------------------ *)
Notation longest := (@longest string Z).

Lemma n_glp_loop_val : forall r c n last,
  n_glp_loop (c :: r) n last =
  match longest (fun q => n_val (c :: q) n) r with Some v => v | None => last end.
Proof.
  induction r as [|c2 r IH]; intros c n last.
  - cbn. destruct (c_find c (n_children n)) as [f|]; [|reflexivity].
    destruct (0 <=? n_value f)%Z; reflexivity.
  - change (n_glp_loop (c :: c2 :: r) n last)
      with (match c_find c (n_children n) with
            | None => last
            | Some nx => n_glp_loop (c2 :: r) nx (if (0 <=? n_value nx)%Z then n_value nx else last)
            end).
    change (longest (fun q => n_val (c :: q) n) (c2 :: r))
      with (match longest (fun q => n_val (c :: c2 :: q) n) r with
            | Some v => Some v
            | None => n_val [c] n
            end).
    destruct (c_find c (n_children n)) as [nx|] eqn:Ef.
    + rewrite IH.
      rewrite (longest_ext String.eqb String.eqb_eq r (fun q => n_val (c :: c2 :: q) n) (fun q => n_val (c2 :: q) nx)).
      2:{ intros q _. cbn. rewrite Ef. reflexivity. }
      destruct (longest (fun q => n_val (c2 :: q) nx) r); [reflexivity|].
      cbn. rewrite Ef. destruct (0 <=? n_value nx)%Z; reflexivity.
    + rewrite (longest_ext String.eqb String.eqb_eq r (fun q => n_val (c :: c2 :: q) n) (fun _ => None)).
      2:{ intros q _. cbn. rewrite Ef. reflexivity. }
      rewrite longest_none_const. cbn. rewrite Ef. reflexivity.
Qed.

Lemma n_get_longest_prefix_val : forall p n, (-1 <= n_value n)%Z ->
  n_get_longest_prefix p n = dflt (longest (fun q => n_val q n) p).
Proof.
  intros [|c r] n H.
  - symmetry. apply n_val_root. assumption.
  - unfold n_get_longest_prefix. rewrite n_glp_loop_val.
    change (longest (fun q => n_val q n) (c :: r))
      with (match longest (fun q => n_val (c :: q) n) r with Some v => Some v | None => n_val [] n end).
    destruct (longest (fun q => n_val (c :: q) n) r); [reflexivity|].
    symmetry. apply n_val_root. assumption.
Qed.

(* ---- Remove: clearing the value ----------------------------------------------------------- *)
Lemma n_val_clear_same : forall p n, n_val p (n_clear p n) = None.
Proof.
  induction p as [|c r IH]; intro n; cbn; [reflexivity|].
  destruct (c_find c (n_children n)) as [nx|] eqn:Ef; cbn.
  - rewrite c_find_put_same. apply IH.
  - rewrite Ef. reflexivity.
Qed.

Lemma n_val_clear_other : forall p q n, q <> p -> n_val q (n_clear p n) = n_val q n.
Proof.
  induction p as [|c r IH]; intros q n Hne.
  - destruct q; [contradiction|reflexivity].
  - cbn. destruct (c_find c (n_children n)) as [nx|] eqn:Ef; [|reflexivity].
    destruct q as [|c' q]; [reflexivity|]. cbn.
    destruct (String.eqb c' c) eqn:E.
    + apply String.eqb_eq in E. subst c'. rewrite c_find_put_same, Ef. apply IH. congruence.
    + rewrite c_find_put_other; [reflexivity|]. intros ->. rewrite String.eqb_refl in E. discriminate.
Qed.

(* ---- Remove: cutting an edge ----------------------------------------------------------------- *)
(* below the first edge of p, the path consists of valueless nodes with a
   single child, down to a final node without children *)
Fixpoint chain (p : list string) (n : node) : Prop :=
  match p with
  | [] => False
  | c :: r => exists nx, c_find c (n_children n) = Some nx /\
      match r with
      | [] => c_len (n_children nx) = 0
      | _ => (n_value nx < 0)%Z /\ c_len (n_children nx) <= 1 /\ chain r nx
      end
  end.

Lemma chain_vals : forall r c n q, chain (c :: r) n -> n_val (c :: q) n <> None -> q = r.
Proof.
  induction r as [|c2 r IH]; intros c n q [nx [Ef Hc]] Hv; cbn in Hv; rewrite Ef in Hv.
  - destruct q as [|c' q]; [reflexivity|]. exfalso. apply Hv. apply n_val_no_children; [|discriminate].
    apply c_len_0. assumption.
  - destruct Hc as [Hneg [Hlen Hch]].
    destruct q as [|c' q].
    + exfalso. apply Hv. cbn. destruct (0 <=? n_value nx)%Z eqn:E; [|reflexivity]. apply Z.leb_le in E. lia.
    + pose proof Hch as Hch'. destruct Hch' as [nx2 [Ef2 _]].
      assert (c' = c2).
      { cbn in Hv. destruct (c_find c' (n_children nx)) as [m|] eqn:Ef'; [|contradiction].
        eapply c_len_le_1_find; eassumption. }
      subst c'. f_equal. eapply IH; eassumption.
Qed.

Fixpoint chain_at (d : nat) (p : list string) (n : node) : Prop :=
  match d with
  | O => chain p n
  | S d' => match p with
            | [] => False
            | c :: r => exists nx, c_find c (n_children n) = Some nx /\ chain_at d' r nx
            end
  end.

Lemma chain_at_nonempty : forall d p n, chain_at d p n -> p <> [].
Proof. intros [|d] [|c r] n H; cbn in H; try contradiction; discriminate. Qed.

Lemma n_val_cut_same : forall d p n, chain_at d p n -> n_val p (n_cut p d n) = None.
Proof.
  induction d as [|d IH]; intros [|c r] n H; cbn in H; try contradiction.
  - cbn. rewrite c_find_del_same. reflexivity.
  - destruct H as [nx [Ef H]]. cbn. rewrite Ef. cbn. rewrite c_find_put_same. apply IH. assumption.
Qed.

Lemma n_val_cut_other : forall d p q n, chain_at d p n -> q <> p -> n_val q (n_cut p d n) = n_val q n.
Proof.
  induction d as [|d IH]; intros [|c r] q n H Hne; cbn in H; try contradiction.
  - (* cut here *)
    cbn [n_cut]. destruct q as [|c' q]; [reflexivity|].
    change (n_val (c' :: q) (Node (n_value n) (c_del c (n_children n))))
      with (match c_find c' (c_del c (n_children n)) with Some nx => n_val q nx | None => None end).
    destruct (String.eqb c' c) eqn:E.
    + apply String.eqb_eq in E. subst c'. rewrite c_find_del_same.
      destruct (n_val (c :: q) n) eqn:Ev; [|reflexivity].
      exfalso. apply Hne. f_equal. apply (chain_vals r c n q H). rewrite Ev. discriminate.
    + rewrite c_find_del_other; [reflexivity|]. intros ->. rewrite String.eqb_refl in E. discriminate.
  - destruct H as [nx [Ef H]]. cbn [n_cut]. rewrite Ef.
    destruct q as [|c' q]; [reflexivity|].
    change (n_val (c' :: q) (Node (n_value n) (c_put c (n_cut r d nx) (n_children n))))
      with (match c_find c' (c_put c (n_cut r d nx) (n_children n)) with Some m => n_val q m | None => None end).
    destruct (String.eqb c' c) eqn:E.
    + apply String.eqb_eq in E. subst c'. rewrite c_find_put_same. cbn. rewrite Ef. apply IH; [assumption|congruence].
    + rewrite c_find_put_other; [reflexivity|]. intros ->. rewrite String.eqb_refl in E. discriminate.
Qed.

(* what the walk of Remove computes *)
Lemma n_remove_walk_chain : forall p n i cut d,
  (i = 0 \/ cut < i) ->
  n_remove_walk p n i cut = Some (d, false) ->
  (i <= d /\ chain_at (d - i) p n) \/
  (d < i /\ d = cut /\ (n_value n < 0)%Z /\ c_len (n_children n) <= 1 /\ chain p n).
Proof.
  induction p as [|c r IH]; intros n i cut d Hi H; [discriminate|].
  cbn [n_remove_walk] in H.
  set (cap := (0 <=? n_value n)%Z || Nat.ltb 1 (c_len (n_children n)) || Nat.eqb i 0) in *.
  destruct (c_find c (n_children n)) as [nx|] eqn:Ef; [|discriminate].
  assert (Hcap : cap = false -> (n_value n < 0)%Z /\ c_len (n_children n) <= 1 /\ cut < i).
  { intro Hc. unfold cap in Hc. apply orb_false_iff in Hc. destruct Hc as [Hc H3].
    apply orb_false_iff in Hc. destruct Hc as [H1 H2].
    apply Z.leb_gt in H1. apply PeanoNat.Nat.ltb_ge in H2. apply PeanoNat.Nat.eqb_neq in H3.
    repeat split; [assumption|assumption|]. destruct Hi; [contradiction|assumption]. }
  destruct r as [|c2 r].
  - (* last component *)
    injection H as Hd Hb. apply negb_false_iff in Hb. apply PeanoNat.Nat.eqb_eq in Hb.
    destruct cap eqn:Ec.
    + left. subst d. split; [lia|]. rewrite PeanoNat.Nat.sub_diag. cbn. exists nx. split; assumption.
    + destruct (Hcap eq_refl) as [H1 [H2 H3]]. right. subst d.
      repeat split; try assumption. cbn. exists nx. split; assumption.
  - set (cut' := if cap then i else cut) in *.
    assert (Hi' : S i = 0 \/ cut' < S i).
    { right. unfold cut'. destruct cap eqn:Ec; [lia|]. destruct (Hcap eq_refl) as [_ [_ H3]]. lia. }
    destruct (IH nx (S i) cut' d Hi' H) as [[Hle Hch]|[Hlt [Hd [Hneg [Hlen Hch]]]]].
    + left. split; [lia|]. replace (d - i) with (S (d - S i)) by lia. cbn. exists nx. split; assumption.
    + unfold cut' in Hd. destruct cap eqn:Ec.
      * left. subst d. split; [lia|]. rewrite PeanoNat.Nat.sub_diag.
        change (chain (c :: c2 :: r) n). cbn [chain]. exists nx. split; [assumption|].
        repeat split; assumption.
      * destruct (Hcap eq_refl) as [H1 [H2 H3]]. right. subst d.
        repeat split; try assumption.
        cbn [chain]. exists nx. split; [assumption|]. repeat split; assumption.
Qed.

Lemma n_remove_walk_some : forall p n i cut, p <> [] -> n_val p n <> None ->
  exists r, n_remove_walk p n i cut = Some r.
Proof.
  induction p as [|c r IH]; intros n i cut Hp Hv; [contradiction|].
  cbn in Hv. cbn [n_remove_walk].
  destruct (c_find c (n_children n)) as [nx|]; [|contradiction].
  destruct r as [|c2 r]; [eexists; reflexivity|].
  apply IH; [discriminate|assumption].
Qed.

(* ---- Remove ---------------------------------------------------------------------------------- *)
Lemma n_remove_vals : forall p n n' e, n_remove p n = Some (n', e) ->
  n_val p n' = None /\ (forall q, q <> p -> n_val q n' = n_val q n) /\
  (e = true -> forall q, n_val q n' = None) /\
  ((-1 <= n_value n)%Z -> (-1 <= n_value n')%Z).
Proof.
  intros p n n' e H. destruct p as [|c r].
  - cbn in H. injection H as <- <-. split; [reflexivity|]. split.
    + intros [|c q] Hne; [contradiction|reflexivity].
    + split; [|cbn; lia]. intros He q. apply PeanoNat.Nat.eqb_eq in He. apply c_len_0 in He.
      destruct q as [|c q]; [reflexivity|]. cbn. rewrite He. reflexivity.
  - unfold n_remove in H.
    destruct (n_remove_walk (c :: r) n 0 0) as [[d hc]|] eqn:Ew; [|discriminate].
    set (nn := if hc then n_clear (c :: r) n else n_cut (c :: r) d n) in H.
    assert (Hn : nn = n') by congruence.
    assert (He : (n_value nn <? 0)%Z && Nat.eqb (c_len (n_children nn)) 0 = e) by congruence.
    clear H. rewrite Hn in He.
    assert (Hvals : n_val (c :: r) n' = None /\ (forall q, q <> c :: r -> n_val q n' = n_val q n) /\
                    n_value n' = n_value n).
    { unfold nn in Hn. destruct hc.
      - subst n'. split; [apply n_val_clear_same|]. split; [intros q Hq; apply n_val_clear_other; assumption|].
        cbn. destruct (c_find c (n_children n)); reflexivity.
      - destruct (n_remove_walk_chain _ _ _ _ _ (or_introl eq_refl) Ew) as [[_ Hch]|[Hlt _]]; [|lia].
        rewrite PeanoNat.Nat.sub_0_r in Hch. subst n'.
        split; [apply n_val_cut_same; assumption|]. split; [intros q Hq; apply n_val_cut_other; assumption|].
        destruct d; cbn; [reflexivity|]. destruct (c_find c (n_children n)); reflexivity. }
    destruct Hvals as [H1 [H2 H3]]. split; [assumption|]. split; [assumption|]. split; [|lia].
    intros Het q. subst e. apply andb_true_iff in Het. destruct Het as [Hv Hl].
    apply Z.ltb_lt in Hv. apply PeanoNat.Nat.eqb_eq in Hl. apply c_len_0 in Hl.
    destruct q as [|c' q].
    + cbn. destruct (0 <=? n_value n')%Z eqn:E; [|reflexivity]. apply Z.leb_le in E. lia.
    + cbn. rewrite Hl. reflexivity.
Qed.

Lemma n_remove_no_panic : forall p n, n_val p n <> None -> n_remove p n <> None.
Proof.
  intros [|c r] n Hv; [discriminate|]. unfold n_remove.
  destruct (n_remove_walk_some (c :: r) n 0 0 ltac:(discriminate) Hv) as [[d hc] ->]. discriminate.
Qed.
