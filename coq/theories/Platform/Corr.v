(* Correspondence evaluator for the Platform area: the property predicate
   P (Spec.p_step) on the implementation's recorded trace, and the model
   (Model.step) compared output by output. *)
From VF Require Import Common.Verdict Platform.Model Platform.Spec.

Record case := mkCase {
  c_ops : list op;
  c_outs : list out }.   (* implementation outputs, one per op *)

Fixpoint viol_from (i : nat) (m : mon) (ops : list op) (outs : list out) : verdict :=
  match ops, outs with
  | o :: ops', x :: outs' =>
    let '(k, m') := p_step m o x in
    if String.eqb k "" then viol_from (S i) m' ops' outs' else VViolation i k
  | [], [] => VOk
  | _, _ => VMismatch i "malformed case"
  end.

Fixpoint mism_from (i : nat) (s : state) (ops : list op) (outs : list out) : verdict :=
  match ops, outs with
  | o :: ops', x :: outs' =>
    let '(s', y) := step s o in
    if negb (out_eqb x y) then VMismatch i "output" else mism_from (S i) s' ops' outs'
  | _, _ => VOk
  end.

Definition check_case (c : case) : verdict :=
  vcombine (viol_from 0 mon_init (c_ops c) (c_outs c))
           (mism_from 0 init (c_ops c) (c_outs c)).
