(* Basic lemmas for the mutable proto store proofs: function update,
   bounded counting, the write queue operations. *)
From Coq Require Import Lia.
From VF Require Import Store.Model.
Open Scope N_scope.

Lemma updn_same : forall {A} (f : nat -> A) k v, updn f k v k = v.
Proof. intros. unfold updn. rewrite Nat.eqb_refl. reflexivity. Qed.

Lemma updn_other : forall {A} (f : nat -> A) k v x, x <> k -> updn f k v x = f x.
Proof. intros. unfold updn. destruct (Nat.eqb_spec x k); [contradiction | reflexivity]. Qed.

Lemma updN_same : forall {A} (f : N -> A) k v, updN f k v k = v.
Proof. intros. unfold updN. rewrite N.eqb_refl. reflexivity. Qed.

Lemma updN_other : forall {A} (f : N -> A) k v x, x <> k -> updN f k v x = f x.
Proof. intros. unfold updN. destruct (N.eqb_spec x k); [contradiction | reflexivity]. Qed.

Lemma inb_In : forall x l, inb x l = true <-> In x l.
Proof.
  intros x l. unfold inb. rewrite existsb_exists. split.
  - intros (y & Hy & He). apply Nat.eqb_eq in He. subst. exact Hy.
  - intros H. exists x. split; [exact H | apply Nat.eqb_refl].
Qed.

Lemma inb_false : forall x l, inb x l = false <-> ~ In x l.
Proof.
  intros x l. split.
  - intros H Hin. apply inb_In in Hin. congruence.
  - intros H. destruct (inb x l) eqn:E; [apply inb_In in E; contradiction | reflexivity].
Qed.

(* ---- counting over an initial segment of nat --------------------------------- *)

Definition count (f : nat -> bool) (n : nat) : nat := length (filter f (seq 0 n)).

Lemma count_S : forall f n, count f (S n) = (count f n + (if f n then 1 else 0))%nat.
Proof.
  intros f n. unfold count. rewrite seq_S, filter_app, app_length. cbn.
  destruct (f n); reflexivity.
Qed.

Lemma count_ext : forall f f' n, (forall g, (g < n)%nat -> f' g = f g) -> count f' n = count f n.
Proof.
  intros f f' n. induction n as [|n IH]; intros H; [reflexivity|].
  rewrite !count_S, IH by (intros; apply H; lia). rewrite H by lia. reflexivity.
Qed.

Lemma count_on : forall f f' n g0, (g0 < n)%nat -> f g0 = false -> f' g0 = true ->
  (forall g, g <> g0 -> f' g = f g) -> count f' n = S (count f n).
Proof.
  intros f f' n g0. induction n as [|n IH]; intros Hlt H0 H1 Hext; [lia|].
  rewrite !count_S. destruct (Nat.eq_dec g0 n) as [->|Hne].
  - rewrite H0, H1. rewrite (count_ext f f' n) by (intros; apply Hext; lia). lia.
  - rewrite IH by (try assumption; lia). rewrite Hext by lia. lia.
Qed.

Lemma count_off : forall f f' n g0, (g0 < n)%nat -> f g0 = true -> f' g0 = false ->
  (forall g, g <> g0 -> f' g = f g) -> S (count f' n) = count f n.
Proof.
  intros f f' n g0 Hlt H1 H0 Hext. symmetry. apply (count_on f' f n g0); try assumption.
  intros g Hg. symmetry. apply Hext. exact Hg.
Qed.

Lemma count_pos : forall f n g0, (g0 < n)%nat -> f g0 = true -> (0 < count f n)%nat.
Proof.
  intros f n g0. induction n as [|n IH]; intros Hlt H; [lia|].
  rewrite count_S. destruct (Nat.eq_dec g0 n) as [->|Hne]; [rewrite H; lia|].
  assert (0 < count f n)%nat by (apply IH; [lia | exact H]). lia.
Qed.

Lemma count_zero : forall f n, (forall g, (g < n)%nat -> f g = false) -> count f n = 0%nat.
Proof.
  intros f n. induction n as [|n IH]; intros H; [reflexivity|].
  rewrite count_S, IH by (intros; apply H; lia). rewrite H by lia. reflexivity.
Qed.

(* ---- the write queue ----------------------------------------------------------- *)

Lemma queue_split : forall (q : list nat), q <> [] -> q = removelast q ++ [last q 0%nat].
Proof. intros q H. apply app_removelast_last. exact H. Qed.

Lemma NoDup_snoc : forall (l : list nat) x, NoDup (l ++ [x]) <-> NoDup l /\ ~ In x l.
Proof.
  intros l x. split.
  - intros H. apply NoDup_remove in H. rewrite app_nil_r in H. exact H.
  - intros (H1 & H2). induction l as [|y t IH]; cbn.
    + constructor; [intros [] | constructor].
    + inversion H1; subst. constructor.
      * rewrite in_app_iff. intros [H | [H | []]]; [contradiction | subst; apply H2; left; reflexivity].
      * apply IH; [assumption | intros H; apply H2; right; exact H].
Qed.

Lemma replace_first_notin : forall h y l, ~ In h l -> replace_first h y l = l.
Proof.
  intros h y l. induction l as [|x t IH]; intros H; cbn; [reflexivity|].
  destruct (Nat.eqb_spec x h); [subst; exfalso; apply H; left; reflexivity|].
  rewrite IH; [reflexivity | intros Hin; apply H; right; exact Hin].
Qed.

Lemma replace_first_app : forall h y l1 l2, In h l1 -> replace_first h y (l1 ++ l2) = replace_first h y l1 ++ l2.
Proof.
  intros h y l1 l2. induction l1 as [|x t IH]; intros H; [destruct H|]. cbn.
  destruct (Nat.eqb_spec x h); [reflexivity|].
  rewrite IH; [reflexivity | destruct H; [contradiction | assumption]].
Qed.

Lemma replace_first_In : forall h y l x, NoDup l -> In h l ->
  (In x (replace_first h y l) <-> (x = y \/ (In x l /\ x <> h))).
Proof.
  intros h y l x. induction l as [|z t IH]; intros Hnd Hin; [destruct Hin|]. cbn.
  inversion Hnd as [|? ? Hz Ht]; subst.
  destruct (Nat.eqb_spec z h) as [->|Hne].
  - cbn. split.
    + intros [H | H]; [left; symmetry; exact H | right; split; [right; exact H | intros ->; contradiction]].
    + intros [H | ([H | H] & Hx)]; [left; symmetry; exact H | subst; contradiction | right; exact H].
  - destruct Hin as [Hin | Hin]; [contradiction|]. cbn. rewrite IH by assumption. split.
    + intros [H | [H | (H & Hx)]]; [right; split; [left; exact H | subst; exact Hne] | left; exact H | right; split; [right; exact H | exact Hx]].
    + intros [H | ([H | H] & Hx)]; [right; left; exact H | left; exact H | right; right; split; assumption].
Qed.

Lemma replace_first_NoDup : forall h y l, NoDup l -> In h l -> ~ In y l -> NoDup (replace_first h y l).
Proof.
  intros h y l. induction l as [|z t IH]; intros Hnd Hin Hy; [destruct Hin|]. cbn.
  inversion Hnd as [|? ? Hz Ht]; subst.
  destruct (Nat.eqb_spec z h) as [->|Hne].
  - constructor; [intros H; apply Hy; right; exact H | exact Ht].
  - destruct Hin as [Hin | Hin]; [contradiction|]. constructor.
    + rewrite replace_first_In by assumption. intros [H | (H & _)]; [subst; apply Hy; left; reflexivity | contradiction].
    + apply IH; [assumption | assumption | intros H; apply Hy; right; exact H].
Qed.

(* swap_remove removes exactly h and keeps the queue duplicate free *)
Lemma swap_remove_spec : forall h q, NoDup q -> In h q ->
  NoDup (swap_remove h q) /\ forall x, In x (swap_remove h q) <-> (In x q /\ x <> h).
Proof.
  intros h q Hnd Hin. assert (q <> []) as Hne by (intros ->; destruct Hin).
  destruct (exists_last Hne) as (l & z & ->). unfold swap_remove. rewrite last_last.
  apply NoDup_snoc in Hnd. destruct Hnd as (Hl & Hz).
  destruct (Nat.eqb_spec z h) as [->|Hzh].
  - rewrite removelast_last. split; [exact Hl|]. intros x. rewrite in_app_iff. cbn. split.
    + intros H. split; [left; exact H | intros ->; contradiction].
    + intros ([H | [H | []]] & Hx); [exact H | subst; contradiction].
  - apply in_app_or in Hin. destruct Hin as [Hin | [Hin | []]]; [|subst; contradiction].
    rewrite replace_first_app by exact Hin. rewrite removelast_last.
    split; [apply replace_first_NoDup; assumption|].
    intros x. rewrite replace_first_In by assumption. rewrite in_app_iff. cbn. split.
    + intros [H | (H & Hx)]; [subst; split; [right; left; reflexivity | exact Hzh] | split; [left; exact H | exact Hx]].
    + intros ([H | [H | []]] & Hx); [right; split; assumption | left; symmetry; exact H].
Qed.

