(* C07 (mutable proto store: "statistics are never lost") — the property
   theorems, and nothing else.  [run init evs] is the model of the repaired
   code after an arbitrary interleaving [evs] of critical sections of
   concurrent Get calls (first section, read done, each write done ok/failed,
   last section) and Release calls; no bound on digests, handles or calls. *)
From Coq Require Import String.
From VF Require Import Common.Verdict Store.Model Store.Spec Store.Invariant Store.Proofs Store.Legacy
  Store.Monitor Store.Corr Store.MonitorCorr.
Open Scope N_scope.

(* Whenever no handle is in use, the write queue is empty and no write is in
   flight, the backing store holds, for every digest, the message of the
   latest dirty Release (which contains every update made through the
   handle it was released from). *)
Theorem no_lost_update : forall evs,
  let s := run init evs in
  quiescent s -> forall d, s_backing s d = s_latest s d.
Proof. exact no_lost_update_l. Qed.
Print Assumptions no_lost_update.

(* Handles reachable from the map, the write queue, writes in flight or
   callers: at most one per digest. *)
Theorem one_handle_per_digest : forall evs h1 h2,
  let s := run init evs in
  reachable s h1 -> reachable s h2 ->
  h_dig (s_handles s h1) = h_dig (s_handles s h2) -> h1 = h2.
Proof. exact one_handle_per_digest_l. Qed.
Print Assumptions one_handle_per_digest.

(* A failed write-back leaves the handle registered and dirty, and queued
   again unless a caller still holds it (whose Release then queues it). *)
Theorem failed_write_requeued : forall evs g d m gt w rest,
  let s := run init evs in
  s_gets s g = Some gt -> take_write d m (g_writes gt) = Some (w, rest) ->
  let s' := fst (step s (EPut g d m false)) in
  in_map s' (w_h w) /\ h_wv (s_handles s' (w_h w)) < h_cv (s_handles s' (w_h w)) /\
  (In (w_h w) (s_queue s') \/ (0 < h_use (s_handles s' (w_h w)))%nat).
Proof. exact failed_write_requeued_l. Qed.
Print Assumptions failed_write_requeued.

(* The handle Get returns is the one registered for the digest, and its
   message is the latest released one -- unless the backing store already
   holds the latest message (the read of this Get was overtaken by a
   completed write-back: known finding "stale read", see below).  This is
   the monitor's "stale-base" check. *)
Theorem returned_handle_current : forall evs g f msg,
  let s := run init evs in
  snd (step s (EEnd g)) = OEnd (Some (f, msg)) ->
  let s' := fst (step s (EEnd g)) in
  exists hid, s_refs s' g = Some hid /\ in_map s' hid /\
    (msg = s_latest s' (h_dig (s_handles s' hid)) \/
     s_backing s' (h_dig (s_handles s' hid)) = s_latest s' (h_dig (s_handles s' hid))).
Proof. exact returned_handle_current_l. Qed.
Print Assumptions returned_handle_current.

(* The invariant all of the above follow from. *)
Theorem invariant_holds : forall evs, Inv (run init evs).
Proof. exact (fun evs => run_inv evs init init_inv). Qed.
Print Assumptions invariant_holds.

(* ---- the trace monitor is a theorem of the model ---------------------------------------- *)

(* [mon_run repaired init minit evs] (Legacy.v) is the list of kinds the
   monitor [mon_step] of Spec.v -- the predicate Corr.v folds over the
   implementation's trace -- reports when it is fed the model's own outputs
   and backing store for the events [evs].  [trace_ok] accepts a trace when
   every reported kind is "" or the known finding C07:store-stale-read.
   For every interleaving the monitor accepts the model's trace.  The proof
   is a simulation ([Sim], Monitor.v) between the monitor's own books (Gets
   in flight, handles held and their identities, latest released message)
   and the model state. *)
Theorem monitor_accepts_model : forall evs, trace_ok evs = true.
Proof. exact monitor_accepts_model_l. Qed.
Print Assumptions monitor_accepts_model.

(* The three kinds the check alarms on are never reported on a model trace. *)
Theorem monitor_never_alarms : forall evs,
  reports kind_lost repaired evs = false /\ reports kind_two repaired evs = false /\
  reports kind_stale repaired evs = false.
Proof. exact monitor_never_alarms_l. Qed.
Print Assumptions monitor_never_alarms.

(* The known finding as an explicit hypothesis: if no stale read is reported,
   nothing is.  (That the hypothesis can fail is returned_handle_latest_refuted.) *)
Theorem monitor_silent_without_stale_read : forall evs,
  reports kind_stale_read repaired evs = false ->
  forall k, In k (mon_run repaired init minit evs) -> k = ""%string.
Proof. exact monitor_silent_without_stale_read_l. Qed.
Print Assumptions monitor_silent_without_stale_read.

(* The evaluator itself: [check_case] of Corr.v (viol_from + mism_from, the
   function coqc runs on the generated case files) applied to the case file
   the model would produce (its outputs; backing store dumped on the harness'
   digests 0..4 after each event) reports no mismatch and no violation other
   than the known stale read. *)
Theorem corr_accepts_model : forall evs, forallb small_event evs = true ->
  match check_case (model_case evs) with
  | VOk => True
  | VViolation _ k => k = kind_stale_read
  | VMismatch _ _ => False
  end.
Proof. exact corr_accepts_model_l. Qed.
Print Assumptions corr_accepts_model.

(* ---- what is false, with witnesses (replayed on the code: corpus/C07) -------------- *)

(* The code as found (Release: currentVersion = writtenVersion + 1) loses an update. *)
Theorem no_lost_update_refuted_as_found : exists evs, reports kind_lost as_found evs = true.
Proof. exists evs_version_alias. exact as_found_loses_update. Qed.
Print Assumptions no_lost_update_refuted_as_found.

(* With only that repaired, two writes of one handle can be in flight:
   a second handle object appears for a digest. *)
Theorem one_handle_refuted_bump_only : exists evs, reports kind_two bump_only evs = true.
Proof. exists evs_concurrent_writes_two. exact bump_only_two_handles. Qed.
Print Assumptions one_handle_refuted_bump_only.

(* Full statement that remains false of the repaired code (known finding
   C07:store-stale-read): "the handle Get returns always carries the latest
   released message".  The read of a Get that found no handle can be
   overtaken by another Get's handle being updated, written back and
   dropped; the first Get then registers its stale copy. *)
Theorem returned_handle_latest_refuted : exists evs, reports kind_stale_read repaired evs = true.
Proof. exists evs_stale_read. exact repaired_stale_read. Qed.
Print Assumptions returned_handle_latest_refuted.

(* ---- non-vacuity ---------------------------------------------------------------------- *)

(* a run that reaches a quiescent state with a non-empty backing store:
   Get(7); read; end; release dirty with token 5; Get(8) dequeues and
   writes the handle; ...; everything released *)
Example quiescent_nontrivial :
  let evs := [EGet 7; ERead 0 true; EEnd 0; ERel 0 true 5; EGet 8; ERead 1 true;
              EPut 1 7 [5] true; EEnd 1; ERel 1 false 0] in
  let s := run init evs in
  s_queue s = [] /\ s_map s 7 = None /\ s_map s 8 = None /\ s_backing s 7 = [5] /\ s_latest s 7 = [5].
Proof. vm_compute. repeat split; reflexivity. Qed.

(* the monitor's quiescent-probe check fires on model traces (it is not
   vacuously silent): on the trace above the final probe Get is "quiet" and
   the digest 7 has been released dirty, so backing_current is evaluated --
   and a monitor fed a wrong backing store reports the loss. *)
Definition probe_evs : list event :=
  [EGet 2; ERead 0 true; EEnd 0; ERel 0 true 5; EGet 3; ERead 1 true;
   EPut 1 2 [5] true; EEnd 1; ERel 1 false 0; EGet 4].
Example monitor_check_reached :
  forallb small_event probe_evs = true /\ check_case (model_case probe_evs) = VOk /\
  (let c := model_case probe_evs in
   check_case (mkCase (c_evs c) (c_outs c) (map (fun _ => [[]; []; []; []; []]) (c_dumps c))))
  = VViolation 9 (kind_lost ++ ";mismatch:backing store@6")%string.
Proof. vm_compute. repeat split; reflexivity. Qed.
