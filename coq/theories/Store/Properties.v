(* C07 (store part) — the property theorems, and nothing else. *)
From VF Require Import Store.Model Store.Spec Store.Proofs.

Theorem init_is_quiescent : quiescent init.
Proof. exact init_quiescent. Qed.
Print Assumptions init_is_quiescent.
