(* The invariant of the (repaired) mutable proto store model and its
   preservation by the handle methods. *)
From Coq Require Import Lia.
From VF Require Import Store.Model Store.Spec Store.Lemmas.
Open Scope N_scope.

Notation hd s x := (s_handles s x).

(* Get call / returned reference g holds handle hid *)
Definition holds (s : state) (hid g : nat) : bool :=
  match s_refs s g with Some x => Nat.eqb x hid | None => false end ||
  match s_gets s g with
  | Some gt => match g_existing gt with Some x => Nat.eqb x hid | None => false end
  | None => false
  end.

Definition holders (s : state) (hid : nat) : nat := count (holds s hid) (s_nextg s).

Definition active (s : state) (hid : nat) : Prop :=
  (0 < h_use (hd s hid))%nat \/ In hid (s_queue s) \/ h_writing (hd s hid) <> None.

Record Core (s : state) : Prop := mkCore {
  c_map : forall d hid, s_map s d = Some hid -> h_dig (hd s hid) = d /\ (hid < s_nexth s)%nat;
  c_fresh : forall hid, (s_nexth s <= hid)%nat -> hd s hid = empty_handle;
  c_active_in_map : forall hid, active s hid -> in_map s hid;
  c_queue_nodup : NoDup (s_queue s);
  c_queue : forall hid, In hid (s_queue s) ->
     h_use (hd s hid) = 0%nat /\ h_writing (hd s hid) = None /\ h_wv (hd s hid) < h_cv (hd s hid);
  c_ver : forall hid, h_wv (hd s hid) <= h_cv (hd s hid);
  c_write : forall g gt w, s_gets s g = Some gt -> In w (g_writes gt) ->
     h_writing (hd s (w_h w)) = Some g /\ w_dig w = h_dig (hd s (w_h w)) /\
     h_wv (hd s (w_h w)) < w_ver w /\ w_ver w <= h_cv (hd s (w_h w)) /\
     (w_ver w = h_cv (hd s (w_h w)) -> w_msg w = h_msg (hd s (w_h w)));
  c_write_nodup : forall g gt, s_gets s g = Some gt -> NoDup (map w_h (g_writes gt));
  c_writing : forall hid g, h_writing (hd s hid) = Some g ->
     exists gt w, s_gets s g = Some gt /\ In w (g_writes gt) /\ w_h w = hid;
  c_absent : forall d, s_map s d = None -> s_backing s d = s_latest s d;
  c_present : forall d hid, s_map s d = Some hid ->
     (h_cv (hd s hid) <> 0 -> h_msg (hd s hid) = s_latest s d) /\
     (h_wv (hd s hid) = h_cv (hd s hid) -> s_backing s d = s_latest s d) }.

(* registered handles are in use, queued or being written; [except] leaves
   out one handle whose bookkeeping is in progress *)
Definition map_active_except (s : state) (h0 : option nat) : Prop :=
  forall hid, Some hid <> h0 -> in_map s hid -> active s hid.
Definition map_active (s : state) : Prop := map_active_except s None.

Record Cnt (s : state) : Prop := mkCnt {
  k_bound : forall g, (s_nextg s <= g)%nat -> s_gets s g = None /\ s_refs s g = None;
  k_excl : forall g, s_gets s g <> None -> s_refs s g = None;
  k_use : forall hid, h_use (hd s hid) = holders s hid }.

Definition Inv (s : state) : Prop := Core s /\ map_active s /\ Cnt s.

Lemma in_map_dig : forall s hid, in_map s hid -> s_map s (h_dig (hd s hid)) = Some hid.
Proof. intros s hid H. exact H. Qed.

Lemma map_in_map : forall s d hid, Core s -> s_map s d = Some hid -> in_map s hid.
Proof.
  intros s d hid C H. unfold in_map. destruct (c_map s C d hid H) as (Hd & _). rewrite Hd. exact H.
Qed.

(* two registered handles of one digest are the same *)
Lemma in_map_inj : forall s h1 h2, in_map s h1 -> in_map s h2 ->
  h_dig (hd s h1) = h_dig (hd s h2) -> h1 = h2.
Proof. intros s h1 h2 H1 H2 E. unfold in_map in *. rewrite E in H1. congruence. Qed.

(* ---- increaseUseCount ------------------------------------------------------------ *)

Lemma increase_use_hd : forall hid s x,
  hd (increase_use hid s) x =
  if Nat.eqb x hid then set_use (hd s hid) (S (h_use (hd s hid))) else hd s x.
Proof.
  intros hid s x. unfold increase_use, upd_handle.
  destruct (inb hid _); cbn; unfold updn; reflexivity.
Qed.

Lemma increase_use_frame : forall hid s,
  s_map (increase_use hid s) = s_map s /\ s_backing (increase_use hid s) = s_backing s /\
  s_gets (increase_use hid s) = s_gets s /\ s_refs (increase_use hid s) = s_refs s /\
  s_latest (increase_use hid s) = s_latest s /\ s_nexth (increase_use hid s) = s_nexth s /\
  s_nextg (increase_use hid s) = s_nextg s.
Proof.
  intros hid s. unfold increase_use, upd_handle. destruct (inb hid _); cbn; repeat split; reflexivity.
Qed.

Lemma increase_use_queue : forall hid s, NoDup (s_queue s) ->
  NoDup (s_queue (increase_use hid s)) /\
  forall x, In x (s_queue (increase_use hid s)) <-> (In x (s_queue s) /\ x <> hid).
Proof.
  intros hid s Hnd. unfold increase_use.
  set (s1 := upd_handle s hid _). change (s_queue s1) with (s_queue s).
  destruct (inb hid (s_queue s)) eqn:E; cbn.
  - apply inb_In in E. apply swap_remove_spec; assumption.
  - apply inb_false in E. split; [exact Hnd|]. intros x. split.
    + intros H. split; [exact H | intros ->; contradiction].
    + intros (H & _). exact H.
Qed.

Lemma increase_use_fields : forall hid s x,
  h_dig (hd (increase_use hid s) x) = h_dig (hd s x) /\
  h_wv (hd (increase_use hid s) x) = h_wv (hd s x) /\
  h_cv (hd (increase_use hid s) x) = h_cv (hd s x) /\
  h_writing (hd (increase_use hid s) x) = h_writing (hd s x) /\
  h_msg (hd (increase_use hid s) x) = h_msg (hd s x) /\
  h_use (hd (increase_use hid s) x) = (if Nat.eqb x hid then S (h_use (hd s x)) else h_use (hd s x)).
Proof.
  intros hid s x. rewrite increase_use_hd. destruct (Nat.eqb_spec x hid) as [->|]; cbn; repeat split; reflexivity.
Qed.

Lemma increase_use_in_map : forall hid s x, in_map (increase_use hid s) x <-> in_map s x.
Proof.
  intros hid s x. unfold in_map. destruct (increase_use_fields hid s x) as (Ed & _).
  destruct (increase_use_frame hid s) as (Em & _). rewrite Ed, Em. reflexivity.
Qed.

Lemma increase_use_core : forall hid s ex,
  Core s -> map_active_except s ex -> in_map s hid ->
  Core (increase_use hid s) /\ map_active_except (increase_use hid s) ex.
Proof.
  intros hid s ex C MA Hin.
  destruct (increase_use_frame hid s) as (Fm & Fb & Fg & Fr & Fl & Fnh & Fng).
  destruct (increase_use_queue hid s (c_queue_nodup s C)) as (Qnd & Qin).
  assert (Hlt : (hid < s_nexth s)%nat) by (destruct (c_map s C _ _ Hin); assumption).
  split.
  - constructor.
    + intros d x H. rewrite Fm in H. destruct (increase_use_fields hid s x) as (Ed & _).
      rewrite Ed, Fnh. apply (c_map s C). exact H.
    + intros x Hx. rewrite Fnh in Hx. rewrite increase_use_hd.
      destruct (Nat.eqb_spec x hid); [lia | apply (c_fresh s C); exact Hx].
    + intros x Ha. apply increase_use_in_map.
      destruct (Nat.eq_dec x hid) as [->|Hne]; [exact Hin|].
      apply (c_active_in_map s C). destruct (increase_use_fields hid s x) as (_ & _ & _ & Ew & _ & Eu).
      unfold active in *. rewrite Ew, Eu in Ha. apply Nat.eqb_neq in Hne. rewrite Hne in Ha.
      destruct Ha as [H | [H | H]]; [left; exact H | right; left; apply Qin in H; tauto | right; right; exact H].
    + exact Qnd.
    + intros x Hx. apply Qin in Hx. destruct Hx as (Hx & Hne).
      destruct (increase_use_fields hid s x) as (_ & Ewv & Ecv & Ew & _ & Eu).
      apply Nat.eqb_neq in Hne. rewrite Ewv, Ecv, Ew, Eu, Hne. apply (c_queue s C). exact Hx.
    + intros x. destruct (increase_use_fields hid s x) as (_ & Ewv & Ecv & _). rewrite Ewv, Ecv. apply (c_ver s C).
    + intros g gt w Hg Hw. rewrite Fg in Hg.
      destruct (increase_use_fields hid s (w_h w)) as (Ed & Ewv & Ecv & Ew & Em & _).
      rewrite Ed, Ewv, Ecv, Ew, Em. apply (c_write s C g gt w Hg Hw).
    + intros g gt Hg. rewrite Fg in Hg. apply (c_write_nodup s C g gt Hg).
    + intros x g Hx. destruct (increase_use_fields hid s x) as (_ & _ & _ & Ew & _).
      rewrite Ew in Hx. rewrite Fg. apply (c_writing s C x g Hx).
    + intros d Hd. rewrite Fm in Hd. rewrite Fb, Fl. apply (c_absent s C d Hd).
    + intros d x Hd. rewrite Fm in Hd.
      destruct (increase_use_fields hid s x) as (_ & Ewv & Ecv & _ & Em & _).
      rewrite Ewv, Ecv, Em, Fb, Fl. apply (c_present s C d x Hd).
  - intros x Hex Hx. apply increase_use_in_map in Hx.
    destruct (increase_use_fields hid s x) as (_ & _ & _ & Ew & _ & Eu).
    unfold active. rewrite Ew, Eu.
    destruct (Nat.eqb_spec x hid) as [->|Hne]; [left; lia|].
    destruct (MA x Hex Hx) as [H | [H | H]]; [left; exact H | right; left; apply Qin; tauto | right; right; exact H].
Qed.

(* ---- removeOrQueueForWriteLocked (repaired code) --------------------------------------- *)

Definition roq := remove_or_queue repaired.

Lemma roq_frame : forall hid s,
  s_handles (roq hid s) = s_handles s /\ s_backing (roq hid s) = s_backing s /\
  s_gets (roq hid s) = s_gets s /\ s_refs (roq hid s) = s_refs s /\
  s_latest (roq hid s) = s_latest s /\ s_nexth (roq hid s) = s_nexth s /\
  s_nextg (roq hid s) = s_nextg s.
Proof.
  intros hid s. unfold roq, remove_or_queue.
  destruct (_ && _); [|repeat split; reflexivity].
  destruct (h_wv _ =? h_cv _); [repeat split; reflexivity|].
  destruct (inb _ _); repeat split; reflexivity.
Qed.

Lemma roq_set_gets : forall hid s x, roq hid (set_gets s x) = set_gets (roq hid s) x.
Proof.
  intros hid s x. unfold roq, remove_or_queue.
  change (s_handles (set_gets s x)) with (s_handles s).
  change (s_queue (set_gets s x)) with (s_queue s).
  destruct (_ && _); [|reflexivity].
  destruct (h_wv _ =? h_cv _); [reflexivity|].
  destruct (inb hid (s_queue s)); reflexivity.
Qed.

Lemma roq_core : forall hid s,
  Core s -> map_active_except s (Some hid) -> in_map s hid ->
  Core (roq hid s) /\ map_active (roq hid s).
Proof.
  intros hid s C MA Hin. unfold roq, remove_or_queue. cbn [v_guard repaired andb].
  destruct (Nat.eqb (h_use (hd s hid)) 0 && negb (is_some (h_writing (hd s hid)))) eqn:Eidle.
  2:{ (* in use or being written: nothing happens *)
    split; [exact C|]. intros x _ Hx. destruct (Nat.eq_dec x hid) as [->|Hne].
    - apply andb_false_iff in Eidle. destruct Eidle as [E | E].
      + left. apply Nat.eqb_neq in E. lia.
      + right. right. destruct (h_writing (hd s hid)); [discriminate | discriminate E].
    - apply MA; [congruence | exact Hx]. }
  apply andb_true_iff in Eidle. destruct Eidle as (Euse & Ewr).
  apply Nat.eqb_eq in Euse. assert (Hwr : h_writing (hd s hid) = None) by (destruct (h_writing (hd s hid)); [discriminate | reflexivity]).
  clear Ewr.
  destruct (h_wv (hd s hid) =? h_cv (hd s hid)) eqn:Ever.
  - (* clean: the handle is removed from the map *)
    apply N.eqb_eq in Ever.
    assert (Hnq : ~ In hid (s_queue s)).
    { intros Hq. destruct (c_queue s C hid Hq) as (_ & _ & Hlt). lia. }
    assert (Hinact : ~ active s hid).
    { intros [H | [H | H]]; [lia | contradiction | contradiction]. }
    assert (Hother : forall x, in_map s x -> x <> hid -> h_dig (hd s x) <> h_dig (hd s hid)).
    { intros x Hx Hne E. apply Hne. apply (in_map_inj s x hid Hx Hin E). }
    split.
    + constructor; cbn.
      * intros d x H. unfold updN in H. destruct (d =? h_dig (hd s hid)); [discriminate|]. apply (c_map s C d x H).
      * apply (c_fresh s C).
      * intros x Ha. assert (Hx : in_map s x) by (apply (c_active_in_map s C); exact Ha).
        unfold in_map. cbn. rewrite updN_other.
        -- exact Hx.
        -- apply Hother; [exact Hx | intros ->; contradiction].
      * apply (c_queue_nodup s C).
      * apply (c_queue s C).
      * apply (c_ver s C).
      * apply (c_write s C).
      * apply (c_write_nodup s C).
      * apply (c_writing s C).
      * intros d H. unfold updN in H. destruct (N.eqb_spec d (h_dig (hd s hid))) as [E|Hne].
        -- rewrite E. destruct (c_present s C _ _ Hin) as (_ & P). apply P. exact Ever.
        -- apply (c_absent s C d H).
      * intros d x H. unfold updN in H. destruct (d =? h_dig (hd s hid)); [discriminate|]. apply (c_present s C d x H).
    + intros x _ Hx. unfold in_map in Hx. cbn in Hx. unfold updN in Hx.
      destruct (N.eqb_spec (h_dig (hd s x)) (h_dig (hd s hid))) as [E|Hne]; [discriminate|].
      assert (x <> hid) by (intros ->; apply Hne; reflexivity).
      destruct (MA x) as [H1 | [H1 | H1]]; [congruence | exact Hx | left; exact H1 | right; left; exact H1 | right; right; exact H1].
  - apply N.eqb_neq in Ever.
    destruct (inb hid (s_queue s)) eqn:Eq.
    + (* already queued *)
      apply inb_In in Eq. split; [exact C|]. intros x _ Hx.
      destruct (Nat.eq_dec x hid) as [->|Hne]; [right; left; exact Eq | apply MA; [congruence | exact Hx]].
    + (* dirty and idle: queued for writing *)
      apply inb_false in Eq. split.
      * constructor; cbn.
        -- apply (c_map s C).
        -- apply (c_fresh s C).
        -- intros x Ha. unfold in_map. cbn. destruct Ha as [H | [H | H]]; cbn in H.
           ++ apply (c_active_in_map s C). left. exact H.
           ++ apply in_app_or in H. destruct H as [H | [H | []]]; [apply (c_active_in_map s C); right; left; exact H | subst; exact Hin].
           ++ apply (c_active_in_map s C). right. right. exact H.
        -- apply NoDup_snoc. split; [apply (c_queue_nodup s C) | exact Eq].
        -- intros x H. apply in_app_or in H. destruct H as [H | [H | []]]; [apply (c_queue s C); exact H|].
           subst x. split; [exact Euse|]. split; [exact Hwr|]. pose proof (c_ver s C hid) as V. lia.
        -- apply (c_ver s C).
        -- apply (c_write s C).
        -- apply (c_write_nodup s C).
        -- apply (c_writing s C).
        -- apply (c_absent s C).
        -- apply (c_present s C).
      * intros x _ Hx. unfold in_map in Hx. cbn in Hx. unfold active. cbn.
        destruct (Nat.eq_dec x hid) as [->|Hne]; [right; left; apply in_or_app; right; left; reflexivity|].
        destruct (MA x) as [H1 | [H1 | H1]]; [congruence | exact Hx | left; exact H1 | right; left; apply in_or_app; left; exact H1 | right; right; exact H1].
Qed.

(* ---- states that differ only in what Core does not look at -------------------------------- *)

Definition writes_of (s : state) (g : nat) : list write :=
  match s_gets s g with Some gt => g_writes gt | None => [] end.

Definition core_eq (s s' : state) : Prop :=
  s_map s' = s_map s /\ s_queue s' = s_queue s /\ s_backing s' = s_backing s /\
  s_latest s' = s_latest s /\ s_nexth s' = s_nexth s /\
  (forall x, h_dig (hd s' x) = h_dig (hd s x) /\ h_use (hd s' x) = h_use (hd s x) /\
             h_wv (hd s' x) = h_wv (hd s x) /\ h_cv (hd s' x) = h_cv (hd s x) /\
             h_writing (hd s' x) = h_writing (hd s x) /\ h_msg (hd s' x) = h_msg (hd s x)) /\
  (forall x, (s_nexth s <= x)%nat -> hd s' x = hd s x) /\
  (forall g, writes_of s' g = writes_of s g).

Lemma core_eq_in_map : forall s s' x, core_eq s s' -> (in_map s' x <-> in_map s x).
Proof.
  intros s s' x (Em & _ & _ & _ & _ & Eh & _). unfold in_map. destruct (Eh x) as (Ed & _).
  rewrite Em, Ed. reflexivity.
Qed.

Lemma core_eq_active : forall s s' x, core_eq s s' -> (active s' x <-> active s x).
Proof.
  intros s s' x (_ & Eq & _ & _ & _ & Eh & _). unfold active. destruct (Eh x) as (_ & Eu & _ & _ & Ew & _).
  rewrite Eq, Eu, Ew. reflexivity.
Qed.

Lemma core_eq_gets : forall s s' g gt' w, core_eq s s' -> s_gets s' g = Some gt' -> In w (g_writes gt') ->
  exists gt, s_gets s g = Some gt /\ g_writes gt = g_writes gt'.
Proof.
  intros s s' g gt' w (_ & _ & _ & _ & _ & _ & _ & Eg) H Hw. specialize (Eg g). unfold writes_of in Eg.
  rewrite H in Eg. destruct (s_gets s g) as [gt|].
  - exists gt. split; [reflexivity | congruence].
  - rewrite Eg in Hw. destruct Hw.
Qed.

Lemma core_eq_core : forall s s', core_eq s s' -> Core s -> Core s'.
Proof.
  intros s s' E C. pose proof E as (Em & Eq & Eb & El & En & Eh & Ef & Eg).
  constructor.
  - intros d x H. rewrite Em in H. destruct (Eh x) as (Ed & _). rewrite Ed, En. apply (c_map s C d x H).
  - intros x Hx. rewrite En in Hx. rewrite Ef by exact Hx. apply (c_fresh s C x Hx).
  - intros x Ha. apply (core_eq_in_map s s' x E). apply (c_active_in_map s C). apply (core_eq_active s s' x E). exact Ha.
  - rewrite Eq. apply (c_queue_nodup s C).
  - intros x Hx. rewrite Eq in Hx. destruct (Eh x) as (_ & Eu & Ewv & Ecv & Ew & _).
    rewrite Eu, Ewv, Ecv, Ew. apply (c_queue s C x Hx).
  - intros x. destruct (Eh x) as (_ & _ & Ewv & Ecv & _). rewrite Ewv, Ecv. apply (c_ver s C).
  - intros g gt' w Hg Hw. destruct (core_eq_gets s s' g gt' w E Hg Hw) as (gt & Hgt & Ew). rewrite <- Ew in Hw.
    destruct (Eh (w_h w)) as (Ed & _ & Ewv & Ecv & Ewr & Emsg). rewrite Ed, Ewv, Ecv, Ewr, Emsg.
    apply (c_write s C g gt w Hgt Hw).
  - intros g gt' Hg. pose proof (Eg g) as Eg'. unfold writes_of in Eg'. rewrite Hg in Eg'.
    destruct (s_gets s g) as [gt|] eqn:Hgt; rewrite Eg'; [apply (c_write_nodup s C g gt Hgt) | constructor].
  - intros x g Hx. destruct (Eh x) as (_ & _ & _ & _ & Ewr & _). rewrite Ewr in Hx.
    destruct (c_writing s C x g Hx) as (gt & w & Hgt & Hw & Hwh).
    specialize (Eg g). unfold writes_of in Eg. rewrite Hgt in Eg. destruct (s_gets s' g) as [gt'|].
    + exists gt', w. split; [reflexivity|]. split; [rewrite Eg; exact Hw | exact Hwh].
    + rewrite <- Eg in Hw. destruct Hw.
  - intros d H. rewrite Em in H. rewrite Eb, El. apply (c_absent s C d H).
  - intros d x H. rewrite Em in H. destruct (Eh x) as (_ & _ & Ewv & Ecv & _ & Emsg).
    rewrite Ewv, Ecv, Emsg, Eb, El. apply (c_present s C d x H).
Qed.

Lemma core_eq_map_active : forall s s' ex, core_eq s s' -> map_active_except s ex -> map_active_except s' ex.
Proof.
  intros s s' ex E MA x Hex Hx. apply (core_eq_active s s' x E). apply MA; [exact Hex|].
  apply (core_eq_in_map s s' x E). exact Hx.
Qed.

(* ---- decreaseUseCount --------------------------------------------------------------------------- *)

Definition dec_only (hid : nat) (s : state) : state :=
  upd_handle s hid (fun h => set_use h (pred (h_use h))).

Lemma dec_only_core : forall hid s,
  Core s -> map_active s -> in_map s hid ->
  Core (dec_only hid s) /\ map_active_except (dec_only hid s) (Some hid) /\ in_map (dec_only hid s) hid.
Proof.
  intros hid s C MA Hin.
  assert (Hlt : (hid < s_nexth s)%nat) by (destruct (c_map s C _ _ Hin); assumption).
  assert (Hf : forall x, h_dig (hd (dec_only hid s) x) = h_dig (hd s x) /\
                         h_wv (hd (dec_only hid s) x) = h_wv (hd s x) /\
                         h_cv (hd (dec_only hid s) x) = h_cv (hd s x) /\
                         h_writing (hd (dec_only hid s) x) = h_writing (hd s x) /\
                         h_msg (hd (dec_only hid s) x) = h_msg (hd s x) /\
                         (h_use (hd (dec_only hid s) x) <= h_use (hd s x))%nat /\
                         (x <> hid -> h_use (hd (dec_only hid s) x) = h_use (hd s x))).
  { intros x. unfold dec_only, upd_handle. cbn. unfold updn. destruct (Nat.eqb_spec x hid) as [->|Hne]; cbn.
    - repeat split; try reflexivity; [lia | intros H; contradiction].
    - repeat split; try reflexivity; lia. }
  assert (Hm : forall x, in_map (dec_only hid s) x <-> in_map s x).
  { intros x. unfold in_map. destruct (Hf x) as (Ed & _). rewrite Ed. reflexivity. }
  split; [|split].
  - constructor.
    + intros d x H. destruct (Hf x) as (Ed & _). rewrite Ed. apply (c_map s C d x H).
    + intros x Hx. cbn in Hx. unfold dec_only, upd_handle. cbn. rewrite updn_other by lia. apply (c_fresh s C x Hx).
    + intros x Ha. apply Hm. apply (c_active_in_map s C). destruct (Hf x) as (_ & _ & _ & Ew & _ & Eu & _).
      unfold active in *. rewrite Ew in Ha. destruct Ha as [H | [H | H]]; [left; lia | right; left; exact H | right; right; exact H].
    + apply (c_queue_nodup s C).
    + intros x Hx. cbn in Hx. destruct (c_queue s C x Hx) as (Q1 & Q2 & Q3).
      destruct (Hf x) as (_ & Ewv & Ecv & Ew & _ & Eu & _). rewrite Ewv, Ecv, Ew. split; [lia | split; assumption].
    + intros x. destruct (Hf x) as (_ & Ewv & Ecv & _). rewrite Ewv, Ecv. apply (c_ver s C).
    + intros g gt w Hg Hw. destruct (Hf (w_h w)) as (Ed & Ewv & Ecv & Ew & Em & _).
      rewrite Ed, Ewv, Ecv, Ew, Em. apply (c_write s C g gt w Hg Hw).
    + apply (c_write_nodup s C).
    + intros x g Hx. destruct (Hf x) as (_ & _ & _ & Ew & _). rewrite Ew in Hx. apply (c_writing s C x g Hx).
    + apply (c_absent s C).
    + intros d x H. destruct (Hf x) as (_ & Ewv & Ecv & _ & Em & _). rewrite Ewv, Ecv, Em. apply (c_present s C d x H).
  - intros x Hex Hx. assert (x <> hid) by congruence. apply Hm in Hx.
    destruct (Hf x) as (_ & _ & _ & Ew & _ & _ & Eu). unfold active. rewrite Ew, Eu by assumption.
    apply (MA x); [discriminate | exact Hx].
  - apply Hm. exact Hin.
Qed.

Lemma decrease_use_core : forall hid s,
  Core s -> map_active s -> in_map s hid ->
  Core (decrease_use repaired hid s) /\ map_active (decrease_use repaired hid s).
Proof.
  intros hid s C MA Hin. destruct (dec_only_core hid s C MA Hin) as (C1 & MA1 & Hin1).
  apply (roq_core hid (dec_only hid s) C1 MA1 Hin1).
Qed.

(* ---- Get's dequeue loop -------------------------------------------------------------------------- *)

Lemma dequeue_spec : forall n g hs q hs' q' ws,
  dequeue g n hs q = (hs', q', ws) -> NoDup q ->
  q = q' ++ rev (map w_h ws) /\
  (forall x, hs' x = if inb x (map w_h ws) then set_writing (hs x) (Some g) else hs x) /\
  (forall w, In w ws -> w_dig w = h_dig (hs (w_h w)) /\ w_msg w = h_msg (hs (w_h w)) /\ w_ver w = h_cv (hs (w_h w))).
Proof.
  induction n as [|n IH]; intros g hs q hs' q' ws H Hnd.
  - cbn in H. inversion H; subst. cbn. rewrite app_nil_r. split; [reflexivity|]. split; [intros; reflexivity | intros w []].
  - destruct q as [|a q0] eqn:Eq.
    { cbn in H. inversion H; subst. cbn. split; [reflexivity|]. split; [intros; reflexivity | intros w []]. }
    assert (Hne : a :: q0 <> []) by discriminate. rewrite <- Eq in *. clear Eq a q0.
    destruct (exists_last Hne) as (l & z & ->).
    assert (Hdq : dequeue g (S n) hs (l ++ [z]) =
                  let '(hs'', q'', ws') := dequeue g n (updn hs z (set_writing (hs z) (Some g))) l in
                  (hs'', q'', mkW z (h_dig (hs z)) (h_msg (hs z)) (h_cv (hs z)) :: ws')).
    { cbn [dequeue]. destruct (l ++ [z]) eqn:E; [destruct l; discriminate|]. rewrite <- E.
      rewrite last_last, removelast_last. reflexivity. }
    rewrite Hdq in H. clear Hdq.
    destruct (dequeue g n (updn hs z (set_writing (hs z) (Some g))) l) as [[hs1 q1] ws1] eqn:Er.
    inversion H; subst; clear H.
    apply NoDup_snoc in Hnd. destruct Hnd as (Hl & Hz).
    destruct (IH _ _ _ _ _ _ Er Hl) as (I1 & I2 & I3).
    assert (Hzw : ~ In z (map w_h ws1)).
    { intros Hin. apply Hz. rewrite I1. apply in_or_app. right. apply in_rev. rewrite rev_involutive. exact Hin. }
    split; [|split].
    + cbn. rewrite I1 at 1. rewrite app_assoc. reflexivity.
    + intros x. rewrite I2. cbn [map w_h inb existsb]. unfold inb.
      destruct (Nat.eqb_spec x z) as [->|Hxz].
      * cbn. apply inb_false in Hzw. unfold inb in Hzw. rewrite Hzw. rewrite updn_same. reflexivity.
      * cbn. rewrite updn_other by exact Hxz. reflexivity.
    + intros w [Hw | Hw].
      * subst w. cbn. repeat split; reflexivity.
      * destruct (I3 w Hw) as (A & B & D). unfold updn in A, B, D.
        destruct (Nat.eqb_spec (w_h w) z) as [E|E]; cbn in A, B, D; [rewrite E|]; repeat split; assumption.
Qed.
