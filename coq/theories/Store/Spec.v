(* C07, "statistics are never lost": the property as (a) predicates on model
   states and (b) a monitor over observable traces.  The monitor [mon_step]
   only looks at what a client of the store and the backing BlobAccess can
   see (events issued, Get/Release results, contents of the backing store);
   it is evaluated by Corr.v on traces of the implementation and proved of
   the model for all event lists in Proofs.v. *)
From Coq Require Export String.
From VF Require Export Store.Model.
Open Scope N_scope.

(* ---- (a) state predicates -------------------------------------------------- *)

(* handle [hid] is the one registered for its digest *)
Definition in_map (s : state) (hid : nat) : Prop :=
  s_map s (h_dig (s_handles s hid)) = Some hid.

Definition write_pending (s : state) (w : write) : Prop :=
  exists g gt, s_gets s g = Some gt /\ In w (g_writes gt).

(* Handles reachable from the store: the map, the write queue, writes in
   flight and handles held by callers. *)
Definition reachable (s : state) (hid : nat) : Prop :=
  in_map s hid \/ In hid (s_queue s) \/ (exists w, write_pending s w /\ w_h w = hid)
  \/ (exists g, s_refs s g = Some hid).

(* "no handle is in use, the write queue is empty, no write is in flight" *)
Definition quiescent (s : state) : Prop :=
  (forall d hid, s_map s d = Some hid -> h_use (s_handles s hid) = 0%nat) /\
  s_queue s = [] /\
  (forall w, ~ write_pending s w).

(* ---- (b) the monitor --------------------------------------------------------- *)

Record mstate := mkM {
  m_gets : list (nat * N);            (* Get calls in flight: id, digest *)
  m_refs : list (nat * (N * nat));    (* handles held: Get id, digest, handle identity *)
  m_latest : N -> list N;             (* message at the latest dirty Release, per digest *)
  m_seen : list N;                    (* digests released dirty so far *)
  m_nextg : nat }.

Definition minit : mstate := mkM [] [] (fun _ => []) [] 0.

Fixpoint alookup {A} (k : nat) (l : list (nat * A)) : option A :=
  match l with
  | [] => None
  | (k', v) :: t => if Nat.eqb k k' then Some v else alookup k t
  end.

Fixpoint aremove {A} (k : nat) (l : list (nat * A)) : list (nat * A) :=
  match l with
  | [] => []
  | (k', v) :: t => if Nat.eqb k k' then aremove k t else (k', v) :: aremove k t
  end.

Definition kind_lost := "C07:store-lost-update"%string.
Definition kind_two := "C07:store-two-handles"%string.
Definition kind_stale := "C07:store-stale-base"%string.
Definition kind_stale_read := "C07:store-stale-read"%string.

(* The backing store agrees with the latest released message of every
   digest that was ever released dirty. *)
Definition backing_current (m : mstate) (backing : N -> list N) : bool :=
  forallb (fun d => list_N_eqb (backing d) (m_latest m d)) (m_seen m).

(* One observed step: the event, what the store answered, the backing store
   afterwards.  Returns the new monitor state and "" or a violation kind. *)
Definition mon_step (m : mstate) (e : event) (o : out) (backing : N -> list N) : mstate * string :=
  match e, o with
  | EGet d, OBegin reads writes =>
    let g := m_nextg m in
    let m' := mkM (m_gets m ++ [(g, d)]) (m_refs m) (m_latest m) (m_seen m) (S g) in
    (* Nobody holds a handle, no other Get is running, and this Get found
       neither a handle for d nor anything in the write queue: every update
       released so far must have reached the backing store. *)
    let quiet := match m_gets m, m_refs m, writes with [], [], [] => reads | _, _, _ => false end in
    (m', if quiet && negb (backing_current m backing) then kind_lost else ""%string)
  | EEnd g, OEnd None =>
    (mkM (aremove g (m_gets m)) (m_refs m) (m_latest m) (m_seen m) (m_nextg m), ""%string)
  | EEnd g, OEnd (Some (ident, msg)) =>
    match alookup g (m_gets m) with
    | Some d =>
      let m' := mkM (aremove g (m_gets m)) (m_refs m ++ [(g, (d, ident))]) (m_latest m) (m_seen m) (m_nextg m) in
      if negb (forallb (fun r => negb (N.eqb (fst (snd r)) d) || Nat.eqb (snd (snd r)) ident) (m_refs m))
      then (m', kind_two)
      else if list_N_eqb msg (m_latest m d) then (m', ""%string)
      (* The handle does not carry the latest released message.  If the
         backing store does not have it either, the update lives in some
         other handle object: the store lost track of it.  If the backing
         store is up to date, the handle was built from a read that a
         completed write-back overtook. *)
      else if list_N_eqb (backing d) (m_latest m d) then (m', kind_stale_read)
      else (m', kind_stale)
    | None => (m, ""%string)
    end
  | ERel g dirty tok, ORel msg =>
    match alookup g (m_refs m) with
    | Some (d, _) =>
      (mkM (m_gets m) (aremove g (m_refs m))
           (if dirty then updN (m_latest m) d msg else m_latest m)
           (if dirty then d :: m_seen m else m_seen m) (m_nextg m), ""%string)
    | None => (m, ""%string)
    end
  | _, _ => (m, ""%string)
  end.
