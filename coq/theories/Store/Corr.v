(* Correspondence evaluator for the mutable proto store: the monitor of
   Spec.v folded over the implementation's trace (violations), and the
   model of Model.v run on the same events and compared with everything the
   harness observed (mismatches). *)
From VF Require Import Common.Verdict Store.Model Store.Spec.
Open Scope N_scope.

Record case := mkCase {
  c_evs : list event;
  c_outs : list out;                 (* what the implementation answered *)
  c_dumps : list (list (list N)) }.  (* backing store after each event, digests 0..4 *)

Definition dump_fun (d : list (list N)) : N -> list N := fun k => nth (N.to_nat k) d [].

(* ---- violations: the monitor on the implementation trace ------------------- *)

(* first step violating with kind [kind_lost] if any, else first violation *)
Fixpoint viol_from (i : nat) (m : mstate) (evs : list event) (outs : list out)
    (dumps : list (list (list N))) (first_other : verdict) : verdict :=
  match evs, outs, dumps with
  | e :: evs', o :: outs', d :: dumps' =>
    let '(m', k) := mon_step m e o (dump_fun d) in
    if String.eqb k "" then viol_from (S i) m' evs' outs' dumps' first_other
    else if String.eqb k kind_lost then VViolation i k
    else viol_from (S i) m' evs' outs' dumps'
           (match first_other with VOk => VViolation i k | _ => first_other end)
  | [], [], [] => first_other
  | _, _, _ => VMismatch i "malformed case"
  end.

(* ---- mismatches: model vs implementation ------------------------------------ *)

Definition pair_eqb (a b : N * list N) : bool := N.eqb (fst a) (fst b) && list_N_eqb (snd a) (snd b).

Fixpoint remove_one (x : N * list N) (l : list (N * list N)) : option (list (N * list N)) :=
  match l with
  | [] => None
  | y :: t => if pair_eqb x y then Some t
              else match remove_one x t with Some t' => Some (y :: t') | None => None end
  end.

(* equality up to order: parked writes arrive in goroutine order *)
Fixpoint perm_eqb (a b : list (N * list N)) : bool :=
  match a with
  | [] => match b with [] => true | _ => false end
  | x :: a' => match remove_one x b with Some b' => perm_eqb a' b' | None => false end
  end.

Definition out_eqb (a b : out) : bool :=
  match a, b with
  | OBegin r1 w1, OBegin r2 w2 => Bool.eqb r1 r2 && perm_eqb w1 w2
  | ONone, ONone => true
  | OEnd None, OEnd None => true
  | OEnd (Some (f1, m1)), OEnd (Some (f2, m2)) => Nat.eqb f1 f2 && list_N_eqb m1 m2
  | ORel m1, ORel m2 => list_N_eqb m1 m2
  | _, _ => false
  end.

Definition digests := [0; 1; 2; 3; 4].

Fixpoint mism_from (v : variant) (i : nat) (s : state) (evs : list event) (outs : list out)
    (dumps : list (list (list N))) : verdict :=
  match evs, outs, dumps with
  | e :: evs', o :: outs', d :: dumps' =>
    let '(s', y) := step_v v s e in
    if negb (out_eqb o y) then VMismatch i "output"
    else if negb (forallb (fun k => list_N_eqb (s_backing s' k) (dump_fun d k)) digests)
    then VMismatch i "backing store"
    else mism_from v (S i) s' evs' outs' dumps'
  | _, _, _ => VOk
  end.

Definition check_case_v (v : variant) (c : case) : verdict :=
  vcombine (viol_from 0 minit (c_evs c) (c_outs c) (c_dumps c) VOk)
           (mism_from v 0 init (c_evs c) (c_outs c) (c_dumps c)).

(* The variant the code currently has. *)
Definition check_case := check_case_v repaired.
