(* The trace monitor of Spec.v ([mon_step], the predicate Corr.v folds over
   the implementation's trace) is satisfied by every trace of the model.

   [mon_step] keeps its own books: the Get calls in flight, the handles
   held by callers (with the identity the store reported for them), the
   message of the latest dirty Release per digest.  [Sim s m] relates these
   books to the model state after the same events; it is preserved by every
   step (given the model invariant [Inv]), and under it each of the three
   checks of the monitor reduces to a clause of [Inv]:
     lost-update  <- quiescent => map empty => c_absent
     two-handles  <- held handles are registered, one handle per digest
     stale-base   <- c_present on the returned (registered) handle.
   The fourth kind, stale-read, is the known finding: it can be reported
   on model traces ([returned_handle_latest_refuted]). *)
From Coq Require Import Lia String.
From VF Require Import Store.Model Store.Spec Store.Lemmas Store.Invariant Store.Proofs Store.Legacy.
Open Scope N_scope.

(* ---- association lists ------------------------------------------------------------------ *)

Lemma alookup_In : forall {A} k (l : list (nat * A)) v, alookup k l = Some v -> In (k, v) l.
Proof.
  intros A k l. induction l as [|[k' v'] t IH]; intros v H; [discriminate|]. cbn in H.
  destruct (Nat.eqb_spec k k') as [E|E].
  - inversion H; subst. left. reflexivity.
  - right. apply IH. exact H.
Qed.

Lemma alookup_None : forall {A} k (l : list (nat * A)) v, alookup k l = None -> ~ In (k, v) l.
Proof.
  intros A k l v. induction l as [|[k' v'] t IH]; intros H Hin; [destruct Hin|]. cbn in H.
  destruct (Nat.eqb_spec k k') as [E|E]; [discriminate|].
  destruct Hin as [Hin | Hin]; [inversion Hin; subst; apply E; reflexivity | apply IH; assumption].
Qed.

Lemma alookup_app : forall {A} k (l l' : list (nat * A)),
  alookup k (l ++ l') = match alookup k l with Some v => Some v | None => alookup k l' end.
Proof.
  intros A k l l'. induction l as [|[k' v'] t IH]; [reflexivity|]. cbn.
  destruct (Nat.eqb k k'); [reflexivity | exact IH].
Qed.

Lemma alookup_aremove : forall {A} k k' (l : list (nat * A)),
  alookup k (aremove k' l) = if Nat.eqb k k' then None else alookup k l.
Proof.
  intros A k k' l. induction l as [|[k0 v0] t IH]; cbn.
  - destruct (Nat.eqb k k'); reflexivity.
  - destruct (Nat.eqb_spec k' k0) as [E|E].
    + subst k0. rewrite IH. destruct (Nat.eqb_spec k k'); reflexivity.
    + cbn. destruct (Nat.eqb_spec k k0) as [E0|E0]; [|exact IH].
      subst k0. destruct (Nat.eqb_spec k k'); [subst; contradiction | reflexivity].
Qed.

Lemma In_aremove : forall {A} k v k' (l : list (nat * A)),
  In (k, v) (aremove k' l) <-> In (k, v) l /\ k <> k'.
Proof.
  intros A k v k' l. induction l as [|[k0 v0] t IH]; cbn; [tauto|].
  destruct (Nat.eqb_spec k' k0) as [E|E].
  - subst k0. rewrite IH. split.
    + intros (H & Hne). split; [right; exact H | exact Hne].
    + intros ([H | H] & Hne); [inversion H; subst; contradiction | split; assumption].
  - cbn. rewrite IH. split.
    + intros [H | (H & Hne)]; [inversion H; subst; split; [left; reflexivity | intros X; apply E; symmetry; exact X] | split; [right; exact H | exact Hne]].
    + intros ([H | H] & Hne); [left; exact H | right; split; assumption].
Qed.

Lemma list_N_eqb_eq : forall a b, list_N_eqb a b = true <-> a = b.
Proof.
  induction a as [|x a IH]; intros [|y b]; cbn; split; intros H; try reflexivity; try discriminate.
  - apply andb_true_iff in H. destruct H as (H1 & H2). apply N.eqb_eq in H1. apply IH in H2. subst. reflexivity.
  - inversion H; subst. rewrite N.eqb_refl. apply IH. reflexivity.
Qed.

(* ---- what no step changes about an allocated handle -------------------------------------- *)

(* digest and (once set) identity of an allocated handle are stable *)
Definition stable (s s' : state) : Prop :=
  (s_nexth s <= s_nexth s')%nat /\
  forall x, (x < s_nexth s)%nat ->
    h_dig (hd s' x) = h_dig (hd s x) /\
    forall i, h_first (hd s x) = Some i -> h_first (hd s' x) = Some i.

Lemma stable_refl : forall s, stable s s.
Proof. intros s. split; [lia|]. intros x _. split; [reflexivity | intros i H; exact H]. Qed.

Lemma stable_trans : forall s1 s2 s3, stable s1 s2 -> stable s2 s3 -> stable s1 s3.
Proof.
  intros s1 s2 s3 (N1 & H1) (N2 & H2). split; [lia|]. intros x Hx.
  destruct (H1 x Hx) as (D1 & F1). destruct (H2 x) as (D2 & F2); [lia|].
  split; [congruence|]. intros i Hi. apply F2. apply F1. exact Hi.
Qed.

(* the step leaves the handle table alone *)
Lemma stable_same : forall s s', s_handles s' = s_handles s -> s_nexth s' = s_nexth s -> stable s s'.
Proof.
  intros s s' Eh En. split; [lia|]. intros x _. rewrite Eh. split; [reflexivity | intros i H; exact H].
Qed.

Definition keeps (f : handle -> handle) : Prop :=
  forall h, h_dig (f h) = h_dig h /\ h_first (f h) = h_first h.

Lemma stable_upd : forall s hid f, keeps f -> stable s (upd_handle s hid f).
Proof.
  intros s hid f K. split; [cbn; lia|]. intros x _. unfold upd_handle. cbn. unfold updn.
  destruct (Nat.eqb_spec x hid) as [E|E]; [subst x|].
  - destruct (K (hd s hid)) as (K1 & K2). rewrite K1, K2. split; [reflexivity | intros i H; exact H].
  - split; [reflexivity | intros i H; exact H].
Qed.

Lemma stable_increase_use : forall hid s, stable s (increase_use hid s).
Proof.
  intros hid s. destruct (increase_use_frame hid s) as (_ & _ & _ & _ & _ & Fn & _).
  split; [lia|]. intros x _. rewrite increase_use_hd.
  destruct (Nat.eqb_spec x hid) as [E|E]; [subst x|]; cbn; (split; [reflexivity | intros i H; exact H]).
Qed.

Lemma stable_roq : forall hid s, stable s (roq hid s).
Proof.
  intros hid s. destruct (roq_frame hid s) as (Fh & _ & _ & _ & _ & Fn & _). apply stable_same; assumption.
Qed.

Lemma stable_decrease_use : forall hid s, stable s (decrease_use repaired hid s).
Proof.
  intros hid s. unfold decrease_use. fold roq.
  eapply stable_trans; [|apply stable_roq]. apply stable_upd. intros h. split; reflexivity.
Qed.

Lemma dequeue_keeps : forall n g hs q hs' q' ws,
  dequeue g n hs q = (hs', q', ws) ->
  forall x, h_dig (hs' x) = h_dig (hs x) /\ h_first (hs' x) = h_first (hs x).
Proof.
  induction n as [|n IH]; intros g hs q hs' q' ws H x.
  - cbn in H. inversion H; subst. split; reflexivity.
  - cbn [dequeue] in H. destruct q as [|a q0]; [inversion H; subst; split; reflexivity|].
    set (z := last (a :: q0) 0%nat) in *.
    destruct (dequeue g n (updn hs z (set_writing (hs z) (Some g))) (removelast (a :: q0))) as [[hs1 q1] ws1] eqn:Er.
    inversion H; subst. destruct (IH _ _ _ _ _ _ Er x) as (D & F). rewrite D, F. unfold updn.
    destruct (Nat.eqb_spec x z) as [E|E]; [subst x|]; cbn; split; reflexivity.
Qed.

Lemma dequeue_nil : forall g hs q hs' q', dequeue g writes_per_read hs q = (hs', q', []) -> q = [].
Proof.
  intros g hs q hs' q' H. destruct q as [|a q0]; [reflexivity|]. exfalso.
  unfold writes_per_read in H. remember 2%nat as n eqn:En. clear En. cbn [dequeue] in H.
  destruct (dequeue g n _ _) as [[hs1 q1] ws1]. inversion H.
Qed.

Ltac splits := repeat match goal with |- _ /\ _ => split end.

(* ---- the shape of each event, as far as the monitor's books are concerned ---------------- *)

Lemma step_get_shape : forall d s, exists s' gt ws,
  step_get repaired d s = (s', OBegin (negb (is_some (s_map s d))) (map (fun w => (w_dig w, w_msg w)) ws)) /\
  s_gets s' = updn (s_gets s) (s_nextg s) (Some gt) /\ g_dig gt = d /\ g_existing gt = s_map s d /\
  s_refs s' = s_refs s /\ s_latest s' = s_latest s /\ s_backing s' = s_backing s /\
  s_nextg s' = S (s_nextg s) /\ stable s s' /\
  (ws = [] -> s_map s d = None -> s_queue s = []).
Proof.
  intros d s. unfold step_get.
  set (s1 := match s_map s d with Some hid => increase_use hid s | None => s end).
  assert (H1 : s_gets s1 = s_gets s /\ s_refs s1 = s_refs s /\ s_latest s1 = s_latest s /\
               s_backing s1 = s_backing s /\ s_nextg s1 = s_nextg s /\ stable s s1 /\ s_nexth s1 = s_nexth s).
  { unfold s1. destruct (s_map s d) as [hid|].
    - destruct (increase_use_frame hid s) as (_ & Fb & Fg & Fr & Fl & Fnh & Fn).
      splits; try assumption; apply stable_increase_use.
    - splits; try reflexivity; apply stable_refl. }
  destruct H1 as (Eg & Er & El & Eb & En & St & Enh).
  destruct (dequeue (s_nextg s) writes_per_read (s_handles s1) (s_queue s1)) as [[hs q] ws] eqn:Ed.
  eexists. eexists. exists ws. split; [reflexivity|]. cbn.
  rewrite Eg, Er, El, Eb. splits; try reflexivity.
  - split; [destruct St as (S1 & _); cbn; lia|].
    intros x Hx. destruct St as (_ & S2). destruct (S2 x Hx) as (D & F). cbn.
    destruct (dequeue_keeps _ _ _ _ _ _ _ Ed x) as (D' & F'). rewrite D', F'. split; [exact D | exact F].
  - intros -> Hm. apply dequeue_nil in Ed. unfold s1 in Ed. rewrite Hm in Ed. exact Ed.
Qed.

Lemma step_read_shape : forall g ok s,
  let s' := fst (step_read g ok s) in
  snd (step_read g ok s) = ONone /\
  (forall g0, option_map (fun gt => (g_dig gt, g_existing gt)) (s_gets s' g0) =
              option_map (fun gt => (g_dig gt, g_existing gt)) (s_gets s g0)) /\
  s_refs s' = s_refs s /\ s_latest s' = s_latest s /\ s_nextg s' = s_nextg s /\ stable s s'.
Proof.
  intros g ok s. unfold step_read.
  destruct (s_gets s g) as [gt|] eqn:Hg.
  2:{ cbn. splits; try reflexivity; apply stable_refl. }
  destruct (g_read gt); cbn; splits; try reflexivity; try apply stable_refl; try (apply stable_same; reflexivity).
  intros g0. unfold updn. destruct (Nat.eqb_spec g0 g) as [E|E]; [subst g0; rewrite Hg; reflexivity | reflexivity].
Qed.

Lemma step_put_shape : forall g d m ok s,
  let s' := fst (step_put repaired g d m ok s) in
  snd (step_put repaired g d m ok s) = ONone /\
  (forall g0, option_map (fun gt => (g_dig gt, g_existing gt)) (s_gets s' g0) =
              option_map (fun gt => (g_dig gt, g_existing gt)) (s_gets s g0)) /\
  s_refs s' = s_refs s /\ s_latest s' = s_latest s /\ s_nextg s' = s_nextg s /\ stable s s'.
Proof.
  intros g d m ok s.
  destruct (s_gets s g) as [gt|] eqn:Hg.
  2:{ unfold step_put. rewrite Hg. cbn. splits; try reflexivity; apply stable_refl. }
  destruct (take_write d m (g_writes gt)) as [[w rest]|] eqn:Ht.
  2:{ unfold step_put. rewrite Hg, Ht. cbn. splits; try reflexivity; apply stable_refl. }
  cbn zeta. rewrite (step_put_state g d m ok s gt w rest Hg Ht).
  split; [unfold step_put; rewrite Hg, Ht; reflexivity|].
  set (gt' := mkG _ _ _ _ _ _). destruct (roq_frame (w_h w) (put_upd g ok w gt' s)) as (_ & _ & Fg & Fr & Fl & _ & Fn).
  rewrite Fg, Fr, Fl, Fn. split; [|split; [|split; [|split]]].
  - intros g0. unfold put_upd. destruct ok; cbn; unfold updn;
      (destruct (Nat.eqb_spec g0 g) as [E|E]; [subst g0; rewrite Hg; reflexivity | reflexivity]).
  - unfold put_upd. destruct ok; reflexivity.
  - unfold put_upd. destruct ok; reflexivity.
  - unfold put_upd. destruct ok; reflexivity.
  - eapply stable_trans; [|apply stable_roq].
    unfold put_upd. destruct ok.
    + split; [cbn; lia|]. intros x _. cbn. unfold updn.
      destruct (Nat.eqb_spec x (w_h w)) as [E|E]; [subst x|]; cbn; (split; [reflexivity | intros i H; exact H]).
    + split; [cbn; lia|]. intros x _. cbn. unfold updn.
      destruct (Nat.eqb_spec x (w_h w)) as [E|E]; [subst x|]; cbn; (split; [reflexivity | intros i H; exact H]).
Qed.

Lemma step_rel_shape : forall g dirty tok s hid, s_refs s g = Some hid ->
  let s' := fst (step_rel repaired g dirty tok s) in
  let msg := if dirty then h_msg (hd s hid) ++ [tok] else h_msg (hd s hid) in
  snd (step_rel repaired g dirty tok s) = ORel msg /\
  s_refs s' = updn (s_refs s) g None /\ s_gets s' = s_gets s /\ s_nextg s' = s_nextg s /\
  (forall d, s_latest s' d = if dirty then updN (s_latest s) (h_dig (hd s hid)) msg d else s_latest s d) /\
  stable s s'.
Proof.
  intros g dirty tok s hid Hr. unfold step_rel. rewrite Hr. cbn [fst snd v_bump repaired].
  split; [reflexivity|]. unfold decrease_use. fold roq.
  match goal with |- context [roq hid ?x] => set (s2 := x) end.
  destruct (roq_frame hid s2) as (_ & _ & Fg & Fr & Fl & _ & Fn). rewrite Fg, Fr, Fl, Fn.
  assert (St : stable s s2).
  { unfold s2. eapply stable_trans; [|apply stable_upd; intros h; split; reflexivity].
    destruct dirty.
    - split; [cbn; lia|]. intros x _. cbn. unfold updn.
      destruct (Nat.eqb_spec x hid) as [E|E]; [subst x|]; cbn; (split; [reflexivity | intros i H; exact H]).
    - apply stable_same; reflexivity. }
  unfold s2. destruct dirty; cbn; splits; try reflexivity; eapply stable_trans; try exact St; apply stable_roq.
Qed.

Lemma step_end_cases : forall g s,
  step_end repaired g s = (s, ONone) \/
  exists gt, s_gets s g = Some gt /\ step_end repaired g s = end_body g gt s.
Proof.
  intros g s. unfold step_end. destruct (s_gets s g) as [gt|] eqn:Hg; [|left; reflexivity].
  destruct (g_read gt); destruct (g_writes gt); try (left; reflexivity); right; exists gt; (split; [reflexivity|]);
    unfold end_body; reflexivity.
Qed.

(* [end_body]: the Get fails (no handle) or returns handle [hid] *)
Lemma end_body_shape : forall g gt s, Core s -> s_gets s g = Some gt ->
  (forall hid, g_existing gt = Some hid -> h_dig (hd s hid) = g_dig gt /\ (hid < s_nexth s)%nat) ->
  let s' := fst (end_body g gt s) in
  s_gets s' = updn (s_gets s) g None /\ s_latest s' = s_latest s /\ s_nextg s' = s_nextg s /\ stable s s' /\
  ((snd (end_body g gt s) = OEnd None /\ s_refs s' = s_refs s) \/
   exists hid f, snd (end_body g gt s) = OEnd (Some (f, h_msg (hd s' hid))) /\
     s_refs s' = updn (s_refs s) g (Some hid) /\ h_dig (hd s' hid) = g_dig gt /\ h_first (hd s' hid) = Some f).
Proof.
  intros g gt s C Hg Hex. unfold end_body.
  set (s0 := set_gets s (updn (s_gets s) g None)).
  assert (St0 : stable s s0) by (apply stable_same; reflexivity).
  (* returning handle hid from a state s1 *)
  assert (R : forall hid s1, s_gets s1 = s_gets s0 -> s_latest s1 = s_latest s -> s_nextg s1 = s_nextg s ->
              s_refs s1 = s_refs s -> stable s s1 -> h_dig (hd s1 hid) = g_dig gt -> (hid < s_nexth s1)%nat ->
              let s' := fst (return_handle g hid s1) in
              s_gets s' = updn (s_gets s) g None /\ s_latest s' = s_latest s /\ s_nextg s' = s_nextg s /\ stable s s' /\
              ((snd (return_handle g hid s1) = OEnd None /\ s_refs s' = s_refs s) \/
               exists hid0 f, snd (return_handle g hid s1) = OEnd (Some (f, h_msg (hd s' hid0))) /\
                 s_refs s' = updn (s_refs s) g (Some hid0) /\ h_dig (hd s' hid0) = g_dig gt /\ h_first (hd s' hid0) = Some f)).
  { intros hid s1 Eg El En Er St Hd Hlt. unfold return_handle. cbn [fst snd].
    set (first := match h_first (hd s1 hid) with Some f => f | None => g end).
    cbn. rewrite Eg, El, En, Er. split; [reflexivity|]. split; [reflexivity|]. split; [reflexivity|]. split.
    - eapply stable_trans; [exact St|]. split; [cbn; lia|]. intros x _. cbn. unfold updn.
      destruct (Nat.eqb_spec x hid) as [E|E]; [subst x|]; cbn.
      + split; [reflexivity|]. intros i Hi. unfold first. rewrite Hi. reflexivity.
      + split; [reflexivity | intros i Hi; exact Hi].
    - right. exists hid, first. rewrite !updn_same. cbn. splits; try reflexivity. exact Hd. }
  destruct (g_existing gt) as [hid|] eqn:Eex.
  - destruct (Hex hid eq_refl) as (Hd & Hlt). destruct (g_failed gt).
    + cbn [fst snd]. unfold decrease_use. fold roq.
      match goal with |- context [roq hid ?x] => set (s2 := x) end.
      destruct (roq_frame hid s2) as (_ & _ & Fg & Fr & Fl & _ & Fn). rewrite Fg, Fr, Fl, Fn.
      split; [reflexivity|]. split; [reflexivity|]. split; [reflexivity|]. split.
      * eapply stable_trans; [|apply stable_roq]. eapply stable_trans; [exact St0|].
        apply stable_upd. intros h. split; reflexivity.
      * left. split; reflexivity.
    + apply R; try reflexivity; assumption.
  - destruct (g_failed gt).
    + cbn [fst snd]. split; [reflexivity|]. split; [reflexivity|]. split; [reflexivity|]. split; [exact St0|].
      left. split; reflexivity.
    + destruct (s_map s0 (g_dig gt)) as [hid'|] eqn:Em.
      * destruct (c_map s C _ _ Em) as (Hd & Hlt).
        destruct (increase_use_frame hid' s0) as (_ & _ & Fg & Fr & Fl & Fnh & Fn).
        destruct (increase_use_fields hid' s0 hid') as (Ed & _).
        apply R; try assumption.
        -- eapply stable_trans; [exact St0 | apply stable_increase_use].
        -- rewrite Ed. exact Hd.
        -- rewrite Fnh. exact Hlt.
      * apply R; try reflexivity.
        -- eapply stable_trans; [exact St0|]. split; [cbn; lia|]. intros x Hx. cbn. rewrite updn_other by (cbn in Hx; lia).
           split; [reflexivity | intros i Hi; exact Hi].
        -- cbn. rewrite updn_same. reflexivity.
        -- cbn. lia.
Qed.

(* ---- the simulation ----------------------------------------------------------------------- *)

Record Sim (s : state) (m : mstate) : Prop := mkSim {
  sm_nextg : m_nextg m = s_nextg s;
  sm_gets : forall g, alookup g (m_gets m) = option_map g_dig (s_gets s g);
  sm_refs_in : forall g d i, In (g, (d, i)) (m_refs m) ->
     exists hid, s_refs s g = Some hid /\ h_dig (hd s hid) = d /\ h_first (hd s hid) = Some i;
  sm_refs_ex : forall g hid, s_refs s g = Some hid -> exists v, In (g, v) (m_refs m);
  sm_latest : forall d, m_latest m d = s_latest s d;
  sm_exist : forall g gt hid, s_gets s g = Some gt -> g_existing gt = Some hid -> h_dig (hd s hid) = g_dig gt }.

Lemma sim_init : Sim init minit.
Proof.
  constructor; cbn; try reflexivity; try discriminate.
  - intros g d i [].
Qed.

Lemma ref_lt : forall s g hid, Inv s -> s_refs s g = Some hid -> (hid < s_nexth s)%nat.
Proof.
  intros s g hid I H. destruct (ref_in_map s g hid I H) as (Hin & _). destruct I as (C & _).
  destruct (c_map s C _ _ Hin). assumption.
Qed.

Lemma existing_lt : forall s g gt hid, Inv s -> s_gets s g = Some gt -> g_existing gt = Some hid -> (hid < s_nexth s)%nat.
Proof.
  intros s g gt hid I H He. destruct (get_existing_in_map s g gt hid I H He) as (Hin & _). destruct I as (C & _).
  destruct (c_map s C _ _ Hin). assumption.
Qed.

(* a step that the monitor does not react to *)
Lemma sim_frame : forall s s' m, Inv s -> Sim s m -> stable s s' ->
  s_nextg s' = s_nextg s ->
  (forall g, option_map (fun gt => (g_dig gt, g_existing gt)) (s_gets s' g) =
             option_map (fun gt => (g_dig gt, g_existing gt)) (s_gets s g)) ->
  s_refs s' = s_refs s -> s_latest s' = s_latest s -> Sim s' m.
Proof.
  intros s s' m I S (_ & St) En Eg Er El. constructor.
  - rewrite En. apply (sm_nextg s m S).
  - intros g. rewrite (sm_gets s m S g). specialize (Eg g).
    destruct (s_gets s' g), (s_gets s g); cbn in *; congruence.
  - intros g d i H. destruct (sm_refs_in s m S g d i H) as (hid & R1 & R2 & R3).
    exists hid. rewrite Er. split; [exact R1|]. destruct (St hid (ref_lt s g hid I R1)) as (D & F).
    split; [congruence | apply F; exact R3].
  - intros g hid H. rewrite Er in H. apply (sm_refs_ex s m S g hid H).
  - intros d. rewrite El. apply (sm_latest s m S).
  - intros g gt' hid H He. specialize (Eg g). rewrite H in Eg.
    destruct (s_gets s g) as [gt|] eqn:Hg; [|discriminate]. cbn in Eg. inversion Eg as [[E1 E2]].
    rewrite He in E2. symmetry in E2.
    destruct (St hid (existing_lt s g gt hid I Hg E2)) as (D & _). rewrite D, E1.
    apply (sm_exist s m S g gt hid Hg E2).
Qed.

(* no handle held, no Get running, nothing queued: the store is quiescent *)
Lemma quiescent_backing : forall s, Inv s -> quiescent s -> forall d, s_backing s d = s_latest s d.
Proof.
  intros s (C & MA & _) (Q1 & Q2 & Q3) d.
  destruct (s_map s d) as [hid|] eqn:Em; [|apply (c_absent s C d Em)].
  exfalso. assert (Hin : in_map s hid) by (apply (map_in_map s d hid C Em)).
  destruct (MA hid) as [H | [H | H]]; [discriminate | exact Hin | | |].
  - rewrite (Q1 d hid Em) in H. lia.
  - rewrite Q2 in H. destruct H.
  - destruct (h_writing (hd s hid)) as [g|] eqn:Ew; [|contradiction].
    destruct (c_writing s C hid g Ew) as (gt & w & Hg & Hw & _). apply (Q3 w). exists g, gt. split; assumption.
Qed.

Lemma sim_quiet : forall s m, Inv s -> Sim s m -> m_gets m = [] -> m_refs m = [] -> s_queue s = [] -> quiescent s.
Proof.
  intros s m I S Hg Hr Hq. pose proof I as (C & MA & K).
  assert (Gn : forall g, s_gets s g = None).
  { intros g. pose proof (sm_gets s m S g) as E. rewrite Hg in E. cbn in E. destruct (s_gets s g); [discriminate | reflexivity]. }
  assert (Rn : forall g, s_refs s g = None).
  { intros g. destruct (s_refs s g) as [hid|] eqn:E; [|reflexivity].
    destruct (sm_refs_ex s m S g hid E) as (v & Hin). rewrite Hr in Hin. destruct Hin. }
  split; [|split; [exact Hq|]].
  - intros d hid _. rewrite (k_use s K hid). unfold holders. apply count_zero. intros g _.
    unfold holds. rewrite Rn, Gn. reflexivity.
  - intros w (g & gt & H & _). rewrite Gn in H. discriminate.
Qed.

Definition kind_ok (k : string) : Prop := k = ""%string \/ k = kind_stale_read.

(* One event: the simulation is kept, and the monitor reports nothing but
   (possibly) the known stale read. *)
Lemma sim_step : forall s m e, Inv s -> Sim s m ->
  let so := step s e in
  let mk := mon_step m e (snd so) (s_backing (fst so)) in
  Sim (fst so) (fst mk) /\ kind_ok (snd mk).
Proof.
  intros s m e I S. pose proof (step_inv s e I) as I'. pose proof I as (C & MA & K).
  unfold step, step_v in *. destruct e as [d | g ok | g d msg ok | g | g dirty tok].
  - (* EGet *)
    destruct (step_get_shape d s) as (s' & gt & ws & E & Eg & Egd & Ege & Er & El & Eb & En & St & Hq).
    rewrite E in *. cbn [fst snd]. cbn [mon_step fst snd].
    destruct (k_bound s K (s_nextg s) (Nat.le_refl _)) as (Hgn & Hrn).
    split.
    + constructor; cbn.
      * rewrite En, (sm_nextg s m S). reflexivity.
      * intros g. rewrite alookup_app, (sm_gets s m S g), Eg, (sm_nextg s m S). unfold updn. cbn.
        destruct (Nat.eqb_spec g (s_nextg s)) as [Eq|Eq].
        -- subst g. rewrite Hgn. cbn. rewrite Egd. reflexivity.
        -- destruct (s_gets s g); reflexivity.
      * intros g d0 i H. destruct (sm_refs_in s m S g d0 i H) as (hid & R1 & R2 & R3).
        exists hid. rewrite Er. split; [exact R1|]. destruct St as (_ & St). destruct (St hid (ref_lt s g hid I R1)) as (D & F).
        split; [congruence | apply F; exact R3].
      * intros g hid H. rewrite Er in H. apply (sm_refs_ex s m S g hid H).
      * intros d0. rewrite El. apply (sm_latest s m S).
      * intros g gt0 hid H He. rewrite Eg in H. unfold updn in H. destruct St as (_ & St).
        destruct (Nat.eqb_spec g (s_nextg s)) as [Eq|Eq].
        -- inversion H; subst gt0. rewrite Ege in He. destruct (c_map s C _ _ He) as (D & Hlt).
           destruct (St hid Hlt) as (D' & _). rewrite D', Egd. exact D.
        -- destruct (St hid (existing_lt s g gt0 hid I H He)) as (D' & _). rewrite D'.
           apply (sm_exist s m S g gt0 hid H He).
    + destruct (m_gets m) eqn:Hmg; [|left; reflexivity].
      destruct (m_refs m) eqn:Hmr; [|left; reflexivity].
      destruct ws as [|w ws]; [|left; reflexivity]. cbn [map].
      destruct (s_map s d) eqn:Hm; [left; reflexivity|]. cbn [is_some negb andb].
      assert (Q : quiescent s) by (apply (sim_quiet s m I S Hmg Hmr); apply Hq; reflexivity).
      replace (backing_current m (s_backing s')) with true; [left; reflexivity|].
      symmetry. unfold backing_current. apply forallb_forall. intros d0 _. apply list_N_eqb_eq.
      rewrite Eb, (sm_latest s m S d0). apply (quiescent_backing s I Q).
  - (* ERead *)
    destruct (step_read_shape g ok s) as (Eo & Eg & Er & El & En & St). rewrite Eo. cbn [mon_step fst snd].
    split; [|left; reflexivity]. apply (sim_frame s _ m I S St En Eg Er El).
  - (* EPut *)
    destruct (step_put_shape g d msg ok s) as (Eo & Eg & Er & El & En & St). rewrite Eo. cbn [mon_step fst snd].
    split; [|left; reflexivity]. apply (sim_frame s _ m I S St En Eg Er El).
  - (* EEnd *)
    destruct (step_end_cases g s) as [E | (gt & Hg & E)]; rewrite E in *.
    { cbn [fst snd mon_step]. split; [exact S | left; reflexivity]. }
    assert (Hex : forall hid, g_existing gt = Some hid -> h_dig (hd s hid) = g_dig gt /\ (hid < s_nexth s)%nat).
    { intros hid He. split; [apply (sm_exist s m S g gt hid Hg He) | apply (existing_lt s g gt hid I Hg He)]. }
    destruct (end_body_shape g gt s C Hg Hex) as (Eg & El & En & St & Hcase).
    set (s' := fst (end_body g gt s)) in *.
    assert (Hrn : s_refs s g = None) by (apply (k_excl s K); congruence).
    assert (Sgets : forall g0, alookup g0 (aremove g (m_gets m)) = option_map g_dig (s_gets s' g0)).
    { intros g0. rewrite alookup_aremove, Eg. unfold updn. destruct (Nat.eqb g0 g); [reflexivity | apply (sm_gets s m S)]. }
    assert (Sexist : forall g0 gt0 hid, s_gets s' g0 = Some gt0 -> g_existing gt0 = Some hid -> h_dig (hd s' hid) = g_dig gt0).
    { intros g0 gt0 hid H He. rewrite Eg in H. unfold updn in H. destruct (Nat.eqb g0 g); [discriminate|].
      destruct St as (_ & St). destruct (St hid (existing_lt s g0 gt0 hid I H He)) as (D & _). rewrite D.
      apply (sm_exist s m S g0 gt0 hid H He). }
    assert (Srefs : forall g0 d0 i, In (g0, (d0, i)) (m_refs m) ->
              exists hid, s_refs s g0 = Some hid /\ g0 <> g /\ h_dig (hd s' hid) = d0 /\ h_first (hd s' hid) = Some i).
    { intros g0 d0 i H. destruct (sm_refs_in s m S g0 d0 i H) as (hid & R1 & R2 & R3). exists hid.
      split; [exact R1|]. split; [intros ->; congruence|].
      destruct St as (_ & St). destruct (St hid (ref_lt s g0 hid I R1)) as (D & F). split; [congruence | apply F; exact R3]. }
    destruct Hcase as [(Eo & Er) | (hid & f & Eo & Er & Hd & Hf)]; rewrite Eo; cbn [mon_step fst snd].
    + (* the Get failed *)
      split; [|left; reflexivity]. constructor; cbn.
      * rewrite En. apply (sm_nextg s m S).
      * exact Sgets.
      * intros g0 d0 i H. destruct (Srefs g0 d0 i H) as (hid & R1 & _ & R2 & R3). exists hid. rewrite Er. repeat split; assumption.
      * intros g0 hid H. rewrite Er in H. apply (sm_refs_ex s m S g0 hid H).
      * intros d0. rewrite El. apply (sm_latest s m S).
      * exact Sexist.
    + (* the Get returned handle hid *)
      pose proof (sm_gets s m S g) as Elk. rewrite Hg in Elk. cbn in Elk. rewrite Elk.
      assert (Sim' : Sim s' (mkM (aremove g (m_gets m)) (m_refs m ++ [(g, (g_dig gt, f))]) (m_latest m) (m_seen m) (m_nextg m))).
      { constructor; cbn.
        - rewrite En. apply (sm_nextg s m S).
        - exact Sgets.
        - intros g0 d0 i H. apply in_app_or in H. destruct H as [H | [H | []]].
          + destruct (Srefs g0 d0 i H) as (hid0 & R1 & Rne & R2 & R3). exists hid0. rewrite Er, updn_other by exact Rne.
            repeat split; assumption.
          + inversion H; subst. exists hid. rewrite Er, updn_same. repeat split; assumption.
        - intros g0 hid0 H. rewrite Er in H. unfold updn in H. destruct (Nat.eqb_spec g0 g) as [Eq|Eq].
          + subst g0. eexists. apply in_or_app. right. left. reflexivity.
          + destruct (sm_refs_ex s m S g0 hid0 H) as (v & Hin). exists v. apply in_or_app. left. exact Hin.
        - intros d0. rewrite El. apply (sm_latest s m S).
        - exact Sexist. }
      assert (Hrg : s_refs s' g = Some hid) by (rewrite Er; apply updn_same).
      destruct (ref_in_map s' g hid I' Hrg) as (Hin & _).
      (* two handles: every held handle of this digest is the returned object *)
      assert (Htwo : forallb (fun r => negb (fst (snd r) =? g_dig gt) || Nat.eqb (snd (snd r)) f) (m_refs m) = true).
      { apply forallb_forall. intros [g0 [d0 i]] H. cbn [fst snd].
        destruct (N.eqb_spec d0 (g_dig gt)) as [Ed|Ed]; [|reflexivity]. cbn [negb orb].
        destruct (Srefs g0 d0 i H) as (hid0 & R1 & Rne & R2 & R3).
        assert (Hr0 : s_refs s' g0 = Some hid0) by (rewrite Er, updn_other by exact Rne; exact R1).
        destruct (ref_in_map s' g0 hid0 I' Hr0) as (Hin0 & _).
        assert (hid0 = hid) by (apply (in_map_inj s' hid0 hid Hin0 Hin); congruence).
        subst hid0. rewrite Hf in R3. inversion R3; subst. apply Nat.eqb_refl. }
      rewrite Htwo. cbn [negb].
      destruct (list_N_eqb (h_msg (hd s' hid)) (m_latest m (g_dig gt))) eqn:Emsg; [split; [exact Sim' | left; reflexivity]|].
      destruct (list_N_eqb (s_backing s' (g_dig gt)) (m_latest m (g_dig gt))) eqn:Eback;
        [split; [exact Sim' | right; reflexivity]|].
      (* stale base: impossible, the registered handle or the backing store is current *)
      exfalso. destruct I' as (C' & _).
      assert (Hmap : s_map s' (g_dig gt) = Some hid) by (unfold in_map in Hin; rewrite Hd in Hin; exact Hin).
      destruct (c_present s' C' _ _ Hmap) as (P1 & P2).
      assert (Elat : m_latest m (g_dig gt) = s_latest s' (g_dig gt)) by (rewrite El; apply (sm_latest s m S)).
      rewrite Elat in *.
      destruct (N.eq_dec (h_cv (hd s' hid)) 0) as [Ez|Ez].
      * assert (X : s_backing s' (g_dig gt) = s_latest s' (g_dig gt)) by (apply P2; pose proof (c_ver s' C' hid); lia).
        apply list_N_eqb_eq in X. congruence.
      * assert (X : h_msg (hd s' hid) = s_latest s' (g_dig gt)) by (apply P1; exact Ez).
        apply list_N_eqb_eq in X. congruence.
  - (* ERel *)
    destruct (s_refs s g) as [hid|] eqn:Hr.
    2:{ unfold step_rel. rewrite Hr. cbn [fst snd mon_step]. split; [exact S | left; reflexivity]. }
    destruct (step_rel_shape g dirty tok s hid Hr) as (Eo & Er & Eg & En & El & St).
    set (s' := fst (step_rel repaired g dirty tok s)) in *. rewrite Eo. cbn [mon_step fst snd].
    destruct (sm_refs_ex s m S g hid Hr) as (v & Hv).
    destruct (alookup g (m_refs m)) as [[d0 i0]|] eqn:Elk; [|exfalso; apply (alookup_None g (m_refs m) v Elk Hv)].
    apply alookup_In in Elk. destruct (sm_refs_in s m S g d0 i0 Elk) as (hid0 & R1 & R2 & R3).
    assert (hid0 = hid) by congruence. subst hid0.
    split; [|left; reflexivity]. constructor; cbn.
    + rewrite En. apply (sm_nextg s m S).
    + intros g0. rewrite Eg. apply (sm_gets s m S).
    + intros g0 d1 i1 H. apply In_aremove in H. destruct H as (H & Hne).
      destruct (sm_refs_in s m S g0 d1 i1 H) as (hid1 & Q1 & Q2 & Q3). exists hid1.
      rewrite Er, updn_other by exact Hne. split; [exact Q1|].
      destruct St as (_ & St). destruct (St hid1 (ref_lt s g0 hid1 I Q1)) as (D & F). split; [congruence | apply F; exact Q3].
    + intros g0 hid1 H. rewrite Er in H. unfold updn in H. destruct (Nat.eqb_spec g0 g) as [Eq|Eq]; [discriminate|].
      destruct (sm_refs_ex s m S g0 hid1 H) as (v1 & Hin). exists v1. apply In_aremove. split; assumption.
    + intros d1. rewrite El. destruct dirty; [|apply (sm_latest s m S)].
      rewrite R2. unfold updN. destruct (d1 =? d0); [reflexivity | apply (sm_latest s m S)].
    + intros g0 gt0 hid1 H He. rewrite Eg in H. destruct St as (_ & St).
      destruct (St hid1 (existing_lt s g0 gt0 hid1 I H He)) as (D & _). rewrite D. apply (sm_exist s m S g0 gt0 hid1 H He).
Qed.

(* ---- all traces ---------------------------------------------------------------------------- *)

Lemma mon_run_ok : forall evs s m, Inv s -> Sim s m -> Forall kind_ok (mon_run repaired s m evs).
Proof.
  induction evs as [|e t IH]; intros s m I S; [constructor|]. cbn [mon_run].
  pose proof (sim_step s m e I S) as H. cbn zeta in H. unfold step in H.
  destruct (step_v repaired s e) as [s' o] eqn:Es. cbn [fst snd] in H.
  destruct (mon_step m e o (s_backing s')) as [m' k] eqn:Em. cbn [fst snd] in H. destruct H as (S' & Hk).
  constructor; [exact Hk|]. apply IH; [|exact S'].
  pose proof (step_inv s e I) as I'. unfold step in I'. rewrite Es in I'. exact I'.
Qed.

(* The decidable form: the monitor accepts a trace when every reported kind
   is empty or the known finding. *)
Definition kind_okb (k : string) : bool := String.eqb k "" || String.eqb k kind_stale_read.
Definition trace_ok (evs : list event) : bool := forallb kind_okb (mon_run repaired init minit evs).

Lemma monitor_accepts_model_l : forall evs, trace_ok evs = true.
Proof.
  intros evs. unfold trace_ok. apply forallb_forall. intros k Hk.
  pose proof (mon_run_ok evs init minit init_inv sim_init) as F. rewrite Forall_forall in F.
  destruct (F k Hk) as [-> | ->]; reflexivity.
Qed.

(* With the known finding as an explicit hypothesis: on a model trace on
   which no stale read is reported, the monitor reports nothing at all. *)
Lemma monitor_silent_without_stale_read_l : forall evs,
  reports kind_stale_read repaired evs = false ->
  forall k, In k (mon_run repaired init minit evs) -> k = ""%string.
Proof.
  intros evs Hno k Hk.
  pose proof (mon_run_ok evs init minit init_inv sim_init) as F. rewrite Forall_forall in F.
  destruct (F k Hk) as [-> | ->]; [reflexivity|]. exfalso.
  unfold reports in Hno. assert (existsb (String.eqb kind_stale_read) (mon_run repaired init minit evs) = true).
  { apply existsb_exists. exists kind_stale_read. split; [exact Hk | apply String.eqb_refl]. }
  congruence.
Qed.

(* the three kinds the check alarms on are never reported on a model trace *)
Lemma monitor_never_alarms_l : forall evs,
  reports kind_lost repaired evs = false /\ reports kind_two repaired evs = false /\
  reports kind_stale repaired evs = false.
Proof.
  intros evs. pose proof (mon_run_ok evs init minit init_inv sim_init) as F. rewrite Forall_forall in F.
  assert (G : forall k0, k0 <> ""%string -> k0 <> kind_stale_read -> reports k0 repaired evs = false).
  { intros k0 N1 N2. unfold reports. destruct (existsb _ _) eqn:E; [|reflexivity]. exfalso.
    apply existsb_exists in E. destruct E as (k & Hk & Ek). apply String.eqb_eq in Ek. subst k.
    destruct (F k0 Hk); contradiction. }
  repeat split; apply G; discriminate.
Qed.
