(* The unrepaired shapes of the code, refuted on the model: for each, an
   event list (recorded by harness/cmd/store on that version of the code;
   corpus/C07) on which the monitor of Spec.v reports a violation when the
   model is run with the corresponding variant.  The last example is the
   remaining known finding of the repaired code (stale read). *)
From Coq Require Import String.
From VF Require Import Store.Model Store.Spec.
Open Scope N_scope.

Fixpoint mon_run (v : variant) (s : state) (m : mstate) (evs : list event) : list string :=
  match evs with
  | [] => []
  | e :: t =>
    let '(s', o) := step_v v s e in
    let '(m', k) := mon_step m e o (s_backing s') in
    k :: mon_run v s' m' t
  end.

Definition reports (k : string) (v : variant) (evs : list event) : bool :=
  existsb (String.eqb k) (mon_run v init minit evs).

Definition as_found := mkVariant false false.   (* snapshot: currentVersion = writtenVersion + 1 *)
Definition bump_only := mkVariant true false.   (* after the first repair *)

Definition evs_version_alias : list event :=
  [(EGet 2%N); (ERead 0%nat true); (EEnd 0%nat); (EGet 0%N); (ERead 1%nat true); (EEnd 1%nat); (ERel 0%nat true 1%N); (ERel 1%nat true 2%N); (EGet 1%N); (EPut 2%nat 2%N [1%N] true); (EGet 0%N); (EEnd 3%nat); (ERel 3%nat true 3%N); (EPut 2%nat 0%N [2%N] true); (EGet 0%N); (EPut 4%nat 0%N [2%N; 3%N] false); (ERead 2%nat true); (EEnd 2%nat); (ERead 4%nat true); (EEnd 4%nat); (ERel 2%nat false 0%N); (EGet 4%N); (ERead 5%nat true); (EEnd 5%nat); (ERel 5%nat false 0%N)].

Definition evs_concurrent_writes : list event :=
  [(EGet 0%N); (EGet 0%N); (ERead 1%nat true); (EEnd 1%nat); (ERead 0%nat true); (EEnd 0%nat); (ERel 1%nat false 0%N); (ERel 0%nat true 1%N); (EGet 1%N); (EGet 0%N); (EEnd 3%nat); (ERel 3%nat true 2%N); (EGet 1%N); (EPut 4%nat 0%N [1%N; 2%N] true); (EGet 0%N); (ERead 2%nat true); (EPut 2%nat 0%N [1%N] true); (EEnd 2%nat); (ERead 4%nat true); (EEnd 4%nat); (ERead 5%nat true); (EEnd 5%nat); (ERel 2%nat false 0%N); (ERel 4%nat false 0%N); (ERel 5%nat false 0%N); (EGet 4%N); (ERead 6%nat true); (EPut 6%nat 0%N [1%N; 2%N] true); (EEnd 6%nat); (ERel 6%nat false 0%N); (EGet 4%N); (ERead 7%nat true); (EEnd 7%nat); (ERel 7%nat false 0%N)].

Definition evs_concurrent_writes_two : list event :=
  [(EGet 1%N); (ERead 0%nat true); (EEnd 0%nat); (EGet 0%N); (ERel 0%nat true 1%N); (EGet 0%N); (EGet 1%N); (EEnd 3%nat); (ERel 3%nat false 0%N); (EGet 1%N); (EEnd 4%nat); (ERel 4%nat false 0%N); (ERead 2%nat true); (EPut 2%nat 1%N [1%N] true); (EEnd 2%nat); (ERel 2%nat true 2%N); (EGet 1%N); (EGet 0%N); (EEnd 6%nat); (ERel 6%nat true 3%N); (ERead 5%nat true); (ERead 1%nat false); (EEnd 1%nat); (EGet 1%N); (EPut 7%nat 0%N [2%N; 3%N] true); (EGet 1%N); (ERead 7%nat true); (EEnd 7%nat); (EGet 1%N); (EEnd 9%nat); (EPut 5%nat 0%N [2%N] true); (EPut 5%nat 1%N [1%N] true); (EEnd 5%nat); (ERead 8%nat true); (EEnd 8%nat); (ERel 7%nat false 0%N); (ERel 9%nat false 0%N); (ERel 5%nat false 0%N); (ERel 8%nat false 0%N); (EGet 4%N); (ERead 10%nat true); (EPut 10%nat 0%N [2%N; 3%N] true); (EEnd 10%nat); (ERel 10%nat false 0%N); (EGet 4%N); (ERead 11%nat true); (EEnd 11%nat); (ERel 11%nat false 0%N)].

Definition evs_stale_read : list event :=
  [(EGet 1%N); (EGet 0%N); (EGet 1%N); (ERead 1%nat true); (EEnd 1%nat); (ERel 1%nat true 1%N); (EGet 1%N); (ERead 2%nat true); (EEnd 2%nat); (ERead 3%nat true); (ERel 2%nat true 2%N); (EGet 0%N); (EPut 4%nat 1%N [2%N] true); (EEnd 4%nat); (EPut 3%nat 0%N [1%N] true); (EEnd 3%nat); (ERel 4%nat false 0%N); (ERel 3%nat true 3%N); (EGet 1%N); (EEnd 5%nat); (ERel 5%nat false 0%N); (EGet 1%N); (EEnd 6%nat); (ERead 0%nat true); (EEnd 0%nat); (ERel 6%nat false 0%N); (ERel 0%nat false 0%N); (EGet 4%N); (ERead 7%nat true); (EPut 7%nat 1%N [3%N] true); (EEnd 7%nat); (ERel 7%nat false 0%N); (EGet 4%N); (ERead 8%nat true); (EEnd 8%nat); (ERel 8%nat false 0%N)].

Lemma as_found_loses_update : reports kind_lost as_found evs_version_alias = true.
Proof. vm_compute. reflexivity. Qed.

Lemma bump_only_stale_base : reports kind_stale bump_only evs_concurrent_writes = true.
Proof. vm_compute. reflexivity. Qed.

Lemma bump_only_two_handles : reports kind_two bump_only evs_concurrent_writes_two = true.
Proof. vm_compute. reflexivity. Qed.

Lemma repaired_stale_read : reports kind_stale_read repaired evs_stale_read = true.
Proof. vm_compute. reflexivity. Qed.
