(* The evaluator of Corr.v run on the model's own trace.  [model_case evs]
   is the case file the harness would write if the implementation behaved
   exactly like the model: the model's outputs and, after every event, the
   backing store dumped on the digests 0..4 (the harness' digest range).
   [check_case] on it never reports a mismatch, and never a violation other
   than the known stale read.  Together with Monitor.v this is the statement
   "the monitor Corr.v evaluates on the code is a theorem of the model", for
   the very functions ([viol_from], [mism_from], [check_case]) that coqc
   evaluates on the generated case files. *)
From Coq Require Import Lia String.
From VF Require Import Common.Verdict Store.Model Store.Spec Store.Lemmas Store.Invariant Store.Proofs
  Store.Legacy Store.Monitor Store.Corr.
Open Scope N_scope.

Fixpoint model_trace (s : state) (evs : list event) : list out * list (list (list N)) :=
  match evs with
  | [] => ([], [])
  | e :: t =>
    let '(s', o) := step s e in
    let '(os, ds) := model_trace s' t in
    (o :: os, map (s_backing s') digests :: ds)
  end.

Definition model_case (evs : list event) : case :=
  let '(os, ds) := model_trace init evs in mkCase evs os ds.

(* the harness uses digests 0..4 (4 = probe digest) *)
Definition small_event (e : event) : bool := match e with EGet d => d <? 5 | _ => true end.

Lemma dump_fun_small : forall (f : N -> list N) d, d < 5 -> dump_fun (map f digests) d = f d.
Proof.
  intros f d H. assert (E : d = 0 \/ d = 1 \/ d = 2 \/ d = 3 \/ d = 4) by lia.
  destruct E as [-> | [-> | [-> | [-> | ->]]]]; reflexivity.
Qed.

(* ---- the monitor only looks at the digests it was told about ------------------------------ *)

Record msmall (m : mstate) : Prop := mkMsmall {
  ms_seen : forall d, In d (m_seen m) -> d < 5;
  ms_gets : forall g d, In (g, d) (m_gets m) -> d < 5;
  ms_refs : forall g d i, In (g, (d, i)) (m_refs m) -> d < 5 }.

Lemma msmall_init : msmall minit.
Proof. constructor; cbn; intros; contradiction. Qed.

Lemma forallb_ext_in : forall {A} (f g : A -> bool) l, (forall x, In x l -> f x = g x) -> forallb f l = forallb g l.
Proof.
  intros A f g l. induction l as [|a t IH]; intros H; [reflexivity|]. cbn.
  rewrite (H a (or_introl eq_refl)), IH; [reflexivity | intros x Hx; apply H; right; exact Hx].
Qed.

Lemma mon_step_ext : forall m e o b b', msmall m -> (forall d, d < 5 -> b d = b' d) ->
  mon_step m e o b = mon_step m e o b'.
Proof.
  intros m e o b b' MS H. destruct e as [d | g ok | g d msg ok | g | g dirty tok]; destruct o as [reads writes | | r | msg']; try reflexivity.
  - cbn [mon_step]. replace (backing_current m b') with (backing_current m b); [reflexivity|].
    unfold backing_current. apply forallb_ext_in. intros d0 Hd. rewrite (H d0 (ms_seen m MS d0 Hd)). reflexivity.
  - destruct r as [[ident msg']|]; [|reflexivity]. cbn [mon_step].
    destruct (alookup g (m_gets m)) as [d|] eqn:E; [|reflexivity].
    rewrite (H d (ms_gets m MS g d (alookup_In g _ d E))). reflexivity.
Qed.

Lemma msmall_step : forall m e o b, msmall m -> small_event e = true -> msmall (fst (mon_step m e o b)).
Proof.
  intros m e o b MS Hs. destruct e as [d | g ok | g d msg ok | g | g dirty tok]; destruct o as [reads writes | | r | msg']; try exact MS.
  - cbn in Hs. apply N.ltb_lt in Hs. cbn [mon_step fst]. constructor; cbn.
    + apply (ms_seen m MS).
    + intros g0 d0 H. apply in_app_or in H. destruct H as [H | [H | []]]; [apply (ms_gets m MS g0 d0 H) | inversion H; subst; exact Hs].
    + apply (ms_refs m MS).
  - destruct r as [[ident msg']|]; cbn [mon_step].
    + destruct (alookup g (m_gets m)) as [d|] eqn:E; [|exact MS].
      assert (Hd : d < 5) by (apply (ms_gets m MS g d); apply alookup_In; exact E).
      assert (MS' : msmall (mkM (aremove g (m_gets m)) (m_refs m ++ [(g, (d, ident))]) (m_latest m) (m_seen m) (m_nextg m))).
      { constructor; cbn.
        - apply (ms_seen m MS).
        - intros g0 d0 H. apply In_aremove in H. apply (ms_gets m MS g0 d0). apply H.
        - intros g0 d0 i H. apply in_app_or in H. destruct H as [H | [H | []]]; [apply (ms_refs m MS g0 d0 i H) | inversion H; subst; exact Hd]. }
      destruct (negb _); [exact MS'|]. destruct (list_N_eqb msg' _); [exact MS'|]. destruct (list_N_eqb _ _); exact MS'.
    + cbn [fst]. constructor; cbn.
      * apply (ms_seen m MS).
      * intros g0 d0 H. apply In_aremove in H. apply (ms_gets m MS g0 d0). apply H.
      * apply (ms_refs m MS).
  - cbn [mon_step]. destruct (alookup g (m_refs m)) as [[d i]|] eqn:E; [|exact MS].
    assert (Hd : d < 5) by (apply (ms_refs m MS g d i); apply alookup_In; exact E).
    cbn [fst]. constructor; cbn.
    + destruct dirty; [|apply (ms_seen m MS)]. intros d0 [<- | H]; [exact Hd | apply (ms_seen m MS d0 H)].
    + apply (ms_gets m MS).
    + intros g0 d0 i0 H. apply In_aremove in H. apply (ms_refs m MS g0 d0 i0). apply H.
Qed.

(* ---- violations ----------------------------------------------------------------------------- *)

Definition benign (v : verdict) : Prop := v = VOk \/ exists j, v = VViolation j kind_stale_read.

Lemma viol_from_model : forall evs s m i fo,
  Inv s -> Sim s m -> msmall m -> forallb small_event evs = true -> benign fo ->
  benign (viol_from i m evs (fst (model_trace s evs)) (snd (model_trace s evs)) fo).
Proof.
  induction evs as [|e t IH]; intros s m i fo I Sm MS Hs Hfo; [exact Hfo|].
  cbn [forallb] in Hs. apply andb_true_iff in Hs. destruct Hs as (Hse & Hst).
  cbn [model_trace]. pose proof (sim_step s m e I Sm) as H. cbn zeta in H.
  pose proof (step_inv s e I) as I'.
  destruct (step s e) as [s' o] eqn:Es. cbn [fst snd] in H, I'.
  destruct (model_trace s' t) as [os ds] eqn:Et. cbn [fst snd viol_from].
  rewrite (mon_step_ext m e o (dump_fun (map (s_backing s') digests)) (s_backing s') MS)
    by (intros d Hd; apply dump_fun_small; exact Hd).
  pose proof (msmall_step m e o (s_backing s') MS Hse) as MS'.
  destruct (mon_step m e o (s_backing s')) as [m' k] eqn:Em. cbn [fst snd] in H, MS'. destruct H as (S' & Hk).
  specialize (IH s' m' (S i)). rewrite Et in IH. cbn [fst snd] in IH.
  destruct Hk as [-> | ->].
  - cbn. apply IH; assumption.
  - replace (String.eqb kind_stale_read "") with false by reflexivity.
    replace (String.eqb kind_stale_read kind_lost) with false by reflexivity.
    apply IH; try assumption.
    destruct fo as [| j w | j k]; [right; exists i; reflexivity | exact Hfo | exact Hfo].
Qed.

(* ---- mismatches ------------------------------------------------------------------------------ *)

Lemma list_N_eqb_refl : forall a, list_N_eqb a a = true.
Proof. intros a. apply list_N_eqb_eq. reflexivity. Qed.

Lemma perm_eqb_refl : forall a, perm_eqb a a = true.
Proof.
  induction a as [|x a IH]; [reflexivity|]. cbn. unfold pair_eqb at 1. rewrite N.eqb_refl, list_N_eqb_refl. cbn. exact IH.
Qed.

Lemma out_eqb_refl : forall o, out_eqb o o = true.
Proof.
  intros [r w | | [[f m]|] | m]; cbn.
  - rewrite Bool.eqb_reflx, perm_eqb_refl. reflexivity.
  - reflexivity.
  - rewrite Nat.eqb_refl, list_N_eqb_refl. reflexivity.
  - reflexivity.
  - apply list_N_eqb_refl.
Qed.

Lemma mism_from_model : forall evs s i,
  mism_from repaired i s evs (fst (model_trace s evs)) (snd (model_trace s evs)) = VOk.
Proof.
  induction evs as [|e t IH]; intros s i; [reflexivity|].
  cbn [model_trace]. unfold step. destruct (step_v repaired s e) as [s' o] eqn:Es.
  specialize (IH s' (S i)). destruct (model_trace s' t) as [os ds]. cbn [fst snd] in *. cbn [mism_from].
  rewrite Es, out_eqb_refl. cbn [negb].
  replace (forallb _ digests) with true; [exact IH|].
  symmetry. apply forallb_forall. intros k Hk. rewrite dump_fun_small; [apply list_N_eqb_refl|].
  unfold digests in Hk. cbn in Hk. lia.
Qed.

(* ---- the evaluator on the model's own trace --------------------------------------------------- *)

Lemma corr_accepts_model_l : forall evs, forallb small_event evs = true ->
  match check_case (model_case evs) with
  | VOk => True
  | VViolation _ k => k = kind_stale_read
  | VMismatch _ _ => False
  end.
Proof.
  intros evs Hs. unfold check_case, check_case_v, model_case.
  pose proof (viol_from_model evs init minit 0%nat VOk init_inv sim_init msmall_init Hs (or_introl eq_refl)) as V.
  pose proof (mism_from_model evs init 0%nat) as M.
  destruct (model_trace init evs) as [os ds]. cbn [fst snd c_evs c_outs c_dumps] in *.
  rewrite M. destruct V as [-> | (j & ->)]; cbn; [exact I | reflexivity].
Qed.
