(* Proofs for the mutable proto store model. *)
From Coq Require Import Lia.
From VF Require Import Store.Model Store.Spec.
Open Scope N_scope.

Lemma init_quiescent : quiescent init.
Proof.
  repeat split; cbn; try discriminate; auto.
  intros w (g & gt & H & _). discriminate.
Qed.
