(* Invariant preservation by every event of the (repaired) mutable proto
   store model, and the property theorems derived from the invariant. *)
From Coq Require Import Lia.
From VF Require Import Store.Model Store.Spec Store.Lemmas Store.Invariant.
Open Scope N_scope.

(* ---- what the counting part gives ------------------------------------------------------ *)

Lemma ref_bound : forall s g hid, Cnt s -> s_refs s g = Some hid -> (g < s_nextg s)%nat.
Proof.
  intros s g hid K H. destruct (Nat.lt_ge_cases g (s_nextg s)) as [Hlt | Hge]; [exact Hlt|].
  destruct (k_bound s K g Hge) as (_ & Hr). congruence.
Qed.

Lemma get_bound : forall s g gt, Cnt s -> s_gets s g = Some gt -> (g < s_nextg s)%nat.
Proof.
  intros s g gt K H. destruct (Nat.lt_ge_cases g (s_nextg s)) as [Hlt | Hge]; [exact Hlt|].
  destruct (k_bound s K g Hge) as (Hg & _). congruence.
Qed.

Lemma holder_in_map : forall s g hid, Inv s -> (g < s_nextg s)%nat -> holds s hid g = true ->
  in_map s hid /\ (0 < h_use (hd s hid))%nat.
Proof.
  intros s g hid (C & _ & K) Hlt Hh.
  assert (0 < h_use (hd s hid))%nat as Hu.
  { rewrite (k_use s K hid). unfold holders. apply (count_pos _ _ g); assumption. }
  split; [apply (c_active_in_map s C); left; exact Hu | exact Hu].
Qed.

Lemma ref_in_map : forall s g hid, Inv s -> s_refs s g = Some hid ->
  in_map s hid /\ (0 < h_use (hd s hid))%nat.
Proof.
  intros s g hid I H. pose proof I as (_ & _ & K). apply (holder_in_map s g hid I (ref_bound s g hid K H)).
  unfold holds. rewrite H, Nat.eqb_refl. reflexivity.
Qed.

Lemma get_existing_in_map : forall s g gt hid, Inv s -> s_gets s g = Some gt -> g_existing gt = Some hid ->
  in_map s hid /\ (0 < h_use (hd s hid))%nat.
Proof.
  intros s g gt hid I H He. pose proof I as (_ & _ & K). apply (holder_in_map s g hid I (get_bound s g gt K H)).
  unfold holds. rewrite H, He, Nat.eqb_refl. apply orb_true_r.
Qed.

(* ---- ERead -------------------------------------------------------------------------------- *)

Lemma step_read_inv : forall g ok s, Inv s -> Inv (fst (step_read g ok s)).
Proof.
  intros g ok s I. unfold step_read.
  destruct (s_gets s g) as [gt|] eqn:Hg; [|exact I].
  destruct (g_read gt); try exact I. cbn [fst].
  set (gt' := mkG _ _ _ _ _ _). set (s' := set_gets s _).
  destruct I as (C & MA & K).
  assert (E : core_eq s s').
  { repeat split; try reflexivity. intros g0. unfold writes_of, s'. cbn. unfold updn.
    destruct (Nat.eqb_spec g0 g) as [E0|E0]; [subst g0; rewrite Hg; reflexivity | reflexivity]. }
  split; [apply (core_eq_core s s' E C)|]. split; [apply (core_eq_map_active s s' None E MA)|].
  constructor.
  - intros g0 Hge. cbn in Hge. pose proof (get_bound s g gt K Hg).
    destruct (k_bound s K g0 Hge) as (B1 & B2). split; [|exact B2]. cbn. rewrite updn_other by lia. exact B1.
  - intros g0 H. cbn in H. cbn. unfold updn in H. destruct (Nat.eqb_spec g0 g) as [E0|Hne].
    + subst g0. apply (k_excl s K g). congruence.
    + apply (k_excl s K g0 H).
  - intros x. change (hd s' x) with (hd s x). rewrite (k_use s K x). unfold holders. change (s_nextg s') with (s_nextg s).
    symmetry. apply count_ext. intros g0 _. unfold holds. cbn. unfold updn.
    destruct (Nat.eqb_spec g0 g) as [E0|E0]; [subst g0; rewrite Hg; reflexivity | reflexivity].
Qed.

(* ---- ERel --------------------------------------------------------------------------------- *)

Definition dirty_upd (hid : nat) (tok : N) (s : state) : state :=
  set_latest (upd_handle s hid (fun h => set_cv (set_msg h (h_msg (hd s hid) ++ [tok])) (h_cv h + 1)))
             (updN (s_latest s) (h_dig (hd s hid)) (h_msg (hd s hid) ++ [tok])).

Lemma dirty_upd_core : forall hid tok s,
  Core s -> map_active s -> in_map s hid -> (0 < h_use (hd s hid))%nat ->
  Core (dirty_upd hid tok s) /\ map_active (dirty_upd hid tok s) /\ in_map (dirty_upd hid tok s) hid.
Proof.
  intros hid tok s C MA Hin Hu. set (s' := dirty_upd hid tok s).
  assert (Hlt : (hid < s_nexth s)%nat) by (destruct (c_map s C _ _ Hin); assumption).
  assert (Hnq : ~ In hid (s_queue s)) by (intros Hq; destruct (c_queue s C hid Hq); lia).
  assert (Hf : forall x, h_dig (hd s' x) = h_dig (hd s x) /\ h_use (hd s' x) = h_use (hd s x) /\
                         h_wv (hd s' x) = h_wv (hd s x) /\ h_writing (hd s' x) = h_writing (hd s x) /\
                         (x <> hid -> hd s' x = hd s x)).
  { intros x. unfold s', dirty_upd, upd_handle. cbn. unfold updn. destruct (Nat.eqb_spec x hid) as [E|E]; cbn.
    - subst x. repeat split; try reflexivity. intros H; contradiction.
    - repeat split; reflexivity. }
  assert (Hh : h_cv (hd s' hid) = h_cv (hd s hid) + 1 /\ h_msg (hd s' hid) = h_msg (hd s hid) ++ [tok]).
  { unfold s', dirty_upd, upd_handle. cbn. rewrite updn_same. cbn. split; reflexivity. }
  destruct Hh as (Hcv & Hmsg).
  assert (Hm : forall x, in_map s' x <-> in_map s x).
  { intros x. unfold in_map. destruct (Hf x) as (Ed & _). rewrite Ed. reflexivity. }
  assert (Hact : forall x, active s' x <-> active s x).
  { intros x. unfold active. destruct (Hf x) as (_ & Eu & _ & Ew & _). rewrite Eu, Ew. reflexivity. }
  split.
  - constructor.
    + intros d x H. destruct (Hf x) as (Ed & _). rewrite Ed. apply (c_map s C d x H).
    + intros x Hx. cbn in Hx. destruct (Hf x) as (_ & _ & _ & _ & E). rewrite E by lia. apply (c_fresh s C x Hx).
    + intros x Ha. apply Hm. apply (c_active_in_map s C). apply Hact. exact Ha.
    + apply (c_queue_nodup s C).
    + intros x Hx. cbn in Hx. assert (x <> hid) by (intros ->; contradiction).
      destruct (Hf x) as (_ & _ & _ & _ & E). rewrite E by assumption. apply (c_queue s C x Hx).
    + intros x. destruct (Nat.eq_dec x hid) as [->|Hne].
      * destruct (Hf hid) as (_ & _ & Ewv & _). rewrite Ewv, Hcv. pose proof (c_ver s C hid). lia.
      * destruct (Hf x) as (_ & _ & _ & _ & E). rewrite E by assumption. apply (c_ver s C).
    + intros g gt w Hg Hw. destruct (c_write s C g gt w Hg Hw) as (W1 & W2 & W3 & W4 & W5).
      destruct (Nat.eq_dec (w_h w) hid) as [E|Hne].
      * destruct (Hf (w_h w)) as (Ed & _ & Ewv & Ew & _). rewrite Ed, Ewv, Ew. rewrite E in *. rewrite Hcv.
        repeat split; try assumption; lia.
      * destruct (Hf (w_h w)) as (_ & _ & _ & _ & E). rewrite E by assumption. repeat split; assumption.
    + apply (c_write_nodup s C).
    + intros x g Hx. destruct (Hf x) as (_ & _ & _ & Ew & _). rewrite Ew in Hx. apply (c_writing s C x g Hx).
    + intros d H. cbn in H. cbn. unfold updN. destruct (N.eqb_spec d (h_dig (hd s hid))) as [E|E].
      * subst d. unfold in_map in Hin. congruence.
      * apply (c_absent s C d H).
    + intros d x H. cbn in H. destruct (c_present s C d x H) as (P1 & P2).
      destruct (Nat.eq_dec x hid) as [->|Hne].
      * destruct (c_map s C d hid H) as (Ed & _). destruct (Hf hid) as (_ & _ & Ewv & _).
        rewrite Ewv, Hcv, Hmsg. cbn. rewrite <- Ed, updN_same. split; [reflexivity|].
        pose proof (c_ver s C hid). lia.
      * destruct (Hf x) as (_ & _ & _ & _ & E). rewrite E by assumption. cbn.
        rewrite updN_other; [split; assumption|].
        intros Ed. apply Hne. unfold in_map in Hin. rewrite <- Ed in Hin. congruence.
  - split; [|apply Hm; exact Hin].
    intros x _ Hx. apply Hact. apply (MA x); [discriminate | apply Hm; exact Hx].
Qed.

Lemma step_rel_inv : forall g dirty tok s, Inv s -> Inv (fst (step_rel repaired g dirty tok s)).
Proof.
  intros g dirty tok s I. unfold step_rel.
  destruct (s_refs s g) as [hid|] eqn:Hr; [|exact I]. cbn [fst v_bump repaired].
  destruct (ref_in_map s g hid I Hr) as (Hin & Hu). destruct I as (C & MA & K).
  set (s1 := if dirty then _ else s).
  assert (H1 : Core s1 /\ map_active s1 /\ in_map s1 hid /\ s_gets s1 = s_gets s /\ s_refs s1 = s_refs s /\
               s_nextg s1 = s_nextg s /\ forall x, h_use (hd s1 x) = h_use (hd s x)).
  { unfold s1. destruct dirty.
    - change (set_latest _ _) with (dirty_upd hid tok s).
      destruct (dirty_upd_core hid tok s C MA Hin Hu) as (A & B & D).
      split; [exact A|]. split; [exact B|]. split; [exact D|]. do 3 (split; [reflexivity|]).
      intros x. unfold dirty_upd, upd_handle. cbn. unfold updn. destruct (Nat.eqb_spec x hid) as [E|E]; [subst x|]; reflexivity.
    - split; [exact C|]. split; [exact MA|]. split; [exact Hin|]. do 3 (split; [reflexivity|]). reflexivity. }
  destruct H1 as (C1 & MA1 & Hin1 & Eg1 & Er1 & En1 & Eu1).
  set (s2 := set_refs s1 _).
  assert (E12 : core_eq s1 s2) by (repeat split; reflexivity).
  pose proof (core_eq_core s1 s2 E12 C1) as C2.
  pose proof (core_eq_map_active s1 s2 None E12 MA1) as MA2.
  assert (Hin2 : in_map s2 hid) by (apply (core_eq_in_map s1 s2 hid E12); exact Hin1).
  destruct (decrease_use_core hid s2 C2 MA2 Hin2) as (C3 & MA3).
  split; [exact C3|]. split; [exact MA3|].
  unfold decrease_use in *. fold roq in *. fold (dec_only hid s2) in *.
  destruct (roq_frame hid (dec_only hid s2)) as (Fh & _ & Fg & Fr & _ & _ & Fn).
  assert (Egets : s_gets (roq hid (dec_only hid s2)) = s_gets s) by (rewrite Fg; exact Eg1).
  assert (Erefs : s_refs (roq hid (dec_only hid s2)) = updn (s_refs s) g None).
  { rewrite Fr. cbn. rewrite Er1. reflexivity. }
  assert (Enext : s_nextg (roq hid (dec_only hid s2)) = s_nextg s) by (rewrite Fn; exact En1).
  assert (Euse : forall x, h_use (hd (roq hid (dec_only hid s2)) x) =
                           if Nat.eqb x hid then pred (h_use (hd s hid)) else h_use (hd s x)).
  { intros x. rewrite Fh. unfold dec_only, upd_handle. cbn. unfold updn.
    destruct (Nat.eqb_spec x hid) as [E|E]; cbn; [rewrite Eu1; reflexivity | apply Eu1]. }
  assert (Hgnone : s_gets s g = None).
  { destruct (s_gets s g) eqn:E; [|reflexivity]. assert (s_refs s g = None) by (apply (k_excl s K); congruence). congruence. }
  pose proof (ref_bound s g hid K Hr) as Hglt.
  constructor.
  - intros g0 Hge. rewrite Enext in Hge. rewrite Egets, Erefs. destruct (k_bound s K g0 Hge) as (B1 & B2).
    split; [exact B1|]. unfold updn. destruct (Nat.eqb g0 g); [reflexivity | exact B2].
  - intros g0 H. rewrite Egets in H. rewrite Erefs. unfold updn. destruct (Nat.eqb g0 g); [reflexivity | apply (k_excl s K g0 H)].
  - intros x. rewrite Euse. unfold holders. rewrite Enext.
    assert (Hholds : forall g0, g0 <> g -> holds (roq hid (dec_only hid s2)) x g0 = holds s x g0).
    { intros g0 Hne. unfold holds. rewrite Egets, Erefs. rewrite updn_other by exact Hne. reflexivity. }
    assert (Hafter : holds (roq hid (dec_only hid s2)) x g = false).
    { unfold holds. rewrite Egets, Erefs, updn_same, Hgnone. reflexivity. }
    destruct (Nat.eqb_spec x hid) as [E|E].
    + subst x. assert (Hbefore : holds s hid g = true) by (unfold holds; rewrite Hr, Nat.eqb_refl; reflexivity).
      pose proof (count_off (holds s hid) (holds (roq hid (dec_only hid s2)) hid) (s_nextg s) g Hglt Hbefore Hafter Hholds) as Hc.
      rewrite (k_use s K hid). unfold holders. lia.
    + rewrite (k_use s K x). unfold holders. symmetry. apply count_ext. intros g0 _.
      destruct (Nat.eq_dec g0 g) as [->|Hne]; [|apply Hholds; exact Hne].
      rewrite Hafter. unfold holds. rewrite Hr, Hgnone. apply Nat.eqb_neq in E. rewrite Nat.eqb_sym, E. reflexivity.
Qed.

(* ---- EPut ---------------------------------------------------------------------------------- *)

Lemma take_write_spec : forall d m ws w rest,
  take_write d m ws = Some (w, rest) -> exists l1 l2, ws = l1 ++ w :: l2 /\ rest = l1 ++ l2.
Proof.
  intros d m ws. induction ws as [|a t IH]; intros w rest H; [discriminate|]. cbn in H.
  destruct (write_matches d m a).
  - inversion H; subst. exists [], rest. split; reflexivity.
  - destruct (take_write d m t) as [[x t']|] eqn:E; [|discriminate]. inversion H; subst.
    destruct (IH _ _ eq_refl) as (l1 & l2 & E1 & E2). exists (a :: l1), l2. subst. split; reflexivity.
Qed.

Definition put_upd (g : nat) (ok : bool) (w : write) (gt' : get) (s : state) : state :=
  set_gets
    (upd_handle (if ok then set_backing s (updN (s_backing s) (w_dig w) (w_msg w)) else s) (w_h w)
       (fun h => set_writing (if ok then set_wv h (w_ver w) else h) None))
    (updn (s_gets s) g (Some gt')).

Lemma put_upd_core : forall g ok w gt gt' l1 l2 s,
  Core s -> map_active s ->
  s_gets s g = Some gt -> g_writes gt = l1 ++ w :: l2 -> g_writes gt' = l1 ++ l2 ->
  Core (put_upd g ok w gt' s) /\ map_active_except (put_upd g ok w gt' s) (Some (w_h w)) /\
  in_map (put_upd g ok w gt' s) (w_h w).
Proof.
  intros g ok w gt gt' l1 l2 s C MA Hg Hws Hws'. set (hid := w_h w). set (s' := put_upd g ok w gt' s).
  assert (Hw : In w (g_writes gt)) by (rewrite Hws; apply in_or_app; right; left; reflexivity).
  destruct (c_write s C g gt w Hg Hw) as (W1 & W2 & W3 & W4 & W5). fold hid in W1, W2, W3, W4, W5.
  assert (Hin : in_map s hid) by (apply (c_active_in_map s C); right; right; rewrite W1; discriminate).
  assert (Hlt : (hid < s_nexth s)%nat) by (destruct (c_map s C _ _ Hin); assumption).
  assert (Hnq : ~ In hid (s_queue s)) by (intros Hq; destruct (c_queue s C hid Hq) as (_ & Q & _); congruence).
  pose proof (c_write_nodup s C g gt Hg) as Hnd. rewrite Hws, map_app in Hnd. cbn in Hnd.
  apply NoDup_remove in Hnd. destruct Hnd as (Hnd' & Hnotin). rewrite <- map_app in Hnd', Hnotin. fold hid in Hnotin.
  assert (Hrest : forall w', In w' (l1 ++ l2) -> In w' (g_writes gt) /\ w_h w' <> hid).
  { intros w' Hw'. split.
    - rewrite Hws. apply in_app_or in Hw'. apply in_or_app. destruct Hw'; [left | right; right]; assumption.
    - intros E. apply Hnotin. rewrite <- E. apply (List.in_map w_h). exact Hw'. }
  assert (Hf : forall x, h_dig (hd s' x) = h_dig (hd s x) /\ h_use (hd s' x) = h_use (hd s x) /\
                         h_cv (hd s' x) = h_cv (hd s x) /\ h_msg (hd s' x) = h_msg (hd s x) /\
                         (x <> hid -> hd s' x = hd s x)).
  { intros x. unfold s', put_upd, upd_handle. destruct ok; cbn; unfold updn; fold hid;
      destruct (Nat.eqb_spec x hid) as [E|E]; cbn; try subst x; repeat split; try reflexivity; intros; contradiction. }
  assert (Hh : h_writing (hd s' hid) = None /\ h_wv (hd s' hid) = (if ok then w_ver w else h_wv (hd s hid))).
  { unfold s', put_upd, upd_handle. destruct ok; cbn; fold hid; rewrite updn_same; cbn; split; reflexivity. }
  destruct Hh as (Hwr & Hwv).
  assert (Hm : forall x, in_map s' x <-> in_map s x).
  { intros x. unfold in_map. destruct (Hf x) as (Ed & _). rewrite Ed. unfold s', put_upd. destruct ok; reflexivity. }
  assert (Hmap : s_map s' = s_map s) by (unfold s', put_upd; destruct ok; reflexivity).
  assert (Hq : s_queue s' = s_queue s) by (unfold s', put_upd; destruct ok; reflexivity).
  assert (Hlat : s_latest s' = s_latest s) by (unfold s', put_upd; destruct ok; reflexivity).
  assert (Hnh : s_nexth s' = s_nexth s) by (unfold s', put_upd; destruct ok; reflexivity).
  assert (Hgets : s_gets s' = updn (s_gets s) g (Some gt')) by (unfold s', put_upd; destruct ok; reflexivity).
  assert (Hback : forall d, s_backing s' d = if ok && (d =? w_dig w) then w_msg w else s_backing s d).
  { intros d. unfold s', put_upd. destruct ok; cbn; [unfold updN; reflexivity | reflexivity]. }
  assert (Hact : forall x, active s' x -> active s x).
  { intros x. unfold active. rewrite Hq. destruct (Hf x) as (_ & Eu & _ & _ & E). rewrite Eu.
    intros [H | [H | H]]; [left; exact H | right; left; exact H|].
    destruct (Nat.eq_dec x hid) as [->|Hne]; [rewrite Hwr in H; contradiction | rewrite E in H by exact Hne; right; right; exact H]. }
  (* pending writes after the step *)
  assert (Hpend : forall g0 gt0 w0, s_gets s' g0 = Some gt0 -> In w0 (g_writes gt0) ->
            exists gt1, s_gets s g0 = Some gt1 /\ In w0 (g_writes gt1) /\ w_h w0 <> hid).
  { intros g0 gt0 w0 H0 Hw0. rewrite Hgets in H0. unfold updn in H0. destruct (Nat.eqb_spec g0 g) as [E|E].
    - subst g0. inversion H0; subst gt0. rewrite Hws' in Hw0. destruct (Hrest w0 Hw0) as (R1 & R2).
      exists gt. repeat split; assumption.
    - exists gt0. split; [exact H0|]. split; [exact Hw0|]. intros Eh.
      destruct (c_write s C g0 gt0 w0 H0 Hw0) as (X & _). rewrite Eh, W1 in X. congruence. }
  split; [|split].
  - constructor.
    + intros d x H. rewrite Hmap in H. destruct (Hf x) as (Ed & _). rewrite Ed, Hnh. apply (c_map s C d x H).
    + intros x Hx. rewrite Hnh in Hx. destruct (Hf x) as (_ & _ & _ & _ & E). rewrite E by lia. apply (c_fresh s C x Hx).
    + intros x Ha. apply Hm. apply (c_active_in_map s C). apply Hact. exact Ha.
    + rewrite Hq. apply (c_queue_nodup s C).
    + intros x Hx. rewrite Hq in Hx. assert (x <> hid) by (intros ->; contradiction).
      destruct (Hf x) as (_ & _ & _ & _ & E). rewrite E by assumption. apply (c_queue s C x Hx).
    + intros x. destruct (Nat.eq_dec x hid) as [->|Hne].
      * destruct (Hf hid) as (_ & _ & Ecv & _). rewrite Hwv, Ecv. destruct ok; [exact W4 | apply (c_ver s C)].
      * destruct (Hf x) as (_ & _ & _ & _ & E). rewrite E by assumption. apply (c_ver s C).
    + intros g0 gt0 w0 H0 Hw0. destruct (Hpend g0 gt0 w0 H0 Hw0) as (gt1 & G1 & G2 & G3).
      destruct (Hf (w_h w0)) as (_ & _ & _ & _ & E). rewrite E by exact G3. apply (c_write s C g0 gt1 w0 G1 G2).
    + intros g0 gt0 H0. rewrite Hgets in H0. unfold updn in H0. destruct (Nat.eqb_spec g0 g) as [E|E].
      * inversion H0; subst. rewrite Hws'. exact Hnd'.
      * apply (c_write_nodup s C g0 gt0 H0).
    + intros x g0 Hx. assert (x <> hid) by (intros ->; rewrite Hwr in Hx; discriminate).
      destruct (Hf x) as (_ & _ & _ & _ & E). rewrite E in Hx by assumption.
      destruct (c_writing s C x g0 Hx) as (gt0 & w0 & G1 & G2 & G3). rewrite Hgets. unfold updn.
      destruct (Nat.eqb_spec g0 g) as [Eg|Eg].
      * subst g0. rewrite Hg in G1. inversion G1; subst gt0. exists gt', w0. split; [reflexivity|]. split; [|exact G3].
        rewrite Hws'. rewrite Hws in G2. apply in_app_or in G2. apply in_or_app.
        destruct G2 as [G2 | [G2 | G2]]; [left; exact G2 | exfalso; apply H; rewrite <- G3, <- G2; reflexivity | right; exact G2].
      * exists gt0, w0. repeat split; assumption.
    + intros d H. rewrite Hmap in H. rewrite Hback, Hlat.
      destruct (N.eqb_spec d (w_dig w)) as [E|E]; [|rewrite andb_false_r; apply (c_absent s C d H)].
      subst d. rewrite W2 in H. unfold in_map in Hin. congruence.
    + intros d x H. rewrite Hmap in H. rewrite Hback, Hlat. destruct (c_present s C d x H) as (P1 & P2).
      destruct (c_map s C d x H) as (Ed & _).
      destruct (Nat.eq_dec x hid) as [->|Hne].
      * destruct (Hf hid) as (_ & _ & Ecv & Em & _). rewrite Hwv, Ecv, Em. split; [exact P1|].
        destruct ok; cbn [andb].
        -- intros Ev. rewrite W2, Ed, N.eqb_refl. rewrite (W5 Ev). apply P1. lia.
        -- intros Ev. lia.
      * destruct (Hf x) as (_ & _ & _ & _ & E). rewrite E by assumption.
        destruct (N.eqb_spec d (w_dig w)) as [E2|E2]; [|rewrite andb_false_r; split; assumption].
        exfalso. apply Hne. rewrite E2, W2 in H. unfold in_map in Hin. congruence.
  - intros x Hex Hx. assert (Hne : x <> hid) by congruence. apply Hm in Hx.
    destruct (Hf x) as (_ & _ & _ & _ & E). unfold active. rewrite Hq, E by assumption.
    apply (MA x); [discriminate | exact Hx].
  - apply Hm. exact Hin.
Qed.

Lemma step_put_state : forall g d m ok s gt w rest,
  s_gets s g = Some gt -> take_write d m (g_writes gt) = Some (w, rest) ->
  fst (step_put repaired g d m ok s) =
  roq (w_h w) (put_upd g ok w (mkG (g_dig gt) (g_existing gt) (g_read gt) (g_snap gt) rest (g_failed gt || negb ok)) s).
Proof.
  intros g d m ok s gt w rest Hg Ht. unfold step_put. rewrite Hg, Ht. cbn [fst]. fold roq.
  match goal with |- set_gets (roq _ ?x) _ = _ => set (s2 := x) end.
  destruct (roq_frame (w_h w) s2) as (_ & _ & Fg & _). rewrite Fg. rewrite <- roq_set_gets. f_equal.
  unfold put_upd, s2. destruct ok; reflexivity.
Qed.

Lemma step_put_inv : forall g d m ok s, Inv s -> Inv (fst (step_put repaired g d m ok s)).
Proof.
  intros g d m ok s I.
  destruct (s_gets s g) as [gt|] eqn:Hg; [|unfold step_put; rewrite Hg; exact I].
  destruct (take_write d m (g_writes gt)) as [[w rest]|] eqn:Ht; [|unfold step_put; rewrite Hg, Ht; exact I].
  rewrite (step_put_state g d m ok s gt w rest Hg Ht).
  set (gt' := mkG _ _ _ _ _ _). destruct I as (C & MA & K).
  destruct (take_write_spec _ _ _ _ _ Ht) as (l1 & l2 & E1 & E2).
  destruct (put_upd_core g ok w gt gt' l1 l2 s C MA Hg E1 E2) as (C1 & MA1 & Hin1).
  destruct (roq_core (w_h w) _ C1 MA1 Hin1) as (C2 & MA2).
  split; [exact C2|]. split; [exact MA2|].
  destruct (roq_frame (w_h w) (put_upd g ok w gt' s)) as (Fh & _ & Fg & Fr & _ & _ & Fn).
  assert (Egets : s_gets (roq (w_h w) (put_upd g ok w gt' s)) = updn (s_gets s) g (Some gt')).
  { rewrite Fg. unfold put_upd. destruct ok; reflexivity. }
  assert (Erefs : s_refs (roq (w_h w) (put_upd g ok w gt' s)) = s_refs s).
  { rewrite Fr. unfold put_upd. destruct ok; reflexivity. }
  assert (Enext : s_nextg (roq (w_h w) (put_upd g ok w gt' s)) = s_nextg s).
  { rewrite Fn. unfold put_upd. destruct ok; reflexivity. }
  assert (Euse : forall x, h_use (hd (roq (w_h w) (put_upd g ok w gt' s)) x) = h_use (hd s x)).
  { intros x. rewrite Fh. unfold put_upd, upd_handle. destruct ok; cbn; unfold updn;
      destruct (Nat.eqb_spec x (w_h w)) as [E|E]; try subst x; reflexivity. }
  pose proof (get_bound s g gt K Hg) as Hglt.
  constructor.
  - intros g0 Hge. rewrite Enext in Hge. rewrite Egets, Erefs. destruct (k_bound s K g0 Hge) as (B1 & B2).
    split; [|exact B2]. rewrite updn_other by lia. exact B1.
  - intros g0 H. rewrite Egets in H. rewrite Erefs. unfold updn in H. destruct (Nat.eqb_spec g0 g) as [E|E].
    + subst g0. apply (k_excl s K g). congruence.
    + apply (k_excl s K g0 H).
  - intros x. rewrite Euse, (k_use s K x). unfold holders. rewrite Enext. symmetry. apply count_ext.
    intros g0 _. unfold holds. rewrite Egets, Erefs. unfold updn.
    destruct (Nat.eqb_spec g0 g) as [E|E]; [subst g0; rewrite Hg; reflexivity | reflexivity].
Qed.

(* ---- EGet ---------------------------------------------------------------------------------- *)

Lemma NoDup_app_parts : forall (l1 l2 : list nat), NoDup (l1 ++ l2) ->
  NoDup l1 /\ NoDup l2 /\ forall x, In x l1 -> ~ In x l2.
Proof.
  intros l1 l2. induction l1 as [|a t IH]; cbn; intros H.
  - split; [constructor|]. split; [exact H | intros x []].
  - inversion H as [|? ? Ha Ht]; subst. destruct (IH Ht) as (I1 & I2 & I3).
    split; [constructor; [intros Hin; apply Ha; apply in_or_app; left; exact Hin | exact I1]|].
    split; [exact I2|]. intros x [-> | Hx]; [intros Hin; apply Ha; apply in_or_app; right; exact Hin | apply I3; exact Hx].
Qed.

Lemma deq_core : forall g n s hs q ws gt ng,
  Core s -> map_active s ->
  s_gets s g = None -> (forall x, h_writing (hd s x) <> Some g) ->
  dequeue g n (s_handles s) (s_queue s) = (hs, q, ws) -> g_writes gt = ws ->
  let s' := set_nextg (set_gets (set_queue (set_handles s hs) q) (updn (s_gets s) g (Some gt))) ng in
  Core s' /\ map_active s' /\ (forall x, h_use (hd s' x) = h_use (hd s x)).
Proof.
  intros g n s hs q ws gt ng C MA Hgn Hfresh Hd Hgt s'.
  destruct (dequeue_spec n g _ _ _ _ _ Hd (c_queue_nodup s C)) as (D1 & D2 & D3).
  set (P := map w_h ws) in *.
  pose proof (c_queue_nodup s C) as Hnd. rewrite D1 in Hnd.
  destruct (NoDup_app_parts _ _ Hnd) as (Nq & Nr & Ndisj).
  assert (NP : NoDup P) by (rewrite <- (rev_involutive P); apply NoDup_rev; exact Nr).
  assert (HPq : forall x, In x P -> In x (s_queue s) /\ ~ In x q).
  { intros x Hx. split.
    - rewrite D1. apply in_or_app. right. apply in_rev. rewrite rev_involutive. exact Hx.
    - intros Hq. apply (Ndisj x Hq). apply in_rev. rewrite rev_involutive. exact Hx. }
  assert (Hqs : forall x, In x q -> In x (s_queue s)) by (intros x Hx; rewrite D1; apply in_or_app; left; exact Hx).
  assert (Hsplit : forall x, In x (s_queue s) -> In x q \/ In x P).
  { intros x Hx. rewrite D1 in Hx. apply in_app_or in Hx. destruct Hx as [Hx | Hx]; [left; exact Hx|].
    right. apply in_rev in Hx. exact Hx. }
  assert (Hhd : forall x, hd s' x = if inb x P then set_writing (hd s x) (Some g) else hd s x) by (intros x; apply D2).
  assert (Hf : forall x, h_dig (hd s' x) = h_dig (hd s x) /\ h_use (hd s' x) = h_use (hd s x) /\
                         h_wv (hd s' x) = h_wv (hd s x) /\ h_cv (hd s' x) = h_cv (hd s x) /\
                         h_msg (hd s' x) = h_msg (hd s x) /\
                         h_writing (hd s' x) = (if inb x P then Some g else h_writing (hd s x))).
  { intros x. rewrite Hhd. destruct (inb x P); cbn; repeat split; reflexivity. }
  assert (Hm : forall x, in_map s' x <-> in_map s x).
  { intros x. unfold in_map. destruct (Hf x) as (Ed & _). rewrite Ed. reflexivity. }
  assert (Hgets : forall g0, s_gets s' g0 = if Nat.eqb g0 g then Some gt else s_gets s g0) by reflexivity.
  split; [|split].
  - constructor.
    + intros d x H. destruct (Hf x) as (Ed & _). rewrite Ed. apply (c_map s C d x H).
    + intros x Hx. change (s_nexth s') with (s_nexth s) in Hx. rewrite Hhd.
      destruct (inb x P) eqn:E; [|apply (c_fresh s C x Hx)].
      apply inb_In in E. destruct (HPq x E) as (Hq & _).
      assert (in_map s x) as Hi by (apply (c_active_in_map s C); right; left; exact Hq).
      destruct (c_map s C _ _ Hi). lia.
    + intros x Ha. apply Hm. apply (c_active_in_map s C). destruct (Hf x) as (_ & Eu & _ & _ & _ & Ew).
      unfold active in *. rewrite Eu, Ew in Ha. destruct Ha as [H | [H | H]].
      * left; exact H.
      * right; left. apply Hqs. exact H.
      * destruct (inb x P) eqn:E; [right; left; apply inb_In in E; apply (HPq x E) | right; right; exact H].
    + exact Nq.
    + intros x Hx. change (s_queue s') with q in Hx.
      assert (inb x P = false) as E by (apply inb_false; intros HP; apply (HPq x HP); exact Hx).
      destruct (Hf x) as (_ & Eu & Ewv & Ecv & _ & Ew). rewrite Eu, Ewv, Ecv, Ew, E. apply (c_queue s C x (Hqs x Hx)).
    + intros x. destruct (Hf x) as (_ & _ & Ewv & Ecv & _). rewrite Ewv, Ecv. apply (c_ver s C).
    + intros g0 gt0 w0 H0 Hw0. rewrite Hgets in H0.
      destruct (Hf (w_h w0)) as (Ed & _ & Ewv & Ecv & Em & Ew). rewrite Ed, Ewv, Ecv, Em, Ew.
      destruct (Nat.eqb_spec g0 g) as [E|E].
      * subst g0. inversion H0; subst gt0. rewrite Hgt in Hw0.
        assert (In (w_h w0) P) as HP by (apply (List.in_map w_h); exact Hw0).
        replace (inb (w_h w0) P) with true by (symmetry; apply inb_In; exact HP).
        destruct (D3 w0 Hw0) as (A1 & A2 & A3). destruct (c_queue s C _ (proj1 (HPq _ HP))) as (_ & _ & Q3).
        rewrite A1, A2, A3. split; [reflexivity|]. split; [reflexivity|]. split; [exact Q3|]. split; [lia | reflexivity].
      * destruct (c_write s C g0 gt0 w0 H0 Hw0) as (W1 & W2 & W3 & W4 & W5).
        assert (inb (w_h w0) P = false) as EP.
        { apply inb_false. intros HP. destruct (c_queue s C _ (proj1 (HPq _ HP))) as (_ & Q2 & _). congruence. }
        rewrite EP. repeat split; assumption.
    + intros g0 gt0 H0. rewrite Hgets in H0. destruct (Nat.eqb_spec g0 g) as [E|E].
      * inversion H0; subst gt0. rewrite Hgt. exact NP.
      * apply (c_write_nodup s C g0 gt0 H0).
    + intros x g0 Hx. destruct (Hf x) as (_ & _ & _ & _ & _ & Ew). rewrite Ew in Hx.
      destruct (inb x P) eqn:E.
      * inversion Hx; subst g0. apply inb_In in E. unfold P in E. apply in_map_iff in E. destruct E as (w0 & E1 & E2).
        exists gt, w0. rewrite Hgets, Nat.eqb_refl, Hgt. repeat split; assumption.
      * destruct (c_writing s C x g0 Hx) as (gt0 & w0 & G1 & G2 & G3).
        assert (g0 <> g) by (intros ->; congruence).
        exists gt0, w0. rewrite Hgets. apply Nat.eqb_neq in H. rewrite H. repeat split; assumption.
    + apply (c_absent s C).
    + intros d x H. destruct (Hf x) as (_ & _ & Ewv & Ecv & Em & _). rewrite Ewv, Ecv, Em. apply (c_present s C d x H).
  - intros x _ Hx. apply Hm in Hx. destruct (Hf x) as (_ & Eu & _ & _ & _ & Ew). unfold active. rewrite Eu, Ew.
    change (s_queue s') with q.
    destruct (MA x) as [H | [H | H]]; [discriminate | exact Hx | left; exact H | | ].
    + destruct (Hsplit x H) as [Hq | HP]; [right; left; exact Hq|].
      right. right. apply inb_In in HP. rewrite HP. discriminate.
    + right. right. destruct (inb x P); [discriminate | exact H].
  - intros x. apply (Hf x).
Qed.

Lemma step_get_inv : forall d s, Inv s -> Inv (fst (step_get repaired d s)).
Proof.
  intros d s (C & MA & K). unfold step_get.
  set (g := s_nextg s). set (ex := s_map s d).
  set (s1 := match ex with Some hid => increase_use hid s | None => s end).
  destruct (k_bound s K g (Nat.le_refl _)) as (Hgn & Hrn).
  assert (H1 : Core s1 /\ map_active s1 /\ s_gets s1 = s_gets s /\ s_refs s1 = s_refs s /\ s_nextg s1 = s_nextg s /\
               forall x, h_use (hd s1 x) = match ex with
                                           | Some hid => if Nat.eqb x hid then S (h_use (hd s x)) else h_use (hd s x)
                                           | None => h_use (hd s x) end).
  { unfold s1. destruct ex as [hid|] eqn:Eex.
    - assert (in_map s hid) as Hin by (apply (map_in_map s d hid C); exact Eex).
      destruct (increase_use_core hid s None C MA Hin) as (A & B).
      destruct (increase_use_frame hid s) as (_ & _ & Fg & Fr & _ & _ & Fn).
      split; [exact A|]. split; [exact B|]. do 3 (split; [assumption|]).
      intros x. apply (increase_use_fields hid s x).
    - split; [exact C|]. split; [exact MA|]. do 3 (split; [reflexivity|]). reflexivity. }
  destruct H1 as (C1 & MA1 & Eg1 & Er1 & En1 & Eu1).
  destruct (dequeue g writes_per_read (s_handles s1) (s_queue s1)) as [[hs q] ws] eqn:Ed. cbn [fst].
  set (gt := mkG d ex _ _ ws false).
  assert (Hfresh : forall x, h_writing (hd s1 x) <> Some g).
  { intros x Hx. destruct (c_writing s1 C1 x g Hx) as (gt0 & _ & G & _). rewrite Eg1 in G. congruence. }
  assert (Hgn1 : s_gets s1 g = None) by (rewrite Eg1; exact Hgn).
  destruct (deq_core g writes_per_read s1 hs q ws gt (S g) C1 MA1 Hgn1 Hfresh Ed eq_refl) as (C2 & MA2 & Eu2).
  match goal with |- Inv ?x => set (s' := x) in * end.
  split; [exact C2|]. split; [exact MA2|].
  assert (Egets : s_gets s' = updn (s_gets s) g (Some gt)) by (unfold s'; cbn; rewrite Eg1; reflexivity).
  assert (Erefs : s_refs s' = s_refs s) by (unfold s'; cbn; exact Er1).
  constructor.
  - intros g0 Hge. change (s_nextg s') with (S g) in Hge. rewrite Egets, Erefs.
    destruct (k_bound s K g0) as (B1 & B2); [unfold g in Hge; lia|]. split; [|exact B2].
    rewrite updn_other by lia. exact B1.
  - intros g0 H. rewrite Egets in H. rewrite Erefs. unfold updn in H. destruct (Nat.eqb_spec g0 g) as [E|E].
    + subst g0. exact Hrn.
    + apply (k_excl s K g0 H).
  - intros x. rewrite Eu2, Eu1. unfold holders. change (s_nextg s') with (S g). rewrite count_S.
    assert (Hlow : count (holds s' x) g = count (holds s x) g).
    { apply count_ext. intros g0 Hlt. unfold holds. rewrite Egets, Erefs. rewrite updn_other by lia. reflexivity. }
    rewrite Hlow. fold g. change (count (holds s x) g) with (holders s x). rewrite <- (k_use s K x).
    unfold holds. rewrite Egets, Erefs, updn_same, Hrn. cbn [orb g_existing gt].
    destruct ex as [hid|]; [|lia]. rewrite (Nat.eqb_sym hid x). destruct (Nat.eqb x hid); lia.
Qed.

(* ---- EEnd ---------------------------------------------------------------------------------- *)

Definition holds_opt (o : option nat) (x : nat) : bool :=
  match o with Some y => Nat.eqb y x | None => false end.

Lemma end_cnt : forall s s' g gt r,
  Cnt s -> s_gets s g = Some gt ->
  s_nextg s' = s_nextg s -> (forall g0, s_gets s' g0 = updn (s_gets s) g None g0) ->
  (forall g0, s_refs s' g0 = updn (s_refs s) g r g0) ->
  (forall x, h_use (hd s' x) =
     match holds_opt (g_existing gt) x, holds_opt r x with
     | true, true | false, false => h_use (hd s x)
     | false, true => S (h_use (hd s x))
     | true, false => pred (h_use (hd s x))
     end) ->
  Cnt s'.
Proof.
  intros s s' g gt r K Hg En Eg Er Hu.
  pose proof (get_bound s g gt K Hg) as Hglt.
  assert (Hrn : s_refs s g = None) by (apply (k_excl s K); congruence).
  constructor.
  - intros g0 Hge. rewrite En in Hge. rewrite Eg, Er. destruct (k_bound s K g0 Hge) as (B1 & B2).
    rewrite !updn_other by lia. split; assumption.
  - intros g0 H. rewrite Eg in H. rewrite Er. unfold updn in *. destruct (Nat.eqb g0 g); [contradiction | apply (k_excl s K g0 H)].
  - intros x. rewrite Hu. unfold holders. rewrite En.
    assert (Hother : forall g0, g0 <> g -> holds s' x g0 = holds s x g0).
    { intros g0 Hne. unfold holds. rewrite Eg, Er, !updn_other by exact Hne. reflexivity. }
    assert (Hb : holds s x g = holds_opt (g_existing gt) x).
    { unfold holds. rewrite Hrn, Hg. reflexivity. }
    assert (Ha : holds s' x g = holds_opt r x).
    { unfold holds. rewrite Eg, Er, !updn_same. unfold holds_opt. destruct r; [rewrite orb_false_r|]; reflexivity. }
    rewrite (k_use s K x). unfold holders.
    destruct (holds_opt (g_existing gt) x) eqn:Eb, (holds_opt r x) eqn:Ea.
    + symmetry. apply count_ext. intros g0 _. destruct (Nat.eq_dec g0 g) as [->|Hne]; [congruence | apply Hother; exact Hne].
    + pose proof (count_off (holds s x) (holds s' x) (s_nextg s) g Hglt Hb Ha Hother). lia.
    + symmetry. apply (count_on (holds s x) (holds s' x) (s_nextg s) g Hglt Hb Ha Hother).
    + symmetry. apply count_ext. intros g0 _. destruct (Nat.eq_dec g0 g) as [->|Hne]; [congruence | apply Hother; exact Hne].
Qed.

Lemma return_handle_eq : forall g hid s, (hid < s_nexth s)%nat -> core_eq s (fst (return_handle g hid s)).
Proof.
  intros g hid s Hlt. set (s' := fst (return_handle g hid s)).
  assert (Hhd : forall x, hd s' x = if Nat.eqb x hid
                                    then set_first (hd s hid) (Some match h_first (hd s hid) with Some f => f | None => g end)
                                    else hd s x) by reflexivity.
  unfold core_eq. do 5 (split; [reflexivity|]). split; [|split].
  - intros x. rewrite Hhd. destruct (Nat.eqb_spec x hid) as [E|E]; [subst x|]; cbn; repeat split; reflexivity.
  - intros x Hx. rewrite Hhd. destruct (Nat.eqb_spec x hid) as [E|E]; [lia | reflexivity].
  - intros g0. reflexivity.
Qed.

Definition create (d : N) (snap : list N) (s : state) : state :=
  let hid := s_nexth s in
  let s1 := set_nexth (set_handles s (updn (s_handles s) hid (mkH d 1 0 0 None snap None))) (S hid) in
  set_map s1 (updN (s_map s1) d (Some hid)).

Lemma create_core : forall d snap s,
  Core s -> map_active s -> s_map s d = None ->
  Core (create d snap s) /\ map_active (create d snap s) /\ in_map (create d snap s) (s_nexth s).
Proof.
  intros d snap s C MA Hnone. set (n := s_nexth s). set (s' := create d snap s).
  assert (Hn : hd s' n = mkH d 1 0 0 None snap None) by (unfold s', create; cbn; apply updn_same).
  assert (Ho : forall x, x <> n -> hd s' x = hd s x) by (intros x Hx; unfold s', create; cbn; apply updn_other; exact Hx).
  assert (Hmap : forall d0, s_map s' d0 = if d0 =? d then Some n else s_map s d0) by reflexivity.
  assert (Hlt : forall x, in_map s x -> x <> n) by (intros x Hx; destruct (c_map s C _ _ Hx); unfold n; lia).
  assert (Hm : forall x, x <> n -> (in_map s' x <-> in_map s x)).
  { intros x Hx. unfold in_map. rewrite Hmap, (Ho x Hx).
    destruct (N.eqb_spec (h_dig (hd s x)) d) as [E|E]; [|reflexivity].
    rewrite E, Hnone. split; [intros H; inversion H; congruence | discriminate]. }
  assert (Hinn : in_map s' n) by (unfold in_map; rewrite Hn, Hmap; cbn; rewrite N.eqb_refl; reflexivity).
  assert (Hact : forall x, x <> n -> (active s' x <-> active s x)).
  { intros x Hx. unfold active. rewrite (Ho x Hx). reflexivity. }
  assert (Hactn : forall x, active s x -> x <> n) by (intros x Hx; apply Hlt; apply (c_active_in_map s C); exact Hx).
  split; [|split; [|exact Hinn]].
  - constructor.
    + intros d0 x H. rewrite Hmap in H. change (s_nexth s') with (S n).
      destruct (N.eqb_spec d0 d) as [E|E].
      * inversion H; subst. rewrite Hn. cbn. split; [reflexivity | lia].
      * destruct (c_map s C d0 x H) as (A & B). rewrite Ho by (fold n in B; lia). split; [exact A | fold n in B; lia].
    + intros x Hx. change (s_nexth s') with (S n) in Hx. rewrite Ho by lia. apply (c_fresh s C). fold n. lia.
    + intros x Ha. destruct (Nat.eq_dec x n) as [->|Hne]; [exact Hinn|].
      apply (Hm x Hne). apply (c_active_in_map s C). apply (Hact x Hne). exact Ha.
    + apply (c_queue_nodup s C).
    + intros x Hx. change (s_queue s') with (s_queue s) in Hx.
      rewrite Ho by (apply Hactn; right; left; exact Hx). apply (c_queue s C x Hx).
    + intros x. destruct (Nat.eq_dec x n) as [->|Hne]; [rewrite Hn; cbn; lia | rewrite Ho by exact Hne; apply (c_ver s C)].
    + intros g gt w Hg Hw. change (s_gets s' g) with (s_gets s g) in Hg.
      destruct (c_write s C g gt w Hg Hw) as (W1 & W).
      rewrite Ho; [split; assumption|]. apply Hactn. right. right. rewrite W1. discriminate.
    + apply (c_write_nodup s C).
    + intros x g Hx. destruct (Nat.eq_dec x n) as [->|Hne]; [rewrite Hn in Hx; discriminate|].
      rewrite Ho in Hx by exact Hne. apply (c_writing s C x g Hx).
    + intros d0 H. rewrite Hmap in H. destruct (d0 =? d); [discriminate | apply (c_absent s C d0 H)].
    + intros d0 x H. rewrite Hmap in H. change (s_backing s') with (s_backing s). change (s_latest s') with (s_latest s).
      destruct (N.eqb_spec d0 d) as [E|E].
      * inversion H; subst. rewrite Hn. cbn. split; [intros X; contradiction | intros _; apply (c_absent s C d Hnone)].
      * destruct (c_map s C d0 x H) as (_ & B). rewrite Ho by (fold n in B; lia). apply (c_present s C d0 x H).
  - intros x _ Hx. destruct (Nat.eq_dec x n) as [->|Hne].
    + left. rewrite Hn. cbn. lia.
    + apply (Hact x Hne). apply (MA x); [discriminate | apply (Hm x Hne); exact Hx].
Qed.

Definition end_body (g : nat) (gt : get) (s : state) : state * out :=
  let s0 := set_gets s (updn (s_gets s) g None) in
  match g_existing gt with
  | Some hid =>
    if g_failed gt then (decrease_use repaired hid s0, OEnd None) else return_handle g hid s0
  | None =>
    if g_failed gt then (s0, OEnd None)
    else match s_map s0 (g_dig gt) with
         | Some hid' => return_handle g hid' (increase_use hid' s0)
         | None => return_handle g (s_nexth s0) (create (g_dig gt) (g_snap gt) s0)
         end
  end.

Lemma end_body_inv : forall g gt s,
  Inv s -> s_gets s g = Some gt -> g_writes gt = [] -> Inv (fst (end_body g gt s)).
Proof.
  intros g gt s I Hg Hws. pose proof I as (C & MA & K). unfold end_body.
  set (s0 := set_gets s (updn (s_gets s) g None)).
  assert (E0 : core_eq s s0).
  { unfold core_eq. do 5 (split; [reflexivity|]). split; [intros x; repeat split; reflexivity|]. split; [reflexivity|].
    intros g0. unfold writes_of, s0. cbn. unfold updn. destruct (Nat.eqb_spec g0 g) as [E|E]; [subst g0; rewrite Hg, Hws|]; reflexivity. }
  pose proof (core_eq_core s s0 E0 C) as C0. pose proof (core_eq_map_active s s0 None E0 MA) as MA0.
  destruct (g_existing gt) as [hid|] eqn:Eex.
  - destruct (get_existing_in_map s g gt hid I Hg Eex) as (Hin & Hu).
    assert (Hin0 : in_map s0 hid) by (apply (core_eq_in_map s s0 hid E0); exact Hin).
    destruct (g_failed gt); cbn [fst].
    + destruct (decrease_use_core hid s0 C0 MA0 Hin0) as (C1 & MA1). split; [exact C1|]. split; [exact MA1|].
      unfold decrease_use in *. fold roq in *. fold (dec_only hid s0) in *.
      destruct (roq_frame hid (dec_only hid s0)) as (Fh & _ & Fg & Fr & _ & _ & Fn).
      apply (end_cnt s _ g gt None K Hg).
      * rewrite Fn. reflexivity.
      * intros g0. rewrite Fg. reflexivity.
      * intros g0. rewrite Fr. cbn. unfold updn. destruct (Nat.eqb_spec g0 g) as [E|E]; [subst g0; apply (k_excl s K); congruence | reflexivity].
      * intros x. rewrite Fh, Eex. unfold dec_only, upd_handle. cbn. unfold updn.
        rewrite (Nat.eqb_sym hid x). destruct (Nat.eqb_spec x hid) as [E|E]; [subst x|]; reflexivity.
    + assert (Hlt : (hid < s_nexth s0)%nat) by (destruct (c_map s0 C0 _ _ Hin0); assumption).
      pose proof (return_handle_eq g hid s0 Hlt) as E1.
      split; [apply (core_eq_core s0 _ E1 C0)|]. split; [apply (core_eq_map_active s0 _ None E1 MA0)|].
      apply (end_cnt s _ g gt (Some hid) K Hg).
      * reflexivity.
      * intros g0. reflexivity.
      * intros g0. reflexivity.
      * intros x. rewrite Eex. cbn. unfold updn. destruct (Nat.eqb_spec x hid) as [E|E].
        -- subst x. rewrite Nat.eqb_refl. reflexivity.
        -- apply Nat.eqb_neq in E. rewrite (Nat.eqb_sym hid x), E. reflexivity.
  - destruct (g_failed gt); cbn [fst].
    + split; [exact C0|]. split; [exact MA0|].
      apply (end_cnt s s0 g gt None K Hg).
      * reflexivity.
      * intros g0. reflexivity.
      * intros g0. cbn. unfold updn. destruct (Nat.eqb_spec g0 g) as [E|E]; [subst g0; apply (k_excl s K); congruence | reflexivity].
      * intros x. rewrite Eex. reflexivity.
    + destruct (s_map s0 (g_dig gt)) as [hid'|] eqn:Em.
      * assert (Hin0 : in_map s0 hid') by (apply (map_in_map s0 _ hid' C0 Em)).
        destruct (increase_use_core hid' s0 None C0 MA0 Hin0) as (C1 & MA1).
        destruct (increase_use_frame hid' s0) as (_ & _ & Fg & Fr & _ & Fnh & Fn).
        assert (Hlt : (hid' < s_nexth (increase_use hid' s0))%nat) by (rewrite Fnh; destruct (c_map s0 C0 _ _ Hin0); assumption).
        pose proof (return_handle_eq g hid' _ Hlt) as E1.
        split; [apply (core_eq_core _ _ E1 C1)|]. split; [apply (core_eq_map_active _ _ None E1 MA1)|].
        apply (end_cnt s _ g gt (Some hid') K Hg).
        -- cbn. rewrite Fn. reflexivity.
        -- intros g0. cbn. rewrite Fg. reflexivity.
        -- intros g0. cbn. rewrite Fr. reflexivity.
        -- intros x. rewrite Eex. cbn [holds_opt].
           assert (h_use (hd (fst (return_handle g hid' (increase_use hid' s0))) x) = h_use (hd (increase_use hid' s0) x)) as Eu.
           { destruct E1 as (_ & _ & _ & _ & _ & Eh & _). apply (Eh x). }
           rewrite Eu. destruct (increase_use_fields hid' s0 x) as (_ & _ & _ & _ & _ & Eu2). rewrite Eu2.
           rewrite (Nat.eqb_sym hid' x). destruct (Nat.eqb x hid'); reflexivity.
      * destruct (create_core (g_dig gt) (g_snap gt) s0 C0 MA0 Em) as (C1 & MA1 & Hin1).
        assert (Hlt : (s_nexth s0 < s_nexth (create (g_dig gt) (g_snap gt) s0))%nat) by (cbn; lia).
        pose proof (return_handle_eq g (s_nexth s0) _ Hlt) as E1.
        split; [apply (core_eq_core _ _ E1 C1)|]. split; [apply (core_eq_map_active _ _ None E1 MA1)|].
        apply (end_cnt s _ g gt (Some (s_nexth s0)) K Hg).
        -- reflexivity.
        -- intros g0. reflexivity.
        -- intros g0. reflexivity.
        -- intros x. rewrite Eex. cbn [holds_opt].
           assert (h_use (hd (fst (return_handle g (s_nexth s0) (create (g_dig gt) (g_snap gt) s0))) x)
                   = h_use (hd (create (g_dig gt) (g_snap gt) s0) x)) as Eu.
           { destruct E1 as (_ & _ & _ & _ & _ & Eh & _). apply (Eh x). }
           rewrite Eu. unfold create. cbn. unfold updn. rewrite (Nat.eqb_sym (s_nexth s) x).
           destruct (Nat.eqb_spec x (s_nexth s)) as [E|E]; [|reflexivity].
           subst x. cbn. rewrite (c_fresh s C (s_nexth s) (Nat.le_refl _)). reflexivity.
Qed.

Lemma step_end_inv : forall g s, Inv s -> Inv (fst (step_end repaired g s)).
Proof.
  intros g s I. unfold step_end.
  destruct (s_gets s g) as [gt|] eqn:Hg; [|exact I].
  destruct (g_read gt); destruct (g_writes gt) eqn:Hws; try exact I;
    apply (end_body_inv g gt s I Hg Hws).
Qed.

(* ---- all events ------------------------------------------------------------------------------ *)

Lemma step_inv : forall s e, Inv s -> Inv (fst (step s e)).
Proof.
  intros s e I. unfold step, step_v. destruct e.
  - apply step_get_inv; exact I.
  - apply step_read_inv; exact I.
  - apply step_put_inv; exact I.
  - apply step_end_inv; exact I.
  - apply step_rel_inv; exact I.
Qed.

Lemma init_inv : Inv init.
Proof.
  split; [|split].
  - constructor; cbn.
    + intros; discriminate.
    + intros; reflexivity.
    + intros hid [H | [H | H]]; cbn in H; [lia | contradiction | contradiction].
    + constructor.
    + intros hid [].
    + intros; lia.
    + intros; discriminate.
    + intros; discriminate.
    + intros; discriminate.
    + intros; reflexivity.
    + intros; discriminate.
  - intros x _ H. unfold in_map in H. cbn in H. discriminate.
  - constructor; cbn.
    + intros; split; reflexivity.
    + intros g H. contradiction.
    + intros; reflexivity.
Qed.

Lemma run_inv : forall evs s, Inv s -> Inv (run s evs).
Proof.
  induction evs as [|e t IH]; intros s I; [exact I|]. cbn. apply IH. apply (step_inv s e I).
Qed.

(* ---- the properties ---------------------------------------------------------------------------- *)

Lemma reachable_in_map : forall s hid, Inv s -> reachable s hid -> in_map s hid.
Proof.
  intros s hid I H. pose proof I as (C & _ & _). destruct H as [H | [H | [H | H]]].
  - exact H.
  - apply (c_active_in_map s C). right. left. exact H.
  - destruct H as (w & (g & gt & Hg & Hw) & E). subst hid.
    destruct (c_write s C g gt w Hg Hw) as (W1 & _). apply (c_active_in_map s C). right. right. rewrite W1. discriminate.
  - destruct H as (g & Hr). apply (ref_in_map s g hid I Hr).
Qed.

Lemma one_handle_per_digest_l : forall evs h1 h2,
  let s := run init evs in
  reachable s h1 -> reachable s h2 -> h_dig (hd s h1) = h_dig (hd s h2) -> h1 = h2.
Proof.
  intros evs h1 h2 s R1 R2 E. pose proof (run_inv evs init init_inv) as I. fold s in I.
  apply (in_map_inj s h1 h2); [apply reachable_in_map | apply reachable_in_map | exact E]; assumption.
Qed.

Lemma no_lost_update_l : forall evs,
  let s := run init evs in
  quiescent s -> forall d, s_backing s d = s_latest s d.
Proof.
  intros evs s (Q1 & Q2 & Q3) d. pose proof (run_inv evs init init_inv) as I. fold s in I.
  destruct I as (C & MA & _).
  destruct (s_map s d) as [hid|] eqn:Em; [|apply (c_absent s C d Em)].
  exfalso. assert (Hin : in_map s hid) by (apply (map_in_map s d hid C Em)).
  destruct (MA hid) as [H | [H | H]]; [discriminate | exact Hin | | |].
  - rewrite (Q1 d hid Em) in H. lia.
  - rewrite Q2 in H. destruct H.
  - destruct (h_writing (hd s hid)) as [g|] eqn:Ew; [|contradiction].
    destruct (c_writing s C hid g Ew) as (gt & w & Hg & Hw & _). apply (Q3 w). exists g, gt. split; assumption.
Qed.

(* a failed write leaves the handle registered, dirty, and either queued
   again or still in use (its holder's Release will queue it) *)
Lemma failed_write_requeued_l : forall evs g d m gt w rest,
  let s := run init evs in
  s_gets s g = Some gt -> take_write d m (g_writes gt) = Some (w, rest) ->
  let s' := fst (step s (EPut g d m false)) in
  in_map s' (w_h w) /\ h_wv (hd s' (w_h w)) < h_cv (hd s' (w_h w)) /\
  (In (w_h w) (s_queue s') \/ (0 < h_use (hd s' (w_h w)))%nat).
Proof.
  intros evs g d m gt w rest s Hg Ht s'.
  pose proof (run_inv evs init init_inv) as I. fold s in I.
  pose proof (step_inv s (EPut g d m false) I) as I'. fold s' in I'.
  destruct I as (C & MA & K).
  destruct (take_write_spec _ _ _ _ _ Ht) as (l1 & l2 & E1 & E2).
  assert (Hw : In w (g_writes gt)) by (rewrite E1; apply in_or_app; right; left; reflexivity).
  destruct (c_write s C g gt w Hg Hw) as (W1 & W2 & W3 & W4 & W5).
  unfold s', step, step_v. rewrite (step_put_state g d m false s gt w rest Hg Ht).
  set (gt' := mkG _ _ _ _ _ _). set (p := put_upd g false w gt' s).
  assert (Hp : h_wv (hd p (w_h w)) = h_wv (hd s (w_h w)) /\ h_cv (hd p (w_h w)) = h_cv (hd s (w_h w)) /\
               h_writing (hd p (w_h w)) = None /\ h_use (hd p (w_h w)) = h_use (hd s (w_h w))).
  { unfold p, put_upd, upd_handle. cbn. rewrite updn_same. cbn. repeat split; reflexivity. }
  destruct Hp as (P1 & P2 & P3 & P4).
  destruct (roq_frame (w_h w) p) as (Fh & _).
  assert (Hlt : h_wv (hd (roq (w_h w) p) (w_h w)) < h_cv (hd (roq (w_h w) p) (w_h w))) by (rewrite Fh, P1, P2; lia).
  assert (Hq : In (w_h w) (s_queue (roq (w_h w) p)) \/ (0 < h_use (hd (roq (w_h w) p) (w_h w)))%nat).
  { rewrite Fh. unfold roq, remove_or_queue. cbn [v_guard repaired andb]. rewrite P3. cbn [is_some negb].
    rewrite andb_true_r. destruct (Nat.eqb_spec (h_use (hd p (w_h w))) 0) as [E|E]; [|right; lia].
    replace (h_wv (hd p (w_h w)) =? h_cv (hd p (w_h w))) with false by (symmetry; apply N.eqb_neq; lia).
    destruct (inb (w_h w) (s_queue p)) eqn:Ei; [left; apply inb_In; exact Ei|].
    left. cbn. apply in_or_app. right. left. reflexivity. }
  split; [|split; assumption].
  unfold s', step, step_v in I'. rewrite (step_put_state g d m false s gt w rest Hg Ht) in I'. fold gt' p in I'.
  destruct I' as (C' & _). apply (c_active_in_map _ C'). destruct Hq as [Hq | Hq]; [right; left; exact Hq | left; exact Hq].
Qed.

(* what Get hands out: the handle now registered for the digest, whose
   message is the latest released one unless the backing store is already
   up to date (the latter case is the stale-read finding) *)
Lemma step_end_out : forall g s f msg,
  snd (step s (EEnd g)) = OEnd (Some (f, msg)) ->
  exists hid, s_refs (fst (step s (EEnd g))) g = Some hid /\ msg = h_msg (hd (fst (step s (EEnd g))) hid).
Proof.
  intros g s f msg. unfold step, step_v, step_end.
  destruct (s_gets s g) as [gt|]; [|discriminate].
  assert (R : forall hid s0, snd (return_handle g hid s0) = OEnd (Some (f, msg)) ->
              exists hid0, s_refs (fst (return_handle g hid s0)) g = Some hid0 /\
                           msg = h_msg (hd (fst (return_handle g hid s0)) hid0)).
  { intros hid s0 H. unfold return_handle in *. cbn in *. inversion H; subst. exists hid.
    rewrite !updn_same. cbn. split; reflexivity. }
  destruct (g_read gt); destruct (g_writes gt); try discriminate;
    (destruct (g_existing gt) as [hid|];
     [destruct (g_failed gt); [discriminate | apply R]
     | destruct (g_failed gt); [discriminate|];
       destruct (s_map _ (g_dig gt)); apply R]).
Qed.

Lemma returned_handle_current_l : forall evs g f msg,
  let s := run init evs in
  snd (step s (EEnd g)) = OEnd (Some (f, msg)) ->
  let s' := fst (step s (EEnd g)) in
  exists hid, s_refs s' g = Some hid /\ in_map s' hid /\
    (msg = s_latest s' (h_dig (hd s' hid)) \/ s_backing s' (h_dig (hd s' hid)) = s_latest s' (h_dig (hd s' hid))).
Proof.
  intros evs g f msg s Hout s'.
  pose proof (run_inv evs init init_inv) as I. fold s in I.
  pose proof (step_inv s (EEnd g) I) as I'. fold s' in I'.
  destruct (step_end_out g s f msg Hout) as (hid & Hr & Hm). fold s' in Hr, Hm.
  exists hid. split; [exact Hr|]. destruct (ref_in_map s' g hid I' Hr) as (Hin & _). split; [exact Hin|].
  destruct I' as (C' & _). destruct (c_present s' C' _ _ Hin) as (P1 & P2).
  destruct (N.eq_dec (h_cv (hd s' hid)) 0) as [E|E].
  - right. apply P2. pose proof (c_ver s' C' hid). lia.
  - left. rewrite Hm. apply P1. exact E.
Qed.
