(* Invariant preservation by every event of the (repaired) mutable proto
   store model, and the property theorems derived from the invariant. *)
From Coq Require Import Lia.
From VF Require Import Store.Model Store.Spec Store.Lemmas Store.Invariant.
Open Scope N_scope.

(* ---- what the counting part gives ------------------------------------------------------ *)

Lemma ref_bound : forall s g hid, Cnt s -> s_refs s g = Some hid -> (g < s_nextg s)%nat.
Proof.
  intros s g hid K H. destruct (Nat.lt_ge_cases g (s_nextg s)) as [Hlt | Hge]; [exact Hlt|].
  destruct (k_bound s K g Hge) as (_ & Hr). congruence.
Qed.

Lemma get_bound : forall s g gt, Cnt s -> s_gets s g = Some gt -> (g < s_nextg s)%nat.
Proof.
  intros s g gt K H. destruct (Nat.lt_ge_cases g (s_nextg s)) as [Hlt | Hge]; [exact Hlt|].
  destruct (k_bound s K g Hge) as (Hg & _). congruence.
Qed.

Lemma holder_in_map : forall s g hid, Inv s -> (g < s_nextg s)%nat -> holds s hid g = true ->
  in_map s hid /\ (0 < h_use (hd s hid))%nat.
Proof.
  intros s g hid (C & _ & K) Hlt Hh.
  assert (0 < h_use (hd s hid))%nat as Hu.
  { rewrite (k_use s K hid). unfold holders. apply (count_pos _ _ g); assumption. }
  split; [apply (c_active_in_map s C); left; exact Hu | exact Hu].
Qed.

Lemma ref_in_map : forall s g hid, Inv s -> s_refs s g = Some hid ->
  in_map s hid /\ (0 < h_use (hd s hid))%nat.
Proof.
  intros s g hid I H. pose proof I as (_ & _ & K). apply (holder_in_map s g hid I (ref_bound s g hid K H)).
  unfold holds. rewrite H, Nat.eqb_refl. reflexivity.
Qed.

Lemma get_existing_in_map : forall s g gt hid, Inv s -> s_gets s g = Some gt -> g_existing gt = Some hid ->
  in_map s hid /\ (0 < h_use (hd s hid))%nat.
Proof.
  intros s g gt hid I H He. pose proof I as (_ & _ & K). apply (holder_in_map s g hid I (get_bound s g gt K H)).
  unfold holds. rewrite H, He, Nat.eqb_refl. apply orb_true_r.
Qed.

(* ---- ERead -------------------------------------------------------------------------------- *)

Lemma step_read_inv : forall g ok s, Inv s -> Inv (fst (step_read g ok s)).
Proof.
  intros g ok s I. unfold step_read.
  destruct (s_gets s g) as [gt|] eqn:Hg; [|exact I].
  destruct (g_read gt); try exact I. cbn [fst].
  set (gt' := mkG _ _ _ _ _ _). set (s' := set_gets s _).
  destruct I as (C & MA & K).
  assert (E : core_eq s s').
  { repeat split; try reflexivity. intros g0. unfold writes_of, s'. cbn. unfold updn.
    destruct (Nat.eqb_spec g0 g) as [E0|E0]; [subst g0; rewrite Hg; reflexivity | reflexivity]. }
  split; [apply (core_eq_core s s' E C)|]. split; [apply (core_eq_map_active s s' None E MA)|].
  constructor.
  - intros g0 Hge. cbn in Hge. pose proof (get_bound s g gt K Hg).
    destruct (k_bound s K g0 Hge) as (B1 & B2). split; [|exact B2]. cbn. rewrite updn_other by lia. exact B1.
  - intros g0 H. cbn in H. cbn. unfold updn in H. destruct (Nat.eqb_spec g0 g) as [E0|Hne].
    + subst g0. apply (k_excl s K g). congruence.
    + apply (k_excl s K g0 H).
  - intros x. change (hd s' x) with (hd s x). rewrite (k_use s K x). unfold holders. change (s_nextg s') with (s_nextg s).
    symmetry. apply count_ext. intros g0 _. unfold holds. cbn. unfold updn.
    destruct (Nat.eqb_spec g0 g) as [E0|E0]; [subst g0; rewrite Hg; reflexivity | reflexivity].
Qed.

(* ---- ERel --------------------------------------------------------------------------------- *)

Definition dirty_upd (hid : nat) (tok : N) (s : state) : state :=
  set_latest (upd_handle s hid (fun h => set_cv (set_msg h (h_msg (hd s hid) ++ [tok])) (h_cv h + 1)))
             (updN (s_latest s) (h_dig (hd s hid)) (h_msg (hd s hid) ++ [tok])).

Lemma dirty_upd_core : forall hid tok s,
  Core s -> map_active s -> in_map s hid -> (0 < h_use (hd s hid))%nat ->
  Core (dirty_upd hid tok s) /\ map_active (dirty_upd hid tok s) /\ in_map (dirty_upd hid tok s) hid.
Proof.
  intros hid tok s C MA Hin Hu. set (s' := dirty_upd hid tok s).
  assert (Hlt : (hid < s_nexth s)%nat) by (destruct (c_map s C _ _ Hin); assumption).
  assert (Hnq : ~ In hid (s_queue s)) by (intros Hq; destruct (c_queue s C hid Hq); lia).
  assert (Hf : forall x, h_dig (hd s' x) = h_dig (hd s x) /\ h_use (hd s' x) = h_use (hd s x) /\
                         h_wv (hd s' x) = h_wv (hd s x) /\ h_writing (hd s' x) = h_writing (hd s x) /\
                         (x <> hid -> hd s' x = hd s x)).
  { intros x. unfold s', dirty_upd, upd_handle. cbn. unfold updn. destruct (Nat.eqb_spec x hid) as [E|E]; cbn.
    - subst x. repeat split; try reflexivity. intros H; contradiction.
    - repeat split; reflexivity. }
  assert (Hh : h_cv (hd s' hid) = h_cv (hd s hid) + 1 /\ h_msg (hd s' hid) = h_msg (hd s hid) ++ [tok]).
  { unfold s', dirty_upd, upd_handle. cbn. rewrite updn_same. cbn. split; reflexivity. }
  destruct Hh as (Hcv & Hmsg).
  assert (Hm : forall x, in_map s' x <-> in_map s x).
  { intros x. unfold in_map. destruct (Hf x) as (Ed & _). rewrite Ed. reflexivity. }
  assert (Hact : forall x, active s' x <-> active s x).
  { intros x. unfold active. destruct (Hf x) as (_ & Eu & _ & Ew & _). rewrite Eu, Ew. reflexivity. }
  split.
  - constructor.
    + intros d x H. destruct (Hf x) as (Ed & _). rewrite Ed. apply (c_map s C d x H).
    + intros x Hx. cbn in Hx. destruct (Hf x) as (_ & _ & _ & _ & E). rewrite E by lia. apply (c_fresh s C x Hx).
    + intros x Ha. apply Hm. apply (c_active_in_map s C). apply Hact. exact Ha.
    + apply (c_queue_nodup s C).
    + intros x Hx. cbn in Hx. assert (x <> hid) by (intros ->; contradiction).
      destruct (Hf x) as (_ & _ & _ & _ & E). rewrite E by assumption. apply (c_queue s C x Hx).
    + intros x. destruct (Nat.eq_dec x hid) as [->|Hne].
      * destruct (Hf hid) as (_ & _ & Ewv & _). rewrite Ewv, Hcv. pose proof (c_ver s C hid). lia.
      * destruct (Hf x) as (_ & _ & _ & _ & E). rewrite E by assumption. apply (c_ver s C).
    + intros g gt w Hg Hw. destruct (c_write s C g gt w Hg Hw) as (W1 & W2 & W3 & W4 & W5).
      destruct (Nat.eq_dec (w_h w) hid) as [E|Hne].
      * destruct (Hf (w_h w)) as (Ed & _ & Ewv & Ew & _). rewrite Ed, Ewv, Ew. rewrite E in *. rewrite Hcv.
        repeat split; try assumption; lia.
      * destruct (Hf (w_h w)) as (_ & _ & _ & _ & E). rewrite E by assumption. repeat split; assumption.
    + apply (c_write_nodup s C).
    + intros x g Hx. destruct (Hf x) as (_ & _ & _ & Ew & _). rewrite Ew in Hx. apply (c_writing s C x g Hx).
    + intros d H. cbn in H. cbn. unfold updN. destruct (N.eqb_spec d (h_dig (hd s hid))) as [E|E].
      * subst d. unfold in_map in Hin. congruence.
      * apply (c_absent s C d H).
    + intros d x H. cbn in H. destruct (c_present s C d x H) as (P1 & P2).
      destruct (Nat.eq_dec x hid) as [->|Hne].
      * destruct (c_map s C d hid H) as (Ed & _). destruct (Hf hid) as (_ & _ & Ewv & _).
        rewrite Ewv, Hcv, Hmsg. cbn. rewrite <- Ed, updN_same. split; [reflexivity|].
        pose proof (c_ver s C hid). lia.
      * destruct (Hf x) as (_ & _ & _ & _ & E). rewrite E by assumption. cbn.
        rewrite updN_other; [split; assumption|].
        intros Ed. apply Hne. unfold in_map in Hin. rewrite <- Ed in Hin. congruence.
  - split; [|apply Hm; exact Hin].
    intros x _ Hx. apply Hact. apply (MA x); [discriminate | apply Hm; exact Hx].
Qed.

Lemma step_rel_inv : forall g dirty tok s, Inv s -> Inv (fst (step_rel repaired g dirty tok s)).
Proof.
  intros g dirty tok s I. unfold step_rel.
  destruct (s_refs s g) as [hid|] eqn:Hr; [|exact I]. cbn [fst v_bump repaired].
  destruct (ref_in_map s g hid I Hr) as (Hin & Hu). destruct I as (C & MA & K).
  set (s1 := if dirty then _ else s).
  assert (H1 : Core s1 /\ map_active s1 /\ in_map s1 hid /\ s_gets s1 = s_gets s /\ s_refs s1 = s_refs s /\
               s_nextg s1 = s_nextg s /\ forall x, h_use (hd s1 x) = h_use (hd s x)).
  { unfold s1. destruct dirty.
    - change (set_latest _ _) with (dirty_upd hid tok s).
      destruct (dirty_upd_core hid tok s C MA Hin Hu) as (A & B & D).
      split; [exact A|]. split; [exact B|]. split; [exact D|]. do 3 (split; [reflexivity|]).
      intros x. unfold dirty_upd, upd_handle. cbn. unfold updn. destruct (Nat.eqb_spec x hid) as [E|E]; [subst x|]; reflexivity.
    - split; [exact C|]. split; [exact MA|]. split; [exact Hin|]. do 3 (split; [reflexivity|]). reflexivity. }
  destruct H1 as (C1 & MA1 & Hin1 & Eg1 & Er1 & En1 & Eu1).
  set (s2 := set_refs s1 _).
  assert (E12 : core_eq s1 s2) by (repeat split; reflexivity).
  pose proof (core_eq_core s1 s2 E12 C1) as C2.
  pose proof (core_eq_map_active s1 s2 None E12 MA1) as MA2.
  assert (Hin2 : in_map s2 hid) by (apply (core_eq_in_map s1 s2 hid E12); exact Hin1).
  destruct (decrease_use_core hid s2 C2 MA2 Hin2) as (C3 & MA3).
  split; [exact C3|]. split; [exact MA3|].
  unfold decrease_use in *. fold roq in *. fold (dec_only hid s2) in *.
  destruct (roq_frame hid (dec_only hid s2)) as (Fh & _ & Fg & Fr & _ & _ & Fn).
  assert (Egets : s_gets (roq hid (dec_only hid s2)) = s_gets s) by (rewrite Fg; exact Eg1).
  assert (Erefs : s_refs (roq hid (dec_only hid s2)) = updn (s_refs s) g None).
  { rewrite Fr. cbn. rewrite Er1. reflexivity. }
  assert (Enext : s_nextg (roq hid (dec_only hid s2)) = s_nextg s) by (rewrite Fn; exact En1).
  assert (Euse : forall x, h_use (hd (roq hid (dec_only hid s2)) x) =
                           if Nat.eqb x hid then pred (h_use (hd s hid)) else h_use (hd s x)).
  { intros x. rewrite Fh. unfold dec_only, upd_handle. cbn. unfold updn.
    destruct (Nat.eqb_spec x hid) as [E|E]; cbn; [rewrite Eu1; reflexivity | apply Eu1]. }
  assert (Hgnone : s_gets s g = None).
  { destruct (s_gets s g) eqn:E; [|reflexivity]. assert (s_refs s g = None) by (apply (k_excl s K); congruence). congruence. }
  pose proof (ref_bound s g hid K Hr) as Hglt.
  constructor.
  - intros g0 Hge. rewrite Enext in Hge. rewrite Egets, Erefs. destruct (k_bound s K g0 Hge) as (B1 & B2).
    split; [exact B1|]. unfold updn. destruct (Nat.eqb g0 g); [reflexivity | exact B2].
  - intros g0 H. rewrite Egets in H. rewrite Erefs. unfold updn. destruct (Nat.eqb g0 g); [reflexivity | apply (k_excl s K g0 H)].
  - intros x. rewrite Euse. unfold holders. rewrite Enext.
    assert (Hholds : forall g0, g0 <> g -> holds (roq hid (dec_only hid s2)) x g0 = holds s x g0).
    { intros g0 Hne. unfold holds. rewrite Egets, Erefs. rewrite updn_other by exact Hne. reflexivity. }
    assert (Hafter : holds (roq hid (dec_only hid s2)) x g = false).
    { unfold holds. rewrite Egets, Erefs, updn_same, Hgnone. reflexivity. }
    destruct (Nat.eqb_spec x hid) as [E|E].
    + subst x. assert (Hbefore : holds s hid g = true) by (unfold holds; rewrite Hr, Nat.eqb_refl; reflexivity).
      pose proof (count_off (holds s hid) (holds (roq hid (dec_only hid s2)) hid) (s_nextg s) g Hglt Hbefore Hafter Hholds) as Hc.
      rewrite (k_use s K hid). unfold holders. lia.
    + rewrite (k_use s K x). unfold holders. symmetry. apply count_ext. intros g0 _.
      destruct (Nat.eq_dec g0 g) as [->|Hne]; [|apply Hholds; exact Hne].
      rewrite Hafter. unfold holds. rewrite Hr, Hgnone. apply Nat.eqb_neq in E. rewrite Nat.eqb_sym, E. reflexivity.
Qed.

(* ---- EPut ---------------------------------------------------------------------------------- *)

Lemma take_write_spec : forall d m ws w rest,
  take_write d m ws = Some (w, rest) -> exists l1 l2, ws = l1 ++ w :: l2 /\ rest = l1 ++ l2.
Proof.
  intros d m ws. induction ws as [|a t IH]; intros w rest H; [discriminate|]. cbn in H.
  destruct (write_matches d m a).
  - inversion H; subst. exists [], rest. split; reflexivity.
  - destruct (take_write d m t) as [[x t']|] eqn:E; [|discriminate]. inversion H; subst.
    destruct (IH _ _ eq_refl) as (l1 & l2 & E1 & E2). exists (a :: l1), l2. subst. split; reflexivity.
Qed.

Definition put_upd (g : nat) (ok : bool) (w : write) (gt' : get) (s : state) : state :=
  set_gets
    (upd_handle (if ok then set_backing s (updN (s_backing s) (w_dig w) (w_msg w)) else s) (w_h w)
       (fun h => set_writing (if ok then set_wv h (w_ver w) else h) None))
    (updn (s_gets s) g (Some gt')).

Lemma put_upd_core : forall g ok w gt gt' l1 l2 s,
  Core s -> map_active s ->
  s_gets s g = Some gt -> g_writes gt = l1 ++ w :: l2 -> g_writes gt' = l1 ++ l2 ->
  Core (put_upd g ok w gt' s) /\ map_active_except (put_upd g ok w gt' s) (Some (w_h w)) /\
  in_map (put_upd g ok w gt' s) (w_h w).
Proof.
  intros g ok w gt gt' l1 l2 s C MA Hg Hws Hws'. set (hid := w_h w). set (s' := put_upd g ok w gt' s).
  assert (Hw : In w (g_writes gt)) by (rewrite Hws; apply in_or_app; right; left; reflexivity).
  destruct (c_write s C g gt w Hg Hw) as (W1 & W2 & W3 & W4 & W5). fold hid in W1, W2, W3, W4, W5.
  assert (Hin : in_map s hid) by (apply (c_active_in_map s C); right; right; rewrite W1; discriminate).
  assert (Hlt : (hid < s_nexth s)%nat) by (destruct (c_map s C _ _ Hin); assumption).
  assert (Hnq : ~ In hid (s_queue s)) by (intros Hq; destruct (c_queue s C hid Hq) as (_ & Q & _); congruence).
  pose proof (c_write_nodup s C g gt Hg) as Hnd. rewrite Hws, map_app in Hnd. cbn in Hnd.
  apply NoDup_remove in Hnd. destruct Hnd as (Hnd' & Hnotin). rewrite <- map_app in Hnd', Hnotin. fold hid in Hnotin.
  assert (Hrest : forall w', In w' (l1 ++ l2) -> In w' (g_writes gt) /\ w_h w' <> hid).
  { intros w' Hw'. split.
    - rewrite Hws. apply in_app_or in Hw'. apply in_or_app. destruct Hw'; [left | right; right]; assumption.
    - intros E. apply Hnotin. rewrite <- E. apply in_map. exact Hw'. }
  assert (Hf : forall x, h_dig (hd s' x) = h_dig (hd s x) /\ h_use (hd s' x) = h_use (hd s x) /\
                         h_cv (hd s' x) = h_cv (hd s x) /\ h_msg (hd s' x) = h_msg (hd s x) /\
                         (x <> hid -> hd s' x = hd s x)).
  { intros x. unfold s', put_upd, upd_handle. destruct ok; cbn; unfold updn; fold hid;
      destruct (Nat.eqb_spec x hid) as [E|E]; cbn; try subst x; repeat split; try reflexivity; intros; contradiction. }
  assert (Hh : h_writing (hd s' hid) = None /\ h_wv (hd s' hid) = (if ok then w_ver w else h_wv (hd s hid))).
  { unfold s', put_upd, upd_handle. destruct ok; cbn; fold hid; rewrite updn_same; cbn; split; reflexivity. }
  destruct Hh as (Hwr & Hwv).
  assert (Hm : forall x, in_map s' x <-> in_map s x).
  { intros x. unfold in_map. destruct (Hf x) as (Ed & _). rewrite Ed. unfold s', put_upd. destruct ok; reflexivity. }
  assert (Hmap : s_map s' = s_map s) by (unfold s', put_upd; destruct ok; reflexivity).
  assert (Hq : s_queue s' = s_queue s) by (unfold s', put_upd; destruct ok; reflexivity).
  assert (Hlat : s_latest s' = s_latest s) by (unfold s', put_upd; destruct ok; reflexivity).
  assert (Hnh : s_nexth s' = s_nexth s) by (unfold s', put_upd; destruct ok; reflexivity).
  assert (Hgets : s_gets s' = updn (s_gets s) g (Some gt')) by (unfold s', put_upd; destruct ok; reflexivity).
  assert (Hback : forall d, s_backing s' d = if ok && (d =? w_dig w) then w_msg w else s_backing s d).
  { intros d. unfold s', put_upd. destruct ok; cbn; [unfold updN; reflexivity | reflexivity]. }
  assert (Hact : forall x, active s' x -> active s x).
  { intros x. unfold active. rewrite Hq. destruct (Hf x) as (_ & Eu & _ & _ & E). rewrite Eu.
    intros [H | [H | H]]; [left; exact H | right; left; exact H|].
    destruct (Nat.eq_dec x hid) as [->|Hne]; [rewrite Hwr in H; contradiction | rewrite E in H by exact Hne; right; right; exact H]. }
  (* pending writes after the step *)
  assert (Hpend : forall g0 gt0 w0, s_gets s' g0 = Some gt0 -> In w0 (g_writes gt0) ->
            exists gt1, s_gets s g0 = Some gt1 /\ In w0 (g_writes gt1) /\ w_h w0 <> hid).
  { intros g0 gt0 w0 H0 Hw0. rewrite Hgets in H0. unfold updn in H0. destruct (Nat.eqb_spec g0 g) as [E|E].
    - subst g0. inversion H0; subst gt0. rewrite Hws' in Hw0. destruct (Hrest w0 Hw0) as (R1 & R2).
      exists gt. repeat split; assumption.
    - exists gt0. split; [exact H0|]. split; [exact Hw0|]. intros Eh.
      destruct (c_write s C g0 gt0 w0 H0 Hw0) as (X & _). rewrite Eh, W1 in X. congruence. }
  split; [|split].
  - constructor.
    + intros d x H. rewrite Hmap in H. destruct (Hf x) as (Ed & _). rewrite Ed, Hnh. apply (c_map s C d x H).
    + intros x Hx. rewrite Hnh in Hx. destruct (Hf x) as (_ & _ & _ & _ & E). rewrite E by lia. apply (c_fresh s C x Hx).
    + intros x Ha. apply Hm. apply (c_active_in_map s C). apply Hact. exact Ha.
    + rewrite Hq. apply (c_queue_nodup s C).
    + intros x Hx. rewrite Hq in Hx. assert (x <> hid) by (intros ->; contradiction).
      destruct (Hf x) as (_ & _ & _ & _ & E). rewrite E by assumption. apply (c_queue s C x Hx).
    + intros x. destruct (Nat.eq_dec x hid) as [->|Hne].
      * destruct (Hf hid) as (_ & _ & Ecv & _). rewrite Hwv, Ecv. destruct ok; [exact W4 | apply (c_ver s C)].
      * destruct (Hf x) as (_ & _ & _ & _ & E). rewrite E by assumption. apply (c_ver s C).
    + intros g0 gt0 w0 H0 Hw0. destruct (Hpend g0 gt0 w0 H0 Hw0) as (gt1 & G1 & G2 & G3).
      destruct (Hf (w_h w0)) as (_ & _ & _ & _ & E). rewrite E by exact G3. apply (c_write s C g0 gt1 w0 G1 G2).
    + intros g0 gt0 H0. rewrite Hgets in H0. unfold updn in H0. destruct (Nat.eqb_spec g0 g) as [E|E].
      * inversion H0; subst. rewrite Hws'. exact Hnd'.
      * apply (c_write_nodup s C g0 gt0 H0).
    + intros x g0 Hx. assert (x <> hid) by (intros ->; rewrite Hwr in Hx; discriminate).
      destruct (Hf x) as (_ & _ & _ & _ & E). rewrite E in Hx by assumption.
      destruct (c_writing s C x g0 Hx) as (gt0 & w0 & G1 & G2 & G3). rewrite Hgets. unfold updn.
      destruct (Nat.eqb_spec g0 g) as [Eg|Eg].
      * subst g0. rewrite Hg in G1. inversion G1; subst gt0. exists gt', w0. split; [reflexivity|]. split; [|exact G3].
        rewrite Hws'. rewrite Hws in G2. apply in_app_or in G2. apply in_or_app.
        destruct G2 as [G2 | [G2 | G2]]; [left; exact G2 | subst w0; contradiction | right; exact G2].
      * exists gt0, w0. repeat split; assumption.
    + intros d H. rewrite Hmap in H. rewrite Hback, Hlat.
      destruct (N.eqb_spec d (w_dig w)) as [E|E]; [|rewrite andb_false_r; apply (c_absent s C d H)].
      subst d. rewrite W2 in H. unfold in_map in Hin. congruence.
    + intros d x H. rewrite Hmap in H. rewrite Hback, Hlat. destruct (c_present s C d x H) as (P1 & P2).
      destruct (c_map s C d x H) as (Ed & _).
      destruct (Nat.eq_dec x hid) as [->|Hne].
      * destruct (Hf hid) as (_ & _ & Ecv & Em & _). rewrite Hwv, Ecv, Em. split; [exact P1|].
        destruct ok; cbn [andb].
        -- intros Ev. rewrite <- Ed, W2, N.eqb_refl. rewrite (W5 Ev). apply P1. lia.
        -- intros Ev. lia.
      * destruct (Hf x) as (_ & _ & _ & _ & E). rewrite E by assumption.
        destruct (N.eqb_spec d (w_dig w)) as [E2|E2]; [|rewrite andb_false_r; split; assumption].
        exfalso. apply Hne. subst d. rewrite W2 in H. unfold in_map in Hin. congruence.
  - intros x Hex Hx. assert (Hne : x <> hid) by congruence. apply Hm in Hx.
    destruct (Hf x) as (_ & _ & _ & _ & E). unfold active. rewrite Hq, E by assumption.
    apply (MA x); [discriminate | exact Hx].
  - apply Hm. exact Hin.
Qed.
