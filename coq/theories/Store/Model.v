(* Executable model of pkg/blobstore/blob_access_mutable_proto_store.go.

   One event = one critical section of the code (the region executed while
   holding ss.lock), plus the completion of the storage call that precedes
   it.  A list of events is an arbitrary interleaving of concurrent Get
   calls, their reads and write-backs, and Release calls.

   Messages are abstracted to the list of update tokens they contain; a
   dirty Release appends one token.  Handles are numbered in order of
   registration: the handle object a Get creates for a digest without a
   handle is private to that Get until its last critical section, so the
   model only keeps the message read into it (g_snap) and allocates the
   handle when it is inserted into the map.  The model is parametrised by a [variant] so that the two
   historic shapes of the code (see docs/areas/Store.md, findings) can be
   stated and refuted next to the repaired one. *)
From Coq Require Export List NArith Bool Arith.
Export ListNotations.
Open Scope N_scope.

Record variant := mkVariant {
  (* Release(dirty): true = currentVersion++ ; false = currentVersion =
     writtenVersion + 1 (the code as found in the snapshot, finding F5) *)
  v_bump : bool;
  (* true = a handle with a write in flight is neither queued nor removed
     (isWriting flag); false = the code before that repair *)
  v_guard : bool }.

Definition repaired := mkVariant true true.

Record handle := mkH {
  h_dig : N;
  h_use : nat;            (* useCount *)
  h_wv : N;               (* writtenVersion *)
  h_cv : N;               (* currentVersion *)
  h_writing : option nat; (* isWriting; ghost: the Get that is writing it *)
  h_msg : list N;         (* message = update tokens *)
  h_first : option nat }. (* ghost: first Get that returned this handle *)

(* A write-back in flight: handleToWrite{handle, message, writingVersion}. *)
Record write := mkW { w_h : nat; w_dig : N; w_msg : list N; w_ver : N }.

Inductive rstate := RNone | RPending | RDone.

(* A Get call between its first and its last critical section. *)
Record get := mkG {
  g_dig : N;
  g_existing : option nat; (* hasExistingHandle / handleToReturn *)
  g_read : rstate;
  g_snap : list N;         (* message read from the ISCC into the new handle *)
  g_writes : list write;   (* writes not yet completed *)
  g_failed : bool }.       (* some goroutine of the errgroup failed *)

Record state := mkS {
  s_handles : nat -> handle;
  s_nexth : nat;
  s_map : N -> option nat;          (* ss.handles *)
  s_queue : list nat;               (* ss.handlesToWrite *)
  s_backing : N -> list N;          (* the ISCC; [] = absent *)
  s_gets : nat -> option get;
  s_nextg : nat;
  s_refs : nat -> option nat;       (* handles returned by Get, not yet released *)
  s_latest : N -> list N }.         (* ghost: message at the latest dirty Release *)

Inductive event :=
| EGet (d : N)                                   (* Get: first critical section *)
| ERead (g : nat) (ok : bool)                    (* the ISCC read of Get g returns *)
| EPut (g : nat) (d : N) (m : list N) (ok : bool) (* a write of Get g returns + its critical section *)
| EEnd (g : nat)                                 (* group.Wait returned: last critical section *)
| ERel (g : nat) (dirty : bool) (tok : N).       (* mutate + Release *)

Inductive out :=
| OBegin (reads : bool) (writes : list (N * list N))
| ONone
| OEnd (r : option (nat * list N))    (* handle identity (first Get), message seen *)
| ORel (m : list N).

(* ---- small helpers -------------------------------------------------------- *)

Definition updn {A} (f : nat -> A) (k : nat) (v : A) : nat -> A :=
  fun x => if Nat.eqb x k then v else f x.
Definition updN {A} (f : N -> A) (k : N) (v : A) : N -> A :=
  fun x => if N.eqb x k then v else f x.

Definition empty_handle := mkH 0 0 0 0 None [] None.

Definition set_use (h : handle) (u : nat) := mkH (h_dig h) u (h_wv h) (h_cv h) (h_writing h) (h_msg h) (h_first h).
Definition set_wv (h : handle) (v : N) := mkH (h_dig h) (h_use h) v (h_cv h) (h_writing h) (h_msg h) (h_first h).
Definition set_cv (h : handle) (v : N) := mkH (h_dig h) (h_use h) (h_wv h) v (h_writing h) (h_msg h) (h_first h).
Definition set_writing (h : handle) (b : option nat) := mkH (h_dig h) (h_use h) (h_wv h) (h_cv h) b (h_msg h) (h_first h).
Definition set_msg (h : handle) (m : list N) := mkH (h_dig h) (h_use h) (h_wv h) (h_cv h) (h_writing h) m (h_first h).
Definition set_first (h : handle) (f : option nat) := mkH (h_dig h) (h_use h) (h_wv h) (h_cv h) (h_writing h) (h_msg h) f.

Definition set_handles (s : state) x := mkS x (s_nexth s) (s_map s) (s_queue s) (s_backing s) (s_gets s) (s_nextg s) (s_refs s) (s_latest s).
Definition set_nexth (s : state) x := mkS (s_handles s) x (s_map s) (s_queue s) (s_backing s) (s_gets s) (s_nextg s) (s_refs s) (s_latest s).
Definition set_map (s : state) x := mkS (s_handles s) (s_nexth s) x (s_queue s) (s_backing s) (s_gets s) (s_nextg s) (s_refs s) (s_latest s).
Definition set_queue (s : state) x := mkS (s_handles s) (s_nexth s) (s_map s) x (s_backing s) (s_gets s) (s_nextg s) (s_refs s) (s_latest s).
Definition set_backing (s : state) x := mkS (s_handles s) (s_nexth s) (s_map s) (s_queue s) x (s_gets s) (s_nextg s) (s_refs s) (s_latest s).
Definition set_gets (s : state) x := mkS (s_handles s) (s_nexth s) (s_map s) (s_queue s) (s_backing s) x (s_nextg s) (s_refs s) (s_latest s).
Definition set_nextg (s : state) x := mkS (s_handles s) (s_nexth s) (s_map s) (s_queue s) (s_backing s) (s_gets s) x (s_refs s) (s_latest s).
Definition set_refs (s : state) x := mkS (s_handles s) (s_nexth s) (s_map s) (s_queue s) (s_backing s) (s_gets s) (s_nextg s) x (s_latest s).
Definition set_latest (s : state) x := mkS (s_handles s) (s_nexth s) (s_map s) (s_queue s) (s_backing s) (s_gets s) (s_nextg s) (s_refs s) x.

Definition upd_handle (s : state) (hid : nat) (f : handle -> handle) : state :=
  set_handles s (updn (s_handles s) hid (f (s_handles s hid))).

Definition init : state :=
  mkS (fun _ => empty_handle) 0 (fun _ => None) [] (fun _ => []) (fun _ => None) 0 (fun _ => None) (fun _ => []).

Definition is_some {A} (o : option A) : bool := match o with Some _ => true | None => false end.

Definition inb (x : nat) (l : list nat) : bool := existsb (Nat.eqb x) l.

Fixpoint list_N_eqb (a b : list N) : bool :=
  match a, b with
  | [], [] => true
  | x :: a', y :: b' => N.eqb x y && list_N_eqb a' b'
  | _, _ => false
  end.

(* ---- the write queue ------------------------------------------------------- *)

Fixpoint replace_first (h y : nat) (l : list nat) : list nat :=
  match l with
  | [] => []
  | x :: t => if Nat.eqb x h then y :: t else x :: replace_first h y t
  end.

(* increaseUseCount on a queued handle: the last element takes its slot,
   the slice is truncated. *)
Definition swap_remove (h : nat) (q : list nat) : list nat :=
  let lastx := last q 0%nat in
  if Nat.eqb lastx h then removelast q else removelast (replace_first h lastx q).

(* Get's dequeue loop: pop from the end, at most [n] times; snapshot the
   message and the current version. *)
Fixpoint dequeue (g : nat) (n : nat) (hs : nat -> handle) (q : list nat)
    : (nat -> handle) * list nat * list write :=
  match n with
  | O => (hs, q, [])
  | S n' =>
    match q with
    | [] => (hs, q, [])
    | _ =>
      let x := last q 0%nat in
      let h := hs x in
      let w := mkW x (h_dig h) (h_msg h) (h_cv h) in
      let hs' := updn hs x (set_writing h (Some g)) in
      let '(hs'', q'', ws) := dequeue g n' hs' (removelast q) in
      (hs'', q'', w :: ws)
    end
  end.

Definition writes_per_read := 3%nat.

(* ---- handle methods (all run with ss.lock held) ---------------------------- *)

Definition increase_use (hid : nat) (s : state) : state :=
  let s1 := upd_handle s hid (fun h => set_use h (S (h_use h))) in
  if inb hid (s_queue s1) then set_queue s1 (swap_remove hid (s_queue s1)) else s1.

Definition remove_or_queue (v : variant) (hid : nat) (s : state) : state :=
  let h := s_handles s hid in
  if Nat.eqb (h_use h) 0 && negb (v_guard v && is_some (h_writing h)) then
    if N.eqb (h_wv h) (h_cv h) then set_map s (updN (s_map s) (h_dig h) None)
    else if inb hid (s_queue s) then s
    else set_queue s (s_queue s ++ [hid])
  else s.

Definition decrease_use (v : variant) (hid : nat) (s : state) : state :=
  remove_or_queue v hid (upd_handle s hid (fun h => set_use h (pred (h_use h)))).

(* ---- events ---------------------------------------------------------------- *)

Definition step_get (v : variant) (d : N) (s : state) : state * out :=
  let g := s_nextg s in
  let existing := s_map s d in
  let s1 := match existing with Some hid => increase_use hid s | None => s end in
  let '(hs, q, ws) := dequeue g writes_per_read (s_handles s1) (s_queue s1) in
  let s2 := set_queue (set_handles s1 hs) q in
  let gt := mkG d existing (if is_some existing then RNone else RPending) [] ws false in
  (set_nextg (set_gets s2 (updn (s_gets s2) g (Some gt))) (S g),
   OBegin (negb (is_some existing)) (map (fun w => (w_dig w, w_msg w)) ws)).

Definition step_read (g : nat) (ok : bool) (s : state) : state * out :=
  match s_gets s g with
  | Some gt =>
    match g_read gt with
    | RPending =>
      let gt' := mkG (g_dig gt) (g_existing gt) RDone (if ok then s_backing s (g_dig gt) else [])
                     (g_writes gt) (g_failed gt || negb ok) in
      (set_gets s (updn (s_gets s) g (Some gt')), ONone)
    | _ => (s, ONone)
    end
  | None => (s, ONone)
  end.

Definition write_matches (d : N) (m : list N) (w : write) : bool :=
  N.eqb (w_dig w) d && list_N_eqb (w_msg w) m.

(* first pending write with the given digest and payload *)
Fixpoint take_write (d : N) (m : list N) (ws : list write) : option (write * list write) :=
  match ws with
  | [] => None
  | w :: t =>
    if write_matches d m w then Some (w, t)
    else match take_write d m t with
         | Some (x, t') => Some (x, w :: t')
         | None => None
         end
  end.

Definition step_put (v : variant) (g : nat) (d : N) (m : list N) (ok : bool) (s : state) : state * out :=
  match s_gets s g with
  | Some gt =>
    match take_write d m (g_writes gt) with
    | Some (w, rest) =>
      let hid := w_h w in
      let s1 := if ok then set_backing s (updN (s_backing s) (w_dig w) (w_msg w)) else s in
      let s2 := upd_handle s1 hid (fun h =>
                  let h1 := if ok then set_wv h (w_ver w) else h in
                  set_writing h1 None) in
      let s3 := remove_or_queue v hid s2 in
      let gt' := mkG (g_dig gt) (g_existing gt) (g_read gt) (g_snap gt) rest (g_failed gt || negb ok) in
      (set_gets s3 (updn (s_gets s3) g (Some gt')), ONone)
    | None => (s, ONone)
    end
  | None => (s, ONone)
  end.

Definition return_handle (g hid : nat) (s : state) : state * out :=
  let h := s_handles s hid in
  let first := match h_first h with Some f => f | None => g end in
  let s1 := upd_handle s hid (fun h => set_first h (Some first)) in
  (set_refs s1 (updn (s_refs s1) g (Some hid)), OEnd (Some (first, h_msg h))).

Definition step_end (v : variant) (g : nat) (s : state) : state * out :=
  match s_gets s g with
  | Some gt =>
    match g_read gt, g_writes gt with
    | RPending, _ => (s, ONone)
    | _, _ :: _ => (s, ONone)
    | _, [] =>
      let s0 := set_gets s (updn (s_gets s) g None) in
      match g_existing gt with
      | Some hid =>
        if g_failed gt then (decrease_use v hid s0, OEnd None) else return_handle g hid s0
      | None =>
        if g_failed gt then (s0, OEnd None)
        else match s_map s0 (g_dig gt) with
             | Some hid' => return_handle g hid' (increase_use hid' s0)
             | None =>
               (* the handle created by this Get is registered *)
               let hid := s_nexth s0 in
               let s1 := set_nexth (set_handles s0 (updn (s_handles s0) hid
                           (mkH (g_dig gt) 1 0 0 None (g_snap gt) None))) (S hid) in
               return_handle g hid (set_map s1 (updN (s_map s1) (g_dig gt) (Some hid)))
             end
      end
    end
  | None => (s, ONone)
  end.

Definition step_rel (v : variant) (g : nat) (dirty : bool) (tok : N) (s : state) : state * out :=
  match s_refs s g with
  | Some hid =>
    let h := s_handles s hid in
    let m := if dirty then h_msg h ++ [tok] else h_msg h in
    let s1 := if dirty then
                set_latest
                  (upd_handle s hid (fun h =>
                     set_cv (set_msg h m) (if v_bump v then h_cv h + 1 else h_wv h + 1)))
                  (updN (s_latest s) (h_dig h) m)
              else s in
    let s2 := set_refs s1 (updn (s_refs s1) g None) in
    (decrease_use v hid s2, ORel m)
  | None => (s, ONone)
  end.

Definition step_v (v : variant) (s : state) (e : event) : state * out :=
  match e with
  | EGet d => step_get v d s
  | ERead g ok => step_read g ok s
  | EPut g d m ok => step_put v g d m ok s
  | EEnd g => step_end v g s
  | ERel g dirty tok => step_rel v g dirty tok s
  end.

Definition step := step_v repaired.

Fixpoint run_v (v : variant) (s : state) (evs : list event) : state :=
  match evs with
  | [] => s
  | e :: t => run_v v (fst (step_v v s e)) t
  end.

Definition run := run_v repaired.
