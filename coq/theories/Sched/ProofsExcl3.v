(* C01, exclusivity layer: the local state of one task inside its critical section. *)
From Coq Require Import Lia.
From VF Require Export Sched.ProofsExcl2.
Open Scope Z_scope.

(* [Lc t wo ro uq s]: task [t] has worker [wo] and response [ro]; its worker
   pointer and its operation list are consistent; if [uq] none of its
   operations is queued anywhere.  This is what a function that ends the
   critical section of [t] has to know in order to drop [t] from the
   exemption list of [X]. *)
Record Lc (t : nat) (wo : option wref) (ro : option resp) (uq : bool) (s : state) : Prop := mkLc {
  LcN : (t < s_ntasks s)%nat;
  LcW : t_worker (get_task s t) = wo;
  LcR : t_resp (get_task s t) = ro;
  LcB : forall w, worker_exists s w = true -> k_task (get_worker s w) = Some t -> wo = Some w;
  LcA : forall w, wo = Some w -> is_phantom w = false -> worker_exists s w = true /\ k_task (get_worker s w) = Some t;
  LcU : uq = true -> forall o i v, op_alive s o = true -> tsk s o = t -> In (i, v) (s_invs s) -> ~ In o (v_qops v);
  LcO1 : forall o, op_alive s o = true -> tsk s o = t -> In (o_inv (get_op s o), o) (t_ops (get_task s t));
  LcO2 : forall i o, In (i, o) (t_ops (get_task s t)) -> op_alive s o = true /\ tsk s o = t /\ o_inv (get_op s o) = i }.

Lemma Lc_drop : forall ext t wo ro uq s,
  (forall w, wo = Some w -> is_phantom w = false /\ ro = None) ->
  (uq = true \/ (wo = None /\ ro = None)) ->
  Lc t wo ro uq s -> X (t :: ext) s -> X ext s.
Proof.
  intros ext t wo ro uq s Hw Hq [N W R B A U O1 O2] HX. apply (X_drop ext t s HX).
  - intros w Ew. rewrite W in Ew. destruct (Hw w Ew) as [Hp Hr]. destruct (A w Ew Hp) as [He Hk]. rewrite R. auto.
  - intros w He Hk. rewrite W. apply B; assumption.
  - intros o Ha Ht Hqd. destruct Hq as [->|[-> ->]]; [exfalso|split; assumption]. unfold queued, get_inv in Hqd.
    destruct (aget iref_eqb (o_inv (get_op s o)) (s_invs s)) as [v|] eqn:E; [|destruct Hqd].
    apply (aget_In iref_eqb iref_eqb_eq) in E. exact (U eq_refl o _ v Ha Ht E Hqd).
  - exact O1.
  - exact O2.
Qed.

Lemma Lc_weaken_uq : forall t wo ro s, Lc t wo ro true s -> Lc t wo ro false s.
Proof. intros t wo ro s [N W R B A U O1 O2]. constructor; auto; discriminate. Qed.

(* from the invariant *)
Lemma Lc_intro : forall ext t s,
  NoDup (map fst (s_invs s)) ->
  ~ In t ext -> (t < s_ntasks s)%nat -> X ext s ->
  Lc t (t_worker (get_task s t)) (t_resp (get_task s t))
     (match t_worker (get_task s t), t_resp (get_task s t) with None, None => false | _, _ => true end) s.
Proof.
  intros ext t s Hnd Hn Ht [A B C Q Qn L O1 O2]. constructor; [exact Ht|reflexivity|reflexivity| | | | | ].
  - intros w He Hk. apply B; assumption.
  - intros w Ew _. destruct (A t w Hn Ew) as [_ [He [Hk _]]]. auto.
  - intros Huq o i v Ha Hto Hiv Hin.
    assert (Ev : get_inv s i = v) by (unfold get_inv; rewrite (In_aget_NoDup iref_eqb iref_eqb_eq _ _ _ Hnd Hiv); reflexivity).
    rewrite <- Ev in Hin. destruct (Q _ _ Hin) as [_ Hi]. assert (Hqd : queued s o) by (unfold queued; rewrite Hi; exact Hin).
    assert (Hn' : ~ In (tsk s o) ext) by (rewrite Hto; exact Hn).
    destruct (L o Ha Hn' Hqd) as [Hw Hr]. rewrite Hto in Hw, Hr. rewrite Hw, Hr in Huq. discriminate.
  - intros o Ha Hto. rewrite <- Hto. apply O1; [exact Ha|rewrite Hto; exact Hn].
  - intros i o Hin. apply (O2 t); assumption.
Qed.

(* ---- transfer ------------------------------------------------------------------------------------------ *)
Lemma Lc_transfer : forall t wo ro uq s s',
  (s_ntasks s <= s_ntasks s')%nat ->
  t_worker (get_task s' t) = t_worker (get_task s t) -> t_resp (get_task s' t) = t_resp (get_task s t) ->
  t_ops (get_task s' t) = t_ops (get_task s t) ->
  (forall o, op_alive s' o = true -> tsk s' o = t -> op_alive s o = true /\ tsk s o = t /\ o_inv (get_op s' o) = o_inv (get_op s o)) ->
  (forall o, op_alive s o = true -> tsk s o = t -> op_alive s' o = true /\ tsk s' o = t /\ o_inv (get_op s' o) = o_inv (get_op s o)) ->
  (uq = true -> forall i v o, In (i, v) (s_invs s') -> In o (v_qops v) -> op_alive s' o = true -> tsk s' o = t -> exists j u, In (j, u) (s_invs s) /\ In o (v_qops u)) ->
  (forall w, worker_exists s' w = true -> k_task (get_worker s' w) = Some t -> worker_exists s w = true /\ k_task (get_worker s w) = Some t) ->
  (forall w, wo = Some w -> worker_exists s w = true -> k_task (get_worker s w) = Some t -> worker_exists s' w = true /\ k_task (get_worker s' w) = Some t) ->
  Lc t wo ro uq s -> Lc t wo ro uq s'.
Proof.
  intros t wo ro uq s s' Hn Ew Er Eo Ho Ho' Hq Hw Hw' [N W R B A U O1 O2]. constructor.
  - lia.
  - rewrite Ew. exact W.
  - rewrite Er. exact R.
  - intros w He Hk. destruct (Hw w He Hk). apply B; assumption.
  - intros w E Hp. destruct (A w E Hp) as [He Hk]. apply Hw'; assumption.
  - intros Huq o i v Ha Ht Hiv Hin. destruct (Hq Huq i v o Hiv Hin Ha Ht) as [j [u [Hj Hu]]]. destruct (Ho o Ha Ht) as [Ha0 [Ht0 _]].
    exact (U Huq o j u Ha0 Ht0 Hj Hu).
  - intros o Ha Ht. destruct (Ho o Ha Ht) as [Ha0 [Ht0 Ei]]. rewrite Eo, Ei. apply O1; assumption.
  - intros i o Hin. rewrite Eo in Hin. destruct (O2 i o Hin) as [Ha0 [Ht0 Ei]]. destruct (Ho' o Ha0 Ht0) as [Ha [Ht E]].
    split; [exact Ha|]. split; [exact Ht|]. rewrite E. exact Ei.
Qed.

Lemma Lc_frame : forall t wo ro uq s s',
  s_tasks s' = s_tasks s -> s_ntasks s' = s_ntasks s -> s_ops s' = s_ops s -> s_invs s' = s_invs s -> s_scqs s' = s_scqs s ->
  Lc t wo ro uq s -> Lc t wo ro uq s'.
Proof.
  intros t wo ro uq s s' E1 E2 E3 E4 E5. apply Lc_transfer.
  - lia.
  - rewrite (get_task_frame _ _ _ E1). reflexivity.
  - rewrite (get_task_frame _ _ _ E1). reflexivity.
  - rewrite (get_task_frame _ _ _ E1). reflexivity.
  - intros o. unfold tsk. rewrite (op_alive_frame _ _ _ E3), (get_op_frame _ _ _ E3). auto.
  - intros o. unfold tsk. rewrite (op_alive_frame _ _ _ E3), (get_op_frame _ _ _ E3). auto.
  - intros _ i v o. rewrite E4. eauto.
  - intros w. rewrite (worker_exists_frame _ _ _ E5), (get_worker_frame' _ _ _ E5). auto.
  - intros w _. rewrite (worker_exists_frame _ _ _ E5), (get_worker_frame' _ _ _ E5). auto.
Qed.

Lemma Lc_upd_task : forall t wo ro uq s t' f,
  (t' = t -> forall x, t_worker (f x) = t_worker x /\ t_resp (f x) = t_resp x /\ t_ops (f x) = t_ops x) ->
  Lc t wo ro uq s -> Lc t wo ro uq (upd_task t' f s).
Proof.
  intros t wo ro uq s t' f Hf.
  assert (Ht : t_worker (get_task (upd_task t' f s) t) = t_worker (get_task s t) /\ t_resp (get_task (upd_task t' f s) t) = t_resp (get_task s t)
               /\ t_ops (get_task (upd_task t' f s) t) = t_ops (get_task s t)).
  { rewrite get_task_upd_task. destruct (Nat.eqb t t') eqn:E; [|auto]. apply Nat.eqb_eq in E. subst. apply Hf. reflexivity. }
  destruct Ht as [E1 [E2 E3]].
  assert (Eo : s_ops (upd_task t' f s) = s_ops s) by reflexivity.
  assert (Ei : s_invs (upd_task t' f s) = s_invs s) by reflexivity.
  assert (Es : s_scqs (upd_task t' f s) = s_scqs s) by reflexivity.
  apply Lc_transfer; [unfold upd_task; cbn; lia|exact E1|exact E2|exact E3| | | | | ].
  - intros o. unfold tsk. rewrite (op_alive_frame _ _ _ Eo), (get_op_frame _ _ _ Eo). auto.
  - intros o. unfold tsk. rewrite (op_alive_frame _ _ _ Eo), (get_op_frame _ _ _ Eo). auto.
  - intros _ i v o. rewrite Ei. eauto.
  - intros w. rewrite (worker_exists_frame _ _ _ Es), (get_worker_frame' _ _ _ Es). auto.
  - intros w _. rewrite (worker_exists_frame _ _ _ Es), (get_worker_frame' _ _ _ Es). auto.
Qed.

Lemma Lc_newtask : forall t wo ro uq s x,
  Lc t wo ro uq s -> Lc t wo ro uq (s <| s_ntasks ::= S |> <| s_tasks ::= fun l => l ++ [(s_ntasks s, x)] |>).
Proof.
  intros t wo ro uq s x H. pose proof (LcN _ _ _ _ _ H) as Hlt.
  set (s' := s <| s_ntasks ::= S |> <| s_tasks ::= _ |>).
  assert (Ht : get_task s' t = get_task s t).
  { unfold s'. rewrite get_task_newtask. unfold get_task. destruct (aget Nat.eqb t (s_tasks s)); [reflexivity|].
    destruct (Nat.eqb t (s_ntasks s)) eqn:E; [apply Nat.eqb_eq in E; lia|reflexivity]. }
  assert (Eo : s_ops s' = s_ops s) by reflexivity.
  assert (Ei : s_invs s' = s_invs s) by reflexivity.
  assert (Es : s_scqs s' = s_scqs s) by reflexivity.
  revert H. apply Lc_transfer; try (rewrite Ht; reflexivity).
  - cbn. lia.
  - intros o. unfold tsk. rewrite (op_alive_frame _ _ _ Eo), (get_op_frame _ _ _ Eo). auto.
  - intros o. unfold tsk. rewrite (op_alive_frame _ _ _ Eo), (get_op_frame _ _ _ Eo). auto.
  - intros _ i v o. rewrite Ei. eauto.
  - intros w. rewrite (worker_exists_frame _ _ _ Es), (get_worker_frame' _ _ _ Es). auto.
  - intros w _. rewrite (worker_exists_frame _ _ _ Es), (get_worker_frame' _ _ _ Es). auto.
Qed.

Lemma Lc_upd_op_keep : forall t wo ro uq s o f,
  (forall y, o_task (f y) = o_task y /\ o_inv (f y) = o_inv y) -> Lc t wo ro uq s -> Lc t wo ro uq (upd_op o f s).
Proof.
  intros t wo ro uq s o f Hf.
  assert (Hgo : forall o', o_task (get_op (upd_op o f s) o') = o_task (get_op s o') /\ o_inv (get_op (upd_op o f s) o') = o_inv (get_op s o')).
  { intro o'. rewrite get_op_upd_op. destruct (Nat.eqb o' o && op_alive s o) eqn:E; [|auto].
    apply andb_true_iff in E. destruct E as [E _]. apply Nat.eqb_eq in E. subst. apply Hf. }
  assert (Et : s_tasks (upd_op o f s) = s_tasks s) by (rewrite upd_op_eq; reflexivity).
  assert (Ei : s_invs (upd_op o f s) = s_invs s) by (rewrite upd_op_eq; reflexivity).
  assert (Es : s_scqs (upd_op o f s) = s_scqs s) by (rewrite upd_op_eq; reflexivity).
  apply Lc_transfer; try (rewrite (get_task_frame _ _ _ Et); reflexivity).
  - rewrite upd_op_eq. cbn. lia.
  - intros o'. unfold tsk. rewrite op_alive_upd_op. destruct (Hgo o') as [-> ->]. auto.
  - intros o'. unfold tsk. rewrite op_alive_upd_op. destruct (Hgo o') as [-> ->]. auto.
  - intros _ i v o'. rewrite Ei. eauto.
  - intros w. rewrite (worker_exists_frame _ _ _ Es), (get_worker_frame' _ _ _ Es). auto.
  - intros w _. rewrite (worker_exists_frame _ _ _ Es), (get_worker_frame' _ _ _ Es). auto.
Qed.

Lemma Lc_newop : forall t wo ro uq s t' prio i m,
  t' <> t -> Lc t wo ro uq s ->
  Lc t wo ro uq (s <| s_nops ::= S |> <| s_ops ::= fun l => l ++ [(s_nops s, mkOper t' prio i 0 m None)] |>).
Proof.
  intros t wo ro uq s t' prio i m Hne.
  set (s' := s <| s_nops ::= S |> <| s_ops ::= _ |>).
  assert (Hgo : forall o, op_alive s o = true -> get_op s' o = get_op s o).
  { intros o Ha. unfold s'. rewrite get_op_newop. unfold op_alive in Ha. unfold get_op. destruct (aget Nat.eqb o (s_ops s)); [reflexivity|discriminate]. }
  assert (Hal : forall o, op_alive s' o = true -> op_alive s o = true \/ (op_alive s o = false /\ tsk s' o = t')).
  { intros o Ha. destruct (op_alive s o) eqn:E; [left; reflexivity|right]. split; [reflexivity|]. unfold s', tsk. rewrite get_op_newop.
    unfold s' in Ha. rewrite op_alive_newop, E in Ha. cbn in Ha. unfold op_alive in E. destruct (aget Nat.eqb o (s_ops s)); [discriminate|].
    rewrite Ha. reflexivity. }
  assert (Et : s_tasks s' = s_tasks s) by reflexivity.
  assert (Ei : s_invs s' = s_invs s) by reflexivity.
  assert (Es : s_scqs s' = s_scqs s) by reflexivity.
  apply Lc_transfer; try (rewrite (get_task_frame _ _ _ Et); reflexivity).
  - cbn. lia.
  - intros o Ha Ht. destruct (Hal o Ha) as [Ha0|[_ E]]; [|congruence]. unfold tsk in *. rewrite (Hgo o Ha0) in *. auto.
  - intros o Ha Ht. unfold tsk. rewrite (Hgo o Ha). split; [|auto]. unfold s'. rewrite op_alive_newop, Ha. reflexivity.
  - intros _ j v o. rewrite Ei. eauto.
  - intros w. rewrite (worker_exists_frame _ _ _ Es), (get_worker_frame' _ _ _ Es). auto.
  - intros w _. rewrite (worker_exists_frame _ _ _ Es), (get_worker_frame' _ _ _ Es). auto.
Qed.

(* updates of one invocation: whatever joins a queue is not an operation of [t] *)
Lemma Lc_upd_inv : forall t wo ro uq s i f,
  (uq = true -> forall v o, In o (v_qops (f v)) -> In o (v_qops v) \/ (op_alive s o = true -> tsk s o <> t)) ->
  Lc t wo ro uq s -> Lc t wo ro uq (upd_inv i f s).
Proof.
  intros t wo ro uq s i f Hf.
  assert (Et : s_tasks (upd_inv i f s) = s_tasks s) by (rewrite upd_inv_eq; reflexivity).
  assert (Eo : s_ops (upd_inv i f s) = s_ops s) by (rewrite upd_inv_eq; reflexivity).
  assert (Es : s_scqs (upd_inv i f s) = s_scqs s) by apply scqs_upd_inv.
  apply Lc_transfer; try (rewrite (get_task_frame _ _ _ Et); reflexivity).
  - rewrite upd_inv_eq. cbn. lia.
  - intros o. unfold tsk. rewrite (op_alive_frame _ _ _ Eo), (get_op_frame _ _ _ Eo). auto.
  - intros o. unfold tsk. rewrite (op_alive_frame _ _ _ Eo), (get_op_frame _ _ _ Eo). auto.
  - intros Huq j v o Hjv Hin Ha Ht. unfold tsk in Ht. rewrite (op_alive_frame _ _ _ Eo) in Ha. rewrite (get_op_frame _ _ _ Eo) in Ht.
    unfold upd_inv in Hjv. destruct (aget iref_eqb i (s_invs s)) as [x|] eqn:Ex; [|eauto]. cbn in Hjv.
    apply In_aset in Hjv. destruct Hjv as [[-> ->]|Hjv]; [|eauto].
    destruct (Hf Huq _ _ Hin) as [H|H]; [|exfalso; exact (H Ha Ht)]. exists i, x. split; [|exact H].
    apply (aget_In iref_eqb iref_eqb_eq). exact Ex.
  - intros w. rewrite (worker_exists_frame _ _ _ Es), (get_worker_frame' _ _ _ Es). auto.
  - intros w _. rewrite (worker_exists_frame _ _ _ Es), (get_worker_frame' _ _ _ Es). auto.
Qed.

Lemma Lc_invs_new : forall t wo ro uq s i z, Lc t wo ro uq s -> Lc t wo ro uq (s <| s_invs ::= fun l => l ++ [(i, new_inv z)] |>).
Proof.
  intros t wo ro uq s i z.
  set (s' := s <| s_invs ::= _ |>).
  assert (Et : s_tasks s' = s_tasks s) by reflexivity.
  assert (Eo : s_ops s' = s_ops s) by reflexivity.
  assert (Es : s_scqs s' = s_scqs s) by reflexivity.
  apply Lc_transfer; try (rewrite (get_task_frame _ _ _ Et); reflexivity).
  - cbn. lia.
  - intros o. unfold tsk. rewrite (op_alive_frame _ _ _ Eo), (get_op_frame _ _ _ Eo). auto.
  - intros o. unfold tsk. rewrite (op_alive_frame _ _ _ Eo), (get_op_frame _ _ _ Eo). auto.
  - intros _ j v o Hjv Hin _ _. unfold s' in Hjv. cbn in Hjv. apply in_app_or in Hjv. destruct Hjv as [Hjv|[Heq|[]]]; [eauto|].
    inversion Heq; subst. destruct Hin.
  - intros w. rewrite (worker_exists_frame _ _ _ Es), (get_worker_frame' _ _ _ Es). auto.
  - intros w _. rewrite (worker_exists_frame _ _ _ Es), (get_worker_frame' _ _ _ Es). auto.
Qed.

Lemma Lc_invs_del : forall t wo ro uq s i,
  Lc t wo ro uq s -> Lc t wo ro uq (s <| s_invs := adel iref_eqb i (s_invs s) |>).
Proof.
  intros t wo ro uq s i.
  set (s' := s <| s_invs := _ |>).
  assert (Et : s_tasks s' = s_tasks s) by reflexivity.
  assert (Eo : s_ops s' = s_ops s) by reflexivity.
  assert (Es : s_scqs s' = s_scqs s) by reflexivity.
  apply Lc_transfer; try (rewrite (get_task_frame _ _ _ Et); reflexivity).
  - cbn. lia.
  - intros o. unfold tsk. rewrite (op_alive_frame _ _ _ Eo), (get_op_frame _ _ _ Eo). auto.
  - intros o. unfold tsk. rewrite (op_alive_frame _ _ _ Eo), (get_op_frame _ _ _ Eo). auto.
  - intros _ j v o Hjv Hin _ _. unfold s' in Hjv. cbn in Hjv. apply In_adel in Hjv. eauto.
  - intros w. rewrite (worker_exists_frame _ _ _ Es), (get_worker_frame' _ _ _ Es). auto.
  - intros w _. rewrite (worker_exists_frame _ _ _ Es), (get_worker_frame' _ _ _ Es). auto.
Qed.

(* worker records: the update does not make a worker hold [t] and does not take [t] from its holder *)
Lemma Lc_upd_worker : forall t wo ro uq s w f,
  (k_task (f (get_worker s w)) = Some t <-> k_task (get_worker s w) = Some t) ->
  Lc t wo ro uq s -> Lc t wo ro uq (upd_worker w f s).
Proof.
  intros t wo ro uq s w f Hf.
  assert (Et : s_tasks (upd_worker w f s) = s_tasks s) by (rewrite upd_worker_eq; reflexivity).
  assert (Eo : s_ops (upd_worker w f s) = s_ops s) by (rewrite upd_worker_eq; reflexivity).
  assert (Ei : s_invs (upd_worker w f s) = s_invs s) by apply invs_upd_worker.
  assert (Hk : forall w', k_task (get_worker (upd_worker w f s) w') = Some t <-> k_task (get_worker s w') = Some t).
  { intro w'. rewrite get_worker_upd_worker. destruct (wref_eqb w' w && worker_exists s w) eqn:E; [|tauto].
    apply andb_true_iff in E. destruct E as [E _]. apply wref_eqb_eq in E. subst. exact Hf. }
  apply Lc_transfer; try (rewrite (get_task_frame _ _ _ Et); reflexivity).
  - rewrite upd_worker_eq. cbn. lia.
  - intros o. unfold tsk. rewrite (op_alive_frame _ _ _ Eo), (get_op_frame _ _ _ Eo). auto.
  - intros o. unfold tsk. rewrite (op_alive_frame _ _ _ Eo), (get_op_frame _ _ _ Eo). auto.
  - intros _ j v o. rewrite Ei. eauto.
  - intros w'. rewrite worker_exists_upd_worker, Hk. auto.
  - intros w' _. rewrite worker_exists_upd_worker, Hk. auto.
Qed.

Lemma Lc_upd_scq_keep : forall t wo ro uq s k f, (forall q, q_workers (f q) = q_workers q) ->
  Lc t wo ro uq s -> Lc t wo ro uq (upd_scq k f s).
Proof.
  intros t wo ro uq s k f Hf.
  assert (Et : s_tasks (upd_scq k f s) = s_tasks s) by (rewrite upd_scq_eq; reflexivity).
  assert (Eo : s_ops (upd_scq k f s) = s_ops s) by (rewrite upd_scq_eq; reflexivity).
  assert (Ei : s_invs (upd_scq k f s) = s_invs s) by (rewrite upd_scq_eq; reflexivity).
  apply Lc_transfer; try (rewrite (get_task_frame _ _ _ Et); reflexivity).
  - rewrite upd_scq_eq. cbn. lia.
  - intros o. unfold tsk. rewrite (op_alive_frame _ _ _ Eo), (get_op_frame _ _ _ Eo). auto.
  - intros o. unfold tsk. rewrite (op_alive_frame _ _ _ Eo), (get_op_frame _ _ _ Eo). auto.
  - intros _ j v o. rewrite Ei. eauto.
  - intros w'. rewrite worker_exists_upd_scq_keep, get_worker_upd_scq_keep by exact Hf. auto.
  - intros w' _. rewrite worker_exists_upd_scq_keep, get_worker_upd_scq_keep by exact Hf. auto.
Qed.

(* ---- closure tactic -------------------------------------------------------------------------------------- *)
Ltac lc_side := first [ assumption | congruence | lia | (intros; subst; first [lia | congruence | contradiction]) ].

Ltac lc_inv_side :=
  let Huq := fresh "Huq" in let v := fresh "v" in let o := fresh "o" in let Hin := fresh "Hin" in
  intros Huq; first [ discriminate Huq |
  (intros v o Hin; cbn in Hin;
   first [ (left; exact Hin)
         | (left; unfold remove_nat in Hin; apply filter_In in Hin; destruct Hin as [Hin _]; exact Hin)
         | (apply in_app_or in Hin; destruct Hin as [Hin|[<-|[]]]; [left; exact Hin | right; lc_side]) ]) ].

Ltac t_Lc :=
  intros;
  lazymatch goal with
  | |- Lc _ _ _ _ (upd_task _ _ _) =>
    apply Lc_upd_task; [ let E := fresh in let x := fresh in intros E x; first [ (cbn; repeat split; reflexivity) | (exfalso; lc_side) ] | assumption ]
  | |- Lc _ _ _ _ (set s_tasks _ (set s_ntasks S _)) => apply Lc_newtask; assumption
  | |- Lc _ _ _ _ (upd_op _ _ _) => apply Lc_upd_op_keep; [intros ?; cbn; split; reflexivity | assumption]
  | |- Lc _ _ _ _ (set s_ops _ (set s_nops S _)) => apply Lc_newop; [lc_side | assumption]
  | |- Lc _ _ _ _ (upd_inv _ _ _) =>
    (try match goal with Hf : inv_upd _ |- _ => destruct Hf end); (apply Lc_upd_inv; [ lc_inv_side | assumption ])
  | |- Lc _ _ _ _ (set s_invs (fun l => l ++ [(_, new_inv _)]) _) => apply Lc_invs_new; assumption
  | |- Lc _ _ _ _ (set s_invs (fun _ => adel iref_eqb _ _) _) => apply Lc_invs_del; assumption
  | |- Lc _ _ _ _ (upd_worker _ _ _) => apply Lc_upd_worker; [ cbn; first [tauto | (split; intro; lc_side)] | assumption ]
  | |- Lc _ _ _ _ (upd_scq _ _ _) =>
    apply Lc_upd_scq_keep; [let q := fresh "q" in intros q; first [reflexivity | (destruct (existsb _ (q_drains q)); reflexivity)] | assumption]
  | |- _ => (eapply Lc_frame; [ | | | | | eassumption]); frame_eq
  end.

Ltac lc_go0 := inv_go fail t_Lc.

Section LcFrames.
  Variables (t : nat) (wo : option wref) (ro : option resp) (uq : bool).
  Notation L := (Lc t wo ro uq).

  Lemma Lc_get_or_create_invocation : forall k p s, L s -> L (get_or_create_invocation k p s).
  Proof. intros. lc_go0. Qed.
  Lemma Lc_remove_if_empty : forall i s, L s -> L (fst (remove_if_empty i s)).
  Proof. intros. lc_go0. Qed.
  Lemma Lc_increment_executing : forall i w s, L s -> L (increment_executing i w s).
  Proof. intros. lc_go0. Qed.
  Lemma Lc_decrement_executing : forall i w s, L s -> L (decrement_executing i w s).
  Proof. intros. lc_go0. Qed.
  Lemma Lc_update_first_priority : forall i s, L s -> L (update_first_priority i s).
  Proof. intros. lc_go0. Qed.
  Lemma Lc_remove_queued_from_invocation : forall o s, L s -> L (remove_queued_from_invocation o s).
  Proof. intros. lc_go0. Qed.
  Lemma Lc_clear_last_invocation : forall w s, L s -> L (clear_last_invocation w s).
  Proof. intros. lc_go0. Qed.
  Lemma Lc_set_last_invocation : forall w p s, L s -> L (set_last_invocation w p s).
  Proof. intros. lc_go0. Qed.
  Lemma Lc_dequeue_worker : forall w s, L s -> L (dequeue_worker w s).
  Proof. intros. lc_go0. Qed.
  Lemma Lc_maybe_start_cleanup : forall o s, L s -> L (maybe_start_cleanup o s).
  Proof. intros. lc_go0. Qed.
End LcFrames.

(* ---- transitions of the task itself ---------------------------------------------------------------------- *)
Lemma Lc_transfer2 : forall t wo ro wo' ro' uq s s',
  (s_ntasks s <= s_ntasks s')%nat ->
  t_worker (get_task s' t) = wo' -> t_resp (get_task s' t) = ro' ->
  t_ops (get_task s' t) = t_ops (get_task s t) ->
  (forall o, op_alive s' o = true -> tsk s' o = t -> op_alive s o = true /\ tsk s o = t /\ o_inv (get_op s' o) = o_inv (get_op s o)) ->
  (forall o, op_alive s o = true -> tsk s o = t -> op_alive s' o = true /\ tsk s' o = t /\ o_inv (get_op s' o) = o_inv (get_op s o)) ->
  (uq = true -> forall i v o, In (i, v) (s_invs s') -> In o (v_qops v) -> op_alive s' o = true -> tsk s' o = t -> exists j u, In (j, u) (s_invs s) /\ In o (v_qops u)) ->
  (forall w, worker_exists s' w = true -> k_task (get_worker s' w) = Some t -> wo' = Some w) ->
  (forall w, wo' = Some w -> is_phantom w = false -> worker_exists s' w = true /\ k_task (get_worker s' w) = Some t) ->
  Lc t wo ro uq s -> Lc t wo' ro' uq s'.
Proof.
  intros t wo ro wo' ro' uq s s' Hn Ew Er Eo Ho Ho' Hq Hb Ha [N W R B A U O1 O2]. constructor; auto.
  - lia.
  - intros Huq o i v Hal Ht Hiv Hin. destruct (Hq Huq i v o Hiv Hin Hal Ht) as [j [u [Hj Hu]]]. destruct (Ho o Hal Ht) as [Ha0 [Ht0 _]].
    exact (U Huq o j u Ha0 Ht0 Hj Hu).
  - intros o Hal Ht. destruct (Ho o Hal Ht) as [Ha0 [Ht0 Ei]]. rewrite Eo, Ei. apply O1; assumption.
  - intros i o Hin. rewrite Eo in Hin. destruct (O2 i o Hin) as [Ha0 [Ht0 Ei]]. destruct (Ho' o Ha0 Ht0) as [Hal [Ht E]].
    split; [exact Hal|]. split; [exact Ht|]. rewrite E. exact Ei.
Qed.

(* frames of a task update after a worker update *)
Lemma pair_reads : forall s w g t f,
  let s' := upd_task t f (upd_worker w g s) in
  s_ntasks s' = s_ntasks s /\ s_ops s' = s_ops s /\ s_invs s' = s_invs s /\
  (forall w', worker_exists s' w' = worker_exists s w') /\
  (forall w', get_worker s' w' = if wref_eqb w' w && worker_exists s w then g (get_worker s w) else get_worker s w') /\
  get_task s' t = f (get_task s t).
Proof.
  intros s w g t f s'. unfold s'.
  assert (Es : s_scqs (upd_task t f (upd_worker w g s)) = s_scqs (upd_worker w g s)) by reflexivity.
  split; [unfold upd_task; cbn; rewrite upd_worker_eq; reflexivity|].
  split; [unfold upd_task; cbn; rewrite upd_worker_eq; reflexivity|].
  split; [unfold upd_task; cbn; apply invs_upd_worker|].
  split; [intro w'; rewrite (worker_exists_frame _ _ _ Es); apply worker_exists_upd_worker|].
  split; [intro w'; rewrite (get_worker_frame' _ _ _ Es); apply get_worker_upd_worker|].
  rewrite get_task_upd_task, Nat.eqb_refl. f_equal. apply get_task_frame. rewrite upd_worker_eq. reflexivity.
Qed.

Lemma Lc_assign_pair : forall t uq s w,
  NPh s -> (is_phantom w = false -> worker_exists s w = true) ->
  Lc t None None uq s ->
  Lc t (Some w) None uq (upd_task t (fun x => x <| t_worker := Some w |> <| t_retry := O |>) (upd_worker w (fun k => k <| k_task := Some t |>) s)).
Proof.
  intros t uq s w Hnp Hex H. pose proof H as [N W R B A U O1 O2].
  destruct (pair_reads s w (fun k => k <| k_task := Some t |>) t (fun x => x <| t_worker := Some w |> <| t_retry := O |>)) as [E1 [E2 [E3 [E4 [E5 E6]]]]].
  revert H. apply Lc_transfer2; [rewrite E1; lia|rewrite E6; reflexivity|rewrite E6; exact R|rewrite E6; reflexivity| | | | | ].
  - intros o. unfold tsk. rewrite (op_alive_frame _ _ _ E2), (get_op_frame _ _ _ E2). auto.
  - intros o. unfold tsk. rewrite (op_alive_frame _ _ _ E2), (get_op_frame _ _ _ E2). auto.
  - intros _ i v o. rewrite E3. eauto.
  - intros w' He Hk. rewrite E4 in He. rewrite E5 in Hk. destruct (wref_eqb w' w && worker_exists s w) eqn:E.
    + apply andb_true_iff in E. destruct E as [E _]. apply wref_eqb_eq in E. subst. reflexivity.
    + specialize (B w' He Hk). discriminate.
  - intros w' Ew Hp. inversion Ew; subst w'. rewrite E4, E5. specialize (Hex Hp). rewrite Hex, wref_eqb_refl. cbn. auto.
Qed.

Lemma Lc_unassign_pair : forall t uq s w,
  Lc t (Some w) None uq s ->
  Lc t None None uq (upd_task t (fun x => x <| t_worker := None |>) (upd_worker w (fun k => k <| k_task := None |>) s)).
Proof.
  intros t uq s w H. pose proof H as [N W R B A U O1 O2].
  destruct (pair_reads s w (fun k => k <| k_task := None |>) t (fun x => x <| t_worker := None |>)) as [E1 [E2 [E3 [E4 [E5 E6]]]]].
  revert H. apply Lc_transfer2; [rewrite E1; lia|rewrite E6; reflexivity|rewrite E6; exact R|rewrite E6; reflexivity| | | | | ].
  - intros o. unfold tsk. rewrite (op_alive_frame _ _ _ E2), (get_op_frame _ _ _ E2). auto.
  - intros o. unfold tsk. rewrite (op_alive_frame _ _ _ E2), (get_op_frame _ _ _ E2). auto.
  - intros _ i v o. rewrite E3. eauto.
  - intros w' He Hk. exfalso. rewrite E4 in He. rewrite E5 in Hk. destruct (wref_eqb w' w && worker_exists s w) eqn:E; [discriminate|].
    pose proof (B w' He Hk) as Ew. inversion Ew; subst w'. rewrite wref_eqb_refl, He in E. discriminate.
  - intros w' Ew. discriminate.
Qed.

Lemma Lc_resp : forall t s r,
  Lc t None None true s -> Lc t None (Some r) true (upd_task t (fun x => x <| t_resp := Some r |> <| t_dnc := None |>) s).
Proof.
  intros t s r H. pose proof H as [N W R B A U O1 O2].
  set (s' := upd_task t _ s).
  assert (Et : get_task s' t = (get_task s t) <| t_resp := Some r |> <| t_dnc := None |>) by (unfold s'; rewrite get_task_upd_task, Nat.eqb_refl; reflexivity).
  assert (Eo : s_ops s' = s_ops s) by reflexivity.
  assert (Ei : s_invs s' = s_invs s) by reflexivity.
  assert (Es : s_scqs s' = s_scqs s) by reflexivity.
  revert H. apply Lc_transfer2; [unfold s', upd_task; cbn; lia|rewrite Et; exact W|rewrite Et; reflexivity|rewrite Et; reflexivity| | | | | ].
  - intros o. unfold tsk. rewrite (op_alive_frame _ _ _ Eo), (get_op_frame _ _ _ Eo). auto.
  - intros o. unfold tsk. rewrite (op_alive_frame _ _ _ Eo), (get_op_frame _ _ _ Eo). auto.
  - intros _ i v o. rewrite Ei. eauto.
  - intros w. rewrite (worker_exists_frame _ _ _ Es), (get_worker_frame' _ _ _ Es). auto.
  - intros w Ew. discriminate.
Qed.

(* after its operations have been taken out of their queues *)
Lemma Lc_upgrade : forall ext t wo ro s,
  XS ext s -> (forall o, In o (task_opids s t) -> ~ queued s o) -> Lc t wo ro false s -> Lc t wo ro true s.
Proof.
  intros ext t wo ro s HXS Hnq [N W R B A U O1 O2]. constructor; auto.
  intros _ o i v Ha Ht Hiv Hin.
  pose proof (XS_St _ _ HXS) as [_ [_ [Hnd _]]]. pose proof (XS_X _ _ HXS) as HX.
  assert (Ev : get_inv s i = v) by (unfold get_inv; rewrite (In_aget_NoDup iref_eqb iref_eqb_eq _ _ _ Hnd Hiv); reflexivity).
  rewrite <- Ev in Hin. destruct (XQ _ _ HX _ _ Hin) as [_ Hi].
  apply (Hnq o); [|unfold queued; rewrite Hi; exact Hin].
  unfold task_opids. apply in_map_iff. exists (o_inv (get_op s o), o). split; [reflexivity|]. apply O1; assumption.
Qed.
