(* The monitor on the model's trace: e_arm, part 1.  A Synchronize call that answers leaves its worker with the
   removal timer armed at "now + worker timeout" (or the scheduler reports an impossible state). *)
From Coq Require Import Lia Permutation.
From VF Require Export Sched.ProofsMon12.
From VF Require Import Sched.Spec Sched.Corr Sched.ProofsObsLink Sched.ProofsObsC01 Sched.ProofsExec Sched.ProofsSyncOut Sched.ProofsStreams Sched.ProofsWorkers.
Open Scope Z_scope.

Definition is_osync (x : obs) : bool := match x with OSync _ _ _ => true | _ => false end.
Definition NoSY (s : state) : Prop := forall x, In x (s_out s) -> is_osync x = false.
Definition armed (w : wref) (s : state) : Prop := k_cleanup (get_worker s w) = Some (s_now s + cf_worker_timeout (s_cfg s)).
Definition SAok (w : wref) (s : state) : Prop := (exists x, In x (s_out s) /\ is_osync x = true) -> Pan s \/ armed w s.
(* what the sections before the answer keep: no answer yet, the worker is registered *)
Definition SPre (w : wref) (s : state) : Prop := NoSY s /\ worker_exists s w = true.

Lemma SPre_frame : forall w s s', s_out s' = s_out s -> s_scqs s' = s_scqs s -> SPre w s -> SPre w s'.
Proof. unfold SPre, NoSY. intros w s s' E1 E2 [A B]. rewrite E1, (worker_exists_frame _ _ _ E2). auto. Qed.
Lemma SPre_emit : forall w s o, is_osync o = false -> SPre w s -> SPre w (emit o s).
Proof. unfold SPre, NoSY, emit. intros w s o Ho [A B]. split; [cbn; intros x [<-|Hx]; auto|exact B]. Qed.
Lemma SPre_upd_worker : forall w s w' f, SPre w s -> SPre w (upd_worker w' f s).
Proof. unfold SPre, NoSY. intros w s w' f [A B]. split; [rewrite upd_worker_eq; exact A|rewrite worker_exists_upd_worker; exact B]. Qed.
Lemma SPre_upd_scq_keep : forall w s k f, (forall q, q_workers (f q) = q_workers q) -> SPre w s -> SPre w (upd_scq k f s).
Proof. unfold SPre, NoSY. intros w s k f Hf [A B]. split; [rewrite upd_scq_eq; exact A|rewrite (worker_exists_upd_scq_keep s k f w Hf); exact B]. Qed.
Ltac t_spre :=
  intros;
  lazymatch goal with
  | |- SPre _ (upd_worker _ _ _) => apply SPre_upd_worker; assumption
  | |- SPre _ (upd_scq _ _ _) => apply SPre_upd_scq_keep; [intro; reflexivity | assumption]
  | |- SPre _ (emit _ _) => apply SPre_emit; [reflexivity | assumption]
  | |- SPre _ (panic _ _) => unfold panic; apply SPre_emit; [reflexivity | assumption]
  | |- _ => (eapply SPre_frame; [ | |eassumption]); frame_eq
  end.
Ltac spre_go := inv_go fail t_spre.

Lemma SA_stay : forall w s, SPre w s -> SAok w s.
Proof. intros w s [A _] [x [Hx Ho]]. rewrite (A x Hx) in Ho. discriminate. Qed.

Lemma SA_finish : forall c w d z s, SPre w s -> SAok w (finish_sync c w (emit (OSync c d z) s)).
Proof.
  intros c w d z s [A B] _. unfold finish_sync. set (s1 := emit (OSync c d z) s).
  change (get_worker s1 w) with (get_worker s w). destruct (k_cleanup (get_worker s w)) eqn:Ek.
  - left. exists "Cleanup key is already in use"%string. unfold set_call, panic, emit. cbn. left. reflexivity.
  - right. unfold armed. set (f := fun k : worker => k <| k_cleanup := Some (s_now s1 + cf_worker_timeout (s_cfg s1)) |>).
    change (get_worker (set_call c PDone (upd_worker w f s1)) w) with (get_worker (upd_worker w f s1) w).
    change (s_now (set_call c PDone (upd_worker w f s1))) with (s_now (upd_worker w f s1)).
    change (s_cfg (set_call c PDone (upd_worker w f s1))) with (s_cfg (upd_worker w f s1)).
    rewrite get_worker_upd_worker. change (worker_exists s1 w) with (worker_exists s w). rewrite B, (proj2 (wref_eqb_eq w w) eq_refl). cbn [andb].
    rewrite (upd_worker_eq w f s1). reflexivity.
Qed.

Lemma SA_sync_return_exec : forall c w s, SPre w s -> SAok w (sync_return_exec c w s).
Proof.
  intros c w s H. unfold sync_return_exec. destruct (k_task (get_worker s w)); [apply SA_finish; exact H|].
  apply SA_stay. unfold finish_sync. spre_go.
Qed.
Lemma SA_sync_return_idle : forall c w s, SPre w s -> SAok w (sync_return_idle c w s).
Proof. intros. unfold sync_return_idle. apply SA_finish. assumption. Qed.

Ltac sa_base := idtac; lazymatch goal with
  | |- SAok _ (sync_return_exec _ _ _) => apply SA_sync_return_exec; spre_go
  | |- SAok _ (sync_return_idle _ _ _) => apply SA_sync_return_idle; spre_go
  | |- SAok _ (finish_sync _ _ (emit (OSync _ _ _) _)) => apply SA_finish; spre_go
  end.

Lemma SA_sync_loop : forall c w s, SPre w s -> SAok w (sync_loop c w s).
Proof. intros c w s H. unfold sync_loop. hoare sa_base. all: apply SA_stay; spre_go. Qed.
Lemma SA_get_next_task : forall c w b pr s, SPre w s -> SAok w (get_next_task c w b pr s).
Proof.
  intros c w b pr s H. unfold get_next_task.
  hoare ltac:(first [sa_base | lazymatch goal with |- SAok _ (sync_loop _ _ _) => apply SA_sync_loop; spre_go end]).
  all: apply SA_stay; spre_go.
Qed.
Lemma SA_get_current_or_next : forall c w b pr s, SPre w s -> SAok w (get_current_or_next c w b pr s).
Proof.
  intros c w b pr s H. unfold get_current_or_next.
  hoare ltac:(first [sa_base | lazymatch goal with |- SAok _ (get_next_task _ _ _ _ _) => apply SA_get_next_task; spre_go end]).
  all: apply SA_stay; spre_go.
Qed.

Lemma NoSY_frame : forall s s', s_out s' = s_out s -> NoSY s -> NoSY s'.
Proof. unfold NoSY. intros s s' ->. auto. Qed.
Lemma NoSY_emit : forall s o, is_osync o = false -> NoSY s -> NoSY (emit o s).
Proof. unfold NoSY, emit. intros s o Ho H x. cbn. intros [<-|Hx]; auto. Qed.
Ltac t_nosy :=
  intros;
  first [ (eapply NoSY_frame; [ | eassumption]; frame_eq)
        | (apply NoSY_emit; [reflexivity | assumption])
        | (unfold panic; apply NoSY_emit; [reflexivity | assumption]) ].
Ltac nosy_go := inv_go fail t_nosy.
Lemma SA_stay' : forall w s, NoSY s -> SAok w s.
Proof. intros w s A [x [Hx Ho]]. rewrite (A x Hx) in Ho. discriminate. Qed.

Lemma SA_sync_start : forall c a s, NoSY s -> SAok (y_worker a) (sync_start c a s).
Proof.
  intros c a s H. unfold sync_start. cbv zeta. set (w := y_worker a).
  match goal with |- SAok _ (match ?R with _ => _ end) => destruct R as [s1|code1] eqn:ER end; [|apply SA_stay'; unfold ret; nosy_go].
  assert (H1 : NoSY s1 /\ scq_exists s1 (w_sk w) = true).
  { destruct (scq_exists s (w_sk w)) eqn:Ee.
    - injection ER as <-. split; [nosy_go|rewrite scq_exists_upd_scq; exact Ee].
    - sum_cases ER; injection ER as <-; (split; [unfold add_scq, add_pq; nosy_go|rewrite scq_exists_add_scq, skey_eqb_refl; apply orb_true_r]). }
  clear ER H. destruct H1 as [H He]. revert H He. generalize s1. clear s. intros s H He.
  match goal with |- SAok _ (match ?R with _ => _ end) => destruct R as [s2|code2] eqn:ER end; [|apply SA_stay'; unfold ret; nosy_go].
  assert (H2 : SPre w s2).
  { destruct (worker_exists s w) eqn:Ew.
    - destruct (k_cleanup (get_worker s w)); [|discriminate ER]. injection ER as <-. split; [nosy_go|rewrite worker_exists_upd_worker; exact Ew].
    - injection ER as <-. split; [nosy_go|].
      match goal with |- worker_exists (upd_inv ?i ?f ?X) w = true => rewrite (worker_exists_frame X (upd_inv i f X) w) by (rewrite upd_inv_eq; reflexivity) end.
      apply worker_exists_newworker. exact He. }
  clear ER H He. revert H2. generalize s2. clear s. intros s H.
  destruct (y_state a) as [|d|d r|]; try (destruct (running_correct s w d)); try (destruct (k_task (get_worker s w)) as [t|] eqn:Ek);
    try (apply SA_get_current_or_next; exact H); try (apply SA_finish; exact H); try (apply SA_stay; exact H).
  all: try (apply SA_stay; unfold sync_return_err, finish_sync; spre_go; fail).
  apply SA_get_next_task. spre_go.
Qed.

Definition sync_worker (e : event) (p0 : pc) : option wref :=
  match e with
  | EStartSync _ a _ => Some (y_worker a)
  | EEnter _ _ | ETimer _ _ => match p0 with PSyncDrained w _ | PSyncQueued w => Some w | _ => None end
  | _ => None
  end.

Lemma SAok_frame : forall w s s', s_out s' = s_out s -> s_scqs s' = s_scqs s -> s_now s' = s_now s -> s_cfg s' = s_cfg s -> SAok w s -> SAok w s'.
Proof.
  unfold SAok, Pan, armed. intros w s s' E1 E2 E3 E4 H. rewrite E1, E3, E4, (get_worker_frame' _ _ _ E2). exact H.
Qed.
Lemma SAok_ret : forall w s c code, SAok w s -> SAok w (ret c code s).
Proof.
  unfold SAok, Pan, armed, ret, set_call, emit. intros w s c code H [x [Hx Ho]]. cbn in *. destruct Hx as [<-|Hx]; [discriminate|].
  destruct (H (ex_intro _ x (conj Hx Ho))) as [[what Hw]|Ha]; [left; exists what; right; exact Hw|right; exact Ha].
Qed.

Lemma enter_nosy : forall t s, NoSY s -> NoSY (enter t s).
Proof. intros t s H. nosy_go. Qed.

(* every answer of a Synchronize call in an event leaves the worker of that call armed *)
Lemma sync_answer_armed : forall s e h, SW s -> calls_nodup s ->
  let s' := fst (step s (e, h)) in
  (exists x, In x (snd (step s (e, h))) /\ is_osync x = true) ->
  exists w, sync_worker e (get_call s (ev_call e)) = Some w /\ (Pan (auto_returns (step_core e (s <| s_hints := h |> <| s_out := [] |>))) \/ armed w s').
Proof.
  intros s e h HSW Hnd s' Hx. unfold step in *. cbn [fst snd] in *. set (sa := s <| s_hints := h |> <| s_out := [] |>) in *.
  assert (Ha : NoSY sa) by (intros x []).
  assert (HSWa : SW sa) by (eapply SW_eq; [..|exact HSW]; reflexivity).
  assert (Hx' : exists x, In x (s_out (auto_returns (step_core e sa))) /\ is_osync x = true) by (destruct Hx as [x [A B]]; exists x; split; [apply in_rev; exact A|exact B]).
  assert (Hfin : forall w, SAok w (step_core e sa) -> Pan (auto_returns (step_core e sa)) \/ armed w s').
  { intros w H1. assert (H2 : SAok w (auto_returns (step_core e sa))) by (apply (fr_auto_returns (SAok w)); [intros; apply SAok_ret; assumption|exact H1]).
    destruct (H2 Hx') as [Hp|Ha2]; [left; exact Hp|right]. unfold armed in *. exact Ha2. }
  assert (Hnone : NoSY (step_core e sa) -> False).
  { intro Hn. assert (H2 : NoSY (auto_returns (step_core e sa))) by (apply (fr_auto_returns NoSY); try (intros; t_nosy); try (intros; unfold ret; nosy_go); exact Hn).
    destruct Hx' as [x [A B]]. rewrite (H2 x A) in B. discriminate. }
  assert (Hwp : forall t p w, get_call s (ev_call e) = p -> sync_of p = Some w -> SPre w (enter t sa)).
  { intros t p w Ep Hs. split; [apply enter_nosy; exact Ha|]. pose proof (SW_enter t sa HSWa) as [_ HWP]. destruct HWP as [W1 _].
    unfold get_call in Ep. destruct (aget Nat.eqb (ev_call e) (s_calls s)) as [p'|] eqn:Eg; [|subst p; discriminate Hs]. subst p'.
    apply (W1 (ev_call e) p w); [rewrite calls_enter; exact Eg|exact Hs]. }
  destruct e; cbn [ev_call sync_worker] in *; unfold step_core in *.
  all: try (exfalso; apply Hnone; unfold exec_start, new_operation, wait_execution_begin, stream_iter, kill_lookup, ret, wake_up; cbv zeta; nosy_go; fail).
  - exists (y_worker a). split; [reflexivity|]. apply Hfin. apply SA_sync_start. apply enter_nosy. exact Ha.
  - (* EEnter *)
    cbv zeta in *. change (get_call sa c) with (get_call s c) in *. change (at_gate sa (get_call s c)) with (at_gate s (get_call s c)) in *.
    destruct (negb (at_gate s (get_call s c))); [exfalso; apply Hnone; exact Ha|].
    destruct (get_call s c) eqn:Ep; try (exfalso; apply Hnone;
      unfold stream_iter, stream_return, kill_lookup, wait_execution_begin, stream_iter, ret, sync_return_err, finish_sync, maybe_dequeue, maybe_start_cleanup; nosy_go; fail).
    + exists w. split; [reflexivity|]. apply Hfin. apply SA_sync_loop. exact (Hwp t _ w eq_refl eq_refl).
    + exists w. split; [reflexivity|]. apply Hfin. pose proof (Hwp t _ w eq_refl eq_refl) as Hpre.
      destruct (k_task (get_worker (enter t sa) w)); [apply SA_sync_return_exec|apply SA_sync_loop]; exact Hpre.
  - (* ETimer *)
    cbv zeta in *. change (get_call sa c) with (get_call s c) in *. change (at_gate sa (get_call s c)) with (at_gate s (get_call s c)) in *.
    destruct (at_gate s (get_call s c)); [exfalso; apply Hnone; exact Ha|].
    destruct (get_call s c) eqn:Ep; try (exfalso; apply Hnone; unfold stream_iter; nosy_go; fail).
    + exists w. split; [reflexivity|]. apply Hfin. apply SA_sync_return_idle. exact (Hwp t _ w eq_refl eq_refl).
    + exists w. split; [reflexivity|]. apply Hfin. pose proof (Hwp t _ w eq_refl eq_refl) as Hpre.
      assert (Hpre2 : SPre w (maybe_dequeue w (enter t sa))) by (unfold maybe_dequeue; spre_go).
      destruct (k_task (get_worker (maybe_dequeue w (enter t sa)) w)); [apply SA_sync_return_exec|apply SA_sync_return_idle]; exact Hpre2.
Qed.
