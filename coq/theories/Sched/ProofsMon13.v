(* The monitor on the model's trace: e_arm, part 1.  A Synchronize call that answers leaves its worker with the
   removal timer armed at "now + worker timeout" (or the scheduler reports an impossible state). *)
From Coq Require Import Lia Permutation.
From VF Require Export Sched.ProofsMon12.
From VF Require Import Sched.Spec Sched.Corr Sched.ProofsObsLink Sched.ProofsObsC01 Sched.ProofsExec Sched.ProofsSyncOut Sched.ProofsStreams Sched.ProofsWorkers.
Open Scope Z_scope.

Definition is_osync (x : obs) : bool := match x with OSync _ _ _ => true | _ => false end.
Definition NoSY (s : state) : Prop := forall x, In x (s_out s) -> is_osync x = false.
Definition armed (w : wref) (s : state) : Prop := k_cleanup (get_worker s w) = Some (s_now s + cf_worker_timeout (s_cfg s)).
Definition SAok (w : wref) (s : state) : Prop := (exists x, In x (s_out s) /\ is_osync x = true) -> Pan s \/ armed w s.
(* what the sections before the answer keep: no answer yet, the worker is registered *)
Definition SPre (w : wref) (s : state) : Prop := NoSY s /\ worker_exists s w = true.

Lemma SPre_frame : forall w s s', s_out s' = s_out s -> s_scqs s' = s_scqs s -> SPre w s -> SPre w s'.
Proof. unfold SPre, NoSY. intros w s s' E1 E2 [A B]. rewrite E1, (worker_exists_frame _ _ _ E2). auto. Qed.
Lemma SPre_emit : forall w s o, is_osync o = false -> SPre w s -> SPre w (emit o s).
Proof. unfold SPre, NoSY, emit. intros w s o Ho [A B]. split; [cbn; intros x [<-|Hx]; auto|exact B]. Qed.
Lemma SPre_upd_worker : forall w s w' f, SPre w s -> SPre w (upd_worker w' f s).
Proof. unfold SPre, NoSY. intros w s w' f [A B]. split; [rewrite upd_worker_eq; exact A|rewrite worker_exists_upd_worker; exact B]. Qed.
Lemma SPre_upd_scq_keep : forall w s k f, (forall q, q_workers (f q) = q_workers q) -> SPre w s -> SPre w (upd_scq k f s).
Proof. unfold SPre, NoSY. intros w s k f Hf [A B]. split; [rewrite upd_scq_eq; exact A|rewrite (worker_exists_upd_scq_keep s k f w Hf); exact B]. Qed.
Ltac t_spre :=
  intros;
  lazymatch goal with
  | |- SPre _ (upd_worker _ _ _) => apply SPre_upd_worker; assumption
  | |- SPre _ (upd_scq _ _ _) => apply SPre_upd_scq_keep; [intro; reflexivity | assumption]
  | |- SPre _ (emit _ _) => apply SPre_emit; [reflexivity | assumption]
  | |- SPre _ (panic _ _) => unfold panic; apply SPre_emit; [reflexivity | assumption]
  | |- _ => (eapply SPre_frame; [ | |eassumption]); frame_eq
  end.
Ltac spre_go := inv_go fail t_spre.

Lemma SA_stay : forall w s, SPre w s -> SAok w s.
Proof. intros w s [A _] [x [Hx Ho]]. rewrite (A x Hx) in Ho. discriminate. Qed.

Lemma SA_finish : forall c w d z s, SPre w s -> SAok w (finish_sync c w (emit (OSync c d z) s)).
Proof.
  intros c w d z s [A B] _. unfold finish_sync. set (s1 := emit (OSync c d z) s).
  change (get_worker s1 w) with (get_worker s w). destruct (k_cleanup (get_worker s w)) eqn:Ek.
  - left. exists "Cleanup key is already in use"%string. unfold set_call, panic, emit. cbn. left. reflexivity.
  - right. unfold armed. rewrite (ProofsSyncOut.get_worker_frame _ (set_call c PDone _) w) by reflexivity.
    rewrite get_worker_upd_worker. change (worker_exists s1 w) with (worker_exists s w). rewrite B, (proj2 (wref_eqb_eq w w) eq_refl). cbn. reflexivity.
Qed.

Lemma SA_sync_return_exec : forall c w s, SPre w s -> SAok w (sync_return_exec c w s).
Proof.
  intros c w s H. unfold sync_return_exec. destruct (k_task (get_worker s w)); [apply SA_finish; exact H|].
  apply SA_stay. unfold finish_sync. spre_go.
Qed.
Lemma SA_sync_return_idle : forall c w s, SPre w s -> SAok w (sync_return_idle c w s).
Proof. intros. unfold sync_return_idle. apply SA_finish. assumption. Qed.

Ltac sa_base := idtac; lazymatch goal with
  | |- SAok _ (sync_return_exec _ _ _) => apply SA_sync_return_exec; spre_go
  | |- SAok _ (sync_return_idle _ _ _) => apply SA_sync_return_idle; spre_go
  | |- SAok _ (finish_sync _ _ (emit (OSync _ _ _) _)) => apply SA_finish; spre_go
  end.

Lemma SA_sync_loop : forall c w s, SPre w s -> SAok w (sync_loop c w s).
Proof. intros c w s H. unfold sync_loop. hoare sa_base. all: apply SA_stay; spre_go. Qed.
Lemma SA_get_next_task : forall c w b pr s, SPre w s -> SAok w (get_next_task c w b pr s).
Proof.
  intros c w b pr s H. unfold get_next_task.
  hoare ltac:(first [sa_base | lazymatch goal with |- SAok _ (sync_loop _ _ _) => apply SA_sync_loop; spre_go end]).
  all: apply SA_stay; spre_go.
Qed.
Lemma SA_get_current_or_next : forall c w b pr s, SPre w s -> SAok w (get_current_or_next c w b pr s).
Proof.
  intros c w b pr s H. unfold get_current_or_next.
  hoare ltac:(first [sa_base | lazymatch goal with |- SAok _ (get_next_task _ _ _ _ _) => apply SA_get_next_task; spre_go end]).
  all: apply SA_stay; spre_go.
Qed.
