(* C01, completeness layer: task.schedule and task.complete. *)
From Coq Require Import Lia.
From VF Require Export Sched.ProofsFull3.
From VF Require Import Sched.ProofsLearner.
Open Scope Z_scope.

(* ---- queueing ---------------------------------------------------------------------------------------------------------- *)
Lemma enqueue_reads2 : forall o s,
  let s' := enqueue o s in
  (forall i x, In x (v_qops (get_inv s i)) -> In x (v_qops (get_inv s' i))) /\
  (inv_exists s (o_inv (get_op s o)) = true -> In o (v_qops (get_inv s' (o_inv (get_op s o))))) /\
  (forall i, inv_exists s' i = inv_exists s i).
Proof.
  intros o s s'. unfold s', enqueue. cbv zeta.
  set (s1 := upd_inv (o_inv (get_op s o)) _ s).
  destruct (QSame_ufp_fold s1 (nonroot_chain (o_inv (get_op s o))) s1 (QSame_refl s1)) as [_ [_ [_ E4]]].
  assert (Hie : forall l a i, inv_exists (fold_left (fun s j => update_first_priority j s) l a) i = inv_exists a i).
  { induction l as [|j l IH]; intros a i; cbn [fold_left]; [reflexivity|]. rewrite IH. unfold update_first_priority. cbv zeta.
    destruct (min_op a _); [apply inv_exists_upd_inv|]. destruct (minimal _ _); [reflexivity|apply inv_exists_upd_inv]. }
  split; [|split].
  - intros i x Hin. rewrite E4. unfold s1. rewrite get_inv_upd_inv.
    destruct (iref_eqb i (o_inv (get_op s o)) && inv_exists s (o_inv (get_op s o))) eqn:E; [|exact Hin].
    apply andb_true_iff in E. destruct E as [E _]. apply iref_eqb_eq in E. subst. cbn. apply in_or_app. left. exact Hin.
  - intros He. rewrite E4. unfold s1. rewrite get_inv_upd_inv, iref_eqb_refl, He. cbn. apply in_or_app. right. left. reflexivity.
  - intro i. rewrite Hie. unfold s1. apply inv_exists_upd_inv.
Qed.

Lemma NX_enqueue : forall ext o s,
  op_alive s o = true -> In (tsk s o) ext -> ~ In o (v_qops (get_inv s (o_inv (get_op s o)))) ->
  NX ext s -> NX ext (enqueue o s).
Proof.
  intros ext o s Ha Hin Hnq H. split; [apply XS_enqueue; [exact Ha|exact Hin|exact Hnq|exact (NX_XS _ _ H)]|].
  destruct H as [_ [B C]]. unfold enqueue. cbv zeta.
  assert (H1 : TK (upd_inv (o_inv (get_op s o)) (fun v => v <| v_qops ::= fun l => l ++ [o] |>) s) /\
               CM ext (upd_inv (o_inv (get_op s o)) (fun v => v <| v_qops ::= fun l => l ++ [o] |>) s)).
  { split; [t_TK|]. destruct C as [Hp|[HC HM]]; [left; t_pan|right]. split; [|t_MI].
    apply CQ_upd_inv_grow; [|exact HC]. intros v x Hx. cbn. apply in_or_app. left. exact Hx. }
  set (s1 := upd_inv _ _ s) in *. clearbody s1. destruct H1 as [B1 C1].
  split.
  - apply fold_left_pres; [|exact B1]. intros a j Ha'. unfold update_first_priority. cbv zeta.
    destruct (min_op a _); [t_TK|]. destruct (minimal _ _); [exact Ha'|t_TK].
  - apply fold_left_pres; [|exact C1]. intros a j Ha'. unfold update_first_priority. cbv zeta.
    destruct (min_op a _); [t_CM|]. destruct (minimal _ _); [exact Ha'|t_CM].
Qed.

Lemma NX_enqueue_fold : forall ext t l s,
  In t ext -> NoDup l -> (forall o, In o l -> In o (task_opids s t)) -> (forall o, In o l -> ~ queued s o) ->
  NX ext s -> Lc t None None false s ->
  NX ext (fold_left (fun s o => enqueue o s) l s).
Proof.
  intros ext t l. induction l as [|o l IH]; intros s Hin Hnd Hsub Hnq H HL; cbn [fold_left]; [exact H|].
  inversion Hnd as [|? ? Hno Hnd']; subst.
  destruct (enqueue_reads o s) as [E1 [E2 E3]].
  assert (Ho : In o (task_opids s t)) by (apply Hsub; left; reflexivity).
  unfold task_opids in Ho. apply in_map_iff in Ho. destruct Ho as [[i o'] [Eo Ho]]. cbn in Eo. subst o'.
  destruct (LcO2 _ _ _ _ _ HL i o Ho) as [Ha [Ht Hi]].
  apply IH; auto.
  - intros o' Hin'. unfold task_opids. rewrite (get_task_frame _ _ _ E2). apply Hsub. right. exact Hin'.
  - intros o' Hin' Hq. unfold queued in Hq. rewrite (get_op_frame _ _ _ E1) in Hq. apply E3 in Hq. destruct Hq as [Hq | ->]; [|contradiction].
    apply (Hnq o'); [right; exact Hin'|exact Hq].
  - apply NX_enqueue; [exact Ha|rewrite Ht; exact Hin| |exact H]. apply (Hnq o). left. reflexivity.
  - unfold enqueue. cbv zeta. lc_go1.
Qed.

Lemma enqueue_fold_queued : forall l s o,
  In o l -> inv_exists s (o_inv (get_op s o)) = true -> queued (fold_left (fun s o => enqueue o s) l s) o.
Proof.
  induction l as [|o' l IH]; intros s o Hin He; [destruct Hin|]. cbn [fold_left].
  destruct (enqueue_reads o' s) as [E1 _]. destruct (enqueue_reads2 o' s) as [R1 [R2 R3]].
  assert (Hmono : forall a x, queued a x -> queued (fold_left (fun s o => enqueue o s) l a) x).
  { clear. induction l as [|o l IH]; intros a x Hq; cbn [fold_left]; [exact Hq|]. apply IH.
    destruct (enqueue_reads o a) as [E1 _]. destruct (enqueue_reads2 o a) as [R1 _]. unfold queued in *. rewrite (get_op_frame _ _ _ E1). apply R1. exact Hq. }
  destruct Hin as [->|Hin].
  - apply Hmono. unfold queued. rewrite (get_op_frame _ _ _ E1). apply R2. exact He.
  - apply IH; [exact Hin|]. rewrite R3, (get_op_frame _ _ _ E1). exact He.
Qed.

Lemma enqueue_fold_ops : forall l s, s_ops (fold_left (fun s o => enqueue o s) l s) = s_ops s.
Proof. induction l as [|o l IH]; intro s; cbn [fold_left]; [reflexivity|]. rewrite IH. apply enqueue_reads. Qed.

(* ---- schedule ------------------------------------------------------------------------------------------------------------ *)
Lemma idle_sync_children_sk : forall s i c, In c (idle_sync_children s i) -> i_sk c = i_sk i.
Proof.
  intros s i c H. unfold idle_sync_children in H. apply filter_In in H. destruct H as [H _]. unfold children in H.
  apply in_map_iff in H. destruct H as [[c' v] [E H]]. cbn in E. subst c'. apply filter_In in H. destruct H as [_ H].
  unfold is_child_of in H. apply andb_true_iff in H. destruct H as [H _]. apply andb_true_iff in H. destruct H as [H _].
  apply skey_eqb_eq in H. congruence.
Qed.

Lemma descend_idle_sk : forall f s i w, In w (descend_idle f s i) -> exists j, In w (v_isync (get_inv s j)) /\ i_sk j = i_sk i.
Proof.
  induction f as [|f IH]; intros s i w Hin; cbn [descend_idle] in Hin; [destruct Hin|].
  destruct (v_isync (get_inv s i)) as [|w0 tl] eqn:E.
  - cbv zeta in Hin. apply in_flat_map in Hin. destruct Hin as [c [Hc Hin]].
    assert (Hc' : In c (idle_sync_children s i)).
    { destruct (minimal (ichildren_less s) (idle_sync_children s i)) eqn:Em; [exact Hc|].
      rewrite <- Em in Hc. apply minimal_sound in Hc. exact (proj1 Hc). }
    destruct (IH _ _ _ Hin) as [j [A B]]. exists j. split; [exact A|]. rewrite B. eapply idle_sync_children_sk. exact Hc'.
  - destruct Hin as [<-|[]]. exists i. rewrite E. split; [left; reflexivity|reflexivity].
Qed.

Lemma schedule_candidates_sk : forall f s invs w, In w (schedule_candidates f s invs) ->
  exists j i0, In w (v_isync (get_inv s j)) /\ In i0 invs /\ i_sk j = i_sk i0.
Proof.
  induction f as [|f IH]; intros s invs w Hin; cbn [schedule_candidates] in Hin; [destruct Hin|].
  destruct (filter (has_idle_sync s) invs) as [|h tl] eqn:Ef.
  - destruct (existsb is_root invs); [destruct Hin|]. destruct (IH _ _ _ Hin) as [j [i0 [A [B C]]]].
    apply in_map_iff in B. destruct B as [i1 [E B]]. subst i0. exists j, i1. split; [exact A|]. split; [exact B|exact C].
  - apply in_flat_map in Hin. destruct Hin as [i0 [Hi0 Hin]]. rewrite <- Ef in Hi0. apply filter_In in Hi0. destruct Hi0 as [Hi0 _].
    destruct (descend_idle_sk _ _ _ _ Hin) as [j [A B]]. exists j, i0. auto.
Qed.

Lemma task_scq_first : forall s t i o, TK s -> In (i, o) (t_ops (get_task s t)) -> task_scq s t = i_sk i.
Proof.
  intros s t i o H Hin. unfold task_scq. destruct (t_ops (get_task s t)) as [|[i0 o0] l] eqn:E; [destruct Hin|].
  destruct (H t) as [K1 _]. rewrite E in K1. apply (K1 i0 o0 i o); [left; reflexivity|exact Hin].
Qed.

Lemma NX_schedule_clean : forall ext t s,
  SW s -> NX (t :: ext) s -> Lc t None None true s ->
  (forall i o, In (i, o) (t_ops (get_task s t)) -> inv_exists s i = true) ->
  NX ext (schedule t s).
Proof.
  intros ext t s HSW H HL HIE.
  pose proof (XS_schedule_clean ext t s (SW_Parked _ HSW) (NX_XS _ _ H) HL) as HX.
  apply (NX_drop ext t); [exact HX| |]; unfold schedule; cbv zeta.
  - (* what ends the critical section: assigned, or queued with every operation, or a panic *)
    destruct (pick_worker s t _) as [w|] eqn:Ep.
    + assert (Hw0 : t_worker (get_task (wake_up w s) t) = None).
      { assert (H0 : TWk t None s) by exact (LcW _ _ _ _ _ HL). assert (H1 : TWk t None (wake_up w s)); [|exact H1]. unfold wake_up. fr_go (TWk t None) t_twk. }
      destruct (assign_unqueued_outcome w t 0 (wake_up w s) Hw0) as [Hp|Hw]; [left; exact Hp|right]. intros [E _]. congruence.
    + right. intros _ o Ha Hto.
      assert (Eo : s_ops (fold_left (fun s o => enqueue o s) (task_opids s t) s) = s_ops s) by apply enqueue_fold_ops.
      rewrite (op_alive_frame _ _ _ Eo) in Ha. unfold tsk in Hto. rewrite (get_op_frame _ _ _ Eo) in Hto.
      pose proof (LcO1 _ _ _ _ _ HL o Ha Hto) as Hl.
      apply enqueue_fold_queued; [unfold task_opids; apply in_map_iff; exists (o_inv (get_op s o), o); auto|]. eapply HIE. exact Hl.
  - destruct (pick_worker s t _) as [w|] eqn:Ep.
    + apply pick_worker_in in Ep. apply schedule_candidates_sk in Ep. destruct Ep as [j [i0 [Hj [Hi0 Ejk]]]].
      destruct (SW_Parked _ HSW j w Hj) as [He [_ Hl]]. destruct (wake_up_reads s w He Hl) as [He1 Hw1].
      destruct HSW as [_ [_ [_ [_ [_ [_ [X8 _]]]]]]]. destruct (X8 j w Hj) as [_ [_ [_ Hsk]]].
      unfold task_invs in Hi0. apply in_map_iff in Hi0. destruct Hi0 as [[i0' o0] [E0 Hi0]]. cbn in E0. subst i0'.
      assert (Et : t_ops (get_task (wake_up w s) t) = t_ops (get_task s t)).
      { assert (H0 : TKeep t (get_task s t) s) by (unfold TKeep; auto). assert (H1 : TKeep t (get_task s t) (wake_up w s)); [|exact (proj1 H1)].
        unfold wake_up. fr_go (TKeep t (get_task s t)) t_tk. }
      apply NX_assign_unqueued; [left; reflexivity|exact Hw1| | |unfold wake_up; apply NX_dequeue_worker; exact H].
      * rewrite Et. intros i o Hin. destruct (NX_TK _ _ H t) as [K1 _]. rewrite (K1 i o i0 o0 Hin Hi0). congruence.
      * rewrite Et. intros _ E. rewrite E in Hi0. destruct Hi0.
    + pose proof (XS_XN _ _ (NX_XS _ _ H) t) as Hnd.
      apply (NX_enqueue_fold (t :: ext) t); [left; reflexivity|exact Hnd|auto| |exact H|apply Lc_weaken_uq; exact HL].
      intros o Ho Hq. unfold task_opids in Ho. apply in_map_iff in Ho. destruct Ho as [[i o'] [Eo Ho]]. cbn in Eo. subst o'.
      destruct (LcO2 _ _ _ _ _ HL i o Ho) as [Ha [Ht Hi]].
      unfold queued, get_inv in Hq. destruct (aget iref_eqb (o_inv (get_op s o)) (s_invs s)) as [v|] eqn:E; [|destruct Hq].
      apply (aget_In iref_eqb iref_eqb_eq) in E. exact (LcU _ _ _ _ _ HL eq_refl o _ v Ha Ht E Hq).
Qed.
