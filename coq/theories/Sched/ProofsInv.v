(* Tactic support for invariants that are not closed under every primitive
   update: goal-directed symbolic execution that uses the generic frame
   lemma of a function when all its closure premises can be proved, and
   otherwise unfolds the function and descends, with user-supplied leaf
   lemmas taking priority. *)
From Coq Require Import Lia.
From VF Require Export Sched.ProofsFrame.
Open Scope Z_scope.

Ltac head_of t := lazymatch t with ?f _ => head_of f | _ => t end.

Ltac model_fn h :=
  lazymatch h with
  | get_or_create_invocation => idtac | remove_if_empty => idtac | increment_executing => idtac
  | decrement_executing => idtac | update_first_priority => idtac | enqueue => idtac
  | remove_queued_from_invocation => idtac | clear_last_invocation => idtac | set_last_invocation => idtac
  | dequeue_worker => idtac | maybe_dequeue => idtac | wake_up => idtac | assign_unqueued => idtac
  | report_non_final_stage_change => idtac | assign_queued => idtac | assign_next_queued_task => idtac
  | schedule => idtac | new_operation => idtac | maybe_start_cleanup => idtac | complete_task => idtac
  | operation_remove => idtac | scq_remove => idtac | mark_terminating => idtac | remove_stale_worker => idtac
  | run_entry => idtac | enter => idtac
  | stream_iter => idtac | wait_execution_begin => idtac | stream_return => idtac | ret => idtac
  | exec_start => idtac | finish_sync => idtac | sync_return_exec => idtac | sync_return_idle => idtac
  | sync_return_err => idtac | sync_loop => idtac | get_next_task => idtac | get_current_or_next => idtac
  | add_scq => idtac | add_pq => idtac | sync_start => idtac | kill_lookup => idtac
  end.

Ltac unfold_head :=
  lazymatch goal with
  | |- _ (fst ?e) => let h := head_of e in model_fn h; unfold h at 1
  | |- _ ?e => let h := head_of e in model_fn h; unfold h at 1
  end; cbv beta iota zeta; cbn [fst snd].

(* [leaf]: lemmas of the invariant at hand; [tac]: closure under primitives *)
Ltac inv_go leaf tac :=
  cbv beta iota zeta; cbn [fst snd];
  repeat first
    [ assumption
    | leaf
    | fr_fold
    | fr_destruct_head
    | (lazymatch goal with |- ?Q _ => fr_lemmas Q end; [ solve [tac] .. | ])
    | lazymatch goal with |- ?Q _ => fr_prim Q tac end
    | unfold_head ].

(* ---- the two loops, with the facts their bodies may rely on ------------------------------ *)
Lemma earliest_in : forall l e, earliest l = Some e -> In e l.
Proof.
  intros l e. unfold earliest.
  assert (H : forall acc, (forall a, acc = Some a -> In a l \/ False) ->
            forall l', incl l' l -> fold_left (fun acc e => match acc with None => Some e
                         | Some a => if fst e <? fst a then Some e else acc end) l' acc = Some e -> In e l).
  { intros acc Hacc l'. revert acc Hacc. induction l' as [|x l' IH]; intros acc Hacc Hincl Hf; cbn in Hf.
    - destruct (Hacc _ Hf) as [H|[]]. exact H.
    - apply (IH _) in Hf; [exact Hf| |intros y Hy; apply Hincl; right; exact Hy].
      intros a Ha. left. destruct acc as [a0|].
      + destruct (fst x <? fst a0); inversion Ha; subst.
        * apply Hincl. left. reflexivity.
        * destruct (Hacc _ eq_refl) as [H|[]]. exact H.
      + inversion Ha; subst. apply Hincl. left. reflexivity. }
  apply (H None); [intros a Ha; discriminate|apply incl_refl].
Qed.

Lemma cleanup_run_closed (P : state -> Prop) :
  (forall s w, P s -> P (panic w s)) ->
  (forall s e, P s -> In e (cleanup_entries s) -> P (run_entry e s)) ->
  forall n s, P s -> P (cleanup_run n s).
Proof.
  intros Hpanic Hrun. induction n as [|n IH]; intros s H; cbn [cleanup_run]; [apply Hpanic; exact H|].
  destruct (earliest (cleanup_entries s)) as [e|] eqn:Ee; [|exact H].
  destruct (fst e <=? s_now s); [|exact H]. apply IH. apply Hrun; [exact H|]. apply earliest_in. exact Ee.
Qed.

Lemma cancel_go_closed (P : state -> Prop) i r :
  (forall s d v o tl, P s -> In (d, v) (s_invs s) -> v_qops v = o :: tl ->
     P (complete_task (o_task (get_op s o)) r false s)) ->
  forall n s, P s -> P (cancel_go i r n s).
Proof.
  intros Hc. induction n as [|n IH]; intros s H; cbn [cancel_go]; [exact H|].
  destruct (find _ (s_invs s)) as [[d v]|] eqn:Ef; [|exact H].
  destruct (v_qops v) as [|o tl] eqn:Eq; [exact H|]. apply IH.
  apply find_some in Ef. destruct Ef as [Hin _]. eapply Hc; eassumption.
Qed.

(* ---- Synchronize: first section, staged (the intermediate states are abstracted) ------------- *)
Ltac sum_cases H :=
  repeat (match type of H with
          | (match ?y with _ => _ end) = _ => head_disc y ltac:(fun z => destruct z eqn:?)
          end);
  try discriminate H.

Lemma sync_start_closed (P : state -> Prop) c a :
  (forall s code, P s -> P (ret c code s)) ->
  (forall s k, P s -> P (upd_scq k (fun q => q <| q_cleanup := None |>) s)) ->
  (forall s k b, P s -> P (add_scq k b s)) ->
  (forall s k l m b, P s -> P (add_pq k l m b s)) ->
  (forall s w, P s -> P (upd_worker w (fun k => k <| k_cleanup := None |>) s)) ->
  (forall s k w n, P s -> P (upd_scq k (fun q => q <| q_workers ::= fun l => l ++ [(w, mkWorker None None false (Some []) false (repeat 0 n))] |>) s)) ->
  (forall s i, P s -> P (upd_inv i (fun v => v <| v_idle ::= N.succ |>) s)) ->
  (forall s w code, P s -> P (sync_return_err c w code s)) ->
  (forall s w b pr, P s -> P (get_current_or_next c w b pr s)) ->
  (forall s w b pr, P s -> P (get_next_task c w b pr s)) ->
  (forall s w d z, P s -> P (finish_sync c w (emit (OSync c d z) s))) ->
  (forall s w t r, P s -> k_task (get_worker s w) = Some t -> P (complete_task t r true s)) ->
  forall s, P s -> P (sync_start c a s).
Proof.
  intros Hret Hdis Hscq Hpq Hkdis Hnw Hidle Herr Hcur Hnext Hnone Hcomp s H.
  unfold sync_start. cbv zeta.
  match goal with |- P (match ?R with _ => _ end) => destruct R as [s1|code1] eqn:ER end; [|apply Hret; exact H].
  assert (H1 : P s1) by (sum_cases ER; injection ER as <-; auto).
  clear ER H. revert H1. generalize s1. clear s. intros s H.
  match goal with |- P (match ?R with _ => _ end) => destruct R as [s2|code2] eqn:ER end; [|apply Hret; exact H].
  assert (H2 : P s2) by (sum_cases ER; injection ER as <-; auto).
  clear ER H. revert H2. generalize s2. clear s. intros s H.
  destruct (y_state a) as [|d|d r|]; auto.
  - destruct (running_correct s (y_worker a) d); auto.
  - destruct (running_correct s (y_worker a) d); auto.
    destruct (k_task (get_worker s (y_worker a))) as [t|] eqn:Ek; [|exact H]. apply Hnext. eapply Hcomp; eassumption.
Qed.
