(* C01, exclusivity layer: the clean-up functions. *)
From Coq Require Import Lia.
From VF Require Export Sched.ProofsExcl6.
From VF Require Import Sched.ProofsEnabled.
Open Scope Z_scope.

(* everything proved about reachable states so far, between critical sections *)
Definition G (s : state) : Prop := SW s /\ W s /\ XS [] s.

Lemma G_SW : forall s, G s -> SW s. Proof. unfold G. tauto. Qed.
Lemma G_W : forall s, G s -> W s. Proof. unfold G. tauto. Qed.
Lemma G_XS : forall s, G s -> XS [] s. Proof. unfold G. tauto. Qed.

Lemma W_of_WL_step : forall t s s', W s -> (t < s_ntasks s)%nat -> (WL [t] s -> WL [t] s') -> W s'.
Proof. intros t s s' HW Ht H. apply (WL_W [t]). apply H. apply WL_cons; [apply WL_of_W; exact HW|exact Ht]. Qed.

Lemma G_complete_task : forall t r b s, (t < s_ntasks s)%nat -> G s -> G (complete_task t r b s).
Proof.
  intros t r b s Ht [HSW [HW HXS]]. split; [apply SW_complete_task; exact HSW|].
  split; [apply (W_of_WL_step t s _ HW Ht); apply WL_complete_task; left; reflexivity|].
  apply XS_complete_task; assumption.
Qed.

Lemma G_cancel_all_queued : forall i r s, G s -> G (cancel_all_queued i r s).
Proof.
  intros i r s H. rewrite cancel_all_queued_eq. apply cancel_go_closed; [|exact H].
  intros s1 d v o tl H1 Hin Hq. apply G_complete_task; [|exact H1].
  exact (W_pick_qop _ _ _ _ _ (G_W _ H1) Hin Hq).
Qed.

(* ---- sizeClassQueue.remove -------------------------------------------------------------------------------------- *)
Lemma NPh_delscq : forall s k, NoDup (map fst (s_scqs s)) -> q_workers (get_scq s k) = [] -> NPh s ->
  NPh (s <| s_scqs := adel skey_eqb k (s_scqs s) |> <| s_invs := filter (fun '(i, _) => negb (skey_eqb (i_sk i) k)) (s_invs s) |>).
Proof.
  intros s k Hn Hnone. apply NPh_mono. intros w.
  set (s' := s <| s_scqs := _ |> <| s_invs := _ |>).
  assert (Hq : q_workers (get_scq s' (w_sk w)) = q_workers (get_scq s (w_sk w))).
  { unfold s', get_scq. cbn. destruct (skey_eqb (w_sk w) k) eqn:E.
    - apply skey_eqb_eq in E. rewrite E. rewrite (aget_adel_same skey_eqb skey_eqb_eq) by exact Hn. unfold get_scq in Hnone. rewrite Hnone. reflexivity.
    - rewrite (aget_adel_other skey_eqb skey_eqb_eq); [reflexivity|]. intros Heq. rewrite Heq, skey_eqb_refl in E. discriminate. }
  unfold worker_exists. rewrite Hq. auto.
Qed.

Lemma G_scq_remove : forall k s, q_workers (get_scq s k) = [] -> G s -> G (scq_remove k s).
Proof.
  intros k s Hnw H. split; [apply SW_scq_remove; [exact Hnw|exact (G_SW _ H)]|].
  split; [apply (WL_W []); apply WL_scq_remove; apply WL_of_W; exact (G_W _ H)|].
  unfold scq_remove. cbv zeta.
  set (s1 := cancel_all_queued (mkI k []) (mkResp cUNAVAILABLE 0 0) s).
  assert (H1 : G s1) by (apply G_cancel_all_queued; exact H).
  assert (Hn1 : NWf k s1).
  { unfold s1. rewrite cancel_all_queued_eq. apply cancel_go_closed; [|exact Hnw]. intros. inv_go fail t_nw. }
  clearbody s1. destruct H1 as [_ [_ [A [B [C [N [T D]]]]]]].
  split; [exact (St_scq_remove_tail k s1 A)|].
  destruct A as [Hnd _].
  split; [eapply ON_frame; [ | |exact B]; reflexivity|].
  split; [eapply NPh_frame; [|apply (NPh_delscq s1 k Hnd Hn1 C)]; reflexivity|].
  split; [eapply XN_frame; [|exact N]; reflexivity|].
  split; [eapply OT_frame; [ | |exact T]; reflexivity|].
  eapply X_frame; [ | | | |apply (X_delscq [] s1 k Hnd Hn1 D)]; reflexivity.
Qed.

(* ---- sizeClassQueue.removeStaleWorker ---------------------------------------------------------------------------- *)
Definition KTf (w : wref) (s : state) : Prop := k_task (get_worker s w) = None.
Lemma KTf_frame : forall w s s', s_scqs s' = s_scqs s -> KTf w s -> KTf w s'.
Proof. unfold KTf. intros w s s' E H. rewrite (get_worker_frame' _ _ _ E). exact H. Qed.
Lemma KTf_upd_worker : forall w s w' f, (forall k, k_task (f k) = k_task k) -> KTf w s -> KTf w (upd_worker w' f s).
Proof.
  unfold KTf. intros w s w' f Hf H. rewrite get_worker_upd_worker. destruct (wref_eqb w w' && worker_exists s w') eqn:E; [|exact H].
  apply andb_true_iff in E. destruct E as [E _]. apply wref_eqb_eq in E. subst. rewrite Hf. exact H.
Qed.
Lemma KTf_upd_scq : forall w s k f, (forall q, q_workers (f q) = q_workers q) -> KTf w s -> KTf w (upd_scq k f s).
Proof. unfold KTf. intros w s k f Hf H. rewrite get_worker_upd_scq_keep by exact Hf. exact H. Qed.
Ltac t_kt :=
  intros;
  lazymatch goal with
  | |- KTf _ (upd_worker _ _ _) => apply KTf_upd_worker; [intros ?; reflexivity | assumption]
  | |- KTf _ (upd_scq _ _ _) => apply KTf_upd_scq; [intros q; first [reflexivity | (destruct (existsb _ (q_drains q)); reflexivity)] | assumption]
  | |- _ => (eapply KTf_frame; [|eassumption]); frame_eq
  end.

Lemma ktask_exists : forall s w t, k_task (get_worker s w) = Some t -> worker_exists s w = true.
Proof.
  intros s w t H. unfold get_worker, worker_exists in *. destruct (aget wref_eqb w (q_workers (get_scq s (w_sk w)))); [reflexivity|discriminate].
Qed.

Lemma NPh_delworker : forall s w, NoDup (map fst (q_workers (get_scq s (w_sk w)))) -> NPh s ->
  NPh (upd_scq (w_sk w) (fun q => q <| q_workers ::= adel wref_eqb w |>) s).
Proof.
  intros s w Hn. apply NPh_mono. intros w'. rewrite worker_exists_delworker by exact Hn. destruct (wref_eqb w' w); [discriminate|auto].
Qed.

Lemma G_remove_stale_worker : forall w z s,
  unnamed s w -> k_wait (get_worker s w) = false -> G s -> G (remove_stale_worker w z s).
Proof.
  intros w z s Hun Hkw H. split; [apply SW_remove_stale_worker; [exact Hun|exact Hkw|exact (G_SW _ H)]|].
  split; [apply (WL_W []); apply WL_remove_stale_worker; apply WL_of_W; exact (G_W _ H)|].
  unfold remove_stale_worker. cbv zeta.
  set (s1 := mark_terminating w s).
  assert (H1 : G s1).
  { destruct H as [HSW [HW HXS]]. unfold s1, mark_terminating. split; [sw_go2|]. split; [apply (WL_W []); apply WL_of_W in HW; w_go2|xs_go1]. }
  clearbody s1. clear H.
  set (s2 := match k_task (get_worker s1 w) with None => s1 | Some t => complete_task t (mkResp cUNAVAILABLE 0 0) false s1 end).
  assert (H2 : G s2 /\ KTf w s2).
  { unfold s2. destruct (k_task (get_worker s1 w)) as [t|] eqn:Ek; [|split; assumption].
    pose proof (W_pick_worker _ _ _ (G_W _ H1) Ek) as Ht. split; [apply G_complete_task; assumption|].
    destruct H1 as [HSW [HW HXS]].
    pose proof (ktask_exists _ _ _ Ek) as Hex.
    pose proof (XB _ _ (XS_X _ _ HXS) w t Hex Ek (fun H => H)) as Hw.
    destruct (XA _ _ (XS_X _ _ HXS) t w (fun H => H) Hw) as [_ [_ [_ Hr]]].
    destruct (complete_task_post t (mkResp cUNAVAILABLE 0 0) s1 HSW HW Ht HXS eq_refl) as [_ Hrel].
    exact (Hrel w Hw Hr). }
  clearbody s2. clear H1. destruct H2 as [H2 Hk2].
  set (s3 := clear_last_invocation w s2).
  assert (H3 : XS [] s3 /\ KTf w s3).
  { unfold s3. split; [apply XS_clear_last_invocation; exact (G_XS _ H2)|]. inv_go fail t_kt. }
  clearbody s3. clear H2 Hk2. destruct H3 as [[A [B [C [N [T D]]]]] Hk3].
  assert (Hnd : NoDup (map fst (q_workers (get_scq s3 (w_sk w))))).
  { unfold get_scq. destruct (aget skey_eqb (w_sk w) (s_scqs s3)) as [q|] eqn:E; [|constructor].
    destruct A as [_ [H1 _]]. apply (aget_In skey_eqb skey_eqb_eq) in E. apply (H1 _ _ E). }
  set (s4 := upd_scq (w_sk w) (fun q => q <| q_workers ::= adel wref_eqb w |>) s3).
  assert (H4 : XS [] s4).
  { unfold s4. split; [assert (HS : St s3) by exact A; t_St|]. split; [t_ON|]. split; [apply NPh_delworker; assumption|].
    split; [t_XN|]. split; [t_OT|]. apply X_delworker; [exact Hnd| |exact D]. intros t Ht. unfold KTf in Hk3. congruence. }
  clearbody s4. destruct (Nat.eqb _ 0 && _); [|exact H4]. xs_go1.
Qed.

(* ---- operation.remove -------------------------------------------------------------------------------------------- *)
Lemma Lc_delop_pair : forall t wo ro uq s o,
  NoDup (map fst (s_ops s)) -> Lc t wo ro uq s ->
  Lc t wo ro uq (upd_task t (fun y => y <| t_ops := filter (fun '(_, o') => negb (Nat.eqb o o')) (t_ops y) |>)
                   (s <| s_ops := adel Nat.eqb o (s_ops s) |>)).
Proof.
  intros t wo ro uq s o Hnd [N W R B A U O1 O2].
  set (s1 := s <| s_ops := adel Nat.eqb o (s_ops s) |>). set (s2 := upd_task t _ s1).
  assert (Hgo : forall o', o' <> o -> get_op s2 o' = get_op s o' /\ op_alive s2 o' = op_alive s o').
  { intros o' Hne. unfold s2, s1, get_op, op_alive. cbn. rewrite (aget_adel_other Nat.eqb nat_eqb_eq) by exact Hne. auto. }
  assert (Hdead : op_alive s2 o = false).
  { unfold s2, s1, op_alive. cbn. rewrite (aget_adel_same Nat.eqb nat_eqb_eq) by exact Hnd. reflexivity. }
  assert (Et : get_task s2 t = (get_task s t) <| t_ops := filter (fun '(_, o') => negb (Nat.eqb o o')) (t_ops (get_task s t)) |>).
  { unfold s2. rewrite get_task_upd_task, Nat.eqb_refl. reflexivity. }
  assert (Hal : forall o', op_alive s2 o' = true -> o' <> o /\ op_alive s o' = true /\ get_op s2 o' = get_op s o').
  { intros o' Ha. assert (Hne : o' <> o) by (intros ->; congruence). destruct (Hgo o' Hne) as [E1 E2]. rewrite E2 in Ha. auto. }
  constructor.
  - exact N.
  - rewrite Et. exact W.
  - rewrite Et. exact R.
  - exact B.
  - exact A.
  - intros Huq o' i v Ha Ht Hiv. destruct (Hal o' Ha) as [_ [Ha0 E]]. unfold tsk in Ht. rewrite E in Ht. exact (U Huq o' i v Ha0 Ht Hiv).
  - intros o' Ha Ht. destruct (Hal o' Ha) as [Hne [Ha0 E]]. unfold tsk in Ht. rewrite E in *. rewrite Et. cbn.
    apply filter_In. split; [apply O1; assumption|]. apply negb_true_iff. apply Nat.eqb_neq. auto.
  - intros i o' Hin. rewrite Et in Hin. cbn in Hin. apply filter_In in Hin. destruct Hin as [Hin Hne].
    apply negb_true_iff in Hne. apply Nat.eqb_neq in Hne. destruct (O2 i o' Hin) as [Ha0 [Ht0 Ei]].
    destruct (Hgo o' (fun H => Hne (eq_sym H))) as [E1 E2]. unfold tsk. rewrite E1, E2. auto.
Qed.

Lemma XS_delop_pair : forall s o,
  op_alive s o = true -> (forall i, ~ In o (v_qops (get_inv s i))) -> XS [] s ->
  XS [] (upd_task (tsk s o) (fun y => y <| t_ops := filter (fun '(_, o') => negb (Nat.eqb o o')) (t_ops y) |>)
           (s <| s_ops := adel Nat.eqb o (s_ops s) |>)).
Proof.
  intros s o Ha Hnq HXS. set (t := tsk s o).
  pose proof (OT_alive s o (XS_OT _ _ HXS) Ha) as Hlt. fold t in Hlt.
  pose proof (XS_St _ _ HXS) as [_ [_ [Hndi _]]].
  pose proof (Lc_intro [] t s Hndi (fun H => H) Hlt (XS_X _ _ HXS)) as HL.
  pose proof (XS_ON _ _ HXS) as [Hndo _].
  pose proof (Lc_delop_pair t _ _ _ s o Hndo HL) as HL2.
  assert (Hdrop1 : forall w, t_worker (get_task s t) = Some w -> is_phantom w = false /\ t_resp (get_task s t) = None).
  { intros w Ew. destruct (XA _ _ (XS_X _ _ HXS) t w (fun H => H) Ew) as [P1 [_ [_ P4]]]. auto. }
  assert (HXS1 : XS [t] (s <| s_ops := adel Nat.eqb o (s_ops s) |>)).
  { apply (XS_weaken [] t) in HXS. destruct HXS as [A [B [C [N [T D]]]]].
    split; [eapply St_frame; [ | | |exact A]; reflexivity|]. split; [apply ON_delop; exact B|].
    split; [eapply NPh_frame; [|exact C]; reflexivity|]. split; [eapply XN_frame; [|exact N]; reflexivity|].
    split; [apply OT_delop; exact T|]. apply X_delop; [exact Hndo|left; reflexivity|exact Hnq|exact D]. }
  set (s1 := s <| s_ops := _ |>) in *. clearbody s1.
  assert (HXS2 : XS [t] (upd_task t (fun y => y <| t_ops := filter (fun '(_, o') => negb (Nat.eqb o o')) (t_ops y) |>) s1)) by t_XS.
  destruct HXS2 as [A [B [C [N [T D]]]]]. repeat (split; [assumption|]).
  eapply Lc_drop; [| |exact HL2|exact D].
  - exact Hdrop1.
  - destruct (t_worker (get_task s t)), (t_resp (get_task s t)); auto.
Qed.

(* not queued anywhere, over the table of invocations *)
Definition UQo (o : nat) (s : state) : Prop := forall i v, In (i, v) (s_invs s) -> ~ In o (v_qops v).
Lemma UQo_getter : forall o s, UQo o s -> forall i, ~ In o (v_qops (get_inv s i)).
Proof.
  intros o s H i Hin. unfold get_inv in Hin. destruct (aget iref_eqb i (s_invs s)) as [v|] eqn:E; [|destruct Hin].
  apply (aget_In iref_eqb iref_eqb_eq) in E. exact (H i v E Hin).
Qed.
Lemma UQo_of_getter : forall o s, NoDup (map fst (s_invs s)) -> (forall i, ~ In o (v_qops (get_inv s i))) -> UQo o s.
Proof.
  intros o s Hnd H i v Hiv Hin. apply (H i). unfold get_inv. rewrite (In_aget_NoDup iref_eqb iref_eqb_eq _ _ _ Hnd Hiv). exact Hin.
Qed.
Lemma UQo_frame : forall o s s', s_invs s' = s_invs s -> UQo o s -> UQo o s'.
Proof. unfold UQo. intros o s s' ->. auto. Qed.
Lemma UQo_upd_inv : forall o s i f, (forall v, In o (v_qops (f v)) -> In o (v_qops v)) -> UQo o s -> UQo o (upd_inv i f s).
Proof.
  unfold UQo, upd_inv. intros o s i f Hf H j v. destruct (aget iref_eqb i (s_invs s)) as [x|] eqn:E; [|apply H]. cbn.
  intros Hin. apply In_aset in Hin. destruct Hin as [[-> ->]|Hin]; [|exact (H _ _ Hin)].
  intro Hq. apply Hf in Hq. apply (aget_In iref_eqb iref_eqb_eq) in E. exact (H _ _ E Hq).
Qed.
Lemma UQo_invs_del : forall o s i, UQo o s -> UQo o (s <| s_invs := adel iref_eqb i (s_invs s) |>).
Proof. unfold UQo. intros o s i H j v. cbn. intro Hin. apply In_adel in Hin. exact (H _ _ Hin). Qed.

Lemma UQo_remove_if_empty : forall o i s, UQo o s -> UQo o (fst (remove_if_empty i s)).
Proof. intros o i s H. unfold remove_if_empty. destruct (_ && _); cbn [fst]; [apply UQo_invs_del|]; exact H. Qed.

Lemma UQo_decrement_executing : forall o i w s, UQo o s -> UQo o (decrement_executing i w s).
Proof.
  intros o i w s H. unfold decrement_executing. apply fold_left_pres; [|exact H]. intros a j Ha. cbv zeta.
  destruct (aget wref_eqb w (v_exec (get_inv a j))) as [[|n]|]; try (eapply UQo_frame; [|exact Ha]; reflexivity).
  assert (H1 : UQo o (upd_inv j (fun v => v <| v_exec := match n with O => adel wref_eqb w (v_exec (get_inv a j)) | S _ => aset wref_eqb w n (v_exec (get_inv a j)) end |>
                                             <| v_completed := s_now a |>) a)) by (apply UQo_upd_inv; [intros v Hq; exact Hq|exact Ha]).
  destruct (is_root j); [exact H1|apply UQo_remove_if_empty; exact H1].
Qed.

Lemma X_unqueued : forall s o, X [] s -> op_alive s o = true -> ~ idle_live s (tsk s o) -> forall i, ~ In o (v_qops (get_inv s i)).
Proof.
  intros s o HX Ha Hni i Hin. destruct (XQ _ _ HX _ _ Hin) as [_ Hi]. apply Hni.
  apply (XL _ _ HX o Ha (fun H => H)). unfold queued. rewrite Hi. exact Hin.
Qed.

Lemma Qo_alive_tsk : forall o tt n s, Qo o tt n s -> op_alive s o = true /\ tsk s o = tt.
Proof. intros o tt n s [y [Ey [Ht _]]]. unfold op_alive, tsk, get_op. rewrite Ey. auto. Qed.

Lemma G_operation_remove : forall o s, op_alive s o = true -> G s -> G (operation_remove o s).
Proof.
  intros o s Ha H. split; [apply SW_operation_remove; exact (G_SW _ H)|].
  split; [apply (WL_W []); apply WL_operation_remove; [exact Ha|apply WL_of_W; exact (G_W _ H)]|].
  unfold operation_remove. cbv zeta.
  set (t := o_task (get_op s o)).
  assert (HQ : Qo o t (o_waiters (get_op s o)) s).
  { unfold op_alive, get_op, t in *. destruct (aget Nat.eqb o (s_ops s)) as [y|] eqn:E; [|discriminate]. exists y. unfold get_op. rewrite E. auto. }
  pose proof (OT_alive s o (XS_OT _ _ (G_XS _ H)) Ha) as Hlt. change (tsk s o) with t in Hlt.
  match goal with |- XS [] (upd_task t _ (set s_ops _ ?e)) => set (s' := e) end.
  assert (H' : XS [] s' /\ Qo o t (o_waiters (get_op s o)) s' /\ UQo o s').
  { unfold s'. destruct (Nat.eqb (List.length (t_ops (get_task s t))) 1).
    - (* the last operation of its task *)
      pose proof (G_complete_task t (mkResp cCANCELLED 0 0) false s Hlt H) as H1.
      assert (HQ1 : Qo o t (o_waiters (get_op s o)) (complete_task t (mkResp cCANCELLED 0 0) false s)) by q_go.
      destruct H as [HSW [HW HXS]].
      destruct (complete_task_post t (mkResp cCANCELLED 0 0) s HSW HW Hlt HXS eq_refl) as [[wo [ro HL]] _].
      set (s1 := complete_task t (mkResp cCANCELLED 0 0) false s) in *. clearbody s1.
      split; [exact (G_XS _ H1)|]. split; [exact HQ1|].
      destruct (Qo_alive_tsk _ _ _ _ HQ1) as [Ha1 Ht1]. intros i v Hiv. exact (LcU _ _ _ _ _ HL eq_refl o i v Ha1 Ht1 Hiv).
    - destruct H as [HSW [HW HXS]]. pose proof (XS_St _ _ HXS) as [_ [_ [Hnd _]]].
      assert (Hbusy : ~ idle_live s t -> XS [] s /\ Qo o t (o_waiters (get_op s o)) s /\ UQo o s).
      { intros Hni. split; [exact HXS|]. split; [exact HQ|]. apply UQo_of_getter; [exact Hnd|].
        apply X_unqueued; [exact (XS_X _ _ HXS)|exact Ha|exact Hni]. }
      unfold task_stage. destruct (t_resp (get_task s t)) as [r0|] eqn:Er.
      { destruct (t_worker (get_task s t)); cbv iota; apply Hbusy; unfold idle_live; rewrite Er; intros [_ E]; discriminate. }
      destruct (t_worker (get_task s t)) as [w|] eqn:Ew; cbv iota.
      + (* EXECUTING *)
        destruct Hbusy as [_ [_ HU]]; [unfold idle_live; rewrite Ew; intros [E _]; discriminate|].
        split; [apply XS_decrement_executing; exact HXS|]. split; [q_go|apply UQo_decrement_executing; exact HU].
      + (* QUEUED: leave the queue, prune *)
        destruct (rq_reads o s) as [_ [_ [_ Enq]]].
        assert (H1 : XS [] (remove_queued_from_invocation o s)) by xs_go1.
        assert (HQ1 : Qo o t (o_waiters (get_op s o)) (remove_queued_from_invocation o s)) by q_go.
        assert (HU1 : UQo o (remove_queued_from_invocation o s)).
        { pose proof (XS_St _ _ H1) as [_ [_ [Hnd1 _]]]. apply UQo_of_getter; [exact Hnd1|]. intros i Hin.
          destruct (XQ _ _ (XS_X _ _ H1) _ _ Hin) as [_ Hi].
          destruct (rq_reads o s) as [Eo _]. rewrite (get_op_frame _ _ _ Eo) in Hi. rewrite <- Hi in Hin. exact (Enq Hin). }
        set (s1 := remove_queued_from_invocation o s) in *. clearbody s1.
        match goal with |- _ (fst (fold_left ?g ?l ?a)) /\ _ =>
          apply (fold_left_pres (fun acc => XS [] (fst acc) /\ Qo o t (o_waiters (get_op s o)) (fst acc) /\ UQo o (fst acc)) g l) end; [|cbn [fst]; auto].
        intros [a go] j [P1 [P2 P3]]. cbn [fst] in *. destruct go; [|auto].
        split; [apply XS_remove_if_empty; exact P1|]. split; [q_go|apply UQo_remove_if_empty; exact P3]. }
  clearbody s'. destruct H' as [HXS' [HQ' HU']]. destruct (Qo_alive_tsk _ _ _ _ HQ') as [Ha' Ht']. rewrite <- Ht'.
  apply XS_delop_pair; [exact Ha'|apply UQo_getter; exact HU'|exact HXS'].
Qed.

(* ---- the clean-up queue -------------------------------------------------------------------------------------------- *)
Ltac g_prim H := destruct H as [HSW [HW HXS]]; split; [sw_go2 | split; [apply (WL_W []); apply WL_of_W in HW; w_go2 | xs_go1]].

Lemma G_run_entry : forall e s, In e (cleanup_entries s) -> G s -> G (run_entry e s).
Proof.
  intros [z ce] s Hin H. unfold run_entry. cbn [fst snd]. destruct ce as [o|w|k].
  - apply G_operation_remove.
    + rewrite op_alive_upd_op. eapply cleanup_entry_op_alive. exact Hin.
    + g_prim H.
  - pose proof (cleanup_entry_worker s z w (SW_St _ (G_SW _ H)) Hin) as Hc.
    pose proof (SW_WP _ (G_SW _ H)) as [A2 [_ [B1 _]]].
    apply G_remove_stale_worker.
    + eapply unnamed_frame; [apply calls_upd_worker|]. intros c p Hcp Hs. destruct (A2 _ _ _ Hcp Hs) as [_ E]. congruence.
    + rewrite get_worker_upd_worker. destruct (wref_eqb w w && worker_exists s w); cbn; apply B1; congruence.
    + g_prim H.
  - pose proof (cleanup_entry_scq s z k (SW_St _ (G_SW _ H)) Hin) as Hc.
    pose proof (SW_WP _ (G_SW _ H)) as [_ [_ [_ [_ [_ [_ [_ E7]]]]]]].
    apply G_scq_remove; [|g_prim H].
    assert (Hn : NWf k s) by (apply E7; congruence). change (NWf k (upd_scq k (fun q => q <| q_cleanup := None |>) s)). t_nw.
Qed.

Lemma G_enter : forall t s, G s -> G (enter t s).
Proof.
  intros t s H. unfold enter. destruct (s_now s <? t); [|exact H]. cbv zeta.
  apply cleanup_run_closed; [intros s1 w H1; g_prim H1 | intros; apply G_run_entry; assumption | g_prim H].
Qed.
