(* The monitor on the model's trace: c07_learners_match.  A task that holds a learner has an action (LD), hence lists
   operations, and the dump shows one "first" operation per such task. *)
From Coq Require Import Lia Permutation.
From VF Require Export Sched.ProofsMon6.
From VF Require Import Sched.Spec Sched.Corr Sched.ProofsObsLink Sched.ProofsObsC01 Sched.ProofsExec Sched.ProofsLearner Sched.ProofsRoute Sched.ProofsInflight.
Open Scope Z_scope.

(* ---- a task that holds a learner has an action ------------------------------------------------------------------------------------------------------------ *)
Definition ld_ok (x : task) : Prop := t_learner x <> None -> t_dnc x <> None.
Definition LD (s : state) : Prop := forall t, ld_ok (get_task s t).

Lemma ld_dummy : ld_ok dummy_task.
Proof. intro H. exfalso. apply H. reflexivity. Qed.
Lemma LD_frame : forall s s', s_tasks s' = s_tasks s -> LD s -> LD s'.
Proof. unfold LD. intros s s' E H t. rewrite (get_task_frame _ _ _ E). apply H. Qed.
Lemma LD_upd_task : forall s t f, ld_ok (f (get_task s t)) -> LD s -> LD (upd_task t f s).
Proof. unfold LD. intros s t f Hf H t'. rewrite get_task_upd_task. destruct (Nat.eqb t' t); [exact Hf|apply H]. Qed.
Lemma LD_newtask : forall s x, ld_ok x -> LD s -> LD (s <| s_ntasks ::= S |> <| s_tasks ::= fun l => l ++ [(s_ntasks s, x)] |>).
Proof.
  unfold LD. intros s x Hx H t. rewrite get_task_newtask. specialize (H t). unfold get_task in H.
  destruct (aget Nat.eqb t (s_tasks s)); [exact H|]. destruct (Nat.eqb t (s_ntasks s)); [exact Hx|exact ld_dummy].
Qed.

Ltac t_LD :=
  intros;
  lazymatch goal with
  | |- LD (upd_task ?t _ _) =>
    match goal with H : LD _ |- _ => apply LD_upd_task; [exact (H t) | assumption] end
  | |- LD (set s_tasks _ (set s_ntasks _ _)) => apply LD_newtask; [unfold ld_ok; cbn; intros; discriminate | assumption]
  | |- _ => (eapply LD_frame; [|eassumption]); frame_eq
  end.
Ltac ld_go0 := inv_go fail t_LD.

Lemma LD_ct_prefix : forall t b s, LD s -> LD (ct_prefix t b s).
Proof. intros. unfold ct_prefix. ld_go0. Qed.

Lemma LD_ct_learner : forall t r b x p k s, t_learner (get_task s t) = t_learner x -> LD s -> LD (fst (ct_learner t r b x p k s)).
Proof.
  intros t r b x p k s Ex H. unfold ct_learner. destruct (t_learner x) as [l|] eqn:El; [|cbn [fst]; ld_go0].
  assert (Hd : t_dnc (get_task s t) <> None) by (apply (H t); rewrite Ex; discriminate).
  assert (Hset : forall s0 lr, LD s0 -> t_dnc (get_task s0 t) = t_dnc (get_task s t) -> LD (upd_task t (fun x0 => x0 <| t_learner := lr |>) s0)).
  { intros s0 lr H0 E0. apply LD_upd_task; [|exact H0]. intros _. cbn. rewrite E0. exact Hd. }
  destruct (resp_success r).
  - cbv zeta. set (s1 := upd_task t _ (emit _ s)). assert (H1 : LD s1) by (unfold s1; apply Hset; [ld_go0|reflexivity]).
    destruct (l_succ l) as [[[[bidx bdur] btimeout] bl]|]; [|exact H1].
    destruct (Nat.eqb (p_maxbg p) 0); [cbn [fst]; ld_go0|].
    set (s2 := get_or_create_invocation _ _ s1). assert (H2 : LD s2) by (unfold s2; ld_go0). clearbody s2.
    destruct (Nat.leb _ _); [cbn [fst]; ld_go0|]. cbv zeta.
    set (xb := mkTask [] (t_instance x) (t_digest x) (Some true) btimeout (t_qts x) (t_suffix x) None 0 bdur (Some bl) None 0).
    set (sN := s2 <| s_ntasks ::= S |> <| s_tasks ::= fun l0 => l0 ++ [(s_ntasks s2, xb)] |>).
    assert (HN : LD sN) by (unfold sN; apply LD_newtask; [intros _; discriminate|exact H2]). clearbody sN.
    unfold new_operation. cbn [fst].
    match goal with |- LD (schedule _ (upd_task ?bt ?f ?sO)) => assert (HO : LD sO) by (eapply LD_frame; [|exact HN]; reflexivity); set (sO' := sO) in *; clearbody sO';
      assert (H4 : LD (upd_task bt f sO')) by (apply LD_upd_task; [exact (HO bt)|exact HO]); set (s4 := upd_task bt f sO') in *; clearbody s4 end.
    ld_go0.
  - destruct b; cbv zeta; [destruct (l_fail l) as [[[d tm] nl]|]|]; cbn [fst]; apply Hset; try reflexivity; ld_go0.
Qed.

Lemma LD_ct_tail : forall t r x p k s retry, (retry = None -> t_learner (get_task s t) = None) -> LD s -> LD (ct_tail t r x p k s retry).
Proof.
  intros t r x p k s retry Hl H. unfold ct_tail. destruct retry as [[d tm]|].
  - cbv zeta. set (lk := mkSK (sk_pk k) (largest_sc p)). set (old := t_ops (get_task s t)).
    set (s6 := fold_left _ old s). assert (H6 : LD s6) by (unfold s6; ld_go0). clearbody s6.
    set (s7 := upd_task t _ s6). assert (H7 : LD s7) by (unfold s7; apply LD_upd_task; [exact (H6 t)|exact H6]). clearbody s7.
    match goal with |- LD (report_non_final_stage_change t (schedule t (fold_left ?g old s7))) => fold (retarget_fold lk old s7) end.
    assert (H8 : LD (retarget_fold lk old s7)).
    { generalize old. intro l. revert s7 H7. induction l as [|[i o] l IH]; intros s7 H7; cbn [retarget_fold fold_left]; [exact H7|]. apply IH. t_LD. }
    set (s8 := retarget_fold lk old s7) in *. clearbody s8. unfold report_non_final_stage_change. ld_go0.
  - cbv zeta.
    set (s6 := match aget dkey_eqb (t_instance x, t_digest x) (s_inflight s) with Some t' => _ | None => s end).
    assert (H6 : LD s6 /\ get_task s6 t = get_task s t).
    { unfold s6. destruct (aget dkey_eqb _ _); [|auto]. destruct (Nat.eqb t _); [|auto]. split; [t_LD|reflexivity]. }
    clearbody s6. destruct H6 as [H6 E6].
    set (s7 := upd_task t _ s6).
    assert (H7 : LD s7) by (unfold s7; apply LD_upd_task; [intro Hc; exfalso; apply Hc; cbn; rewrite E6; apply Hl; reflexivity|exact H6]).
    clearbody s7. unfold maybe_start_cleanup. ld_go0.
Qed.

Definition LDD (s : state) : Prop := LN2 s /\ LD s.

Lemma LDD_complete_task : forall t r b s, LDD s -> LDD (complete_task t r b s).
Proof.
  intros t r b s [HL H]. split; [apply LN2_complete_task; exact HL|].
  rewrite complete_task_eq2. destruct (t_resp (get_task s t)) eqn:Er; [exact H|]. cbv zeta.
  pose proof (LN2_ct_prefix t b s HL) as HL4. pose proof (LD_ct_prefix t b s H) as H4. destruct (ct_prefix_frames t b s) as [[K1 [K2 [K3 _]]] _].
  set (s4 := ct_prefix t b s) in *. clearbody s4. rewrite Er in K3.
  destruct (get_pq s4 _) as [p|]; [|t_LD].
  destruct (LN2_ct_learner t r b (get_task s t) p (task_scq s t) s4 HL4 K3 K2) as [_ [_ [_ D]]].
  pose proof (LD_ct_learner t r b (get_task s t) p (task_scq s t) s4 K2 H4) as H5.
  destruct (ct_learner t r b (get_task s t) p (task_scq s t) s4) as [s5 retry]. cbn [fst snd] in *.
  apply LD_ct_tail; assumption.
Qed.

Ltac t_LDD :=
  intros;
  match goal with H : LDD _ |- _ => let H1 := fresh "HLNx" in let H2 := fresh "HLDx" in destruct H as [H1 H2] end;
  split; [t_LN2 | t_LD].

Lemma LDD_cancel_all_queued : forall i r s, LDD s -> LDD (cancel_all_queued i r s).
Proof. intros i r s H. rewrite cancel_all_queued_eq. apply cancel_go_closed; [|exact H]. intros. apply LDD_complete_task. assumption. Qed.

Ltac ldd_leaf0 :=
  idtac;
  lazymatch goal with
  | |- LDD (set s_ops _ (set s_nops S ?s1)) => let H := fresh in assert (H : LDD s1); [|destruct H as [[? ?] ?]; split; [split; [eapply LN_frame; [|eassumption]; reflexivity|eapply TL_frame; [ | |eassumption]; reflexivity]|eapply LD_frame; [|eassumption]; reflexivity]]
  | |- LDD (set s_inflight _ ?s1) => let H := fresh in assert (H : LDD s1); [|destruct H as [[? ?] ?]; split; [split; [eapply LN_frame; [|eassumption]; reflexivity|eapply TL_frame; [ | |eassumption]; reflexivity]|eapply LD_frame; [|eassumption]; reflexivity]]
  end.
Ltac ldd_leaf :=
  first [ ldd_leaf0
        | lazymatch goal with
          | |- LDD (complete_task _ _ _ _) => apply LDD_complete_task
          | |- LDD (cancel_all_queued _ _ _) => apply LDD_cancel_all_queued
          end ].
Ltac ldd_go := inv_go ldd_leaf t_LDD.

Lemma LDD_operation_remove : forall o s, LDD s -> LDD (operation_remove o s).
Proof.
  intros o s H. unfold operation_remove. ldd_go.
  all: match goal with |- LDD (fst (fold_left ?g ?l ?a)) => apply (fold_left_pres (fun acc => LDD (fst acc)) g l) end;
    [ intros [s1 go] j H1; cbn [fst] in *; destruct go; [ldd_go | assumption] | cbn [fst]; ldd_go ].
Qed.

Lemma LDD_enter : forall t s, LDD s -> LDD (enter t s).
Proof.
  intros t s H. unfold enter. destruct (s_now s <? t); [|exact H]. cbv zeta.
  apply cleanup_run_closed; [intros; t_LDD| |ldd_go].
  intros s1 [z ce] H1 _. unfold run_entry. cbn [fst snd]. destruct ce; [apply LDD_operation_remove|..]; ldd_go.
Qed.

Ltac ldd_leaf2 := first [ ldd_leaf | lazymatch goal with |- LDD (enter _ _) => apply LDD_enter end ].
Ltac ldd_go2 := inv_go ldd_leaf2 t_LDD.

Lemma LDD_get_current_or_next : forall c w b pr s, LDD s -> LDD (get_current_or_next c w b pr s).
Proof. intros. unfold get_current_or_next. ldd_go2. Qed.

Lemma LDD_sync_start : forall c a s, LDD s -> LDD (sync_start c a s).
Proof.
  intros c a s H. apply sync_start_closed; try exact H; intros;
    try (apply LDD_get_current_or_next; assumption); try (apply LDD_complete_task; assumption); ldd_go2.
Qed.

Lemma LDD_step_core : forall e s, LDD s -> LDD (step_core e s).
Proof.
  intros e s H. destruct e; unfold step_core.
  - unfold exec_start, new_operation. ldd_go2.
  - ldd_go2.
  - apply LDD_sync_start. apply LDD_enter. exact H.
  - ldd_go2.
  - ldd_go2.
  - ldd_go2.
  - ldd_go2.
  - cbv zeta. match goal with |- LDD (match ?x with _ => _ end) => rewrite (surjective_pairing x) end.
    cbv beta iota. ldd_go2.
  - ldd_go2.
  - ldd_go2.
  - inv_go ltac:(first [ldd_leaf2 | lazymatch goal with
       | |- LDD (get_current_or_next _ _ _ _ _) => apply LDD_get_current_or_next end]) t_LDD.
  - ldd_go2.
  - ldd_go2.
Qed.

Lemma LDD_step : forall s eh, LDD s -> LDD (fst (step s eh)).
Proof.
  intros s eh H. unfold step. cbn [fst].
  assert (Hfr : forall a b, s_tasks b = s_tasks a -> s_ntasks b = s_ntasks a -> LDD a -> LDD b).
  { intros a b E1 E2 [[A B] C]. split; [split; [eapply LN_frame; eassumption|eapply TL_frame; eassumption]|eapply LD_frame; eassumption]. }
  assert (H0 : LDD (s <| s_hints := snd eh |> <| s_out := [] |>)) by (eapply Hfr; [| |exact H]; reflexivity).
  assert (H1 : LDD (auto_returns (step_core (fst eh) (s <| s_hints := snd eh |> <| s_out := [] |>)))).
  { apply (fr_auto_returns LDD); [intros; unfold ret; ldd_go2|]. apply LDD_step_core. exact H0. }
  eapply Hfr; [| |exact H1]; reflexivity.
Qed.

Lemma LD_run : forall cfg t0 evs, LD (fst (run (init cfg t0) evs)).
Proof.
  intros cfg t0 evs. apply (run_fst_snoc evs (init cfg t0) LDD); [intros; apply LDD_step; assumption|].
  split; [apply LN2_init|]. intro t. unfold init, get_task. cbn. exact ld_dummy.
Qed.

(* ---- one "first" operation per task that holds a learner ------------------------------------------------------------------------------------------------- *)
Definition lmin (l : list nat) (a : nat) : nat := fold_left Nat.min l a.
Lemma lmin_le_init : forall l a, (lmin l a <= a)%nat.
Proof. induction l as [|y l IH]; intro a; cbn; [lia|]. specialize (IH (Nat.min a y)). unfold lmin in IH. lia. Qed.
Lemma lmin_le_in : forall l a x, In x l -> (lmin l a <= x)%nat.
Proof.
  induction l as [|y l IH]; intros a x Hx; [destruct Hx|]. cbn. destruct Hx as [->|Hx]; [|apply IH; exact Hx].
  pose proof (lmin_le_init l (Nat.min a x)) as H. unfold lmin in H. lia.
Qed.
Lemma lmin_in : forall l a, lmin l a = a \/ In (lmin l a) l.
Proof.
  induction l as [|y l IH]; intro a; cbn; [left; reflexivity|]. destruct (IH (Nat.min a y)) as [E|Hin]; [|right; right; exact Hin].
  unfold lmin in E. rewrite E. destruct (Nat.min_spec a y) as [[_ ->]|[_ ->]]; [left; reflexivity|right; left; reflexivity].
Qed.

Lemma filter_map_comm {A B} (p : B -> bool) (f : A -> B) : forall l, filter p (map f l) = map f (filter (fun a => p (f a)) l).
Proof. induction l as [|a l IH]; cbn; [reflexivity|]. destruct (p (f a)); cbn; rewrite IH; reflexivity. Qed.

Definition has_lrn (ol : option learner) : bool := match ol with Some _ => true | None => false end.
Lemma length_opt_flat : forall (g : nat -> option learner) l, List.length (flat_map (fun t => opt_list (g t)) l) = List.length (filter (fun t => has_lrn (g t)) l).
Proof. intros g. induction l as [|t l IH]; cbn; [reflexivity|]. destruct (g t); cbn; rewrite IH; reflexivity. Qed.

Lemma NoDup_map_inj_in {A B} (f : A -> B) : forall l, NoDup l -> (forall x y, In x l -> In y l -> f x = f y -> x = y) -> NoDup (map f l).
Proof.
  induction l as [|a l IH]; intros Hn Hinj; cbn; [constructor|]. inversion Hn as [|? ? Hni Hn']; subst. constructor.
  - intro Hin. apply in_map_iff in Hin. destruct Hin as [b [E Hb]]. assert (b = a) by (apply Hinj; [right; exact Hb|left; reflexivity|exact E]). subst. contradiction.
  - apply IH; [exact Hn'|]. intros x y Hx Hy. apply Hinj; right; assumption.
Qed.

Definition first_op (o : d_op) : bool := do_has_learner o && Nat.eqb (do_name o) (fold_left Nat.min (do_taskops o) (do_name o)).

Lemma first_ops_count : forall s, C01F s -> TL s -> LD s -> TN [] s ->
  List.length (filter first_op (d_ops (observe s))) = List.length (task_learners s).
Proof.
  intros s F HTL HLD HTN. unfold observe. cbn [d_ops]. rewrite filter_map_comm, map_length.
  unfold task_learners. rewrite length_opt_flat.
  set (P := fun ox : nat * oper => first_op (let '(o, x) := ox in observe_op s o x)).
  set (T := filter (fun t => has_lrn (t_learner (get_task s t))) (seq 0 (s_ntasks s))).
  assert (HP : forall o x, P (o, x) = has_lrn (t_learner (get_task s (o_task x))) && Nat.eqb o (lmin (map snd (t_ops (get_task s (o_task x)))) o)).
  { intros o x. unfold P, first_op, observe_op. cbn [do_has_learner do_name do_taskops]. unfold has_lrn, lmin. destruct (t_learner _); reflexivity. }
  pose proof (NoDup_of_keys _ (F_ops s F)) as Hnd.
  assert (Hperm : Permutation (map (fun ox : nat * oper => o_task (snd ox)) (filter P (s_ops s))) T).
  { apply NoDup_Permutation.
    - apply NoDup_map_inj_in; [apply NoDup_filter; exact Hnd|].
      intros [o1 x1] [o2 x2] H1 H2 E. cbn [snd] in E. apply filter_In in H1, H2. destruct H1 as [I1 P1], H2 as [I2 P2].
      rewrite HP in P1, P2. apply andb_true_iff in P1, P2. destruct P1 as [_ P1], P2 as [_ P2]. apply Nat.eqb_eq in P1, P2.
      destruct (op_entry s F o1 x1 I1) as [A1 [L1 G1]]. destruct (op_entry s F o2 x2 I2) as [A2 [L2 G2]].
      pose proof (FO1 s F o1 L1) as M1. pose proof (FO1 s F o2 L2) as M2. unfold tsk in M1, M2. rewrite G1 in M1. rewrite G2 in M2.
      assert (Q1 : In o1 (map snd (t_ops (get_task s (o_task x1))))) by (apply in_map_iff; eexists; split; [|exact M1]; reflexivity).
      assert (Q2 : In o2 (map snd (t_ops (get_task s (o_task x2))))) by (apply in_map_iff; eexists; split; [|exact M2]; reflexivity).
      assert (Eo : o1 = o2).
      { rewrite E in Q1, P1. pose proof (lmin_le_in _ o1 o2 Q2) as B1. pose proof (lmin_le_in _ o2 o1 Q1) as B2. lia. }
      subst o2. rewrite A1 in A2. inversion A2. reflexivity.
    - apply NoDup_filter. apply seq_NoDup.
    - intro t. split.
      + intro Hin. apply in_map_iff in Hin. destruct Hin as [[o x] [E Hox]]. cbn [snd] in E. subst t. apply filter_In in Hox. destruct Hox as [_ Px].
        rewrite HP in Px. apply andb_true_iff in Px. destruct Px as [Px _]. apply filter_In. split; [|exact Px].
        apply in_seq. split; [lia|]. cbn. apply HTL. destruct (t_learner _); [discriminate|discriminate Px].
      + intro Hin. apply filter_In in Hin. destruct Hin as [_ Hl].
        assert (Hd : t_dnc (get_task s t) <> None) by (apply (HLD t); destruct (t_learner (get_task s t)); [discriminate|discriminate Hl]).
        pose proof (proj2 (HTN t) (fun X => X) Hd) as Hne.
        destruct (t_ops (get_task s t)) as [|[i0 h] tl] eqn:Eo; [contradiction|].
        set (l := map snd ((i0, h) :: tl)). set (m := lmin (map snd tl) h).
        assert (Hm : In m l) by (unfold l; cbn [map snd]; destruct (lmin_in (map snd tl) h) as [E|Hin]; [left; symmetry; exact E|right; exact Hin]).
        apply in_map_iff in Hm. destruct Hm as [[i m'] [Em Him]]. cbn in Em. subst m'. rewrite <- Eo in Him.
        destruct (FO2 s F t i m Him) as [Lm [Tm _]]. unfold op_alive in Lm. destruct (aget Nat.eqb m (s_ops s)) as [x|] eqn:Ex; [|discriminate].
        assert (Eg : get_op s m = x) by (unfold get_op; rewrite Ex; reflexivity). unfold tsk in Tm. rewrite Eg in Tm.
        apply in_map_iff. exists (m, x). split; [exact Tm|]. apply filter_In. split; [exact (aget_In Nat.eqb nat_eqb_eq _ _ _ Ex)|].
        rewrite HP, Tm, Hl, Eo. cbn [andb]. apply Nat.eqb_eq. fold l. unfold l. cbn [map snd lmin fold_left].
        pose proof (lmin_le_init (map snd tl) h) as B0. fold m in B0. rewrite (Nat.min_l m h B0). fold (lmin (map snd tl) m).
        pose proof (lmin_le_init (map snd tl) m) as B1. destruct (lmin_in (map snd tl) m) as [E|Hy]; [symmetry; exact E|].
        pose proof (lmin_le_in (map snd tl) h _ Hy) as B2. fold m in B2. lia. }
  rewrite <- (Permutation_length Hperm), map_length. reflexivity.
Qed.

Lemma c07_learners_match_ok : forall cfg t0 pfx m, selectors_in_range (init cfg t0) pfx -> ~ panicked (snd (run (init cfg t0) pfx)) ->
  InvL cfg t0 pfx m -> c07_learners_match m (observe (fst (run (init cfg t0) pfx))) = ""%string.
Proof.
  intros cfg t0 pfx m Hsel Hnp [_ [_ [_ HP]]]. unfold c07_learners_match. cbv zeta.
  destruct (Cok_run pfx (init cfg t0) Hsel (Cok_init cfg t0)) as [Hp|HC]; [contradiction|].
  set (s := fst (run (init cfg t0) pfx)) in *.
  change (filter _ (d_ops (observe s))) with (filter first_op (d_ops (observe s))).
  rewrite (first_ops_count s (Cok_C01F _ HC) (proj2 (LN2_run cfg t0 pfx)) (LD_run cfg t0 pfx)).
  - rewrite <- (Permutation_length HP), map_length, Nat.eqb_refl. reflexivity.
  - destruct HC as [_ [_ [_ [_ [_ [_ [_ [_ HT]]]]]]]]. exact HT.
Qed.

Theorem monitor_learners_on_model : forall cfg t0 evs,
  selectors_in_range (init cfg t0) evs -> fresh_calls [] evs -> bg_scripts_ok evs -> learner_ids_unique evs ->
  panicked (snd (run (init cfg t0) evs)) \/ trace_sub [16%nat; 18%nat] cfg t0 (model_trace cfg t0 evs) = true.
Proof.
  intros cfg t0 evs Hsel Hfr Hbg Hu.
  apply (trace_sub_generic2 cfg t0 [16%nat; 18%nat] learner_ids_unique (fun pfx m _ => InvL cfg t0 pfx m) learner_ids_unique_prefix) with (pfx := []) (m := mon0) (pre := empty_dump);
    [|split; [exact Hsel|split; assumption]|exact Hu|intros [o [what [[] _]]]|].
  - intros pfx eh m pre Hg Hq Hnp HI. cbv zeta.
    destruct (InvL_step cfg t0 pfx eh m pre (observe (fst (step (fst (run (init cfg t0) pfx)) eh))) Hq HI) as [E HI'].
    split; [|exact HI']. cbn [forallb]. rewrite andb_true_r. apply andb_true_iff. split; apply String.eqb_eq; unfold p_components; cbv zeta; cbn [nth]; [exact E|].
    rewrite <- (run_snoc_fst pfx eh (init cfg t0)). apply c07_learners_match_ok; [exact (proj1 Hg)|exact Hnp|].
    rewrite (run_snoc_fst pfx eh (init cfg t0)). exact HI'.
  - split; [intros i x []|split; [constructor|split; [intros x []|]]]. cbn. unfold task_learners, init. cbn. apply perm_nil.
Qed.
