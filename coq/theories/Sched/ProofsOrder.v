(* C04: the order on queued children (isPreferred with the started-time tie-break) is a strict partial order. *)
From Coq Require Import Lia ZArith.
From VF Require Export Sched.ProofsBasic.
Open Scope Z_scope.

Lemma pow100_compare : forall a b, 0 < a -> 0 < b -> (a ^ 100 ?= b ^ 100) = (a ?= b).
Proof.
  intros a b Ha Hb. destruct (Z.compare_spec a b) as [E|L|G].
  - subst. apply Z.compare_refl.
  - apply Z.compare_lt_iff. apply Z.pow_lt_mono_l; lia.
  - apply Z.compare_gt_iff. apply Z.pow_lt_mono_l; lia.
Qed.

(* the exact comparison is the comparison of e^100 * 2^(p+M) for any M making the exponents non-negative *)
Lemma score_cmp_key : forall M ei pi ej pj, 0 < ei -> 0 < ej -> 0 <= pi + M -> 0 <= pj + M ->
  score_cmp ei pi ej pj = (ei ^ 100 * 2 ^ (pi + M) ?= ej ^ 100 * 2 ^ (pj + M)).
Proof.
  intros M ei pi ej pj Hi Hj Hpi Hpj. unfold score_cmp.
  destruct (pi <? pj) eqn:E1; [apply Z.ltb_lt in E1|apply Z.ltb_ge in E1].
  - replace (pj + M) with ((pj - pi) + (pi + M)) by lia. rewrite (Z.pow_add_r 2 (pj - pi) (pi + M)) by lia.
    rewrite Z.mul_assoc. rewrite <- Zmult_compare_compat_r by (apply Z.lt_gt; apply Z.pow_pos_nonneg; lia). reflexivity.
  - destruct (pj <? pi) eqn:E2; [apply Z.ltb_lt in E2|apply Z.ltb_ge in E2].
    + replace (pi + M) with ((pi - pj) + (pj + M)) by lia. rewrite (Z.pow_add_r 2 (pi - pj) (pj + M)) by lia.
      rewrite Z.mul_assoc. rewrite <- Zmult_compare_compat_r by (apply Z.lt_gt; apply Z.pow_pos_nonneg; lia). reflexivity.
    + assert (pi = pj) by lia. subst pj. rewrite <- Zmult_compare_compat_r by (apply Z.lt_gt; apply Z.pow_pos_nonneg; lia).
      symmetry. apply pow100_compare; assumption.
Qed.

Definition qkey (s : state) (M : Z) (i : iref) : Z :=
  (Z.of_nat (List.length (v_exec (get_inv s i))) + 1) ^ 100 * 2 ^ (v_first (get_inv s i) + M).

Lemma qchildren_less_key : forall s M i j, 0 <= v_first (get_inv s i) + M -> 0 <= v_first (get_inv s j) + M ->
  qchildren_less s i j = true <->
  qkey s M i < qkey s M j \/ (qkey s M i = qkey s M j /\ v_started (get_inv s i) < v_started (get_inv s j)).
Proof.
  intros s M i j Hi Hj. unfold qchildren_less, is_preferred, qkey. cbv zeta.
  rewrite (score_cmp_key M) by lia.
  generalize ((Z.of_nat (List.length (v_exec (get_inv s i))) + 1) ^ 100 * 2 ^ (v_first (get_inv s i) + M)).
  generalize ((Z.of_nat (List.length (v_exec (get_inv s j))) + 1) ^ 100 * 2 ^ (v_first (get_inv s j) + M)).
  intros B A.
  destruct (Z.compare_spec A B) as [E|L|G].
  - rewrite Z.ltb_lt. split; [intro H; right; split; assumption|intros [H|[_ H]]; [lia|exact H]].
  - split; [intros _; left; exact L|reflexivity].
  - split; [discriminate|intros [H|[H _]]; lia].
Qed.

Lemma qchildren_less_irrefl : forall s i, qchildren_less s i i = false.
Proof.
  intros s i. destruct (qchildren_less s i i) eqn:E; [|reflexivity].
  apply (qchildren_less_key s (Z.abs (v_first (get_inv s i)))) in E; [|lia|lia]. generalize dependent (qkey s (Z.abs (v_first (get_inv s i))) i). intros. lia.
Qed.

Lemma qchildren_less_trans : forall s i j k,
  qchildren_less s i j = true -> qchildren_less s j k = true -> qchildren_less s i k = true.
Proof.
  intros s i j k H1 H2.
  set (M := Z.abs (v_first (get_inv s i)) + Z.abs (v_first (get_inv s j)) + Z.abs (v_first (get_inv s k))).
  apply (qchildren_less_key s M) in H1; [|unfold M; lia|unfold M; lia].
  apply (qchildren_less_key s M) in H2; [|unfold M; lia|unfold M; lia].
  apply (qchildren_less_key s M); [unfold M; lia|unfold M; lia|].
  generalize dependent (qkey s M i). generalize dependent (qkey s M j). generalize dependent (qkey s M k). intros. lia.
Qed.

Lemma qchildren_minimal_nonempty : forall s l, l <> [] -> minimal (qchildren_less s) l <> [].
Proof.
  intros s l H. apply minimal_nonempty; [intros; apply qchildren_less_irrefl|intros; eapply qchildren_less_trans; eassumption|exact H].
Qed.
