(* C04: the searches find somebody -- assignNextQueuedTask finds a queued task when one is queued below the root,
   task.schedule finds a parked worker when one is parked below the root. *)
From Coq Require Import Lia.
From VF Require Export Sched.ProofsTree Sched.ProofsOrder Sched.ProofsPolicy.
Open Scope Z_scope.

Lemma length_nonzero : forall {A} (l : list A), negb (Nat.eqb (List.length l) 0) = true <-> l <> [].
Proof. intros A [|x l]; cbn; split; try congruence; intros _; discriminate. Qed.

Lemma is_queued_iff : forall s i, is_queued s i = true <->
  exists d v, In (d, v) (s_invs s) /\ In i (chain d) /\ v_qops v <> [].
Proof.
  intros s i. unfold is_queued. rewrite existsb_exists. split.
  - intros [[d v] [Hin H]]. apply andb_true_iff in H. destruct H as [H1 H2]. exists d, v.
    split; [exact Hin|]. split; [apply in_chain_desc; exact H1|apply length_nonzero; exact H2].
  - intros [d [v [Hin [H1 H2]]]]. exists (d, v). split; [exact Hin|]. apply andb_true_iff.
    split; [apply in_chain_desc; exact H1|apply length_nonzero; exact H2].
Qed.

Lemma has_idle_sync_iff : forall s i, has_idle_sync s i = true <->
  exists d v, In (d, v) (s_invs s) /\ In i (chain d) /\ v_isync v <> [].
Proof.
  intros s i. unfold has_idle_sync. rewrite existsb_exists. split.
  - intros [[d v] [Hin H]]. apply andb_true_iff in H. destruct H as [H1 H2]. exists d, v.
    split; [exact Hin|]. split; [apply in_chain_desc; exact H1|apply length_nonzero; exact H2].
  - intros [d [v [Hin [H1 H2]]]]. exists (d, v). split; [exact Hin|]. apply andb_true_iff.
    split; [apply in_chain_desc; exact H1|apply length_nonzero; exact H2].
Qed.

Lemma in_children : forall s h c, In c (children s h) <-> inv_exists s c = true /\ is_child_of h c = true.
Proof.
  intros s h c. unfold children. rewrite in_map_iff. split.
  - intros [[c' v] [E H]]. cbn in E. subst c'. apply filter_In in H. destruct H as [Hin Hc]. split; [|exact Hc].
    unfold inv_exists. destruct (aget iref_eqb c (s_invs s)) eqn:Ea; [reflexivity|].
    exfalso. apply (aget_None_notin iref_eqb iref_eqb_eq) in Ea. apply Ea. apply in_map_iff. exists (c, v). auto.
  - intros [He Hc]. exists (c, get_inv s c). split; [reflexivity|]. apply filter_In. split; [apply inv_exists_in; exact He|exact Hc].
Qed.

(* queued invocations, and invocations with parked workers, exist with all their ancestors *)
Definition QPs (s : state) : Prop := forall d v, In (d, v) (s_invs s) -> v_qops v <> [] -> anc_exist s d.
Definition IPs (s : state) : Prop := forall d v, In (d, v) (s_invs s) -> v_isync v <> [] -> anc_exist s d.

(* ---- assignNextQueuedTask ----------------------------------------------------------------------------------------------- *)
Lemma next_candidates_nonempty : forall fuel s i lk lim st r,
  NoDup (map fst (s_invs s)) -> QPs s -> is_queued s i = true ->
  (List.length (s_invs s) <= fuel + List.length (i_path i))%nat ->
  next_candidates fuel s i lk lim st r <> [].
Proof.
  induction fuel as [|f IH]; intros s i lk lim st r Hnd HQ Hq Hf.
  - exfalso. apply is_queued_iff in Hq. destruct Hq as [d [v [Hin [Hc Hv]]]].
    pose proof (depth_bound s d Hnd (HQ d v Hin Hv)) as Hb. pose proof (chain_length _ _ Hc). cbn in Hf. lia.
  - cbn [next_candidates]. cbv zeta.
    destruct (min_op s (v_qops (get_inv s i))) as [o|] eqn:Em; [discriminate|].
    assert (Hhere : v_qops (get_inv s i) = []).
    { destruct (v_qops (get_inv s i)) as [|o0 l0] eqn:E; [reflexivity|].
      destruct (min_op_some s (o0 :: l0)) as [o Ho]; [discriminate|]. congruence. }
    apply is_queued_iff in Hq. destruct Hq as [d [v [Hin [Hc Hv]]]].
    assert (Hne : i <> d).
    { intros ->. destruct (in_invs_get s d v Hnd Hin) as [E _]. rewrite E in Hhere. contradiction. }
    destruct (child_towards i d Hc Hne) as [k0 [Hcd Hch]]. cbv zeta in Hcd, Hch.
    set (c := mkI (i_sk i) (i_path i ++ [k0])) in *.
    assert (Hcq : In c (queued_children s i)).
    { unfold queued_children. apply filter_In. split.
      - apply in_children. split; [exact (HQ d v Hin Hv c Hcd)|exact Hch].
      - apply is_queued_iff. exists d, v. auto. }
    pose proof (qchildren_minimal_nonempty s (queued_children s i)) as Hm.
    destruct (minimal (qchildren_less s) (queued_children s i)) as [|best tl] eqn:Emin; [exfalso; apply Hm; [intro E; rewrite E in Hcq; destruct Hcq|reflexivity]|].
    assert (Hbest : In best (queued_children s i)).
    { assert (Hb : In best (minimal (qchildren_less s) (queued_children s i))) by (rewrite Emin; left; reflexivity).
      apply minimal_sound in Hb. exact (proj1 Hb). }
    unfold queued_children in Hbest. apply filter_In in Hbest. destruct Hbest as [Hbc Hbq].
    apply in_children in Hbc. destruct Hbc as [_ Hbc]. pose proof (child_depth _ _ Hbc) as Hbd.
    cbn [flat_map]. intro E. apply app_eq_nil in E. destruct E as [E _]. revert E.
    assert (Hrec : forall b lk' lim' st' r', is_queued s b = true -> List.length (i_path b) = S (List.length (i_path i)) ->
              next_candidates f s b lk' lim' st' r' <> []).
    { intros b lk' lim' st' r' Hb Hd. apply IH; [exact Hnd|exact HQ|exact Hb|]. rewrite Hd. lia. }
    destruct lk as [[|k1 krest]|]; try (apply Hrec; assumption).
    destruct lim as [|lim0 limrest]; try (apply Hrec; assumption).
    set (isticky := mkI (i_sk i) (i_path i ++ [k1])).
    destruct (is_queued s isticky && is_preferred s isticky best (s_now s <? hd 0 st + lim0)) eqn:Ec.
    + apply andb_true_iff in Ec. destruct Ec as [Ec _].
      assert (Hd : List.length (i_path isticky) = S (List.length (i_path i))) by (unfold isticky; cbn; rewrite app_length; cbn; lia).
      destruct (iref_eqb isticky isticky); apply Hrec; assumption.
    + destruct (iref_eqb best isticky); apply Hrec; assumption.
Qed.

Lemma pick_next_some : forall s w cands, cands <> [] -> pick_next s w cands <> None.
Proof.
  intros s w [|c0 cands] H; [contradiction|]. unfold pick_next.
  destruct (hinted_task s w) as [t|]; [|cbn; discriminate]. cbv zeta.
  destruct (match hinted_retained s w with Some r => find _ _ | None => None end); [discriminate|].
  destruct (filter _ (c0 :: cands)); cbn; discriminate.
Qed.

(* a worker that is not handed a task: nothing is queued in its size class queue *)
Lemma assign_next_nothing_queued : forall w s, NoDup (map fst (s_invs s)) -> QPs s ->
  snd (assign_next_queued_task w s) = false -> is_queued s (mkI (w_sk w) []) = false.
Proof.
  intros w s Hnd HQ H. destruct (is_queued s (mkI (w_sk w) [])) eqn:Eq; [|reflexivity]. exfalso.
  unfold assign_next_queued_task in H. cbv zeta in H.
  match type of H with context [pick_next s w ?c] => pose proof (pick_next_some s w c) as Hp; destruct (pick_next s w c) as [[t rr]|] end.
  - cbn in H. discriminate.
  - apply Hp; [|reflexivity]. apply next_candidates_nonempty; [exact Hnd|exact HQ|exact Eq|]. cbn. lia.
Qed.

(* ---- task.schedule -------------------------------------------------------------------------------------------------------- *)
Lemma descend_idle_nonempty : forall fuel s h,
  NoDup (map fst (s_invs s)) -> IPs s -> has_idle_sync s h = true ->
  (List.length (s_invs s) <= fuel + List.length (i_path h))%nat ->
  descend_idle fuel s h <> [].
Proof.
  induction fuel as [|f IH]; intros s h Hnd HI Hq Hf.
  - exfalso. apply has_idle_sync_iff in Hq. destruct Hq as [d [v [Hin [Hc Hv]]]].
    pose proof (depth_bound s d Hnd (HI d v Hin Hv)) as Hb. pose proof (chain_length _ _ Hc). cbn in Hf. lia.
  - cbn [descend_idle]. destruct (v_isync (get_inv s h)) as [|w0 tl0] eqn:Ehere; [|discriminate]. cbv zeta.
    apply has_idle_sync_iff in Hq. destruct Hq as [d [v [Hin [Hc Hv]]]].
    assert (Hne : h <> d).
    { intros ->. destruct (in_invs_get s d v Hnd Hin) as [E _]. rewrite E in Ehere. contradiction. }
    destruct (child_towards h d Hc Hne) as [k0 [Hcd Hch]]. cbv zeta in Hcd, Hch.
    set (c := mkI (i_sk h) (i_path h ++ [k0])) in *.
    assert (Hcq : In c (idle_sync_children s h)).
    { unfold idle_sync_children. apply filter_In. split.
      - apply in_children. split; [exact (HI d v Hin Hv c Hcd)|exact Hch].
      - apply has_idle_sync_iff. exists d, v. auto. }
    set (cs := idle_sync_children s h) in *.
    assert (Hsub : forall b, In b (match minimal (ichildren_less s) cs with [] => cs | m => m end) -> In b cs).
    { intros b Hb. destruct (minimal (ichildren_less s) cs) eqn:Em; [exact Hb|]. rewrite <- Em in Hb. apply minimal_sound in Hb. exact (proj1 Hb). }
    assert (Hnn : (match minimal (ichildren_less s) cs with [] => cs | m => m end) <> []).
    { destruct (minimal (ichildren_less s) cs); [|discriminate]. intro E. rewrite E in Hcq. destruct Hcq. }
    destruct (match minimal (ichildren_less s) cs with [] => cs | m => m end) as [|b tl]; [contradiction|].
    specialize (Hsub b (or_introl eq_refl)). unfold cs, idle_sync_children in Hsub. apply filter_In in Hsub. destruct Hsub as [Hbc Hbq].
    apply in_children in Hbc. destruct Hbc as [_ Hbc]. pose proof (child_depth _ _ Hbc) as Hbd.
    cbn [flat_map]. intro E. apply app_eq_nil in E. destruct E as [E _]. revert E.
    apply IH; [exact Hnd|exact HI|exact Hbq|]. rewrite Hbd. lia.
Qed.

Lemma schedule_candidates_nonempty : forall fuel s invs k,
  NoDup (map fst (s_invs s)) -> IPs s -> invs <> [] -> (forall i, In i invs -> i_sk i = k) ->
  has_idle_sync s (mkI k []) = true -> (max_depth invs < fuel)%nat ->
  schedule_candidates fuel s invs <> [].
Proof.
  induction fuel as [|f IH]; intros s invs k Hnd HI Hne Hk Hroot Hf; [lia|].
  cbn [schedule_candidates]. cbv zeta.
  destruct (filter (has_idle_sync s) invs) as [|h tl] eqn:Ehits.
  - destruct (existsb is_root invs) eqn:Er.
    + exfalso. apply existsb_exists in Er. destruct Er as [i [Hi Hr]]. unfold is_root in Hr.
      assert (E : i = mkI k []). { destruct i as [ik ip]. cbn in *. destruct ip; [|discriminate]. rewrite <- (Hk _ Hi). reflexivity. }
      subst i. assert (Hin : In (mkI k []) (filter (has_idle_sync s) invs)) by (apply filter_In; auto). rewrite Ehits in Hin. destruct Hin.
    + assert (Hnr : forall i, In i invs -> i_path i <> []).
      { intros i Hi E. assert (Ht : existsb is_root invs = true) by (apply existsb_exists; exists i; split; [exact Hi|unfold is_root; rewrite E; reflexivity]). congruence. }
      apply (IH s (map parent_of invs) k); [exact Hnd|exact HI| | |exact Hroot|].
      * destruct invs; [contradiction|discriminate].
      * intros i Hi. apply in_map_iff in Hi. destruct Hi as [j [<- Hj]]. cbn. apply Hk. exact Hj.
      * assert (Hle : (max_depth invs <= f)%nat) by lia. rewrite max_depth_le in Hle.
        destruct f as [|f'].
        { exfalso. destruct invs as [|i0 invs0]; [contradiction|]. specialize (Hle i0 (or_introl eq_refl)). specialize (Hnr i0 (or_introl eq_refl)).
          destruct (i_path i0); [contradiction|cbn in Hle; lia]. }
        apply Nat.lt_succ_r. apply max_depth_le. intros i Hi. apply in_map_iff in Hi. destruct Hi as [j [<- Hj]]. cbn. unfold parent_path.
        specialize (Hle j Hj). specialize (Hnr j Hj). destruct (i_path j) as [|x p] using rev_ind; [contradiction|].
        rewrite removelast_last. rewrite app_length in Hle. cbn in Hle. lia.
  - cbn [flat_map]. intro E. apply app_eq_nil in E. destruct E as [E _]. revert E.
    assert (Hh : In h (filter (has_idle_sync s) invs)) by (rewrite Ehits; left; reflexivity). apply filter_In in Hh.
    apply descend_idle_nonempty; [exact Hnd|exact HI|exact (proj2 Hh)|]. lia.
Qed.

Lemma pick_worker_some : forall s t cands, cands <> [] -> pick_worker s t cands <> None.
Proof.
  intros s t [|c0 cands] H; [contradiction|]. unfold pick_worker. destruct (find _ _) as [[o w]|]; cbn; discriminate.
Qed.

(* ---- locality of the direct assignment ---------------------------------------------------------------------------------------------------------------- *)
(* the worker a new task is handed to is parked at or below the nearest ancestor (of any of the task's invocations) that
   has parked workers below it: the search goes up level by level and takes the first level with a hit *)
Fixpoint anc_n (n : nat) (i : iref) : iref := match n with O => i | S m => anc_n m (parent_of i) end.

Lemma descend_idle_below : forall f s h w, In w (descend_idle f s h) -> exists j, In w (v_isync (get_inv s j)) /\ In h (chain j).
Proof.
  induction f as [|f IH]; intros s h w Hin; cbn [descend_idle] in Hin; [destruct Hin|].
  destruct (v_isync (get_inv s h)) as [|w0 tl] eqn:E.
  - cbv zeta in Hin. apply in_flat_map in Hin. destruct Hin as [c [Hc Hin]].
    assert (Hc' : In c (idle_sync_children s h)).
    { destruct (minimal (ichildren_less s) (idle_sync_children s h)) eqn:Em; [exact Hc|]. rewrite <- Em in Hc. apply minimal_sound in Hc. exact (proj1 Hc). }
    unfold idle_sync_children in Hc'. apply filter_In in Hc'. destruct Hc' as [Hc' _]. apply in_children in Hc'. destruct Hc' as [_ Hch].
    destruct (IH _ _ _ Hin) as [j [A B]]. exists j. split; [exact A|]. eapply child_in_chain; eassumption.
  - destruct Hin as [<-|[]]. exists h. rewrite E. split; [left; reflexivity|apply in_chain_self].
Qed.

Lemma map_parent_anc : forall n invs, map (anc_n n) (map parent_of invs) = map (anc_n (S n)) invs.
Proof. intros n invs. rewrite map_map. reflexivity. Qed.

Lemma direct_assign_closest : forall fuel s invs w, In w (schedule_candidates fuel s invs) ->
  exists n h j, (n < fuel)%nat /\ In h (map (anc_n n) invs) /\ has_idle_sync s h = true /\
    In w (v_isync (get_inv s j)) /\ In h (chain j) /\
    forall m h', (m < n)%nat -> In h' (map (anc_n m) invs) -> has_idle_sync s h' = false.
Proof.
  induction fuel as [|f IH]; intros s invs w Hin; cbn [schedule_candidates] in Hin; [destruct Hin|]. cbv zeta in Hin.
  destruct (filter (has_idle_sync s) invs) as [|h0 tl] eqn:Ehits.
  - destruct (existsb is_root invs); [destruct Hin|]. destruct (IH _ _ _ Hin) as [n [h [j [Hn [Hh [Hi [Hw [Hc Hmin]]]]]]]].
    exists (S n), h, j. split; [lia|]. split; [rewrite <- map_parent_anc; exact Hh|]. split; [exact Hi|]. split; [exact Hw|]. split; [exact Hc|].
    intros m h' Hm Hh'. destruct m as [|m].
    + cbn [anc_n] in Hh'. rewrite map_id in Hh'. destruct (has_idle_sync s h') eqn:E; [|reflexivity].
      assert (Hf : In h' (filter (has_idle_sync s) invs)) by (apply filter_In; auto). rewrite Ehits in Hf. destruct Hf.
    + rewrite <- map_parent_anc in Hh'. apply (Hmin m h'); [lia|exact Hh'].
  - apply in_flat_map in Hin. destruct Hin as [h [Hh Hin]]. rewrite <- Ehits in Hh. apply filter_In in Hh. destruct Hh as [Hh Hi].
    destruct (descend_idle_below _ _ _ _ Hin) as [j [Hw Hc]].
    exists 0%nat, h, j. split; [lia|]. split; [cbn [anc_n]; rewrite map_id; exact Hh|]. split; [exact Hi|]. split; [exact Hw|]. split; [exact Hc|]. intros m h' Hm. lia.
Qed.
