(* Proofs about the scheduler model: re-exports the proof files. *)
From VF Require Export Sched.Spec.
From VF Require Export Sched.ProofsAssoc Sched.ProofsBasic Sched.ProofsFrame Sched.ProofsFoot
  Sched.ProofsStreams Sched.ProofsFaithful Sched.ProofsExec Sched.ProofsRoute Sched.ProofsSpec Sched.ProofsPolicy
  Sched.ProofsInv Sched.ProofsRefs Sched.ProofsRefs2 Sched.ProofsInflight
  Sched.ProofsPrims Sched.ProofsWaiters Sched.ProofsEnabled Sched.ProofsArmed Sched.ProofsAbsorb Sched.ProofsSyncOut Sched.ProofsTimeouts Sched.ProofsStages
  Sched.ProofsRead Sched.ProofsStruct Sched.ProofsWorkers Sched.ProofsWorkers2 Sched.ProofsWorkers3
  Sched.ProofsExcl Sched.ProofsExcl2 Sched.ProofsExcl3 Sched.ProofsExcl4 Sched.ProofsExcl5 Sched.ProofsExcl6 Sched.ProofsExcl7 Sched.ProofsExcl8
  Sched.ProofsC01 Sched.ProofsLearner Sched.ProofsAttended
  Sched.ProofsObsLink Sched.ProofsObsC01 Sched.ProofsFull1 Sched.ProofsFull2 Sched.ProofsFull3 Sched.ProofsFull4 Sched.ProofsFull5
  Sched.ProofsFull6 Sched.ProofsFullTN Sched.ProofsFull7 Sched.ProofsFull8 Sched.ProofsFullEx Sched.ProofsObsC03 Sched.ProofsQueueArmed Sched.ProofsC04W
  Sched.ProofsTree Sched.ProofsOrder Sched.ProofsFind Sched.ProofsTC1 Sched.ProofsTC2 Sched.ProofsTC3 Sched.ProofsTC4 Sched.ProofsTC5 Sched.ProofsTC6
  Sched.ProofsBg1 Sched.ProofsBg2 Sched.ProofsBg3 Sched.ProofsBg4 Sched.ProofsMon1 Sched.ProofsMon2 Sched.ProofsMon3 Sched.ProofsMon4 Sched.ProofsMon5 Sched.ProofsMon6 Sched.ProofsMon7 Sched.ProofsMon8 Sched.ProofsMon9 Sched.ProofsMon10 Sched.ProofsMon11 Sched.ProofsMonW Sched.ProofsMon12 Sched.ProofsMon13 Sched.ProofsMon14 Sched.ProofsMon15 Sched.ProofsMon16 Sched.ProofsMonSum.
