(* Proofs about the scheduler model: re-exports the proof files. *)
From VF Require Export Sched.Spec.
From VF Require Export Sched.ProofsAssoc Sched.ProofsBasic Sched.ProofsFrame Sched.ProofsFoot
  Sched.ProofsStreams Sched.ProofsFaithful Sched.ProofsExec Sched.ProofsRoute Sched.ProofsSpec Sched.ProofsPolicy
  Sched.ProofsInv Sched.ProofsRefs Sched.ProofsRefs2 Sched.ProofsInflight
  Sched.ProofsPrims Sched.ProofsWaiters Sched.ProofsEnabled Sched.ProofsArmed Sched.ProofsAbsorb Sched.ProofsSyncOut Sched.ProofsTimeouts Sched.ProofsStages.
