(* Proofs about the scheduler model. *)
From Coq Require Import Lia.
From VF Require Export Sched.Spec.
