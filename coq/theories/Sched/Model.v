(* Executable model of InMemoryBuildQueue (pkg/scheduler/in_memory_build_queue.go).

   One [event] is one critical section of one RPC goroutine (the code
   between bq.enter and bq.leave), plus what that goroutine does outside
   the lock until it parks again (Send on its stream, select).  Binary
   heaps are modelled as sets with "minimum by Less" selection; where Less
   leaves a tie, or where Go iterates over a map, every admissible choice
   is a candidate and the event's [hints] (the assignment relation of the
   observed post-state) selects among the candidates only. *)
From VF Require Export Sched.Types.
Open Scope Z_scope.

Record state := mkState {
  s_cfg : config; s_now : Z; s_hardfail : Z;
  s_pqs : list pq;
  s_scqs : list (skey * scq);
  s_invs : list (iref * inv);
  s_tasks : list (nat * task); s_ntasks : nat;
  s_ops : list (nat * oper); s_nops : nat;
  s_inflight : list ((list N * N) * nat);
  s_calls : list (nat * pc);
  s_out : list obs;                (* observations of the current event, newest first *)
  s_hints : list (nat * wref) }.   (* (operation, worker) pairs: admissible tie-breaks *)
#[export] Instance eta_state : Settable _ :=
  settable! mkState <s_cfg; s_now; s_hardfail; s_pqs; s_scqs; s_invs; s_tasks; s_ntasks; s_ops; s_nops;
                     s_inflight; s_calls; s_out; s_hints>.

Definition init (cfg : config) (t0 : Z) : state :=
  mkState cfg 0 (t0 + cf_pq_noworkers cfg) [] [] [] [] 0 [] 0 [] [] [] [].

Definition dkey_eqb (a b : list N * N) : bool := list_eqb N.eqb (fst a) (fst b) && (snd a =? snd b)%N.

Definition emit (o : obs) (s : state) : state := s <| s_out ::= cons o |>.
Definition panic (what : string) (s : state) : state := emit (OPanic what) s.

(* ---- accessors ------------------------------------------------------------ *)
Definition dummy_task : task := mkTask [] [] 0 None 0 0 [] None 0 0 None None 0.
Definition dummy_inv : inv := mkInv [] 0 [] 0 0 0 [].
Definition dummy_oper : oper := mkOper 0 0 (mkI (mkSK (mkPK [] 0) 0) []) 0 false None.
Definition dummy_worker : worker := mkWorker None None false None false [].
Definition dummy_scq : scq := mkScq false None [] 0 [].

Definition get_task (s : state) (t : nat) : task :=
  match aget Nat.eqb t (s_tasks s) with Some x => x | None => dummy_task end.
Definition upd_task (t : nat) (f : task -> task) (s : state) : state :=
  s <| s_tasks := aset Nat.eqb t (f (get_task s t)) (s_tasks s) |>.
Definition get_op (s : state) (o : nat) : oper :=
  match aget Nat.eqb o (s_ops s) with Some x => x | None => dummy_oper end.
Definition op_alive (s : state) (o : nat) : bool :=
  match aget Nat.eqb o (s_ops s) with Some _ => true | None => false end.
Definition upd_op (o : nat) (f : oper -> oper) (s : state) : state :=
  match aget Nat.eqb o (s_ops s) with
  | Some x => s <| s_ops := aset Nat.eqb o (f x) (s_ops s) |>
  | None => s
  end.
Definition get_inv (s : state) (i : iref) : inv :=
  match aget iref_eqb i (s_invs s) with Some x => x | None => dummy_inv end.
Definition inv_exists (s : state) (i : iref) : bool :=
  match aget iref_eqb i (s_invs s) with Some _ => true | None => false end.
Definition upd_inv (i : iref) (f : inv -> inv) (s : state) : state :=
  match aget iref_eqb i (s_invs s) with
  | Some x => s <| s_invs := aset iref_eqb i (f x) (s_invs s) |>
  | None => s
  end.
Definition get_scq (s : state) (k : skey) : scq :=
  match aget skey_eqb k (s_scqs s) with Some x => x | None => dummy_scq end.
Definition upd_scq (k : skey) (f : scq -> scq) (s : state) : state :=
  match aget skey_eqb k (s_scqs s) with
  | Some x => s <| s_scqs := aset skey_eqb k (f x) (s_scqs s) |>
  | None => s
  end.
Definition get_worker (s : state) (w : wref) : worker :=
  match aget wref_eqb w (q_workers (get_scq s (w_sk w))) with Some x => x | None => dummy_worker end.
Definition worker_exists (s : state) (w : wref) : bool :=
  match aget wref_eqb w (q_workers (get_scq s (w_sk w))) with Some _ => true | None => false end.
Definition upd_worker (w : wref) (f : worker -> worker) (s : state) : state :=
  if worker_exists s w
  then upd_scq (w_sk w) (fun q => q <| q_workers := aset wref_eqb w (f (get_worker s w)) (q_workers q) |>) s
  else s.
Definition get_pq (s : state) (k : pkey) : option pq :=
  find (fun p => pkey_eqb (p_key p) k) (s_pqs s).
Definition upd_pq (k : pkey) (f : pq -> pq) (s : state) : state :=
  s <| s_pqs := map (fun p => if pkey_eqb (p_key p) k then f p else p) (s_pqs s) |>.
Definition set_call (c : nat) (p : pc) (s : state) : state :=
  s <| s_calls := aset Nat.eqb c p (s_calls s) |>.
Definition get_call (s : state) (c : nat) : pc :=
  match aget Nat.eqb c (s_calls s) with Some x => x | None => PDone end.

(* The worker value used by task.complete for a queued task ("var w worker"). *)
Definition phantom_worker (k : skey) : wref := mkW k 4294967295 4294967295.
Definition is_phantom (w : wref) := (w_h w =? 4294967295)%N.

(* ---- invocation tree ------------------------------------------------------ *)
Fixpoint is_prefix (a b : path) : bool :=
  match a, b with
  | [], _ => true
  | x :: a', y :: b' => (x =? y)%N && is_prefix a' b'
  | _, [] => false
  end.
Definition parent_path (p : path) : path := removelast p.
Definition parent_of (i : iref) : iref := mkI (i_sk i) (parent_path (i_path i)).
Definition is_root (i : iref) : bool := match i_path i with [] => true | _ => false end.
Definition is_child_of (p c : iref) : bool :=
  skey_eqb (i_sk p) (i_sk c) && negb (is_root c) && path_eqb (i_path p) (parent_path (i_path c)).
Definition descendant_or_self (a d : iref) : bool :=
  skey_eqb (i_sk a) (i_sk d) && is_prefix (i_path a) (i_path d).

(* isQueued: queuedOperations or queuedChildren non-empty; the heap of
   children contains exactly the queued children, hence: some descendant
   (or the node itself) has queued operations. *)
Definition is_queued (s : state) (i : iref) : bool :=
  existsb (fun '(d, v) => descendant_or_self i d && negb (Nat.eqb (List.length (v_qops v)) 0)) (s_invs s).
Definition has_idle_sync (s : state) (i : iref) : bool :=
  existsb (fun '(d, v) => descendant_or_self i d && negb (Nat.eqb (List.length (v_isync v)) 0)) (s_invs s).
Definition is_active (s : state) (i : iref) : bool :=
  is_queued s i || negb (Nat.eqb (List.length (v_exec (get_inv s i))) 0).
Definition children (s : state) (i : iref) : list iref :=
  map fst (filter (fun '(c, _) => is_child_of i c) (s_invs s)).
Definition queued_children (s : state) (i : iref) : list iref := filter (is_queued s) (children s i).
Definition idle_sync_children (s : state) (i : iref) : list iref := filter (has_idle_sync s) (children s i).

Definition new_inv (now : Z) : inv := mkInv [] 0 [] now now 0 [].

(* getOrCreateInvocation *)
Fixpoint prefixes_from (acc : path) (rest : path) : list path :=
  match rest with
  | [] => []
  | k :: tl => (acc ++ [k]) :: prefixes_from (acc ++ [k]) tl
  end.
Definition get_or_create_invocation (k : skey) (p : path) (s : state) : state :=
  fold_left (fun s pp =>
    let i := mkI k pp in
    if inv_exists s i then s else s <| s_invs ::= fun l => l ++ [(i, new_inv (s_now s))] |>)
    (prefixes_from [] p) s.

Definition remove_if_empty (i : iref) (s : state) : state * bool :=
  if negb (is_root i) && inv_exists s i && negb (is_active s i) && (v_idle (get_inv s i) =? 0)%N
  then (s <| s_invs := adel iref_eqb i (s_invs s) |>, true)
  else (s, false).

(* all ancestors-or-self from i up to the root *)
Fixpoint chain_up (k : skey) (p : path) (fuel : nat) : list iref :=
  match fuel with
  | O => [mkI k p]
  | S f => match p with
           | [] => [mkI k []]
           | _ => mkI k p :: chain_up k (parent_path p) f
           end
  end.
Definition chain (i : iref) : list iref := chain_up (i_sk i) (i_path i) (List.length (i_path i)).

Definition exec_incr (w : wref) (l : list (wref * nat)) : list (wref * nat) :=
  match aget wref_eqb w l with
  | Some n => aset wref_eqb w (S n) l
  | None => l ++ [(w, 1%nat)]
  end.

Definition increment_executing (i : iref) (w : wref) (s : state) : state :=
  fold_left (fun s j => upd_inv j (fun v => v <| v_exec ::= exec_incr w |> <| v_started := s_now s |>) s)
            (chain i) s.

Definition decrement_executing (i : iref) (w : wref) (s : state) : state :=
  fold_left (fun s j =>
    let v := get_inv s j in
    match aget wref_eqb w (v_exec v) with
    | Some (S n) =>
      let ex := match n with O => adel wref_eqb w (v_exec v) | _ => aset wref_eqb w n (v_exec v) end in
      let s := upd_inv j (fun v => v <| v_exec := ex |> <| v_completed := s_now s |>) s in
      if is_root j then s else fst (remove_if_empty j s)
    | _ => panic "Executing workers count invalid" s
    end) (chain i) s.

(* ---- heaps as sets: Less relations ---------------------------------------- *)
Definition ops_less (s : state) (a b : nat) : bool :=
  let oa := get_op s a in let ob := get_op s b in
  if o_prio oa <? o_prio ob then true
  else if o_prio ob <? o_prio oa then false
  else let ta := get_task s (o_task oa) in let tb := get_task s (o_task ob) in
       if t_expdur tb <? t_expdur ta then true
       else if t_expdur ta <? t_expdur tb then false
       else t_qts ta <? t_qts tb.

(* isPreferred, decided exactly: e_i * 2^((p_i-p_j)/100) < e_j  <=>  e_i^100 * 2^(p_i-p_j) < e_j^100 *)
Definition score_cmp (ei pi ej pj : Z) : comparison :=
  if pi <? pj then Z.compare (ei ^ 100) (ej ^ 100 * 2 ^ (pj - pi))
  else if pj <? pi then Z.compare (ei ^ 100 * 2 ^ (pi - pj)) (ej ^ 100)
  else Z.compare ei ej.
Definition is_preferred (s : state) (i j : iref) (tie : bool) : bool :=
  let vi := get_inv s i in let vj := get_inv s j in
  match score_cmp (Z.of_nat (List.length (v_exec vi)) + 1) (v_first vi)
                  (Z.of_nat (List.length (v_exec vj)) + 1) (v_first vj) with
  | Lt => true
  | Eq => tie
  | Gt => false
  end.
Definition qchildren_less (s : state) (i j : iref) : bool :=
  is_preferred s i j (v_started (get_inv s i) <? v_started (get_inv s j)).
Definition ichildren_less (s : state) (i j : iref) : bool :=
  let vi := get_inv s i in let vj := get_inv s j in
  let ui := Z.of_nat (List.length (v_exec vi)) * Z.of_nat (List.length (v_isync vj)) in
  let uj := Z.of_nat (List.length (v_exec vj)) * Z.of_nat (List.length (v_isync vi)) in
  if ui <? uj then true else if uj <? ui then false
  else v_completed vi <? v_completed vj.

(* the elements no other element is Less than: the admissible heap roots *)
Definition minimal {A} (less : A -> A -> bool) (l : list A) : list A :=
  filter (fun x => forallb (fun y => negb (less y x)) l) l.
Definition min_op (s : state) (l : list nat) : option nat := hd_error (minimal (ops_less s) l).

Definition update_first_priority (i : iref) (s : state) : state :=
  let v := get_inv s i in
  match min_op s (v_qops v) with
  | Some o => upd_inv i (fun v => v <| v_first := o_prio (get_op s o) |>) s
  | None =>
    match minimal (qchildren_less s) (queued_children s i) with
    | c :: _ => upd_inv i (fun v => v <| v_first := v_first (get_inv s c) |>) s
    | [] => s
    end
  end.

Definition nonroot_chain (i : iref) : list iref := filter (fun j => negb (is_root j)) (chain i).

Definition enqueue (o : nat) (s : state) : state :=
  let i := o_inv (get_op s o) in
  let s := upd_inv i (fun v => v <| v_qops ::= fun l => l ++ [o] |>) s in
  fold_left (fun s j => update_first_priority j s) (nonroot_chain i) s.

Definition remove_nat (x : nat) (l : list nat) : list nat := filter (fun y => negb (Nat.eqb x y)) l.

Definition remove_queued_from_invocation (o : nat) (s : state) : state :=
  let i := o_inv (get_op s o) in
  let s := upd_inv i (fun v => v <| v_qops ::= remove_nat o |>) s in
  fold_left (fun s j => update_first_priority j s) (nonroot_chain i) s.

(* ---- workers ---------------------------------------------------------------- *)
Definition last_iref (w : wref) (p : path) : iref := mkI (w_sk w) p.

Definition clear_last_invocation (w : wref) (s : state) : state :=
  let k := get_worker s w in
  if is_phantom w then s else
  if k_wait k then panic "Clearing last invocations would make it impossible to dequeue the worker" s else
  match k_last k with
  | None => s
  | Some p =>
    let s := fold_left (fun s j =>
      let v := get_inv s j in
      if (v_idle v =? 0)%N then panic "Invalid workers count" s
      else fst (remove_if_empty j (upd_inv j (fun v => v <| v_idle ::= N.pred |>) s)))
      (chain (last_iref w p)) s in
    upd_worker w (fun k => k <| k_last := None |>) s
  end.

Definition set_last_invocation (w : wref) (p : path) (s : state) : state :=
  if is_phantom w then s else
  let k := get_worker s w in
  match k_last k with
  | Some _ => panic "Executing worker cannot have a last invocation associated with it" s
  | None =>
    let s := upd_worker w (fun k => k <| k_last := Some p |>) s in
    fold_left (fun s j => upd_inv j (fun v => v <| v_idle ::= N.succ |>) s) (chain (last_iref w p)) s
  end.

(* idleSynchronizingWorkersList.dequeue: swap with last, shrink *)
Fixpoint index_of (w : wref) (l : list wref) (n : nat) : option nat :=
  match l with
  | [] => None
  | x :: tl => if wref_eqb x w then Some n else index_of w tl (S n)
  end.
Fixpoint replace_nth {A} (n : nat) (x : A) (l : list A) : list A :=
  match l, n with
  | [], _ => []
  | _ :: tl, O => x :: tl
  | y :: tl, S m => y :: replace_nth m x tl
  end.
Definition swap_remove (w : wref) (l : list wref) : list wref :=
  match index_of w l 0 with
  | None => l
  | Some n => let lst := last l w in removelast (replace_nth n lst l)
  end.

Definition dequeue_worker (w : wref) (s : state) : state :=
  match k_last (get_worker s w) with
  | Some p => upd_worker w (fun k => k <| k_wait := false |>)
                (upd_inv (last_iref w p) (fun v => v <| v_isync ::= swap_remove w |>) s)
  | None => panic "dequeue of a worker without last invocation" s
  end.
Definition maybe_dequeue (w : wref) (s : state) : state :=
  if k_wait (get_worker s w) then dequeue_worker w s else s.
(* wakeUp = close(w.wakeup) + dequeue; the parked Synchronize call notices k_wait = false *)
Definition wake_up (w : wref) (s : state) : state := dequeue_worker w s.

Fixpoint set_from {A} (n : nat) (x : A) (l : list A) : list A :=
  match l with
  | [] => []
  | y :: tl => match n with O => x :: set_from O x tl | S m => y :: set_from m x tl end
  end.

Definition task_invs (s : state) (t : nat) : list iref := map fst (t_ops (get_task s t)).
Definition task_opids (s : state) (t : nat) : list nat := map snd (t_ops (get_task s t)).

Definition assign_unqueued (w : wref) (t : nat) (retained : nat) (s : state) : state :=
  let k := get_worker s w in
  if negb (is_phantom w) && match k_task k with Some _ => true | None => false end
  then panic "Worker is already associated with a task" s else
  match t_worker (get_task s t) with
  | Some _ => panic "Task is already associated with a worker" s
  | None =>
    let s := upd_worker w (fun k => k <| k_task := Some t |>) s in
    let s := upd_task t (fun x => x <| t_worker := Some w |> <| t_retry := O |>) s in
    let s := fold_left (fun s i => increment_executing i w s) (task_invs s t) s in
    let s := clear_last_invocation w s in
    upd_worker w (fun k => k <| k_sticky ::= set_from retained (s_now s) |>) s
  end.

Definition report_non_final_stage_change (t : nat) (s : state) : state :=
  upd_task t (fun x => x <| t_gen ::= S |>) s.

Definition assign_queued (w : wref) (t : nat) (retained : nat) (s : state) : state :=
  let s := assign_unqueued w t retained s in
  let s := fold_left (fun s o => remove_queued_from_invocation o s) (task_opids s t) s in
  report_non_final_stage_change t s.

Definition is_drained (s : state) (w : wref) : bool :=
  k_term (get_worker s w) || existsb (matches w) (q_drains (get_scq s (w_sk w))).

(* -- assignNextQueuedTask: all admissible (task, stickinessRetained) outcomes -- *)
Fixpoint next_candidates (fuel : nat) (s : state) (i : iref) (lastkeys : option path)
    (limits sticky : list Z) (retained : nat) : list (nat * nat) :=
  match fuel with
  | O => []
  | S f =>
    let v := get_inv s i in
    match min_op s (v_qops v) with
    | Some o => [(o_task (get_op s o), retained)]
    | None =>
      let qc := queued_children s i in
      flat_map (fun best =>
        match lastkeys, limits with
        | Some (k0 :: krest), lim0 :: limrest =>
          let isticky := mkI (i_sk i) (i_path i ++ [k0]) in
          let st0 := hd 0 sticky in
          let best' := if is_queued s isticky && is_preferred s isticky best (s_now s <? st0 + lim0)
                       then isticky else best in
          if iref_eqb best' isticky
          then next_candidates f s best' (Some krest) limrest (tl sticky) (S retained)
          else next_candidates f s best' None limits sticky retained
        | _, _ => next_candidates f s best lastkeys limits sticky retained
        end) (minimal (qchildren_less s) qc)
    end
  end.

Definition hinted_task (s : state) (w : wref) : option nat :=
  match find (fun '(o, w') => wref_eqb w w' && Nat.ltb o 4000) (s_hints s) with
  | Some (o, _) => if op_alive s o then Some (o_task (get_op s o)) else None
  | None => None
  end.

(* Two invocations of one task can both be admissible paths to it and differ
   in the number of stickiness levels retained (which only decides which
   stickiness start times are reset): a hint pair whose operation component
   is 4000 + r tells which r the implementation retained. *)
Definition hinted_retained (s : state) (w : wref) : option nat :=
  match find (fun '(o, w') => wref_eqb w w' && Nat.leb 4000 o) (s_hints s) with
  | Some (o, _) => Some (o - 4000)%nat
  | None => None
  end.

Definition pick_next (s : state) (w : wref) (cands : list (nat * nat)) : option (nat * nat) :=
  match hinted_task s w with
  | Some t =>
    let same := filter (fun '(t', _) => Nat.eqb t t') cands in
    let preferred := match hinted_retained s w with
                     | Some r => find (fun '(_, r') => Nat.eqb r r') same
                     | None => None
                     end in
    match preferred, same with
    | Some c, _ => Some c
    | None, c :: _ => Some c
    | None, [] => hd_error cands
    end
  | None => hd_error cands
  end.

Definition limits_of (s : state) (k : skey) : list Z :=
  match get_pq s (sk_pk k) with Some p => p_limits p | None => [] end.

Definition assign_next_queued_task (w : wref) (s : state) : state * bool :=
  let k := get_worker s w in
  let root := mkI (w_sk w) [] in
  let cands := next_candidates (S (List.length (s_invs s))) s root (k_last k)
                 (limits_of s (w_sk w)) (k_sticky k) 0 in
  match pick_next s w cands with
  | Some (t, retained) => (assign_queued w t retained s, true)
  | None => (s, false)
  end.

(* -- task.schedule: admissible parked workers ---------------------------------- *)
Fixpoint descend_idle (fuel : nat) (s : state) (i : iref) : list wref :=
  match fuel with
  | O => []
  | S f =>
    match v_isync (get_inv s i) with
    | w :: _ => [w]
    | [] =>
      (* idleSynchronizingWorkersChildrenHeap.Less is not a strict weak order (it
         looks at the children's direct idle workers only), so a heap of these
         children may have no minimal element at all; heap[0] is then whatever
         the sift operations left there: every child is admissible *)
      let cs := idle_sync_children s i in
      flat_map (descend_idle f s) (match minimal (ichildren_less s) cs with [] => cs | m => m end)
    end
  end.

Fixpoint schedule_candidates (fuel : nat) (s : state) (invs : list iref) : list wref :=
  match fuel with
  | O => []
  | S f =>
    let hits := filter (has_idle_sync s) invs in
    match hits with
    | _ :: _ => flat_map (descend_idle (S (List.length (s_invs s))) s) hits
    | [] => if existsb is_root invs then [] else schedule_candidates f s (map parent_of invs)
    end
  end.

Definition pick_worker (s : state) (t : nat) (cands : list wref) : option wref :=
  let ops := task_opids s t in
  match find (fun '(o, w) => existsb (Nat.eqb o) ops && existsb (wref_eqb w) cands) (s_hints s) with
  | Some (_, w) => Some w
  | None => hd_error cands
  end.

Definition max_depth (l : list iref) : nat := fold_left (fun m i => Nat.max m (List.length (i_path i))) l 0%nat.

Definition schedule (t : nat) (s : state) : state :=
  let invs := task_invs s t in
  match pick_worker s t (schedule_candidates (S (max_depth invs)) s invs) with
  | Some w => assign_unqueued w t 0 (wake_up w s)
  | None => fold_left (fun s o => enqueue o s) (task_opids s t) s
  end.

(* ---- operations and tasks --------------------------------------------------- *)
Definition task_stage (x : task) : N :=
  match t_resp x, t_worker x with
  | Some _, _ => 4      (* COMPLETED *)
  | None, Some _ => 3   (* EXECUTING *)
  | None, None => 2     (* QUEUED *)
  end.

Definition new_operation (t : nat) (prio : Z) (i : iref) (mayexist : bool) (s : state) : state * nat :=
  let o := s_nops s in
  let s := s <| s_nops ::= S |> <| s_ops ::= fun l => l ++ [(o, mkOper t prio i 0 mayexist None)] |> in
  (upd_task t (fun x => x <| t_ops ::= fun l => l ++ [(i, o)] |>) s, o).

Definition maybe_start_cleanup (o : nat) (s : state) : state :=
  let x := get_op s o in
  if op_alive s o && Nat.eqb (o_waiters x) 0 && negb (o_mayexist x) then
    match o_cleanup x with
    | Some _ => panic "Cleanup key is already in use" s
    | None => upd_op o (fun x => x <| o_cleanup := Some (s_now s + cf_nowaiters (s_cfg s)) |>) s
    end
  else s.

Definition task_scq (s : state) (t : nat) : skey :=
  match t_ops (get_task s t) with
  | (i, _) :: _ => i_sk i
  | [] => mkSK (mkPK [] 0) 0
  end.

Definition largest_sc (p : pq) : N := last (p_scs p) 0%N.

(* lowest common ancestor of the invocations of a task (one size class queue) *)
Fixpoint common_prefix (a b : path) : path :=
  match a, b with
  | x :: a', y :: b' => if (x =? y)%N then x :: common_prefix a' b' else []
  | _, _ => []
  end.
Definition lowest_common (l : list iref) : path :=
  match l with
  | [] => []
  | i :: tl => fold_left (fun p j => common_prefix p (i_path j)) tl (i_path i)
  end.

Definition complete_task (t : nat) (r : resp) (by_worker : bool) (s : state) : state :=
  let x := get_task s t in
  let k := task_scq s t in
  match t_resp x with
  | Some _ => s
  | None =>
    let s := match t_worker x with
             | None => assign_queued (phantom_worker k) t 0 s
             | Some w => if by_worker then set_last_invocation w (lowest_common (task_invs s t)) s
                         else set_last_invocation w [] s
             end in
    let w := match t_worker (get_task s t) with Some w => w | None => phantom_worker k end in
    let s := fold_left (fun s i => decrement_executing i w s) (task_invs s t) s in
    let s := upd_worker w (fun k => k <| k_task := None |>) s in
    let s := upd_task t (fun x => x <| t_worker := None |>) s in
    match get_pq s (sk_pk k) with
    | None => panic "complete: platform queue missing" s
    | Some p =>
      (* learner protocol; returns the learner to continue with (retry) *)
      let '(s, retry) :=
        match t_learner x with
        | None => (panic "complete: task without learner" s, None)
        | Some l =>
          if resp_success r then
            let s := emit (OGhost (GSucceeded (l_id l))) s in
            let s := upd_task t (fun x => x <| t_learner := None |>) s in
            match l_succ l with
            | None => (s, None)
            | Some (bidx, bdur, btimeout, bl) =>
              if Nat.eqb (p_maxbg p) 0 then (emit (OGhost (GAbandoned (l_id bl))) s, None)
              else
                let bk := mkSK (sk_pk k) (nth bidx (p_scs p) 0%N) in
                let bpath := [4294967295%N] in   (* invocation.BackgroundLearningKeys *)
                let s := get_or_create_invocation bk bpath s in
                let bi := mkI bk bpath in
                if Nat.leb (p_maxbg p) (List.length (v_qops (get_inv s bi)))
                then (emit (OGhost (GAbandoned (l_id bl))) s, None)
                else
                  let bt := s_ntasks s in
                  let s := s <| s_ntasks ::= S |>
                             <| s_tasks ::= fun l => l ++ [(bt, mkTask [] (t_instance x) (t_digest x) (Some true) btimeout (t_qts x)
                                                               (t_suffix x) None 0 bdur (Some bl) None 0)] |> in
                  let '(s, _) := new_operation bt (p_bgprio p) bi true s in
                  (schedule bt s, None)
            end
          else if by_worker then
            let s := emit (OGhost (GFailed (l_id l) (r_code r =? cDEADLINE)%N)) s in
            match l_fail l with
            | None => (upd_task t (fun x => x <| t_learner := None |>) s, None)
            | Some (d, tm, nl) => (upd_task t (fun x => x <| t_learner := Some nl |>) s, Some (d, tm))
            end
          else (upd_task t (fun x => x <| t_learner := None |>) (emit (OGhost (GAbandoned (l_id l))) s), None)
        end in
      match retry with
      | Some (d, tm) =>
        let lk := mkSK (sk_pk k) (largest_sc p) in
        let old := t_ops (get_task s t) in
        let s := fold_left (fun s '(i, _) => get_or_create_invocation lk (i_path i) s) old s in
        let s := upd_task t (fun x => x <| t_expdur := d |> <| t_timeout := tm |>
                                         <| t_ops := map (fun '(i, o) => (mkI lk (i_path i), o)) old |>) s in
        let s := fold_left (fun s '(i, o) => upd_op o (fun y => y <| o_inv := mkI lk (i_path i) |>) s) old s in
        report_non_final_stage_change t (schedule t s)
      | None =>
        let s := match aget dkey_eqb (t_instance x, t_digest x) (s_inflight s) with
                 | Some t' => if Nat.eqb t t' then s <| s_inflight ::= adel dkey_eqb (t_instance x, t_digest x) |> else s
                 | None => s
                 end in
        let s := upd_task t (fun x => x <| t_resp := Some r |> <| t_dnc := None |>) s in
        fold_left (fun s o =>
          if o_mayexist (get_op s o)
          then maybe_start_cleanup o (upd_op o (fun y => y <| o_mayexist := false |>) s)
          else s) (task_opids s t) s
      end
    end
  end.

(* operation.remove (cleanup callback of an operation without waiters) *)
Definition operation_remove (o : nat) (s : state) : state :=
  let x := get_op s o in
  let t := o_task x in
  (* Go deletes the name-map entry first; the record itself stays usable by
     the code below, so the model drops it from [s_ops] at the end. *)
  let s :=
    if Nat.eqb (List.length (t_ops (get_task s t))) 1 then
      complete_task t (mkResp cCANCELLED 0 0) false s
    else
      match task_stage (get_task s t) with
      | 2%N =>
        let i := o_inv x in
        let s := remove_queued_from_invocation o s in
        fst (fold_left (fun (acc : state * bool) j =>
                         let '(s, go) := acc in if go then remove_if_empty j s else (s, false))
                       (chain i) (s, true))
      | 3%N =>
        match t_worker (get_task s t) with
        | Some w => decrement_executing (o_inv x) w s
        | None => s
        end
      | _ => s
      end in
  let s := s <| s_ops := adel Nat.eqb o (s_ops s) |> in
  upd_task t (fun y => y <| t_ops := filter (fun '(_, o') => negb (Nat.eqb o o')) (t_ops y) |>) s.

(* invocation.cancelAllQueuedOperations: completes every queued task below i *)
Definition cancel_all_queued (i : iref) (r : resp) (s : state) : state :=
  let fuel := List.length (s_ops s) in
  (fix go (n : nat) (s : state) : state :=
     match n with
     | O => s
     | S m =>
       match find (fun '(d, v) => descendant_or_self i d && negb (Nat.eqb (List.length (v_qops v)) 0)) (s_invs s) with
       | Some (_, v) =>
         match v_qops v with
         | o :: _ => go m (complete_task (o_task (get_op s o)) r false s)
         | [] => s
         end
       | None => s
       end
     end) (S fuel) s.

(* sizeClassQueue.remove *)
Definition scq_remove (k : skey) (s : state) : state :=
  let s := cancel_all_queued (mkI k []) (mkResp cUNAVAILABLE 0 0) s in
  let s := s <| s_scqs := adel skey_eqb k (s_scqs s) |>
             <| s_invs := filter (fun '(i, _) => negb (skey_eqb (i_sk i) k)) (s_invs s) |> in
  let s := upd_pq (sk_pk k) (fun p => p <| p_scs := filter (fun c => negb (c =? sk_sc k)%N) (p_scs p) |>) s in
  s <| s_pqs := filter (fun p => negb (Nat.eqb (List.length (p_scs p)) 0)) (s_pqs s) |>.

Definition mark_terminating (w : wref) (s : state) : state :=
  upd_worker w (fun k => k <| k_term := true |>) s.

(* sizeClassQueue.removeStaleWorker *)
Definition remove_stale_worker (w : wref) (removal : Z) (s : state) : state :=
  let s := mark_terminating w s in
  let s := match k_task (get_worker s w) with
           | None => s
           | Some t => complete_task t (mkResp cUNAVAILABLE 0 0) false s
           end in
  let s := clear_last_invocation w s in
  let s := upd_scq (w_sk w) (fun q => q <| q_workers ::= adel wref_eqb w |>) s in
  let q := get_scq s (w_sk w) in
  if Nat.eqb (List.length (q_workers q)) 0 && q_removable q
  then upd_scq (w_sk w) (fun q => q <| q_cleanup := Some (removal + cf_pq_noworkers (s_cfg s)) |>) s
  else s.

(* ---- cleanup queue ----------------------------------------------------------- *)
Inductive centry := CE_op (o : nat) | CE_worker (w : wref) | CE_scq (k : skey).

Definition cleanup_entries (s : state) : list (Z * centry) :=
  flat_map (fun '(o, x) => match o_cleanup x with Some t => [(t, CE_op o)] | None => [] end) (s_ops s)
  ++ flat_map (fun '(_, q) => flat_map (fun '(w, k) => match k_cleanup k with Some t => [(t, CE_worker w)] | None => [] end)
                                       (q_workers q)) (s_scqs s)
  ++ flat_map (fun '(k, q) => match q_cleanup q with Some t => [(t, CE_scq k)] | None => [] end) (s_scqs s).

Definition earliest (l : list (Z * centry)) : option (Z * centry) :=
  fold_left (fun acc e => match acc with
                          | None => Some e
                          | Some a => if fst e <? fst a then Some e else acc
                          end) l None.

Definition run_entry (e : Z * centry) (s : state) : state :=
  match snd e with
  | CE_op o => operation_remove o (upd_op o (fun x => x <| o_cleanup := None |>) s)
  | CE_worker w => remove_stale_worker w (fst e) (upd_worker w (fun k => k <| k_cleanup := None |>) s)
  | CE_scq k => scq_remove k (upd_scq k (fun q => q <| q_cleanup := None |>) s)
  end.

Fixpoint cleanup_run (fuel : nat) (s : state) : state :=
  match fuel with
  | O => panic "cleanup: out of fuel" s
  | S f =>
    match earliest (cleanup_entries s) with
    | Some e => if fst e <=? s_now s then cleanup_run f (run_entry e s) else s
    | None => s
    end
  end.

Definition enter (t : Z) (s : state) : state :=
  if s_now s <? t
  then let s := s <| s_now := t |> in
       cleanup_run (S (List.length (s_ops s) + List.length (s_scqs s) + List.length (flat_map (fun '(_, q) => q_workers q) (s_scqs s)))) s
  else s.
