(* C02 stages_monotone: the stages a stream reports only go backwards from
   EXECUTING to QUEUED (the retry on the largest size class). *)
From Coq Require Import Lia.
From VF Require Export Sched.ProofsFaithful.
Open Scope Z_scope.

Lemma task_stage_range : forall x, task_stage x = 2%N \/ task_stage x = 3%N \/ task_stage x = 4%N.
Proof. intros x. unfold task_stage. destruct (t_resp x); [auto|]. destruct (t_worker x); auto. Qed.

Lemma run_msg_stage : forall evs s c n st d,
  In (OMsg c n st d) (List.concat (snd (run s evs))) -> st = 2%N \/ st = 3%N \/ st = 4%N.
Proof.
  induction evs as [|eh evs IH]; intros s c n st d Hin; [destruct Hin|].
  cbn [run] in Hin. destruct (step s eh) as [s1 o] eqn:Es. destruct (run s1 evs) as [s2 os] eqn:Er.
  cbn [snd List.concat] in Hin. apply in_app_or in Hin. destruct Hin as [Hin|Hin].
  - assert (Ho : o = snd (step s eh)) by (rewrite Es; reflexivity). subst o.
    destruct (step_done_faithful s eh c n st d Hin) as [_ Hst]. rewrite Hst. apply task_stage_range.
  - apply (IH s1 c n st d). rewrite Er. exact Hin.
Qed.

Lemma ctag_in : forall c l o, In o (ctag c l) -> In o l.
Proof. intros c l o H. unfold ctag in H. apply filter_In in H. tauto. Qed.

Lemma stages_monotone_all : forall cfg t0 evs c,
  fresh_calls [] evs ->
  forall pre n1 s1 d1 n2 s2 d2 post,
    call_trace c (snd (run (init cfg t0) evs)) = pre ++ OMsg c n1 s1 d1 :: OMsg c n2 s2 d2 :: post ->
    (s2 < s1)%N -> s1 = 3%N /\ s2 = 2%N.
Proof.
  intros cfg t0 evs c Hf pre n1 s1 d1 n2 s2 d2 post Heq Hlt.
  (* the first of the two is not the done message: something other than a return follows it *)
  assert (Hnf : ~ final c (OMsg c n1 s1 d1)).
  { intro Hfin. destruct (stream_done_once_all cfg t0 evs c Hf pre _ _ Heq Hfin) as [_ [Hp|[code Hp]]]; discriminate. }
  assert (Hr1 : s1 = 2%N \/ s1 = 3%N \/ s1 = 4%N).
  { apply (run_msg_stage evs (init cfg t0) c n1 s1 d1). apply (ctag_in c). unfold call_trace in Heq. rewrite Heq.
    apply in_or_app. right. left. reflexivity. }
  assert (Hr2 : s2 = 2%N \/ s2 = 3%N \/ s2 = 4%N).
  { apply (run_msg_stage evs (init cfg t0) c n2 s2 d2). apply (ctag_in c). unfold call_trace in Heq. rewrite Heq.
    apply in_or_app. right. right. left. reflexivity. }
  (* a message with stage COMPLETED is the done message *)
  assert (H14 : s1 <> 4%N).
  { intro H4. subst s1.
    destruct (call_trace_shape cfg t0 evs c Hf) as [msgs [suf [Htr [Hm He]]]]. rewrite Heq in Htr.
    assert (Hnn : ~ nonfinal c (OMsg c n1 4 d1)) by (intros [n [st [Ho Hst]]]; inversion Ho; congruence).
    symmetry in Htr. destruct (split_after_prefix _ msgs suf pre _ _ Hm Hnn Htr) as [suf1 [_ Hs]].
    destruct He as [->|[[d' [-> Hd']]|[[_ [o' [-> Ho']]]|[[_ [code [-> Hc]]]|[_ [d' [code [-> Hd']]]]]]]].
    - destruct suf1; discriminate.
    - destruct suf1 as [|a [|b suf1]]; inversion Hs.
    - destruct suf1 as [|a [|b suf1]]; inversion Hs.
    - destruct suf1 as [|a [|b suf1]]; inversion Hs.
    - destruct suf1 as [|a [|b [|b' suf1]]]; inversion Hs. }
  destruct Hr1 as [-> | [-> | -> ]]; [|split; [reflexivity|]|congruence].
  - destruct Hr2 as [-> | [-> | -> ]]; lia.
  - destruct Hr2 as [-> | [-> | -> ]]; [reflexivity|lia|lia].
Qed.
