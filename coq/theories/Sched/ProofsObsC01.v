(* C01: the state predicate Spec.c01_dump on observed model states, from model-level facts. *)
From Coq Require Import Lia.
From VF Require Export Sched.ProofsObsLink.
From VF Require Import Sched.Spec.
From VF Require Import Sched.ProofsC01.
Open Scope Z_scope.

Lemma map_flat_map' {A B C} (g : B -> C) (f : A -> list B) l : map g (flat_map f l) = flat_map (fun x => map g (f x)) l.
Proof. induction l as [|x l IH]; cbn; [reflexivity|]. rewrite map_app, IH. reflexivity. Qed.

Lemma NoDup_flat_map' {A B} (f : A -> list B) l :
  NoDup l -> (forall x, In x l -> NoDup (f x)) ->
  (forall x y b, In x l -> In y l -> In b (f x) -> In b (f y) -> x = y) -> NoDup (flat_map f l).
Proof.
  induction l as [|x l IH]; intros Hnd Hf Hdis; cbn; [constructor|].
  inversion Hnd as [|? ? Hni Hnd']; subst.
  assert (Hl : NoDup (flat_map f l)).
  { apply IH; [exact Hnd'|intros y Hy; apply Hf; right; exact Hy|]. intros a b c Ha Hb. apply Hdis; right; assumption. }
  assert (Hx : NoDup (f x)) by (apply Hf; left; reflexivity).
  revert Hx. generalize (fun b Hb y Hy Hb' => Hdis x y b (or_introl eq_refl) (or_intror Hy) Hb Hb'). intro Hd.
  induction (f x) as [|b fb IHb]; intro Hx; cbn; [exact Hl|].
  inversion Hx as [|? ? Hnb Hx']; subst. constructor.
  - intro Hin. apply in_app_or in Hin. destruct Hin as [Hin|Hin]; [contradiction|].
    apply in_flat_map in Hin. destruct Hin as [y [Hy Hby]]. specialize (Hd b (or_introl eq_refl) y Hy Hby). subst y. contradiction.
  - apply IHb; [|exact Hx']. intros b' Hb' y Hy Hb''. apply (Hd b' (or_intror Hb') y Hy Hb'').
Qed.

Lemma nodup_nat_true : forall l, NoDup l -> nodup_nat l = true.
Proof.
  induction l as [|x l IH]; intro H; cbn; [reflexivity|]. inversion H as [|? ? Hni Hnd]; subst.
  rewrite IH by exact Hnd. rewrite andb_true_r. apply negb_true_iff. destruct (existsb (Nat.eqb x) l) eqn:E; [|reflexivity].
  apply existsb_exists in E. destruct E as [y [Hy E]]. apply Nat.eqb_eq in E. subst. contradiction.
Qed.

Lemma NoDup_of_keys {K V} (l : list (K * V)) : NoDup (map fst l) -> NoDup l.
Proof. apply NoDup_map_inv. Qed.

Lemma NoDup_keys_inj {A K} (key : A -> K) (l : list A) x y : NoDup (map key l) -> In x l -> In y l -> key x = key y -> x = y.
Proof.
  induction l as [|a l IH]; intros Hnd Hx Hy E; [destruct Hx|]. cbn in Hnd. inversion Hnd as [|? ? Hni Hnd']; subst.
  destruct Hx as [->|Hx], Hy as [->|Hy]; [reflexivity| | |apply IH; assumption].
  - exfalso. apply Hni. rewrite E. apply in_map. exact Hy.
  - exfalso. apply Hni. rewrite <- E. apply in_map. exact Hx.
Qed.

Record C01F (s : state) : Prop := mkC01F {
  F_ops : NoDup (map fst (s_ops s));
  F_invs : NoDup (map fst (s_invs s));
  F_scqs : NoDup (map fst (s_scqs s));
  F_wk : forall k q, In (k, q) (s_scqs s) -> NoDup (map fst (q_workers q)) /\ forall w, In w (map fst (q_workers q)) -> w_sk w = k;
  F_pq : forall k, scq_exists s k = true -> exists p, In p (s_pqs s) /\ p_key p = sk_pk k /\ In (sk_sc k) (p_scs p);
  F_pqs : NoDup (map p_key (s_pqs s));
  F_scs : forall p, In p (s_pqs s) -> NoDup (p_scs p);
  FA : forall t w, t_worker (get_task s t) = Some w ->
         is_phantom w = false /\ worker_exists s w = true /\ k_task (get_worker s w) = Some t /\ t_resp (get_task s t) = None;
  FB : forall w t, worker_exists s w = true -> k_task (get_worker s w) = Some t -> t_worker (get_task s t) = Some w;
  FQ : forall i o, In o (v_qops (get_inv s i)) -> op_alive s o = true /\ o_inv (get_op s o) = i;
  FQn : forall i, NoDup (v_qops (get_inv s i));
  FL : forall o, op_alive s o = true -> queued s o -> idle_live s (tsk s o);
  FLc : forall o, op_alive s o = true -> idle_live s (tsk s o) -> queued s o;
  FO1 : forall o, op_alive s o = true -> In (o_inv (get_op s o), o) (t_ops (get_task s (tsk s o)));
  FO2 : forall t i o, In (i, o) (t_ops (get_task s t)) -> op_alive s o = true /\ tsk s o = t /\ o_inv (get_op s o) = i;
  FK1 : forall t i o i' o', In (i, o) (t_ops (get_task s t)) -> In (i', o') (t_ops (get_task s t)) -> i_sk i = i_sk i';
  FK2 : forall t w i o, t_worker (get_task s t) = Some w -> In (i, o) (t_ops (get_task s t)) -> i_sk i = w_sk w;
  FMN : forall t w, t_worker (get_task s t) = Some w -> t_ops (get_task s t) <> [];
  F_inv_scq : forall i, inv_exists s i = true -> scq_exists s (i_sk i) = true }.

Section Assembly.
  Variable s : state.
  Hypothesis F : C01F s.

  Lemma op_entry : forall o x, In (o, x) (s_ops s) -> aget Nat.eqb o (s_ops s) = Some x /\ op_alive s o = true /\ get_op s o = x.
  Proof.
    intros o x Hin. pose proof (In_aget_NoDup Nat.eqb nat_eqb_eq _ _ _ (F_ops s F) Hin) as E.
    split; [exact E|]. unfold op_alive, get_op. rewrite E. auto.
  Qed.

  Lemma worker_scq_exists : forall w, worker_exists s w = true -> scq_exists s (w_sk w) = true.
  Proof.
    intros w H. unfold worker_exists, scq_exists, get_scq in *. destruct (aget skey_eqb (w_sk w) (s_scqs s)); [reflexivity|discriminate].
  Qed.

  Lemma scq_workers_sk : forall k w, In w (map fst (q_workers (get_scq s k))) -> w_sk w = k.
  Proof.
    intros k w H. unfold get_scq in H. destruct (aget skey_eqb k (s_scqs s)) as [q|] eqn:E; [|destruct H].
    apply (aget_In skey_eqb skey_eqb_eq) in E. apply (proj2 (F_wk s F _ _ E)). exact H.
  Qed.

  Lemma is_queued_op_iff : forall o, is_queued_op s o = true <-> queued s o.
  Proof.
    intro o. unfold is_queued_op, queued. rewrite existsb_exists. split.
    - intros [y [Hy E]]. apply Nat.eqb_eq in E. subst. exact Hy.
    - intros H. exists o. split; [exact H|apply Nat.eqb_refl].
  Qed.

  Lemma find_dworker_of : forall w, worker_exists s w = true ->
    find_dworker (observe s) (w_sk w) (wid w) = Some (observe_worker s w (get_worker s w)).
  Proof.
    intros w He. destruct (F_pq s F _ (worker_scq_exists w He)) as [p [Hp [Hk Hc]]].
    rewrite (find_dworker_observe s w p Hp Hk Hc (scq_workers_sk (w_sk w))), He. reflexivity.
  Qed.

  Lemma c01_op_ok : forall o x, In (o, x) (s_ops s) -> c01_op (observe s) (observe_op s o x) = ""%string.
  Proof.
    intros o x Hin. destruct (op_entry o x Hin) as [Ea [Hal Eg]].
    unfold c01_op, observe_op. cbn [do_resp do_queued do_worker do_sk do_taskops do_path do_name].
    pose proof (FO1 s F o Hal) as Hlisted. unfold tsk in Hlisted. rewrite Eg in Hlisted.
    destruct (t_resp (get_task s (o_task x))) as [r|] eqn:Er.
    - destruct (t_worker (get_task s (o_task x))) as [w|] eqn:Ew; [|reflexivity].
      destruct (FA s F _ _ Ew) as [_ [_ [_ E]]]. congruence.
    - destruct (t_worker (get_task s (o_task x))) as [w|] eqn:Ew.
      + destruct (is_queued_op s o) eqn:Eq.
        { apply is_queued_op_iff in Eq. destruct (FL s F o Hal Eq) as [E _]. unfold tsk in E. rewrite Eg in E. congruence. }
        destruct (FA s F _ _ Ew) as [_ [He [Hk _]]].
        rewrite (FK2 s F _ _ _ _ Ew Hlisted). rewrite (find_dworker_of w He). unfold observe_worker. cbn [dw_task]. rewrite Hk.
        unfold task_opids. rewrite same_set_refl. reflexivity.
      + assert (Hq : queued s o) by (apply (FLc s F o Hal); unfold idle_live, tsk; rewrite Eg; auto).
        rewrite (proj2 (is_queued_op_iff o) Hq). cbn [negb].
        unfold queued in Hq. rewrite Eg in Hq.
        assert (Hie : inv_exists s (o_inv x) = true).
        { unfold inv_exists, get_inv in *. destruct (aget iref_eqb (o_inv x) (s_invs s)); [reflexivity|destruct Hq]. }
        destruct (F_pq s F _ (F_inv_scq s F _ Hie)) as [p [Hp [Hk Hc]]].
        rewrite (find_scq_observe s (i_sk (o_inv x)) p Hp Hk Hc). rewrite find_dinv_observe, iref_eta.
        unfold get_inv in Hq. destruct (aget iref_eqb (o_inv x) (s_invs s)) as [v|]; [|destruct Hq].
        cbn [di_qops observe_inv]. assert (E : existsb (Nat.eqb o) (v_qops v) = true) by (apply existsb_exists; exists o; split; [exact Hq|apply Nat.eqb_refl]).
        rewrite E. reflexivity.
  Qed.

  Lemma nn_eqb_refl : forall a, nn_eqb a a = true.
  Proof. intros [a b]. unfold nn_eqb. cbn. rewrite !N.eqb_refl. reflexivity. Qed.

  Lemma c01_tasks_uniform_ok : c01_tasks_uniform (observe s) = ""%string.
  Proof.
    unfold c01_tasks_uniform. apply first_nonempty_all_empty. intros y Hy. apply in_map_iff in Hy. destruct Hy as [a [Ey Ha]]. subst y.
    match goal with |- (if ?b then _ else _) = _ => assert (Hb : b = true); [|rewrite Hb; reflexivity] end.
    apply forallb_forall. intros b Hb.
    unfold observe in Ha, Hb. cbn [d_ops] in Ha, Hb. apply in_map_iff in Ha. destruct Ha as [[oa xa] [Ea Ha]]. apply in_map_iff in Hb. destruct Hb as [[ob xb] [Eb Hb]].
    subst a b. destruct (op_entry oa xa Ha) as [_ [Hala Ega]]. destruct (op_entry ob xb Hb) as [_ [Halb Egb]].
    unfold observe_op at 1 2. cbn [do_name do_taskops].
    destruct (existsb (Nat.eqb ob) (map snd (t_ops (get_task s (o_task xa))))) eqn:Ex; [|reflexivity]. cbn [negb orb].
    apply existsb_exists in Ex. destruct Ex as [o' [Hin E]]. apply Nat.eqb_eq in E. subst o'.
    apply in_map_iff in Hin. destruct Hin as [[i o'] [E Hin]]. cbn in E. subst o'.
    destruct (FO2 s F _ _ _ Hin) as [_ [Ht Hi]]. unfold tsk in Ht. rewrite Egb in Ht, Hi.
    pose proof (FO1 s F oa Hala) as Hla. unfold tsk in Hla. rewrite Ega in Hla.
    unfold same_task, observe_op. cbn [do_worker do_stage do_sk do_taskops]. rewrite Ht.
    rewrite same_set_refl, N.eqb_refl, andb_true_r.
    rewrite (FK1 s F _ _ _ _ _ Hla Hin), Hi, (proj2 (skey_eqb_eq _ _) eq_refl), andb_true_r.
    destruct (t_worker (get_task s (o_task xa))); cbn; [rewrite nn_eqb_refl; reflexivity|reflexivity].
  Qed.

  Lemma worker_entry : forall k w kw, In (w, kw) (q_workers (get_scq s k)) ->
    w_sk w = k /\ worker_exists s w = true /\ get_worker s w = kw.
  Proof.
    intros k w kw Hin. assert (Hk : w_sk w = k) by (apply scq_workers_sk; apply (in_map fst) in Hin; exact Hin).
    split; [exact Hk|]. subst k. unfold get_scq in Hin. destruct (aget skey_eqb (w_sk w) (s_scqs s)) as [q|] eqn:E; [|destruct Hin].
    pose proof (aget_In skey_eqb skey_eqb_eq _ _ _ E) as Hq. destruct (F_wk s F _ _ Hq) as [Hnd _].
    pose proof (In_aget_NoDup wref_eqb wref_eqb_eq _ _ _ Hnd Hin) as Ew.
    unfold worker_exists, get_worker, get_scq. rewrite E, Ew. auto.
  Qed.

  Lemma c01_workers_ok : c01_workers (observe s) = ""%string.
  Proof.
    unfold c01_workers. apply first_nonempty_all_empty. intros y Hy. apply in_map_iff in Hy. destruct Hy as [[pk q] [Ey Hq]]. subst y.
    destruct (in_all_scqs_observe s pk q Hq) as [p [c [Hp [Hc [Epk Eq]]]]]. subst pk q.
    apply first_nonempty_all_empty. intros y Hy. apply in_map_iff in Hy. destruct Hy as [dw [Ey Hdw]]. subst y.
    unfold observe_scq in Hdw. cbn [ds_workers] in Hdw. apply in_map_iff in Hdw. destruct Hdw as [[w kw] [Edw Hw]]. subst dw.
    destruct (worker_entry _ _ _ Hw) as [Hsk [He Eg]].
    unfold observe_worker. cbn [dw_task dw_id]. destruct (k_task kw) as [t|] eqn:Ek; [|reflexivity].
    rewrite <- Eg in Ek. pose proof (FB s F w t He Ek) as Hwt. destruct (FA s F _ _ Hwt) as [_ [_ [_ Hr]]].
    match goal with |- (if ?b then _ else _) = _ => assert (Hb : b = true); [|rewrite Hb; reflexivity] end.
    apply andb_true_iff. split.
    - apply forallb_forall. intros o Ho. unfold task_opids in Ho. apply in_map_iff in Ho. destruct Ho as [[i o'] [E Hin]]. cbn in E. subst o'.
      destruct (FO2 s F _ _ _ Hin) as [Hal [Ht Hi]].
      assert (Ea : exists x, aget Nat.eqb o (s_ops s) = Some x /\ get_op s o = x).
      { unfold op_alive, get_op in *. destruct (aget Nat.eqb o (s_ops s)) as [x|]; [exists x; auto|discriminate]. }
      destruct Ea as [x [Ea Eg']]. rewrite (find_dop_observe s o x Ea). unfold tsk in Ht. rewrite Eg' in Ht, Hi.
      unfold observe_op. cbn [do_worker do_sk do_resp ds_sc observe_scq sk_sc]. rewrite Ht, Hwt, Hr, Hi. cbn [opt_eqb].
      rewrite nn_eqb_refl. rewrite (FK2 s F _ _ _ _ Hwt Hin), Hsk, (proj2 (skey_eqb_eq _ _) eq_refl). reflexivity.
    - pose proof (FMN s F _ _ Hwt) as Hne. unfold task_opids. destruct (t_ops (get_task s t)); [congruence|reflexivity].
  Qed.

  Lemma inv_entry : forall i v, In (i, v) (s_invs s) -> get_inv s i = v.
  Proof. intros i v H. unfold get_inv. rewrite (In_aget_NoDup iref_eqb iref_eqb_eq _ _ _ (F_invs s F) H). reflexivity. Qed.

  (* the operations listed in the queues of the invocations of size class queue k *)
  Definition qops_of_scq (k : skey) : list nat :=
    flat_map (fun iv : iref * inv => if skey_eqb (i_sk (fst iv)) k then v_qops (snd iv) else []) (s_invs s).

  Lemma in_qops_of_scq : forall k o, In o (qops_of_scq k) -> exists i, i_sk i = k /\ In o (v_qops (get_inv s i)).
  Proof.
    intros k o H. unfold qops_of_scq in H. apply in_flat_map in H. destruct H as [[i v] [Hiv H]]. cbn in H.
    destruct (skey_eqb (i_sk i) k) eqn:E; [|destruct H]. apply skey_eqb_eq in E. exists i. split; [exact E|]. rewrite (inv_entry i v Hiv). exact H.
  Qed.

  Lemma qops_of_scq_nodup : forall k, NoDup (qops_of_scq k).
  Proof.
    intro k. unfold qops_of_scq. apply NoDup_flat_map'.
    - apply NoDup_of_keys. exact (F_invs s F).
    - intros [i v] Hiv. cbn. destruct (skey_eqb (i_sk i) k); [|constructor]. rewrite <- (inv_entry i v Hiv). apply (FQn s F).
    - intros [i v] [i' v'] o Hiv Hiv' Ho Ho'. cbn in Ho, Ho'.
      destruct (skey_eqb (i_sk i) k); [|destruct Ho]. destruct (skey_eqb (i_sk i') k); [|destruct Ho'].
      rewrite <- (inv_entry i v Hiv) in Ho. rewrite <- (inv_entry i' v' Hiv') in Ho'.
      destruct (FQ s F _ _ Ho) as [_ E1]. destruct (FQ s F _ _ Ho') as [_ E2].
      apply (NoDup_keys_inj fst (s_invs s)); [exact (F_invs s F)|exact Hiv|exact Hiv'|cbn; congruence].
  Qed.

  Lemma queue_entries_snd :
    map snd (flat_map (fun '(pk, q) => flat_map (fun i => map (fun o => (mkSK pk (ds_sc q), di_path i, o)) (di_qops i)) (ds_invs q)) (all_scqs (observe s)))
    = flat_map (fun p => flat_map (fun c => qops_of_scq (mkSK (p_key p) c)) (p_scs p)) (s_pqs s).
  Proof.
    rewrite all_scqs_observe. rewrite map_flat_map'. induction (s_pqs s) as [|p l IH]; cbn [flat_map]; [reflexivity|].
    rewrite flat_map_app, IH. f_equal. clear IH.
    induction (p_scs p) as [|c cs IHc]; cbn [map flat_map]; [reflexivity|].
    rewrite IHc. f_equal. rewrite map_flat_map'. unfold observe_scq. cbn [ds_invs ds_sc sk_sc]. unfold qops_of_scq.
    induction (s_invs s) as [|[i v] li IHi]; cbn [flat_map]; [reflexivity|]. rewrite flat_map_app. cbn [fst snd]. rewrite IHi. f_equal.
    destruct (skey_eqb (i_sk i) (mkSK (p_key p) c)); cbn; [|reflexivity]. rewrite app_nil_r, map_map. cbn. apply map_id.
  Qed.

  Lemma c01_queues_ok : c01_queues (observe s) = ""%string.
  Proof.
    unfold c01_queues. cbv zeta.
    match goal with |- (if negb (forallb ?g ?l) then _ else _) = _ => assert (H1 : forallb g l = true) end.
    { apply forallb_forall. intros [[k pth] o] Hin. apply in_flat_map in Hin. destruct Hin as [[pk q] [Hq Hin]].
      destruct (in_all_scqs_observe s pk q Hq) as [p [c [Hp [Hc [Epk Eq]]]]]. subst pk q.
      apply in_flat_map in Hin. destruct Hin as [di [Hdi Hin]]. apply in_map_iff in Hin. destruct Hin as [o' [E Ho]]. inversion E; subst k pth o'. clear E.
      unfold observe_scq in Hdi. cbn [ds_invs] in Hdi. apply in_flat_map in Hdi. destruct Hdi as [[i v] [Hiv Hdi]].
      destruct (skey_eqb (i_sk i) (mkSK (p_key p) c)) eqn:Ek; [|destruct Hdi]. destruct Hdi as [<-|[]]. apply skey_eqb_eq in Ek.
      cbn [di_qops observe_inv] in Ho. rewrite <- (inv_entry i v Hiv) in Ho.
      destruct (FQ s F _ _ Ho) as [Hal Hi].
      assert (Ea : exists x, aget Nat.eqb o (s_ops s) = Some x /\ get_op s o = x).
      { unfold op_alive, get_op in *. destruct (aget Nat.eqb o (s_ops s)) as [x|]; [exists x; auto|discriminate]. }
      destruct Ea as [x [Ea Eg]]. rewrite (find_dop_observe s o x Ea).
      assert (Hq' : queued s o) by (unfold queued; rewrite Hi; exact Ho).
      destruct (FL s F o Hal Hq') as [_ Hr]. unfold tsk in Hr. rewrite Eg in Hr, Hi.
      unfold observe_op. cbn [do_queued do_sk do_path di_path observe_inv ds_sc sk_sc]. rewrite Hr, (proj2 (is_queued_op_iff o) Hq'), Hi, Ek.
      cbn [sk_sc]. rewrite (proj2 (skey_eqb_eq _ _) eq_refl). unfold path_eqb. rewrite (proj2 (list_eqb_N_eq _ _) eq_refl). reflexivity. }
    rewrite H1. cbn [negb].
    match goal with |- (if negb (nodup_nat ?l) then _ else _) = _ => assert (H2 : nodup_nat l = true); [|rewrite H2; reflexivity] end.
    apply nodup_nat_true. rewrite queue_entries_snd.
    assert (Hown : forall p c o, In o (qops_of_scq (mkSK (p_key p) c)) -> i_sk (o_inv (get_op s o)) = mkSK (p_key p) c).
    { intros p c o Ho. destruct (in_qops_of_scq _ _ Ho) as [i [Ei Hin]]. destruct (FQ s F _ _ Hin) as [_ E]. congruence. }
    apply NoDup_flat_map'.
    - apply (NoDup_map_inv p_key). exact (F_pqs s F).
    - intros p Hp. apply NoDup_flat_map'; [exact (F_scs s F p Hp)|intros c _; apply qops_of_scq_nodup|].
      intros c c' o _ _ Ho Ho'. pose proof (Hown p c o Ho) as E1. pose proof (Hown p c' o Ho') as E2. rewrite E1 in E2. inversion E2. reflexivity.
    - intros p p' o Hp Hp' Ho Ho'. apply in_flat_map in Ho. destruct Ho as [c [_ Ho]]. apply in_flat_map in Ho'. destruct Ho' as [c' [_ Ho']].
      pose proof (Hown p c o Ho) as E1. pose proof (Hown p' c' o Ho') as E2. rewrite E1 in E2. inversion E2.
      apply (NoDup_keys_inj p_key (s_pqs s)); [exact (F_pqs s F)|exact Hp|exact Hp'|assumption].
  Qed.

  Lemma first_nonempty_app_empty : forall l1 l2, (forall x, In x l1 -> x = ""%string) -> first_nonempty (l1 ++ l2) = first_nonempty l2.
  Proof.
    induction l1 as [|x l1 IH]; intros l2 H; cbn; [reflexivity|]. rewrite (H x (or_introl eq_refl)). apply IH. intros y Hy. apply H. right. exact Hy.
  Qed.

  (* sched_exclusive, on the observed state *)
  Lemma c01_dump_ok : c01_dump (observe s) = ""%string.
  Proof.
    unfold c01_dump. change (d_errors (observe s)) with 0%nat. cbn [Nat.modulo Nat.eqb negb]. 
    rewrite first_nonempty_app_empty.
    - cbn [first_nonempty]. rewrite c01_tasks_uniform_ok, c01_workers_ok, c01_queues_ok. reflexivity.
    - intros y Hy. apply in_map_iff in Hy. destruct Hy as [d [Ey Hd]]. subst y.
      unfold observe in Hd. cbn [d_ops] in Hd. apply in_map_iff in Hd. destruct Hd as [[o x] [Ed Hin]]. subst d. apply c01_op_ok. exact Hin.
  Qed.
End Assembly.
