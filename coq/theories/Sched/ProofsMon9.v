(* The monitor on the model's trace: e_stream.  Part 1: what one event of a stream call (Execute / WaitExecution)
   shows that call, and in which program point it leaves it. *)
From Coq Require Import Lia Permutation.
From VF Require Export Sched.ProofsMon8.
From VF Require Import Sched.Spec Sched.Corr Sched.ProofsObsLink Sched.ProofsObsC01 Sched.ProofsExec Sched.ProofsStreams Sched.ProofsWaiters.
Open Scope Z_scope.

Definition optask (s : state) (o : nat) : task := get_task s (o_task (get_op s o)).
Definition msg_pc (o : nat) (x : task) : pc := match t_resp x with Some _ => PStreamReturn o cOK | None => PStream o (t_gen x) end.

Definition ret_ok (p0 : option pc) (code : N) : Prop :=
  match p0 with
  | None | Some (PWaitRecheck _) => In code [cNOTFOUND; cUNAVAILABLE; cFAILEDPRE]
  | Some (PStreamCancelled _) => code = cCANCELLED
  | Some (PStreamReturn _ code') => code = code'
  | _ => False
  end.

Definition Qs (c : nat) (e : event) (p0 p : option pc) (l : list obs) (s : state) : Prop :=
  (l = [] /\ (p = p0 \/ (p0 = None /\ exists n, p = Some (PWaitRecheck n)) \/ (exists o g, p0 = Some (PStream o g) /\ p = Some (PStreamCancelled o) /\ e = ECancel c))) \/
  (exists o, l = [OMsg c o (task_stage (optask s o)) (t_resp (optask s o))] /\ stream_capable p0 /\ p = Some (msg_pc o (optask s o))) \/
  (exists code, l = [ORet c code] /\ p = Some PDone /\ ret_ok p0 code).

Definition PostS (c : nat) (e : event) (p0 : option pc) (s : state) : Prop := exists p l, At c p l s /\ Qs c e p0 p l s.

Lemma PS_stay : forall c e p0 s, At c p0 [] s -> PostS c e p0 s.
Proof. intros c e p0 s H. exists p0, []. split; [exact H|]. left. auto. Qed.

Lemma PS_ret : forall c e p0 code s, ret_ok p0 code -> At c p0 [] s -> PostS c e p0 (ret c code s).
Proof.
  intros c e p0 code s Hr H. exists (Some PDone), [ORet c code]. split; [eapply At_ret; exact H|]. right. right. exists code. auto.
Qed.

Lemma PS_stream_iter : forall c e p0 o s, stream_capable p0 -> At c p0 [] s -> PostS c e p0 (stream_iter c o s).
Proof.
  intros c e p0 o s Hcap H. unfold stream_iter. cbv zeta. fold (optask s o).
  set (x := optask s o). set (s1 := emit (OMsg c o (task_stage x) (t_resp x)) s).
  assert (H1 : At c p0 [OMsg c o (task_stage x) (t_resp x)] s1) by (apply At_emit_self; [apply tagged_self_msg|exact H]).
  assert (Ex : forall pc', optask (set_call c pc' s1) o = x) by (intro; reflexivity).
  exists (Some (msg_pc o x)), [OMsg c o (task_stage x) (t_resp x)]. unfold msg_pc.
  destruct (t_resp x) eqn:Er.
  - split; [eapply At_setcall; exact H1|]. right. left. exists o. rewrite Ex. unfold msg_pc. rewrite Er. auto.
  - split; [eapply At_setcall; exact H1|]. right. left. exists o. rewrite Ex. unfold msg_pc. rewrite Er. auto.
Qed.

Lemma PS_park_wait : forall c e n s, At c None [] s -> PostS c e None (set_call c (PWaitRecheck n) s).
Proof. intros c e n s H. exists (Some (PWaitRecheck n)), []. split; [eapply At_setcall; exact H|]. left. split; [reflexivity|]. right. left. eauto. Qed.

Lemma PS_cancel : forall c o g s, At c (Some (PStream o g)) [] s -> PostS c (ECancel c) (Some (PStream o g)) (set_call c (PStreamCancelled o) s).
Proof. intros c o g s H. exists (Some (PStreamCancelled o)), []. split; [eapply At_setcall; exact H|]. left. split; [reflexivity|]. right. right. eauto 6. Qed.

Lemma PS_stream_return : forall c e p0 o code s, ret_ok p0 code -> At c p0 [] s -> PostS c e p0 (stream_return c o code s).
Proof.
  intros c e p0 o code s Hr H. unfold stream_return. change (set_call c PDone (emit (ORet c code) ?x)) with (ret c code x).
  apply PS_ret; [exact Hr|]. at_go c p0.
Qed.

Lemma PS_wait_execution_begin : forall c e p0 o s, stream_capable p0 -> At c p0 [] s -> PostS c e p0 (wait_execution_begin c o s).
Proof. intros c e p0 o s Hcap H. unfold wait_execution_begin. apply PS_stream_iter; [exact Hcap|]. at_go c p0. Qed.

Ltac code3 := cbn [ret_ok]; try (match goal with |- In (if ?b then _ else _) _ => destruct b end); cbn; tauto.

Lemma PS_exec_start : forall c a t s, At c None [] s -> PostS c (EStartExecute c a t) None (exec_start c a s).
Proof.
  intros c a t s H. unfold exec_start, new_operation.
  assert (Hcap : stream_capable None) by (left; reflexivity).
  hoare ltac:(first [ (apply PS_wait_execution_begin; [exact Hcap|])
                    | (apply PS_ret; [code3|]) ]; at_go c (@None pc)).
Qed.

(* one critical section of a stream call *)
Lemma stream_step_spec : forall c p0 tr0 e s,
  ev_call e = c -> J c true p0 tr0 -> At c p0 [] s ->
  (is_start e = true -> p0 = None /\ stream_start e = true) ->
  PostS c e p0 (step_core e s).
Proof.
  intros c p0 tr0 e s Hc HJ H Hstart.
  destruct e; cbn [ev_call] in Hc; subst c0; cbn [is_start stream_start] in Hstart;
    try (destruct (Hstart eq_refl) as [-> Hk]; clear Hstart; try discriminate Hk); unfold step_core.
  - apply PS_exec_start. at_go c (@None pc).
  - hoare ltac:(first [ (apply PS_ret; [code3|]) | apply PS_park_wait ]; at_go c (@None pc)).
  - (* EEnter *)
    cbv zeta. rewrite (At_get_call _ _ _ _ H).
    destruct p0 as [p|]; [|cbn [at_gate negb]; apply PS_stay; exact H].
    destruct (negb (at_gate s p)); [apply PS_stay; exact H|].
    pose proof HJ as HJ'. cbn [J] in HJ'.
    destruct p; try (apply PS_stay; at_go c (Some PDone); fail); try (destruct HJ' as [HF _]; discriminate HF).
    + (* PWaitRecheck *)
      hoare ltac:(first [ (apply PS_wait_execution_begin; [right; left; eauto|]) | (apply PS_ret; [code3|]) ]; at_go c (Some (PWaitRecheck name))).
    + (* PStream *) apply PS_stream_iter; [right; right; eauto|]. at_go c (Some (PStream o gen)).
    + (* PStreamCancelled *) apply PS_stream_return; [reflexivity|]. at_go c (Some (PStreamCancelled o)).
    + (* PStreamReturn *) apply PS_stream_return; [reflexivity|]. at_go c (Some (PStreamReturn o code)).
  - (* ETimer *)
    cbv zeta. rewrite (At_get_call _ _ _ _ H).
    destruct p0 as [p|]; [|cbn [at_gate]; apply PS_stay; exact H].
    destruct (at_gate s p); [apply PS_stay; exact H|].
    pose proof HJ as HJ'. cbn [J] in HJ'.
    destruct p; try (apply PS_stay; exact H; fail); try (destruct HJ' as [HF _]; discriminate HF).
    apply PS_stream_iter; [right; right; eauto|]. at_go c (Some (PStream o gen)).
  - (* ECancel *)
    cbv zeta. rewrite (At_get_call _ _ _ _ H).
    destruct p0 as [p|]; [|cbn [at_gate]; apply PS_stay; exact H].
    destruct (at_gate s p); [apply PS_stay; exact H|].
    pose proof HJ as HJ'. cbn [J] in HJ'.
    destruct p; try (apply PS_stay; exact H; fail); try (destruct HJ' as [HF _]; discriminate HF).
    apply PS_cancel. exact H.
Qed.

(* ---- calls that return by themselves: not the streams ------------------------------------------------------------------------------------------------------ *)
Lemma At_ret_other : forall c p l s c' code, c' <> c -> At c p l s -> At c p l (ret c' code s).
Proof.
  intros c p l s c' code Hne [A B]. unfold ret, set_call, emit, At. cbn. rewrite (aget_aset_other Nat.eqb nat_eqb_eq) by auto. split; [exact A|].
  unfold tagged. cbn. destruct (Nat.eqb c c') eqn:E; [apply Nat.eqb_eq in E; congruence|exact B].
Qed.

Lemma auto_fold_At : forall c p l0 l s,
  NoDup (map fst l) -> (forall p', In (c, p') l -> aget Nat.eqb c (s_calls s) = Some p') ->
  (forall w, p <> Some (PTerminate w)) -> At c p l0 s -> At c p l0 (fold_left auto_step l s).
Proof.
  intros c p l0. induction l as [|[c' p'] l IH]; intros s Hnd Hin Hnt H; cbn [fold_left]; [exact H|].
  inversion Hnd as [|? ? Hnotin Hnd']; subst. cbn [fst] in Hnotin.
  destruct (Nat.eq_dec c' c) as [->|Hne].
  - assert (Hvac : forall s1 p1, In (c, p1) l -> aget Nat.eqb c (s_calls s1) = Some p1).
    { intros s1 p1 Hp. exfalso. apply Hnotin. apply (in_map fst) in Hp. exact Hp. }
    apply IH; [exact Hnd'|apply Hvac|exact Hnt|].
    pose proof (Hin p' (or_introl eq_refl)) as Hp. unfold auto_step. destruct p'; try exact H.
    exfalso. destruct H as [A _]. rewrite Hp in A. exact (Hnt waits (eq_sym A)).
  - assert (H' : At c p l0 (auto_step s (c', p'))).
    { unfold auto_step. destruct p'; try exact H. destruct (terminate_done s waits); [|exact H]. apply At_ret_other; assumption. }
    apply IH; [exact Hnd'| |exact Hnt|exact H'].
    intros p1 Hp. specialize (Hin p1 (or_intror Hp)). unfold auto_step.
    destruct p'; try exact Hin. destruct (terminate_done s waits); [|exact Hin].
    rewrite aget_calls_ret_other by assumption. exact Hin.
Qed.

Lemma auto_returns_At : forall c p l s, calls_nodup s -> (forall w, p <> Some (PTerminate w)) -> At c p l s -> At c p l (auto_returns s).
Proof.
  intros c p l s Hnd Hnt H. rewrite auto_returns_fold. apply auto_fold_At; [exact Hnd| |exact Hnt|exact H].
  intros p' Hp. apply (In_aget_NoDup Nat.eqb nat_eqb_eq); assumption.
Qed.

Lemma optask_auto_returns : forall s o, optask (auto_returns s) o = optask s o.
Proof.
  intros s o. destruct (keys_auto_returns s) as [A1 [A2 _]]. unfold optask. rewrite (get_op_frame _ _ _ A1). apply get_task_frame. exact A2.
Qed.

Ltac t_at_other :=
  intros;
  first [ (eapply At_frame; [ | | eassumption]; t_frame)
        | (apply At_emit_internal; [reflexivity | eassumption])
        | (unfold At in *; unfold emit, set_call; cbn;
           match goal with H : _ /\ _ |- _ => destruct H as [? ?] end;
           split; [first [assumption | (rewrite (aget_aset_other Nat.eqb nat_eqb_eq) by auto; assumption)] |
                   first [assumption | (unfold tagged; cbn; match goal with Hne : ?a <> ?b |- _ => first [rewrite (proj2 (Nat.eqb_neq b a)) by auto | rewrite (proj2 (Nat.eqb_neq a b)) by auto] end; assumption)]]) ].

(* what a whole event shows a stream call, and where it leaves it *)
Lemma stream_call_step : forall c p0 tr0 s e h,
  calls_nodup s -> aget Nat.eqb c (s_calls s) = p0 -> J c true p0 tr0 ->
  (is_start e = true -> ev_call e = c -> p0 = None /\ stream_start e = true) ->
  let s' := fst (step s (e, h)) in let o := snd (step s (e, h)) in
  (ev_call e = c -> exists p l, aget Nat.eqb c (s_calls s') = p /\ ctag c o = rev l /\ Qs c e p0 p l s') /\
  (ev_call e <> c -> aget Nat.eqb c (s_calls s') = p0 /\ ctag c o = []).
Proof.
  intros c p0 tr0 s e h Hnd Hp HJ Hstart. unfold step. cbn [fst snd].
  set (sa := s <| s_hints := h |> <| s_out := [] |>).
  assert (Hat : At c p0 [] sa) by (split; [exact Hp|reflexivity]).
  assert (Hnda : calls_nodup sa) by (eapply calls_nodup_frame; [|exact Hnd]; reflexivity).
  assert (Hnd2 : calls_nodup (step_core e sa)) by (apply calls_nodup_step_core; exact Hnda).
  split.
  - intro Heq. destruct (stream_step_spec c p0 tr0 e sa Heq HJ Hat (fun Hs => Hstart Hs Heq)) as [p [l [A Q]]].
    assert (Hnt : forall w, p <> Some (PTerminate w)).
    { intros w ->. destruct Q as [[_ [E|[[_ [n E]]|[o [g [_ [E _]]]]]]]|[[o [_ [_ E]]]|[code [_ [E _]]]]]; try discriminate.
      rewrite <- E in HJ. cbn [J] in HJ. destruct HJ as [HF _]. discriminate.
      unfold msg_pc in E. destruct (t_resp _); discriminate. }
    pose proof (auto_returns_At c p l _ Hnd2 Hnt A) as [A1 A2].
    exists p, l. split; [exact A1|]. split; [rewrite ctag_rev; f_equal; exact A2|].
    assert (Eo : forall o, optask (auto_returns (step_core e sa) <| s_out := [] |> <| s_hints := [] |>) o = optask (step_core e sa) o).
    { intro o. change (optask (auto_returns (step_core e sa) <| s_out := [] |> <| s_hints := [] |>) o) with (optask (auto_returns (step_core e sa)) o). apply optask_auto_returns. }
    destruct Q as [Q|[[o [Q1 Q2]]|Q]]; [left; exact Q| |right; right; exact Q]. right. left. exists o. rewrite Eo. auto.
  - intro Hne.
    assert (H1 : At c p0 [] (step_core e sa)).
    { apply fr_step_core with (P := At c p0 []) (c0 := ev_call e); try (t_at_other; fail); try reflexivity; try assumption. }
    assert (Hnt : forall w, p0 <> Some (PTerminate w)) by (intros w E; rewrite E in HJ; cbn [J] in HJ; destruct HJ as [HF _]; discriminate).
    pose proof (auto_returns_At c p0 [] _ Hnd2 Hnt H1) as [A1 A2]. split; [exact A1|]. rewrite ctag_rev, A2. reflexivity.
Qed.
