(* C01, exclusivity layer: task.complete keeps the invariant. *)
From Coq Require Import Lia.
From VF Require Export Sched.ProofsExcl5.
Open Scope Z_scope.

Definition CT (ext L : list nat) (t : nat) (wo : option wref) (ro : option resp) (uq : bool) (s : state) : Prop :=
  SW s /\ WL L s /\ XS ext s /\ Lc t wo ro uq s.

Ltac ct_destruct H :=
  let H1 := fresh "HSW" in let H2 := fresh "HWL" in let H3 := fresh "HXS" in let H4 := fresh "HLc" in
  destruct H as [H1 [H2 [H3 H4]]].

Ltac ct_go := split; [sw_go2 | split; [w_go2 | split; [xs_go1 | lc_go1]]].

Lemma phantom_is_phantom : forall k, is_phantom (phantom_worker k) = true.
Proof. intro k. reflexivity. Qed.

Lemma NPh_dummy : forall s w, NPh s -> is_phantom w = true -> get_worker s w = dummy_worker.
Proof.
  intros s w H Hp. unfold get_worker. destruct (aget wref_eqb w (q_workers (get_scq s (w_sk w)))) eqn:E; [|reflexivity].
  assert (He : worker_exists s w = true) by (unfold worker_exists; rewrite E; reflexivity). specialize (H w He). congruence.
Qed.

(* stage 1 and 2: the task is detached from its worker (or from the queues) *)
Lemma CT_detach : forall t (b : bool) s,
  t_resp (get_task s t) = None -> CT [] [t] t (t_worker (get_task s t)) None (match t_worker (get_task s t) with Some _ => true | None => false end) s ->
  let k := task_scq s t in
  let s1 := match t_worker (get_task s t) with
            | None => assign_queued (phantom_worker k) t 0 s
            | Some w => if b then set_last_invocation w (lowest_common (task_invs s t)) s else set_last_invocation w [] s
            end in
  let w := match t_worker (get_task s1 t) with Some w => w | None => phantom_worker k end in
  let s2 := fold_left (fun s i => decrement_executing i w s) (task_invs s1 t) s1 in
  CT [t] [t] t None None true (upd_task t (fun x => x <| t_worker := None |>) (upd_worker w (fun k => k <| k_task := None |>) s2)) /\
  forall w0, t_worker (get_task s t) = Some w0 ->
    k_task (get_worker (upd_task t (fun x => x <| t_worker := None |>) (upd_worker w (fun k => k <| k_task := None |>) s2)) w0) = None.
Proof.
  intros t b s Er H k s1 w s2. destruct H as [HSW [HWL [HXS HLc]]].
  assert (HXS0 : XS [t] s) by (apply XS_weaken; exact HXS). clear HXS.
  assert (H1 : exists w1, CT [t] [t] t (Some w1) None true s1 /\ forall w0, t_worker (get_task s t) = Some w0 -> w0 = w1).
  { unfold s1. destruct (t_worker (get_task s t)) as [w0|] eqn:Ew.
    - exists w0. split; [destruct b; ct_go|intros w' E; inversion E; reflexivity].
    - exists (phantom_worker k).
      assert (Hkw : k_wait (get_worker s (phantom_worker k)) = false)
        by (rewrite (NPh_dummy s _ (XS_NPh _ _ HXS0) (phantom_is_phantom k)); reflexivity).
      destruct (XS_Lc_assign_queued [t] t false (phantom_worker k) 0 s (or_introl eq_refl) HXS0 HLc) as [HA HB]; [discriminate|exact Hkw|].
      destruct HB as [HB|[HB _]]; [|discriminate].
      split; [|intros w' E; discriminate]. split; [sw_go2|]. split; [w_go2|]. split; assumption. }
  destruct H1 as [w1 [[HSW1 [HWL1 [HXS1 HLc1]]] Hw01]]. clearbody s1. clear HSW HWL HXS0 HLc.
  assert (Ew : w = w1) by (unfold w; rewrite (LcW _ _ _ _ _ HLc1); reflexivity). clearbody w. subst w.
  assert (H2 : CT [t] [t] t (Some w1) None true s2) by (unfold s2; ct_go).
  clearbody s2. clear HSW1 HWL1 HXS1 HLc1. destruct H2 as [HSW2 [HWL2 [HXS2 HLc2]]].
  split.
  2:{ intros w0 E. rewrite (Hw01 w0 E).
      destruct (pair_reads s2 w1 (fun k => k <| k_task := None |>) t (fun x => x <| t_worker := None |>)) as [_ [_ [_ [_ [E5 _]]]]].
      rewrite E5, wref_eqb_refl. cbn. destruct (worker_exists s2 w1) eqn:Ee; [reflexivity|].
      unfold get_worker, worker_exists in *. destruct (aget wref_eqb w1 (q_workers (get_scq s2 (w_sk w1)))); [discriminate|reflexivity]. }
  split; [sw_go2|]. split; [w_go2|]. split; [|apply Lc_unassign_pair; exact HLc2].
  assert (H3 : XS [t] (upd_worker w1 (fun k => k <| k_task := None |>) s2)).
  { apply XS_unassign_prim; [|exact HXS2]. intros t0 Hk. left.
    destruct (is_phantom w1) eqn:Ep.
    - rewrite (NPh_dummy s2 _ (XS_NPh _ _ HXS2) Ep) in Hk. discriminate.
    - destruct (LcA _ _ _ _ _ HLc2 w1 eq_refl Ep) as [_ Hk']. congruence. }
  set (s3 := upd_worker w1 _ s2) in *. clearbody s3. clear HXS2. xs_go1.
Qed.

(* ---- the two later parts of task.complete, named --------------------------------------------------------------- *)
Definition ct_learner (t : nat) (r : resp) (by_worker : bool) (x : task) (p : pq) (k : skey) (s : state) : state * option (Z * Z) :=
        match t_learner x with
        | None => (panic "complete: task without learner" s, None)
        | Some l =>
          if resp_success r then
            let s := emit (OGhost (GSucceeded (l_id l))) s in
            let s := upd_task t (fun x => x <| t_learner := None |>) s in
            match l_succ l with
            | None => (s, None)
            | Some (bidx, bdur, btimeout, bl) =>
              if Nat.eqb (p_maxbg p) 0 then (emit (OGhost (GAbandoned (l_id bl))) s, None)
              else
                let bk := mkSK (sk_pk k) (nth bidx (p_scs p) 0%N) in
                let bpath := [4294967295%N] in
                let s := get_or_create_invocation bk bpath s in
                let bi := mkI bk bpath in
                if Nat.leb (p_maxbg p) (List.length (v_qops (get_inv s bi)))
                then (emit (OGhost (GAbandoned (l_id bl))) s, None)
                else
                  let bt := s_ntasks s in
                  let s := s <| s_ntasks ::= S |>
                             <| s_tasks ::= fun l => l ++ [(bt, mkTask [] (t_instance x) (t_digest x) (Some true) btimeout (t_qts x)
                                                               (t_suffix x) None 0 bdur (Some bl) None 0)] |> in
                  let '(s, _) := new_operation bt (p_bgprio p) bi true s in
                  (schedule bt s, None)
            end
          else if by_worker then
            let s := emit (OGhost (GFailed (l_id l) (r_code r =? cDEADLINE)%N)) s in
            match l_fail l with
            | None => (upd_task t (fun x => x <| t_learner := None |>) s, None)
            | Some (d, tm, nl) => (upd_task t (fun x => x <| t_learner := Some nl |>) s, Some (d, tm))
            end
          else (upd_task t (fun x => x <| t_learner := None |>) (emit (OGhost (GAbandoned (l_id l))) s), None)
        end.

Definition ct_tail (t : nat) (r : resp) (x : task) (p : pq) (k : skey) (s : state) (retry : option (Z * Z)) : state :=
      match retry with
      | Some (d, tm) =>
        let lk := mkSK (sk_pk k) (largest_sc p) in
        let old := t_ops (get_task s t) in
        let s := fold_left (fun s '(i, _) => get_or_create_invocation lk (i_path i) s) old s in
        let s := upd_task t (fun x => x <| t_expdur := d |> <| t_timeout := tm |>
                                         <| t_ops := map (fun '(i, o) => (mkI lk (i_path i), o)) old |>) s in
        let s := fold_left (fun s '(i, o) => upd_op o (fun y => y <| o_inv := mkI lk (i_path i) |>) s) old s in
        report_non_final_stage_change t (schedule t s)
      | None =>
        let s := match aget dkey_eqb (t_instance x, t_digest x) (s_inflight s) with
                 | Some t' => if Nat.eqb t t' then s <| s_inflight ::= adel dkey_eqb (t_instance x, t_digest x) |> else s
                 | None => s
                 end in
        let s := upd_task t (fun x => x <| t_resp := Some r |> <| t_dnc := None |>) s in
        fold_left (fun s o =>
          if o_mayexist (get_op s o)
          then maybe_start_cleanup o (upd_op o (fun y => y <| o_mayexist := false |>) s)
          else s) (task_opids s t) s
      end.

Lemma complete_task_eq : forall t r b s,
  complete_task t r b s =
  let x := get_task s t in
  let k := task_scq s t in
  match t_resp x with
  | Some _ => s
  | None =>
    let s1 := match t_worker x with
              | None => assign_queued (phantom_worker k) t 0 s
              | Some w => if b then set_last_invocation w (lowest_common (task_invs s t)) s else set_last_invocation w [] s
              end in
    let w := match t_worker (get_task s1 t) with Some w => w | None => phantom_worker k end in
    let s2 := fold_left (fun s i => decrement_executing i w s) (task_invs s1 t) s1 in
    let s4 := upd_task t (fun x => x <| t_worker := None |>) (upd_worker w (fun k => k <| k_task := None |>) s2) in
    match get_pq s4 (sk_pk k) with
    | None => panic "complete: platform queue missing" s4
    | Some p => let '(s5, retry) := ct_learner t r b x p k s4 in ct_tail t r x p k s5 retry
    end
  end.
Proof. reflexivity. Qed.

Lemma CT_drop : forall ext L t wo ro uq s,
  (forall w, wo = Some w -> is_phantom w = false /\ ro = None) ->
  (uq = true \/ (wo = None /\ ro = None)) ->
  CT (t :: ext) L t wo ro uq s -> XS ext s.
Proof.
  intros ext L t wo ro uq s H1 H2 [_ [_ [[A [B [C [N [T D]]]]] HLc]]]. repeat (split; [assumption|]).
  eapply Lc_drop; eassumption.
Qed.

Lemma CT_final' : forall t r x p k s,
  CT [t] [t] t None None true s -> CT [t] [t] t None (Some r) true (ct_tail t r x p k s None).
Proof.
  intros t r x p k s H. unfold ct_tail. cbv zeta.
  set (s6 := match aget dkey_eqb (t_instance x, t_digest x) (s_inflight s) with Some t' => _ | None => s end).
  assert (H6 : CT [t] [t] t None None true s6) by (destruct H as [HSW [HWL [HXS HLc]]]; unfold s6; ct_go).
  clearbody s6. clear H. destruct H6 as [HSW [HWL [HXS HLc]]].
  set (s7 := upd_task t _ s6).
  assert (H7 : CT [t] [t] t None (Some r) true s7).
  { unfold s7. split; [sw_go2|]. split; [w_go2|]. split; [xs_go1|apply Lc_resp; exact HLc]. }
  clearbody s7. clear HSW HWL HXS HLc. destruct H7 as [HSW [HWL [HXS HLc]]].
  ct_go.
Qed.

Lemma CT_final : forall t r x p k s,
  CT [t] [t] t None None true s -> XS [] (ct_tail t r x p k s None).
Proof.
  intros t r x p k s H. apply (CT_drop [] [t] t None (Some r) true); [intros w Ew; discriminate|left; reflexivity|].
  apply CT_final'. exact H.
Qed.

Lemma goc_fold_tasks : forall lk (l : list (iref * nat)) s,
  s_tasks (fold_left (fun s '(i, _) => get_or_create_invocation lk (i_path i) s) l s) = s_tasks s.
Proof.
  intros lk l. induction l as [|[i o] l IH]; intro s; cbn [fold_left]; [reflexivity|].
  rewrite IH. apply get_or_create_invocation_tasks.
Qed.

Lemma CT_retry : forall t r x p k s d tm,
  CT [t] [t] t None None true s -> XS [] (ct_tail t r x p k s (Some (d, tm))).
Proof.
  intros t r x p k s d tm H. unfold ct_tail. cbv zeta.
  set (lk := mkSK (sk_pk k) (largest_sc p)).
  set (old := t_ops (get_task s t)).
  set (s6 := fold_left _ old s).
  assert (Eold : old = t_ops (get_task s6 t)).
  { unfold old, s6. symmetry. f_equal. apply get_task_frame. apply goc_fold_tasks. }
  assert (H6 : CT [t] [t] t None None true s6) by (destruct H as [HSW [HWL [HXS HLc]]]; unfold s6; ct_go).
  clearbody s6. clear H. clearbody old. subst old. destruct H6 as [HSW [HWL [HXS HLc]]].
  set (s7 := upd_task t _ s6).
  fold (retarget_fold lk (t_ops (get_task s6 t)) s7).
  set (s8 := retarget_fold lk (t_ops (get_task s6 t)) s7).
  assert (H8 : CT [t] [t] t None None true s8).
  { split; [unfold s8, s7, retarget_fold; sw_go2|]. split; [unfold s8, s7, retarget_fold; w_go2|].
    split; [|apply Lc_retry_block; [exact (XS_XN _ _ HXS)|exact HLc]].
    apply XS_retarget_fold.
    - intros i o Hin. destruct (LcO2 _ _ _ _ _ HLc i o Hin) as [Ha [Ht _]].
      change (tsk s7 o) with (tsk s6 o). rewrite Ht. split; [left; reflexivity|].
      intros j Hq. change (get_inv s7 j) with (get_inv s6 j) in Hq. unfold get_inv in Hq.
      destruct (aget iref_eqb j (s_invs s6)) as [v|] eqn:E; [|destruct Hq].
      apply (aget_In iref_eqb iref_eqb_eq) in E. exact (LcU _ _ _ _ _ HLc eq_refl o j v Ha Ht E Hq).
    - unfold s7. destruct HXS as [A [B [C [N [T D]]]]]. split; [t_St|]. split; [t_ON|]. split; [t_NPh|].
      split; [|split; [t_OT|apply X_upd_task_ext; [left; reflexivity|exact D]]].
      apply XN_upd_task; [|exact N]. cbn. rewrite map_snd_retarget. apply N. }
  clearbody s8. clear HSW HWL HXS HLc. destruct H8 as [HSW [HWL [HXS HLc]]].
  pose proof (XS_schedule_clean [] t s8 (SW_Parked _ HSW) HXS HLc) as H9.
  set (s9 := schedule t s8) in *. clearbody s9. clear HXS. unfold report_non_final_stage_change. t_XS.
Qed.

(* the background learning task: created, given its operation, scheduled *)
Lemma CT_bg : forall t s x prio bi,
  t_worker x = None -> t_resp x = None -> t_ops x = [] ->
  CT [t] [t] t None None true s ->
  let bt := s_ntasks s in
  let sN := s <| s_ntasks ::= S |> <| s_tasks ::= fun l => l ++ [(bt, x)] |> in
  CT [t] [t] t None None true (schedule bt (fst (new_operation bt prio bi true sN))).
Proof.
  intros t s x prio bi Hxw Hxr Hxo [HSW [HWL [HXS HLc]]] bt sN.
  assert (Hne : bt <> t) by (pose proof (LcN _ _ _ _ _ HLc); unfold bt; lia).
  assert (HN : SW sN /\ WL [bt; t] sN /\ XS [bt; t] sN /\ Lc t None None true sN /\ Lc bt None None true sN).
  { split; [unfold sN; sw_go2|]. split; [apply WL_newtask; exact HWL|]. split; [apply XS_newtask; assumption|].
    split; [apply Lc_newtask; exact HLc|apply Lc_fresh; try assumption; exact (WL_W _ _ HWL)]. }
  clearbody sN. clear HSW HWL HXS HLc. destruct HN as [HSW [HWL [HXS [HLc HLb]]]].
  set (sO := fst (new_operation bt prio bi true sN)).
  assert (HO : SW sO /\ WL [bt; t] sO /\ XS [bt; t] sO /\ Lc t None None true sO /\ Lc bt None None true sO).
  { split; [unfold sO, new_operation; cbn [fst]; sw_go2|]. split; [apply WL_new_operation; [left; reflexivity|exact HWL]|].
    split; [apply XS_new_operation; [left; reflexivity|exact (LcN _ _ _ _ _ HLb)| |exact HXS]|].
    - intros j o Hin. destruct (LcO2 _ _ _ _ _ HLb j o Hin) as [Ha _]. exact Ha.
    - split; [|eapply Lc_new_operation_own; eassumption]. unfold sO, new_operation. cbn [fst]. lc_go1. }
  clearbody sO. clear HSW HWL HXS HLc HLb. destruct HO as [HSW [HWL [HXS [HLc HLb]]]].
  split; [sw_go2|]. split; [apply (WL_tail _ _ bt); apply WL_schedule; [left; reflexivity|exact HWL]|].
  split; [apply XS_schedule_clean; [apply SW_Parked; exact HSW|exact HXS|exact HLb]|].
  apply Lc_schedule_other; [exact Hne| |exact HLc].
  intros o Ho _. unfold task_opids in Ho. apply in_map_iff in Ho. destruct Ho as [[j o'] [E Ho]]. cbn in E. subst o'.
  destruct (LcO2 _ _ _ _ _ HLb j o Ho) as [_ [Ht _]]. rewrite Ht. exact Hne.
Qed.

Lemma CT_learner : forall t r b x p k s,
  CT [t] [t] t None None true s -> CT [t] [t] t None None true (fst (ct_learner t r b x p k s)).
Proof.
  intros t r b x p k s H. unfold ct_learner.
  destruct (t_learner x) as [l|]; [|destruct H as [HSW [HWL [HXS HLc]]]; cbn [fst]; ct_go].
  destruct (resp_success r).
  - cbv zeta. set (s1 := upd_task t _ (emit _ s)).
    assert (H1 : CT [t] [t] t None None true s1) by (destruct H as [HSW [HWL [HXS HLc]]]; unfold s1; ct_go).
    clearbody s1. clear H.
    destruct (l_succ l) as [[[[bidx bdur] btimeout] bl]|]; [|exact H1].
    destruct (Nat.eqb (p_maxbg p) 0); [destruct H1 as [HSW [HWL [HXS HLc]]]; cbn [fst]; ct_go|].
    set (s2 := get_or_create_invocation _ _ s1).
    assert (H2 : CT [t] [t] t None None true s2) by (destruct H1 as [HSW [HWL [HXS HLc]]]; unfold s2; ct_go).
    clearbody s2. clear H1.
    destruct (Nat.leb _ _); [destruct H2 as [HSW [HWL [HXS HLc]]]; cbn [fst]; ct_go|].
    unfold new_operation. cbn [fst].
    apply CT_bg; [reflexivity|reflexivity|reflexivity|exact H2].
  - destruct b.
    + cbv zeta. destruct (l_fail l) as [[[d tm] nl]|]; destruct H as [HSW [HWL [HXS HLc]]]; cbn [fst]; ct_go.
    + destruct H as [HSW [HWL [HXS HLc]]]; cbn [fst]; ct_go.
Qed.

(* ---- task.complete ---------------------------------------------------------------------------------------------- *)
Lemma XS_complete_task : forall t r b s,
  SW s -> W s -> (t < s_ntasks s)%nat -> XS [] s -> XS [] (complete_task t r b s).
Proof.
  intros t r b s HSW HW Hlt HXS. rewrite complete_task_eq. cbv zeta.
  destruct (t_resp (get_task s t)) eqn:Er; [exact HXS|].
  assert (H0 : CT [] [t] t (t_worker (get_task s t)) None (match t_worker (get_task s t) with Some _ => true | None => false end) s).
  { split; [exact HSW|]. split; [apply WL_cons; [apply WL_of_W; exact HW|exact Hlt]|]. split; [exact HXS|].
    pose proof (XS_St _ _ HXS) as [_ [_ [Hnd _]]].
    pose proof (Lc_intro [] t s Hnd (fun H => H) Hlt (XS_X _ _ HXS)) as HL. rewrite Er in HL.
    destruct (t_worker (get_task s t)); exact HL. }
  pose proof (CT_detach t b s Er H0) as [H4 _]. cbv zeta in H4.
  match type of H4 with CT _ _ _ _ _ _ ?e => set (s4 := e) in * end. clearbody s4. clear H0.
  destruct (get_pq s4 (sk_pk (task_scq s t))) as [p|].
  - pose proof (CT_learner t r b (get_task s t) p (task_scq s t) s4 H4) as H5.
    destruct (ct_learner t r b (get_task s t) p (task_scq s t) s4) as [s5 [[d tm]|]]; cbn [fst] in H5.
    + apply CT_retry. exact H5.
    + apply CT_final. exact H5.
  - apply (CT_drop [] [t] t None None true); [intros w Ew; discriminate|left; reflexivity|].
    destruct H4 as [HSW4 [HWL4 [HXS4 HLc4]]]. clear HXS. ct_go.
Qed.

(* what completing a task on behalf of the scheduler (not by its worker, not successfully) leaves behind *)
Lemma ct_tail_scqs : forall t r x p k s, s_scqs (ct_tail t r x p k s None) = s_scqs s.
Proof.
  intros t r x p k s. assert (H : keeps_scqs (s_scqs s) (ct_tail t r x p k s None)); [|exact H].
  unfold ct_tail. fr_go (keeps_scqs (s_scqs s)) t_ks. all: reflexivity.
Qed.

Lemma complete_task_post : forall t r s,
  SW s -> W s -> (t < s_ntasks s)%nat -> XS [] s -> resp_success r = false ->
  let s' := complete_task t r false s in
  (exists wo ro, Lc t wo ro true s') /\
  (forall w0, t_worker (get_task s t) = Some w0 -> t_resp (get_task s t) = None -> k_task (get_worker s' w0) = None).
Proof.
  intros t r s HSW HW Hlt HXS Hrs s'. unfold s'. rewrite complete_task_eq. cbv zeta.
  pose proof (XS_St _ _ HXS) as [_ [_ [Hnd _]]].
  pose proof (Lc_intro [] t s Hnd (fun H => H) Hlt (XS_X _ _ HXS)) as HL.
  destruct (t_resp (get_task s t)) eqn:Er.
  { split; [|intros w0 _ E; discriminate].
    destruct (t_worker (get_task s t)); eexists; eexists; exact HL. }
  assert (H0 : CT [] [t] t (t_worker (get_task s t)) None (match t_worker (get_task s t) with Some _ => true | None => false end) s).
  { split; [exact HSW|]. split; [apply WL_cons; [apply WL_of_W; exact HW|exact Hlt]|]. split; [exact HXS|].
    destruct (t_worker (get_task s t)); exact HL. }
  pose proof (CT_detach t false s Er H0) as [H4 Hrel]. cbv zeta in H4, Hrel.
  match type of H4 with CT _ _ _ _ _ _ ?e => set (s4 := e) in * end. clearbody s4. clear H0.
  destruct (get_pq s4 (sk_pk (task_scq s t))) as [p|].
  - unfold ct_learner. rewrite Hrs.
    assert (H5 : forall s5, CT [t] [t] t None None true s5 -> s_scqs s5 = s_scqs s4 ->
              (exists wo ro, Lc t wo ro true (ct_tail t r (get_task s t) p (task_scq s t) s5 None)) /\
              (forall w0, t_worker (get_task s t) = Some w0 -> None = None (A:=resp) ->
                 k_task (get_worker (ct_tail t r (get_task s t) p (task_scq s t) s5 None) w0) = None)).
    { intros s5 H5 E5. split.
      - destruct (CT_final' t r (get_task s t) p (task_scq s t) s5 H5) as [_ [_ [_ HLc]]]. eauto.
      - intros w0 Ew _. rewrite (get_worker_frame' s4); [apply Hrel; exact Ew|]. rewrite ct_tail_scqs. exact E5. }
    destruct (t_learner (get_task s t)); apply H5; try reflexivity.
    + destruct H4 as [HSW4 [HWL4 [HXS4 HLc4]]]. clear HXS. ct_go.
    + destruct H4 as [HSW4 [HWL4 [HXS4 HLc4]]]. clear HXS. ct_go.
  - split.
    + destruct H4 as [_ [_ [_ HLc4]]]. exists None, None. t_Lc.
    + intros w0 Ew _. change (get_worker (panic "complete: platform queue missing" s4) w0) with (get_worker s4 w0). apply Hrel. exact Ew.
Qed.
