(* Association lists, key equalities and small list facts used by the
   scheduler proofs. *)
From Coq Require Import Lia.
From VF Require Export Sched.Steps.
Open Scope Z_scope.

(* ---- the key equalities are decidable equalities ---------------------------- *)
Lemma list_eqb_N_eq : forall a b, list_eqb N.eqb a b = true <-> a = b.
Proof.
  induction a as [|x a IH]; destruct b as [|y b]; cbn; split; intro H; try congruence; try discriminate.
  - apply andb_true_iff in H. destruct H as [H1 H2]. apply N.eqb_eq in H1. apply IH in H2. congruence.
  - inversion H; subst. rewrite N.eqb_refl. cbn. apply IH. reflexivity.
Qed.

Lemma pkey_eqb_eq : forall a b, pkey_eqb a b = true <-> a = b.
Proof.
  intros [p1 q1] [p2 q2]. unfold pkey_eqb. cbn. rewrite andb_true_iff, list_eqb_N_eq, N.eqb_eq.
  split; [intros [-> ->]; reflexivity | intro H; inversion H; auto].
Qed.

Lemma skey_eqb_eq : forall a b, skey_eqb a b = true <-> a = b.
Proof.
  intros [p1 q1] [p2 q2]. unfold skey_eqb. cbn. rewrite andb_true_iff, pkey_eqb_eq, N.eqb_eq.
  split; [intros [-> ->]; reflexivity | intro H; inversion H; auto].
Qed.

Lemma wref_eqb_eq : forall a b, wref_eqb a b = true <-> a = b.
Proof.
  intros [k1 h1 t1] [k2 h2 t2]. unfold wref_eqb. cbn. rewrite !andb_true_iff, skey_eqb_eq, !N.eqb_eq.
  split; [intros [[-> ->] ->]; reflexivity | intro H; inversion H; auto].
Qed.

Lemma iref_eqb_eq : forall a b, iref_eqb a b = true <-> a = b.
Proof.
  intros [k1 p1] [k2 p2]. unfold iref_eqb, path_eqb. cbn. rewrite andb_true_iff, skey_eqb_eq, list_eqb_N_eq.
  split; [intros [-> ->]; reflexivity | intro H; inversion H; auto].
Qed.

Lemma dkey_eqb_eq : forall a b, dkey_eqb a b = true <-> a = b.
Proof.
  intros [p1 q1] [p2 q2]. unfold dkey_eqb. cbn. rewrite andb_true_iff, list_eqb_N_eq, N.eqb_eq.
  split; [intros [-> ->]; reflexivity | intro H; inversion H; auto].
Qed.

Lemma nat_eqb_eq : forall a b, Nat.eqb a b = true <-> a = b.
Proof. exact Nat.eqb_eq. Qed.

(* ---- association lists over a lawful key equality ------------------------------ *)
Section AssocFacts.
  Context {K V : Type} (eqb : K -> K -> bool).
  Hypothesis eqb_eq : forall a b, eqb a b = true <-> a = b.

  Lemma eqb_refl' : forall a, eqb a a = true.
  Proof. intro a. apply eqb_eq. reflexivity. Qed.

  Lemma eqb_neq : forall a b, a <> b -> eqb a b = false.
  Proof. intros a b H. destruct (eqb a b) eqn:E; auto. apply eqb_eq in E. contradiction. Qed.

  Lemma eqb_false_neq : forall a b, eqb a b = false -> a <> b.
  Proof. intros a b H ->. rewrite eqb_refl' in H. discriminate. Qed.

  Lemma aget_aset_same : forall k (v : V) l, aget eqb k (aset eqb k v l) = Some v.
  Proof.
    induction l as [|[k' v'] l IH]; cbn.
    - rewrite eqb_refl'. reflexivity.
    - destruct (eqb k k') eqn:E; cbn.
      + rewrite eqb_refl'. reflexivity.
      + rewrite E. exact IH.
  Qed.

  Lemma aget_aset_other : forall k k' (v : V) l, k <> k' -> aget eqb k (aset eqb k' v l) = aget eqb k l.
  Proof.
    intros k k' v l Hne. induction l as [|[k2 v2] l IH]; cbn.
    - rewrite eqb_neq by assumption. reflexivity.
    - destruct (eqb k' k2) eqn:E; cbn.
      + apply eqb_eq in E. subst k2. rewrite eqb_neq by assumption. reflexivity.
      + destruct (eqb k k2); auto.
  Qed.

  Lemma aget_aset : forall k k' (v : V) l,
    aget eqb k (aset eqb k' v l) = if eqb k k' then Some v else aget eqb k l.
  Proof.
    intros. destruct (eqb k k') eqn:E.
    - apply eqb_eq in E. subst. apply aget_aset_same.
    - apply aget_aset_other. apply eqb_false_neq. assumption.
  Qed.

  Lemma aget_adel_other : forall k k' (l : list (K * V)), k <> k' -> aget eqb k (adel eqb k' l) = aget eqb k l.
  Proof.
    intros k k' l Hne. induction l as [|[k2 v2] l IH]; cbn; auto.
    destruct (eqb k' k2) eqn:E; cbn.
    - apply eqb_eq in E. subst k2. rewrite eqb_neq by assumption. reflexivity.
    - destruct (eqb k k2); auto.
  Qed.

  Lemma aget_app : forall k (l1 l2 : list (K * V)),
    aget eqb k (l1 ++ l2) = match aget eqb k l1 with Some v => Some v | None => aget eqb k l2 end.
  Proof.
    induction l1 as [|[k2 v2] l1 IH]; cbn; intros; auto.
    destruct (eqb k k2); auto.
  Qed.

  Lemma aget_In : forall k (v : V) l, aget eqb k l = Some v -> In (k, v) l.
  Proof.
    induction l as [|[k2 v2] l IH]; cbn; intro H; try discriminate.
    destruct (eqb k k2) eqn:E.
    - apply eqb_eq in E. inversion H; subst. auto.
    - auto.
  Qed.

  Lemma aget_None_notin : forall k (l : list (K * V)), aget eqb k l = None -> ~ In k (map fst l).
  Proof.
    induction l as [|[k2 v2] l IH]; cbn; intros H; auto.
    destruct (eqb k k2) eqn:E; try discriminate.
    intros [->|Hin]; [rewrite eqb_refl' in E; discriminate | exact (IH H Hin)].
  Qed.

  Lemma notin_aget_None : forall k (l : list (K * V)), ~ In k (map fst l) -> aget eqb k l = None.
  Proof.
    induction l as [|[k2 v2] l IH]; cbn; intros H; auto.
    rewrite eqb_neq by (intros ->; apply H; auto). apply IH. tauto.
  Qed.

  Lemma map_fst_aset : forall k (v : V) l,
    map fst (aset eqb k v l) = if (match aget eqb k l with Some _ => true | None => false end)
                               then map fst l else map fst l ++ [k].
  Proof.
    induction l as [|[k2 v2] l IH]; cbn; auto.
    destruct (eqb k k2) eqn:E; cbn.
    - apply eqb_eq in E. subst. reflexivity.
    - rewrite IH. destruct (aget eqb k l); reflexivity.
  Qed.

  Lemma NoDup_keys_aset : forall k (v : V) l, NoDup (map fst l) -> NoDup (map fst (aset eqb k v l)).
  Proof.
    intros k v l H. rewrite map_fst_aset. destruct (aget eqb k l) eqn:E; auto.
    apply aget_None_notin in E.
    apply NoDup_rev in H. rewrite <- (rev_involutive (map fst l ++ [k])).
    apply NoDup_rev. rewrite rev_app_distr. cbn. constructor; auto.
    rewrite <- in_rev. assumption.
  Qed.

  Lemma In_aset : forall k (v : V) k2 v2 l, In (k2, v2) (aset eqb k v l) -> (k2 = k /\ v2 = v) \/ In (k2, v2) l.
  Proof.
    induction l as [|[k3 v3] l IH]; cbn.
    - intros [H|[]]. inversion H; auto.
    - destruct (eqb k k3); cbn; intros [H|H]; auto.
      + inversion H; auto.
      + destruct (IH H); auto.
  Qed.

  Lemma aget_adel_same : forall k (l : list (K * V)), NoDup (map fst l) -> aget eqb k (adel eqb k l) = None.
  Proof.
    induction l as [|[k2 v2] l IH]; cbn; intros H; auto.
    inversion H; subst.
    destruct (eqb k k2) eqn:E; cbn.
    - apply eqb_eq in E. subst. apply notin_aget_None. assumption.
    - rewrite E. auto.
  Qed.

  Lemma map_fst_adel_incl : forall k (l : list (K * V)) x, In x (map fst (adel eqb k l)) -> In x (map fst l).
  Proof.
    induction l as [|[k2 v2] l IH]; cbn; intros x H; auto.
    destruct (eqb k k2).
    - right. exact H.
    - cbn in H. destruct H as [H|H]; [left; exact H | right; apply IH; exact H].
  Qed.

  Lemma NoDup_keys_adel : forall k (l : list (K * V)), NoDup (map fst l) -> NoDup (map fst (adel eqb k l)).
  Proof.
    induction l as [|[k2 v2] l IH]; cbn; intros H; auto.
    inversion H; subst. destruct (eqb k k2); cbn; auto.
    constructor; auto. intro Hin. apply map_fst_adel_incl in Hin. contradiction.
  Qed.
End AssocFacts.

(* ---- fold_left closure ----------------------------------------------------------- *)
Lemma fold_left_pres {A B} (P : A -> Prop) (g : A -> B -> A) (l : list B) :
  (forall a b, P a -> P (g a b)) -> forall a, P a -> P (fold_left g l a).
Proof. intro H. induction l as [|x l IH]; cbn; auto. Qed.

Lemma fold_left_pres_in {A B} (P : A -> Prop) (g : A -> B -> A) (l : list B) :
  (forall a b, In b l -> P a -> P (g a b)) -> forall a, P a -> P (fold_left g l a).
Proof.
  induction l as [|x l IH]; cbn; [auto|]. intros H a Ha. apply IH; auto.
Qed.

Lemma In_aget_NoDup {K V} (eqb : K -> K -> bool) (eqb_eq : forall a b, eqb a b = true <-> a = b) :
  forall k (v : V) l, NoDup (map fst l) -> In (k, v) l -> aget eqb k l = Some v.
Proof.
  induction l as [|[k2 v2] l IH]; cbn; intros Hnd Hin; [contradiction|].
  inversion Hnd; subst. destruct Hin as [Heq|Hin].
  - inversion Heq; subst. rewrite (eqb_refl' eqb eqb_eq). reflexivity.
  - destruct (eqb k k2) eqn:E.
    + apply eqb_eq in E. subst. exfalso. apply H1. apply (in_map fst) in Hin. exact Hin.
    + auto.
Qed.

Lemma aget_Some_in_keys {K V} (eqb : K -> K -> bool) (eqb_eq : forall a b, eqb a b = true <-> a = b) :
  forall k (v : V) l, aget eqb k l = Some v -> In k (map fst l).
Proof. intros k v l H. apply (aget_In eqb eqb_eq) in H. apply (in_map fst) in H. exact H. Qed.
