(* Referential integrity: every task index stored anywhere in the state is
   below s_ntasks, every operation index below s_nops.  Consequences: the
   next task / operation index is unused (a new task is never shadowed). *)
From Coq Require Import Lia.
From VF Require Export Sched.ProofsInv Sched.ProofsPolicy.
Open Scope Z_scope.

Definition tasks_ok (l : list (nat * task)) (n : nat) : Prop := forall t, In t (map fst l) -> (t < n)%nat.
Definition ops_ok (l : list (nat * oper)) (n m : nat) : Prop :=
  forall o x, In (o, x) l -> (o_task x < n)%nat /\ (o < m)%nat.
Definition inflight_ok (l : list ((list N * N) * nat)) (n : nat) : Prop := forall k t, In (k, t) l -> (t < n)%nat.
Definition workers_ok (l : list (skey * scq)) (n : nat) : Prop :=
  forall k q w wk t, In (k, q) l -> In (w, wk) (q_workers q) -> k_task wk = Some t -> (t < n)%nat.
Definition qops_ok (l : list (iref * inv)) (n : nat) : Prop :=
  forall i v, In (i, v) l -> v_qops v <> [] -> (0 < n)%nat.

Definition W (s : state) : Prop :=
  tasks_ok (s_tasks s) (s_ntasks s) /\ ops_ok (s_ops s) (s_ntasks s) (s_nops s) /\
  inflight_ok (s_inflight s) (s_ntasks s) /\ workers_ok (s_scqs s) (s_ntasks s) /\ qops_ok (s_invs s) (s_ntasks s).

(* W together with a list of task indices known to be valid *)
Definition WL (L : list nat) (s : state) : Prop := W s /\ forall t, In t L -> (t < s_ntasks s)%nat.

Lemma WL_frame : forall L s s',
  s_tasks s' = s_tasks s -> s_ntasks s' = s_ntasks s -> s_ops s' = s_ops s -> s_nops s' = s_nops s ->
  s_inflight s' = s_inflight s -> s_scqs s' = s_scqs s -> s_invs s' = s_invs s ->
  WL L s -> WL L s'.
Proof. unfold WL, W. intros L s s' -> -> -> -> -> -> ->. auto. Qed.

Lemma WL_cons : forall L s t, WL L s -> (t < s_ntasks s)%nat -> WL (t :: L) s.
Proof. unfold WL. intros L s t [HW HL] Ht. split; [exact HW|]. intros t' [<-|Hin]; auto. Qed.
Lemma WL_tail : forall L s t, WL (t :: L) s -> WL L s.
Proof. unfold WL. intros L s t [HW HL]. split; [exact HW|]. intros t' Hin. apply HL. right. exact Hin. Qed.
Lemma WL_nil : forall L s, WL L s -> WL [] s.
Proof. unfold WL. intros L s [HW _]. split; [exact HW|]. intros t []. Qed.
Lemma WL_W : forall L s, WL L s -> W s.
Proof. unfold WL. tauto. Qed.
Lemma WL_of_W : forall s, W s -> WL [] s.
Proof. unfold WL. intros s H. split; [exact H|]. intros t []. Qed.
Lemma WL_lt : forall L s t, WL L s -> In t L -> (t < s_ntasks s)%nat.
Proof. unfold WL. intros L s t [_ HL]. auto. Qed.

Ltac w_split := split; [split; [|split; [|split; [|split]]]|]; try assumption.

(* ---- primitive updates --------------------------------------------------------------------- *)
Lemma WL_upd_task : forall L s t f, In t L -> WL L s -> WL L (upd_task t f s).
Proof.
  unfold WL, W, upd_task. intros L s t f Hin [[H1 [H2 [H3 [H4 H5]]]] HL]. cbn.
  w_split. intros t' Ht'. rewrite (map_fst_aset Nat.eqb nat_eqb_eq) in Ht'.
  destruct (aget Nat.eqb t (s_tasks s)); [auto|]. apply in_app_or in Ht'. destruct Ht' as [Ht'|[<-|[]]]; auto.
Qed.

Lemma WL_newtask : forall L s x,
  WL L s -> WL (s_ntasks s :: L) (s <| s_ntasks ::= S |> <| s_tasks ::= fun l => l ++ [(s_ntasks s, x)] |>).
Proof.
  unfold WL, W. intros L s x [[H1 [H2 [H3 [H4 H5]]]] HL]. cbn [s_tasks s_ntasks s_ops s_nops s_inflight s_scqs s_invs set]. cbn.
  split; [split; [|split; [|split; [|split]]]|].
  - intros t Ht. rewrite map_app in Ht. apply in_app_or in Ht. destruct Ht as [Ht|[Heq|[]]].
    + specialize (H1 _ Ht). lia.
    + cbn in Heq. lia.
  - intros o y Ho. destruct (H2 _ _ Ho). split; lia.
  - intros k t Hk. specialize (H3 _ _ Hk). lia.
  - intros k q w wk t Hk Hw Ht. specialize (H4 _ _ _ _ _ Hk Hw Ht). lia.
  - intros i v Hi Hv. specialize (H5 _ _ Hi Hv). lia.
  - intros t [Heq|Hin]; [lia|]. specialize (HL _ Hin). lia.
Qed.

Lemma WL_upd_op : forall L s o f, (forall x, o_task (f x) = o_task x) -> WL L s -> WL L (upd_op o f s).
Proof.
  unfold WL, W, upd_op. intros L s o f Hf H. pose proof H as [[H1 [H2 [H3 [H4 H5]]]] HL].
  destruct (aget Nat.eqb o (s_ops s)) as [x|] eqn:E; [|exact H]. cbn.
  w_split.
  intros o' y Hin. apply In_aset in Hin. destruct Hin as [[-> ->]|Hin]; [|auto].
  apply (aget_In Nat.eqb nat_eqb_eq) in E. rewrite Hf. auto.
Qed.

Lemma WL_newop : forall L s t prio i m,
  In t L -> WL L s -> WL L (s <| s_nops ::= S |> <| s_ops ::= fun l => l ++ [(s_nops s, mkOper t prio i 0 m None)] |>).
Proof.
  unfold WL, W. intros L s t prio i m Hin [[H1 [H2 [H3 [H4 H5]]]] HL]. cbn.
  w_split.
  intros o y Ho. apply in_app_or in Ho. destruct Ho as [Ho|[Heq|[]]].
  - destruct (H2 _ _ Ho). split; lia.
  - inversion Heq; subst. cbn. split; [auto|lia].
Qed.

Lemma In_adel {K V} (eqb : K -> K -> bool) : forall k (l : list (K * V)) x, In x (adel eqb k l) -> In x l.
Proof.
  induction l as [|[k2 v2] l IH]; cbn; intros x H; auto.
  destruct (eqb k k2); cbn in *; [auto|]. destruct H; auto.
Qed.

Lemma WL_delop : forall L s o, WL L s -> WL L (s <| s_ops := adel Nat.eqb o (s_ops s) |>).
Proof.
  unfold WL, W. intros L s o [[H1 [H2 [H3 [H4 H5]]]] HL]. cbn.
  w_split. intros o' y Hin. apply In_adel in Hin. auto.
Qed.

Lemma WL_infl_del : forall L s k, WL L s -> WL L (s <| s_inflight ::= adel dkey_eqb k |>).
Proof.
  unfold WL, W. intros L s k [[H1 [H2 [H3 [H4 H5]]]] HL]. cbn.
  w_split. intros k' t Hin. apply In_adel in Hin. eauto.
Qed.

Lemma WL_infl_set : forall L s k t, In t L -> WL L s -> WL L (s <| s_inflight ::= aset dkey_eqb k t |>).
Proof.
  unfold WL, W. intros L s k t Hin [[H1 [H2 [H3 [H4 H5]]]] HL]. cbn.
  w_split. intros k' t' Hk. apply In_aset in Hk. destruct Hk as [[-> ->]|Hk]; eauto.
Qed.

(* invocations *)
Lemma qops_ok_upd : forall l n i f x,
  aget iref_eqb i l = Some x -> (v_qops (f x) <> [] -> v_qops x <> [] \/ (0 < n)%nat) ->
  qops_ok l n -> qops_ok (aset iref_eqb i (f x) l) n.
Proof.
  unfold qops_ok. intros l n i f x E Hf H i' v Hin Hv. apply In_aset in Hin. destruct Hin as [[-> ->]|Hin]; [|eauto].
  destruct (Hf Hv) as [Hx|Hn]; [|exact Hn]. apply (aget_In iref_eqb iref_eqb_eq) in E. eauto.
Qed.

Lemma WL_upd_inv_keep : forall L s i f,
  (forall v, v_qops (f v) <> [] -> v_qops v <> []) -> WL L s -> WL L (upd_inv i f s).
Proof.
  unfold WL, W, upd_inv. intros L s i f Hf H. pose proof H as [[H1 [H2 [H3 [H4 H5]]]] HL].
  destruct (aget iref_eqb i (s_invs s)) as [x|] eqn:E; [|exact H]. cbn.
  w_split. eapply qops_ok_upd; [exact E| |exact H5]. intro Hv. left. auto.
Qed.

Lemma WL_upd_inv_any : forall L s i f t, In t L -> WL L s -> WL L (upd_inv i f s).
Proof.
  unfold WL, W, upd_inv. intros L s i f t Hin H. pose proof H as [[H1 [H2 [H3 [H4 H5]]]] HL].
  destruct (aget iref_eqb i (s_invs s)) as [x|] eqn:E; [|exact H]. cbn.
  w_split. eapply qops_ok_upd; [exact E| |exact H5]. intro Hv. right.
  specialize (HL _ Hin). lia.
Qed.

Lemma remove_nat_nonempty : forall o l, remove_nat o l <> [] -> l <> [].
Proof. intros o l H ->. apply H. reflexivity. Qed.

Lemma WL_inv_upd : forall L s i f, inv_upd f -> (L <> [] \/ forall v, v_qops (f v) <> [] -> v_qops v <> []) -> WL L s -> WL L (upd_inv i f s).
Proof.
  intros L s i f Hf [HL|Hk] H.
  - destruct L as [|t L]; [congruence|]. eapply WL_upd_inv_any; [left; reflexivity|exact H].
  - apply WL_upd_inv_keep; assumption.
Qed.

Lemma inv_upd_keeps_qops : forall f, inv_upd f ->
  (exists o, f = (fun v => v <| v_qops ::= fun l => l ++ [o] |>)) \/ (forall v, v_qops (f v) <> [] -> v_qops v <> []).
Proof.
  intros f Hf. destruct Hf; try (right; intros v Hv; exact Hv; fail).
  - left. eauto.
  - right. intros v Hv. cbn in Hv. eapply remove_nat_nonempty. exact Hv.
Qed.

Lemma WL_invs_new : forall L s i z, WL L s -> WL L (s <| s_invs ::= fun l => l ++ [(i, new_inv z)] |>).
Proof.
  unfold WL, W. intros L s i z [[H1 [H2 [H3 [H4 H5]]]] HL]. cbn. w_split.
  intros i' v Hin Hv. apply in_app_or in Hin. destruct Hin as [Hin|[Heq|[]]]; [eauto|].
  inversion Heq; subst. cbn in Hv. congruence.
Qed.

Lemma WL_invs_del : forall L s i, WL L s -> WL L (s <| s_invs := adel iref_eqb i (s_invs s) |>).
Proof.
  unfold WL, W. intros L s i [[H1 [H2 [H3 [H4 H5]]]] HL]. cbn. w_split.
  intros i' v Hin Hv. apply In_adel in Hin. eauto.
Qed.

(* workers and queues *)
Lemma workers_ok_upd_scq : forall l n k q q',
  aget skey_eqb k l = Some q ->
  (forall w wk t, In (w, wk) (q_workers q') -> k_task wk = Some t -> (t < n)%nat \/ In (w, wk) (q_workers q)) ->
  workers_ok l n -> workers_ok (aset skey_eqb k q' l) n.
Proof.
  unfold workers_ok. intros l n k q q' E Hq H k' q2 w wk t Hk Hw Ht.
  apply In_aset in Hk. destruct Hk as [[-> ->]|Hk]; [|eauto].
  destruct (Hq _ _ _ Hw Ht) as [Hn|Hin]; [exact Hn|]. apply (aget_In skey_eqb skey_eqb_eq) in E. eauto.
Qed.

Lemma WL_upd_scq : forall L s k f,
  (forall q w wk t, In (w, wk) (q_workers (f q)) -> k_task wk = Some t -> In (w, wk) (q_workers q)) ->
  WL L s -> WL L (upd_scq k f s).
Proof.
  unfold WL, W, upd_scq. intros L s k f Hf H. pose proof H as [[H1 [H2 [H3 [H4 H5]]]] HL].
  destruct (aget skey_eqb k (s_scqs s)) as [q|] eqn:E; [|exact H]. cbn.
  w_split. eapply workers_ok_upd_scq; [exact E| |exact H4].
  intros w wk t Hw Ht. right. eauto.
Qed.

Lemma get_worker_in : forall s w wk,
  aget wref_eqb w (q_workers (get_scq s (w_sk w))) = Some wk ->
  exists q, In (w_sk w, q) (s_scqs s) /\ In (w, wk) (q_workers q).
Proof.
  intros s w wk H. unfold get_scq in H. destruct (aget skey_eqb (w_sk w) (s_scqs s)) as [q|] eqn:E; [|discriminate].
  exists q. split; [apply (aget_In skey_eqb skey_eqb_eq); exact E|apply (aget_In wref_eqb wref_eqb_eq); exact H].
Qed.

Lemma WL_upd_worker : forall L s w f,
  (forall wk t, k_task (f wk) = Some t -> k_task wk = Some t \/ In t L) ->
  WL L s -> WL L (upd_worker w f s).
Proof.
  intros L s w f Hf H. unfold upd_worker. unfold worker_exists.
  destruct (aget wref_eqb w (q_workers (get_scq s (w_sk w)))) as [wk0|] eqn:Ew; [|exact H].
  destruct (get_worker_in _ _ _ Ew) as [q0 [Hq0 Hw0]].
  pose proof H as [[H1 [H2 [H3 [H4 H5]]]] HL].
  unfold WL, W, upd_scq. destruct (aget skey_eqb (w_sk w) (s_scqs s)) as [q|] eqn:E; [|exact H]. cbn.
  w_split. eapply workers_ok_upd_scq; [exact E| |exact H4].
  intros w' wk t Hw Ht. apply In_aset in Hw. destruct Hw as [[-> ->]|Hw]; [|right; exact Hw].
  unfold get_worker in Ht. rewrite Ew in Ht. destruct (Hf _ _ Ht) as [Hk|Hin].
  - left. eapply H4; eassumption.
  - left. auto.
Qed.

Lemma WL_newworker : forall L s k w n,
  WL L s -> WL L (upd_scq k (fun q => q <| q_workers ::= fun l => l ++ [(w, mkWorker None None false (Some []) false (repeat 0 n))] |>) s).
Proof.
  unfold WL, W, upd_scq. intros L s k w n H. pose proof H as [[H1 [H2 [H3 [H4 H5]]]] HL].
  destruct (aget skey_eqb k (s_scqs s)) as [q|] eqn:E; [|exact H]. cbn.
  w_split. eapply workers_ok_upd_scq; [exact E| |exact H4].
  intros w' wk t Hw Ht. cbn in Hw. apply in_app_or in Hw. destruct Hw as [Hw|[Heq|[]]]; [right; exact Hw|].
  inversion Heq; subst. discriminate.
Qed.

Lemma WL_delscq : forall L s k,
  WL L s -> WL L (s <| s_scqs := adel skey_eqb k (s_scqs s) |>
                    <| s_invs := filter (fun '(i, _) => negb (skey_eqb (i_sk i) k)) (s_invs s) |>).
Proof.
  unfold WL, W. intros L s k [[H1 [H2 [H3 [H4 H5]]]] HL]. cbn. w_split.
  - intros k' q w wk t Hk. apply In_adel in Hk. eauto.
  - intros i v Hin. apply filter_In in Hin. destruct Hin. eauto.
Qed.

Lemma WL_newscq : forall L s k b,
  WL L s -> WL L (s <| s_scqs ::= fun l => l ++ [(k, mkScq b None [] 0 [])] |>
                    <| s_invs ::= fun l => l ++ [(mkI k [], new_inv 0)] |>).
Proof.
  unfold WL, W. intros L s k b [[H1 [H2 [H3 [H4 H5]]]] HL]. cbn. w_split.
  - intros k' q w wk t Hk Hw. apply in_app_or in Hk. destruct Hk as [Hk|[Heq|[]]]; [eauto|]. inversion Heq; subst. destruct Hw.
  - intros i v Hin Hv. apply in_app_or in Hin. destruct Hin as [Hin|[Heq|[]]]; [eauto|]. inversion Heq; subst. cbn in Hv. congruence.
Qed.

(* ---- the closure tactic ----------------------------------------------------------------------- *)
Ltac in_L := solve [ assumption | auto with datatypes ].

Ltac w_frame :=
  (eapply WL_frame; [ | | | | | | | eassumption]); unfold panic, emit, upd_pq, set_call; reflexivity.

Ltac t_W :=
  intros;
  lazymatch goal with
  | |- WL _ (upd_task _ _ _) => apply WL_upd_task; [in_L | assumption]
  | |- WL _ (upd_op _ _ _) => apply WL_upd_op; [intros; reflexivity | assumption]
  | |- WL _ (upd_inv _ _ _) =>
    first
    [ match goal with Hf : inv_upd ?f |- _ =>
        apply WL_inv_upd; [exact Hf | first [ left; discriminate | left; (match goal with Hin : In _ ?L |- ?L <> [] => let Hnil := fresh "Hnil" in intro Hnil; rewrite Hnil in Hin; destruct Hin end) | right; destruct Hf; intros v Hv; first [exact Hv | eapply remove_nat_nonempty; exact Hv] ] | assumption ] end
    | (eapply WL_upd_inv_keep; [intros v Hv; first [exact Hv | eapply remove_nat_nonempty; exact Hv] | assumption])
    | match goal with |- WL (?t :: _) _ => eapply (WL_upd_inv_any _ _ _ _ t); [left; reflexivity | assumption] end
    | match goal with Hin : In ?t ?L |- WL ?L _ => eapply (WL_upd_inv_any _ _ _ _ t); [exact Hin | assumption] end ]
  | |- WL _ (upd_worker _ _ _) =>
    apply WL_upd_worker; [intros ? ? Hk; cbn in Hk; first [left; exact Hk | right; inversion Hk; subst; in_L | discriminate Hk] | assumption]
  | |- WL _ (upd_scq _ _ _) =>
    first
    [ (apply WL_newworker; assumption)
    | (apply WL_upd_scq; [intros ? ? ? ? Hw ?; exact Hw | assumption])
    | (apply WL_upd_scq; [intros ? ? ? ? Hw ?; cbn in Hw; eapply In_adel; exact Hw | assumption])
    | (apply WL_upd_scq; [intros q ? ? ? Hw ?; destruct (existsb _ (q_drains q)); exact Hw | assumption]) ]
  | |- WL _ (set _ _ _) =>
    first
    [ (apply WL_newop; [in_L | assumption])
    | (apply WL_delop; assumption)
    | (apply WL_infl_del; assumption)
    | (apply WL_infl_set; [in_L | assumption])
    | (apply WL_invs_new; assumption)
    | (apply WL_invs_del; assumption)
    | (apply WL_delscq; assumption)
    | (apply WL_newscq; assumption)
    | ((eapply WL_frame; [ | | | | | | | eassumption]); reflexivity) ]
  | |- _ => w_frame
  end.

Ltac w_go := inv_go fail t_W.

(* ---- functions on a task known to be valid ---------------------------------------------------------- *)
Lemma WL_assign_unqueued : forall L w t r s, In t L -> WL L s -> WL L (assign_unqueued w t r s).
Proof. intros. w_go. Qed.

Lemma WL_assign_queued : forall L w t r s, In t L -> WL L s -> WL L (assign_queued w t r s).
Proof. intros. w_go. Qed.

Lemma WL_schedule : forall L t s, In t L -> WL L s -> WL L (schedule t s).
Proof. intros. w_go. Qed.

Lemma WL_new_operation : forall L t prio i m s, In t L -> WL L s -> WL L (fst (new_operation t prio i m s)).
Proof. intros. w_go. Qed.

(* a task created in this event: extend the list, justify at its creation *)
Ltac w_leaf :=
  idtac; match goal with
  | |- WL ?L (schedule (s_ntasks ?S0) _) =>
    lazymatch L with (s_ntasks S0) :: _ => fail | _ => apply (WL_tail L _ (s_ntasks S0)) end
  | |- WL (s_ntasks ?S0 :: ?L) (set s_tasks _ (set s_ntasks S ?S0)) => apply WL_newtask
  | |- WL _ (set s_ops _ (set s_nops S _)) => apply WL_newop; [in_L | ]
  | |- WL _ (set s_inflight (aset _ _ _) _) => apply WL_infl_set; [in_L | ]
  end.
Ltac w_go ::= inv_go w_leaf t_W.

Lemma WL_complete_task : forall L t r b s, In t L -> WL L s -> WL L (complete_task t r b s).
Proof. intros. w_go. Qed.

(* ---- picking a task index out of the state -------------------------------------------------------- *)
Lemma W_pick_worker : forall s w t, W s -> k_task (get_worker s w) = Some t -> (t < s_ntasks s)%nat.
Proof.
  intros s w t [H1 [H2 [H3 [H4 H5]]]] Hk. unfold get_worker in Hk.
  destruct (aget wref_eqb w (q_workers (get_scq s (w_sk w)))) as [wk|] eqn:E; [|discriminate].
  destruct (get_worker_in _ _ _ E) as [q [Hq Hw]]. eapply H4; eassumption.
Qed.

Lemma W_pick_inflight : forall s k t, W s -> aget dkey_eqb k (s_inflight s) = Some t -> (t < s_ntasks s)%nat.
Proof.
  intros s k t [H1 [H2 [H3 [H4 H5]]]] Hk. apply (aget_In dkey_eqb dkey_eqb_eq) in Hk. eapply H3; eassumption.
Qed.

Lemma W_pick_op : forall s o, W s -> op_alive s o = true -> (o_task (get_op s o) < s_ntasks s)%nat.
Proof.
  intros s o [H1 [H2 [H3 [H4 H5]]]] Ha. unfold op_alive in Ha. unfold get_op.
  destruct (aget Nat.eqb o (s_ops s)) as [x|] eqn:E; [|discriminate].
  apply (aget_In Nat.eqb nat_eqb_eq) in E. destruct (H2 _ _ E). assumption.
Qed.

Lemma W_pick_any_op : forall s o, W s -> (0 < s_ntasks s)%nat -> (o_task (get_op s o) < s_ntasks s)%nat.
Proof.
  intros s o HW H0. destruct (op_alive s o) eqn:Ea; [apply W_pick_op; assumption|].
  unfold op_alive in Ea. unfold get_op. destruct (aget Nat.eqb o (s_ops s)); [discriminate|]. exact H0.
Qed.

Lemma W_pick_qop : forall s d v o tl, W s -> In (d, v) (s_invs s) -> v_qops v = o :: tl ->
  (o_task (get_op s o) < s_ntasks s)%nat.
Proof.
  intros s d v o tl HW Hin Hq. apply W_pick_any_op; [exact HW|].
  destruct HW as [H1 [H2 [H3 [H4 H5]]]]. eapply H5; [exact Hin|]. rewrite Hq. discriminate.
Qed.

Lemma W_candidates : forall fuel s i lk lim st r0 t r,
  W s -> In (t, r) (next_candidates fuel s i lk lim st r0) -> (t < s_ntasks s)%nat.
Proof.
  induction fuel as [|fuel IH]; intros s i lk lim st r0 t r HW Hin; [destruct Hin|].
  cbn [next_candidates] in Hin.
  destruct (min_op s (v_qops (get_inv s i))) as [o|] eqn:Em.
  - destruct Hin as [Heq|[]]. inversion Heq; subst.
    unfold min_op in Em. destruct (minimal (ops_less s) (v_qops (get_inv s i))) as [|o1 tl1] eqn:Emin; [discriminate|].
    inversion Em; subst.
    assert (Hin : In o (v_qops (get_inv s i))) by (apply (minimal_incl (ops_less s)); rewrite Emin; left; reflexivity).
    unfold get_inv in Hin. destruct (aget iref_eqb i (s_invs s)) as [v|] eqn:Ei; [|destruct Hin].
    apply (aget_In iref_eqb iref_eqb_eq) in Ei.
    apply W_pick_any_op; [exact HW|]. destruct HW as [H1 [H2 [H3 [H4 H5]]]]. eapply H5; [exact Ei|].
    intro Hnil. rewrite Hnil in Hin. destruct Hin.
  - apply in_flat_map in Hin. destruct Hin as [best [_ Hres]].
    destruct lk as [[|k0 krest]|]; destruct lim as [|lim0 limrest]; cbv zeta in Hres; try (eapply IH; eassumption).
    match type of Hres with In _ (if ?b then _ else _) => destruct b end; eapply IH; eassumption.
Qed.

(* ---- functions that pick their task out of the state ------------------------------------------------- *)
Ltac w_leaf2 :=
  first [ w_leaf
        | lazymatch goal with
          | |- WL _ (complete_task _ _ _ _) => apply WL_complete_task; [in_L | ]
          | |- WL _ (schedule _ _) => apply WL_schedule; [in_L | ]
          | |- WL _ (assign_queued _ _ _ _) => apply WL_assign_queued; [in_L | ]
          end ].
Ltac w_go2 := inv_go w_leaf2 t_W.

Lemma WL_assign_next_queued_task : forall L w s, WL L s -> WL L (fst (assign_next_queued_task w s)).
Proof.
  intros L w s H. unfold assign_next_queued_task. cbv zeta.
  destruct (pick_next s w _) as [[t r]|] eqn:Ep; cbn [fst]; [|exact H].
  apply pick_next_in in Ep. apply (W_candidates _ _ _ _ _ _ _ _ _ (WL_W _ _ H)) in Ep.
  apply (WL_tail L _ t). apply WL_assign_queued; [left; reflexivity|]. apply WL_cons; assumption.
Qed.

Lemma WL_operation_remove : forall L o s, op_alive s o = true -> WL L s -> WL L (operation_remove o s).
Proof.
  intros L o s Ha H. pose proof (W_pick_op s o (WL_W _ _ H) Ha) as Ht.
  apply (WL_tail L _ (o_task (get_op s o))). apply (WL_cons _ _ _ H) in Ht. clear H.
  unfold operation_remove. w_go2.
  (* QUEUED: prune empty invocations upwards *)
  all: match goal with |- WL ?L' (fst (fold_left ?g ?l ?a)) => apply (fold_left_pres (fun acc => WL L' (fst acc)) g l) end;
    [ intros [s1 go] j H1; cbn [fst] in *; destruct go; [w_go2 | assumption] | cbn [fst]; w_go2 ].
Qed.

Lemma WL_cancel_all_queued : forall L i r s, WL L s -> WL L (cancel_all_queued i r s).
Proof.
  intros L i r s H. rewrite cancel_all_queued_eq. apply cancel_go_closed; [|exact H].
  intros s1 d v o tl H1 Hin Hq. pose proof (W_pick_qop _ _ _ _ _ (WL_W _ _ H1) Hin Hq) as Ht.
  apply (WL_tail L _ (o_task (get_op s1 o))). apply WL_complete_task; [left; reflexivity|]. apply WL_cons; assumption.
Qed.

Lemma WL_scq_remove : forall L k s, WL L s -> WL L (scq_remove k s).
Proof. intros L k s H. unfold scq_remove. inv_go ltac:(idtac; lazymatch goal with |- WL _ (cancel_all_queued _ _ _) => apply WL_cancel_all_queued end) t_W. Qed.

Lemma WL_remove_stale_worker : forall L w z s, WL L s -> WL L (remove_stale_worker w z s).
Proof.
  intros L w z s H. unfold remove_stale_worker. cbv zeta.
  assert (H1 : WL L (mark_terminating w s)) by w_go2.
  set (s1 := mark_terminating w s) in *. clearbody s1. clear H.
  assert (H2 : WL L (match k_task (get_worker s1 w) with None => s1 | Some t => complete_task t (mkResp cUNAVAILABLE 0 0) false s1 end)).
  { destruct (k_task (get_worker s1 w)) as [t|] eqn:Ek; [|exact H1].
    pose proof (W_pick_worker _ _ _ (WL_W _ _ H1) Ek) as Ht.
    apply (WL_tail L _ t). apply WL_complete_task; [left; reflexivity|]. apply WL_cons; assumption. }
  match goal with H2 : WL L ?e |- _ => set (s2 := e) in *; clearbody s2 end.
  w_go2.
Qed.

Lemma cleanup_entry_op_alive : forall s z o, In (z, CE_op o) (cleanup_entries s) -> op_alive s o = true.
Proof.
  intros s z o Hin. unfold cleanup_entries in Hin. apply in_app_or in Hin. destruct Hin as [Hin|Hin].
  - apply in_flat_map in Hin. destruct Hin as [[o' x] [Hox Hin]].
    destruct (o_cleanup x); [|destruct Hin]. destruct Hin as [Heq|[]]. inversion Heq; subst.
    (* the first entry with this key is some operation *)
    unfold op_alive. destruct (aget Nat.eqb o (s_ops s)) eqn:E; [reflexivity|].
    apply (aget_None_notin Nat.eqb nat_eqb_eq) in E. exfalso. apply E. apply (in_map fst) in Hox. exact Hox.
  - exfalso. apply in_app_or in Hin. destruct Hin as [Hin|Hin]; apply in_flat_map in Hin; destruct Hin as [[k q] [_ Hin]].
    + apply in_flat_map in Hin. destruct Hin as [[w wk] [_ Hin]]. destruct (k_cleanup wk); [|destruct Hin].
      destruct Hin as [Heq|[]]. discriminate.
    + destruct (q_cleanup q); [|destruct Hin]. destruct Hin as [Heq|[]]. discriminate.
Qed.

Lemma WL_run_entry : forall L e s, In e (cleanup_entries s) -> WL L s -> WL L (run_entry e s).
Proof.
  intros L [z ce] s Hin H. unfold run_entry. cbn [fst snd]. destruct ce as [o|w|k].
  - apply WL_operation_remove; [|w_go2]. rewrite op_alive_upd_op. eapply cleanup_entry_op_alive. exact Hin.
  - apply WL_remove_stale_worker. w_go2.
  - apply WL_scq_remove. w_go2.
Qed.

Lemma WL_enter : forall L t s, WL L s -> WL L (enter t s).
Proof.
  intros L t s H. unfold enter. destruct (s_now s <? t); [|exact H]. cbv zeta.
  apply cleanup_run_closed; [intros; t_W | intros; apply WL_run_entry; assumption | w_go2].
Qed.

