(* The monitor on the model's trace: e_gone (position 19).  A done message names an operation that is still registered
   in the post-state (the stream stays parked on it), so the component has nothing to say on model traces. *)
From Coq Require Import Lia Permutation.
From VF Require Export Sched.ProofsMon15.
From VF Require Import Sched.Spec Sched.Corr Sched.ProofsObsLink Sched.ProofsStreams Sched.ProofsWaiters Sched.ProofsEnabled.
Open Scope Z_scope.

Lemma pc_gone_ok : forall cfg t0 pfx e h m,
  fresh_calls [] (pfx ++ [(e, h)]) -> InvS cfg t0 pfx m ->
  let s := fst (run (init cfg t0) pfx) in
  pc_gone (observe (fst (step s (e, h)))) e (snd (step s (e, h))) m = ""%string.
Proof.
  intros cfg t0 pfx e h m Hf HI s. set (s' := fst (step s (e, h))). set (o := snd (step s (e, h))).
  assert (Es' : fst (run (init cfg t0) (pfx ++ [(e, h)])) = s') by apply run_snoc_fst.
  unfold pc_gone. cbv zeta. apply first_nonempty_all_empty. intros y Hy. apply in_map_iff in Hy. destruct Hy as [x [<- Hx]].
  destruct x as [c n st d| | | |]; try reflexivity. destruct d as [r|]; [|reflexivity].
  destruct (get_stream (pm2 e o m) c) as [sm|] eqn:Eg; [|reflexivity].
  destruct (find_dop (observe s') n) eqn:Ef; [reflexivity|exfalso].
  assert (Hk : kind_of (pfx ++ [(e, h)]) c = true).
  { destruct (kind_of (pfx ++ [(e, h)]) c) eqn:Hk; [reflexivity|exfalso]. rewrite kind_of_snoc in Hk. apply orb_false_iff in Hk. destruct Hk as [Hk0 Hk1].
    rewrite (get_stream_frame _ _ c (pm2_streams e o m)), mon_event_stream in Eg. pose proof (proj1 HI c) as Hc0. rewrite Hk0 in Hc0. cbn [smi] in Hc0.
    destruct (stream_start e && Nat.eqb (ev_call e) c) eqn:Eb.
    - apply andb_true_iff in Eb. destruct Eb as [Eb1 Eb2]. rewrite Eb1, Eb2 in Hk1. destruct e; discriminate.
    - destruct e; try congruence. destruct (Nat.eqb c0 c); [rewrite Hc0 in Eg; discriminate|congruence]. }
  destruct (stream_facts cfg t0 pfx e h c Hf Hk) as [A [B _]]. fold s s' o in A, B.
  assert (Ht : tagged c (OMsg c n st (Some r)) = true) by apply tagged_self_msg.
  destruct (Nat.eq_dec (ev_call e) c) as [Hec|Hnc].
  2:{ destruct (B Hnc) as [_ E0]. pose proof (ctag_nil_untagged c o E0 _ Hx) as Hu. congruence. }
  destruct (A Hec) as [p [l [Ep [El Q]]]].
  assert (Hxl : In (OMsg c n st (Some r)) (rev l)) by (rewrite <- El; unfold ctag; apply filter_In; auto).
  destruct Q as [[-> _]|[[o' [-> [_ Epc]]]|[code [-> _]]]]; [destruct Hxl| |destruct Hxl as [E|[]]; discriminate].
  cbn [rev app] in Hxl. destruct Hxl as [E|[]]. inversion E as [[E1 E2 E3]]. subst o'. rewrite Epc in Ep. unfold msg_pc in Ep. rewrite E3 in Ep.
  pose proof (parked_alive_all cfg t0 (pfx ++ [(e, h)]) c (PStreamReturn n cOK) n Hf) as Ha. cbv zeta in Ha. rewrite Es' in Ha. specialize (Ha Ep eq_refl).
  unfold op_alive in Ha. destruct (aget Nat.eqb n (s_ops s')) as [y|] eqn:Ey; [|discriminate]. rewrite (find_dop_observe s' n y Ey) in Ef. discriminate.
Qed.

Theorem monitor_gone_on_model : forall cfg t0 evs,
  selectors_in_range (init cfg t0) evs -> fresh_calls [] evs -> bg_scripts_ok evs -> causes_ok evs ->
  panicked (snd (run (init cfg t0) evs)) \/ trace_sub [19%nat] cfg t0 (model_trace cfg t0 evs) = true.
Proof.
  intros cfg t0 evs Hsel Hfr Hbg Hc.
  apply (trace_sub_generic2 cfg t0 [19%nat] causes_ok (fun pfx m _ => InvS cfg t0 pfx m) causes_ok_prefix) with (pfx := []) (m := mon0) (pre := empty_dump);
    [|split; [exact Hsel|split; assumption]|exact Hc|intros [o [what [[] _]]]|].
  - intros pfx [e h] m pre Hg Hq Hnp HI. cbv zeta. split; [|apply InvS_step; [exact (proj1 (proj2 Hg))|exact Hq|exact HI]].
    cbn [forallb]. rewrite andb_true_r. apply String.eqb_eq. unfold p_components. cbv zeta. cbn [nth fst].
    apply pc_gone_ok; [exact (proj1 (proj2 Hg))|exact HI].
  - split; [intro c; cbn; reflexivity|]. intros t r Hr. unfold init, get_task in Hr. cbn in Hr. discriminate.
Qed.
