(* Monitor side of positions 14 / 15: the retry bookkeeping reads and writes only m_reissue.  Nothing else of the monitor state
   matters for it, and nothing else of p_step changes m_reissue: the two positions and the next m_reissue are given by
   pm_clear / rereq / retry_step / pc_early / pm_follow (ProofsMon1.v) applied to the monitor state BEFORE the event.  (This is
   the statement that the isolated copy rt_step of ProofsRetry3.v is checked against by computation.) *)
From Coq Require Import Lia.
From VF Require Export Sched.ProofsMon1.
From VF Require Import Sched.Spec Sched.Corr.
Open Scope Z_scope.

Lemma mon_event_reissue : forall e m, m_reissue (mon_event e m) = m_reissue m.
Proof.
  intros e m. destruct e; cbn; try reflexivity.
  - destruct (x_sel a) as [[[? ?] ?] ?]. reflexivity.
  - destruct (y_state a); reflexivity.
Qed.
Lemma pm2_reissue : forall e o m, m_reissue (pm2 e o m) = m_reissue m.
Proof.
  intros e o m. unfold pm2, pm1. cbv zeta. cbn [m_reissue set]. rewrite <- (mon_event_reissue e m). destruct e; try reflexivity.
  destruct (existsb _ o); [|reflexivity]. destruct (x_sel a) as [[[? ?] ?] ?]. reflexivity.
Qed.
Lemma c02_obs_reissue : forall post m err x, m_reissue (fst (c02_obs post (m, err) x)) = m_reissue m.
Proof.
  intros post m err x. unfold c02_obs. destruct x; try reflexivity.
  - destruct (get_stream m c) as [sm|]; [|reflexivity]. destruct (sm_done sm); reflexivity.
  - destruct (get_stream m c); reflexivity.
  - destruct (find _ (m_syncs m)) as [[c' w]|]; reflexivity.
Qed.
Lemma c02_fold_reissue : forall post o m err, m_reissue (fst (fold_left (c02_obs post) o (m, err))) = m_reissue m.
Proof.
  intros post o. induction o as [|x o IH]; intros m err; cbn [fold_left]; [reflexivity|].
  destruct (c02_obs post (m, err) x) as [m1 e1] eqn:E. rewrite IH. pose proof (c02_obs_reissue post m err x) as H. rewrite E in H. exact H.
Qed.
Lemma pm3_reissue : forall post e o m, m_reissue (pm3 post e o m) = m_reissue m.
Proof. intros post e o m. unfold pm3. rewrite c02_fold_reissue. apply pm2_reissue. Qed.

(* the bookkeeping depends on the monitor state through m_reissue only *)
Lemma pm_clear_ext : forall pre e m m', m_reissue m = m_reissue m' -> m_reissue (pm_clear pre e m) = m_reissue (pm_clear pre e m').
Proof.
  intros pre e m m' H. unfold pm_clear. destruct e; try exact H. destruct (y_state a); try exact H.
  destruct (find_dworker _ _ _) as [k|]; [|exact H]. destruct (dw_task k); [|exact H]. destruct (existsb _ _); [|exact H]. cbn. rewrite H. reflexivity.
Qed.
Lemma rereq_ext : forall pre e m m', m_reissue m = m_reissue m' -> rereq pre e m = rereq pre e m'.
Proof. intros pre e m m' H. unfold rereq. rewrite H. reflexivity. Qed.
Lemma retry_step_ext : forall cfg post e o rr m m', m_reissue m = m_reissue m' ->
  snd (retry_step cfg post e o rr m) = snd (retry_step cfg post e o rr m') /\
  m_reissue (fst (retry_step cfg post e o rr m)) = m_reissue (fst (retry_step cfg post e o rr m')).
Proof.
  intros cfg post e o rr m m' H. unfold retry_step. destruct rr as [[[w ops] n]|]; [|split; [reflexivity|exact H]].
  destruct e; try (split; [reflexivity|exact H]). destruct (find_dworker _ _ _) as [k|]; [|split; [reflexivity|exact H]].
  destruct (dw_task k); [|split; [reflexivity|exact H]]. destruct (_ && _); [|split; [reflexivity|exact H]]. cbn. rewrite H. split; reflexivity.
Qed.
Lemma pm_follow_ext : forall post m m', m_reissue m = m_reissue m' -> m_reissue (pm_follow post m) = m_reissue (pm_follow post m').
Proof. intros post m m' H. unfold pm_follow. cbn. rewrite H. reflexivity. Qed.
Lemma pm_terms_reissue : forall post e m, m_reissue (pm_terms post e m) = m_reissue m.
Proof. intros post e m. unfold pm_terms. destruct e; reflexivity. Qed.

(* positions 14 and 15 and the next m_reissue, from the monitor state before the event *)
Theorem retry_positions_isolated : forall cfg t0 m pre e o post,
  let mc := pm_clear pre e m in
  let rr := rereq pre e mc in
  nth 14 (p_components cfg t0 m pre e o post) ""%string = snd (retry_step cfg post e o rr mc) /\
  nth 15 (p_components cfg t0 m pre e o post) ""%string = pc_early cfg pre post rr /\
  m_reissue (pm_final cfg pre post e o m) = m_reissue (pm_follow post (fst (retry_step cfg post e o rr mc))).
Proof.
  intros cfg t0 m pre e o post mc rr. unfold p_components, pm_final. cbv zeta. cbn [nth].
  assert (Hc : m_reissue (pm_clear pre e (pm3 post e o m)) = m_reissue mc) by (apply pm_clear_ext, pm3_reissue).
  rewrite (rereq_ext pre e _ mc Hc). fold rr.
  destruct (retry_step_ext cfg post e o rr _ mc Hc) as [E1 E2].
  split; [exact E1|]. split; [reflexivity|]. rewrite pm_terms_reissue. apply pm_follow_ext. exact E2.
Qed.
