(* Types of the scheduler model (pkg/scheduler/in_memory_build_queue.go).

   Identification of objects between model and implementation:
   - operations by creation index (the harness injects a UUID generator
     producing sequential names), tasks by creation index in the model and
     by their operation sets in dumps;
   - platform queues by (instance name prefix components, platform id),
     size class queues by (platform queue, size class);
   - invocations by (size class queue, key path), workers by (size class
     queue, worker id pair);
   - calls (RPC goroutines) by call id. *)
From Coq Require Export List NArith ZArith Bool String.
From RecordUpdate Require Export RecordSet.
Export ListNotations RecordSetNotations.
Open Scope Z_scope.

Definition key := N.
Definition path := list key.
Record pkey := mkPK { pk_prefix : list N; pk_plat : N }.
Record skey := mkSK { sk_pk : pkey; sk_sc : N }.
Record wref := mkW { w_sk : skey; w_h : N; w_t : N }.
Record iref := mkI { i_sk : skey; i_path : path }.

Fixpoint list_eqb {A} (eqb : A -> A -> bool) (a b : list A) : bool :=
  match a, b with
  | [], [] => true
  | x :: a', y :: b' => eqb x y && list_eqb eqb a' b'
  | _, _ => false
  end.
Definition path_eqb := list_eqb N.eqb.
Definition pkey_eqb (a b : pkey) := list_eqb N.eqb (pk_prefix a) (pk_prefix b) && (pk_plat a =? pk_plat b)%N.
Definition skey_eqb (a b : skey) := pkey_eqb (sk_pk a) (sk_pk b) && (sk_sc a =? sk_sc b)%N.
Definition wref_eqb (a b : wref) := skey_eqb (w_sk a) (w_sk b) && (w_h a =? w_h b)%N && (w_t a =? w_t b)%N.
Definition iref_eqb (a b : iref) := skey_eqb (i_sk a) (i_sk b) && path_eqb (i_path a) (i_path b).
Definition opt_eqb {A} (eqb : A -> A -> bool) (a b : option A) : bool :=
  match a, b with
  | None, None => true
  | Some x, Some y => eqb x y
  | _, _ => false
  end.

(* association lists; [aset] replaces in place or appends *)
Section Assoc.
  Context {K V : Type} (eqb : K -> K -> bool).
  Fixpoint aget (k : K) (l : list (K * V)) : option V :=
    match l with
    | [] => None
    | (k', v) :: tl => if eqb k k' then Some v else aget k tl
    end.
  Fixpoint aset (k : K) (v : V) (l : list (K * V)) : list (K * V) :=
    match l with
    | [] => [(k, v)]
    | (k', v') :: tl => if eqb k k' then (k, v) :: tl else (k', v') :: aset k v tl
    end.
  Fixpoint adel (k : K) (l : list (K * V)) : list (K * V) :=
    match l with
    | [] => []
    | (k', v') :: tl => if eqb k k' then tl else (k', v') :: adel k tl
    end.
End Assoc.

(* scripted initial-size-class learner: what Succeeded / Failed return *)
Inductive learner :=
| Learner (lid : N)
    (succ : option (nat * Z * Z * learner))   (* background: size class index, expected duration, timeout, learner *)
    (fail : option (Z * Z * learner)).        (* retry on largest: expected duration, timeout, learner *)
Definition l_id (l : learner) := let '(Learner i _ _) := l in i.
Definition l_succ (l : learner) := let '(Learner _ s _) := l in s.
Definition l_fail (l : learner) := let '(Learner _ _ f) := l in f.

(* An ExecuteResponse as far as the scheduler looks at it: gRPC code of
   Status, exit code of Result (0 when absent), and a tag identifying the
   message (worker-supplied responses carry a unique tag > 0 in Message;
   scheduler-made ones 0). *)
Record resp := mkResp { r_code : N; r_exit : Z; r_tag : N }.
Definition resp_eqb (a b : resp) := (r_code a =? r_code b)%N && (r_exit a =? r_exit b) && (r_tag a =? r_tag b)%N.
Definition resp_success (r : resp) := (r_code r =? 0)%N && (r_exit r =? 0).

(* gRPC codes used *)
Definition cOK : N := 0.  Definition cCANCELLED : N := 1. Definition cINVALID : N := 3.
Definition cDEADLINE : N := 4. Definition cNOTFOUND : N := 5. Definition cALREADY : N := 6.
Definition cEXHAUSTED : N := 8. Definition cFAILEDPRE : N := 9. Definition cINTERNAL : N := 13.
Definition cUNAVAILABLE : N := 14.

Record config := mkConfig {
  cf_update_interval : Z;      (* ExecutionUpdateInterval *)
  cf_nowaiters : Z;            (* OperationWithNoWaitersTimeout *)
  cf_pq_noworkers : Z;         (* PlatformQueueWithNoWorkersTimeout *)
  cf_busy_sync : Z;            (* BusyWorkerSynchronizationInterval *)
  cf_idle_sync : Z;            (* GetIdleWorkerSynchronizationInterval() *)
  cf_retry_count : nat;        (* WorkerTaskRetryCount *)
  cf_worker_timeout : Z }.     (* WorkerWithNoSynchronizationsTimeout *)

Record task := mkTask {
  t_ops : list (iref * nat);     (* invocation -> operation id *)
  t_instance : list N;            (* instance name of the action digest *)
  t_digest : N;
  t_dnc : option bool;           (* Action.DoNotCache; None once Action was cleared *)
  t_timeout : Z;                 (* Action.Timeout *)
  t_qts : Z;                     (* QueuedTimestamp *)
  t_suffix : list N;             (* InstanceNameSuffix components *)
  t_worker : option wref;
  t_retry : nat;
  t_expdur : Z;
  t_learner : option learner;
  t_resp : option resp;
  t_gen : nat }.                 (* generation of stageChangeWakeup *)
#[export] Instance eta_task : Settable _ :=
  settable! mkTask <t_ops; t_instance; t_digest; t_dnc; t_timeout; t_qts; t_suffix; t_worker; t_retry; t_expdur; t_learner; t_resp; t_gen>.

Record oper := mkOper {
  o_task : nat; o_prio : Z; o_inv : iref; o_waiters : nat; o_mayexist : bool; o_cleanup : option Z }.
#[export] Instance eta_oper : Settable _ :=
  settable! mkOper <o_task; o_prio; o_inv; o_waiters; o_mayexist; o_cleanup>.

Record inv := mkInv {
  v_qops : list nat;             (* queued operations (heap, as a set) *)
  v_first : Z;                   (* firstQueuedOperationPriority *)
  v_exec : list (wref * nat);    (* executingWorkers *)
  v_started : Z; v_completed : Z;
  v_idle : N;                    (* idleWorkersCount *)
  v_isync : list wref }.         (* idleSynchronizingWorkers, list order *)
#[export] Instance eta_inv : Settable _ :=
  settable! mkInv <v_qops; v_first; v_exec; v_started; v_completed; v_idle; v_isync>.

Record worker := mkWorker {
  k_task : option nat; k_cleanup : option Z; k_term : bool;
  k_last : option path;          (* lastInvocation (within its size class queue) *)
  k_wait : bool;                 (* wakeup != nil *)
  k_sticky : list Z }.
#[export] Instance eta_worker : Settable _ :=
  settable! mkWorker <k_task; k_cleanup; k_term; k_last; k_wait; k_sticky>.

Definition pattern := (option N * option N)%type.   (* worker ID pattern over the two attributes *)
Definition pattern_eqb (a b : pattern) := opt_eqb N.eqb (fst a) (fst b) && opt_eqb N.eqb (snd a) (snd b).
Definition matches (w : wref) (p : pattern) : bool :=
  match fst p with Some h => (w_h w =? h)%N | None => true end &&
  match snd p with Some t => (w_t w =? t)%N | None => true end.

Record scq := mkScq {
  q_removable : bool; q_cleanup : option Z; q_drains : list pattern; q_undrain : nat;
  q_workers : list (wref * worker) }.
#[export] Instance eta_scq : Settable _ :=
  settable! mkScq <q_removable; q_cleanup; q_drains; q_undrain; q_workers>.

Record pq := mkPq {
  p_key : pkey; p_limits : list Z; p_maxbg : nat; p_bgprio : Z; p_scs : list N }.
#[export] Instance eta_pq : Settable _ := settable! mkPq <p_key; p_limits; p_maxbg; p_bgprio; p_scs>.

(* ---- calls (RPC goroutines) ---------------------------------------------- *)

Record exec_args := mkExec {
  x_instance : list N;        (* instance name components of the request *)
  x_plat : N;                 (* platform id returned by the router *)
  x_digest : N;
  x_dnc : bool;
  x_prio : Z;
  x_keys : path;              (* invocation keys returned by the router *)
  x_sel : nat * Z * Z * learner }.  (* what Select returns *)

Inductive wstate :=
| WIdle
| WExecuting (digest : N)              (* any non-completed execution state *)
| WCompleted (digest : N) (r : resp)
| WNoState.                            (* CurrentState missing *)

Record sync_args := mkSync {
  y_worker : wref; y_state : wstate; y_prefer_idle : bool }.

(* where a call is parked *)
Inductive pc :=
| PExecStart (a : exec_args)
| PWaitStart (name : nat)                   (* WaitExecution: first section *)
| PWaitRecheck (name : nat)                 (* after the unlocked authorization *)
| PStream (o : nat) (gen : nat)             (* in select: captured stageChangeWakeup generation *)
| PStreamCancelled (o : nat)                (* ctx.Done taken, at the clock gate *)
| PStreamReturn (o : nat) (code : N)        (* after the final Send, at the clock gate *)
| PSyncStart (a : sync_args)
| PSyncDrained (w : wref) (gen : nat)       (* in select on undrainWakeup *)
| PSyncQueued (w : wref)                    (* in select on w.wakeup *)
| PSyncCancelled (w : wref) (queued : bool) (* ctx.Done taken, at the clock gate *)
| PKillLookup (name : nat) (code : N)         (* KillOperations by name: first section (after a failed recheck) *)
| PKillRecheck (name : nat) (code : N)        (* after the unlocked authorization *)
| PTerminate (waits : list (nat * nat))     (* (task, generation) still to be awaited; not gated *)
| PSimple                                   (* single-section calls, parked at their first gate *)
| PDone.

(* ---- observations --------------------------------------------------------- *)
Inductive ghost :=
| GSelAbandoned | GSelect
| GSucceeded (lid : N) | GFailed (lid : N) (timed_out : bool) | GAbandoned (lid : N).

Inductive desired :=
| DNone                       (* no DesiredState: keep doing what you do *)
| DIdle
| DExec (digest : N) (dnc : bool) (timeout : Z) (qts : Z) (suffix : list N).

Inductive obs :=
| OMsg (c : nat) (name : nat) (stage : N) (done : option resp)   (* stream Send *)
| ORet (c : nat) (code : N)                                      (* call returned (gRPC code) *)
| OSync (c : nat) (d : desired) (next_sync : Z)                  (* Synchronize returned a response *)
| OGhost (g : ghost)
| OPanic (what : string).
